(* Refinement: the MiniC program regenerated from src/hydrodiy/gis/c_catchment.c and c_grid.c
   (Gen/KernelsAst.v) computes, for ALL inputs, what the hand-written models of
   Model/Catchment.v (flowpaths, river) and Model/Grid.v (downstream, getcoord) compute.

   Kernels: c_delineate_flowpathlengths_in_catchment, c_delineate_river.
   Callees (run lemmas, first part): getnxy, c_neighbours, c_downstream on one cell,
   c_catchment.stepsquaredist, celldist, getcoord.

   The models of Model/Catchment.v are written for the table FLOWDIRCODE; the kernels take the
   table as an argument.  The theorems are proved for an arbitrary table of 9 codes
   ([flowpaths_with], [river_with]: the models with the table as a parameter, equal to the
   models of Model/Catchment.v at FLOWDIRCODE) and then specialised. *)
From Coq Require Import ZArith Bool List String Lia PrimFloat Reals Lra.
From Hy Require Import Base.Num Base.MiniC Gen.Consts Gen.KernelsAst Model.Grid Model.Catchment.
Import ListNotations.
Open Scope string_scope.
Open Scope list_scope.
Open Scope Z_scope.

(* ================================================================== *)
(* Generic helpers (candidates for Base/MiniC.v)                        *)
(* ================================================================== *)

(* total version of zset *)
Definition upd {A} (l : list A) (i : Z) (v : A) : list A :=
  match zset l i v with Some l' => l' | None => l end.

Lemma upd_length {A} (l : list A) i v : List.length (upd l i v) = List.length l.
Proof. unfold upd. destruct (zset l i v) eqn:E; [|reflexivity]. eapply zset_length; eauto. Qed.

(* the bounds test of an array argument passed from offset 0 *)
Lemma zlen_ltb0 {A} (l : list A) : (MiniC.zlen l <? 0) = false.
Proof. apply Z.ltb_ge. rewrite zlen_eq. lia. Qed.

Lemma skipn5_cons {A} (a b c d e : A) l L :
  skipn (5 * S L) (a :: b :: c :: d :: e :: l) = skipn (5 * L) l.
Proof. replace (5 * S L)%nat with (S (S (S (S (S (5 * L))))))%nat by lia. reflexivity. Qed.

(* Executing a long body in segments: [cbn] on a whole body leaves the continuation of every
   stuck call / conditional evaluated on a bound state, and the kernel re-checks each of these
   conversions at Qed (minutes for a body of 20 statements).  Splitting the body with this
   lemma and running each segment by its own lemma keeps every conversion small. *)
Section ExecSeq.
Context {T : Type} (N : NumOps T) (X : NumLit T).
Lemma exec_seq_app (cf : callee T) fu l1 l2 st :
  l2 <> [] ->
  exec N X cf fu (seq (l1 ++ l2)) st =
  match exec N X cf fu (seq l1) st with
  | Ok (ONormal, st') => exec N X cf fu (seq l2) st'
  | r => r
  end.
Proof.
  intros H2. revert st. induction l1 as [|a l1 IH]; intros st.
  - reflexivity.
  - destruct l1 as [|b l1].
    + cbn [app seq]. destruct l2 as [|c l2]; [contradiction|]. reflexivity.
    + change (seq ((a :: b :: l1) ++ l2)) with (SSeq a (seq ((b :: l1) ++ l2))).
      change (seq (a :: b :: l1)) with (SSeq a (seq (b :: l1))).
      cbn [exec]. destruct (exec N X cf fu a st) as [[[| | |v] st1]|]; try reflexivity.
      apply IH.
Qed.
End ExecSeq.

(* ================================================================== *)
(* Part 1: the callees                                                  *)
(* ================================================================== *)


Section Callees.
Context {T : Type} (N : NumOps T) (X : NumLit T).

Lemma getnxy_run n ncols idx a b :
  ncols <> 0 -> (0 < n)%nat ->
  exec_fun N X program n "getnxy" [AVI ncols; AVI idx; AVArrI [a; b]]
  = Ok (RI 0, [VArrI [getnx ncols idx; getny ncols idx]]).
Proof.
  intros H Hn. destruct n as [|n]; [lia|]. cbn. zb. cbn. zb. cbn. reflexivity.
Qed.

#[local] Arguments neighbour_at : simpl never.

(* ---------------- c_neighbours ---------------- *)
(* Two nested loops of three iterations: the step obligations are proved by enumerating the
   iteration counters (12 concrete cases run by cbn); the array after every store is given by
   the folds [nb_row] / [nb_all] over [upd]. *)
Section Neigh.
Variables nrows ncols idx : Z.

Definition nbst ix iy nx ny k (arr : list Z) : state T :=
 {| s_i := [("nrows", nrows); ("ncols", ncols); ("idxcell", idx); ("ix", ix); ("iy", iy);
            ("nx0", getnx ncols idx); ("nx", nx); ("ny0", getny ncols idx); ("ny", ny); ("k", k)];
    s_f := [];
    s_ai := [("neighbours", arr); ("nxy", [getnx ncols idx; getny ncols idx])];
    s_af := [] |}.

Definition nb_cell (l : list Z) (ix iy : Z) : list Z :=
  upd l (1 + ix + (1 + iy) * 3) (neighbour_at nrows ncols (getnx ncols idx) (getny ncols idx) (ix, iy)).
Definition nb_row (l : list Z) (iy : Z) (kx : nat) : list Z :=
  fold_left (fun l ix => nb_cell l ix iy) (firstn kx [-1; 0; 1]) l.
Definition nb_all (l : list Z) (ky : nat) : list Z :=
  fold_left (fun l iy => nb_row l iy 3) (firstn ky [-1; 0; 1]) l.

Definition ixof (k : nat) : Z :=
  match k with 0%nat => -1 | 1%nat => 0 | 2%nat => 1 | _ => 2 end.

Definition nbi_inv iy (arr : list Z) (kx : nat) (st : state T) : Prop :=
  (kx <= 3)%nat /\ exists nx ny k, st = nbst (ixof kx) iy nx ny k (nb_row arr iy kx).
Definition nbi_post iy (arr : list Z) (r : outcome T * state T) : Prop :=
  exists nx ny k, r = (ONormal, nbst 2 iy nx ny k (nb_row arr iy 3)).



Lemma nb_row_length l iy kx : List.length (nb_row l iy kx) = List.length l.
Proof.
  unfold nb_row. generalize (firstn kx [-1; 0; 1]). intros xs. revert l.
  induction xs as [|x xs IH]; intros l; [reflexivity|]. cbn [fold_left]. rewrite IH. apply upd_length.
Qed.
Lemma nb_all_length l ky : List.length (nb_all l ky) = List.length l.
Proof.
  unfold nb_all. generalize (firstn ky [-1; 0; 1]). intros xs. revert l.
  induction xs as [|x xs IH]; intros l; [reflexivity|]. cbn [fold_left]. rewrite IH. apply nb_row_length.
Qed.

Definition nb_inner_body : stmt :=
(seq [(SSetI "k" (IBin IAdd (IBin IAdd (IConst 1) (IVar "ix")) (IBin IMul (IBin IAdd (IConst 1) (IVar "iy")) (IConst 3))));
(SIf (IAnd (ICmp CEq (IVar "ix") (IConst 0)) (ICmp CEq (IVar "iy") (IConst 0)))
(seq [(SStoreI "neighbours" (IVar "k") (IUn INeg (IConst 1)));
SContinue])
SSkip);
(SSetI "nx" (IBin IAdd (IVar "nx0") (IVar "ix")));
(SSetI "ny" (IBin IAdd (IVar "ny0") (IVar "iy")));
(SIf (IOr (IOr (IOr (ICmp CLt (IVar "nx") (IConst 0)) (ICmp CGt (IVar "nx") (IBin ISub (IVar "ncols") (IConst 1)))) (ICmp CLt (IVar "ny") (IConst 0))) (ICmp CGt (IVar "ny") (IBin ISub (IVar "nrows") (IConst 1))))
(SStoreI "neighbours" (IVar "k") (IUn INeg (IConst 1)))
(SStoreI "neighbours" (IVar "k") (IBin IAdd (IBin IMul (IVar "ny") (IVar "ncols")) (IVar "nx"))))]).

Lemma nb_inner (callf : callee T) n (iy : Z) arr nx ny k :
  (iy = -1 \/ iy = 0 \/ iy = 1) -> List.length arr = 9%nat -> (3 < n)%nat ->
  exists r,
  loop n (cond_of N X (ICmp CLt (IVar "ix") (IConst 2)))
    (for_body (exec N X callf n nb_inner_body)
       (exec N X callf n (SSetI "ix" (IBin IAdd (IVar "ix") (IConst 1)))))
    (nbst (-1) iy nx ny k arr) = Ok r
  /\ nbi_post iy arr r.
Proof.
  intros Hky Harr Hn.
  do 10 (destruct arr as [|? arr]; try discriminate Harr). clear Harr.
  match goal with |- context[nbst _ _ _ _ _ ?l] =>
    apply (loop_rule (nbi_inv iy l) (nbi_post iy l) 3%nat) with (k := O) end.
  - intros kx st (Hkx & nx' & ny' & k' & ->). split; [exact Hkx|].
    destruct Hky as [->|[->| ->]].
    all: destruct kx as [|[|[|[|kx]]]]; [| | | |lia].
    all: unfold nbst, nb_inner_body;
         repeat (progress (cbn; rewrite ?truth_b2z, ?b2z_truth_b2z, ?or_ok, ?and_ok)).
    all: try (exists nx', ny', k'; reflexivity).
    all: try match goal with |- context[if ?b then _ else _] => destruct b eqn:E end.
    all: cbn.
    all: split; [lia|]; eexists _, _, _; unfold nbst, nb_row, nb_cell, upd, neighbour_at; cbn;
         rewrite ?E; reflexivity.
  - split; [lia|]. exists nx, ny, k. reflexivity.
  - lia.
Qed.

#[local] Arguments nb_all : simpl never.
#[local] Arguments nb_row : simpl never.

Definition nbo_inv (arr : list Z) (ky : nat) (st : state T) : Prop :=
  (ky <= 3)%nat /\ exists ix nx ny k, st = nbst ix (ixof ky) nx ny k (nb_all arr ky).
Definition nbo_post (arr : list Z) (r : outcome T * state T) : Prop :=
  exists ix nx ny k, r = (ONormal, nbst ix 2 nx ny k (nb_all arr 3)).

Lemma nb_outer (callf : callee T) n arr ix nx ny k :
  List.length arr = 9%nat -> (3 < n)%nat ->
  exists r,
  loop n (cond_of N X (ICmp CLt (IVar "iy") (IConst 2)))
    (for_body
       (exec N X callf n
          (seq [(SSetI "ix" (IUn INeg (IConst 1)));
                (SFor (ICmp CLt (IVar "ix") (IConst 2))
                   (SSetI "ix" (IBin IAdd (IVar "ix") (IConst 1))) nb_inner_body)]))
       (exec N X callf n (SSetI "iy" (IBin IAdd (IVar "iy") (IConst 1)))))
    (nbst ix (-1) nx ny k arr) = Ok r
  /\ nbo_post arr r.
Proof.
  intros Harr Hn.
  apply (loop_rule (nbo_inv arr) (nbo_post arr) 3%nat) with (k := O).
  - intros ky st (Hky & ix' & nx' & ny' & k' & ->). split; [exact Hky|].
    destruct ky as [|[|[|[|ky]]]]; [| | | |lia].
    4: { unfold nbst. cbn. exists ix', nx', ny', k'. reflexivity. }
    all: unfold nbst; cbn.
    all: match goal with
         | Hn' : (3 < ?f)%nat |- context[loop ?f _ _ ?s] =>
             match s with context[("iy", ?iy)] =>
             match s with context[("nx", ?nx1)] =>
             match s with context[("ny", ?ny1)] =>
             match s with context[("k", ?k1)] =>
             match s with context[("neighbours", ?l)] =>
               change s with (nbst (-1) iy nx1 ny1 k1 l);
               destruct (nb_inner callf f iy l nx1 ny1 k1) as (r & Hr & (nx2 & ny2 & k2 & ->));
               [lia|rewrite nb_all_length; assumption|exact Hn'|]
             end end end end end
         end.
    all: unfold nb_inner_body in Hr; cbn [seq] in Hr; rewrite Hr; unfold nbst; cbn.
    all: split; [lia|]; exists 2, nx2, ny2, k2; reflexivity.
  - split; [lia|]. exists ix, nx, ny, k. reflexivity.
  - lia.
Qed.

Lemma nb_all_raw a0 a1 a2 a3 a4 a5 a6 a7 a8 :
  nb_all [a0;a1;a2;a3;a4;a5;a6;a7;a8] 3 = neighbours_raw nrows ncols idx.
Proof. reflexivity. Qed.

End Neigh.

Lemma valid_cell_ncols nrows ncols idx : valid_cell nrows ncols idx = true -> ncols <> 0.
Proof.
  unfold valid_cell. intros H. apply negb_true_iff, orb_false_iff in H. destruct H as [H1 H2].
  apply Z.ltb_ge in H1. apply Z.leb_gt in H2. nia.
Qed.

Lemma neighbours_run n nrows ncols idx nb :
  valid_cell nrows ncols idx = true -> List.length nb = 9%nat -> (5 < n)%nat ->
  exec_fun N X program n "c_neighbours" [AVI nrows; AVI ncols; AVI idx; AVArrI nb]
  = Ok (RI 0, [VArrI (neighbours_raw nrows ncols idx)]).
Proof.
  intros Hv Hnb Hn.
  assert (Hnc := valid_cell_ncols _ _ _ Hv).
  unfold valid_cell in Hv. apply negb_true_iff in Hv.
  destruct n as [|n]; [lia|].
  cbn. rewrite !truth_b2z, or_ok. cbn. rewrite truth_b2z, Hv. cbn.
  rewrite getnxy_run by (try exact Hnc; lia). cbn.
  match goal with |- context[loop n _ _ ?s] =>
    change s with (nbst nrows ncols idx 0 (-1) 0 0 0 nb) end.
  destruct (nb_outer nrows ncols idx (exec_fun N X program n) n nb 0 0 0 0) as (r & Hr & (ix & nx & ny & k & ->));
    [exact Hnb|lia|].
  change (seq [SSetI "ix" (IUn INeg (IConst 1));
               SFor (ICmp CLt (IVar "ix") (IConst 2)) (SSetI "ix" (IBin IAdd (IVar "ix") (IConst 1))) nb_inner_body])
    with (SSeq (SSetI "ix" (IUn INeg (IConst 1)))
               (SFor (ICmp CLt (IVar "ix") (IConst 2)) (SSetI "ix" (IBin IAdd (IVar "ix") (IConst 1))) nb_inner_body)) in Hr.
  unfold nb_inner_body in Hr. cbn [seq] in Hr.
  rewrite Hr. cbn.
  do 10 (destruct nb as [|? nb]; try discriminate Hnb).
  reflexivity.
Qed.

(* ---------------- c_downstream on one cell ---------------- *)
#[local] Arguments neighbours_raw : simpl never.
#[local] Arguments fold_left : simpl never.

Definition slots_pre (k : nat) : list Z := firstn k slots.
Lemma slots_pre_S k : (k < 9)%nat -> slots_pre (S k) = slots_pre k ++ [Z.of_nat k].
Proof.
  intros H. do 9 (destruct k as [|k]; [reflexivity|]). lia.
Qed.
#[local] Arguments slots_pre : simpl never.

(* The loop over j is proved with an invariant ([ds_inner]: the last matching code wins, as in
   [downstream_with]); the loop over i runs once ([ds_outer]).  [downstream1_run] covers the
   valid cell (return 0, idxdown[0] = the model's answer) and the invalid cell (positive error
   code, idxdown untouched). *)
Section Down.
Variables nrows ncols : Z.
Variables codes fd : list Z.

Definition dsst (i j fdv ic c : Z) (dn : list Z) (nbs : list Z) : state T :=
  {| s_i := [("nrows", nrows); ("ncols", ncols); ("nval", 1); ("i", i); ("j", j); ("fd", fdv);
             ("idxcell", ic)];
     s_f := [];
     s_ai := [("flowdircode", codes); ("flowdir", fd); ("idxup", [c]); ("idxdown", dn);
              ("neighbours", nbs)];
     s_af := [] |}.

Definition ds_pick (fdv : Z) (nbs : list Z) (acc j : Z) : Z :=
  if fdv =? zn codes j 0 then zn nbs j (-1) else acc.

Lemma ds_inner (callf : callee T) n fdv ic c d0 nbs :
  List.length codes = 9%nat -> List.length nbs = 9%nat -> (9 < n)%nat ->
  loop n (cond_of N X (ICmp CLt (IVar "j") (IConst 9)))
    (for_body
       (exec N X callf n
          (SIf (ICmp CEq (IVar "fd") (IArr "flowdircode" (IVar "j")))
             (seq [(SStoreI "idxdown" (IVar "i") (IArr "neighbours" (IVar "j"))); SContinue])
             SSkip))
       (exec N X callf n (SSetI "j" (IBin IAdd (IVar "j") (IConst 1)))))
    (dsst 0 0 fdv ic c [d0] nbs)
  = Ok (ONormal, dsst 0 9 fdv ic c [fold_left (ds_pick fdv nbs) slots d0] nbs).
Proof.
  intros Hc Hnb Hn.
  apply (loop_rule_eq
           (fun k st => (k <= 9)%nat /\
              st = dsst 0 (Z.of_nat k) fdv ic c [fold_left (ds_pick fdv nbs) (slots_pre k) d0] nbs)
           _ 9%nat).
  - intros k st (Hk & ->). split; [exact Hk|].
    unfold dsst. cbn.
    destruct (Z.ltb_spec (Z.of_nat k) 9) as [Hlt|Hge]; cbn.
    + rewrite (zget_ok codes (Z.of_nat k) 0) by lia. cbn.
      fold (zn codes (Z.of_nat k) 0).
      rewrite truth_b2z.
      assert (HS : fold_left (ds_pick fdv nbs) (slots_pre (S k)) d0
                   = if fdv =? zn codes (Z.of_nat k) 0 then zn nbs (Z.of_nat k) (-1)
                     else fold_left (ds_pick fdv nbs) (slots_pre k) d0).
      { rewrite slots_pre_S by lia. rewrite fold_left_app. reflexivity. }
      destruct (fdv =? zn codes (Z.of_nat k) 0) eqn:E; cbn.
      * rewrite (zget_ok nbs (Z.of_nat k) (-1)) by lia. cbn.
        fold (zn nbs (Z.of_nat k) (-1)).
        split; [lia|]. unfold dsst. norm_state. rewrite HS.
        replace (Z.of_nat k + 1) with (Z.of_nat (S k)) by lia. reflexivity.
      * split; [lia|]. unfold dsst. norm_state. rewrite HS.
        replace (Z.of_nat k + 1) with (Z.of_nat (S k)) by lia. reflexivity.
    + assert (k = 9%nat) by lia. subst k. reflexivity.
  - split; [lia|]. reflexivity.
  - lia.
Qed.

Definition ds_result (c : Z) : Z :=
  if zn fd c 0 =? 0 then -2
  else fold_left (ds_pick (zn fd c 0) (neighbours_raw nrows ncols c)) slots (-1).

Lemma downstream_with_eq c :
  downstream_with codes nrows ncols fd c =
  if valid_cell nrows ncols c then Some (ds_result c) else None.
Proof.
  unfold downstream_with, ds_result. destruct (valid_cell nrows ncols c); [|reflexivity].
  destruct (zn fd c 0 =? 0); reflexivity.
Qed.

Definition ds_outer_body : stmt :=
(seq [(SSetI "idxcell" (IArr "idxup" (IVar "i")));
(SIf (IOr (ICmp CLt (IVar "idxcell") (IConst 0)) (ICmp CGe (IVar "idxcell") (IBin IMul (IVar "nrows") (IVar "ncols"))))
(SRetI (IBin IAdd (IConst 50000) (IConst 1)))
SSkip);
(SCall DNone "c_neighbours" [(AI (IVar "nrows")); (AI (IVar "ncols")); (AI (IVar "idxcell")); (AArrI "neighbours" (IConst 0))]);
(SSetI "fd" (IArr "flowdir" (IVar "idxcell")));
(SStoreI "idxdown" (IVar "i") (IUn INeg (IConst 1)));
(SIf (ICmp CEq (IVar "fd") (IConst 0))
(seq [(SStoreI "idxdown" (IVar "i") (IUn INeg (IConst 2)));
SContinue])
SSkip);
(SSetI "j" (IConst 0));
(SFor (ICmp CLt (IVar "j") (IConst 9))
(SSetI "j" (IBin IAdd (IVar "j") (IConst 1)))
(SIf (ICmp CEq (IVar "fd") (IArr "flowdircode" (IVar "j")))
(seq [(SStoreI "idxdown" (IVar "i") (IArr "neighbours" (IVar "j")));
SContinue])
SSkip))]).

Definition dso_inv (c d0 : Z) (k : nat) (st : state T) : Prop :=
  (k = 0%nat /\ st = dsst 0 0 0 0 c [d0] (repeat 0 9)) \/
  (k = 1%nat /\ valid_cell nrows ncols c = true /\
   exists j, st = dsst 1 j (zn fd c 0) c c [ds_result c] (neighbours_raw nrows ncols c)).
Definition dso_post (c d0 : Z) (r : outcome T * state T) : Prop :=
  (valid_cell nrows ncols c = true /\
   exists j, r = (ONormal, dsst 1 j (zn fd c 0) c c [ds_result c] (neighbours_raw nrows ncols c))) \/
  (valid_cell nrows ncols c = false /\
   exists code, 0 < code /\ r = (ORet (RI code), dsst 0 0 0 c c [d0] (repeat 0 9))).

Lemma ds_outer n c d0 :
  List.length codes = 9%nat -> nrows * ncols <= Z.of_nat (List.length fd) -> (10 < n)%nat ->
  exists r,
  loop n (cond_of N X (ICmp CLt (IVar "i") (IVar "nval")))
    (for_body (exec N X (exec_fun N X program n) n ds_outer_body)
       (exec N X (exec_fun N X program n) n (SSetI "i" (IBin IAdd (IVar "i") (IConst 1)))))
    (dsst 0 0 0 0 c [d0] (repeat 0 9)) = Ok r
  /\ dso_post c d0 r.
Proof.
  intros Hc Hfd Hn.
  apply (loop_rule (dso_inv c d0) (dso_post c d0) 1%nat) with (k := O).
  - intros k st [(-> & ->)|(-> & Hv & j & ->)].
    + split; [lia|]. unfold dsst, ds_outer_body. cbn.
      rewrite !truth_b2z, or_ok. cbn. rewrite truth_b2z.
      destruct (valid_cell nrows ncols c) eqn:Hv.
      * assert (Hv' := Hv). unfold valid_cell in Hv'. apply negb_true_iff in Hv'. rewrite Hv'.
        apply orb_false_iff in Hv'. destruct Hv' as [H1 H2]. apply Z.ltb_ge in H1. apply Z.leb_gt in H2.
        cbn. rewrite neighbours_run by (try exact Hv; try reflexivity; lia).
        cbn. rewrite (zget_ok fd c 0) by lia. cbn. fold (zn fd c 0). rewrite truth_b2z.
        destruct (zn fd c 0 =? 0) eqn:E0; cbn.
        -- right. split; [reflexivity|]. split; [exact Hv|]. exists 0.
           unfold dsst, ds_result. rewrite E0. reflexivity.
        -- match goal with |- context[loop n _ _ ?s] =>
             change s with (dsst 0 0 (zn fd c 0) c c [-1] (neighbours_raw nrows ncols c)) end.
           rewrite ds_inner by (try assumption; try reflexivity; lia).
           cbn. right. split; [reflexivity|]. split; [exact Hv|]. exists 9.
           unfold dsst, ds_result. rewrite E0. reflexivity.
      * assert (Hv' := Hv). unfold valid_cell in Hv'. apply negb_false_iff in Hv'. rewrite Hv'.
        cbn. right. split; [exact Hv|]. exists 50001. split; [lia|]. reflexivity.
    + split; [lia|]. unfold dsst. cbn. left. split; [exact Hv|]. exists j. reflexivity.
  - left. split; reflexivity.
  - lia.
Qed.

Lemma downstream1_run n c d0 :
  List.length codes = 9%nat -> nrows * ncols <= Z.of_nat (List.length fd) -> (11 < n)%nat ->
  match downstream_with codes nrows ncols fd c with
  | Some d =>
      exec_fun N X program n "c_downstream"
        [AVI nrows; AVI ncols; AVArrI codes; AVArrI fd; AVI 1; AVArrI [c]; AVArrI [d0]]
      = Ok (RI 0, [VArrI codes; VArrI fd; VArrI [c]; VArrI [d]])
  | None =>
      exists code, 0 < code /\
      exec_fun N X program n "c_downstream"
        [AVI nrows; AVI ncols; AVArrI codes; AVArrI fd; AVI 1; AVArrI [c]; AVArrI [d0]]
      = Ok (RI code, [VArrI codes; VArrI fd; VArrI [c]; VArrI [d0]])
  end.
Proof.
  intros Hc Hfd Hn. rewrite downstream_with_eq.
  destruct n as [|n]; [lia|].
  destruct (ds_outer n c d0 Hc Hfd) as (r & Hr & Hpost); [lia|].
  unfold ds_outer_body in Hr. cbn [seq] in Hr.
  destruct Hpost as [(Hv & j & ->)|(Hv & code & Hcode & ->)]; rewrite Hv.
  - cbn.
    match goal with |- context[loop n _ _ ?s] => change s with (dsst 0 0 0 0 c [d0] (repeat 0 9)) end.
    rewrite Hr. cbn. reflexivity.
  - exists code. split; [exact Hcode|]. cbn.
    match goal with |- context[loop n _ _ ?s] => change s with (dsst 0 0 0 0 c [d0] (repeat 0 9)) end.
    rewrite Hr. cbn. reflexivity.
Qed.

End Down.

(* a non-negative answer of downstream is a valid cell (any code table) *)
Lemma neighbour_at_range nrows ncols nx0 ny0 o :
  neighbour_at nrows ncols nx0 ny0 o = -1 \/
  valid_cell nrows ncols (neighbour_at nrows ncols nx0 ny0 o) = true.
Proof.
  unfold neighbour_at. destruct o as [ix iy].
  destruct ((ix =? 0) && (iy =? 0)); [left; reflexivity|].
  destruct ((nx0 + ix <? 0) || (ncols - 1 <? nx0 + ix) || (ny0 + iy <? 0) || (nrows - 1 <? ny0 + iy)) eqn:E;
    [left; reflexivity|right].
  rewrite !orb_false_iff in E. destruct E as [[[E1 E2] E3] E4].
  apply Z.ltb_ge in E1, E2, E3, E4.
  unfold valid_cell. apply negb_true_iff, orb_false_iff. split; [apply Z.ltb_ge|apply Z.leb_gt]; nia.
Qed.

Lemma downstream_with_range codes nrows ncols fd c d :
  downstream_with codes nrows ncols fd c = Some d -> 0 <= d -> valid_cell nrows ncols d = true.
Proof.
  rewrite downstream_with_eq. destruct (valid_cell nrows ncols c); [|discriminate].
  intros [= <-]. unfold ds_result. destruct (zn fd c 0 =? 0); [lia|].
  assert (H : forall l acc, (acc = -1 \/ valid_cell nrows ncols acc = true) ->
            let r := fold_left (ds_pick codes (zn fd c 0) (neighbours_raw nrows ncols c)) l acc in
            r = -1 \/ valid_cell nrows ncols r = true).
  { induction l as [|j l IH]; intros acc Hacc; [exact Hacc|].
    change (fold_left ?f (j :: l) acc) with (fold_left f l (f acc j)). apply IH.
    unfold ds_pick. destruct (zn fd c 0 =? zn codes j 0); [|exact Hacc].
    unfold zn, neighbours_raw.
    destruct (nth_in_or_default (Z.to_nat j)
                (map (neighbour_at nrows ncols (getnx ncols c) (getny ncols c)) offsets) (-1)) as [Hin|E];
      [|rewrite E; left; reflexivity].
    apply in_map_iff in Hin. destruct Hin as (o & <- & _). apply neighbour_at_range. }
  intros Hd. destruct (H slots (-1) (or_introl eq_refl)) as [E|E]; [lia|exact E].
Qed.

(* ---------------- c_catchment.stepsquaredist, celldist, getcoord ---------------- *)
Lemma stepsq_run n ncols a b :
  ncols <> 0 -> (1 < n)%nat ->
  exec_fun N X program n "c_catchment.stepsquaredist" [AVI ncols; AVI a; AVI b]
  = Ok (RF (nofZ N (squaredist ncols a b)), []).
Proof.
  intros Hnc Hn. destruct n as [|n]; [lia|]. cbn.
  rewrite !getnxy_run by (try exact Hnc; lia). cbn.
  rewrite !getnxy_run by (try exact Hnc; lia). cbn.
  rewrite ?truth_b2z, ?or_ok. cbn. rewrite truth_b2z. unfold squaredist.
  destruct ((getnx ncols a =? getnx ncols b) || (getny ncols a =? getny ncols b)); reflexivity.
Qed.

Definition celldist_model (ncols a b : Z) : Z :=
  Z.max (Z.max 0 (getnx ncols a - getnx ncols b)) (Z.max 0 (getny ncols a - getny ncols b)).

Lemma celldist_arith (dx dy : Z) :
  (let dx' := if dx <? 0 then 0 else dx in
   let dy' := if dy <? 0 then 0 else dy in
   if dy' <? dx' then dx' else dy') = Z.max (Z.max 0 dx) (Z.max 0 dy).
Proof.
  cbv zeta. destruct (Z.ltb_spec dx 0); destruct (Z.ltb_spec dy 0);
  match goal with |- context[if ?x <? ?y then _ else _] => destruct (Z.ltb_spec x y) end; lia.
Qed.

Lemma celldist_run_ok n nrows ncols a b :
  (1 < n)%nat -> valid_cell nrows ncols a = true -> valid_cell nrows ncols b = true ->
  exec_fun N X program n "celldist" [AVI nrows; AVI ncols; AVI a; AVI b]
  = Ok (RI (celldist_model ncols a b), []).
Proof.
  intros Hn Ha Hb. destruct n as [|n]; [lia|].
  assert (Hnc := valid_cell_ncols _ _ _ Ha).
  unfold valid_cell in Ha, Hb. apply negb_true_iff in Ha, Hb.
  apply orb_false_iff in Ha, Hb. destruct Ha as [Ha1 Ha2], Hb as [Hb1 Hb2].
  cbn. rewrite ?truth_b2z, ?b2z_truth_b2z, ?or_ok. cbn. rewrite ?truth_b2z, ?b2z_truth_b2z, ?or_ok.
  cbn. rewrite ?truth_b2z, ?b2z_truth_b2z, ?or_ok. rewrite Ha1, Ha2, Hb1, Hb2. cbn.
  rewrite !getnxy_run by (try exact Hnc; lia). cbn.
  rewrite !getnxy_run by (try exact Hnc; lia). cbn.
  rewrite !truth_b2z, !if_ok. cbn. rewrite !truth_b2z, !if_ok. cbn. rewrite !truth_b2z, !if_ok. cbn.
  unfold celldist_model. rewrite <- celldist_arith. reflexivity.
Qed.

Lemma celldist_run_err n nrows ncols a b :
  (0 < n)%nat -> valid_cell nrows ncols a && valid_cell nrows ncols b = false ->
  exists code, 0 < code /\
  exec_fun N X program n "celldist" [AVI nrows; AVI ncols; AVI a; AVI b] = Ok (RI code, []).
Proof.
  intros Hn Hv. destruct n as [|n]; [lia|].
  exists 60001. split; [lia|].
  cbn. rewrite ?truth_b2z, ?b2z_truth_b2z, ?or_ok. cbn. rewrite ?truth_b2z, ?b2z_truth_b2z, ?or_ok.
  cbn. rewrite ?truth_b2z, ?b2z_truth_b2z, ?or_ok.
  replace ((a <? 0) || (nrows * ncols <=? a) || (b <? 0) || (nrows * ncols <=? b)) with true; [reflexivity|].
  symmetry. unfold valid_cell in Hv. rewrite <- orb_assoc.
  destruct ((a <? 0) || (nrows * ncols <=? a)); [reflexivity|].
  destruct ((b <? 0) || (nrows * ncols <=? b)); [reflexivity|discriminate].
Qed.

Lemma getcoord_run n nrows ncols xll yll csz idx x0 y0 :
  nlit X (0x1.0000000000000p-1)%float 1 2 = nhalf N ->
  ncols <> 0 -> (1 < n)%nat ->
  exec_fun N X program n "getcoord"
    [AVI nrows; AVI ncols; AVF xll; AVF yll; AVF csz; AVI idx; AVArrF [x0; y0]]
  = Ok (RI 0, [VArrF [fst (getcoord N nrows ncols xll yll csz idx);
                      snd (getcoord N nrows ncols xll yll csz idx)]]).
Proof.
  intros Hh Hnc Hn. destruct n as [|n]; [lia|]. cbn.
  rewrite getnxy_run by (try exact Hnc; lia). cbn. rewrite Hh. reflexivity.
Qed.

End Callees.

(* ================================================================== *)
(* Part 2: c_delineate_flowpathlengths_in_catchment                     *)
(* ================================================================== *)

(* the model of Model/Catchment.v with the table of direction codes as a parameter *)
Section ModelWith.
Context {T : Type} (O : NumOps T).
Variable codes : list Z.

Fixpoint walk_with (fuel : nat) (nrows ncols : Z) (fd : list Z) (outlet nval : Z)
         (up down : Z) (len : T) (ipath : Z) : Z * Z * T * Z :=
  match fuel with
  | 0%nat => (up, down, len, ipath)
  | S f =>
      if ipath <? nval then
        match downstream_with codes nrows ncols fd up with
        | None => (up, down, len, ipath)
        | Some d =>
            if d <? 0 then (up, d, len, ipath)
            else if d =? outlet then (up, d, len, ipath)
            else walk_with f nrows ncols fd outlet nval d d
                      (nadd O len (steplen O ncols d up)) (ipath + 1)
        end
      else (up, down, len, ipath)
  end.

Definition flowpath_with (nrows ncols : Z) (fd : list Z) (outlet nval x : Z) : Z * Z * T :=
  let '(up, down, len, ipath) :=
     walk_with (Z.to_nat nval) nrows ncols fd outlet nval x (-1) (n0 O) 0 in
  let ipath := ipath + 1 in
  let len := if (ipath <? nval) && (0 <=? down) then nadd O len (steplen O ncols down up) else len in
  let len := if (down <? 0) || (x =? outlet) then n0 O else len in
  (x, down, len).

Definition flowpaths_with (nrows ncols : Z) (fd : list Z) (outlet : Z) (area : list Z) : list (Z * Z * T) :=
  map (flowpath_with nrows ncols fd outlet (Catchment.zlen area)) area.
End ModelWith.

Lemma walk_with_model {T} (O : NumOps T) fuel nrows ncols fd outlet nval :
  forall up down len ipath,
  walk_with O FLOWDIRCODE fuel nrows ncols fd outlet nval up down len ipath
  = walk O fuel nrows ncols fd outlet nval up down len ipath.
Proof.
  induction fuel as [|f IH]; intros; [reflexivity|].
  cbn [walk_with walk]. unfold downstream.
  destruct (ipath <? nval); [|reflexivity].
  destruct (downstream_with FLOWDIRCODE nrows ncols fd up) as [d|]; [|reflexivity].
  destruct (d <? 0); [reflexivity|]. destruct (d =? outlet); [reflexivity|]. apply IH.
Qed.

Lemma flowpaths_with_model {T} (O : NumOps T) nrows ncols fd outlet area :
  flowpaths_with O FLOWDIRCODE nrows ncols fd outlet area = flowpaths O nrows ncols fd outlet area.
Proof.
  unfold flowpaths_with, flowpaths. apply map_ext. intros x.
  unfold flowpath_with, flowpath. rewrite walk_with_model. reflexivity.
Qed.


Section FlowPaths.
Context {T : Type} (N : NumOps T) (X : NumLit T).

#[local] Arguments walk_with : simpl never.
#[local] Arguments downstream_with : simpl never.
#[local] Arguments squaredist : simpl never.

Section Flow.
Variables nrows ncols : Z.
Variables codes fd area : list Z.
Variable outlet : Z.
Hypothesis Hcodes : List.length codes = 9%nat.
Hypothesis Hfd : nrows * ncols <= Z.of_nat (List.length fd).

Definition fpst (ied i ipath : Z) (sq len : T) (up down : Z) (out : list T) : state T :=
  {| s_i := [("nrows", nrows); ("ncols", ncols); ("nval", MiniC.zlen area); ("idxcell_outlet", outlet);
             ("ierr", 0); ("ierr_down", ied); ("i", i); ("ipath", ipath)];
     s_f := [("squaredist", sq); ("length", len)];
     s_ai := [("flowdircode", codes); ("flowdir", fd); ("idxcells_area", area);
              ("idxcell_up", [up]); ("idxcell_down", [down])];
     s_af := [("flowpathlengths", out)] |}.

Definition fp_wbody : stmt :=
(seq [(SCall (DI "ierr_down") "c_downstream" [(AI (IVar "nrows")); (AI (IVar "ncols")); (AArrI "flowdircode" (IConst 0)); (AArrI "flowdir" (IConst 0)); (AI (IConst 1)); (AArrI "idxcell_up" (IConst 0)); (AArrI "idxcell_down" (IConst 0))]);
(SIf (IOr (ICmp CLt (IArr "idxcell_down" (IConst 0)) (IConst 0)) (ICmp CGt (IVar "ierr_down") (IConst 0)))
SBreak
SSkip);
(SIf (ICmp CEq (IArr "idxcell_down" (IConst 0)) (IVar "idxcell_outlet"))
SBreak
SSkip);
(SCall (DF "squaredist") "c_catchment.stepsquaredist" [(AI (IVar "ncols")); (AI (IArr "idxcell_down" (IConst 0))); (AI (IArr "idxcell_up" (IConst 0)))]);
(SStoreI "idxcell_up" (IConst 0) (IArr "idxcell_down" (IConst 0)));
(SSetI "ipath" (IBin IAdd (IVar "ipath") (IConst 1)));
(SSetF "length" (FBin FAdd (FVar "length") (FUn FSqrt (FVar "squaredist"))))]).

Definition w_up (r : Z * Z * T * Z) : Z := fst (fst (fst r)).
Definition w_down (r : Z * Z * T * Z) : Z := snd (fst (fst r)).
Definition w_len (r : Z * Z * T * Z) : T := snd (fst r).
Definition w_ipath (r : Z * Z * T * Z) : Z := snd r.

Lemma walk_with_S f nval up down len ipath :
  walk_with N codes (S f) nrows ncols fd outlet nval up down len ipath =
  if ipath <? nval then
    match downstream_with codes nrows ncols fd up with
    | None => (up, down, len, ipath)
    | Some d =>
        if d <? 0 then (up, d, len, ipath)
        else if d =? outlet then (up, d, len, ipath)
        else walk_with N codes f nrows ncols fd outlet nval d d
                  (nadd N len (steplen N ncols d up)) (ipath + 1)
    end
  else (up, down, len, ipath).
Proof. reflexivity. Qed.

Lemma downstream_some_ncols c d : downstream_with codes nrows ncols fd c = Some d -> ncols <> 0.
Proof.
  rewrite downstream_with_eq. destruct (valid_cell nrows ncols c) eqn:E; [|discriminate].
  intros _. eapply valid_cell_ncols; eauto.
Qed.

(* the while loop: by induction on the fuel [f] of the model's [walk_with]; [lf] = fuel of the
   MiniC loop.  The scratch variables ierr_down and squaredist end with some value.  The second
   conjunct records that a successful call of c_downstream implies ncols <> 0 (needed for
   the call of stepsquaredist after the loop: it divides by ncols). *)
Lemma fp_while n i out : (12 < n)%nat ->
  forall f lf up down len ipath ied sq,
  (f < lf)%nat -> MiniC.zlen area <= ipath + Z.of_nat f ->
  let r := walk_with N codes f nrows ncols fd outlet (MiniC.zlen area) up down len ipath in
  exists ied' sq',
    loop lf (cond_of N X (ICmp CLt (IVar "ipath") (IVar "nval")))
      (exec N X (exec_fun N X program n) n fp_wbody)
      (fpst ied i ipath sq len up down out)
    = Ok (ONormal, fpst ied' i (w_ipath r) sq' (w_len r) (w_up r) (w_down r) out)
    /\ (w_down r = down \/ ncols <> 0).
Proof.
  intros Hn. induction f as [|f IH]; intros lf up down len ipath ied sq Hlf Hip r.
  - destruct lf as [|lf]; [lia|]. subst r. exists ied, sq. split; [|left; reflexivity].
    unfold fpst. cbn.
    replace (ipath <? MiniC.zlen area) with false by (symmetry; apply Z.ltb_ge; lia).
    reflexivity.
  - destruct lf as [|lf]; [lia|]. subst r.
    rewrite walk_with_S. unfold fpst at 1. cbn [loop].
    destruct (ipath <? MiniC.zlen area) eqn:Hlt.
    2: { cbn. rewrite Hlt. cbn. exists ied, sq. split; [reflexivity|left; reflexivity]. }
    unfold fp_wbody. cbn. rewrite Hlt. cbn. rewrite !zlen_ltb0. cbn.
    pose proof (downstream1_run N X nrows ncols codes fd n up down Hcodes Hfd ltac:(lia)) as Hrun.
    destruct (downstream_with codes nrows ncols fd up) as [d|] eqn:Hd.
    + rewrite Hrun. cbn. rewrite truth_b2z.
      assert (Hnc := downstream_some_ncols _ _ Hd).
      destruct (d <? 0) eqn:Hneg; cbn.
      { exists 0, sq. split; [reflexivity|right; exact Hnc]. }
      rewrite truth_b2z.
      destruct (d =? outlet) eqn:Hout; cbn.
      { exists 0, sq. split; [reflexivity|right; exact Hnc]. }
      rewrite stepsq_run by (try exact Hnc; lia). cbn.
      match goal with |- context[loop lf _ _ ?s] =>
        change s with (fpst 0 i (ipath + 1) (nofZ N (squaredist ncols d up))
                         (nadd N len (nsqrt N (nofZ N (squaredist ncols d up)))) d d out) end.
      destruct (IH lf d d (nadd N len (nsqrt N (nofZ N (squaredist ncols d up)))) (ipath + 1) 0
                  (nofZ N (squaredist ncols d up))) as (ied' & sq' & Heq & _); [lia|lia|].
      exists ied', sq'. split; [|right; exact Hnc].
      unfold fp_wbody in Heq. cbn [seq] in Heq. rewrite Heq. reflexivity.
    + destruct Hrun as (code & Hcode & Hrun). rewrite Hrun. cbn.
      rewrite !truth_b2z, or_ok. cbn. rewrite truth_b2z.
      replace (0 <? code) with true by (symmetry; apply Z.ltb_lt; lia). rewrite orb_true_r. cbn.
      exists code, sq. split; [reflexivity|left; reflexivity].
Qed.

(* ---- the loop over the cells of the catchment ---- *)
Definition fp_row (r : Z * Z * T) : list T := [nofZ N (fst (fst r)); nofZ N (snd (fst r)); snd r].
Definition fp_flat (rows : list (Z * Z * T)) : list T := flat_map fp_row rows.

Lemma fp_flat_length rows : List.length (fp_flat rows) = (3 * List.length rows)%nat.
Proof. induction rows as [|r rows IH]; [reflexivity|]. unfold fp_flat in *. cbn [flat_map fp_row app List.length]. rewrite IH. lia. Qed.

Lemma fp_flat_snoc rows r : fp_flat (rows ++ [r]) = fp_flat rows ++ fp_row r.
Proof. unfold fp_flat. rewrite flat_map_app. cbn [flat_map]. rewrite app_nil_r. reflexivity. Qed.

Definition fp_rows (l : list Z) : list (Z * Z * T) :=
  map (flowpath_with N codes nrows ncols fd outlet (Catchment.zlen area)) l.

Definition fp_obody : stmt :=
(seq [(SStoreI "idxcell_up" (IConst 0) (IArr "idxcells_area" (IVar "i")));
(SStoreI "idxcell_down" (IConst 0) (IUn INeg (IConst 1)));
(SSetF "length" (FOfInt (IConst 0)));
(SSetI "ipath" (IConst 0));
(SWhile (ICmp CLt (IVar "ipath") (IVar "nval")) fp_wbody);
(SSetI "ipath" (IBin IAdd (IVar "ipath") (IConst 1)));
(SIf (IAnd (ICmp CLt (IVar "ipath") (IVar "nval")) (ICmp CGe (IArr "idxcell_down" (IConst 0)) (IConst 0)))
(seq [(SCall (DF "squaredist") "c_catchment.stepsquaredist" [(AI (IVar "ncols")); (AI (IArr "idxcell_down" (IConst 0))); (AI (IArr "idxcell_up" (IConst 0)))]);
(SSetF "length" (FBin FAdd (FVar "length") (FUn FSqrt (FVar "squaredist"))))])
SSkip);
(SIf (IOr (ICmp CLt (IArr "idxcell_down" (IConst 0)) (IConst 0)) (ICmp CEq (IArr "idxcells_area" (IVar "i")) (IVar "idxcell_outlet")))
(SSetF "length" (FOfInt (IConst 0)))
SSkip);
(SStoreF "flowpathlengths" (IBin IMul (IConst 3) (IVar "i")) (FOfInt (IArr "idxcells_area" (IVar "i"))));
(SStoreF "flowpathlengths" (IBin IAdd (IBin IMul (IConst 3) (IVar "i")) (IConst 1)) (FOfInt (IArr "idxcell_down" (IConst 0))));
(SStoreF "flowpathlengths" (IBin IAdd (IBin IMul (IConst 3) (IVar "i")) (IConst 2)) (FVar "length"))]).

Definition fpo_inv (k : nat) (st : state T) : Prop :=
  exists done todo jtodo ied ipath sq len up down,
    area = done ++ todo /\ List.length done = k /\
    List.length jtodo = (3 * List.length todo)%nat /\
    st = fpst ied (Z.of_nat k) ipath sq len up down (fp_flat (fp_rows done) ++ jtodo).

Definition fpo_post (r : outcome T * state T) : Prop :=
  exists ied ipath sq len up down,
    r = (ONormal, fpst ied (MiniC.zlen area) ipath sq len up down (fp_flat (fp_rows area))).

Lemma fp_outer n junk ied0 ipath0 sq0 len0 up0 down0 :
  nofZ N 0 = n0 N ->
  List.length junk = (3 * List.length area)%nat ->
  (12 < n)%nat -> (List.length area < n)%nat ->
  exists r,
    loop n (cond_of N X (ICmp CLt (IVar "i") (IVar "nval")))
      (for_body (exec N X (exec_fun N X program n) n fp_obody)
         (exec N X (exec_fun N X program n) n (SSetI "i" (IBin IAdd (IVar "i") (IConst 1)))))
      (fpst ied0 0 ipath0 sq0 len0 up0 down0 junk) = Ok r
    /\ fpo_post r.
Proof.
  intros HZ Hjunk Hn Hna.
  apply (loop_rule fpo_inv fpo_post (List.length area)) with (k := O).
  - intros k st (done & todo & jtodo & ied & ipath & sq & len & up & down & Harea & Hk & Hj & ->).
    assert (Hlen : List.length area = (k + List.length todo)%nat)
      by (rewrite Harea, app_length; lia).
    split; [lia|].
    unfold fpst at 1. cbn. rewrite (zlen_eq area).
    destruct todo as [|c todo].
    + replace (Z.of_nat k <? Z.of_nat (List.length area)) with false
        by (symmetry; apply Z.ltb_ge; cbn in Hlen; lia).
      cbn. destruct jtodo; [|discriminate]. rewrite app_nil_r in *. subst done.
      exists ied, ipath, sq, len, up, down. unfold fpst. rewrite (zlen_eq area).
      replace (List.length area) with k by (cbn in Hlen; lia). reflexivity.
    + replace (Z.of_nat k <? Z.of_nat (List.length area)) with true
        by (symmetry; apply Z.ltb_lt; cbn in Hlen; lia).
      assert (Hg : zget area (Z.of_nat k) = Some c) by (rewrite Harea; apply zget_app; lia).
      unfold fp_obody, fp_wbody. cbn. rewrite Hg. cbn. rewrite HZ.
      match goal with |- context[loop n _ _ ?s] =>
        change s with (fpst ied (Z.of_nat k) 0 sq (n0 N) c (-1) (fp_flat (fp_rows done) ++ jtodo)) end.
      destruct (fp_while n (Z.of_nat k) (fp_flat (fp_rows done) ++ jtodo) Hn
                  (Z.to_nat (MiniC.zlen area)) n c (-1) (n0 N) 0 ied sq)
        as (ied' & sq' & Hw & Hnc); [rewrite zlen_eq; lia|rewrite zlen_eq; lia|].
      unfold fp_wbody in Hw. cbn [seq] in Hw. rewrite Hw. clear Hw.
      pose proof (eq_refl (flowpath_with N codes nrows ncols fd outlet (Catchment.zlen area) c)) as Hfp.
      unfold flowpath_with at 2 in Hfp. unfold Catchment.zlen in Hfp. rewrite <- (zlen_eq area) in Hfp.
      destruct (walk_with N codes (Z.to_nat (MiniC.zlen area)) nrows ncols fd outlet (MiniC.zlen area)
                  c (-1) (n0 N) 0) as [[[up' down'] len'] ipath'].
      unfold w_up, w_down, w_len, w_ipath in *. cbn [fst snd] in *.
      destruct jtodo as [|j0 [|j1 [|j2 jtodo]]]; try (cbn in Hj; lia).
      assert (HP : 3 * Z.of_nat k = Z.of_nat (List.length (fp_flat (fp_rows done))) + 0)
        by (rewrite fp_flat_length; unfold fp_rows; rewrite map_length; lia).
      assert (HP1 : 3 * Z.of_nat k + 1 = Z.of_nat (List.length (fp_flat (fp_rows done))) + 1)
        by (rewrite fp_flat_length; unfold fp_rows; rewrite map_length; lia).
      assert (HP2 : 3 * Z.of_nat k + 2 = Z.of_nat (List.length (fp_flat (fp_rows done))) + 2)
        by (rewrite fp_flat_length; unfold fp_rows; rewrite map_length; lia).
      assert (Hfin : forall ied1 ipath1 sq1 lenf,
                lenf = snd (flowpath_with N codes nrows ncols fd outlet (MiniC.zlen area) c) ->
                fpo_inv (S k)
                  (fpst ied1 (Z.of_nat k + 1) ipath1 sq1 lenf up' down'
                     (fp_flat (fp_rows done) ++ nofZ N c :: nofZ N down' :: lenf :: jtodo))).
      { intros ied1 ipath1 sq1 lenf Hlf.
        exists (done ++ [c]), todo, jtodo, ied1, ipath1, sq1, lenf, up', down'.
        split; [rewrite <- app_assoc; exact Harea|].
        split; [rewrite app_length; cbn; lia|].
        split; [cbn in Hj; lia|].
        replace (Z.of_nat k + 1) with (Z.of_nat (S k)) by lia.
        unfold fp_rows. rewrite map_app. cbn [map]. rewrite fp_flat_snoc.
        unfold Catchment.zlen. rewrite <- (zlen_eq area).
        rewrite Hlf, Hfp. unfold fp_row. cbn [fst snd]. rewrite <- app_assoc. reflexivity. }
      unfold fpst at 1. cbn.
      rewrite !truth_b2z, and_ok. cbn. rewrite truth_b2z.
      destruct ((ipath' + 1 <? MiniC.zlen area) && (0 <=? down')) eqn:Hc1.
      * assert (Hnc' : ncols <> 0).
        { apply andb_true_iff in Hc1. destruct Hc1 as [_ Hc1]. apply Z.leb_le in Hc1.
          destruct Hnc as [Hnc|Hnc]; [lia|exact Hnc]. }
        rewrite stepsq_run by (try exact Hnc'; lia). cbn.
        rewrite !truth_b2z, Hg. cbn. rewrite ?truth_b2z, ?b2z_truth_b2z, or_ok. cbn. rewrite truth_b2z.
        destruct ((down' <? 0) || (c =? outlet)) eqn:Hc2; cbn.
        -- rewrite Hg. cbn.
           rewrite (zset_app_off _ _ _ 0) by (try exact HP; lia). cbn.
           rewrite (zset_app_off _ _ _ 1) by (try exact HP1; lia). cbn.
           rewrite (zset_app_off _ _ _ 2) by (try exact HP2; lia). cbn.
           apply Hfin. rewrite Hfp. reflexivity.
        -- rewrite Hg. cbn.
           rewrite (zset_app_off _ _ _ 0) by (try exact HP; lia). cbn.
           rewrite (zset_app_off _ _ _ 1) by (try exact HP1; lia). cbn.
           rewrite (zset_app_off _ _ _ 2) by (try exact HP2; lia). cbn.
           apply Hfin. rewrite Hfp. reflexivity.
      * cbn.
        rewrite !truth_b2z, Hg. cbn. rewrite ?truth_b2z, ?b2z_truth_b2z, or_ok. cbn. rewrite truth_b2z.
        destruct ((down' <? 0) || (c =? outlet)) eqn:Hc2; cbn.
        -- rewrite Hg. cbn.
           rewrite (zset_app_off _ _ _ 0) by (try exact HP; lia). cbn.
           rewrite (zset_app_off _ _ _ 1) by (try exact HP1; lia). cbn.
           rewrite (zset_app_off _ _ _ 2) by (try exact HP2; lia). cbn.
           apply Hfin. rewrite Hfp. reflexivity.
        -- rewrite Hg. cbn.
           rewrite (zset_app_off _ _ _ 0) by (try exact HP; lia). cbn.
           rewrite (zset_app_off _ _ _ 1) by (try exact HP1; lia). cbn.
           rewrite (zset_app_off _ _ _ 2) by (try exact HP2; lia). cbn.
           apply Hfin. rewrite Hfp. reflexivity.
  - exists [], area, junk, ied0, ipath0, sq0, len0, up0, down0.
    repeat split; try assumption.
  - lia.
Qed.

End Flow.

(* c_delineate_flowpathlengths_in_catchment: for EVERY grid shape, table of direction codes
   (9 entries), flow-direction grid (at least nrows*ncols entries), list of cells (valid
   or not), outlet and initial content of the output buffer (3 entries per cell), the
   translated kernel returns 0, leaves its inputs untouched and fills flowpathlengths
   with the rows (start cell, end cell, length) of the model. *)
Theorem refine_delineate_flowpathlengths_in_catchment_with
        nrows ncols codes fd area outlet junk n :
  nofZ N 0 = n0 N ->
  List.length codes = 9%nat ->
  nrows * ncols <= Z.of_nat (List.length fd) ->
  List.length junk = (3 * List.length area)%nat ->
  (Nat.max (List.length area) 12 < n)%nat ->
  exec_fun N X program (S n) "c_delineate_flowpathlengths_in_catchment"
    [AVI nrows; AVI ncols; AVArrI codes; AVArrI fd; AVI (MiniC.zlen area); AVArrI area;
     AVI outlet; AVArrF junk]
  = Ok (RI 0, [VArrI codes; VArrI fd; VArrI area;
               VArrF (fp_flat (flowpaths_with N codes nrows ncols fd outlet area))]).
Proof.
  intros HZ Hcodes Hfd Hjunk Hn. cbn.
  match goal with |- context[loop n _ _ ?s] =>
    change s with (fpst nrows ncols codes fd area outlet 0 0 0 (nofZ N 0) (nofZ N 0) 0 0 junk) end.
  destruct (fp_outer nrows ncols codes fd area outlet Hcodes Hfd n junk 0 0 (nofZ N 0) (nofZ N 0) 0 0
              HZ Hjunk) as (r & Hr & (ied & ipath & sq & len & up & down & ->)); [lia|lia|].
  unfold fp_obody, fp_wbody in Hr. cbn [seq] in Hr. rewrite Hr. cbn. reflexivity.
Qed.

End FlowPaths.

(* the same statement about the model of Model/Catchment.v (direction codes = FLOWDIRCODE,
   the only table the Python layer ever passes) *)
Theorem refine_delineate_flowpathlengths_in_catchment {T} (N : NumOps T) (X : NumLit T)
        nrows ncols fd area outlet junk n :
  nofZ N 0 = n0 N ->
  nrows * ncols <= Z.of_nat (List.length fd) ->
  List.length junk = (3 * List.length area)%nat ->
  (Nat.max (List.length area) 12 < n)%nat ->
  exec_fun N X program (S n) "c_delineate_flowpathlengths_in_catchment"
    [AVI nrows; AVI ncols; AVArrI FLOWDIRCODE; AVArrI fd; AVI (MiniC.zlen area); AVArrI area;
     AVI outlet; AVArrF junk]
  = Ok (RI 0, [VArrI FLOWDIRCODE; VArrI fd; VArrI area;
               VArrF (fp_flat N (flowpaths N nrows ncols fd outlet area))]).
Proof.
  intros HZ Hfd Hjunk Hn. rewrite <- flowpaths_with_model.
  apply refine_delineate_flowpathlengths_in_catchment_with; try assumption. reflexivity.
Qed.

(* ================================================================== *)
(* Part 3: c_delineate_river                                            *)
(* ================================================================== *)

Section ModelWithR.
Context {T : Type} (O : NumOps T).
Variable codes : list Z.

Fixpoint river_loop_with (fuel : nat) (nrows ncols : Z) (xll yll csz : T) (fd : list Z)
         (cur : Z) (dist dx dy : T) : list (Z * T * T * T * T * T) :=
  match fuel with
  | 0%nat => []
  | S f =>
      let dist' := nadd O dist (nsqrt O (nadd O (nmul O dx dx) (nmul O dy dy))) in
      let xy := getcoord O nrows ncols xll yll csz cur in
      let row := (cur, dist', dx, dy, fst xy, snd xy) in
      match downstream_with codes nrows ncols fd cur with
      | None => [row]
      | Some d =>
          if d <? 0 then [row]
          else
            let dx' := nofZ O (getnx ncols cur - getnx ncols d) in
            let dy' := nofZ O (getny ncols cur - getny ncols d) in
            row :: river_loop_with f nrows ncols xll yll csz fd d dist' dx' dy'
      end
  end.

Definition river_with (nrows ncols : Z) (xll yll csz : T) (fd : list Z) (start nval : Z)
  : option (list (Z * T * T * T * T * T)) :=
  if valid_cell nrows ncols start
  then Some (river_loop_with (Z.to_nat nval) nrows ncols xll yll csz fd start (n0 O) (n0 O) (n0 O))
  else None.
End ModelWithR.

Lemma river_loop_with_model {T} (O : NumOps T) fuel nrows ncols xll yll csz fd :
  forall cur dist dx dy,
  river_loop_with O FLOWDIRCODE fuel nrows ncols xll yll csz fd cur dist dx dy
  = river_loop O fuel nrows ncols xll yll csz fd cur dist dx dy.
Proof.
  induction fuel as [|f IH]; intros; [reflexivity|].
  cbn [river_loop_with river_loop]. unfold downstream.
  destruct (downstream_with FLOWDIRCODE nrows ncols fd cur) as [d|]; [|reflexivity].
  destruct (d <? 0); [reflexivity|]. rewrite IH. reflexivity.
Qed.

Lemma river_with_model {T} (O : NumOps T) nrows ncols xll yll csz fd start nval :
  river_with O FLOWDIRCODE nrows ncols xll yll csz fd start nval
  = river O nrows ncols xll yll csz fd start nval.
Proof. unfold river_with, river. rewrite river_loop_with_model. reflexivity. Qed.




Section RiverKernel.
Context {T : Type} (N : NumOps T) (X : NumLit T).

#[local] Arguments river_loop_with : simpl never.
#[local] Arguments downstream_with : simpl never.
#[local] Arguments getcoord : simpl never.

Definition rv_cell (r : Z * T * T * T * T * T) : Z := fst (fst (fst (fst (fst r)))).
Definition rv_data (r : Z * T * T * T * T * T) : list T :=
  [snd (fst (fst (fst (fst r)))); snd (fst (fst (fst r))); snd (fst (fst r)); snd (fst r); snd r].

Section River.
Variables nrows ncols : Z.
Variables xll yll csz : T.
Variables codes fd : list Z.
Variable nval : Z.
Hypothesis Hcodes : List.length codes = 9%nat.
Hypothesis Hfd : nrows * ncols <= Z.of_nat (List.length fd).
Hypothesis Hhalf : nlit X (0x1.0000000000000p-1)%float 1 2 = nhalf N.

Definition rvst (cur i ierr nx1 ny1 nx2 ny2 : Z) (dx dy dist : T)
           (npoints idxcells : list Z) (idxup idxdown : Z) (data : list T) (x y : T) : state T :=
  {| s_i := [("nrows", nrows); ("ncols", ncols); ("idxupstream", cur); ("nval", nval); ("i", i);
             ("ierr", ierr); ("nx1", nx1); ("ny1", ny1); ("nx2", nx2); ("ny2", ny2); ("ncolsdata", 5)];
     s_f := [("xll", xll); ("yll", yll); ("csz", csz); ("dx", dx); ("dy", dy); ("dist", dist)];
     s_ai := [("flowdircode", codes); ("flowdir", fd); ("npoints", npoints); ("idxcells", idxcells);
              ("idxup", [idxup]); ("idxdown", [idxdown])];
     s_af := [("data", data); ("xy", [x; y])] |}.

Definition rv_p1 : list stmt :=
[(SStoreI "idxcells" (IVar "i") (IVar "idxupstream"));
(SStoreI "npoints" (IConst 0) (IBin IAdd (IArr "npoints" (IConst 0)) (IConst 1)));
(SStoreI "idxup" (IConst 0) (IVar "idxupstream"));
(SCall DNone "c_downstream" [(AI (IVar "nrows")); (AI (IVar "ncols")); (AArrI "flowdircode" (IConst 0)); (AArrI "flowdir" (IConst 0)); (AI (IConst 1)); (AArrI "idxup" (IConst 0)); (AArrI "idxdown" (IConst 0))])].
Definition rv_p2 : list stmt :=
[(SSetF "dist" (FBin FAdd (FVar "dist") (FUn FSqrt (FBin FAdd (FBin FMul (FVar "dx") (FVar "dx")) (FBin FMul (FVar "dy") (FVar "dy"))))));
(SStoreF "data" (IBin IMul (IVar "ncolsdata") (IVar "i")) (FVar "dist"));
(SStoreF "data" (IBin IAdd (IBin IMul (IVar "ncolsdata") (IVar "i")) (IConst 1)) (FVar "dx"));
(SStoreF "data" (IBin IAdd (IBin IMul (IVar "ncolsdata") (IVar "i")) (IConst 2)) (FVar "dy"))].
Definition rv_p3 : list stmt :=
[(SCall (DI "ierr") "getcoord" [(AI (IVar "nrows")); (AI (IVar "ncols")); (AF (FVar "xll")); (AF (FVar "yll")); (AF (FVar "csz")); (AI (IArr "idxup" (IConst 0))); (AArrF "xy" (IConst 0))]);
(SIf (ICmp CGt (IVar "ierr") (IConst 0))
(SRetI (IBin IAdd (IConst 60000) (IConst 1)))
SSkip);
(SStoreF "data" (IBin IAdd (IBin IMul (IVar "ncolsdata") (IVar "i")) (IConst 3)) (FArr "xy" (IConst 0)));
(SStoreF "data" (IBin IAdd (IBin IMul (IVar "ncolsdata") (IVar "i")) (IConst 4)) (FArr "xy" (IConst 1)))].
Definition rv_p4 : list stmt :=
[(SSetI "nx1" (IBin IRem (IVar "idxupstream") (IVar "ncols")));
(SSetI "ny1" (IBin IDiv (IBin ISub (IVar "idxupstream") (IVar "nx1")) (IVar "ncols")));
(SSetI "nx2" (IBin IRem (IArr "idxdown" (IConst 0)) (IVar "ncols")));
(SSetI "ny2" (IBin IDiv (IBin ISub (IArr "idxdown" (IConst 0)) (IVar "nx2")) (IVar "ncols")));
(SSetF "dx" (FOfInt (IBin ISub (IVar "nx1") (IVar "nx2"))));
(SSetF "dy" (FOfInt (IBin ISub (IVar "ny1") (IVar "ny2"))));
(SSetI "idxupstream" (IArr "idxdown" (IConst 0)));
(SIf (ICmp CLt (IVar "idxupstream") (IConst 0))
(SRetI (IConst 0))
SSkip)].
Definition rv_body : stmt := seq (rv_p1 ++ rv_p2 ++ rv_p3 ++ rv_p4).

Lemma rv_p1_run n cur k ierr nx1 ny1 nx2 ny2 dx dy dist np cdone c0 ctodo iu idn data x y :
  (12 < n)%nat -> valid_cell nrows ncols cur = true -> List.length cdone = k ->
  exec N X (exec_fun N X program n) n (seq rv_p1)
    (rvst cur (Z.of_nat k) ierr nx1 ny1 nx2 ny2 dx dy dist [np] (cdone ++ c0 :: ctodo) iu idn data x y)
  = Ok (ONormal,
        rvst cur (Z.of_nat k) ierr nx1 ny1 nx2 ny2 dx dy dist [np + 1] (cdone ++ cur :: ctodo) cur
             (ds_result nrows ncols codes fd cur) data x y).
Proof.
  intros Hn Hv Hk.
  pose proof (downstream1_run N X nrows ncols codes fd n cur idn Hcodes Hfd ltac:(lia)) as Hrun.
  rewrite downstream_with_eq, Hv in Hrun.
  unfold rvst, rv_p1. cbn. rewrite (zset_app cdone) by lia. cbn. rewrite !zlen_ltb0. cbn.
  rewrite Hrun. cbn. reflexivity.
Qed.

Lemma rv_p2_run (cf : callee T) n cur k ierr nx1 ny1 nx2 ny2 dx dy dist np cells iu idn ddone d0 d1 d2 rest x y :
  List.length ddone = (5 * k)%nat ->
  exec N X cf n (seq rv_p2)
    (rvst cur (Z.of_nat k) ierr nx1 ny1 nx2 ny2 dx dy dist np cells iu idn
          (ddone ++ d0 :: d1 :: d2 :: rest) x y)
  = Ok (ONormal,
        rvst cur (Z.of_nat k) ierr nx1 ny1 nx2 ny2 dx dy
             (nadd N dist (nsqrt N (nadd N (nmul N dx dx) (nmul N dy dy)))) np cells iu idn
             (ddone ++ nadd N dist (nsqrt N (nadd N (nmul N dx dx) (nmul N dy dy))) :: dx :: dy :: rest) x y).
Proof.
  intros Hdd.
  assert (HP0 : 5 * Z.of_nat k = Z.of_nat (List.length ddone) + 0) by lia.
  assert (HP1 : 5 * Z.of_nat k + 1 = Z.of_nat (List.length ddone) + 1) by lia.
  assert (HP2 : 5 * Z.of_nat k + 2 = Z.of_nat (List.length ddone) + 2) by lia.
  unfold rvst, rv_p2. cbn.
  rewrite (zset_app_off ddone _ _ 0) by (try exact HP0; lia). cbn.
  rewrite (zset_app_off ddone _ _ 1) by (try exact HP1; lia). cbn.
  rewrite (zset_app_off ddone _ _ 2) by (try exact HP2; lia). cbn.
  reflexivity.
Qed.

Lemma rv_p3_run n cur k ierr nx1 ny1 nx2 ny2 dx dy dist np cells idn ddone a b c d3 d4 rest x y :
  (12 < n)%nat -> ncols <> 0 -> List.length ddone = (5 * k)%nat ->
  exec N X (exec_fun N X program n) n (seq rv_p3)
    (rvst cur (Z.of_nat k) ierr nx1 ny1 nx2 ny2 dx dy dist np cells cur idn
          (ddone ++ a :: b :: c :: d3 :: d4 :: rest) x y)
  = Ok (ONormal,
        rvst cur (Z.of_nat k) 0 nx1 ny1 nx2 ny2 dx dy dist np cells cur idn
             (ddone ++ a :: b :: c :: fst (getcoord N nrows ncols xll yll csz cur)
                    :: snd (getcoord N nrows ncols xll yll csz cur) :: rest)
             (fst (getcoord N nrows ncols xll yll csz cur)) (snd (getcoord N nrows ncols xll yll csz cur))).
Proof.
  intros Hn Hnc Hdd.
  assert (HP3 : 5 * Z.of_nat k + 3 = Z.of_nat (List.length ddone) + 3) by lia.
  assert (HP4 : 5 * Z.of_nat k + 4 = Z.of_nat (List.length ddone) + 4) by lia.
  unfold rvst, rv_p3. cbn.
  rewrite (getcoord_run N X n nrows ncols xll yll csz cur x y Hhalf Hnc) by lia. cbn.
  rewrite (zset_app_off ddone _ _ 3) by (try exact HP3; lia). cbn.
  rewrite (zset_app_off ddone _ _ 4) by (try exact HP4; lia). cbn.
  reflexivity.
Qed.

Lemma rv_p4_run (cf : callee T) n cur i ierr nx1 ny1 nx2 ny2 dx dy dist np cells iu d data x y :
  ncols <> 0 ->
  exec N X cf n (seq rv_p4)
    (rvst cur i ierr nx1 ny1 nx2 ny2 dx dy dist np cells iu d data x y)
  = Ok (if d <? 0 then ORet (RI 0) else ONormal,
        rvst d i ierr (getnx ncols cur) (getny ncols cur) (getnx ncols d) (getny ncols d)
             (nofZ N (getnx ncols cur - getnx ncols d)) (nofZ N (getny ncols cur - getny ncols d))
             dist np cells iu d data x y).
Proof.
  intros Hnc.
  assert (E0 : (ncols =? 0) = false) by (apply Z.eqb_neq; exact Hnc).
  unfold rvst, rv_p4. cbn. repeat (rewrite E0; cbn). rewrite truth_b2z.
  destruct (d <? 0); reflexivity.
Qed.

Lemma river_loop_with_S f cur dist dx dy :
  river_loop_with N codes (S f) nrows ncols xll yll csz fd cur dist dx dy =
  let dist' := nadd N dist (nsqrt N (nadd N (nmul N dx dx) (nmul N dy dy))) in
  let xy := getcoord N nrows ncols xll yll csz cur in
  let row := (cur, dist', dx, dy, fst xy, snd xy) in
  match downstream_with codes nrows ncols fd cur with
  | None => [row]
  | Some d =>
      if d <? 0 then [row]
      else row :: river_loop_with N codes f nrows ncols xll yll csz fd d dist'
                    (nofZ N (getnx ncols cur - getnx ncols d)) (nofZ N (getny ncols cur - getny ncols d))
  end.
Proof. reflexivity. Qed.

(* the for loop: by induction on the number [f] of iterations left (= fuel of the model's
   [river_loop_with]); [k] iterations are done, [cdone]/[ddone] are the parts of idxcells / data
   already written.  The loop ends normally or by `return 0`; in both cases the arrays hold the
   model's rows followed by the untouched rest of the buffers.  The invariant
   [valid_cell cur] is what makes ignoring the return value of c_downstream harmless
   ([downstream_with_range]: a non-negative answer is a valid cell). *)
Lemma rv_iter n : (12 < n)%nat ->
  forall f lf k cur dist dx dy cdone ctodo ddone dtodo ierr nx1 ny1 nx2 ny2 iu idn x y,
  valid_cell nrows ncols cur = true ->
  List.length ctodo = f -> List.length dtodo = (5 * f)%nat ->
  List.length cdone = k -> List.length ddone = (5 * k)%nat ->
  nval = Z.of_nat (k + f) -> (f < lf)%nat ->
  let rows := river_loop_with N codes f nrows ncols xll yll csz fd cur dist dx dy in
  exists o cur' i' ierr' nx1' ny1' nx2' ny2' dx' dy' dist' iu' idn' x' y',
    loop lf (cond_of N X (ICmp CLt (IVar "i") (IVar "nval")))
      (for_body (exec N X (exec_fun N X program n) n rv_body)
         (exec N X (exec_fun N X program n) n (SSetI "i" (IBin IAdd (IVar "i") (IConst 1)))))
      (rvst cur (Z.of_nat k) ierr nx1 ny1 nx2 ny2 dx dy dist [Z.of_nat k] (cdone ++ ctodo) iu idn
            (ddone ++ dtodo) x y)
    = Ok (o, rvst cur' i' ierr' nx1' ny1' nx2' ny2' dx' dy' dist'
               [Z.of_nat (k + List.length rows)]
               (cdone ++ map rv_cell rows ++ skipn (List.length rows) ctodo) iu' idn'
               (ddone ++ flat_map rv_data rows ++ skipn (5 * List.length rows) dtodo) x' y')
    /\ (o = ONormal \/ o = ORet (RI 0)).
Proof.
  intros Hn. induction f as [|f IH];
    intros lf k cur dist dx dy cdone ctodo ddone dtodo ierr nx1 ny1 nx2 ny2 iu idn x y
           Hv Hct Hdt Hcd Hdd Hnval Hlf rows.
  - destruct lf as [|lf]; [lia|]. subst rows.
    destruct ctodo; [|discriminate]. destruct dtodo; [|discriminate].
    exists ONormal, cur, (Z.of_nat k), ierr, nx1, ny1, nx2, ny2, dx, dy, dist, iu, idn, x, y.
    split; [|left; reflexivity].
    unfold rvst. cbn. replace (Z.of_nat k <? nval) with false by (symmetry; apply Z.ltb_ge; lia).
    cbn. rewrite Nat.add_0_r. reflexivity.
  - destruct lf as [|lf]; [lia|].
    assert (Hrows := river_loop_with_S f cur dist dx dy). fold rows in Hrows. cbv zeta in Hrows.
    clearbody rows.
    assert (Hnc := valid_cell_ncols _ _ _ Hv).
    assert (Hrange := downstream_with_range codes nrows ncols fd cur).
    rewrite downstream_with_eq, Hv in Hrange, Hrows.
    set (d := ds_result nrows ncols codes fd cur) in *.
    set (dist1 := nadd N dist (nsqrt N (nadd N (nmul N dx dx) (nmul N dy dy)))) in *.
    set (xy := getcoord N nrows ncols xll yll csz cur) in *.
    destruct ctodo as [|c0 ctodo]; [discriminate|].
    destruct dtodo as [|d0 [|d1 [|d2 [|d3 [|d4 dtodo]]]]]; try (cbn in Hdt; lia).
    cbn [loop].
    assert (Hcond : cond_of N X (ICmp CLt (IVar "i") (IVar "nval"))
              (rvst cur (Z.of_nat k) ierr nx1 ny1 nx2 ny2 dx dy dist [Z.of_nat k] (cdone ++ c0 :: ctodo)
                 iu idn (ddone ++ d0 :: d1 :: d2 :: d3 :: d4 :: dtodo) x y) = Ok true).
    { unfold rvst. cbn. replace (Z.of_nat k <? nval) with true by (symmetry; apply Z.ltb_lt; lia).
      reflexivity. }
    rewrite Hcond. unfold for_body at 1. unfold rv_body at 1.
    rewrite exec_seq_app by discriminate. rewrite (rv_p1_run n) by assumption.
    rewrite exec_seq_app by discriminate. rewrite rv_p2_run by assumption.
    rewrite exec_seq_app by discriminate. rewrite (rv_p3_run n) by assumption.
    rewrite rv_p4_run by assumption.
    fold d dist1 xy.
    destruct (d <? 0) eqn:Hneg.
    + exists (ORet (RI 0)), d, (Z.of_nat k), 0, (getnx ncols cur), (getny ncols cur), (getnx ncols d),
        (getny ncols d), (nofZ N (getnx ncols cur - getnx ncols d)),
        (nofZ N (getny ncols cur - getny ncols d)), dist1, cur, d, (fst xy), (snd xy).
      split; [|right; reflexivity]. rewrite Hrows.
      cbn [List.length map flat_map rv_cell rv_data fst snd app skipn Nat.mul Nat.add].
      replace (Z.of_nat k + 1) with (Z.of_nat (k + 1)) by lia. reflexivity.
    + assert (Hstep : exec N X (exec_fun N X program n) n (SSetI "i" (IBin IAdd (IVar "i") (IConst 1)))
                (rvst d (Z.of_nat k) 0 (getnx ncols cur) (getny ncols cur) (getnx ncols d) (getny ncols d)
                   (nofZ N (getnx ncols cur - getnx ncols d)) (nofZ N (getny ncols cur - getny ncols d))
                   dist1 [Z.of_nat k + 1] (cdone ++ cur :: ctodo) cur d
                   (ddone ++ dist1 :: dx :: dy :: fst xy :: snd xy :: dtodo) (fst xy) (snd xy))
              = Ok (ONormal,
                  rvst d (Z.of_nat (S k)) 0 (getnx ncols cur) (getny ncols cur) (getnx ncols d) (getny ncols d)
                   (nofZ N (getnx ncols cur - getnx ncols d)) (nofZ N (getny ncols cur - getny ncols d))
                   dist1 [Z.of_nat (S k)] ((cdone ++ [cur]) ++ ctodo) cur d
                   ((ddone ++ [dist1; dx; dy; fst xy; snd xy]) ++ dtodo) (fst xy) (snd xy))).
      { unfold rvst. cbn. rewrite <- !app_assoc. cbn [app].
        replace (Z.of_nat k + 1) with (Z.of_nat (S k)) by lia. reflexivity. }
      rewrite Hstep. clear Hstep.
      destruct (IH lf (S k) d dist1 (nofZ N (getnx ncols cur - getnx ncols d))
                  (nofZ N (getny ncols cur - getny ncols d)) (cdone ++ [cur]) ctodo
                  (ddone ++ [dist1; dx; dy; fst xy; snd xy]) dtodo 0 (getnx ncols cur) (getny ncols cur)
                  (getnx ncols d) (getny ncols d) cur d (fst xy) (snd xy))
        as (o & cur' & i' & ierr' & nx1' & ny1' & nx2' & ny2' & dx' & dy' & dist' & iu' & idn' & x' & y'
            & Hloop & Ho).
      { apply (Hrange d eq_refl). apply Z.ltb_ge. exact Hneg. }
      { cbn in Hct. lia. }
      { cbn in Hdt. lia. }
      { rewrite app_length. cbn. lia. }
      { rewrite app_length. cbn. lia. }
      { lia. }
      { lia. }
      rewrite Hloop. clear Hloop.
      exists o, cur', i', ierr', nx1', ny1', nx2', ny2', dx', dy', dist', iu', idn', x', y'.
      split; [|exact Ho]. rewrite Hrows.
      remember (river_loop_with N codes f nrows ncols xll yll csz fd d dist1
                 (nofZ N (getnx ncols cur - getnx ncols d)) (nofZ N (getny ncols cur - getny ncols d)))
        as rows' eqn:Hrows'.
      cbn [List.length].
      match goal with |- context[skipn ?m (d0 :: d1 :: d2 :: d3 :: d4 :: dtodo)] =>
        replace (skipn m (d0 :: d1 :: d2 :: d3 :: d4 :: dtodo)) with (skipn (5 * List.length rows') dtodo)
          by (rewrite <- (skipn5_cons d0 d1 d2 d3 d4 dtodo); f_equal; lia) end.
      cbn [map flat_map rv_cell rv_data fst snd skipn app].
      replace (S k + List.length rows')%nat with (k + S (List.length rows'))%nat by lia.
      rewrite <- !app_assoc. reflexivity.
Qed.

End River.

Lemma start_check nrows ncols start :
  (start <? 0) || (nrows * ncols - 1 <? start) = negb (valid_cell nrows ncols start).
Proof.
  unfold valid_cell. rewrite negb_involutive. f_equal.
  destruct (Z.ltb_spec (nrows * ncols - 1) start); destruct (Z.leb_spec (nrows * ncols) start);
    try reflexivity; lia.
Qed.

(* c_delineate_river: for EVERY grid shape, table of direction codes (9 entries),
   flow-direction grid (at least nrows*ncols entries), corner and cell size (NaN included),
   start cell (valid or not) and buffers npoints (1 entry), idxcells (nval entries),
   data (5*nval entries).  [cjunk], [djunk]: the initial contents of idxcells and data. *)
Definition rv_fA : list stmt :=
[(SSetI "i" (IConst 0));
(SNewI "idxup" (IConst 1) []);
(SNewI "idxdown" (IConst 1) []);
(SSetI "ierr" (IConst 0));
(SSetI "nx1" (IConst 0));
(SSetI "ny1" (IConst 0));
(SSetI "nx2" (IConst 0));
(SSetI "ny2" (IConst 0));
(SSetI "ncolsdata" (IConst 0));
(SSetF "dx" (FOfInt (IConst 0)));
(SSetF "dy" (FOfInt (IConst 0)));
(SSetF "dist" (FOfInt (IConst 0)));
(SNewF "xy" (IConst 2) []);
(SSetI "ncolsdata" (IConst 5))].
Definition rv_fchk : list stmt :=
[(SIf (IOr (ICmp CLt (IVar "idxupstream") (IConst 0)) (ICmp CGt (IVar "idxupstream") (IBin ISub (IBin IMul (IVar "nrows") (IVar "ncols")) (IConst 1))))
(SRetI (IBin IAdd (IConst 60000) (IConst 1)))
SSkip)].
Definition rv_fB : list stmt :=
[(SStoreI "npoints" (IConst 0) (IConst 0));
(SSetF "dist" (FOfInt (IConst 0)));
(SSetF "dx" (FOfInt (IConst 0)));
(SSetF "dy" (FOfInt (IConst 0)));
(SSetI "i" (IConst 0))].
Definition rv_fC : list stmt :=
[(SFor (ICmp CLt (IVar "i") (IVar "nval"))
   (SSetI "i" (IBin IAdd (IVar "i") (IConst 1))) rv_body);
 (SRetI (IConst 0))].

Definition rv_st0 nrows ncols (xll yll csz : T) codes fd start nval np0 cjunk djunk : state T :=
  {| s_i := [("nrows", nrows); ("ncols", ncols); ("idxupstream", start); ("nval", nval)];
     s_f := [("xll", xll); ("yll", yll); ("csz", csz)];
     s_ai := [("flowdircode", codes); ("flowdir", fd); ("npoints", [np0]); ("idxcells", cjunk)];
     s_af := [("data", djunk)] |}.

Lemma rv_fun_unfold nrows ncols xll yll csz codes fd start nval np0 cjunk djunk n :
  exec_fun N X program (S n) "c_delineate_river"
    [AVI nrows; AVI ncols; AVF xll; AVF yll; AVF csz; AVArrI codes; AVArrI fd; AVI start;
     AVI nval; AVArrI [np0]; AVArrI cjunk; AVArrF djunk]
  = match exec N X (exec_fun N X program n) n
            (seq (rv_fA ++ rv_fchk ++ rv_fB ++ rv_fC))
            (rv_st0 nrows ncols xll yll csz codes fd start nval np0 cjunk djunk) with
    | Ok (ORet v, st) =>
        do o <- out_arrays [PI "nrows"; PI "ncols"; PF "xll"; PF "yll"; PF "csz"; PArrI "flowdircode";
                            PArrI "flowdir"; PI "idxupstream"; PI "nval"; PArrI "npoints";
                            PArrI "idxcells"; PArrF "data"] st; Ok (v, o)
    | Ok (_, _) => Err (BadRet "c_delineate_river")
    | Err e => Err e
    end.
Proof. reflexivity. Qed.

Lemma rv_fA_run (cf : callee T) n nrows ncols xll yll csz codes fd start nval np0 cjunk djunk :
  nofZ N 0 = n0 N ->
  exec N X cf n (seq rv_fA) (rv_st0 nrows ncols xll yll csz codes fd start nval np0 cjunk djunk)
  = Ok (ONormal, rvst nrows ncols xll yll csz codes fd nval start 0 0 0 0 0 0 (n0 N) (n0 N) (n0 N)
                   [np0] cjunk 0 0 djunk (n0 N) (n0 N)).
Proof. intros HZ. unfold rv_st0, rv_fA, rvst. cbn. rewrite !HZ. reflexivity. Qed.

Lemma rv_fchk_run (cf : callee T) n nrows ncols xll yll csz codes fd start nval np cells data x y :
  exec N X cf n (seq rv_fchk)
    (rvst nrows ncols xll yll csz codes fd nval start 0 0 0 0 0 0 (n0 N) (n0 N) (n0 N)
          np cells 0 0 data x y)
  = Ok (if valid_cell nrows ncols start then ONormal else ORet (RI 60001),
        rvst nrows ncols xll yll csz codes fd nval start 0 0 0 0 0 0 (n0 N) (n0 N) (n0 N)
          np cells 0 0 data x y).
Proof.
  unfold rv_fchk, rvst. cbn. rewrite !truth_b2z, or_ok. cbn. rewrite truth_b2z, start_check.
  destruct (valid_cell nrows ncols start); reflexivity.
Qed.

Lemma rv_fB_run (cf : callee T) n nrows ncols xll yll csz codes fd start nval np0 cells data x y :
  nofZ N 0 = n0 N ->
  exec N X cf n (seq rv_fB)
    (rvst nrows ncols xll yll csz codes fd nval start 0 0 0 0 0 0 (n0 N) (n0 N) (n0 N)
          [np0] cells 0 0 data x y)
  = Ok (ONormal,
        rvst nrows ncols xll yll csz codes fd nval start 0 0 0 0 0 0 (n0 N) (n0 N) (n0 N)
          [0] cells 0 0 data x y).
Proof. intros HZ. unfold rv_fB, rvst. cbn. rewrite !HZ. reflexivity. Qed.

Theorem refine_delineate_river_with nrows ncols xll yll csz codes fd start np0 cjunk djunk n :
  nofZ N 0 = n0 N ->
  nlit X (0x1.0000000000000p-1)%float 1 2 = nhalf N ->
  List.length codes = 9%nat ->
  nrows * ncols <= Z.of_nat (List.length fd) ->
  List.length djunk = (5 * List.length cjunk)%nat ->
  (Nat.max (List.length cjunk) 12 < n)%nat ->
  match river_with N codes nrows ncols xll yll csz fd start (MiniC.zlen cjunk) with
  | Some rows =>
      exec_fun N X program (S n) "c_delineate_river"
        [AVI nrows; AVI ncols; AVF xll; AVF yll; AVF csz; AVArrI codes; AVArrI fd; AVI start;
         AVI (MiniC.zlen cjunk); AVArrI [np0]; AVArrI cjunk; AVArrF djunk]
      = Ok (RI 0, [VArrI codes; VArrI fd; VArrI [Z.of_nat (List.length rows)];
                   VArrI (map rv_cell rows ++ skipn (List.length rows) cjunk);
                   VArrF (flat_map rv_data rows ++ skipn (5 * List.length rows) djunk)])
  | None =>
      exists code, 0 < code /\
      exec_fun N X program (S n) "c_delineate_river"
        [AVI nrows; AVI ncols; AVF xll; AVF yll; AVF csz; AVArrI codes; AVArrI fd; AVI start;
         AVI (MiniC.zlen cjunk); AVArrI [np0]; AVArrI cjunk; AVArrF djunk]
      = Ok (RI code, [VArrI codes; VArrI fd; VArrI [np0]; VArrI cjunk; VArrF djunk])
  end.
Proof.
  intros HZ Hhalf Hcodes Hfd Hd Hn. unfold river_with.
  rewrite rv_fun_unfold.
  rewrite exec_seq_app by discriminate. rewrite rv_fA_run by exact HZ.
  rewrite exec_seq_app by discriminate. rewrite rv_fchk_run.
  destruct (valid_cell nrows ncols start) eqn:Hv.
  - rewrite exec_seq_app by discriminate. rewrite rv_fB_run by exact HZ.
    destruct (rv_iter nrows ncols xll yll csz codes fd (MiniC.zlen cjunk) Hcodes Hfd Hhalf n ltac:(lia)
                (List.length cjunk) n 0%nat start (n0 N) (n0 N) (n0 N) [] cjunk [] djunk
                0 0 0 0 0 0 0 (n0 N) (n0 N) Hv eq_refl Hd eq_refl eq_refl)
      as (o & cur' & i' & ierr' & nx1' & ny1' & nx2' & ny2' & dx' & dy' & dist' & iu' & idn' & x' & y'
          & Hloop & Ho); [rewrite zlen_eq; reflexivity|lia|].
    replace (Z.to_nat (MiniC.zlen cjunk)) with (List.length cjunk) by (rewrite zlen_eq; lia).
    cbn [app] in Hloop. change (Z.of_nat 0) with 0 in Hloop.
    unfold rv_fC. cbn [seq]. cbn [exec]. rewrite Hloop.
    destruct Ho as [-> | ->]; cbn; reflexivity.
  - exists 60001. split; [lia|]. cbn. reflexivity.
Qed.

End RiverKernel.

(* the same statement about the model of Model/Catchment.v (direction codes = FLOWDIRCODE) *)
Theorem refine_delineate_river {T} (N : NumOps T) (X : NumLit T)
        nrows ncols xll yll csz fd start np0 cjunk djunk n :
  nofZ N 0 = n0 N ->
  nlit X (0x1.0000000000000p-1)%float 1 2 = nhalf N ->
  nrows * ncols <= Z.of_nat (List.length fd) ->
  List.length djunk = (5 * List.length cjunk)%nat ->
  (Nat.max (List.length cjunk) 12 < n)%nat ->
  match river N nrows ncols xll yll csz fd start (MiniC.zlen cjunk) with
  | Some rows =>
      exec_fun N X program (S n) "c_delineate_river"
        [AVI nrows; AVI ncols; AVF xll; AVF yll; AVF csz; AVArrI FLOWDIRCODE; AVArrI fd; AVI start;
         AVI (MiniC.zlen cjunk); AVArrI [np0]; AVArrI cjunk; AVArrF djunk]
      = Ok (RI 0, [VArrI FLOWDIRCODE; VArrI fd; VArrI [Z.of_nat (List.length rows)];
                   VArrI (map rv_cell rows ++ skipn (List.length rows) cjunk);
                   VArrF (flat_map rv_data rows ++ skipn (5 * List.length rows) djunk)])
  | None =>
      exists code, 0 < code /\
      exec_fun N X program (S n) "c_delineate_river"
        [AVI nrows; AVI ncols; AVF xll; AVF yll; AVF csz; AVArrI FLOWDIRCODE; AVArrI fd; AVI start;
         AVI (MiniC.zlen cjunk); AVArrI [np0]; AVArrI cjunk; AVArrF djunk]
      = Ok (RI code, [VArrI FLOWDIRCODE; VArrI fd; VArrI [np0]; VArrI cjunk; VArrF djunk])
  end.
Proof.
  intros HZ Hhalf Hfd Hd Hn. rewrite <- river_with_model.
  apply refine_delineate_river_with; try assumption. reflexivity.
Qed.

(* ================================================================== *)
(* The hypotheses on the arithmetic hold in the three instances         *)
(* ================================================================== *)

Lemma ofZ0_F64 : nofZ F64 0 = n0 F64. Proof. reflexivity. Qed.
Lemma ofZ0_RR : nofZ RR 0 = n0 RR. Proof. reflexivity. Qed.
Lemma ofZ0_RN : nofZ RN 0 = n0 RN. Proof. reflexivity. Qed.

Lemma half_F64 : nlit XF64 (0x1.0000000000000p-1)%float 1 2 = nhalf F64.
Proof. vm_compute. reflexivity. Qed.
Lemma half_RR : nlit XRR (0x1.0000000000000p-1)%float 1 2 = nhalf RR.
Proof. unfold nhalf. cbn. unfold lit_R. lra. Qed.
Lemma half_RN : nlit XRN (0x1.0000000000000p-1)%float 1 2 = nhalf RN.
Proof. unfold nhalf. cbn. unfold lit_R. f_equal. Qed.

(* the theorems in binary64 (the instance validated against the compiled kernels) *)
Definition refine_delineate_flowpathlengths_in_catchment_F64 :=
  fun nrows ncols fd area outlet junk n =>
    refine_delineate_flowpathlengths_in_catchment F64 XF64 nrows ncols fd area outlet junk n ofZ0_F64.
Definition refine_delineate_river_F64 :=
  fun nrows ncols xll yll csz fd start np0 cjunk djunk n =>
    refine_delineate_river F64 XF64 nrows ncols xll yll csz fd start np0 cjunk djunk n ofZ0_F64 half_F64.
Definition refine_delineate_river_RR :=
  fun nrows ncols xll yll csz fd start np0 cjunk djunk n =>
    refine_delineate_river RR XRR nrows ncols xll yll csz fd start np0 cjunk djunk n ofZ0_RR half_RR.
Definition refine_delineate_river_RN :=
  fun nrows ncols xll yll csz fd start np0 cjunk djunk n =>
    refine_delineate_river RN XRN nrows ncols xll yll csz fd start np0 cjunk djunk n ofZ0_RN half_RN.
