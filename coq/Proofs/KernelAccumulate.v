(* C11 on the regenerated program (MiniC translation of c_accumulate, c_grid.c): the
   local law and the no-data law of Proofs/AccProofs.v transported through
   Proofs/RefineAccumulate.v. *)
From Coq Require Import ZArith Bool List String Lia Reals.
From Hy Require Import Base.Num Base.MiniC Gen.KernelsAst Gen.Consts Model.Grid Model.Accumulate
  Proofs.AccProofs Proofs.RefineAccumulate.
Import ListNotations.
Open Scope string_scope.
Open Scope list_scope.
Open Scope Z_scope.

Definition run_accumulate (n : nat) nrows ncols nprint maxcells (nodata : R) (fd : list Z) (field : list R) :=
  exec_fun RR XRR program (S n) "c_accumulate"
    [AVI nrows; AVI ncols; AVI nprint; AVI maxcells; AVF nodata; AVArrI FLOWDIRCODE;
     AVArrI fd; AVArrF field; AVArrF field].

(* On any grid without cycles, with the default cap or a larger one, the translated
   kernel - run on real numbers, accumulation initialised with the field as grid.py
   does - returns 0 and an array [res] in which every cell that drains into another
   cell holds its own contribution plus the accumulated values of its direct upstream
   neighbours, and every cell that drains nowhere holds the no-data value; the
   flow-direction and field arrays are returned unchanged. *)
Theorem kernel_accumulate_laws nrows ncols nprint maxcells nodata fd field n :
  0 < ncols -> 1 <= nrows -> 1 <= maxcells -> nrows * ncols <= maxcells ->
  acyclic nrows ncols fd ->
  List.length fd = Z.to_nat (nrows * ncols) -> List.length field = Z.to_nat (nrows * ncols) ->
  (Nat.max (Nat.max (Z.to_nat (nrows * ncols)) (Z.to_nat (maxcells + 1))) 10 < n)%nat ->
  exists res,
    run_accumulate n nrows ncols nprint maxcells nodata fd field
      = Ok (RI 0, [VArrI FLOWDIRCODE; VArrI fd; VArrF field; VArrF res]) /\
    (forall c d, 0 <= c < nrows * ncols -> downstream nrows ncols fd c = Some d -> 0 <= d ->
       zn res c 0%R = (zn field c 0 + Rsum (map (fun u => zn res u 0%R) (upstream_hits nrows ncols fd c)))%R) /\
    (forall c d, 0 <= c < nrows * ncols -> downstream nrows ncols fd c = Some d -> d < 0 ->
       zn res c 0%R = nodata).
Proof.
  intros Hnc Hnr Hmc Hcap Hac Hfd Hfl Hn.
  destruct (accumulate_returns RR nrows ncols maxcells nodata fd field Hmc Hnr) as [res Hres].
  assert (Hcomp : complete nrows ncols fd (Z.to_nat (maxcells + 1)))
    by (apply acyclic_default_cap_complete; assumption).
  assert (Hz : Catchment.zlen field = nrows * ncols) by (unfold Catchment.zlen; rewrite Hfl; nia).
  exists res. split; [|split].
  - generalize (refine_accumulate RR XRR nrows ncols nprint maxcells nodata fd field n Hfd Hfl Hn).
    rewrite Hres. exact (fun H => H).
  - intros c d Hc Hd Hd0. eapply acc_local; eassumption.
  - intros c d Hc Hd Hd0. eapply acc_terminal_nodata; eassumption.
Qed.
