(* Refinement: the MiniC program regenerated from src/hydrodiy/stat/c_paretofront.c
   (Gen/KernelsAst.v: c_paretofront) computes, for ALL inputs, what the hand-written
   model [paretofront] of Model/Summary.v computes  (Theorem refine_paretofront).
   Second part: c_islin (src/hydrodiy/data/c_qualitycontrol.c) against a functional
   specification written in this file, [islin_spec]  (Theorem refine_islin). *)
From Coq Require Import ZArith Bool List String Lia.
From Hy Require Import Base.Num Base.MiniC Gen.KernelsAst Model.Summary.
Import ListNotations.
Open Scope string_scope.
Open Scope list_scope.
Open Scope Z_scope.

(* ================================================================== *)
(* Generic helpers (candidates for Base/MiniC.v)                        *)
(* ================================================================== *)

Lemma combine_snoc' {A B} (pa : list A) (qa : list B) c x :
  List.length pa = List.length qa ->
  combine (pa ++ [c]) (qa ++ [x]) = combine pa qa ++ [(c, x)].
Proof.
  revert qa; induction pa as [|a pa IH]; intros [|b qa] H; cbn in H; try discriminate.
  - reflexivity.
  - cbn. rewrite IH by lia. reflexivity.
Qed.

(* row-major flattened matrix: all rows have [c] entries *)
Lemma concat_length_const {A} (l : list (list A)) (c : nat) :
  Forall (fun r => List.length r = c) l -> List.length (List.concat l) = (c * List.length l)%nat.
Proof.
  induction 1 as [|r l Hr _ IH]; cbn [List.concat List.length]; [lia|].
  rewrite app_length, IH, Hr. lia.
Qed.

(* entry (row |A0|, column |p|) of the flattened matrix *)
Lemma zget_concat {A} (data : list (list A)) (c : nat) A0 r B p x q :
  Forall (fun r => List.length r = c) data ->
  data = A0 ++ r :: B -> r = p ++ x :: q ->
  zget (List.concat data) (Z.of_nat c * Z.of_nat (List.length A0) + Z.of_nat (List.length p)) = Some x.
Proof.
  intros HF -> ->. rewrite concat_app. cbn [List.concat].
  rewrite <- (app_assoc p). cbn [app]. rewrite app_assoc.
  apply zget_app. rewrite app_length, (concat_length_const A0 c).
  - lia.
  - apply Forall_app in HF. exact (proj1 HF).
Qed.

Lemma b2z_mul (a b : bool) : b2z a * b2z b = b2z (a && b).
Proof. destruct a, b; reflexivity. Qed.

Lemma b2z_eqb_1 (a : bool) : (b2z a =? 1) = a.
Proof. destruct a; reflexivity. Qed.

(* present the initial state of the (first matching) loop of the goal as [st] *)
Ltac fold_loop_state n st :=
  match goal with
  | |- context[loop n _ _ ?s] => change s with st
  end.

Lemma exec_fun_S {T} (N : NumOps T) (X : NumLit T) p n f args :
  exec_fun N X p (S n) f args =
  do fd <- find_fun p f;
  do st0 <- bind_params f (fst fd) args st_empty;
  match exec N X (exec_fun N X p n) n (snd fd) st0 with
  | Ok (ORet v, st) => do o <- out_arrays (fst fd) st; Ok (v, o)
  | Ok (_, _) => Err (BadRet f)
  | Err e => Err e
  end.
Proof. reflexivity. Qed.

(* expose the body of function [f] (kernel check: one lookup in [program]) *)
Ltac open_fun f :=
  rewrite exec_fun_S;
  let r := eval vm_compute in (find_fun program f) in
  change (find_fun program f) with r;
  cbn [bind fst snd bind_params].

(* hide what follows the conditional on [c] behind a variable, so that [cbn] stops there
   (decide the condition, then [subst] the variable): the function is executed in slices with
   a literal state between two slices, see [mc_norm] *)
Ltac hide_tail_after_if c tl Htl :=
  match goal with
  | |- context[SSeq (SIf c ?a ?b) ?tail] => remember tail as tl eqn:Htl
  end.

(* [cbn] then [norm_state] as ONE conversion step: the kernel then compares the old goal with
   a goal whose states are literal records.  PITFALL: after a plain [cbn] through many
   assignments the state is a chain [set_f (set_i (...) ..) ..]; when the kernel (at Qed)
   compares such a chain with the same chain in another stage of evaluation (one side forced
   to [mkState] by a variable lookup), each of the 4 fields of [mkState] compares the whole
   inner state again: 4^depth.  A chain of ~16 assignments (c_islin: 6 parameters + 10
   locals) makes Qed run for hours although every tactic is instantaneous.  Only use this
   tactic when no continuation of the goal applies set_* to a bound state (hide the rest of
   the body first). *)
Ltac mc_norm :=
  match goal with
  | |- ?G =>
      let G1 := eval cbn in G in
      let G2 := eval cbv [set_i set_f set_ai set_af aupd s_i s_f s_ai s_af st_empty
                          String.eqb Ascii.eqb Bool.eqb] in G1 in
      change G2
  end.

(* ================================================================== *)

Section Refine.
Context {T : Type} (N : NumOps T) (X : NumLit T).

#[local] Arguments pf_any : simpl never.
#[local] Arguments pf_loop : simpl never.
#[local] Arguments pf_dominates : simpl never.
#[local] Arguments pf_coord : simpl never.
#[local] Arguments combine : simpl never.
#[local] Arguments forallb : simpl never.
#[local] Arguments List.concat : simpl never.

Definition pf_state (nval ncol orient i j k dom : Z) (diff : T) (data : list T) (isdom : list Z)
  : state T :=
  {| s_i := [("nval", nval); ("ncol", ncol); ("orientation", orient); ("i", i); ("j", j);
             ("k", k); ("dom", dom); ("ierr", 0)];
     s_f := [("diff", diff); ("orientationd", nofZ N orient)];
     s_ai := [("isdominated", isdom)];
     s_af := [("data", data)] |}.

(* the statements of the three loops, as printed after [cbn] of the kernel *)
Local Notation k_cond := (ICmp CLt (IVar "k") (IVar "ncol")).
Local Notation k_step := (SSetI "k" (IBin IAdd (IVar "k") (IConst 1))).
Local Notation k_body :=
  (SSeq
     (SSetF "diff"
        (FBin FSub
           (FArr "data" (IBin IAdd (IBin IMul (IVar "ncol") (IVar "j")) (IVar "k")))
           (FArr "data" (IBin IAdd (IBin IMul (IVar "ncol") (IVar "i")) (IVar "k")))))
     (SSeq (SIf (IIsnan (FVar "diff")) SContinue SSkip)
        (SSetI "dom"
           (IBin IMul (IVar "dom")
              (IFCmp CGt (FBin FMul (FVar "orientationd") (FVar "diff")) (FOfInt (IConst 0))))))).

Local Notation j_cond := (ICmp CLt (IVar "j") (IVar "nval")).
Local Notation j_step := (SSetI "j" (IBin IAdd (IVar "j") (IConst 1))).
Local Notation j_body :=
  (SSeq (SIf (ICmp CEq (IVar "i") (IVar "j")) SContinue SSkip)
     (SSeq (SSetI "dom" (IConst 1))
        (SSeq (SSetI "k" (IConst 0))
           (SSeq (SFor k_cond k_step k_body)
              (SIf (ICmp CEq (IVar "dom") (IConst 1))
                 (SSeq (SStoreI "isdominated" (IVar "i") (IConst 1)) SBreak) SSkip))))).

Local Notation i_cond := (ICmp CLt (IVar "i") (IVar "nval")).
Local Notation i_step := (SSetI "i" (IBin IAdd (IVar "i") (IConst 1))).
Local Notation i_body :=
  (SSeq (SStoreI "isdominated" (IVar "i") (IConst 0))
     (SSeq (SSetI "j" (IConst 0)) (SFor j_cond j_step j_body))).

Lemma forallb_single {A} (f : A -> bool) a : forallb f [a] = f a.
Proof. unfold forallb. apply andb_true_r. Qed.

Lemma pf_coord_eq od x y :
  pf_coord N od (x, y) =
  if nisnan N (nsub N x y) then true else nltb N (n0 N) (nmul N od (nsub N x y)).
Proof. reflexivity. Qed.

(* ---- loop over the columns: dom = 1 iff row j dominates row i ---- *)

Definition pfk_inv nval (ncol : nat) orient i j (rows : list (list T)) isdom (ri rj : list T)
           (k : nat) (st : state T) : Prop :=
  exists pj qj pi qi diff,
    rj = pj ++ qj /\ ri = pi ++ qi /\ List.length pj = k /\ List.length pi = k /\
    st = pf_state nval (Z.of_nat ncol) orient i j (Z.of_nat k)
           (b2z (forallb (pf_coord N (nofZ N orient)) (combine pj pi))) diff (List.concat rows) isdom.

Definition pfk_post nval (ncol : nat) orient i j (rows : list (list T)) isdom (ri rj : list T)
           (r : outcome T * state T) : Prop :=
  exists diff,
    r = (ONormal, pf_state nval (Z.of_nat ncol) orient i j (Z.of_nat ncol)
                    (b2z (pf_dominates N (nofZ N orient) rj ri)) diff (List.concat rows) isdom).

Lemma pf_kloop (callf : callee T) n nval (ncol : nat) orient rows Ai ri Bi Aj rj Bj diff0 isdom :
  nofZ N 0 = n0 N ->
  Forall (fun r => List.length r = ncol) rows ->
  rows = Ai ++ ri :: Bi -> rows = Aj ++ rj :: Bj ->
  (ncol < n)%nat ->
  exists r,
    loop n (cond_of N X k_cond)
      (for_body (exec N X callf n k_body) (exec N X callf n k_step))
      (pf_state nval (Z.of_nat ncol) orient (Z.of_nat (List.length Ai)) (Z.of_nat (List.length Aj))
         0 1 diff0 (List.concat rows) isdom) = Ok r
    /\ pfk_post nval ncol orient (Z.of_nat (List.length Ai)) (Z.of_nat (List.length Aj))
         rows isdom ri rj r.
Proof.
  intros HZ HF Hi Hj Hn.
  assert (Hli : List.length ri = ncol).
  { rewrite Forall_forall in HF. apply HF. rewrite Hi. apply in_elt. }
  assert (Hlj : List.length rj = ncol).
  { rewrite Forall_forall in HF. apply HF. rewrite Hj. apply in_elt. }
  apply (loop_rule
           (pfk_inv nval ncol orient (Z.of_nat (List.length Ai)) (Z.of_nat (List.length Aj))
              rows isdom ri rj)
           (pfk_post nval ncol orient (Z.of_nat (List.length Ai)) (Z.of_nat (List.length Aj))
              rows isdom ri rj) ncol) with (k := O).
  - intros k st (pj & qj & pi & qi & diff & Hrj & Hri & Hpj & Hpi & ->).
    assert (Hkj : ncol = (k + List.length qj)%nat) by (rewrite <- Hlj, Hrj, app_length; lia).
    assert (Hki : ncol = (k + List.length qi)%nat) by (rewrite <- Hli, Hri, app_length; lia).
    split; [lia|].
    unfold pf_state. cbn.
    destruct qj as [|x qj].
    + replace (Z.of_nat k <? Z.of_nat ncol) with false
        by (symmetry; apply Z.ltb_ge; cbn in Hkj; lia).
      cbn. destruct qi; [|cbn in Hkj, Hki; lia].
      rewrite app_nil_r in Hrj, Hri. subst pj pi.
      exists diff. unfold pf_state, pf_dominates.
      replace ncol with k by (cbn in Hkj; lia). reflexivity.
    + replace (Z.of_nat k <? Z.of_nat ncol) with true
        by (symmetry; apply Z.ltb_lt; cbn in Hkj; lia).
      destruct qi as [|y qi]; [cbn in Hkj, Hki; lia|].
      assert (Hgx : zget (List.concat rows)
                      (Z.of_nat ncol * Z.of_nat (List.length Aj) + Z.of_nat k) = Some x).
      { rewrite <- Hpj. apply (zget_concat rows ncol Aj rj Bj pj x qj HF Hj Hrj). }
      assert (Hgy : zget (List.concat rows)
                      (Z.of_nat ncol * Z.of_nat (List.length Ai) + Z.of_nat k) = Some y).
      { rewrite <- Hpi. apply (zget_concat rows ncol Ai ri Bi pi y qi HF Hi Hri). }
      cbn. rewrite Hgx. cbn. rewrite Hgy. cbn. rewrite truth_b2z.
      destruct (nisnan N (nsub N x y)) eqn:Hnan; cbn.
      * exists (pj ++ [x]), qj, (pi ++ [y]), qi, (nsub N x y).
        split; [rewrite <- app_assoc; exact Hrj|].
        split; [rewrite <- app_assoc; exact Hri|].
        split; [rewrite app_length; cbn; lia|].
        split; [rewrite app_length; cbn; lia|].
        norm_state. unfold pf_state.
        rewrite combine_snoc' by lia. rewrite forallb_app.
        rewrite forallb_single, pf_coord_eq, Hnan.
        rewrite ?andb_true_r.
        replace (Z.of_nat k + 1) with (Z.of_nat (S k)) by lia. reflexivity.
      * rewrite b2z_mul.
        exists (pj ++ [x]), qj, (pi ++ [y]), qi, (nsub N x y).
        split; [rewrite <- app_assoc; exact Hrj|].
        split; [rewrite <- app_assoc; exact Hri|].
        split; [rewrite app_length; cbn; lia|].
        split; [rewrite app_length; cbn; lia|].
        norm_state. unfold pf_state.
        rewrite combine_snoc' by lia. rewrite forallb_app.
        rewrite forallb_single, pf_coord_eq, Hnan, HZ.
        replace (Z.of_nat k + 1) with (Z.of_nat (S k)) by lia. reflexivity.
  - exists [], rj, [], ri, diff0. repeat split.
  - lia.
Qed.

(* ---- loop over the other points, with break at the first dominating one ---- *)

Lemma pf_any_cons od ri i j rj rest :
  pf_any N od ri i j (rj :: rest) =
  if Nat.eqb i j then pf_any N od ri i (S j) rest
  else if pf_dominates N od rj ri then true else pf_any N od ri i (S j) rest.
Proof. reflexivity. Qed.

Definition pfj_inv (ncol : nat) orient (rows : list (list T)) (i : nat) (ri : list T)
           (done rest : list Z) (jj : nat) (st : state T) : Prop :=
  exists dj tj k dom diff,
    rows = dj ++ tj /\ List.length dj = jj /\
    pf_any N (nofZ N orient) ri i 0 rows = pf_any N (nofZ N orient) ri i jj tj /\
    st = pf_state (Z.of_nat (List.length rows)) (Z.of_nat ncol) orient (Z.of_nat i) (Z.of_nat jj)
           k dom diff (List.concat rows) (done ++ 0 :: rest).

Definition pfj_post (ncol : nat) orient (rows : list (list T)) (i : nat) (ri : list T)
           (done rest : list Z) (r : outcome T * state T) : Prop :=
  exists j k dom diff,
    r = (ONormal,
         pf_state (Z.of_nat (List.length rows)) (Z.of_nat ncol) orient (Z.of_nat i) j k dom diff
           (List.concat rows)
           (done ++ (if pf_any N (nofZ N orient) ri i 0 rows then 1 else 0) :: rest)).

Lemma pf_jloop (callf : callee T) n (ncol : nat) orient rows Ai ri Bi k0 dom0 diff0 done rest :
  nofZ N 0 = n0 N ->
  Forall (fun r => List.length r = ncol) rows ->
  rows = Ai ++ ri :: Bi ->
  List.length done = List.length Ai ->
  (List.length rows < n)%nat -> (ncol < n)%nat ->
  exists r,
    loop n (cond_of N X j_cond)
      (for_body (exec N X callf n j_body) (exec N X callf n j_step))
      (pf_state (Z.of_nat (List.length rows)) (Z.of_nat ncol) orient (Z.of_nat (List.length Ai)) 0
         k0 dom0 diff0 (List.concat rows) (done ++ 0 :: rest)) = Ok r
    /\ pfj_post ncol orient rows (List.length Ai) ri done rest r.
Proof.
  intros HZ HF Hi Hdone Hn Hnc.
  apply (loop_rule (pfj_inv ncol orient rows (List.length Ai) ri done rest)
           (pfj_post ncol orient rows (List.length Ai) ri done rest) (List.length rows))
    with (k := O).
  - intros jj st (dj & tj & k & dom & diff & Hrows & Hdj & Hany & ->).
    assert (Hlen : List.length rows = (jj + List.length tj)%nat)
      by (rewrite Hrows at 1; rewrite app_length; lia).
    split; [lia|].
    unfold pf_state. cbn.
    destruct tj as [|rj tj].
    + replace (Z.of_nat jj <? Z.of_nat (List.length rows)) with false
        by (symmetry; apply Z.ltb_ge; cbn in Hlen; lia).
      cbn. exists (Z.of_nat jj), k, dom, diff. rewrite Hany. reflexivity.
    + replace (Z.of_nat jj <? Z.of_nat (List.length rows)) with true
        by (symmetry; apply Z.ltb_lt; cbn in Hlen; lia).
      rewrite pf_any_cons in Hany.
      cbn. rewrite truth_b2z.
      revert Hany. destruct (Nat.eqb_spec (List.length Ai) jj) as [Heq|Hne]; intros Hany.
      * replace (Z.of_nat (List.length Ai) =? Z.of_nat jj) with true
          by (symmetry; apply Z.eqb_eq; lia).
        cbn.
        exists (dj ++ [rj]), tj, k, dom, diff.
        split; [rewrite <- app_assoc; exact Hrows|].
        split; [rewrite app_length; cbn; lia|].
        split; [exact Hany|].
        norm_state. unfold pf_state.
        replace (Z.of_nat jj + 1) with (Z.of_nat (S jj)) by lia. reflexivity.
      * replace (Z.of_nat (List.length Ai) =? Z.of_nat jj) with false
          by (symmetry; apply Z.eqb_neq; lia).
        cbn.
        destruct (pf_kloop callf n (Z.of_nat (List.length rows)) ncol orient rows Ai ri Bi
                    dj rj tj diff (done ++ 0 :: rest) HZ HF Hi Hrows Hnc)
          as (r & Hr & (diff' & ->)).
        rewrite Hdj in Hr.
        fold_loop_state n
          (pf_state (Z.of_nat (List.length rows)) (Z.of_nat ncol) orient
             (Z.of_nat (List.length Ai)) (Z.of_nat jj) 0 1 diff (List.concat rows)
             (done ++ 0 :: rest)).
        rewrite Hr. unfold pf_state. cbn. rewrite truth_b2z, b2z_eqb_1.
        destruct (pf_dominates N (nofZ N orient) rj ri) eqn:Hdom.
        -- cbn. rewrite (zset_app done rest 0 1) by lia. cbn.
           exists (Z.of_nat jj), (Z.of_nat ncol), 1, diff'.
           rewrite Hany. reflexivity.
        -- cbn.
           exists (dj ++ [rj]), tj, (Z.of_nat ncol), 0, diff'.
           split; [rewrite <- app_assoc; exact Hrows|].
           split; [rewrite app_length; cbn; lia|].
           split; [exact Hany|].
           norm_state. unfold pf_state.
           replace (Z.of_nat jj + 1) with (Z.of_nat (S jj)) by lia. reflexivity.
  - exists [], rows, k0, dom0, diff0. repeat split.
  - lia.
Qed.

(* ---- loop over the points ---- *)

Lemma pf_loop_length od all l : forall s, List.length (pf_loop N od all s l) = List.length l.
Proof.
  induction l as [|r l IH]; intros s; [reflexivity|].
  change (pf_loop N od all s (r :: l))
    with ((if pf_any N od r s 0 all then 1 else 0) :: pf_loop N od all (S s) l).
  cbn [List.length]. rewrite IH. reflexivity.
Qed.

Lemma pf_loop_snoc od all l : forall s r,
  pf_loop N od all s (l ++ [r])
  = pf_loop N od all s l ++ [if pf_any N od r (s + List.length l) 0 all then 1 else 0].
Proof.
  induction l as [|a l IH]; intros s r.
  - cbn [app List.length]. rewrite Nat.add_0_r. reflexivity.
  - cbn [app].
    change (pf_loop N od all s (a :: l ++ [r]))
      with ((if pf_any N od a s 0 all then 1 else 0) :: pf_loop N od all (S s) (l ++ [r])).
    rewrite IH. cbn [List.length]. rewrite Nat.add_succ_r. reflexivity.
Qed.

Definition pfi_inv (ncol : nat) orient (rows : list (list T)) (ii : nat) (st : state T) : Prop :=
  exists di ti jtodo j k dom diff,
    rows = di ++ ti /\ List.length di = ii /\ List.length jtodo = List.length ti /\
    st = pf_state (Z.of_nat (List.length rows)) (Z.of_nat ncol) orient (Z.of_nat ii) j k dom diff
           (List.concat rows) (pf_loop N (nofZ N orient) rows 0 di ++ jtodo).

Definition pfi_post (ncol : nat) orient (rows : list (list T)) (r : outcome T * state T) : Prop :=
  exists j k dom diff,
    r = (ONormal,
         pf_state (Z.of_nat (List.length rows)) (Z.of_nat ncol) orient
           (Z.of_nat (List.length rows)) j k dom diff
           (List.concat rows) (pf_loop N (nofZ N orient) rows 0 rows)).

Lemma pf_iloop (callf : callee T) n (ncol : nat) orient rows junk :
  nofZ N 0 = n0 N ->
  Forall (fun r => List.length r = ncol) rows ->
  List.length junk = List.length rows ->
  (List.length rows < n)%nat -> (ncol < n)%nat ->
  exists r,
    loop n (cond_of N X i_cond)
      (for_body (exec N X callf n i_body) (exec N X callf n i_step))
      (pf_state (Z.of_nat (List.length rows)) (Z.of_nat ncol) orient 0 0 0 0 (nofZ N 0)
         (List.concat rows) junk) = Ok r
    /\ pfi_post ncol orient rows r.
Proof.
  intros HZ HF Hjunk Hn Hnc.
  apply (loop_rule (pfi_inv ncol orient rows) (pfi_post ncol orient rows) (List.length rows))
    with (k := O).
  - intros ii st (di & ti & jtodo & j & k & dom & diff & Hrows & Hdi & Hj & ->).
    assert (Hlen : List.length rows = (ii + List.length ti)%nat)
      by (rewrite Hrows at 1; rewrite app_length; lia).
    split; [lia|].
    unfold pf_state. cbn.
    destruct ti as [|ri ti].
    + replace (Z.of_nat ii <? Z.of_nat (List.length rows)) with false
        by (symmetry; apply Z.ltb_ge; cbn in Hlen; lia).
      cbn. destruct jtodo; [|discriminate]. rewrite app_nil_r in Hrows. subst di.
      exists j, k, dom, diff. unfold pf_state. rewrite app_nil_r.
      replace (List.length rows) with ii at 3 by (cbn in Hlen; lia). reflexivity.
    + replace (Z.of_nat ii <? Z.of_nat (List.length rows)) with true
        by (symmetry; apply Z.ltb_lt; cbn in Hlen; lia).
      destruct jtodo as [|j0 jtodo]; [discriminate|].
      cbn. rewrite zset_app by (rewrite pf_loop_length; lia). cbn.
      destruct (pf_jloop callf n ncol orient rows di ri ti k dom diff
                  (pf_loop N (nofZ N orient) rows 0 di) jtodo HZ HF Hrows
                  (pf_loop_length _ _ _ _) Hn Hnc)
        as (r & Hr & (j' & k' & dom' & diff' & ->)).
      rewrite Hdi in Hr.
      fold_loop_state n
        (pf_state (Z.of_nat (List.length rows)) (Z.of_nat ncol) orient (Z.of_nat ii) 0
           k dom diff (List.concat rows) (pf_loop N (nofZ N orient) rows 0 di ++ 0 :: jtodo)).
      rewrite Hr. unfold pf_state. cbn.
      exists (di ++ [ri]), ti, jtodo, j', k', dom', diff'.
      split; [rewrite <- app_assoc; exact Hrows|].
      split; [rewrite app_length; cbn; lia|].
      split; [cbn in Hj; lia|].
      norm_state. unfold pf_state.
      rewrite pf_loop_snoc. cbn [Nat.add]. rewrite Hdi.
      rewrite <- app_assoc. cbn [app].
      replace (Z.of_nat ii + 1) with (Z.of_nat (S ii)) by lia. reflexivity.
  - exists [], rows, junk, 0, 0, 0, (nofZ N 0). repeat split. exact Hjunk.
  - lia.
Qed.

(* c_paretofront: for EVERY matrix [data] given as a list of rows of [ncol] entries each
   (finite values, NaN, infinities; ncol = 0 and nval = 0 included), every orientation and
   every initial content of the output buffer, the translated kernel called on the row-major
   flattened matrix returns 0, leaves the data untouched and fills isdominated with the model's
   result.  Hypotheses = what the Cython wrapper guarantees: data is a C-contiguous
   nval x ncol array, isdominated has nval entries.  [nofZ N 0 = n0 N] (the literal 0 of
   [orientationd*diff>0] as a double) holds by reflexivity in F64, RR and RN.
   [n] = fuel left for each loop. *)
Theorem refine_paretofront orientation (data : list (list T)) (ncol : nat) (junk : list Z) n :
  nofZ N 0 = n0 N ->
  Forall (fun r => List.length r = ncol) data ->
  List.length junk = List.length data ->
  (Nat.max (List.length data) ncol < n)%nat ->
  exec_fun N X program (S n) "c_paretofront"
    [AVI (Z.of_nat (List.length data)); AVI (Z.of_nat ncol); AVI orientation;
     AVArrF (List.concat data); AVArrI junk]
  = Ok (RI 0, [VArrF (List.concat data); VArrI (paretofront N orientation data)]).
Proof.
  intros HZ HF Hjunk Hn. cbn.
  destruct (pf_iloop (exec_fun N X program n) n ncol orientation data junk HZ HF Hjunk)
    as (r & Hr & (j & k & dom & diff & ->)); [lia|lia|].
  fold_loop_state n
    (pf_state (Z.of_nat (List.length data)) (Z.of_nat ncol) orientation 0 0 0 0 (nofZ N 0)
       (List.concat data) junk).
  rewrite Hr. cbn. reflexivity.
Qed.

End Refine.

(* the hypothesis on the literal 0 holds in the three instances *)
Corollary refine_paretofront_F64 orientation (data : list (list PrimFloat.float)) ncol junk n :
  Forall (fun r => List.length r = ncol) data ->
  List.length junk = List.length data ->
  (Nat.max (List.length data) ncol < n)%nat ->
  exec_fun F64 XF64 program (S n) "c_paretofront"
    [AVI (Z.of_nat (List.length data)); AVI (Z.of_nat ncol); AVI orientation;
     AVArrF (List.concat data); AVArrI junk]
  = Ok (RI 0, [VArrF (List.concat data); VArrI (paretofront F64 orientation data)]).
Proof. apply refine_paretofront. reflexivity. Qed.

Corollary refine_paretofront_RR orientation (data : list (list Rdefinitions.R)) ncol junk n :
  Forall (fun r => List.length r = ncol) data ->
  List.length junk = List.length data ->
  (Nat.max (List.length data) ncol < n)%nat ->
  exec_fun RR XRR program (S n) "c_paretofront"
    [AVI (Z.of_nat (List.length data)); AVI (Z.of_nat ncol); AVI orientation;
     AVArrF (List.concat data); AVArrI junk]
  = Ok (RI 0, [VArrF (List.concat data); VArrI (paretofront RR orientation data)]).
Proof. apply refine_paretofront. reflexivity. Qed.

Corollary refine_paretofront_RN orientation (data : list (list (option Rdefinitions.R))) ncol junk n :
  Forall (fun r => List.length r = ncol) data ->
  List.length junk = List.length data ->
  (Nat.max (List.length data) ncol < n)%nat ->
  exec_fun RN XRN program (S n) "c_paretofront"
    [AVI (Z.of_nat (List.length data)); AVI (Z.of_nat ncol); AVI orientation;
     AVArrF (List.concat data); AVArrI junk]
  = Ok (RI 0, [VArrF (List.concat data); VArrI (paretofront RN orientation data)]).
Proof. apply refine_paretofront. reflexivity. Qed.

(* ================================================================== *)
(* c_islin (src/hydrodiy/data/c_qualitycontrol.c)                       *)
(* ================================================================== *)

(* more generic helpers *)
Lemma repeat_app_cons' {A} (x : A) k l : repeat x k ++ x :: l = repeat x (S k) ++ l.
Proof. induction k as [|k IH]; [reflexivity|]. cbn [repeat app]. rewrite IH. reflexivity. Qed.

Lemma skipn_cons_nth' {A} (l : list A) k :
  (k < List.length l)%nat -> exists x, skipn k l = x :: skipn (S k) l.
Proof.
  revert k; induction l as [|a l IH]; intros k H; cbn in H; [lia|].
  destruct k as [|k]; [exists a; reflexivity|].
  destruct (IH k) as (x & E); [lia|]. exists x. cbn [skipn]. exact E.
Qed.

(* [~b] for b = 0 or 1 is -1 or -2: never zero *)
Lemma truth_lnot_b2z (b : bool) : truth (Z.lnot (b2z b)) = true.
Proof. destruct b; reflexivity. Qed.

Section Islin.
Context {T : Type} (N : NumOps T) (X : NumLit T).

(* ------------------------------------------------------------------ *)
(* SPECIFICATION (hand-written here, not part of Model/): c_islin as a   *)
(* left-to-right scan of the series.  [il_out] is the part of islin      *)
(* already decided: after the point of index i it has i+1 entries.       *)
(* ------------------------------------------------------------------ *)

Record ilst := mkIl {
  il_prec : T; il_cur : T;                 (* vprec, vcur *)
  il_count : Z; il_start : nat; il_type : Z;  (* count, start, lintype *)
  il_out : list Z }.                       (* islin[0..i] *)

(* if(isnan(v)) v = thresh-1 *)
Definition il_nonan (thresh v : T) : T :=
  if nisnan N v then nsub N thresh (nofZ N 1) else v.

(* for(k=a; k<b; k++) l[k] = v *)
Definition range_set (l : list Z) (a b : nat) (v : Z) : list Z :=
  firstn a l ++ repeat v (b - a) ++ skipn b l.

(* one iteration of the main loop: the point of index i has the value vnext.
   [~isnan(dist)] is the bitwise complement of 0 or 1, always true: it does not appear. *)
Definition islin_step (thresh tol : T) (npoints : Z) (s : ilst) (i : nat) (vnext : T) : ilst :=
  let dist := nabs N (nsub N (il_cur s) (ndiv N (nadd N (il_prec s) vnext) (nofZ N 2))) in
  let o := il_out s ++ [0] in
  if nltb N dist tol && nltb N thresh (il_cur s) then
    mkIl (il_cur s) vnext (il_count s + 1)
         (if il_count s =? 0 then (i - 2)%nat else il_start s)
         (if nltb N (nabs N (nsub N vnext (il_prec s))) tol then 2 else 1) o
  else
    mkIl (il_cur s) vnext 0 (il_start s) (il_type s)
         (if npoints <=? il_count s then range_set o (il_start s) i (il_type s) else o).

Fixpoint islin_loop (thresh tol : T) (npoints : Z) (s : ilst) (i : nat) (l : list T) : ilst :=
  match l with
  | [] => s
  | v :: r => islin_loop thresh tol npoints (islin_step thresh tol npoints s i v) (S i) r
  end.

Definition islin_spec (thresh tol : T) (npoints : Z) (data : list T) : list Z :=
  match data with
  | v0 :: v1 :: ((_ :: _) as rest) =>
      il_out (islin_loop thresh tol npoints
                (mkIl (il_nonan thresh v0) (il_nonan thresh v1) 0 0 1 [0; 0]) 2 rest)
  | _ => repeat 0 (List.length data)
  end.

(* ------------------------------------------------------------------ *)
(* END OF SPECIFICATION                                                 *)
(* ------------------------------------------------------------------ *)

Lemma islin_loop_snoc thresh tol npoints l : forall s i v,
  islin_loop thresh tol npoints s i (l ++ [v])
  = islin_step thresh tol npoints (islin_loop thresh tol npoints s i l) (i + List.length l) v.
Proof.
  induction l as [|a l IH]; intros s i v.
  - cbn [app List.length islin_loop]. rewrite Nat.add_0_r. reflexivity.
  - cbn [app List.length islin_loop]. rewrite IH, Nat.add_succ_r. reflexivity.
Qed.

#[local] Arguments islin_loop : simpl never.
#[local] Arguments islin_step : simpl never.
#[local] Arguments range_set : simpl never.
#[local] Arguments firstn : simpl never.
#[local] Arguments skipn : simpl never.
#[local] Arguments repeat : simpl never.

Definition il_state (nval npoints i k count start lintype : Z) (thresh tol dist vprec vnext vcur : T)
           (data : list T) (islin : list Z) : state T :=
  {| s_i := [("nval", nval); ("npoints", npoints); ("ierr", 0); ("i", i); ("k", k);
             ("count", count); ("start", start); ("lintype", lintype)];
     s_f := [("thresh", thresh); ("tol", tol); ("dist", dist); ("vprec", vprec);
             ("vnext", vnext); ("vcur", vcur)];
     s_ai := [("islin", islin)];
     s_af := [("data", data)] |}.

Local Notation fk_cond := (ICmp CLt (IVar "k") (IVar "i")).
Local Notation fk_step := (SSetI "k" (IBin IAdd (IVar "k") (IConst 1))).
Local Notation fk_body := (SStoreI "islin" (IVar "k") (IVar "lintype")).

(* ---- for(k=start; k<i; k++) islin[k] = lintype ---- *)
Lemma il_kloop (callf : callee T) n nval npoints (i start : nat) count v thresh tol dist vprec vnext vcur
      data (o jtodo : list Z) :
  List.length o = S i -> (start <= i)%nat -> (i < n)%nat ->
  loop n (cond_of N X fk_cond) (for_body (exec N X callf n fk_body) (exec N X callf n fk_step))
    (il_state nval npoints (Z.of_nat i) (Z.of_nat start) count (Z.of_nat start) v
       thresh tol dist vprec vnext vcur data (o ++ jtodo))
  = Ok (ONormal,
        il_state nval npoints (Z.of_nat i) (Z.of_nat i) count (Z.of_nat start) v
          thresh tol dist vprec vnext vcur data (range_set o start i v ++ jtodo)).
Proof.
  intros Ho Hs Hn.
  apply (loop_rule_eq
           (fun kk st => (kk <= i - start)%nat /\
              st = il_state nval npoints (Z.of_nat i) (Z.of_nat (start + kk)) count (Z.of_nat start) v
                     thresh tol dist vprec vnext vcur data
                     ((firstn start o ++ repeat v kk ++ skipn (start + kk) o) ++ jtodo))
           _ (i - start)%nat).
  - intros kk st (Hkk & ->). split; [exact Hkk|].
    unfold il_state. cbn.
    destruct (Z.ltb_spec (Z.of_nat (start + kk)) (Z.of_nat i)) as [Hlt|Hge]; cbn.
    + destruct (skipn_cons_nth' o (start + kk)) as (x & Hx); [lia|]. rewrite Hx.
      replace ((firstn start o ++ repeat v kk ++ x :: skipn (S (start + kk)) o) ++ jtodo)
        with ((firstn start o ++ repeat v kk) ++ x :: (skipn (S (start + kk)) o ++ jtodo))
        by (rewrite <- !app_assoc; reflexivity).
      rewrite zset_app
        by (rewrite app_length, firstn_length, repeat_length, Nat.min_l by lia; reflexivity).
      cbn. split; [lia|]. norm_state. unfold il_state.
      rewrite <- !app_assoc. rewrite repeat_app_cons'. rewrite <- ?app_assoc.
      replace (Z.of_nat (start + kk) + 1) with (Z.of_nat (start + S kk)) by lia.
      replace (S (start + kk)) with (start + S kk)%nat by lia. reflexivity.
    + replace kk with (i - start)%nat by lia.
      replace (start + (i - start))%nat with i by lia. reflexivity.
  - split; [lia|]. rewrite Nat.add_0_r. unfold repeat. cbn [app]. rewrite firstn_skipn. reflexivity.
  - lia.
Qed.


Lemma range_set_length l a b v :
  (a <= b)%nat -> (b <= List.length l)%nat -> List.length (range_set l a b v) = List.length l.
Proof.
  intros H1 H2. unfold range_set.
  rewrite !app_length, firstn_length, repeat_length, skipn_length. lia.
Qed.

Local Notation m_cond := (ICmp CLt (IVar "i") (IVar "nval")).
Local Notation m_step := (SSetI "i" (IBin IAdd (IVar "i") (IConst 1))).
Local Notation m_body :=
  (SSeq (SSetF "vnext" (FArr "data" (IVar "i")))
     (SSeq
        (SSetF "dist"
           (FUn FAbs
              (FBin FSub (FVar "vcur")
                 (FBin FDiv (FBin FAdd (FVar "vprec") (FVar "vnext")) (FOfInt (IConst 2))))))
        (SSeq (SStoreI "islin" (IVar "i") (IConst 0))
           (SSeq
              (SIf
                 (IAnd
                    (IAnd (IFCmp CLt (FVar "dist") (FVar "tol"))
                       (IFCmp CGt (FVar "vcur") (FVar "thresh")))
                    (IUn IBitNot (IIsnan (FVar "dist"))))
                 (SSeq
                    (SIf (ICmp CEq (IVar "count") (IConst 0))
                       (SSetI "start" (IBin ISub (IVar "i") (IConst 2))) SSkip)
                    (SSeq (SSetI "count" (IBin IAdd (IVar "count") (IConst 1)))
                       (SSeq (SSetI "lintype" (IConst 1))
                          (SIf
                             (IFCmp CLt (FUn FAbs (FBin FSub (FVar "vnext") (FVar "vprec")))
                                (FVar "tol"))
                             (SSetI "lintype" (IConst 2)) SSkip))))
                 (SSeq
                    (SIf (ICmp CGe (IVar "count") (IVar "npoints"))
                       (SSeq (SSetI "k" (IVar "start")) (SFor fk_cond fk_step fk_body)) SSkip)
                    (SSetI "count" (IConst 0))))
              (SSeq (SSetF "vprec" (FVar "vcur")) (SSetF "vcur" (FVar "vnext"))))))).

Definition ilm_inv thresh tol npoints (data : list T) (rest : list T) (s0 : ilst) (ii : nat) (st : state T)
  : Prop :=
  exists done todo jtodo k dist vnext p c cnt stt ty o,
    rest = done ++ todo /\ List.length done = ii /\ List.length jtodo = List.length todo /\
    islin_loop thresh tol npoints s0 2 done = mkIl p c cnt stt ty o /\
    List.length o = S (S ii) /\ (stt <= ii)%nat /\
    st = il_state (Z.of_nat (S (S (List.length rest)))) npoints (Z.of_nat (S (S ii))) k cnt
           (Z.of_nat stt) ty thresh tol dist p vnext c data (o ++ jtodo).

Definition ilm_post thresh tol npoints (data : list T) (rest : list T) (s0 : ilst)
           (r : outcome T * state T) : Prop :=
  exists k dist vnext p c cnt stt ty,
    r = (ONormal,
         il_state (Z.of_nat (S (S (List.length rest)))) npoints
           (Z.of_nat (S (S (List.length rest)))) k cnt stt ty thresh tol dist p vnext c
           data (il_out (islin_loop thresh tol npoints s0 2 rest))).

Lemma il_mloop (callf : callee T) n thresh tol npoints data v0 v1 rest jrest p0 c0 k0 dist0 vnext0 :
  data = v0 :: v1 :: rest ->
  List.length jrest = List.length rest ->
  (S (S (List.length rest)) < n)%nat ->
  exists r,
    loop n (cond_of N X m_cond) (for_body (exec N X callf n m_body) (exec N X callf n m_step))
      (il_state (Z.of_nat (S (S (List.length rest)))) npoints 2 k0 0 0 1 thresh tol dist0 p0 vnext0 c0
         data (0 :: 0 :: jrest)) = Ok r
    /\ ilm_post thresh tol npoints data rest (mkIl p0 c0 0 0 1 [0; 0]) r.
Proof.
  intros Hd Hj Hn.
  apply (loop_rule (ilm_inv thresh tol npoints data rest (mkIl p0 c0 0 0 1 [0; 0]))
           (ilm_post thresh tol npoints data rest (mkIl p0 c0 0 0 1 [0; 0]))
           (List.length rest)) with (k := O).
  - intros ii st (done & todo & jtodo & k & dist & vnext & p & c & cnt & stt & ty & o &
                  Hrest & Hdone & Hjt & Hs & Ho & Hstt & ->).
    assert (Hlen : List.length rest = (ii + List.length todo)%nat)
      by (rewrite Hrest, app_length; lia).
    split; [lia|].
    unfold il_state. cbn.
    destruct todo as [|v todo].
    + replace (Z.of_nat (S (S ii)) <? Z.of_nat (S (S (List.length rest)))) with false
        by (symmetry; apply Z.ltb_ge; cbn in Hlen; lia).
      cbn. destruct jtodo; [|discriminate]. rewrite app_nil_r in Hrest. subst done.
      exists k, dist, vnext, p, c, cnt, (Z.of_nat stt), ty. rewrite Hs. cbn [il_out].
      unfold il_state. rewrite app_nil_r.
      replace (List.length rest) with ii by (cbn in Hlen; lia). reflexivity.
    + replace (Z.of_nat (S (S ii)) <? Z.of_nat (S (S (List.length rest)))) with true
        by (symmetry; apply Z.ltb_lt; cbn in Hlen; lia).
      destruct jtodo as [|j jtodo]; [discriminate|].
      assert (Hg : zget data (Z.of_nat (S (S ii))) = Some v).
      { rewrite Hd, Hrest. change (v0 :: v1 :: done ++ v :: todo) with ((v0 :: v1 :: done) ++ v :: todo).
        apply zget_app. cbn [List.length]. lia. }
      cbn. rewrite Hg. cbn. rewrite zset_app by lia. cbn.
      rewrite ?truth_b2z, ?b2z_truth_b2z, ?and_ok.
      set (dd := nabs N (nsub N c (ndiv N (nadd N p v) (nofZ N 2)))).
      assert (Hsnoc : islin_loop thresh tol npoints (mkIl p0 c0 0 0 1 [0; 0]) 2 (done ++ [v])
                      = islin_step thresh tol npoints (mkIl p c cnt stt ty o) (S (S ii)) v).
      { rewrite islin_loop_snoc, Hs, Hdone. reflexivity. }
      unfold islin_step in Hsnoc. cbn [il_prec il_cur il_count il_start il_type il_out] in Hsnoc.
      fold dd in Hsnoc.
      replace (S (S ii) - 2)%nat with ii in Hsnoc by lia.
      destruct (nltb N dd tol && nltb N thresh c) eqn:Hc.
      * cbn. rewrite truth_lnot_b2z. cbn. rewrite ?truth_b2z.
        destruct (cnt =? 0) eqn:Hcnt; cbn; rewrite ?truth_b2z;
          destruct (nltb N (nabs N (nsub N v p)) tol) eqn:Hl; cbn.
        all: eexists (done ++ [v]), todo, jtodo, k, dd, v, _, _, _, _, _, _.
        all: split; [rewrite <- app_assoc; exact Hrest|].
        all: split; [rewrite app_length; cbn; lia|].
        all: split; [cbn in Hjt; lia|].
        all: split; [exact Hsnoc|].
        all: split; [rewrite app_length; cbn; lia|].
        all: split; [lia|].
        all: norm_state; unfold il_state.
        all: rewrite <- ?app_assoc; cbn [app].
        all: replace (Z.of_nat (S (S ii)) - 2) with (Z.of_nat ii) by lia.
        all: replace (Z.of_nat (S (S ii)) + 1) with (Z.of_nat (S (S (S ii)))) by lia.
        all: reflexivity.
      * cbn.
        destruct (npoints <=? cnt) eqn:Hnp.
        -- replace (o ++ 0 :: jtodo) with ((o ++ [0]) ++ jtodo)
             by (rewrite <- app_assoc; reflexivity).
           fold_loop_state n
             (il_state (Z.of_nat (S (S (List.length rest)))) npoints (Z.of_nat (S (S ii)))
                (Z.of_nat stt) cnt (Z.of_nat stt) ty thresh tol dd p v c data
                ((o ++ [0]) ++ jtodo)).
           rewrite il_kloop; [|rewrite app_length; cbn; lia|lia|lia].
           unfold il_state. cbn.
           eexists (done ++ [v]), todo, jtodo, _, dd, v, _, _, _, _, _, _.
           split; [rewrite <- app_assoc; exact Hrest|].
           split; [rewrite app_length; cbn; lia|].
           split; [cbn in Hjt; lia|].
           split; [exact Hsnoc|].
           split; [rewrite range_set_length; rewrite ?app_length; cbn; lia|].
           split; [lia|].
           norm_state. unfold il_state.
           replace (Z.of_nat (S (S ii)) + 1) with (Z.of_nat (S (S (S ii)))) by lia.
           reflexivity.
        -- cbn.
           eexists (done ++ [v]), todo, jtodo, _, dd, v, _, _, _, _, _, _.
           split; [rewrite <- app_assoc; exact Hrest|].
           split; [rewrite app_length; cbn; lia|].
           split; [cbn in Hjt; lia|].
           split; [exact Hsnoc|].
           split; [rewrite app_length; cbn; lia|].
           split; [lia|].
           norm_state. unfold il_state.
           rewrite <- ?app_assoc; cbn [app].
           replace (Z.of_nat (S (S ii)) + 1) with (Z.of_nat (S (S (S ii)))) by lia.
           reflexivity.
  - exists [], rest, jrest, k0, dist0, vnext0, p0, c0, 0, 0%nat, 1, [0; 0].
    repeat split; try assumption; lia.
  - lia.
Qed.

(* the case nval >= 3 *)
Lemma islin_run_ge3 thresh tol npoints (data : list T) v0 v1 rest (jrest : list Z) j0 j1 n :
  data = v0 :: v1 :: rest ->
  (1 <= List.length rest)%nat ->
  List.length jrest = List.length rest ->
  (S (S (List.length rest)) < n)%nat ->
  exec_fun N X program (S n) "c_islin"
    [AVI (Z.of_nat (S (S (List.length rest)))); AVF thresh; AVF tol; AVI npoints;
     AVArrF data; AVArrI (j0 :: j1 :: jrest)]
  = Ok (RI 0, [VArrF data;
               VArrI (il_out (islin_loop thresh tol npoints
                                (mkIl (il_nonan thresh v0) (il_nonan thresh v1) 0 0 1 [0; 0])
                                2 rest))]).
Proof.
  intros Hd Hl3 Hjr Hn.
  assert (Hg0 : zget data 0 = Some v0) by (subst data; reflexivity).
  assert (Hg1 : zget data 1 = Some v1) by (subst data; reflexivity).
  unfold il_nonan.
  open_fun "c_islin".
  hide_tail_after_if (ICmp CLt (IVar "nval") (IConst 3)) tl1 Htl1.
  mc_norm. rewrite truth_b2z.
  replace (Z.of_nat (S (S (List.length rest))) <? 3) with false
    by (symmetry; apply Z.ltb_ge; lia).
  mc_norm. subst tl1.
  hide_tail_after_if (IIsnan (FVar "vprec")) tl2 Htl2.
  mc_norm. rewrite Hg0. mc_norm. rewrite truth_b2z.
  destruct (nisnan N v0) eqn:H0.
  all: mc_norm.
  all: subst tl2.
  all: hide_tail_after_if (IIsnan (FVar "vcur")) tl3 Htl3.
  all: mc_norm.
  all: rewrite Hg1.
  all: mc_norm.
  all: rewrite truth_b2z.
  all: destruct (nisnan N v1) eqn:H1.
  all: mc_norm.
  all: subst tl3.
  all: mc_norm.
  all: match goal with
       | |- context[loop _ _ _ ?s] =>
           match s with
           | context[("vprec", ?p0)] =>
               match s with
               | context[("vcur", ?c0)] =>
                   destruct (il_mloop (exec_fun N X program n) n thresh tol npoints data v0 v1
                               rest jrest p0 c0 0 (nofZ N 0) (nofZ N 0) Hd Hjr Hn)
                     as (r & Hr & (k & dist & vnext & p & c & cnt & stt & ty & ->))
               end
           end
       end.
  all: unfold il_state in Hr; rewrite Hr; cbn; reflexivity.
Qed.

(* c_islin: for EVERY series (any length, NaN and infinities included), any thresh, tol and
   npoints (npoints <= 0 included) and every initial content of the output buffer, the
   translated kernel returns 0, leaves data untouched and fills islin with [islin_spec].
   Hypothesis = what the Cython wrapper guarantees (nval = data.shape[0] = islin.shape[0]).
   Generic over the arithmetic, no hypothesis on N. *)
Theorem refine_islin thresh tol npoints (data : list T) (junk : list Z) n :
  List.length junk = List.length data ->
  (List.length data < n)%nat ->
  exec_fun N X program (S n) "c_islin"
    [AVI (Z.of_nat (List.length data)); AVF thresh; AVF tol; AVI npoints; AVArrF data; AVArrI junk]
  = Ok (RI 0, [VArrF data; VArrI (islin_spec thresh tol npoints data)]).
Proof.
  intros Hj Hn.
  destruct data as [|v0 [|v1 [|v2 rest]]].
  - (* nval = 0 *)
    destruct junk; [|discriminate]. destruct n as [|n]; [cbn in Hn; lia|].
    cbn. reflexivity.
  - (* nval = 1 *)
    destruct junk as [|j0 [|]]; try discriminate.
    destruct n as [|[|n]]; try (cbn in Hn; lia).
    cbn. reflexivity.
  - (* nval = 2 *)
    destruct junk as [|j0 [|j1 [|]]]; try discriminate.
    destruct n as [|[|[|n]]]; try (cbn in Hn; lia).
    cbn. reflexivity.
  - (* nval >= 3 *)
    destruct junk as [|j0 [|j1 jrest]]; try discriminate.
    apply (islin_run_ge3 thresh tol npoints (v0 :: v1 :: v2 :: rest) v0 v1 (v2 :: rest) jrest j0 j1 n).
    + reflexivity.
    + cbn; lia.
    + cbn in Hj |- *; lia.
    + exact Hn.
Qed.

End Islin.

(* ================================================================== *)
(* Cross-checks in binary64.  The expected vectors are the outputs of  *)
(* the gcc-compiled kernels (called through ctypes) on the same data.  *)
(* ================================================================== *)

Section Examples.
Import PrimFloat.
Local Open Scope float_scope.

Definition ex_series : list float :=
  [1; 2; 3; 3; 4; 5; 7; 7; 7; 7; 1; nan; 2; 3; 4; 9].

Definition ex_rows : list (list float) :=
  [[1; 2]; [2; 1]; [0; 0]; [nan; 3]; [2; 2]; [1; nan]].

(* the binary64 value of the C literal 1e-6 *)
Definition tol6 : float := 0x1.0c6f7a0b5ed8dp-20.

Local Close Scope float_scope.

Definition ex_junk (n : nat) : list Z := repeat 7 n.

Example islin_spec_ex1 :
  islin_spec F64 0%float tol6 1 ex_series = [1; 1; 1; 1; 1; 1; 2; 2; 2; 2; 0; 0; 1; 1; 1; 0].
Proof. vm_compute. reflexivity. Qed.
Example islin_spec_ex2 :
  islin_spec F64 0%float tol6 2 ex_series = [0; 0; 0; 0; 0; 0; 2; 2; 2; 2; 0; 0; 0; 0; 0; 0].
Proof. vm_compute. reflexivity. Qed.
(* npoints = 0 (refused by the Python function, accepted by the kernel) *)
Example islin_spec_ex3 :
  islin_spec F64 0%float tol6 0 ex_series = [1; 1; 1; 1; 1; 1; 2; 2; 2; 2; 2; 2; 1; 1; 1; 0].
Proof. vm_compute. reflexivity. Qed.
Example islin_spec_ex4 :
  islin_spec F64 2.5%float 0.75%float 1 ex_series = [0; 1; 1; 1; 1; 1; 2; 2; 2; 2; 0; 0; 1; 1; 1; 0].
Proof. vm_compute. reflexivity. Qed.
Example islin_spec_ex5 : islin_spec F64 0%float tol6 1 [1%float; 2%float] = [0; 0].
Proof. vm_compute. reflexivity. Qed.
Example islin_spec_ex6 :
  islin_spec F64 (-10)%float tol6 1 [nan; nan; 5%float; 5%float; 5%float; 5%float; 0%float]
  = [0; 0; 2; 2; 2; 2; 0].
Proof. vm_compute. reflexivity. Qed.

(* the interpreter on the same data (an instance of refine_islin, recomputed) *)
Example islin_run_ex1 :
  exec_fun F64 XF64 program 100 "c_islin"
    [AVI 16; AVF 0%float; AVF tol6; AVI 1; AVArrF ex_series; AVArrI (ex_junk 16)]
  = Ok (RI 0, [VArrF ex_series; VArrI (islin_spec F64 0%float tol6 1 ex_series)]).
Proof. vm_compute. reflexivity. Qed.

Example pareto_ex1 : paretofront F64 1 ex_rows = [1; 1; 1; 1; 1; 1].
Proof. vm_compute. reflexivity. Qed.
Example pareto_ex2 : paretofront F64 (-1) ex_rows = [1; 1; 0; 1; 1; 1].
Proof. vm_compute. reflexivity. Qed.
Example pareto_run_ex2 :
  exec_fun F64 XF64 program 100 "c_paretofront"
    [AVI 6; AVI 2; AVI (-1); AVArrF (List.concat ex_rows); AVArrI (ex_junk 6)]
  = Ok (RI 0, [VArrF (List.concat ex_rows); VArrI (paretofront F64 (-1) ex_rows)]).
Proof. vm_compute. reflexivity. Qed.

End Examples.

Print Assumptions refine_paretofront.
Print Assumptions refine_islin.
