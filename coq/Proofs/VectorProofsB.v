(* Proofs about Model/Vector.v - part 2: the constructor accepts consistent
   arguments unchanged, the transform parameter tables extracted from
   transform.py, concrete instances (non-vacuity), refutation of the pinned
   clone / from_dict. *)
From Coq Require Import ZArith Bool List String Reals Lra Lia.
From Hy Require Import Base.Num Gen.Consts Gen.ConstsC12 Model.Vector Proofs.VectorProofs.
Import ListNotations.
Open Scope R_scope.

(* ---------- the constructor accepts consistent arguments as they are ---------- *)
Definition eff_mins (n : nat) (mins : option (list xr)) : list xr :=
  match mins with Some m => m | None => repeat XNinf n end.
Definition eff_maxs (n : nat) (maxs : option (list xr)) : list xr :=
  match maxs with Some m => m | None => repeat XPinf n end.
Definition eff_defs (n : nat) (defaults : option (list xr)) (mins maxs : list xr) : list xr :=
  match defaults with
  | Some d => d
  | None => map3 (clip_np VXR) (repeat (XFin 0) n) mins maxs
  end.

Theorem vnew_ok names defaults mins maxs cb chb an :
  let n := List.length names in
  let em := eff_mins n mins in let eM := eff_maxs n maxs in
  let ed := eff_defs n defaults em eM in
  List.length em = n -> List.length eM = n -> List.length ed = n ->
  NoDup names ->
  (forall i, (i < n)%nat -> xle (nx em i) (nx eM i)) ->
  (forall i, (i < n)%nat -> in_bounds an (nx ed i) (nx em i) (nx eM i)) ->
  (chb = true -> cb = true) ->
  vnew VXR names defaults mins maxs cb chb an = Some (mkV names em eM ed ed false cb chb an).
Proof.
  intros n em eM ed Lm LM Ld ND Hb Hd Hf. unfold vnew. fold n.
  assert (chb && negb cb = false) as ->.
  { destruct chb; auto. rewrite Hf; auto. }
  apply nodupb_iff in ND. rewrite ND. simpl.
  change (vo_ninf VXR) with XNinf. change (vo_pinf VXR) with XPinf. change (vo_zero VXR) with (XFin 0).
  assert (Em : (match mins with
            | Some m => match checkvalues VXR (repeat XNinf n) (repeat XPinf n) an n m false with
                        | Some (m', _) => Some m' | None => None end
            | None => Some (repeat XNinf n) end) = Some em).
  { subst em. destruct mins as [m|]; simpl in *; auto.
    rewrite (checkvalues_ok (repeat XNinf n) (repeat XPinf n) an n m false);
      auto using repeat_length.
    intros i Hi. rewrite !nth_repeat_lt by auto. right.
    destruct (xle_notnan _ _ (Hb i Hi)) as [H1 _]. split; [apply xle_ninf|apply xle_pinf]; auto. }
  rewrite Em.
  assert (EM : (match maxs with
            | Some m => match checkvalues VXR em (repeat XPinf n) an n m true with
                        | Some (m', hit) => if hit then None else Some m' | None => None end
            | None => Some (repeat XPinf n) end) = Some eM).
  { subst eM. destruct maxs as [m|]; simpl in *; auto.
    rewrite (checkvalues_ok em (repeat XPinf n) an n m true); auto using repeat_length.
    intros i Hi. rewrite !nth_repeat_lt by auto. right. split; auto.
    destruct (xle_notnan _ _ (Hb i Hi)) as [_ H2]. apply xle_pinf; auto. }
  rewrite EM.
  assert (Ed : (match defaults with
            | Some d => match checkvalues VXR em eM an n d true with
                        | Some (d', hit) => if hit then None else Some d' | None => None end
            | None => Some (map3 (clip_np VXR) (repeat (XFin 0) n) em eM) end) = Some ed).
  { subst ed. destruct defaults as [d|]; simpl in *; auto.
    rewrite (checkvalues_ok em eM an n d true); auto. }
  rewrite Ed. reflexivity.
Qed.

(* Vector(names) with the signature's defaults: free bounds, all values 0 *)
Theorem vnew_default_ok names : NoDup names ->
  let n := List.length names in
  vnew_default VXR names =
  Some (mkV names (repeat XNinf n) (repeat XPinf n) (repeat (XFin 0) n) (repeat (XFin 0) n) false
            VEC_DEFAULT_CHECK_BOUNDS VEC_DEFAULT_CHECK_HITBOUNDS VEC_DEFAULT_ACCEPT_NAN).
Proof.
  intros ND n. unfold vnew_default.
  assert (Z : map3 (clip_np VXR) (repeat (XFin 0) n) (repeat XNinf n) (repeat XPinf n)
              = repeat (XFin 0) n).
  { apply nth_ext with (d := XFin 0) (d' := XFin 0).
    - transitivity n; [apply map3_length; apply repeat_length | symmetry; apply repeat_length].
    - intros i Hi. rewrite (map3_length _ _ _ _ n) in Hi; auto using repeat_length.
      rewrite (map3_nth _ _ _ _ n i (XFin 0) (XFin 0) (XFin 0)); auto using repeat_length.
      rewrite !nth_repeat_lt by auto. reflexivity. }
  rewrite vnew_ok; simpl; fold n; rewrite ?Z; auto using repeat_length.
  - intros i Hi. rewrite !nth_repeat_lt by auto. exact I.
  - intros i Hi. rewrite !nth_repeat_lt by auto. right. simpl. tauto.
Qed.

(* ---------- the transform parameter tables (extracted from transform.py) ---------- *)
Definition xr_of_lit (l : xlit) : xr :=
  match l with LNan => XNan | LNinf => XNinf | LPinf => XPinf | LFin r => XFin r end.

Definition table_new (t : vtable xlit) : option vst :=
  vnew VXR (vt_names t) (option_map (map xr_of_lit) (vt_defaults t))
       (option_map (map xr_of_lit) (vt_mins t)) (option_map (map xr_of_lit) (vt_maxs t))
       (vt_cb t) (vt_chb t) (vt_accept_nan t).

(* the constructor accepts the table, keeps every number it was given, and
   the vector is well-formed *)
Definition table_ok (t : vtable xlit) : Prop :=
  exists s, table_new t = Some s /\ wf s /\
    v_names s = vt_names t /\ v_an s = vt_accept_nan t /\ v_values s = v_defaults s /\
    (forall d, vt_defaults t = Some d -> v_defaults s = map xr_of_lit d) /\
    (forall d, vt_mins t = Some d -> v_mins s = map xr_of_lit d) /\
    (forall d, vt_maxs t = Some d -> v_maxs s = map xr_of_lit d).

Ltac small_index i Hi :=
  destruct i as [|[|[|[|[|[|i]]]]]]; simpl in Hi; try lia.

Ltac table_tac :=
  match goal with |- table_ok ?t =>
    let E := fresh "E" in
    assert (E : table_new t = Some (mkV (vt_names t)
        (eff_mins (List.length (vt_names t)) (option_map (map xr_of_lit) (vt_mins t)))
        (eff_maxs (List.length (vt_names t)) (option_map (map xr_of_lit) (vt_maxs t)))
        (eff_defs (List.length (vt_names t)) (option_map (map xr_of_lit) (vt_defaults t))
           (eff_mins (List.length (vt_names t)) (option_map (map xr_of_lit) (vt_mins t)))
           (eff_maxs (List.length (vt_names t)) (option_map (map xr_of_lit) (vt_maxs t))))
        (eff_defs (List.length (vt_names t)) (option_map (map xr_of_lit) (vt_defaults t))
           (eff_mins (List.length (vt_names t)) (option_map (map xr_of_lit) (vt_mins t)))
           (eff_maxs (List.length (vt_names t)) (option_map (map xr_of_lit) (vt_maxs t))))
        false (vt_cb t) (vt_chb t) (vt_accept_nan t)));
    [ unfold table_new; apply vnew_ok; simpl;
      [ reflexivity | reflexivity | reflexivity
      | apply nodupb_iff; reflexivity
      | let i := fresh "i" in let Hi := fresh "Hi" in intros i Hi; small_index i Hi; xr_solve
      | let i := fresh "i" in let Hi := fresh "Hi" in intros i Hi; small_index i Hi;
        unfold in_bounds; simpl;
        first [ left; split; reflexivity | right; split; xr_solve ]
      | intros; try reflexivity; try discriminate ]
    | eexists; split; [exact E|];
      split; [ eapply vnew_wf; [exact E | |]; simpl; repeat constructor; discriminate |];
      simpl; repeat split; try reflexivity;
      intros d Hd; inversion Hd; reflexivity ]
  end.

Theorem transform_tables_ok : Forall table_ok TRANSFORM_TABLES_R.
Proof.
  unfold TRANSFORM_TABLES_R.
  repeat (apply Forall_cons; [table_tac|]). apply Forall_nil.
Qed.

(* ---------- concrete instances (non-vacuity) ---------- *)
Open Scope string_scope.

(* Vector(["a","b"], [0.5, nan], [0, -inf], [1, inf], check_hitbounds=True, accept_nan=True) *)
Definition ex0 : vst :=
  mkV ["a"; "b"] [XFin 0; XNinf] [XFin 1; XPinf] [XFin (1/2); XNan] [XFin (1/2); XNan]
      false true true true.
(* ... after  v.a = 2  (clipped to 1, flag raised) *)
Definition ex1 : vst :=
  mkV ["a"; "b"] [XFin 0; XNinf] [XFin 1; XPinf] [XFin (1/2); XNan] [XFin 1; XNan]
      true true true true.

Example ex0_new :
  vnew VXR ["a"; "b"] (Some [XFin (1/2); XNan]) (Some [XFin 0; XNinf]) (Some [XFin 1; XPinf])
       true true true = Some ex0.
Proof.
  apply vnew_ok; simpl; auto.
  - apply nodupb_iff; reflexivity.
  - intros i Hi; small_index i Hi; xr_solve.
  - intros i Hi; small_index i Hi; unfold in_bounds; simpl;
      first [ left; split; reflexivity | right; split; xr_solve ].
Qed.

Example ex1_step : step VXR ex0 (OSetAttr "a" (XFin 2)) = (ex1, Accepted).
Proof.
  simpl. unfold set_attr. simpl. unfold hit_exact, clip_py, with_values, ex1. simpl.
  unfold Rltb. rdec; try lra. reflexivity.
Qed.

Example ex0_reachable : reachable ex0.
Proof. eapply reach_new; [apply ex0_new | |]; simpl; repeat constructor; discriminate. Qed.

Example ex1_reachable : reachable ex1.
Proof.
  change ex1 with (fst (ex1, Accepted)). rewrite <- ex1_step. apply reach_step, ex0_reachable.
Qed.

Example ex1_wf : wf ex1.
Proof. apply reachable_wf, ex1_reachable. Qed.

(* a history that clips, holds a NaN, and was accepted *)
Example ex1_facts : v_hit ex1 = true /\ v_chb ex1 = true /\ nx (v_values ex1) 1 = XNan /\
  index_of "a" (v_names ex0) = Some 0%nat /\ snd (set_attr VXR ex0 "a" (XFin 2)) = Accepted.
Proof.
  repeat split.
Qed.

(* whole-vector assignment of values in the quantifier: 2 is far above [0,1] *)
Example ex_set_all : snd (set_all VXR ex0 [XFin 2; XNan]) = Accepted /\
  (forall i, (i < v_nval ex0)%nat ->
     away (nx [XFin 2; XNan] i) (nx (v_mins ex0) i) /\ away (nx [XFin 2; XNan] i) (nx (v_maxs ex0) i)).
Proof.
  split.
  - unfold set_all, checkvalues. reflexivity.
  - intros i Hi. unfold v_nval in Hi. small_index i Hi; unfold away; simpl; auto.
    split; right; unfold Rabs; destruct (Rcase_abs _); lra.
Qed.

(* a rejected assignment exists: NaN into a vector that does not accept it *)
Definition ex2 : vst := mkV ["a"] [XFin 0] [XFin 1] [XFin 0] [XFin 1] true true true false.

Example ex2_reachable : reachable ex2.
Proof.
  assert (E : vnew VXR ["a"] (Some [XFin 0]) (Some [XFin 0]) (Some [XFin 1]) true true false
              = Some (mkV ["a"] [XFin 0] [XFin 1] [XFin 0] [XFin 0] false true true false)).
  { apply vnew_ok; simpl; auto.
    - apply nodupb_iff; reflexivity.
    - intros i Hi; small_index i Hi; xr_solve.
    - intros i Hi; small_index i Hi; unfold in_bounds; simpl; right; split; xr_solve. }
  assert (S : step VXR (mkV ["a"] [XFin 0] [XFin 1] [XFin 0] [XFin 0] false true true false)
                   (OSetKey "a" (XFin 5)) = (ex2, Accepted)).
  { simpl. unfold set_key, set_attr. simpl. unfold hit_exact, clip_py, with_values, ex2. simpl.
    unfold Rltb. rdec; try lra. reflexivity. }
  change ex2 with (fst (ex2, Accepted)). rewrite <- S. apply reach_step.
  eapply reach_new; [apply E | |]; simpl; repeat constructor; discriminate.
Qed.

Example ex2_rejects : snd (step VXR ex2 (OSetAttr "a" XNan)) = Rejected /\
  snd (step VXR ex2 (OSetKey "zz" (XFin 0))) = Rejected /\
  snd (step VXR ex2 (OSetAll [])) = Rejected.
Proof. repeat split. Qed.

Example ex2_nan_free : forall i, (i < v_nval ex2)%nat ->
  nx (v_defaults ex2) i <> XNan /\ nx (v_values ex2) i <> XNan.
Proof. intros i Hi. unfold v_nval in Hi. small_index i Hi. simpl. split; discriminate. Qed.

(* ---------- the pinned code falsifies "clone / round trip reproduce the state" ---------- *)
Theorem clone_old_refuted : exists s, reachable s /\ clone_old VXR s <> Some s.
Proof.
  exists ex2. split; [apply ex2_reachable|].
  rewrite clone_old_spec; [|apply reachable_wf, ex2_reachable|apply ex2_nan_free].
  intros H. inversion H.
Qed.

(* Vector(["a"], [nan], accept_nan=True).clone() raises *)
Definition ex3 : vst := mkV ["a"] [XNinf] [XPinf] [XNan] [XNan] false true false true.

Example ex3_reachable : reachable ex3.
Proof.
  eapply reach_new with (names := ["a"]) (defaults := Some [XNan]) (mins := None) (maxs := None)
                        (cb := true) (chb := false) (an := true); simpl; auto.
Qed.

Theorem clone_old_raises_refuted : exists s, reachable s /\ clone_old VXR s = None.
Proof. exists ex3. split; [apply ex3_reachable|reflexivity]. Qed.

(* Vector([]).clone() has check_bounds = False *)
Theorem clone_old_empty_refuted :
  exists s, vnew_default VXR [] = Some s /\ exists c, clone_old VXR s = Some c /\ v_cb c <> v_cb s.
Proof.
  eexists. split; [reflexivity|]. eexists. split; [reflexivity|]. simpl. discriminate.
Qed.

Theorem from_dict_old_refuted : exists s, reachable s /\ from_dict_old VXR (to_dict s) <> Some s.
Proof.
  exists ex2. split; [apply ex2_reachable|].
  rewrite from_dict_old_loses_hit by (apply reachable_wf, ex2_reachable).
  intros H. inversion H.
Qed.

(* ... and the repaired code satisfies it on every reachable state *)
Theorem reachable_clone_dict s : reachable s ->
  clone VXR s = Some s /\ from_dict VXR (to_dict s) = Some s.
Proof. intros R. apply reachable_wf in R. split; [apply clone_id | apply dict_id]; auto. Qed.

Example ex_away : away (XFin 2) (nx (v_mins ex0) 0) /\ away (XFin 2) (nx (v_maxs ex0) 0).
Proof. unfold away; simpl. split; right; unfold Rabs; destruct (Rcase_abs _); lra. Qed.

Example ex3_has_nan : exists i, (i < v_nval ex3)%nat /\
  (nx (v_defaults ex3) i = XNan \/ nx (v_values ex3) i = XNan).
Proof. exists 0%nat. split; [unfold v_nval; simpl; lia|left; reflexivity]. Qed.
