(* Overflow-checked versions of the refinement theorems of Proofs/RefineRiver.v
   (c_delineate_flowpathlengths_in_catchment, c_delineate_river) and Proofs/RefineArea.v
   (c_delineate_area): the SAME conclusions about [program_chk] (Gen/KernelsAstChk.v), the
   translation of the C kernels in which every signed integer +, -, *, /, unary -, ++, --
   carries [IChk <width>] (error [Overflow] unless the value fits the C type).  A theorem
   [exec_fun N X program_chk (S n) "<kernel>" args = Ok r] says that, besides memory safety
   and the functional result, no signed overflow (undefined behaviour in C) occurs.

   All the integers of these kernels (src/hydrodiy/gis/c_catchment.c, c_grid.c) are C
   [long long] (W64); the only [int] expressions are the literals -1, -2 and
   CATCHMENT_ERROR/GRID_ERROR + __LINE__ (W32, closed).

   The models, the state constructors and the invariants are those of the source files
   (imported: the conclusions are syntactically those of the source theorems); the loop lemmas
   are re-proved on [program_chk].  Callees on [program_chk]: getnxy, c_neighbours, getcoord
   from Proofs/ChkGrid.v, c_upstream from Proofs/ChkFlow.v; c_downstream on one cell,
   stepsquaredist are re-proved here (Part 1: the hypothesis of RefineRiver.v on flowdir is
   nrows*ncols <= len(flowdir), weaker than the equality of ChkFlow.v).

   Main theorems (chk_<name of the source theorem>):
     chk_refine_delineate_flowpathlengths_in_catchment(_with), chk_refine_delineate_river(_with),
     chk_refine_c_delineate_area (+ _ok, _err, _rejected), chk_upstream_run1
     (= chk_refine_c_upstream_one), chk_downstream1_run, chk_stepsq_run, chk_getcoord_run.

   Size hypotheses added (INT64_MAX = 2^63-1, INT64_MIN = -2^63), see the comment before each
   theorem for the C expression that needs it:
     c_delineate_flowpathlengths_in_catchment
         (some cell number of idxcells_area is >= 0) -> INT64_MIN <= nrows*ncols <= INT64_MAX
                                                     (idxcell >= nrows*ncols  in c_downstream)
         3*nval - 1 <= INT64_MAX                     (flowpathlengths[3*i+2]; implies i++, ipath++)
     c_delineate_river
         0 <= idxupstream -> INT64_MIN <= nrows*ncols - 1  and  nrows*ncols + 1 <= INT64_MAX
                                                     (nrows*ncols-1;  nx1-nx2, ny1-ny2 when the
                                                      downstream cell is -1 / -2)
         5*nval - 1 <= INT64_MAX                     (data[ncolsdata*i+4]; implies i++, npoints[0]++)
     c_delineate_area
         nrows*ncols (= len(flowdir)) <= INT64_MAX   (nrows*ncols-1, idxcell >= nrows*ncols)
         ninlets <= INT64_MAX, nval <= INT64_MAX     (m++, l++, i++, nbuffer2++, nlayer++, nval-1)
   All of them hold for the calls made by the Cython wrappers (nrows, ncols = flowdir.shape;
   nval, ninlets = lengths of arrays in memory): no wrapper-admissible input overflows.
   Necessity witnesses (admissible for the C prototypes only): overflow_flowpathlengths_ncells,
   overflow_delineate_river_ncells.
   No hypothesis on the integer DATA read from the arrays (cell numbers, flow direction codes):
   cell numbers are validated before any arithmetic, codes are only compared. *)
From Coq Require Import ZArith Bool List String Lia PrimFloat Reals Lra.
From Hy Require Import Base.Num Base.MiniC Gen.Consts Gen.KernelsAst Gen.KernelsAstChk
     Model.Grid Model.Catchment
     Proofs.GridGeomProofs Proofs.FlowProofs Proofs.AreaProofs Proofs.RefineGridGeom
     Proofs.ChkGrid Proofs.RefineArea Proofs.RefineRiver.
From Hy Require Proofs.RefineFlow Proofs.ChkFlow.
Import ListNotations.
Open Scope string_scope.
Open Scope list_scope.
Open Scope Z_scope.

Notation INT64_MAX := 9223372036854775807 (only parsing).
Notation INT64_MIN := (-9223372036854775808) (only parsing).

(* the checks on symbolic values stay folded under [cbn]; [iw] (Proofs/ChkGrid.v) rewrites
   them to [true] by [lia] from the context; a check on a literal is decided by [cbn] *)
#[local] Arguments in_width !w !z /.

Lemma valid_cell_range nrows ncols c :
  valid_cell nrows ncols c = true -> 0 <= c < nrows * ncols.
Proof.
  unfold valid_cell. intros Hv. apply negb_true_iff, orb_false_iff in Hv. destruct Hv as [H1 H2].
  apply Z.ltb_ge in H1. apply Z.leb_gt in H2. lia.
Qed.

(* |a % b| <= |a|, |a / b| <= |a| (truncated division) *)
Lemma rem_abs_le a b : b <> 0 -> Z.abs (Z.rem a b) <= Z.abs a.
Proof. intros Hb. rewrite <- Z.rem_abs by exact Hb. apply Z.rem_le; lia. Qed.

Lemma quot_abs_le a b : b <> 0 -> Z.abs (Z.quot a b) <= Z.abs a.
Proof.
  intros Hb. rewrite <- Z.quot_abs by exact Hb.
  rewrite Z.quot_div_nonneg by lia.
  apply Z.div_le_upper_bound; [lia|]. nia.
Qed.

(* ================================================================== *)
(* Part 1: the callees on program_chk                                   *)
(* ================================================================== *)

Section Callees.
Context {T : Type} (N : NumOps T) (X : NumLit T).

#[local] Arguments neighbour_at : simpl never.
#[local] Arguments neighbours_raw : simpl never.
#[local] Arguments fold_left : simpl never.
#[local] Arguments slots_pre : simpl never.

(* c_neighbours on a valid cell (Proofs/ChkGrid.v), fuel as a lower bound *)
Lemma chk_neighbours_run n nrows ncols idx nb :
  nrows * ncols <= INT64_MAX ->
  valid_cell nrows ncols idx = true -> List.length nb = 9%nat -> (5 < n)%nat ->
  exec_fun N X program_chk n "c_neighbours" [AVI nrows; AVI ncols; AVI idx; AVArrI nb]
  = Ok (RI 0, [VArrI (neighbours_raw nrows ncols idx)]).
Proof.
  intros HM Hv Hnb Hn. destruct n as [|n]; [lia|].
  apply chk_refine_neighbours_ok; try assumption. lia.
Qed.

(* getnxy on a valid cell *)
Lemma chk_getnxy_valid n nrows ncols idx a b :
  nrows * ncols <= INT64_MAX ->
  valid_cell nrows ncols idx = true -> (0 < n)%nat ->
  exec_fun N X program_chk n "getnxy" [AVI ncols; AVI idx; AVArrI [a; b]]
  = Ok (RI 0, [VArrI [getnx ncols idx; getny ncols idx]]).
Proof.
  intros HM Hv Hn. apply valid_cell_range in Hv.
  destruct (valid_cell_facts nrows ncols idx Hv HM) as (Hnc & _).
  apply chk_getnxy_run'; try assumption; lia.
Qed.

(* ---------------- c_downstream on one cell ---------------- *)
(* Checked: nrows*ncols of the validity test (only when idxcell >= 0: || is lazy), i++, j++;
   the literals -1, -2, GRID_ERROR + __LINE__ are closed. *)
Section Down.
Variables nrows ncols : Z.
Variables codes fd : list Z.

Notation dsst := (@RefineRiver.dsst T nrows ncols codes fd).
Notation ds_pick := (RefineRiver.ds_pick codes).
Notation ds_result := (RefineRiver.ds_result nrows ncols codes fd).
Notation dso_inv := (@RefineRiver.dso_inv T nrows ncols codes fd).
Notation dso_post := (@RefineRiver.dso_post T nrows ncols codes fd).

Lemma chk_ds_inner (callf : callee T) n fdv ic c d0 nbs :
  List.length codes = 9%nat -> List.length nbs = 9%nat -> (9 < n)%nat ->
  loop n (cond_of N X (ICmp CLt (IVar "j") (IConst 9)))
    (for_body
       (exec N X callf n
          (SIf (ICmp CEq (IVar "fd") (IArr "flowdircode" (IVar "j")))
             (seq [(SStoreI "idxdown" (IVar "i") (IArr "neighbours" (IVar "j"))); SContinue])
             SSkip))
       (exec N X callf n (SSetI "j" (IChk W64 (IBin IAdd (IVar "j") (IConst 1))))))
    (dsst 0 0 fdv ic c [d0] nbs)
  = Ok (ONormal, dsst 0 9 fdv ic c [fold_left (ds_pick fdv nbs) slots d0] nbs).
Proof.
  intros Hc Hnb Hn.
  apply (loop_rule_eq
           (fun k st => (k <= 9)%nat /\
              st = dsst 0 (Z.of_nat k) fdv ic c [fold_left (ds_pick fdv nbs) (slots_pre k) d0] nbs)
           _ 9%nat).
  - intros k st (Hk & ->). split; [exact Hk|].
    unfold RefineRiver.dsst. cbn.
    destruct (Z.ltb_spec (Z.of_nat k) 9) as [Hlt|Hge]; cbn.
    + rewrite (zget_ok codes (Z.of_nat k) 0) by lia. cbn.
      fold (zn codes (Z.of_nat k) 0).
      rewrite truth_b2z.
      assert (HS : fold_left (ds_pick fdv nbs) (slots_pre (S k)) d0
                   = if fdv =? zn codes (Z.of_nat k) 0 then zn nbs (Z.of_nat k) (-1)
                     else fold_left (ds_pick fdv nbs) (slots_pre k) d0).
      { rewrite slots_pre_S by lia. rewrite fold_left_app. reflexivity. }
      destruct (fdv =? zn codes (Z.of_nat k) 0) eqn:E; cbn.
      * rewrite (zget_ok nbs (Z.of_nat k) (-1)) by lia. cbn.
        fold (zn nbs (Z.of_nat k) (-1)). iw. cbn.
        split; [lia|]. unfold RefineRiver.dsst. norm_state. rewrite HS.
        replace (Z.of_nat k + 1) with (Z.of_nat (S k)) by lia. reflexivity.
      * iw. cbn. split; [lia|]. unfold RefineRiver.dsst. norm_state. rewrite HS.
        replace (Z.of_nat k + 1) with (Z.of_nat (S k)) by lia. reflexivity.
    + assert (k = 9%nat) by lia. subst k. reflexivity.
  - split; [lia|]. reflexivity.
  - lia.
Qed.

Definition chk_ds_outer_body : stmt :=
(seq [(SSetI "idxcell" (IArr "idxup" (IVar "i")));
(SIf (IOr (ICmp CLt (IVar "idxcell") (IConst 0)) (ICmp CGe (IVar "idxcell") (IChk W64 (IBin IMul (IVar "nrows") (IVar "ncols")))))
(SRetI (IChk W32 (IBin IAdd (IConst 50000) (IConst 1))))
SSkip);
(SCall DNone "c_neighbours" [(AI (IVar "nrows")); (AI (IVar "ncols")); (AI (IVar "idxcell")); (AArrI "neighbours" (IConst 0))]);
(SSetI "fd" (IArr "flowdir" (IVar "idxcell")));
(SStoreI "idxdown" (IVar "i") (IChk W32 (IUn INeg (IConst 1))));
(SIf (ICmp CEq (IVar "fd") (IConst 0))
(seq [(SStoreI "idxdown" (IVar "i") (IChk W32 (IUn INeg (IConst 2))));
SContinue])
SSkip);
(SSetI "j" (IConst 0));
(SFor (ICmp CLt (IVar "j") (IConst 9))
(SSetI "j" (IChk W64 (IBin IAdd (IVar "j") (IConst 1))))
(SIf (ICmp CEq (IVar "fd") (IArr "flowdircode" (IVar "j")))
(seq [(SStoreI "idxdown" (IVar "i") (IArr "neighbours" (IVar "j")));
SContinue])
SSkip))]).

(* [c < 0 \/ ...]: the product is not computed for a negative cell number *)
Lemma chk_ds_outer n c d0 :
  (c < 0 \/ INT64_MIN <= nrows * ncols <= INT64_MAX) ->
  List.length codes = 9%nat -> nrows * ncols <= Z.of_nat (List.length fd) -> (10 < n)%nat ->
  exists r,
  loop n (cond_of N X (ICmp CLt (IVar "i") (IVar "nval")))
    (for_body (exec N X (exec_fun N X program_chk n) n chk_ds_outer_body)
       (exec N X (exec_fun N X program_chk n) n (SSetI "i" (IChk W64 (IBin IAdd (IVar "i") (IConst 1))))))
    (dsst 0 0 0 0 c [d0] (repeat 0 9)) = Ok r
  /\ dso_post c d0 r.
Proof.
  intros HM Hc Hfd Hn.
  apply (loop_rule (dso_inv c d0) (dso_post c d0) 1%nat) with (k := O).
  - intros k st [(-> & ->)|(-> & Hv & j & ->)].
    + split; [lia|]. unfold RefineRiver.dsst, chk_ds_outer_body. cbn.
      destruct (valid_cell nrows ncols c) eqn:Hv.
      * assert (Hr := valid_cell_range _ _ _ Hv).
        assert (HM' : INT64_MIN <= nrows * ncols <= INT64_MAX) by (destruct HM; lia).
        assert (Hv' := Hv). unfold valid_cell in Hv'. apply negb_true_iff in Hv'.
        iw. cbn. rewrite !truth_b2z, or_ok. cbn. rewrite truth_b2z. rewrite Hv'.
        cbn. rewrite chk_neighbours_run by (try exact Hv; try reflexivity; lia).
        cbn. rewrite (zget_ok fd c 0) by lia. cbn. fold (zn fd c 0). rewrite truth_b2z.
        destruct (zn fd c 0 =? 0) eqn:E0; cbn.
        -- right. split; [reflexivity|]. split; [exact Hv|]. exists 0.
           unfold RefineRiver.dsst, RefineRiver.ds_result. rewrite E0. reflexivity.
        -- match goal with |- context[loop n _ _ ?s] =>
             change s with (dsst 0 0 (zn fd c 0) c c [-1] (neighbours_raw nrows ncols c)) end.
           rewrite chk_ds_inner by (try assumption; try reflexivity; lia).
           cbn. right. split; [reflexivity|]. split; [exact Hv|]. exists 9.
           unfold RefineRiver.dsst, RefineRiver.ds_result. rewrite E0. reflexivity.
      * assert (Hv' := Hv). unfold valid_cell in Hv'. apply negb_false_iff in Hv'.
        destruct (c <? 0) eqn:Hneg.
        -- cbn. right. split; [exact Hv|]. exists 50001. split; [lia|]. reflexivity.
        -- cbn [orb] in Hv'. apply Z.ltb_ge in Hneg.
           assert (HM' : INT64_MIN <= nrows * ncols <= INT64_MAX) by (destruct HM; lia).
           cbn. iw. cbn. rewrite Hv'.
           cbn. right. split; [exact Hv|]. exists 50001. split; [lia|]. reflexivity.
    + split; [lia|]. unfold RefineRiver.dsst. cbn. left. split; [exact Hv|]. exists j. reflexivity.
  - left. split; reflexivity.
  - lia.
Qed.

Lemma chk_downstream1_run n c d0 :
  (c < 0 \/ INT64_MIN <= nrows * ncols <= INT64_MAX) ->
  List.length codes = 9%nat -> nrows * ncols <= Z.of_nat (List.length fd) -> (11 < n)%nat ->
  match downstream_with codes nrows ncols fd c with
  | Some d =>
      exec_fun N X program_chk n "c_downstream"
        [AVI nrows; AVI ncols; AVArrI codes; AVArrI fd; AVI 1; AVArrI [c]; AVArrI [d0]]
      = Ok (RI 0, [VArrI codes; VArrI fd; VArrI [c]; VArrI [d]])
  | None =>
      exists code, 0 < code /\
      exec_fun N X program_chk n "c_downstream"
        [AVI nrows; AVI ncols; AVArrI codes; AVArrI fd; AVI 1; AVArrI [c]; AVArrI [d0]]
      = Ok (RI code, [VArrI codes; VArrI fd; VArrI [c]; VArrI [d0]])
  end.
Proof.
  intros HM Hc Hfd Hn. rewrite downstream_with_eq.
  destruct n as [|n]; [lia|].
  destruct (chk_ds_outer n c d0 HM Hc Hfd) as (r & Hr & Hpost); [lia|].
  unfold chk_ds_outer_body in Hr. cbn [seq] in Hr.
  destruct Hpost as [(Hv & j & ->)|(Hv & code & Hcode & ->)]; rewrite Hv.
  - cbn.
    match goal with |- context[loop n _ _ ?s] => change s with (dsst 0 0 0 0 c [d0] (repeat 0 9)) end.
    rewrite Hr. cbn. reflexivity.
  - exists code. split; [exact Hcode|]. cbn.
    match goal with |- context[loop n _ _ ?s] => change s with (dsst 0 0 0 0 c [d0] (repeat 0 9)) end.
    rewrite Hr. cbn. reflexivity.
Qed.

End Down.

(* the answers of c_downstream: -2 (no flow direction), -1 (no matching code / off the
   grid) or a cell of the grid *)
Lemma downstream_with_cases codes nrows ncols fd c d :
  downstream_with codes nrows ncols fd c = Some d ->
  d = -2 \/ d = -1 \/ valid_cell nrows ncols d = true.
Proof.
  rewrite downstream_with_eq. destruct (valid_cell nrows ncols c); [|discriminate].
  intros [= <-]. unfold ds_result. destruct (zn fd c 0 =? 0); [left; reflexivity|right].
  assert (H : forall l acc, (acc = -1 \/ valid_cell nrows ncols acc = true) ->
            let r := fold_left (ds_pick codes (zn fd c 0) (neighbours_raw nrows ncols c)) l acc in
            r = -1 \/ valid_cell nrows ncols r = true).
  { induction l as [|j l IH]; intros acc Hacc; [exact Hacc|].
    change (fold_left ?f (j :: l) acc) with (fold_left f l (f acc j)). apply IH.
    unfold ds_pick. destruct (zn fd c 0 =? zn codes j 0); [|exact Hacc].
    unfold zn, neighbours_raw.
    destruct (nth_in_or_default (Z.to_nat j)
                (map (neighbour_at nrows ncols (getnx ncols c) (getny ncols c)) offsets) (-1)) as [Hin|E];
      [|rewrite E; left; reflexivity].
    apply in_map_iff in Hin. destruct Hin as (o & <- & _). apply neighbour_at_range. }
  exact (H slots (-1) (or_introl eq_refl)).
Qed.

(* ---------------- c_catchment.stepsquaredist, getcoord ---------------- *)
(* two calls of getnxy on cells of the grid *)
Lemma chk_stepsq_run n nrows ncols a b :
  nrows * ncols <= INT64_MAX ->
  valid_cell nrows ncols a = true -> valid_cell nrows ncols b = true -> (1 < n)%nat ->
  exec_fun N X program_chk n "c_catchment.stepsquaredist" [AVI ncols; AVI a; AVI b]
  = Ok (RF (nofZ N (squaredist ncols a b)), []).
Proof.
  intros HM Ha Hb Hn. destruct n as [|n]; [lia|]. cbn.
  rewrite !(chk_getnxy_valid n nrows) by (assumption || lia). cbn.
  rewrite !(chk_getnxy_valid n nrows) by (assumption || lia). cbn.
  rewrite ?truth_b2z, ?or_ok. cbn. rewrite truth_b2z. unfold squaredist.
  destruct ((getnx ncols a =? getnx ncols b) || (getny ncols a =? getny ncols b)); reflexivity.
Qed.

(* getcoord on a cell of the grid: nrows-1 and nrows-1-nxy[1] are row numbers *)
Lemma chk_getcoord_run n nrows ncols xll yll csz idx x0 y0 :
  nlit X (0x1.0000000000000p-1)%float 1 2 = nhalf N ->
  nrows * ncols <= INT64_MAX ->
  valid_cell nrows ncols idx = true -> (1 < n)%nat ->
  exec_fun N X program_chk n "getcoord"
    [AVI nrows; AVI ncols; AVF xll; AVF yll; AVF csz; AVI idx; AVArrF [x0; y0]]
  = Ok (RI 0, [VArrF [fst (getcoord N nrows ncols xll yll csz idx);
                      snd (getcoord N nrows ncols xll yll csz idx)]]).
Proof.
  intros Hh HM Hv Hn. destruct n as [|[|n]]; try lia.
  apply chk_refine_getcoord_valid; [exact Hh|apply valid_cell_range; exact Hv|exact HM].
Qed.

End Callees.

(* ================================================================== *)
(* Part 2: c_delineate_flowpathlengths_in_catchment                     *)
(* ================================================================== *)

Section FlowPaths.
Context {T : Type} (N : NumOps T) (X : NumLit T).

#[local] Arguments walk_with : simpl never.
#[local] Arguments downstream_with : simpl never.
#[local] Arguments squaredist : simpl never.

Lemma fp_flat_len (rows : list (Z * Z * T)) :
  List.length (fp_flat N rows) = (3 * List.length rows)%nat.
Proof.
  induction rows as [|r rows IH]; [reflexivity|]. unfold fp_flat in *.
  cbn [flat_map fp_row app List.length]. rewrite IH. lia.
Qed.

Section Flow.
Variables nrows ncols : Z.
Variables codes fd area : list Z.
Variable outlet : Z.
Hypothesis Hcodes : List.length codes = 9%nat.
Hypothesis Hfd : nrows * ncols <= Z.of_nat (List.length fd).
(* the size hypotheses ([HM]: the product is computed only for a cell number >= 0) *)
Hypothesis HM : forall c, In c area -> 0 <= c -> INT64_MIN <= nrows * ncols <= INT64_MAX.
Hypothesis H3 : 3 * MiniC.zlen area - 1 <= INT64_MAX.

Notation fpst := (@RefineRiver.fpst T nrows ncols codes fd area outlet).
Notation fp_rows := (@RefineRiver.fp_rows T N nrows ncols codes fd area outlet).
Notation fpo_inv := (@RefineRiver.fpo_inv T N nrows ncols codes fd area outlet).
Notation fpo_post := (@RefineRiver.fpo_post T N nrows ncols codes fd area outlet).
Notation valid c := (valid_cell nrows ncols c = true).

Definition chk_fp_wbody : stmt :=
(seq [(SCall (DI "ierr_down") "c_downstream" [(AI (IVar "nrows")); (AI (IVar "ncols")); (AArrI "flowdircode" (IConst 0)); (AArrI "flowdir" (IConst 0)); (AI (IConst 1)); (AArrI "idxcell_up" (IConst 0)); (AArrI "idxcell_down" (IConst 0))]);
(SIf (IOr (ICmp CLt (IArr "idxcell_down" (IConst 0)) (IConst 0)) (ICmp CGt (IVar "ierr_down") (IConst 0)))
SBreak
SSkip);
(SIf (ICmp CEq (IArr "idxcell_down" (IConst 0)) (IVar "idxcell_outlet"))
SBreak
SSkip);
(SCall (DF "squaredist") "c_catchment.stepsquaredist" [(AI (IVar "ncols")); (AI (IArr "idxcell_down" (IConst 0))); (AI (IArr "idxcell_up" (IConst 0)))]);
(SStoreI "idxcell_up" (IConst 0) (IArr "idxcell_down" (IConst 0)));
(SSetI "ipath" (IChk W64 (IBin IAdd (IVar "ipath") (IConst 1))));
(SSetF "length" (FBin FAdd (FVar "length") (FUn FSqrt (FVar "squaredist"))))]).

Lemma zlen_area_bound : MiniC.zlen area <= INT64_MAX.
Proof. pose proof (zlen_eq area). lia. Qed.

Lemma downstream_some_valid c d : downstream_with codes nrows ncols fd c = Some d -> valid c.
Proof.
  rewrite downstream_with_eq. destruct (valid_cell nrows ncols c); [reflexivity|discriminate].
Qed.

(* the while loop: by induction on the fuel [f] of the model's [walk_with], as fp_while of
   RefineRiver.v.  ipath stays in [0, nval] (ipath++ is checked).  nrows*ncols is computed by
   c_downstream unless idxcell_up < 0.  The last conjunct says that, unless no call of
   c_downstream succeeded, idxcell_up is a cell of the grid and so is idxcell_down when it is
   >= 0: this is what makes the two calls of getnxy in the call of stepsquaredist after the
   loop overflow-free. *)
Lemma chk_fp_while n i out : (12 < n)%nat ->
  forall f lf up down len ipath ied sq,
  (f < lf)%nat -> MiniC.zlen area <= ipath + Z.of_nat f -> 0 <= ipath <= MiniC.zlen area ->
  (up < 0 \/ INT64_MIN <= nrows * ncols <= INT64_MAX) ->
  let r := walk_with N codes f nrows ncols fd outlet (MiniC.zlen area) up down len ipath in
  exists ied' sq',
    loop lf (cond_of N X (ICmp CLt (IVar "ipath") (IVar "nval")))
      (exec N X (exec_fun N X program_chk n) n chk_fp_wbody)
      (fpst ied i ipath sq len up down out)
    = Ok (ONormal, fpst ied' i (w_ipath r) sq' (w_len r) (w_up r) (w_down r) out)
    /\ 0 <= w_ipath r <= MiniC.zlen area
    /\ ((w_up r = up /\ w_down r = down) \/
        (valid (w_up r) /\ (0 <= w_down r -> valid (w_down r)) /\ nrows * ncols <= INT64_MAX)).
Proof.
  intros Hn. pose proof zlen_area_bound as Hnv.
  induction f as [|f IH]; intros lf up down len ipath ied sq Hlf Hip Hip0 Hup r.
  - destruct lf as [|lf]; [lia|]. subst r. exists ied, sq.
    split; [|split; [exact Hip0|left; split; reflexivity]].
    unfold RefineRiver.fpst. cbn.
    replace (ipath <? MiniC.zlen area) with false by (symmetry; apply Z.ltb_ge; lia).
    reflexivity.
  - destruct lf as [|lf]; [lia|]. subst r.
    rewrite walk_with_S. unfold RefineRiver.fpst at 1. cbn [loop].
    destruct (ipath <? MiniC.zlen area) eqn:Hlt.
    2: { cbn. rewrite Hlt. cbn. exists ied, sq.
         split; [reflexivity|split; [exact Hip0|left; split; reflexivity]]. }
    unfold chk_fp_wbody. cbn. rewrite Hlt. cbn. rewrite !RefineRiver.zlen_ltb0. cbn.
    pose proof (chk_downstream1_run N X nrows ncols codes fd n up down Hup Hcodes Hfd
                  ltac:(lia)) as Hrun.
    apply Z.ltb_lt in Hlt.
    destruct (downstream_with codes nrows ncols fd up) as [d|] eqn:Hd.
    + rewrite Hrun. cbn. rewrite truth_b2z.
      assert (Hvu := downstream_some_valid _ _ Hd).
      assert (Hvd := downstream_with_range _ _ _ _ _ _ Hd).
      assert (HMx : INT64_MIN <= nrows * ncols <= INT64_MAX)
        by (pose proof (valid_cell_range _ _ _ Hvu); destruct Hup; lia).
      destruct (d <? 0) eqn:Hneg; cbn.
      { exists 0, sq. split; [reflexivity|]. split; [exact Hip0|]. right.
        split; [exact Hvu|]. split; [|lia]. apply Z.ltb_lt in Hneg. intros; lia. }
      apply Z.ltb_ge in Hneg. specialize (Hvd Hneg).
      rewrite truth_b2z.
      destruct (d =? outlet) eqn:Hout; cbn.
      { exists 0, sq. split; [reflexivity|]. split; [exact Hip0|]. right.
        split; [exact Hvu|]. split; [intros _; exact Hvd|lia]. }
      rewrite (chk_stepsq_run N X n nrows) by (assumption || lia). cbn. iw. cbn.
      match goal with |- context[loop lf _ _ ?s] =>
        change s with (fpst 0 i (ipath + 1) (nofZ N (squaredist ncols d up))
                         (nadd N len (nsqrt N (nofZ N (squaredist ncols d up)))) d d out) end.
      destruct (IH lf d d (nadd N len (nsqrt N (nofZ N (squaredist ncols d up)))) (ipath + 1) 0
                  (nofZ N (squaredist ncols d up))) as (ied' & sq' & Heq & Hb & Hc);
        [lia|lia|lia|right; exact HMx|].
      exists ied', sq'. split; [|split; [exact Hb|]].
      * unfold chk_fp_wbody in Heq. cbn [seq] in Heq. rewrite Heq. reflexivity.
      * right. unfold steplen. destruct Hc as [[-> ->]|Hc]; [|exact Hc].
        split; [exact Hvd|split; [intros _; exact Hvd|lia]].
    + destruct Hrun as (code & Hcode & Hrun). rewrite Hrun. cbn.
      rewrite !truth_b2z, or_ok. cbn. rewrite truth_b2z.
      replace (0 <? code) with true by (symmetry; apply Z.ltb_lt; lia). rewrite orb_true_r. cbn.
      exists code, sq. split; [reflexivity|split; [exact Hip0|left; split; reflexivity]].
Qed.

(* ---- the loop over the cells of the catchment ---- *)
Definition chk_fp_obody : stmt :=
(seq [(SStoreI "idxcell_up" (IConst 0) (IArr "idxcells_area" (IVar "i")));
(SStoreI "idxcell_down" (IConst 0) (IChk W32 (IUn INeg (IConst 1))));
(SSetF "length" (FOfInt (IConst 0)));
(SSetI "ipath" (IConst 0));
(SWhile (ICmp CLt (IVar "ipath") (IVar "nval")) chk_fp_wbody);
(SSetI "ipath" (IChk W64 (IBin IAdd (IVar "ipath") (IConst 1))));
(SIf (IAnd (ICmp CLt (IVar "ipath") (IVar "nval")) (ICmp CGe (IArr "idxcell_down" (IConst 0)) (IConst 0)))
(seq [(SCall (DF "squaredist") "c_catchment.stepsquaredist" [(AI (IVar "ncols")); (AI (IArr "idxcell_down" (IConst 0))); (AI (IArr "idxcell_up" (IConst 0)))]);
(SSetF "length" (FBin FAdd (FVar "length") (FUn FSqrt (FVar "squaredist"))))])
SSkip);
(SIf (IOr (ICmp CLt (IArr "idxcell_down" (IConst 0)) (IConst 0)) (ICmp CEq (IArr "idxcells_area" (IVar "i")) (IVar "idxcell_outlet")))
(SSetF "length" (FOfInt (IConst 0)))
SSkip);
(SStoreF "flowpathlengths" (IChk W64 (IBin IMul (IConst 3) (IVar "i"))) (FOfInt (IArr "idxcells_area" (IVar "i"))));
(SStoreF "flowpathlengths" (IChk W64 (IBin IAdd (IChk W64 (IBin IMul (IConst 3) (IVar "i"))) (IConst 1))) (FOfInt (IArr "idxcell_down" (IConst 0))));
(SStoreF "flowpathlengths" (IChk W64 (IBin IAdd (IChk W64 (IBin IMul (IConst 3) (IVar "i"))) (IConst 2))) (FVar "length"))]).

Lemma chk_fp_outer n junk ied0 ipath0 sq0 len0 up0 down0 :
  nofZ N 0 = n0 N ->
  List.length junk = (3 * List.length area)%nat ->
  (12 < n)%nat -> (List.length area < n)%nat ->
  exists r,
    loop n (cond_of N X (ICmp CLt (IVar "i") (IVar "nval")))
      (for_body (exec N X (exec_fun N X program_chk n) n chk_fp_obody)
         (exec N X (exec_fun N X program_chk n) n (SSetI "i" (IChk W64 (IBin IAdd (IVar "i") (IConst 1))))))
      (fpst ied0 0 ipath0 sq0 len0 up0 down0 junk) = Ok r
    /\ fpo_post r.
Proof.
  intros HZ Hjunk Hn Hna. pose proof zlen_area_bound as Hnv.
  apply (loop_rule fpo_inv fpo_post (List.length area)) with (k := O).
  - intros k st (done & todo & jtodo & ied & ipath & sq & len & up & down & Harea & Hk & Hj & ->).
    assert (Hlen : List.length area = (k + List.length todo)%nat)
      by (rewrite Harea, app_length; lia).
    split; [lia|].
    unfold RefineRiver.fpst at 1. cbn. rewrite (zlen_eq area).
    destruct todo as [|c todo].
    + replace (Z.of_nat k <? Z.of_nat (List.length area)) with false
        by (symmetry; apply Z.ltb_ge; cbn in Hlen; lia).
      cbn. destruct jtodo; [|discriminate]. rewrite app_nil_r in *. subst done.
      exists ied, ipath, sq, len, up, down. unfold RefineRiver.fpst. rewrite (zlen_eq area).
      replace (List.length area) with k by (cbn in Hlen; lia). reflexivity.
    + replace (Z.of_nat k <? Z.of_nat (List.length area)) with true
        by (symmetry; apply Z.ltb_lt; cbn in Hlen; lia).
      assert (Hkn : Z.of_nat k + 1 <= MiniC.zlen area) by (rewrite zlen_eq; cbn in Hlen; lia).
      assert (Hg : zget area (Z.of_nat k) = Some c) by (rewrite Harea; apply zget_app; lia).
      assert (Hup : c < 0 \/ INT64_MIN <= nrows * ncols <= INT64_MAX).
      { destruct (Z.lt_ge_cases c 0) as [Hc0|Hc0]; [left; exact Hc0|right].
        apply (HM c); [rewrite Harea; apply in_or_app; right; left; reflexivity|lia]. }
      unfold chk_fp_obody, chk_fp_wbody. cbn. rewrite Hg. cbn. rewrite HZ.
      match goal with |- context[loop n _ _ ?s] =>
        change s with (fpst ied (Z.of_nat k) 0 sq (n0 N) c (-1) (RefineRiver.fp_flat N (fp_rows done) ++ jtodo)) end.
      destruct (chk_fp_while n (Z.of_nat k) (RefineRiver.fp_flat N (fp_rows done) ++ jtodo) Hn
                  (Z.to_nat (MiniC.zlen area)) n c (-1) (n0 N) 0 ied sq)
        as (ied' & sq' & Hw & Hipb & Hval);
        [rewrite zlen_eq; lia|rewrite zlen_eq; lia|rewrite zlen_eq; lia|exact Hup|].
      unfold chk_fp_wbody in Hw. cbn [seq] in Hw. rewrite Hw. clear Hw.
      pose proof (eq_refl (flowpath_with N codes nrows ncols fd outlet (Catchment.zlen area) c)) as Hfp.
      unfold flowpath_with at 2 in Hfp. unfold Catchment.zlen in Hfp. rewrite <- (zlen_eq area) in Hfp.
      destruct (walk_with N codes (Z.to_nat (MiniC.zlen area)) nrows ncols fd outlet (MiniC.zlen area)
                  c (-1) (n0 N) 0) as [[[up' down'] len'] ipath'].
      unfold w_up, w_down, w_len, w_ipath in *. cbn [fst snd] in *.
      destruct jtodo as [|j0 [|j1 [|j2 jtodo]]]; try (cbn in Hj; lia).
      assert (HP : 3 * Z.of_nat k = Z.of_nat (List.length (RefineRiver.fp_flat N (fp_rows done))) + 0)
        by (rewrite fp_flat_len; unfold RefineRiver.fp_rows; rewrite map_length; lia).
      assert (HP1 : 3 * Z.of_nat k + 1 = Z.of_nat (List.length (RefineRiver.fp_flat N (fp_rows done))) + 1)
        by lia.
      assert (HP2 : 3 * Z.of_nat k + 2 = Z.of_nat (List.length (RefineRiver.fp_flat N (fp_rows done))) + 2)
        by lia.
      assert (Hfin : forall ied1 ipath1 sq1 lenf,
                lenf = snd (flowpath_with N codes nrows ncols fd outlet (MiniC.zlen area) c) ->
                fpo_inv (S k)
                  (fpst ied1 (Z.of_nat k + 1) ipath1 sq1 lenf up' down'
                     (RefineRiver.fp_flat N (fp_rows done) ++ nofZ N c :: nofZ N down' :: lenf :: jtodo))).
      { intros ied1 ipath1 sq1 lenf Hlf.
        exists (done ++ [c]), todo, jtodo, ied1, ipath1, sq1, lenf, up', down'.
        split; [rewrite <- app_assoc; exact Harea|].
        split; [rewrite app_length; cbn; lia|].
        split; [cbn in Hj; lia|].
        replace (Z.of_nat k + 1) with (Z.of_nat (S k)) by lia.
        unfold RefineRiver.fp_rows. rewrite map_app. cbn [map]. rewrite fp_flat_snoc.
        unfold Catchment.zlen. rewrite <- (zlen_eq area).
        rewrite Hlf, Hfp. unfold fp_row. cbn [fst snd]. rewrite <- app_assoc. reflexivity. }
      unfold RefineRiver.fpst at 1. cbn. iw. cbn.
      rewrite !truth_b2z, and_ok. cbn. rewrite truth_b2z.
      destruct ((ipath' + 1 <? MiniC.zlen area) && (0 <=? down')) eqn:Hc1.
      * assert (Hvv : valid up' /\ valid down' /\ nrows * ncols <= INT64_MAX).
        { apply andb_true_iff in Hc1. destruct Hc1 as [_ Hc1]. apply Z.leb_le in Hc1.
          destruct Hval as [[_ Hd]|[Hu [Hd HMx]]]; [lia|].
          split; [exact Hu|split; [exact (Hd Hc1)|exact HMx]]. }
        destruct Hvv as (Hvu & Hvd & HMx).
        rewrite (chk_stepsq_run N X n nrows) by (assumption || lia). cbn.
        rewrite !truth_b2z, Hg. cbn. rewrite ?truth_b2z, ?b2z_truth_b2z, or_ok. cbn. rewrite truth_b2z.
        destruct ((down' <? 0) || (c =? outlet)) eqn:Hc2; cbn.
        -- iw. cbn. rewrite Hg. cbn.
           rewrite (zset_app_off _ _ _ 0) by (try exact HP; lia). cbn. iw. cbn. iw. cbn.
           rewrite (zset_app_off _ _ _ 1) by (try exact HP1; lia). cbn. iw. cbn. iw. cbn.
           rewrite (zset_app_off _ _ _ 2) by (try exact HP2; lia). cbn. iw. cbn.
           apply Hfin. rewrite Hfp. reflexivity.
        -- iw. cbn. rewrite Hg. cbn.
           rewrite (zset_app_off _ _ _ 0) by (try exact HP; lia). cbn. iw. cbn. iw. cbn.
           rewrite (zset_app_off _ _ _ 1) by (try exact HP1; lia). cbn. iw. cbn. iw. cbn.
           rewrite (zset_app_off _ _ _ 2) by (try exact HP2; lia). cbn. iw. cbn.
           apply Hfin. rewrite Hfp. reflexivity.
      * cbn.
        rewrite !truth_b2z, Hg. cbn. rewrite ?truth_b2z, ?b2z_truth_b2z, or_ok. cbn. rewrite truth_b2z.
        destruct ((down' <? 0) || (c =? outlet)) eqn:Hc2; cbn.
        -- iw. cbn. rewrite Hg. cbn.
           rewrite (zset_app_off _ _ _ 0) by (try exact HP; lia). cbn. iw. cbn. iw. cbn.
           rewrite (zset_app_off _ _ _ 1) by (try exact HP1; lia). cbn. iw. cbn. iw. cbn.
           rewrite (zset_app_off _ _ _ 2) by (try exact HP2; lia). cbn. iw. cbn.
           apply Hfin. rewrite Hfp. reflexivity.
        -- iw. cbn. rewrite Hg. cbn.
           rewrite (zset_app_off _ _ _ 0) by (try exact HP; lia). cbn. iw. cbn. iw. cbn.
           rewrite (zset_app_off _ _ _ 1) by (try exact HP1; lia). cbn. iw. cbn. iw. cbn.
           rewrite (zset_app_off _ _ _ 2) by (try exact HP2; lia). cbn. iw. cbn.
           apply Hfin. rewrite Hfp. reflexivity.
  - exists [], area, junk, ied0, ipath0, sq0, len0, up0, down0.
    repeat split; try assumption.
  - lia.
Qed.

End Flow.

(* c_delineate_flowpathlengths_in_catchment on program_chk: the conclusion of
   refine_delineate_flowpathlengths_in_catchment_with (RefineRiver.v), under its hypotheses plus
   - INT64_MIN <= nrows*ncols <= INT64_MAX, needed as soon as idxcells_area holds a cell
     number >= 0: c_downstream computes  idxcell >= nrows*ncols  in long long for every cell
     number >= 0 it is given (|| is lazy: not for a negative one).  The wrapper passes
     flowdir.shape, so nrows*ncols is the number of elements of an array in memory;
   - 3*nval - 1 <= INT64_MAX: the largest index flowpathlengths[3*i+2], i = nval-1, computed in
     long long (the buffer holds 3*nval doubles in memory).  It implies that i++ (<= nval),
     ipath++ inside the while loop (<= nval) and the ipath++ after it (<= nval+1) fit.
   No hypothesis on the cell numbers of idxcells_area, on idxcell_outlet or on the contents of
   flowdir / flowdircode. *)
Theorem chk_refine_delineate_flowpathlengths_in_catchment_with
        nrows ncols codes fd area outlet junk n :
  nofZ N 0 = n0 N ->
  List.length codes = 9%nat ->
  nrows * ncols <= Z.of_nat (List.length fd) ->
  List.length junk = (3 * List.length area)%nat ->
  ((exists c, In c area /\ 0 <= c) -> INT64_MIN <= nrows * ncols <= INT64_MAX) ->
  3 * MiniC.zlen area - 1 <= INT64_MAX ->
  (Nat.max (List.length area) 12 < n)%nat ->
  exec_fun N X program_chk (S n) "c_delineate_flowpathlengths_in_catchment"
    [AVI nrows; AVI ncols; AVArrI codes; AVArrI fd; AVI (MiniC.zlen area); AVArrI area;
     AVI outlet; AVArrF junk]
  = Ok (RI 0, [VArrI codes; VArrI fd; VArrI area;
               VArrF (fp_flat N (flowpaths_with N codes nrows ncols fd outlet area))]).
Proof.
  intros HZ Hcodes Hfd Hjunk HM H3 Hn. cbn.
  match goal with |- context[loop n _ _ ?s] =>
    change s with (RefineRiver.fpst nrows ncols codes fd area outlet 0 0 0 (nofZ N 0) (nofZ N 0) 0 0 junk) end.
  assert (HM' : forall c, In c area -> 0 <= c -> INT64_MIN <= nrows * ncols <= INT64_MAX)
    by (intros c Hin Hc; apply HM; exists c; split; assumption).
  destruct (chk_fp_outer nrows ncols codes fd area outlet Hcodes Hfd HM' H3 n junk 0 0 (nofZ N 0) (nofZ N 0) 0 0
              HZ Hjunk) as (r & Hr & (ied & ipath & sq & len & up & down & ->)); [lia|lia|].
  unfold chk_fp_obody, chk_fp_wbody in Hr. cbn [seq] in Hr. rewrite Hr. cbn. reflexivity.
Qed.

End FlowPaths.

(* the same statement about the model of Model/Catchment.v (direction codes = FLOWDIRCODE,
   the only table the Python layer ever passes) *)
Theorem chk_refine_delineate_flowpathlengths_in_catchment {T} (N : NumOps T) (X : NumLit T)
        nrows ncols fd area outlet junk n :
  nofZ N 0 = n0 N ->
  nrows * ncols <= Z.of_nat (List.length fd) ->
  List.length junk = (3 * List.length area)%nat ->
  ((exists c, In c area /\ 0 <= c) -> INT64_MIN <= nrows * ncols <= INT64_MAX) ->
  3 * MiniC.zlen area - 1 <= INT64_MAX ->
  (Nat.max (List.length area) 12 < n)%nat ->
  exec_fun N X program_chk (S n) "c_delineate_flowpathlengths_in_catchment"
    [AVI nrows; AVI ncols; AVArrI FLOWDIRCODE; AVArrI fd; AVI (MiniC.zlen area); AVArrI area;
     AVI outlet; AVArrF junk]
  = Ok (RI 0, [VArrI FLOWDIRCODE; VArrI fd; VArrI area;
               VArrF (fp_flat N (flowpaths N nrows ncols fd outlet area))]).
Proof.
  intros HZ Hfd Hjunk HM H3 Hn. rewrite <- flowpaths_with_model.
  apply chk_refine_delineate_flowpathlengths_in_catchment_with; try assumption. reflexivity.
Qed.

(* necessity of the hypothesis on nrows*ncols: all the hypotheses of the source theorem hold
   (9 codes, nrows*ncols = -2^64 <= 0 = len(flowdir), 3 doubles for 1 cell) and the checked
   program overflows in  idxcell >= nrows*ncols  (c_downstream).  Admissible for the C
   prototype (two long long), not for the wrapper, which passes the shape of an array. *)
Lemma overflow_flowpathlengths_ncells {T} (N : NumOps T) (X : NumLit T) n a b c :
  exec_fun N X program_chk (S (S (S n))) "c_delineate_flowpathlengths_in_catchment"
    [AVI (-4294967296); AVI 4294967296; AVArrI FLOWDIRCODE; AVArrI []; AVI 1; AVArrI [0];
     AVI 0; AVArrF [a; b; c]]
  = Err (Overflow false (-18446744073709551616)).
Proof. reflexivity. Qed.

(* ================================================================== *)
(* Part 3: c_delineate_river                                            *)
(* ================================================================== *)

(* what the loop body computes from the current cell [cur] (a cell of the grid) and the
   answer [d] of c_downstream (-2, -1 or a cell of the grid):
     nx1 = cur % ncols;  ny1 = (cur - nx1) / ncols;  nx2 = d % ncols;  ny2 = (d - nx2) / ncols;
     nx1 - nx2;  ny1 - ny2
   all fit a long long when nrows*ncols + 1 does: for d = -2 and |ncols| > 2, nx2 = -2 and
   nx1 - nx2 = nx1 + 2 <= |ncols| + 1. *)
Lemma rv_p4_bounds nrows ncols cur d :
  nrows * ncols + 1 <= INT64_MAX ->
  valid_cell nrows ncols cur = true ->
  (d = -2 \/ d = -1 \/ valid_cell nrows ncols d = true) ->
  ncols <> 0 /\
  INT64_MIN <= cur - getnx ncols cur <= INT64_MAX /\
  INT64_MIN <= getny ncols cur <= INT64_MAX /\
  INT64_MIN <= d - getnx ncols d <= INT64_MAX /\
  INT64_MIN <= getny ncols d <= INT64_MAX /\
  INT64_MIN <= getnx ncols cur - getnx ncols d <= INT64_MAX /\
  INT64_MIN <= getny ncols cur - getny ncols d <= INT64_MAX.
Proof.
  intros HM Hv Hd. apply valid_cell_range in Hv.
  destruct (valid_cell_facts nrows ncols cur Hv ltac:(lia))
    as (Hnc & Hr & Hcn & Hx & Hxa & Hy & Hpos & Hneg).
  split; [exact Hnc|].
  assert (Hd' : (-2 <= d <= -1) \/ valid_cell nrows ncols d = true) by (destruct Hd as [->|[->|H]]; [left; lia|left; lia|right; exact H]).
  clear Hd. destruct Hd' as [Hd|Hd].
  - pose proof (rem_abs_le d ncols Hnc) as R. pose proof (quot_abs_le d ncols Hnc) as Q.
    rewrite (getny_quot ncols d Hnc). unfold getnx in *.
    repeat split; lia.
  - apply valid_cell_range in Hd.
    destruct (valid_cell_facts nrows ncols d Hd ltac:(lia))
      as (_ & _ & _ & Hx' & Hxa' & Hy' & Hpos' & Hneg').
    destruct (Z.lt_total 0 ncols) as [Hp|[Hz|Hn]]; [|lia|].
    + specialize (Hpos Hp). specialize (Hpos' Hp). repeat split; lia.
    + specialize (Hneg Hn). specialize (Hneg' Hn). repeat split; lia.
Qed.

Section RiverKernel.
Context {T : Type} (N : NumOps T) (X : NumLit T).

#[local] Arguments river_loop_with : simpl never.
#[local] Arguments downstream_with : simpl never.
#[local] Arguments getcoord : simpl never.

Section River.
Variables nrows ncols : Z.
Variables xll yll csz : T.
Variables codes fd : list Z.
Variable nval : Z.
Hypothesis Hcodes : List.length codes = 9%nat.
Hypothesis Hfd : nrows * ncols <= Z.of_nat (List.length fd).
Hypothesis Hhalf : nlit X (0x1.0000000000000p-1)%float 1 2 = nhalf N.
(* the size hypotheses *)
Hypothesis HM : nrows * ncols + 1 <= INT64_MAX.
Hypothesis H5 : 5 * nval - 1 <= INT64_MAX.

Notation rvst := (@RefineRiver.rvst T nrows ncols xll yll csz codes fd nval).

Definition chk_rv_p1 : list stmt :=
[(SStoreI "idxcells" (IVar "i") (IVar "idxupstream"));
(SStoreI "npoints" (IConst 0) (IChk W64 (IBin IAdd (IArr "npoints" (IConst 0)) (IConst 1))));
(SStoreI "idxup" (IConst 0) (IVar "idxupstream"));
(SCall DNone "c_downstream" [(AI (IVar "nrows")); (AI (IVar "ncols")); (AArrI "flowdircode" (IConst 0)); (AArrI "flowdir" (IConst 0)); (AI (IConst 1)); (AArrI "idxup" (IConst 0)); (AArrI "idxdown" (IConst 0))])].
Definition chk_rv_p2 : list stmt :=
[(SSetF "dist" (FBin FAdd (FVar "dist") (FUn FSqrt (FBin FAdd (FBin FMul (FVar "dx") (FVar "dx")) (FBin FMul (FVar "dy") (FVar "dy"))))));
(SStoreF "data" (IChk W64 (IBin IMul (IVar "ncolsdata") (IVar "i"))) (FVar "dist"));
(SStoreF "data" (IChk W64 (IBin IAdd (IChk W64 (IBin IMul (IVar "ncolsdata") (IVar "i"))) (IConst 1))) (FVar "dx"));
(SStoreF "data" (IChk W64 (IBin IAdd (IChk W64 (IBin IMul (IVar "ncolsdata") (IVar "i"))) (IConst 2))) (FVar "dy"))].
Definition chk_rv_p3 : list stmt :=
[(SCall (DI "ierr") "getcoord" [(AI (IVar "nrows")); (AI (IVar "ncols")); (AF (FVar "xll")); (AF (FVar "yll")); (AF (FVar "csz")); (AI (IArr "idxup" (IConst 0))); (AArrF "xy" (IConst 0))]);
(SIf (ICmp CGt (IVar "ierr") (IConst 0))
(SRetI (IChk W32 (IBin IAdd (IConst 60000) (IConst 1))))
SSkip);
(SStoreF "data" (IChk W64 (IBin IAdd (IChk W64 (IBin IMul (IVar "ncolsdata") (IVar "i"))) (IConst 3))) (FArr "xy" (IConst 0)));
(SStoreF "data" (IChk W64 (IBin IAdd (IChk W64 (IBin IMul (IVar "ncolsdata") (IVar "i"))) (IConst 4))) (FArr "xy" (IConst 1)))].
Definition chk_rv_p4 : list stmt :=
[(SSetI "nx1" (IBin IRem (IVar "idxupstream") (IVar "ncols")));
(SSetI "ny1" (IChk W64 (IBin IDiv (IChk W64 (IBin ISub (IVar "idxupstream") (IVar "nx1"))) (IVar "ncols"))));
(SSetI "nx2" (IBin IRem (IArr "idxdown" (IConst 0)) (IVar "ncols")));
(SSetI "ny2" (IChk W64 (IBin IDiv (IChk W64 (IBin ISub (IArr "idxdown" (IConst 0)) (IVar "nx2"))) (IVar "ncols"))));
(SSetF "dx" (FOfInt (IChk W64 (IBin ISub (IVar "nx1") (IVar "nx2")))));
(SSetF "dy" (FOfInt (IChk W64 (IBin ISub (IVar "ny1") (IVar "ny2")))));
(SSetI "idxupstream" (IArr "idxdown" (IConst 0)));
(SIf (ICmp CLt (IVar "idxupstream") (IConst 0))
(SRetI (IConst 0))
SSkip)].
Definition chk_rv_body : stmt := seq (chk_rv_p1 ++ chk_rv_p2 ++ chk_rv_p3 ++ chk_rv_p4).

Lemma valid_prod cur : valid_cell nrows ncols cur = true -> 0 < nrows * ncols.
Proof. intros Hv. apply valid_cell_range in Hv. lia. Qed.

(* npoints[0]++ is checked: [np + 1] must fit *)
Lemma chk_rv_p1_run n cur k ierr nx1 ny1 nx2 ny2 dx dy dist np cdone c0 ctodo iu idn data x y :
  (12 < n)%nat -> valid_cell nrows ncols cur = true -> List.length cdone = k ->
  INT64_MIN <= np + 1 <= INT64_MAX ->
  exec N X (exec_fun N X program_chk n) n (seq chk_rv_p1)
    (rvst cur (Z.of_nat k) ierr nx1 ny1 nx2 ny2 dx dy dist [np] (cdone ++ c0 :: ctodo) iu idn data x y)
  = Ok (ONormal,
        rvst cur (Z.of_nat k) ierr nx1 ny1 nx2 ny2 dx dy dist [np + 1] (cdone ++ cur :: ctodo) cur
             (ds_result nrows ncols codes fd cur) data x y).
Proof.
  intros Hn Hv Hk Hnp. pose proof (valid_prod cur Hv) as Hpos.
  assert (HM2 : INT64_MIN <= nrows * ncols <= INT64_MAX) by lia.
  pose proof (chk_downstream1_run N X nrows ncols codes fd n cur idn
                (or_intror HM2) Hcodes Hfd ltac:(lia)) as Hrun.
  rewrite downstream_with_eq, Hv in Hrun.
  unfold RefineRiver.rvst, chk_rv_p1. cbn. rewrite (zset_app cdone) by lia. cbn. iw. cbn.
  rewrite !RefineRiver.zlen_ltb0. cbn.
  rewrite Hrun. cbn. reflexivity.
Qed.

(* the indices ncolsdata*i, ncolsdata*i+1, ncolsdata*i+2 are checked *)
Lemma chk_rv_p2_run (cf : callee T) n cur k ierr nx1 ny1 nx2 ny2 dx dy dist np cells iu idn ddone d0 d1 d2 rest x y :
  List.length ddone = (5 * k)%nat -> 5 * Z.of_nat k + 4 <= INT64_MAX ->
  exec N X cf n (seq chk_rv_p2)
    (rvst cur (Z.of_nat k) ierr nx1 ny1 nx2 ny2 dx dy dist np cells iu idn
          (ddone ++ d0 :: d1 :: d2 :: rest) x y)
  = Ok (ONormal,
        rvst cur (Z.of_nat k) ierr nx1 ny1 nx2 ny2 dx dy
             (nadd N dist (nsqrt N (nadd N (nmul N dx dx) (nmul N dy dy)))) np cells iu idn
             (ddone ++ nadd N dist (nsqrt N (nadd N (nmul N dx dx) (nmul N dy dy))) :: dx :: dy :: rest) x y).
Proof.
  intros Hdd Hk5.
  assert (HP0 : 5 * Z.of_nat k = Z.of_nat (List.length ddone) + 0) by lia.
  assert (HP1 : 5 * Z.of_nat k + 1 = Z.of_nat (List.length ddone) + 1) by lia.
  assert (HP2 : 5 * Z.of_nat k + 2 = Z.of_nat (List.length ddone) + 2) by lia.
  unfold RefineRiver.rvst, chk_rv_p2. cbn. iw. cbn.
  rewrite (zset_app_off ddone _ _ 0) by (try exact HP0; lia). cbn. iw. cbn. iw. cbn.
  rewrite (zset_app_off ddone _ _ 1) by (try exact HP1; lia). cbn. iw. cbn. iw. cbn.
  rewrite (zset_app_off ddone _ _ 2) by (try exact HP2; lia). cbn.
  reflexivity.
Qed.

Lemma chk_rv_p3_run n cur k ierr nx1 ny1 nx2 ny2 dx dy dist np cells idn ddone a b c d3 d4 rest x y :
  (12 < n)%nat -> valid_cell nrows ncols cur = true -> List.length ddone = (5 * k)%nat ->
  5 * Z.of_nat k + 4 <= INT64_MAX ->
  exec N X (exec_fun N X program_chk n) n (seq chk_rv_p3)
    (rvst cur (Z.of_nat k) ierr nx1 ny1 nx2 ny2 dx dy dist np cells cur idn
          (ddone ++ a :: b :: c :: d3 :: d4 :: rest) x y)
  = Ok (ONormal,
        rvst cur (Z.of_nat k) 0 nx1 ny1 nx2 ny2 dx dy dist np cells cur idn
             (ddone ++ a :: b :: c :: fst (getcoord N nrows ncols xll yll csz cur)
                    :: snd (getcoord N nrows ncols xll yll csz cur) :: rest)
             (fst (getcoord N nrows ncols xll yll csz cur)) (snd (getcoord N nrows ncols xll yll csz cur))).
Proof.
  intros Hn Hv Hdd Hk5.
  assert (HP3 : 5 * Z.of_nat k + 3 = Z.of_nat (List.length ddone) + 3) by lia.
  assert (HP4 : 5 * Z.of_nat k + 4 = Z.of_nat (List.length ddone) + 4) by lia.
  unfold RefineRiver.rvst, chk_rv_p3. cbn.
  rewrite (chk_getcoord_run N X n nrows ncols xll yll csz cur x y Hhalf ltac:(lia) Hv) by lia. cbn.
  iw. cbn. iw. cbn.
  rewrite (zset_app_off ddone _ _ 3) by (try exact HP3; lia). cbn. iw. cbn. iw. cbn.
  rewrite (zset_app_off ddone _ _ 4) by (try exact HP4; lia). cbn.
  reflexivity.
Qed.

Lemma chk_rv_p4_run (cf : callee T) n cur i ierr nx1 ny1 nx2 ny2 dx dy dist np cells iu d data x y :
  valid_cell nrows ncols cur = true ->
  (d = -2 \/ d = -1 \/ valid_cell nrows ncols d = true) ->
  exec N X cf n (seq chk_rv_p4)
    (rvst cur i ierr nx1 ny1 nx2 ny2 dx dy dist np cells iu d data x y)
  = Ok (if d <? 0 then ORet (RI 0) else ONormal,
        rvst d i ierr (getnx ncols cur) (getny ncols cur) (getnx ncols d) (getny ncols d)
             (nofZ N (getnx ncols cur - getnx ncols d)) (nofZ N (getny ncols cur - getny ncols d))
             dist np cells iu d data x y).
Proof.
  intros Hv Hd.
  destruct (rv_p4_bounds nrows ncols cur d HM Hv Hd) as (Hnc & B1 & B2 & B3 & B4 & B5 & B6).
  unfold getnx, getny in B1, B2, B3, B4, B5, B6.
  assert (E0 : (ncols =? 0) = false) by (apply Z.eqb_neq; exact Hnc).
  unfold RefineRiver.rvst, chk_rv_p4. cbn.
  repeat (progress (rewrite ?E0; cbn; iw)). rewrite truth_b2z.
  destruct (d <? 0); reflexivity.
Qed.

(* the for loop: by induction on the number [f] of iterations left, as rv_iter of
   RefineRiver.v.  i and npoints[0] are both [k <= nval]: i++ and npoints[0]++ fit;
   the largest index of data is 5*k+4 <= 5*nval-1. *)
Lemma chk_rv_iter n : (12 < n)%nat ->
  forall f lf k cur dist dx dy cdone ctodo ddone dtodo ierr nx1 ny1 nx2 ny2 iu idn x y,
  valid_cell nrows ncols cur = true ->
  List.length ctodo = f -> List.length dtodo = (5 * f)%nat ->
  List.length cdone = k -> List.length ddone = (5 * k)%nat ->
  nval = Z.of_nat (k + f) -> (f < lf)%nat ->
  let rows := river_loop_with N codes f nrows ncols xll yll csz fd cur dist dx dy in
  exists o cur' i' ierr' nx1' ny1' nx2' ny2' dx' dy' dist' iu' idn' x' y',
    loop lf (cond_of N X (ICmp CLt (IVar "i") (IVar "nval")))
      (for_body (exec N X (exec_fun N X program_chk n) n chk_rv_body)
         (exec N X (exec_fun N X program_chk n) n (SSetI "i" (IChk W64 (IBin IAdd (IVar "i") (IConst 1))))))
      (rvst cur (Z.of_nat k) ierr nx1 ny1 nx2 ny2 dx dy dist [Z.of_nat k] (cdone ++ ctodo) iu idn
            (ddone ++ dtodo) x y)
    = Ok (o, rvst cur' i' ierr' nx1' ny1' nx2' ny2' dx' dy' dist'
               [Z.of_nat (k + List.length rows)]
               (cdone ++ map (@rv_cell T) rows ++ skipn (List.length rows) ctodo) iu' idn'
               (ddone ++ flat_map (@rv_data T) rows ++ skipn (5 * List.length rows) dtodo) x' y')
    /\ (o = ONormal \/ o = ORet (RI 0)).
Proof.
  intros Hn. induction f as [|f IH];
    intros lf k cur dist dx dy cdone ctodo ddone dtodo ierr nx1 ny1 nx2 ny2 iu idn x y
           Hv Hct Hdt Hcd Hdd Hnval Hlf rows.
  - destruct lf as [|lf]; [lia|]. subst rows.
    destruct ctodo; [|discriminate]. destruct dtodo; [|discriminate].
    exists ONormal, cur, (Z.of_nat k), ierr, nx1, ny1, nx2, ny2, dx, dy, dist, iu, idn, x, y.
    split; [|left; reflexivity].
    unfold RefineRiver.rvst. cbn. replace (Z.of_nat k <? nval) with false by (symmetry; apply Z.ltb_ge; lia).
    cbn. rewrite Nat.add_0_r. reflexivity.
  - destruct lf as [|lf]; [lia|].
    assert (Hrows := river_loop_with_S N nrows ncols xll yll csz codes fd f cur dist dx dy).
    fold rows in Hrows. cbv zeta in Hrows.
    clearbody rows.
    assert (Hk5 : 5 * Z.of_nat k + 4 <= INT64_MAX) by lia.
    assert (Hk1 : INT64_MIN <= Z.of_nat k + 1 <= INT64_MAX) by lia.
    assert (Hcases := downstream_with_cases codes nrows ncols fd cur).
    assert (Hrange := downstream_with_range codes nrows ncols fd cur).
    rewrite downstream_with_eq, Hv in Hrange, Hrows, Hcases.
    set (d := ds_result nrows ncols codes fd cur) in *.
    specialize (Hcases d eq_refl).
    set (dist1 := nadd N dist (nsqrt N (nadd N (nmul N dx dx) (nmul N dy dy)))) in *.
    set (xy := getcoord N nrows ncols xll yll csz cur) in *.
    destruct ctodo as [|c0 ctodo]; [discriminate|].
    destruct dtodo as [|d0 [|d1 [|d2 [|d3 [|d4 dtodo]]]]]; try (cbn in Hdt; lia).
    cbn [loop].
    assert (Hcond : cond_of N X (ICmp CLt (IVar "i") (IVar "nval"))
              (rvst cur (Z.of_nat k) ierr nx1 ny1 nx2 ny2 dx dy dist [Z.of_nat k] (cdone ++ c0 :: ctodo)
                 iu idn (ddone ++ d0 :: d1 :: d2 :: d3 :: d4 :: dtodo) x y) = Ok true).
    { unfold RefineRiver.rvst. cbn. replace (Z.of_nat k <? nval) with true by (symmetry; apply Z.ltb_lt; lia).
      reflexivity. }
    rewrite Hcond. unfold for_body at 1. unfold chk_rv_body at 1.
    rewrite exec_seq_app by discriminate. rewrite (chk_rv_p1_run n) by assumption.
    rewrite exec_seq_app by discriminate. rewrite chk_rv_p2_run by assumption.
    rewrite exec_seq_app by discriminate. rewrite (chk_rv_p3_run n) by assumption.
    rewrite chk_rv_p4_run by assumption.
    fold d dist1 xy.
    destruct (d <? 0) eqn:Hneg.
    + exists (ORet (RI 0)), d, (Z.of_nat k), 0, (getnx ncols cur), (getny ncols cur), (getnx ncols d),
        (getny ncols d), (nofZ N (getnx ncols cur - getnx ncols d)),
        (nofZ N (getny ncols cur - getny ncols d)), dist1, cur, d, (fst xy), (snd xy).
      split; [|right; reflexivity]. rewrite Hrows.
      cbn [List.length map flat_map rv_cell rv_data fst snd app skipn Nat.mul Nat.add].
      replace (Z.of_nat k + 1) with (Z.of_nat (k + 1)) by lia. reflexivity.
    + assert (Hstep : exec N X (exec_fun N X program_chk n) n (SSetI "i" (IChk W64 (IBin IAdd (IVar "i") (IConst 1))))
                (rvst d (Z.of_nat k) 0 (getnx ncols cur) (getny ncols cur) (getnx ncols d) (getny ncols d)
                   (nofZ N (getnx ncols cur - getnx ncols d)) (nofZ N (getny ncols cur - getny ncols d))
                   dist1 [Z.of_nat k + 1] (cdone ++ cur :: ctodo) cur d
                   (ddone ++ dist1 :: dx :: dy :: fst xy :: snd xy :: dtodo) (fst xy) (snd xy))
              = Ok (ONormal,
                  rvst d (Z.of_nat (S k)) 0 (getnx ncols cur) (getny ncols cur) (getnx ncols d) (getny ncols d)
                   (nofZ N (getnx ncols cur - getnx ncols d)) (nofZ N (getny ncols cur - getny ncols d))
                   dist1 [Z.of_nat (S k)] ((cdone ++ [cur]) ++ ctodo) cur d
                   ((ddone ++ [dist1; dx; dy; fst xy; snd xy]) ++ dtodo) (fst xy) (snd xy))).
      { unfold RefineRiver.rvst. cbn. iw. cbn. rewrite <- !app_assoc. cbn [app].
        replace (Z.of_nat k + 1) with (Z.of_nat (S k)) by lia. reflexivity. }
      rewrite Hstep. clear Hstep.
      destruct (IH lf (S k) d dist1 (nofZ N (getnx ncols cur - getnx ncols d))
                  (nofZ N (getny ncols cur - getny ncols d)) (cdone ++ [cur]) ctodo
                  (ddone ++ [dist1; dx; dy; fst xy; snd xy]) dtodo 0 (getnx ncols cur) (getny ncols cur)
                  (getnx ncols d) (getny ncols d) cur d (fst xy) (snd xy))
        as (o & cur' & i' & ierr' & nx1' & ny1' & nx2' & ny2' & dx' & dy' & dist' & iu' & idn' & x' & y'
            & Hloop & Ho).
      { apply (Hrange d eq_refl). apply Z.ltb_ge. exact Hneg. }
      { cbn in Hct. lia. }
      { cbn in Hdt. lia. }
      { rewrite app_length. cbn. lia. }
      { rewrite app_length. cbn. lia. }
      { lia. }
      { lia. }
      rewrite Hloop. clear Hloop.
      exists o, cur', i', ierr', nx1', ny1', nx2', ny2', dx', dy', dist', iu', idn', x', y'.
      split; [|exact Ho]. rewrite Hrows.
      remember (river_loop_with N codes f nrows ncols xll yll csz fd d dist1
                 (nofZ N (getnx ncols cur - getnx ncols d)) (nofZ N (getny ncols cur - getny ncols d)))
        as rows' eqn:Hrows'.
      cbn [List.length].
      match goal with |- context[skipn ?m (d0 :: d1 :: d2 :: d3 :: d4 :: dtodo)] =>
        replace (skipn m (d0 :: d1 :: d2 :: d3 :: d4 :: dtodo)) with (skipn (5 * List.length rows') dtodo)
          by (rewrite <- (skipn5_cons d0 d1 d2 d3 d4 dtodo); f_equal; lia) end.
      cbn [map flat_map rv_cell rv_data fst snd skipn app].
      replace (S k + List.length rows')%nat with (k + S (List.length rows'))%nat by lia.
      rewrite <- !app_assoc. reflexivity.
Qed.

End River.

(* the function body in four segments; rv_fA and rv_fB (declarations, initialisations: no
   integer arithmetic) are the same statements as in the unchecked program *)
Definition chk_rv_fchk : list stmt :=
[(SIf (IOr (ICmp CLt (IVar "idxupstream") (IConst 0)) (ICmp CGt (IVar "idxupstream") (IChk W64 (IBin ISub (IChk W64 (IBin IMul (IVar "nrows") (IVar "ncols"))) (IConst 1)))))
(SRetI (IChk W32 (IBin IAdd (IConst 60000) (IConst 1))))
SSkip)].
Definition chk_rv_fC : list stmt :=
[(SFor (ICmp CLt (IVar "i") (IVar "nval"))
   (SSetI "i" (IChk W64 (IBin IAdd (IVar "i") (IConst 1)))) chk_rv_body);
 (SRetI (IConst 0))].

Lemma chk_rv_fun_unfold nrows ncols xll yll csz codes fd start nval np0 cjunk djunk n :
  exec_fun N X program_chk (S n) "c_delineate_river"
    [AVI nrows; AVI ncols; AVF xll; AVF yll; AVF csz; AVArrI codes; AVArrI fd; AVI start;
     AVI nval; AVArrI [np0]; AVArrI cjunk; AVArrF djunk]
  = match exec N X (exec_fun N X program_chk n) n
            (seq (rv_fA ++ chk_rv_fchk ++ rv_fB ++ chk_rv_fC))
            (rv_st0 nrows ncols xll yll csz codes fd start nval np0 cjunk djunk) with
    | Ok (ORet v, st) =>
        do o <- out_arrays [PI "nrows"; PI "ncols"; PF "xll"; PF "yll"; PF "csz"; PArrI "flowdircode";
                            PArrI "flowdir"; PI "idxupstream"; PI "nval"; PArrI "npoints";
                            PArrI "idxcells"; PArrF "data"] st; Ok (v, o)
    | Ok (_, _) => Err (BadRet "c_delineate_river")
    | Err e => Err e
    end.
Proof. reflexivity. Qed.

(* nrows*ncols - 1 is computed only when idxupstream >= 0 (|| is lazy) *)
Lemma chk_rv_fchk_run (cf : callee T) n nrows ncols xll yll csz codes fd start nval np cells data x y :
  (0 <= start -> INT64_MIN <= nrows * ncols - 1 /\ nrows * ncols <= INT64_MAX) ->
  exec N X cf n (seq chk_rv_fchk)
    (RefineRiver.rvst nrows ncols xll yll csz codes fd nval start 0 0 0 0 0 0 (n0 N) (n0 N) (n0 N)
          np cells 0 0 data x y)
  = Ok (if valid_cell nrows ncols start then ONormal else ORet (RI 60001),
        RefineRiver.rvst nrows ncols xll yll csz codes fd nval start 0 0 0 0 0 0 (n0 N) (n0 N) (n0 N)
          np cells 0 0 data x y).
Proof.
  intros HM. rewrite <- (negb_involutive (valid_cell nrows ncols start)), <- start_check.
  unfold chk_rv_fchk, RefineRiver.rvst. cbn.
  destruct (start <? 0) eqn:Hneg.
  - cbn. reflexivity.
  - apply Z.ltb_ge in Hneg. destruct (HM Hneg) as [H1 H2].
    cbn. iw. cbn. iw. cbn. rewrite truth_b2z.
    destruct (nrows * ncols - 1 <? start); reflexivity.
Qed.

(* c_delineate_river on program_chk: the conclusion of refine_delineate_river_with
   (RefineRiver.v), under its hypotheses plus
   - when idxupstream >= 0:  INT64_MIN <= nrows*ncols - 1  and  nrows*ncols + 1 <= INT64_MAX.
     The kernel computes nrows*ncols-1 (its own validity test) and c_downstream computes
     nrows*ncols, in long long; the "+ 1" is needed by  dx = (double)(nx1-nx2)  when the
     downstream cell is -2 (no flow direction): nx2 = -2 % ncols = -2 and nx1 can be ncols-1
     (the wrapper passes flowdir.shape: nrows*ncols is the size of an array in memory);
   - 5*nval - 1 <= INT64_MAX: the largest index data[ncolsdata*i+4], i = nval-1 (data holds
     5*nval doubles in memory).  It implies that i++ and npoints[0]++ (both <= nval) fit.
   No hypothesis on the contents of flowdir / flowdircode. *)
Theorem chk_refine_delineate_river_with nrows ncols xll yll csz codes fd start np0 cjunk djunk n :
  nofZ N 0 = n0 N ->
  nlit X (0x1.0000000000000p-1)%float 1 2 = nhalf N ->
  List.length codes = 9%nat ->
  nrows * ncols <= Z.of_nat (List.length fd) ->
  List.length djunk = (5 * List.length cjunk)%nat ->
  (0 <= start -> INT64_MIN <= nrows * ncols - 1 /\ nrows * ncols + 1 <= INT64_MAX) ->
  5 * MiniC.zlen cjunk - 1 <= INT64_MAX ->
  (Nat.max (List.length cjunk) 12 < n)%nat ->
  match river_with N codes nrows ncols xll yll csz fd start (MiniC.zlen cjunk) with
  | Some rows =>
      exec_fun N X program_chk (S n) "c_delineate_river"
        [AVI nrows; AVI ncols; AVF xll; AVF yll; AVF csz; AVArrI codes; AVArrI fd; AVI start;
         AVI (MiniC.zlen cjunk); AVArrI [np0]; AVArrI cjunk; AVArrF djunk]
      = Ok (RI 0, [VArrI codes; VArrI fd; VArrI [Z.of_nat (List.length rows)];
                   VArrI (map (@rv_cell T) rows ++ skipn (List.length rows) cjunk);
                   VArrF (flat_map (@rv_data T) rows ++ skipn (5 * List.length rows) djunk)])
  | None =>
      exists code, 0 < code /\
      exec_fun N X program_chk (S n) "c_delineate_river"
        [AVI nrows; AVI ncols; AVF xll; AVF yll; AVF csz; AVArrI codes; AVArrI fd; AVI start;
         AVI (MiniC.zlen cjunk); AVArrI [np0]; AVArrI cjunk; AVArrF djunk]
      = Ok (RI code, [VArrI codes; VArrI fd; VArrI [np0]; VArrI cjunk; VArrF djunk])
  end.
Proof.
  intros HZ Hhalf Hcodes Hfd Hd HM H5 Hn. unfold river_with.
  rewrite chk_rv_fun_unfold.
  rewrite exec_seq_app by discriminate. rewrite rv_fA_run by exact HZ.
  rewrite exec_seq_app by discriminate.
  rewrite chk_rv_fchk_run by (intros H0; destruct (HM H0); split; lia).
  destruct (valid_cell nrows ncols start) eqn:Hv.
  - assert (HM1 : nrows * ncols + 1 <= INT64_MAX)
      by (apply valid_cell_range in Hv; destruct (HM ltac:(lia)); assumption).
    rewrite exec_seq_app by discriminate. rewrite rv_fB_run by exact HZ.
    destruct (chk_rv_iter nrows ncols xll yll csz codes fd (MiniC.zlen cjunk) Hcodes Hfd Hhalf HM1 H5
                n ltac:(lia)
                (List.length cjunk) n 0%nat start (n0 N) (n0 N) (n0 N) [] cjunk [] djunk
                0 0 0 0 0 0 0 (n0 N) (n0 N) Hv eq_refl Hd eq_refl eq_refl)
      as (o & cur' & i' & ierr' & nx1' & ny1' & nx2' & ny2' & dx' & dy' & dist' & iu' & idn' & x' & y'
          & Hloop & Ho); [rewrite zlen_eq; reflexivity|lia|].
    replace (Z.to_nat (MiniC.zlen cjunk)) with (List.length cjunk) by (rewrite zlen_eq; lia).
    cbn [app] in Hloop. change (Z.of_nat 0) with 0 in Hloop.
    unfold chk_rv_fC. cbn [seq]. cbn [exec]. rewrite Hloop.
    destruct Ho as [-> | ->]; cbn; reflexivity.
  - exists 60001. split; [lia|]. cbn. reflexivity.
Qed.

End RiverKernel.

(* the same statement about the model of Model/Catchment.v (direction codes = FLOWDIRCODE) *)
Theorem chk_refine_delineate_river {T} (N : NumOps T) (X : NumLit T)
        nrows ncols xll yll csz fd start np0 cjunk djunk n :
  nofZ N 0 = n0 N ->
  nlit X (0x1.0000000000000p-1)%float 1 2 = nhalf N ->
  nrows * ncols <= Z.of_nat (List.length fd) ->
  List.length djunk = (5 * List.length cjunk)%nat ->
  (0 <= start -> INT64_MIN <= nrows * ncols - 1 /\ nrows * ncols + 1 <= INT64_MAX) ->
  5 * MiniC.zlen cjunk - 1 <= INT64_MAX ->
  (Nat.max (List.length cjunk) 12 < n)%nat ->
  match river N nrows ncols xll yll csz fd start (MiniC.zlen cjunk) with
  | Some rows =>
      exec_fun N X program_chk (S n) "c_delineate_river"
        [AVI nrows; AVI ncols; AVF xll; AVF yll; AVF csz; AVArrI FLOWDIRCODE; AVArrI fd; AVI start;
         AVI (MiniC.zlen cjunk); AVArrI [np0]; AVArrI cjunk; AVArrF djunk]
      = Ok (RI 0, [VArrI FLOWDIRCODE; VArrI fd; VArrI [Z.of_nat (List.length rows)];
                   VArrI (map (@rv_cell T) rows ++ skipn (List.length rows) cjunk);
                   VArrF (flat_map (@rv_data T) rows ++ skipn (5 * List.length rows) djunk)])
  | None =>
      exists code, 0 < code /\
      exec_fun N X program_chk (S n) "c_delineate_river"
        [AVI nrows; AVI ncols; AVF xll; AVF yll; AVF csz; AVArrI FLOWDIRCODE; AVArrI fd; AVI start;
         AVI (MiniC.zlen cjunk); AVArrI [np0]; AVArrI cjunk; AVArrF djunk]
      = Ok (RI code, [VArrI FLOWDIRCODE; VArrI fd; VArrI [np0]; VArrI cjunk; VArrF djunk])
  end.
Proof.
  intros HZ Hhalf Hfd Hd HM H5 Hn. rewrite <- river_with_model.
  apply chk_refine_delineate_river_with; try assumption. reflexivity.
Qed.

(* necessity of the hypothesis on nrows*ncols: all the hypotheses of the source theorem hold
   (nrows*ncols = -2^64 <= 0 = len(flowdir)) and the kernel's own validity test
   idxupstream > nrows*ncols-1  overflows.  Admissible for the C prototype, not for the
   wrapper (shape of an array). *)
Lemma overflow_delineate_river_ncells {T} (N : NumOps T) (X : NumLit T) n xll yll csz np0 :
  exec_fun N X program_chk (S n) "c_delineate_river"
    [AVI (-4294967296); AVI 4294967296; AVF xll; AVF yll; AVF csz; AVArrI FLOWDIRCODE; AVArrI [];
     AVI 0; AVI 0; AVArrI [np0]; AVArrI []; AVArrF []]
  = Err (Overflow false (-18446744073709551616)).
Proof. reflexivity. Qed.

(* ================================================================== *)
(* Part 4: c_delineate_area                                             *)
(* ================================================================== *)

(* c_upstream on one cell of the grid (nval = 1), as called by c_delineate_area: from the
   checked refinement theorem of Proofs/ChkFlow.v.  Checked: nrows*ncols, 9*i+k, 9*i+j, 8-j,
   i++, j++, k++. *)
Lemma chk_upstream_run1 {T} (N : NumOps T) (X : NumLit T) n nrows ncols codes fd c up :
  0 <= ncols -> 0 <= c < nrows * ncols ->
  List.length codes = 9%nat -> Z.of_nat (List.length fd) = nrows * ncols ->
  List.length up = 9%nat ->
  nrows * ncols <= INT64_MAX ->
  (12 < n)%nat ->
  exec_fun N X program_chk (S n) "c_upstream"
    [AVI nrows; AVI ncols; AVArrI codes; AVArrI fd; AVI 1; AVArrI [c]; AVArrI up]
  = Ok (RI 0, [VArrI codes; VArrI fd; VArrI [c];
               VArrI (pad9 (upstream_hits_with codes nrows ncols fd c))]).
Proof.
  intros Hnc0 Hv Hcodes Hfd Hup HM Hn.
  pose proof (ChkFlow.chk_refine_upstream N X nrows ncols codes fd HM [c] up
                [pad9 (upstream_hits_with codes nrows ncols fd c)] n Hcodes Hfd) as H.
  cbn [List.concat] in H. rewrite app_nil_r in H. apply H.
  - rewrite Hup. reflexivity.
  - cbn. lia.
  - constructor; [|constructor]. unfold RefineFlow.upstream_with, valid_cell.
    replace (c <? 0) with false by (symmetry; apply Z.ltb_ge; lia).
    replace (nrows * ncols <=? c) with false by (symmetry; apply Z.leb_gt; lia).
    reflexivity.
  - cbn. lia.
  - lia.
Qed.

(* the same statement under the name pattern of the refinement theorems *)
Definition chk_refine_c_upstream_one := @chk_upstream_run1.

Lemma chk_upstream_run1' {T} (N : NumOps T) (X : NumLit T) n nrows ncols codes fd c up :
  0 <= ncols -> 0 <= c < nrows * ncols ->
  List.length codes = 9%nat -> Z.of_nat (List.length fd) = nrows * ncols ->
  List.length up = 9%nat ->
  nrows * ncols <= INT64_MAX ->
  (13 < n)%nat ->
  exec_fun N X program_chk n "c_upstream"
    [AVI nrows; AVI ncols; AVArrI codes; AVArrI fd; AVI 1; AVArrI [c]; AVArrI up]
  = Ok (RI 0, [VArrI codes; VArrI fd; VArrI [c];
               VArrI (pad9 (upstream_hits_with codes nrows ncols fd c))]).
Proof.
  intros H1 H2 H3 H4 H5 H6 Hn. destruct n as [|n]; [lia|]. apply chk_upstream_run1; try assumption. lia.
Qed.

#[local] Arguments pad9 : simpl never.
#[local] Arguments upstream_hits_with : simpl never.
#[local] Arguments upstream_hits : simpl never.
#[local] Arguments neighbours_raw : simpl never.
#[local] Arguments next_layer : simpl never.
#[local] Arguments is_inlet : simpl never.
#[local] Arguments valid_cell : simpl never.
#[local] Arguments skipn : simpl nomatch.
#[local] Arguments firstn : simpl nomatch.

Section Area.
Context {T : Type} (N : NumOps T) (X : NumLit T).
Variables nrows ncols outlet nval : Z.
Variables codes fd inlets area0 : list Z.

Hypothesis Hcodes : codes = FLOWDIRCODE.
Hypothesis Hncols : 0 <= ncols.
Hypothesis Hfd : Z.of_nat (List.length fd) = nrows * ncols.
Hypothesis Harea0 : Z.of_nat (List.length area0) = nval.
(* the size hypotheses: the number of cells, ninlets and nval are long long *)
Hypothesis HM : nrows * ncols <= INT64_MAX.
Hypothesis Hni : Z.of_nat (List.length inlets) <= INT64_MAX.
Hypothesis Hnv : nval <= INT64_MAX.

Notation da_state := (@RefineArea.da_state T nrows ncols outlet nval codes fd inlets).
Notation da_any := (@RefineArea.da_any T nrows ncols outlet nval codes fd inlets).
Notation chk_inv := (@RefineArea.chk_inv T nrows ncols outlet nval codes fd inlets).
Notation chk_post := (@RefineArea.chk_post T nrows ncols outlet nval codes fd inlets).
Notation srch_inv := (@RefineArea.srch_inv T nrows ncols outlet nval codes fd inlets).
Notation srch_post := (@RefineArea.srch_post T nrows ncols outlet nval codes fd inlets).
Notation keep := (RefineArea.keep inlets).
Notation k_inv := (@RefineArea.k_inv T nrows ncols outlet nval codes fd inlets area0).
Notation k_post := (@RefineArea.k_post T nrows ncols outlet nval codes fd inlets area0).
Notation l_inv := (@RefineArea.l_inv T nrows ncols outlet nval codes fd inlets area0).
Notation l_post := (@RefineArea.l_post T nrows ncols outlet nval codes fd inlets area0).
Notation w_inv := (@RefineArea.w_inv T nrows ncols outlet nval codes fd inlets area0).
Notation w_post := (@RefineArea.w_post T nrows ncols outlet nval codes fd inlets area0).
Notation buf_loop := (RefineArea.buf_loop nrows ncols fd inlets).
Notation area_bufs := (RefineArea.area_bufs nrows ncols outlet nval fd inlets).
Notation da_rejected := (RefineArea.da_rejected nrows ncols outlet nval inlets).
Notation da_spec := (@RefineArea.da_spec T nrows ncols outlet nval fd inlets area0).
Notation da_args := (@RefineArea.da_args T nrows ncols outlet nval codes fd inlets area0).
Notation NL := (next_layer nrows ncols fd inlets).
Notation valid c := (0 <= c < nrows * ncols).

Lemma ncells_nonneg : 0 <= nrows * ncols.
Proof. lia. Qed.

(* ---- loop 1: for(m=0; m<ninlets; m++) if(idxinlets[m] outside the grid) return ERROR ---- *)
(* checked: m++ (<= ninlets), nrows*ncols - 1 (only for an inlet >= 0), ERROR + __LINE__ (int) *)
Lemma c_chk_loop (callf : callee T) n c area b1 b2 cell up :
  0 <= c <= 100000 -> (List.length inlets < n)%nat ->
  exists r,
    loop n (cond_of N X (ICmp CLt (IVar "m") (IVar "ninlets")))
      (for_body
         (exec N X callf n
            (SIf
               (IOr (ICmp CLt (IArr "idxinlets" (IVar "m")) (IConst 0))
                  (ICmp CGt (IArr "idxinlets" (IVar "m"))
                     (IChk W64 (IBin ISub (IChk W64 (IBin IMul (IVar "nrows") (IVar "ncols")))
                        (IConst 1)))))
               (SRetI (IChk W32 (IBin IAdd (IConst 60000) (IConst c)))) SSkip))
         (exec N X callf n
            (SSetI "m" (IChk W64 (IBin IAdd (IVar "m") (IConst 1))))))
      (da_state 0 0 0 0 0 0 0 0 area b1 b2 cell up) = Ok r
    /\ chk_post area b1 b2 cell up r.
Proof.
  intros Hc Hn. pose proof ncells_nonneg as Hnn.
  apply (loop_rule (chk_inv area b1 b2 cell up) (chk_post area b1 b2 cell up)
           (List.length inlets)) with (k := O).
  - intros k st (done & todo & Hp & Hk & Hd & ->).
    assert (Hlen : List.length inlets = (k + List.length todo)%nat)
      by (rewrite Hp, app_length; lia).
    split; [lia|].
    unfold RefineArea.da_state. cbn.
    destruct todo as [|x todo].
    + replace (Z.of_nat k <? Z.of_nat (List.length inlets)) with false
        by (symmetry; apply Z.ltb_ge; cbn in Hlen; lia).
      cbn. left. rewrite app_nil_r in Hp. rewrite Hp at 1. split; [exact Hd|].
      unfold RefineArea.da_state. replace (List.length inlets) with k by (cbn in Hlen; lia). reflexivity.
    + replace (Z.of_nat k <? Z.of_nat (List.length inlets)) with true
        by (symmetry; apply Z.ltb_lt; cbn in Hlen; lia).
      assert (Hg : zget inlets (Z.of_nat k) = Some x)
        by (rewrite Hp; apply zget_app; lia).
      assert (Hk1 : Z.of_nat k + 1 <= Z.of_nat (List.length inlets)) by (cbn in Hlen; lia).
      cbn. rewrite Hg. cbn. iw. cbn. iw. cbn. rewrite ?truth_b2z, ?b2z_truth_b2z, ?or_ok. cbn.
      rewrite truth_b2z.
      assert (Hvx : valid_cell nrows ncols x = negb ((x <? 0) || (nrows * ncols - 1 <? x)))
        by apply valid_cell_c.
      destruct ((x <? 0) || (nrows * ncols - 1 <? x)) eqn:Hx; cbn.
      * iw. cbn. right. split.
        { rewrite Hp, forallb_app. cbn [forallb]. rewrite Hvx. cbn. apply andb_false_r. }
        exists (60000 + c), (Z.of_nat k). split; [lia|]. reflexivity.
      * iw. cbn. exists (done ++ [x]), todo.
        split; [rewrite <- app_assoc; exact Hp|].
        split; [rewrite app_length; cbn; lia|].
        split; [rewrite forallb_app, Hd; cbn [forallb]; rewrite Hvx; reflexivity|].
        norm_state. unfold RefineArea.da_state.
        replace (Z.of_nat k + 1) with (Z.of_nat (S k)) by lia. reflexivity.
  - exists [], inlets. repeat split.
  - lia.
Qed.

(* ---- the search loop: for(m=0; m<ninlets; m++) if(idxinlets[m]==idx) break ---- *)
Lemma c_srch_loop (callf : callee T) n i k l idx nb1 nb2 nlayer area b1 b2 cell up :
  (List.length inlets < n)%nat ->
  exists r,
    loop n (cond_of N X (ICmp CLt (IVar "m") (IVar "ninlets")))
      (for_body
         (exec N X callf n
            (SIf (ICmp CEq (IArr "idxinlets" (IVar "m")) (IVar "idx")) SBreak SSkip))
         (exec N X callf n
            (SSetI "m" (IChk W64 (IBin IAdd (IVar "m") (IConst 1))))))
      (da_state i k l 0 idx nb1 nb2 nlayer area b1 b2 cell up) = Ok r
    /\ srch_post i k l idx nb1 nb2 nlayer area b1 b2 cell up r.
Proof.
  intros Hn.
  apply (loop_rule (srch_inv i k l idx nb1 nb2 nlayer area b1 b2 cell up)
           (srch_post i k l idx nb1 nb2 nlayer area b1 b2 cell up)
           (List.length inlets)) with (k := O).
  - intros j st (done & todo & Hp & Hj & Hd & ->).
    assert (Hlen : List.length inlets = (j + List.length todo)%nat)
      by (rewrite Hp, app_length; lia).
    split; [lia|].
    unfold RefineArea.da_state. cbn.
    destruct todo as [|x todo].
    + replace (Z.of_nat j <? Z.of_nat (List.length inlets)) with false
        by (symmetry; apply Z.ltb_ge; cbn in Hlen; lia).
      cbn. exists (Z.of_nat j). split.
      * reflexivity.
      * left. split; [cbn in Hlen; lia|]. unfold is_inlet. rewrite app_nil_r in Hp.
        rewrite Hp. exact Hd.
    + replace (Z.of_nat j <? Z.of_nat (List.length inlets)) with true
        by (symmetry; apply Z.ltb_lt; cbn in Hlen; lia).
      assert (Hg : zget inlets (Z.of_nat j) = Some x)
        by (rewrite Hp; apply zget_app; lia).
      assert (Hj1 : Z.of_nat j + 1 <= Z.of_nat (List.length inlets)) by (cbn in Hlen; lia).
      cbn. rewrite Hg. cbn. rewrite truth_b2z.
      destruct (x =? idx) eqn:Hx; cbn.
      * exists (Z.of_nat j). split; [reflexivity|]. right.
        split; [cbn in Hlen; lia|]. unfold is_inlet. rewrite Hp, existsb_app. cbn [existsb].
        rewrite (Z.eqb_sym idx x), Hx. cbn. apply orb_true_r.
      * iw. cbn. exists (done ++ [x]), todo.
        split; [rewrite <- app_assoc; exact Hp|].
        split; [rewrite app_length; cbn; lia|].
        split; [rewrite existsb_app, Hd; cbn [existsb]; rewrite (Z.eqb_sym idx x), Hx; reflexivity|].
        norm_state. unfold RefineArea.da_state.
        replace (Z.of_nat j + 1) with (Z.of_nat (S j)) by lia. reflexivity.
  - exists [], inlets. repeat split.
  - lia.
Qed.

(* ---- the loop over the nine entries of idxup ---- *)
(* checked: k++ (<= 9), m++, nval-1 (nval >= 1 here), nbuffer2++ and i++ (<= nval - 1 + 1),
   ERROR + __LINE__ (int) *)
Definition cs_srch : stmt :=
  SIf (ICmp CEq (IArr "idxinlets" (IVar "m")) (IVar "idx")) SBreak SSkip.
Definition cs_minc : stmt := SSetI "m" (IChk W64 (IBin IAdd (IVar "m") (IConst 1))).
Definition cs_store (c1 c2 : Z) : stmt :=
  SSeq (SIf (ICmp CEq (IVar "i") (IChk W64 (IBin ISub (IVar "nval") (IConst 1))))
          (SRetI (IChk W32 (IBin IAdd (IConst 60000) (IConst c1)))) SSkip)
  (SSeq (SStoreI "idxcells_area" (IVar "i") (IVar "idx"))
  (SSeq (SStoreI "buffer2" (IVar "nbuffer2") (IVar "idx"))
  (SSeq (SIf (ICmp CEq (IVar "nbuffer2") (IChk W64 (IBin ISub (IVar "nval") (IConst 1))))
           (SRetI (IChk W32 (IBin IAdd (IConst 60000) (IConst c2)))) SSkip)
  (SSeq (SSetI "nbuffer2" (IChk W64 (IBin IAdd (IVar "nbuffer2") (IConst 1))))
        (SSetI "i" (IChk W64 (IBin IAdd (IVar "i") (IConst 1)))))))).
Definition cs_kbody (c1 c2 : Z) : stmt :=
  SSeq (SSetI "idx" (IArr "idxup" (IVar "k")))
    (SIf (ICmp CGe (IVar "idx") (IConst 0))
       (SSeq (SSetI "m" (IConst 0))
          (SSeq (SFor (ICmp CLt (IVar "m") (IVar "ninlets")) cs_minc cs_srch)
             (SIf (ICmp CEq (IVar "m") (IVar "ninlets")) (cs_store c1 c2) SSkip)))
       SSkip).
Definition cs_kinc : stmt := SSetI "k" (IChk W64 (IBin IAdd (IVar "k") (IConst 1))).

Lemma c_k_loop (callf : callee T) n c1 c2 l nb1 nlayer b1 b20 cell ups A B m0 idx0 :
  0 <= c1 <= 100000 -> 0 <= c2 <= 100000 ->
  Z.of_nat (List.length area0) = nval -> Z.of_nat (List.length b20) = nval ->
  List.length ups = 9%nat -> (List.length B <= List.length A)%nat ->
  Z.of_nat (List.length A) <= nval - 1 ->
  (List.length inlets < n)%nat -> (9 < n)%nat ->
  exists r,
    loop n (cond_of N X (ICmp CLt (IVar "k") (IConst 9)))
      (for_body (exec N X callf n (cs_kbody c1 c2)) (exec N X callf n cs_kinc))
      (da_state (Z.of_nat (List.length A)) 0 l m0 idx0 nb1 (Z.of_nat (List.length B)) nlayer
         (ov A area0) b1 (ov B b20) cell ups) = Ok r
    /\ k_post l nb1 nlayer b1 b20 cell ups A B r.
Proof.
  intros Hc1 Hc2 Ha0 Hb0 Hups HBA HA Hn Hn9.
  apply (loop_rule (k_inv l nb1 nlayer b1 b20 cell ups A B)
           (k_post l nb1 nlayer b1 b20 cell ups A B) 9) with (k := O).
  - intros kk st (done & todo & A' & B' & m & idx & Hp & Hkk & HA' & HB' & HA'le & ->).
    assert (Hlen : (kk + List.length todo = 9)%nat)
      by (rewrite <- Hups, Hp, app_length; lia).
    assert (HBA' : (List.length B' <= List.length A')%nat)
      by (rewrite HA', HB', !app_length; lia).
    split; [lia|].
    unfold RefineArea.da_state, cs_kbody, cs_kinc, cs_store, cs_srch, cs_minc. cbn.
    destruct todo as [|x todo].
    + replace (Z.of_nat kk <? 9) with false by (symmetry; apply Z.ltb_ge; cbn in Hlen; lia).
      cbn. rewrite app_nil_r in Hp. rewrite <- Hp in HA', HB'. unfold RefineArea.k_post. rewrite <- HA', <- HB'.
      left. split; [exact HA'le|]. exists m, idx. unfold RefineArea.da_state.
      replace (Z.of_nat kk) with 9 by (cbn in Hlen; lia). reflexivity.
    + replace (Z.of_nat kk <? 9) with true by (symmetry; apply Z.ltb_lt; cbn in Hlen; lia).
      assert (Hkk9 : Z.of_nat kk + 1 <= 9) by (cbn in Hlen; lia).
      assert (Hg : zget ups (Z.of_nat kk) = Some x) by (rewrite Hp; apply zget_app; lia).
      assert (Hsn : filter keep (done ++ [x]) = filter keep done ++ (if keep x then [x] else []))
        by apply filter_snoc.
      assert (Hp' : ups = (done ++ [x]) ++ todo) by (rewrite <- app_assoc; exact Hp).
      cbn. rewrite Hg. cbn. rewrite truth_b2z.
      destruct (0 <=? x) eqn:Hx0; cbn.
      * (* a cell: is it an inlet? *)
        fold_loop_state n (da_state (Z.of_nat (List.length A')) (Z.of_nat kk) l 0 x nb1
                             (Z.of_nat (List.length B')) nlayer (ov A' area0) b1 (ov B' b20) cell ups).
        destruct (c_srch_loop callf n (Z.of_nat (List.length A')) (Z.of_nat kk) l x nb1
                    (Z.of_nat (List.length B')) nlayer (ov A' area0) b1 (ov B' b20) cell ups Hn)
          as (r & Hr & mm & -> & Hmm).
        rewrite Hr. unfold RefineArea.da_state. cbn. rewrite truth_b2z.
        destruct Hmm as [[-> Hin]|[Hlt Hin]].
        -- rewrite Z.eqb_refl. cbn. iw. cbn. rewrite truth_b2z.
           assert (Hkx : keep x = true) by (unfold RefineArea.keep; rewrite Hx0, Hin; reflexivity).
           destruct (Z.of_nat (List.length A') =? nval - 1) eqn:Hfull; cbn.
           ++ (* the area buffer is full *)
              iw. cbn. right. split.
              ** apply Z.eqb_eq in Hfull. rewrite Hp, filter_app. cbn [filter]. rewrite Hkx.
                 rewrite HA', !app_length in Hfull. rewrite !app_length. cbn [List.length]. lia.
              ** exists (60000 + c1). eexists. split; [lia|]. split; [reflexivity|].
                 unfold RefineArea.da_any, RefineArea.da_state. repeat eexists.
           ++ apply Z.eqb_neq in Hfull.
              destruct (ov_split A' area0) as (y & Ey); [lia|].
              destruct (ov_split B' b20) as (z & Ez); [lia|].
              rewrite Ey, Ez.
              rewrite (zset_app A') by reflexivity. cbn.
              rewrite (zset_app B') by reflexivity. cbn. iw. cbn.
              replace (Z.of_nat (List.length B') =? nval - 1) with false
                by (symmetry; apply Z.eqb_neq; lia).
              cbn. iw. cbn. iw. cbn. iw. cbn.
              exists (done ++ [x]), todo, (A' ++ [x]), (B' ++ [x]), (Z.of_nat (List.length inlets)), x.
              split; [exact Hp'|]. split; [rewrite app_length; cbn; lia|].
              split; [rewrite Hsn, Hkx, app_assoc, <- HA'; reflexivity|].
              split; [rewrite Hsn, Hkx, app_assoc, <- HB'; reflexivity|].
              split; [rewrite app_length; cbn; lia|].
              norm_state. unfold RefineArea.da_state. rewrite !ov_snoc, !app_length. cbn [List.length].
              replace (Z.of_nat kk + 1) with (Z.of_nat (S kk)) by lia.
              replace (Z.of_nat (List.length A') + 1) with (Z.of_nat (List.length A' + 1)) by lia.
              replace (Z.of_nat (List.length B') + 1) with (Z.of_nat (List.length B' + 1)) by lia.
              reflexivity.
        -- replace (mm =? Z.of_nat (List.length inlets)) with false
             by (symmetry; apply Z.eqb_neq; lia).
           cbn. iw. cbn.
           assert (Hkx : keep x = false) by (unfold RefineArea.keep; rewrite Hx0, Hin; reflexivity).
           exists (done ++ [x]), todo, A', B', mm, x.
           split; [exact Hp'|]. split; [rewrite app_length; cbn; lia|].
           split; [rewrite Hsn, Hkx, app_nil_r; exact HA'|].
           split; [rewrite Hsn, Hkx, app_nil_r; exact HB'|].
           split; [exact HA'le|].
           norm_state. unfold RefineArea.da_state.
           replace (Z.of_nat kk + 1) with (Z.of_nat (S kk)) by lia. reflexivity.
      * iw. cbn.
        assert (Hkx : keep x = false) by (unfold RefineArea.keep; rewrite Hx0; reflexivity).
        exists (done ++ [x]), todo, A', B', m, x.
        split; [exact Hp'|]. split; [rewrite app_length; cbn; lia|].
        split; [rewrite Hsn, Hkx, app_nil_r; exact HA'|].
        split; [rewrite Hsn, Hkx, app_nil_r; exact HB'|].
        split; [exact HA'le|].
        norm_state. unfold RefineArea.da_state.
        replace (Z.of_nat kk + 1) with (Z.of_nat (S kk)) by lia. reflexivity.
  - exists [], ups, A, B, m0, idx0. cbn [filter]. rewrite !app_nil_r.
    repeat split; try reflexivity. exact HA.
  - lia.
Qed.

(* ---- the copy loop: for(l=0; l<nbuffer2; l++) buffer1[l] = buffer2[l] ---- *)
(* checked: l++ (<= nbuffer2 <= len(buffer1) = nval) *)
Lemma c_copy_loop (callf : callee T) n i k m idx nb1 nlayer area b1 layer b2rest cell up :
  (List.length layer <= List.length b1)%nat -> (List.length layer < n)%nat ->
  Z.of_nat (List.length b1) <= INT64_MAX ->
  loop n (cond_of N X (ICmp CLt (IVar "l") (IVar "nbuffer2")))
    (for_body
       (exec N X callf n (SStoreI "buffer1" (IVar "l") (IArr "buffer2" (IVar "l"))))
       (exec N X callf n (SSetI "l" (IChk W64 (IBin IAdd (IVar "l") (IConst 1))))))
    (da_state i k 0 m idx nb1 (Z.of_nat (List.length layer)) nlayer area b1 (layer ++ b2rest) cell up)
  = Ok (ONormal,
        da_state i k (Z.of_nat (List.length layer)) m idx nb1 (Z.of_nat (List.length layer)) nlayer
          area (ov layer b1) (layer ++ b2rest) cell up).
Proof.
  intros Hb1 Hn Hb1max.
  apply (loop_rule_eq
           (fun j st => exists done todo, layer = done ++ todo /\ List.length done = j /\
              st = da_state i k (Z.of_nat j) m idx nb1 (Z.of_nat (List.length layer)) nlayer
                     area (ov done b1) (layer ++ b2rest) cell up)
           _ (List.length layer)).
  - intros j st (done & todo & Hp & Hj & ->).
    assert (Hlen : List.length layer = (j + List.length todo)%nat)
      by (rewrite Hp, app_length; lia).
    split; [lia|].
    unfold RefineArea.da_state. cbn.
    destruct todo as [|x todo].
    + replace (Z.of_nat j <? Z.of_nat (List.length layer)) with false
        by (symmetry; apply Z.ltb_ge; cbn in Hlen; lia).
      rewrite app_nil_r in Hp. rewrite <- Hp.
      replace (List.length layer) with j by (cbn in Hlen; lia). reflexivity.
    + replace (Z.of_nat j <? Z.of_nat (List.length layer)) with true
        by (symmetry; apply Z.ltb_lt; cbn in Hlen; lia).
      assert (Hj1 : Z.of_nat j + 1 <= Z.of_nat (List.length layer)) by (cbn in Hlen; lia).
      assert (Hg : zget (layer ++ b2rest) (Z.of_nat j) = Some x).
      { rewrite Hp, <- app_assoc. apply (zget_app done (todo ++ b2rest) x). lia. }
      cbn. rewrite Hg. cbn.
      destruct (ov_split done b1) as (y & Ey); [cbn in Hlen; lia|].
      rewrite Ey. rewrite (zset_app done) by lia. cbn. iw. cbn.
      exists (done ++ [x]), todo.
      split; [rewrite <- app_assoc; exact Hp|].
      split; [rewrite app_length; cbn; lia|].
      norm_state. unfold RefineArea.da_state. rewrite ov_snoc.
      replace (Z.of_nat j + 1) with (Z.of_nat (S j)) by lia. reflexivity.
  - exists [], layer. repeat split.
  - lia.
Qed.

(* ---- the loop over the cells of one layer ---- *)
Definition cs_lbody (c1 c2 : Z) : stmt :=
  SSeq (SStoreI "idxcell" (IConst 0) (IArr "buffer1" (IVar "l")))
    (SSeq
       (SCall DNone "c_upstream"
          [AI (IVar "nrows"); AI (IVar "ncols"); AArrI "flowdircode" (IConst 0);
           AArrI "flowdir" (IConst 0); AI (IConst 1); AArrI "idxcell" (IConst 0);
           AArrI "idxup" (IConst 0)])
       (SSeq (SSetI "k" (IConst 0))
          (SFor (ICmp CLt (IVar "k") (IConst 9)) cs_kinc (cs_kbody c1 c2)))).
Definition cs_linc : stmt := SSetI "l" (IChk W64 (IBin IAdd (IVar "l") (IConst 1))).

(* the facts about the model proved in Section Area of RefineArea.v *)
Lemma a_keep_pad9 b :
  valid b ->
  filter keep (pad9 (upstream_hits_with codes nrows ncols fd b))
  = filter (fun x => negb (is_inlet inlets x)) (upstream_hits nrows ncols fd b).
Proof. intros Hb. exact (RefineArea.keep_pad9 nrows ncols codes fd inlets area0 Hcodes Hncols b Hb). Qed.

Lemma a_NL_valid layer x : (forall b, In b layer -> valid b) -> In x (NL layer) -> valid x.
Proof. exact (RefineArea.NL_valid nrows ncols fd inlets area0 Hncols layer x). Qed.

(* checked: l++ (<= nbuffer1 = the length of the layer) *)
Lemma c_l_loop n c1 c2 nlayer layer b1rest b20 A k0 m0 idx0 c00 up0 :
  0 <= c1 <= 100000 -> 0 <= c2 <= 100000 ->
  Z.of_nat (List.length b20) = nval ->
  (forall b, In b layer -> valid b) ->
  Z.of_nat (List.length A) <= nval - 1 ->
  List.length up0 = 9%nat ->
  Z.of_nat (List.length layer) <= INT64_MAX ->
  (List.length inlets < n)%nat -> (List.length layer < n)%nat -> (13 < n)%nat ->
  exists r,
    loop n (cond_of N X (ICmp CLt (IVar "l") (IVar "nbuffer1")))
      (for_body (exec N X (exec_fun N X program_chk n) n (cs_lbody c1 c2))
                (exec N X (exec_fun N X program_chk n) n cs_linc))
      (da_state (Z.of_nat (List.length A)) k0 0 m0 idx0 (Z.of_nat (List.length layer)) 0 nlayer
         (ov A area0) (layer ++ b1rest) b20 [c00] up0) = Ok r
    /\ l_post nlayer layer b1rest b20 A r.
Proof.
  intros Hc1 Hc2 Hb0 Hval HA Hup0 Hlmax Hn Hnl Hn13.
  assert (Hc9 : List.length codes = 9%nat) by (rewrite Hcodes; reflexivity).
  apply (loop_rule (l_inv nlayer layer b1rest b20 A) (l_post nlayer layer b1rest b20 A)
           (List.length layer)) with (k := O).
  - intros j st (done & todo & k & m & idx & c0 & up & Hp & Hj & Hup & HAle & ->).
    assert (Hlen : List.length layer = (j + List.length todo)%nat)
      by (rewrite Hp, app_length; lia).
    split; [lia|].
    unfold RefineArea.da_state, cs_lbody, cs_linc. cbn.
    destruct todo as [|b todo].
    + replace (Z.of_nat j <? Z.of_nat (List.length layer)) with false
        by (symmetry; apply Z.ltb_ge; cbn in Hlen; lia).
      cbn. unfold RefineArea.l_post. rewrite app_nil_r in Hp. subst done.
      left. split; [exact HAle|]. exists k, m, idx, c0, up. split; [exact Hup|].
      unfold RefineArea.da_state. rewrite <- Hj. reflexivity.
    + replace (Z.of_nat j <? Z.of_nat (List.length layer)) with true
        by (symmetry; apply Z.ltb_lt; cbn in Hlen; lia).
      assert (Hj1 : Z.of_nat j + 1 <= Z.of_nat (List.length layer)) by (cbn in Hlen; lia).
      assert (Hg : zget (layer ++ b1rest) (Z.of_nat j) = Some b).
      { rewrite Hp, <- app_assoc. apply (zget_app done (todo ++ b1rest) b). lia. }
      assert (Hvb : valid b) by (apply Hval; rewrite Hp; apply in_or_app; right; left; reflexivity).
      cbn. rewrite Hg. cbn.
      do 4 (rewrite ?RefineRiver.zlen_ltb0; cbn).
      rewrite (chk_upstream_run1' N X n nrows ncols codes fd b up Hncols Hvb Hc9 Hfd Hup HM Hn13).
      cbn.
      set (ups := pad9 (upstream_hits_with codes nrows ncols fd b)).
      assert (Hups : List.length ups = 9%nat).
      { subst ups. unfold pad9. rewrite app_length, repeat_length.
        pose proof (hits_length codes nrows ncols fd b). lia. }
      assert (Hkeep : filter keep ups
                      = filter (fun x => negb (is_inlet inlets x)) (upstream_hits nrows ncols fd b))
        by (apply a_keep_pad9; exact Hvb).
      fold_loop_state n (da_state (Z.of_nat (List.length (A ++ NL done))) 0 (Z.of_nat j) m idx
                           (Z.of_nat (List.length layer)) (Z.of_nat (List.length (NL done))) nlayer
                           (ov (A ++ NL done) area0) (layer ++ b1rest) (ov (NL done) b20) [b] ups).
      destruct (c_k_loop (exec_fun N X program_chk n) n c1 c2 (Z.of_nat j) (Z.of_nat (List.length layer))
                  nlayer (layer ++ b1rest) b20 [b] ups (A ++ NL done) (NL done) m idx
                  Hc1 Hc2 Harea0 Hb0 Hups) as (r & Hr & HP);
        [rewrite app_length; lia|exact HAle|exact Hn|lia|].
      rewrite Hr.
      assert (Hnl_eq : NL layer = (NL done ++ filter keep ups) ++ NL todo).
      { rewrite Hp. change (b :: todo) with ([b] ++ todo). rewrite app_assoc, NL_app, NL_snoc, Hkeep.
        reflexivity. }
      destruct HP as [(Hle & m' & idx' & ->)|(Hgt & code & st' & Hcode & -> & Hany)].
      * unfold RefineArea.da_state. cbn. iw. cbn.
        exists (done ++ [b]), todo, 9, m', idx', b, ups.
        split; [rewrite <- app_assoc; exact Hp|].
        split; [rewrite app_length; cbn; lia|].
        split; [exact Hups|].
        rewrite NL_snoc, <- Hkeep, app_assoc.
        split; [rewrite <- app_assoc in Hle |- *; exact Hle|].
        norm_state. unfold RefineArea.da_state.
        replace (Z.of_nat j + 1) with (Z.of_nat (S j)) by lia.
        rewrite <- !app_assoc. reflexivity.
      * cbn. right. split.
        -- rewrite Hnl_eq. rewrite !app_length in Hgt. rewrite !app_length. lia.
        -- exists code, st'. auto.
  - exists [], layer, k0, m0, idx0, c00, up0.
    split; [reflexivity|]. split; [reflexivity|]. split; [exact Hup0|].
    change (NL []) with (@nil Z). rewrite app_nil_r. split; [exact HA|]. reflexivity.
  - lia.
Qed.

(* ---- the while loop: one iteration per layer ---- *)

(* checked: nlayer++ (<= the number of cells stored <= nval), nval-1, i++, ERROR + __LINE__ *)
Definition cs_wbody (c1 c2 c3 : Z) : stmt :=
  SSeq (SSetI "l" (IConst 0))
 (SSeq (SFor (ICmp CLt (IVar "l") (IVar "nbuffer2")) cs_linc
          (SStoreI "buffer1" (IVar "l") (IArr "buffer2" (IVar "l"))))
 (SSeq (SSetI "nbuffer1" (IVar "nbuffer2"))
 (SSeq (SSetI "nbuffer2" (IConst 0))
 (SSeq (SSetI "l" (IConst 0))
 (SSeq (SFor (ICmp CLt (IVar "l") (IVar "nbuffer1")) cs_linc (cs_lbody c1 c2))
 (SSeq (SIf (ICmp CEq (IVar "nbuffer2") (IConst 0)) (SRetI (IConst 0)) SSkip)
 (SSeq (SIf (ICmp CEq (IVar "nlayer") (IConst 0))
          (SSeq (SIf (ICmp CEq (IVar "i") (IChk W64 (IBin ISub (IVar "nval") (IConst 1))))
                   (SRetI (IChk W32 (IBin IAdd (IConst 60000) (IConst c3)))) SSkip)
             (SSeq (SStoreI "idxcells_area" (IVar "i") (IVar "idxoutlet"))
                (SSetI "i" (IChk W64 (IBin IAdd (IVar "i") (IConst 1))))))
          SSkip)
       (SSetI "nlayer" (IChk W64 (IBin IAdd (IVar "nlayer") (IConst 1))))))))))).



Lemma c_w_loop n c1 c2 c3 R BF st0 :
  0 <= c1 <= 100000 -> 0 <= c2 <= 100000 -> 0 <= c3 <= 100000 -> R <> DFuel ->
  w_inv R BF 0 st0 ->
  (List.length inlets < n)%nat -> (Z.to_nat nval < n)%nat -> (13 < n)%nat ->
  exists r,
    loop n (cond_of N X (ICmp CGe (IVar "nlayer") (IConst 0)))
      (exec N X (exec_fun N X program_chk n) n (cs_wbody c1 c2 c3)) st0 = Ok r
    /\ w_post R BF r.
Proof.
  intros Hc1 Hc2 Hc3 HR Hst0 Hn Hnvf Hn13.
  apply (loop_rule (w_inv R BF) (w_post R BF) (Z.to_nat nval)) with (k := O); [|exact Hst0|lia].
  intros k st (f & layer & A & kk & l & m & idx & nb1 & b1 & b2rest & c0 & up &
               -> & Hb1 & Hb2 & Hup & Hval & HkA & HA & Hmodel & Hbuf).
  split; [lia|].
  destruct f as [|f]; [cbn in Hmodel; congruence|].
  cbn [area_loop] in Hmodel. unfold Catchment.zlen in Hmodel. cbn [RefineArea.buf_loop] in Hbuf.
  assert (Hll : (List.length layer <= List.length b1)%nat) by (rewrite app_length in Hb2; lia).
  unfold RefineArea.da_state, cs_wbody. cbn.
  replace (0 <=? Z.of_nat k) with true by (symmetry; apply Z.leb_le; lia).
  cbn.
  fold_loop_state n (da_state (Z.of_nat (List.length A)) kk 0 m idx nb1 (Z.of_nat (List.length layer))
                       (Z.of_nat k) (ov A area0) b1 (layer ++ b2rest) [c0] up).
  rewrite (c_copy_loop (exec_fun N X program_chk n) n) by (try exact Hll; rewrite app_length in Hb2; lia).
  unfold RefineArea.da_state. cbn.
  fold_loop_state n (da_state (Z.of_nat (List.length A)) kk 0 m idx (Z.of_nat (List.length layer)) 0
                       (Z.of_nat k) (ov A area0) (layer ++ skipn (List.length layer) b1)
                       (layer ++ b2rest) [c0] up).
  destruct (c_l_loop n c1 c2 (Z.of_nat k) layer (skipn (List.length layer) b1) (layer ++ b2rest) A
              kk m idx c0 up Hc1 Hc2 Hb2 Hval HA Hup) as (r & Hr & HP);
    [rewrite app_length in Hb2; lia|exact Hn|rewrite app_length in Hb2; lia|exact Hn13|].
  rewrite Hr.
  assert (Hlenapp : Z.of_nat (List.length (A ++ NL layer))
                    = Z.of_nat (List.length A) + Z.of_nat (List.length (NL layer)))
    by (rewrite app_length; lia).
  destruct HP as [(Hle & k' & m' & idx' & c0' & up' & Hup' & ->)|(Hgt & code & st' & Hcode & -> & Hany)].
  2:{ (* the area buffer is exhausted inside the layer *)
      replace (nval <=? Z.of_nat (List.length A) + Z.of_nat (List.length (NL layer))) with true in Hmodel
        by (symmetry; apply Z.leb_le; lia).
      subst R. cbn. exists code, st'. auto. }
  replace (nval <=? Z.of_nat (List.length A) + Z.of_nat (List.length (NL layer))) with false in Hmodel
    by (symmetry; apply Z.leb_gt; lia).
  assert (Hvn : forall b, In b (NL layer) -> valid b) by (intros b Hb; apply (a_NL_valid layer b Hval Hb)).
  assert (Hb1' : Z.of_nat (List.length (layer ++ skipn (List.length layer) b1)) = nval)
    by (rewrite app_length, skipn_length; lia).
  destruct (NL layer) as [|x nxt] eqn:ENL.
  - (* nothing upstream of this layer: return 0 *)
    subst R BF. change (List.length (@nil Z)) with 0%nat. change (Z.of_nat 0) with 0.
    unfold RefineArea.da_state. cbn.
    exists k', (Z.of_nat (List.length layer)), m', idx', (Z.of_nat (List.length layer)), 0,
      (Z.of_nat k), c0', up'.
    reflexivity.
  - remember (x :: nxt) as nl eqn:Enl.
    assert (Hnlpos : (0 < List.length nl)%nat) by (rewrite Enl; cbn; lia).
    clear Enl.
    assert (Hb2' : Z.of_nat (List.length (nl ++ skipn (List.length nl) (layer ++ b2rest))) = nval)
      by (rewrite app_length, skipn_length; lia).
    assert (Hnl0 : (Z.of_nat (List.length nl) =? 0) = false) by (apply Z.eqb_neq; lia).
    assert (Hm2 : (if (k =? 0)%nat
                   then if Z.of_nat (List.length (A ++ nl)) =? nval - 1 then DErr
                        else area_loop f nrows ncols fd inlets outlet nval false nl ((A ++ nl) ++ [outlet])
                   else area_loop f nrows ncols fd inlets outlet nval false nl (A ++ nl)) = R)
      by exact Hmodel.
    clear Hmodel.
    destruct k as [|k0].
    + (* first layer: the outlet is added *)
      change (Z.of_nat 0) with 0. cbn [Nat.eqb] in Hm2.
      unfold RefineArea.da_state. cbn. rewrite truth_b2z, Hnl0. cbn. iw. cbn. rewrite truth_b2z.
      destruct (Z.of_nat (List.length (A ++ nl)) =? nval - 1) eqn:Hfull; cbn.
      * iw. cbn. subst R. cbn. exists (60000 + c3). eexists. split; [lia|]. split; [reflexivity|].
        unfold RefineArea.da_any, RefineArea.da_state. repeat eexists.
      * apply Z.eqb_neq in Hfull.
        destruct (ov_split (A ++ nl) area0) as (y & Ey); [lia|].
        rewrite Ey. rewrite (zset_app (A ++ nl)) by reflexivity. cbn. iw. cbn. iw. cbn.
        exists f, nl, ((A ++ nl) ++ [outlet]), k', (Z.of_nat (List.length layer)), m', idx',
          (Z.of_nat (List.length layer)), (layer ++ skipn (List.length layer) b1),
          (skipn (List.length nl) (layer ++ b2rest)), c0', up'.
        split.
        { norm_state. unfold RefineArea.da_state. rewrite ov_snoc, (app_length (A ++ nl) [outlet]).
          cbn [List.length].
          replace (Z.of_nat (List.length (A ++ nl)) + 1)
            with (Z.of_nat (List.length (A ++ nl) + 1)) by lia.
          reflexivity. }
        split; [exact Hb1'|]. split; [exact Hb2'|]. split; [exact Hup'|]. split; [exact Hvn|].
        split; [rewrite !app_length; cbn; lia|].
        split; [rewrite (app_length (A ++ nl)); cbn [List.length]; lia|].
        split; [exact Hm2|exact Hbuf].
    + cbn [Nat.eqb] in Hm2.
      unfold RefineArea.da_state. cbn. rewrite truth_b2z, Hnl0. cbn.
      replace (Z.of_nat (S k0) =? 0) with false by (symmetry; apply Z.eqb_neq; lia).
      cbn. iw. cbn.
      exists f, nl, (A ++ nl), k', (Z.of_nat (List.length layer)), m', idx',
        (Z.of_nat (List.length layer)), (layer ++ skipn (List.length layer) b1),
        (skipn (List.length nl) (layer ++ b2rest)), c0', up'.
      split.
      { norm_state. unfold RefineArea.da_state.
        replace (Z.of_nat (S k0) + 1) with (Z.of_nat (S (S k0))) by lia. reflexivity. }
      split; [exact Hb1'|]. split; [exact Hb2'|]. split; [exact Hup'|]. split; [exact Hvn|].
      split; [rewrite app_length; lia|]. split; [exact Hle|]. split; [exact Hm2|exact Hbuf].
Qed.

(* ---- the kernel ---- *)


(* final contents of the scratch buffers of a successful run *)

#[local] Arguments RefineArea.buf_loop : simpl never.
#[local] Arguments RefineArea.area_bufs : simpl never.

(* the inputs rejected before anything is written *)


Lemma c_da_exec n b10 b20 :
  List.length b10 = List.length area0 -> List.length b20 = List.length area0 ->
  (List.length inlets < n)%nat -> (List.length area0 < n)%nat -> (13 < n)%nat ->
  exists ret a b1 b2,
    exec_fun N X program_chk (S n) "c_delineate_area" (da_args b10 b20)
    = Ok (ret, [VArrI codes; VArrI fd; VArrI inlets; VArrI a; VArrI b1; VArrI b2])
    /\ da_spec b10 b20 ret a b1 b2.
Proof.
  intros Hl1 Hl2 Hn Hna Hn13.
  unfold RefineArea.da_spec, RefineArea.da_rejected.
  remember (delineate_area nrows ncols fd outlet inlets nval) as D eqn:ED.
  revert ED. revert D. intros D ED.
  unfold delineate_area in ED. unfold RefineArea.da_args.
  unfold_exec_fun. norm_state.
  do 10 step.
  (* if(nval<1) return ERROR *)
  rewrite (exec_seq_ifret N X _ n _ _ _ _ (b2z (nval <? 1))) by reflexivity.
  rewrite truth_b2z.
  destruct (nval <? 1) eqn:Env.
  { subst D. cbn. eexists. exists area0, b10, b20. split; [reflexivity|].
    eexists. split; [|split; [reflexivity|auto]]. lia. }
  (* if(idxoutlet<0 || idxoutlet>nrows*ncols-1) return ERROR *)
  pose proof ncells_nonneg as Hnn.
  rewrite (exec_seq_ifret N X _ n _ _ _ _ (b2z ((outlet <? 0) || (nrows * ncols - 1 <? outlet))))
    by (cbn; iw; cbn; iw; cbn; rewrite ?truth_b2z, ?b2z_truth_b2z, ?or_ok; reflexivity).
  rewrite truth_b2z.
  rewrite (valid_cell_c nrows ncols outlet) in ED.
  destruct ((outlet <? 0) || (nrows * ncols - 1 <? outlet)) eqn:Eo; cbn [negb] in ED.
  { subst D. cbn. eexists. exists area0, b10, b20. split; [reflexivity|].
    eexists. split; [|split; [reflexivity|auto]]. lia. }
  remember (area_loop (S (Z.to_nat nval)) nrows ncols fd inlets outlet nval true [outlet] []) as R eqn:ER.
  revert ED ER. revert R. intros R ED ER.
  assert (HR : R <> DFuel).
  { rewrite ER. apply Z.ltb_ge in Env.
    apply loop_fuel; unfold Catchment.zlen; cbn [List.length]; lia. }
  (* the inlets *)
  step.
  rewrite exec_seq_for.
  fold_loop_state n (da_state 0 0 0 0 0 0 0 0 area0 b10 b20 [0] [0;0;0;0;0;0;0;0;0]).
  match goal with
  | |- context[loop n ?c ?b ?s] =>
      assert (HL : exists r, loop n c b s = Ok r /\
                             chk_post area0 b10 b20 [0] [0;0;0;0;0;0;0;0;0] r)
  end.
  { eapply c_chk_loop; [lia|exact Hn]. }
  destruct HL as (r & Hr & [(Hall & ->)|(Hall & code & mm & Hcode & ->)]);
    rewrite Hr; rewrite Hall in ED; cbn [negb] in ED; cbv beta iota.
  2:{ subst D. cbn. exists (RI code), area0, b10, b20. split; [reflexivity|].
      exists code. split; [exact Hcode|split; [reflexivity|auto]]. }
  (* all the inputs are valid: buffer2[0] = idxoutlet, then the while loop *)
  destruct b20 as [|y b2r]; [cbn in Hl2; apply Z.ltb_ge in Env; lia|].
  unfold RefineArea.da_state.
  do 4 step.
  rewrite exec_seq_while.
  match goal with
  | |- context[loop n ?c ?b ?s] =>
      assert (HL : exists r, loop n c b s = Ok r /\ w_post R (area_bufs b10 (y :: b2r)) r)
  end.
  { apply Z.ltb_ge in Env.
    eapply c_w_loop; try exact HR; try exact Hn; try exact Hn13; try lia.
    exists (S (Z.to_nat nval)), [outlet], [], 0, 0, (Z.of_nat (List.length inlets)), 0, 0, b10, b2r, 0,
      [0;0;0;0;0;0;0;0;0].
    split; [reflexivity|].
    split; [lia|]. split; [cbn [app List.length] in Hl2 |- *; lia|]. split; [reflexivity|].
    split.
    { intros b [<-|[]]. apply orb_false_iff in Eo. destruct Eo as [E1 E2].
      apply Z.ltb_ge in E1, E2. lia. }
    split; [cbn; lia|]. split; [cbn [List.length]; lia|]. split; [symmetry; exact ER|reflexivity]. }
  destruct HL as (r2 & Hr2 & HP). rewrite Hr2.
  subst D. clear ER.
  destruct R as [| |res]; cbn in HP.
  - destruct HP as (code & st' & Hcode & -> & Hany).
    destruct Hany as (i & k & l & m & idx & nb1 & nb2 & nlayer & a & b1 & b2 & cell & up & ->).
    cbn. exists (RI code), a, b1, b2. split; [reflexivity|]. exists code.
    split; [exact Hcode|]. split; [reflexivity|].
    rewrite Hall, (valid_cell_c nrows ncols outlet), Eo. cbn. discriminate.
  - contradiction.
  - destruct HP as (kk & l & m & idx & nb1 & nb2 & nlayer & c0 & up & ->).
    cbn. exists (RI 0), (ov res area0), (fst (area_bufs b10 (y :: b2r))), (snd (area_bufs b10 (y :: b2r))).
    split; [reflexivity|]. split; [reflexivity|]. split; [reflexivity|].
    symmetry. apply surjective_pairing.
Qed.

End Area.

(* ================================================================== *)
(* c_delineate_area on program_chk = Model/Catchment.delineate_area      *)
(* ================================================================== *)

Section Main.
Context {T : Type} (N : NumOps T) (X : NumLit T).

(* the call made by the Cython wrapper (as da_call of RefineArea.v), on the checked program *)
Definition chk_da_call (n : nat) (nrows ncols : Z) (fd : list Z) (outlet : Z) (inlets area0 b10 b20 : list Z)
  : result (retval T * list (arrval T)) :=
  exec_fun N X program_chk (S n) "c_delineate_area"
    [AVI nrows; AVI ncols; AVArrI FLOWDIRCODE; AVArrI fd; AVI outlet;
     AVI (Z.of_nat (List.length inlets)); AVArrI inlets;
     AVI (Z.of_nat (List.length area0)); AVArrI area0; AVArrI b10; AVArrI b20].

(* The conclusion of refine_c_delineate_area (RefineArea.v) about program_chk, under its
   hypotheses plus three size hypotheses, each "the length of an array fits a long long":
   - len(flowdir) = nrows*ncols <= INT64_MAX: the kernel computes nrows*ncols-1 (validity of
     the outlet and of every inlet >= 0), c_upstream and c_neighbours compute nrows*ncols and
     ny*ncols+nx, all in long long;
   - ninlets = len(idxinlets) <= INT64_MAX: m++ runs up to ninlets;
   - nval = len(idxcells_area) <= INT64_MAX: l++, i++, nbuffer2++, nlayer++ are bounded by nval;
     nval-1 is computed after the test nval >= 1.
   No hypothesis on the outlet, the inlets or the contents of flowdir. *)
Theorem chk_refine_c_delineate_area nrows ncols fd outlet inlets area0 b10 b20 n :
  0 <= ncols ->
  Z.of_nat (List.length fd) = nrows * ncols ->
  List.length b10 = List.length area0 -> List.length b20 = List.length area0 ->
  nrows * ncols <= INT64_MAX ->
  Z.of_nat (List.length inlets) <= INT64_MAX ->
  Z.of_nat (List.length area0) <= INT64_MAX ->
  (List.length inlets < n)%nat -> (List.length area0 < n)%nat -> (13 < n)%nat ->
  match delineate_area nrows ncols fd outlet inlets (Z.of_nat (List.length area0)) with
  | DOk res =>
      chk_da_call n nrows ncols fd outlet inlets area0 b10 b20
      = Ok (RI 0, [VArrI FLOWDIRCODE; VArrI fd; VArrI inlets;
                   VArrI (res ++ skipn (List.length res) area0);
                   VArrI (fst (area_bufs nrows ncols outlet (Z.of_nat (List.length area0)) fd inlets b10 b20));
                   VArrI (snd (area_bufs nrows ncols outlet (Z.of_nat (List.length area0)) fd inlets b10 b20))])
  | DErr =>
      exists code a b1 b2, 0 < code /\
        chk_da_call n nrows ncols fd outlet inlets area0 b10 b20
        = Ok (RI code, [VArrI FLOWDIRCODE; VArrI fd; VArrI inlets; VArrI a; VArrI b1; VArrI b2]) /\
        (da_rejected nrows ncols outlet (Z.of_nat (List.length area0)) inlets = true ->
         a = area0 /\ b1 = b10 /\ b2 = b20)
  | DFuel => False
  end.
Proof.
  intros Hnc Hfd Hl1 Hl2 HM Hni Hnv Hn Hna Hn13.
  destruct (c_da_exec N X nrows ncols outlet (Z.of_nat (List.length area0)) FLOWDIRCODE fd inlets area0
              eq_refl Hnc Hfd eq_refl HM Hni Hnv n b10 b20 Hl1 Hl2 Hn Hna Hn13)
    as (ret & a & b1 & b2 & Hrun & Hspec).
  unfold da_spec in Hspec. unfold chk_da_call. unfold da_args in Hrun.
  destruct (delineate_area nrows ncols fd outlet inlets (Z.of_nat (List.length area0))) as [| |res].
  - destruct Hspec as (code & Hcode & -> & Hrej). exists code, a, b1, b2. auto.
  - exact Hspec.
  - destruct Hspec as (-> & -> & Hb). rewrite Hrun, <- Hb. reflexivity.
Qed.

Corollary chk_refine_c_delineate_area_ok nrows ncols fd outlet inlets area0 b10 b20 n res :
  0 <= ncols ->
  Z.of_nat (List.length fd) = nrows * ncols ->
  List.length b10 = List.length area0 -> List.length b20 = List.length area0 ->
  nrows * ncols <= INT64_MAX ->
  Z.of_nat (List.length inlets) <= INT64_MAX ->
  Z.of_nat (List.length area0) <= INT64_MAX ->
  (List.length inlets < n)%nat -> (List.length area0 < n)%nat -> (13 < n)%nat ->
  delineate_area nrows ncols fd outlet inlets (Z.of_nat (List.length area0)) = DOk res ->
  chk_da_call n nrows ncols fd outlet inlets area0 b10 b20
  = Ok (RI 0, [VArrI FLOWDIRCODE; VArrI fd; VArrI inlets;
               VArrI (res ++ skipn (List.length res) area0);
               VArrI (fst (area_bufs nrows ncols outlet (Z.of_nat (List.length area0)) fd inlets b10 b20));
               VArrI (snd (area_bufs nrows ncols outlet (Z.of_nat (List.length area0)) fd inlets b10 b20))]).
Proof.
  intros Hnc Hfd Hl1 Hl2 HM Hni Hnv Hn Hna Hn13 HD.
  pose proof (chk_refine_c_delineate_area nrows ncols fd outlet inlets area0 b10 b20 n
                Hnc Hfd Hl1 Hl2 HM Hni Hnv Hn Hna Hn13) as H.
  rewrite HD in H. exact H.
Qed.

Corollary chk_refine_c_delineate_area_err nrows ncols fd outlet inlets area0 b10 b20 n :
  0 <= ncols ->
  Z.of_nat (List.length fd) = nrows * ncols ->
  List.length b10 = List.length area0 -> List.length b20 = List.length area0 ->
  nrows * ncols <= INT64_MAX ->
  Z.of_nat (List.length inlets) <= INT64_MAX ->
  Z.of_nat (List.length area0) <= INT64_MAX ->
  (List.length inlets < n)%nat -> (List.length area0 < n)%nat -> (13 < n)%nat ->
  delineate_area nrows ncols fd outlet inlets (Z.of_nat (List.length area0)) = DErr ->
  exists code a b1 b2, 0 < code /\
    chk_da_call n nrows ncols fd outlet inlets area0 b10 b20
    = Ok (RI code, [VArrI FLOWDIRCODE; VArrI fd; VArrI inlets; VArrI a; VArrI b1; VArrI b2]) /\
    (da_rejected nrows ncols outlet (Z.of_nat (List.length area0)) inlets = true ->
     a = area0 /\ b1 = b10 /\ b2 = b20).
Proof.
  intros Hnc Hfd Hl1 Hl2 HM Hni Hnv Hn Hna Hn13 HD.
  pose proof (chk_refine_c_delineate_area nrows ncols fd outlet inlets area0 b10 b20 n
                Hnc Hfd Hl1 Hl2 HM Hni Hnv Hn Hna Hn13) as H.
  rewrite HD in H. exact H.
Qed.

(* invalid buffer size / outlet / inlet: a positive code, nothing written *)
Corollary chk_refine_c_delineate_area_rejected nrows ncols fd outlet inlets area0 b10 b20 n :
  0 <= ncols ->
  Z.of_nat (List.length fd) = nrows * ncols ->
  List.length b10 = List.length area0 -> List.length b20 = List.length area0 ->
  nrows * ncols <= INT64_MAX ->
  Z.of_nat (List.length inlets) <= INT64_MAX ->
  Z.of_nat (List.length area0) <= INT64_MAX ->
  (List.length inlets < n)%nat -> (List.length area0 < n)%nat -> (13 < n)%nat ->
  da_rejected nrows ncols outlet (Z.of_nat (List.length area0)) inlets = true ->
  exists code, 0 < code /\
    chk_da_call n nrows ncols fd outlet inlets area0 b10 b20
    = Ok (RI code, [VArrI FLOWDIRCODE; VArrI fd; VArrI inlets; VArrI area0; VArrI b10; VArrI b20]).
Proof.
  intros Hnc Hfd Hl1 Hl2 HM Hni Hnv Hn Hna Hn13 Hrej.
  assert (HD : delineate_area nrows ncols fd outlet inlets (Z.of_nat (List.length area0)) = DErr).
  { unfold da_rejected in Hrej. unfold delineate_area.
    destruct (Z.of_nat (List.length area0) <? 1); [reflexivity|].
    destruct (negb (valid_cell nrows ncols outlet)); [reflexivity|].
    destruct (negb (forallb (valid_cell nrows ncols) inlets)); [reflexivity|discriminate]. }
  destruct (chk_refine_c_delineate_area_err nrows ncols fd outlet inlets area0 b10 b20 n
              Hnc Hfd Hl1 Hl2 HM Hni Hnv Hn Hna Hn13 HD) as (code & a & b1 & b2 & Hcode & Hrun & Hsame).
  destruct (Hsame Hrej) as (-> & -> & ->). exists code. auto.
Qed.

End Main.

(* ================================================================== *)
(* Instances and sanity checks                                          *)
(* ================================================================== *)

(* the theorems in binary64 (the instance validated against the compiled kernels), RR, RN;
   the hypotheses on the arithmetic are those of RefineRiver.v : ofZ0_F64, half_F64 etc. *)
Definition chk_refine_delineate_flowpathlengths_in_catchment_F64 :=
  fun nrows ncols fd area outlet junk n =>
    chk_refine_delineate_flowpathlengths_in_catchment F64 XF64 nrows ncols fd area outlet junk n ofZ0_F64.
Definition chk_refine_delineate_river_F64 :=
  fun nrows ncols xll yll csz fd start np0 cjunk djunk n =>
    chk_refine_delineate_river F64 XF64 nrows ncols xll yll csz fd start np0 cjunk djunk n ofZ0_F64 half_F64.
Definition chk_refine_delineate_river_RR :=
  fun nrows ncols xll yll csz fd start np0 cjunk djunk n =>
    chk_refine_delineate_river RR XRR nrows ncols xll yll csz fd start np0 cjunk djunk n ofZ0_RR half_RR.
Definition chk_refine_delineate_river_RN :=
  fun nrows ncols xll yll csz fd start np0 cjunk djunk n =>
    chk_refine_delineate_river RN XRN nrows ncols xll yll csz fd start np0 cjunk djunk n ofZ0_RN half_RN.

(* the theorems are not vacuous and agree with direct runs of the checked program (binary64) *)
Example chk_area_example_run :
  chk_da_call F64 XF64 40 2 2 [2; 4; 1; 0] 3 [] [7; 7; 7; 7; 7; 7] [8; 8; 8; 8; 8; 8] [9; 9; 9; 9; 9; 9]
  = Ok (RI 0, [VArrI FLOWDIRCODE; VArrI [2; 4; 1; 0]; VArrI [];
               VArrI ([0; 1; 2; 3] ++ [7; 7]);
               VArrI (fst (area_bufs 2 2 3 6 [2; 4; 1; 0] [] [8; 8; 8; 8; 8; 8] [9; 9; 9; 9; 9; 9]));
               VArrI (snd (area_bufs 2 2 3 6 [2; 4; 1; 0] [] [8; 8; 8; 8; 8; 8] [9; 9; 9; 9; 9; 9]))]).
Proof. vm_compute. reflexivity. Qed.

Example chk_area_example_thm :
  chk_da_call F64 XF64 40 2 2 [2; 4; 1; 0] 3 [] [7; 7; 7; 7; 7; 7] [8; 8; 8; 8; 8; 8] [9; 9; 9; 9; 9; 9]
  = Ok (RI 0, [VArrI FLOWDIRCODE; VArrI [2; 4; 1; 0]; VArrI [];
               VArrI ([0; 1; 2; 3] ++ skipn 4 [7; 7; 7; 7; 7; 7]);
               VArrI (fst (area_bufs 2 2 3 6 [2; 4; 1; 0] [] [8; 8; 8; 8; 8; 8] [9; 9; 9; 9; 9; 9]));
               VArrI (snd (area_bufs 2 2 3 6 [2; 4; 1; 0] [] [8; 8; 8; 8; 8; 8] [9; 9; 9; 9; 9; 9]))]).
Proof.
  apply (chk_refine_c_delineate_area_ok F64 XF64 2 2 [2; 4; 1; 0] 3 [] [7; 7; 7; 7; 7; 7]
           [8; 8; 8; 8; 8; 8] [9; 9; 9; 9; 9; 9] 40 [0; 1; 2; 3]);
    try reflexivity; try (cbn; lia).
Qed.

Example chk_area_example_err :
  exists code, 0 < code /\
  chk_da_call F64 XF64 40 2 2 [2; 4; 1; 0] 3 [] [7; 7; 7] [8; 8; 8] [9; 9; 9]
  = Ok (RI code, [VArrI FLOWDIRCODE; VArrI [2; 4; 1; 0]; VArrI [];
               VArrI [0; 1; 7]; VArrI [3; 8; 8]; VArrI [0; 1; 9]])
  /\ delineate_area 2 2 [2; 4; 1; 0] 3 [] 3 = DErr.
Proof. eexists. split; [|split; vm_compute; reflexivity]. reflexivity. Qed.

(* a 2 x 2 grid draining to cell 3 (flowdir 2 = east, 4 = south-east ... as in the example
   above): flow paths of the 4 cells to the outlet 3, and the river from cell 0 *)
Example chk_flowpaths_example_run :
  exists out,
  exec_fun F64 XF64 program_chk 40 "c_delineate_flowpathlengths_in_catchment"
    [AVI 2; AVI 2; AVArrI FLOWDIRCODE; AVArrI [2; 4; 1; 0]; AVI 4; AVArrI [0; 1; 2; 3];
     AVI 3; AVArrF (repeat 0%float 12)]
  = Ok (RI 0, [VArrI FLOWDIRCODE; VArrI [2; 4; 1; 0]; VArrI [0; 1; 2; 3]; VArrF out])
  /\ out = fp_flat F64 (flowpaths F64 2 2 [2; 4; 1; 0] 3 [0; 1; 2; 3]).
Proof.
  eexists. split; [|reflexivity].
  apply (chk_refine_delineate_flowpathlengths_in_catchment_F64 2 2 [2; 4; 1; 0] [0; 1; 2; 3] 3
           (repeat 0%float 12) 39); try reflexivity; cbn; lia.
Qed.

Example chk_river_example_run :
  match river F64 2 2 0%float 0%float 1%float [2; 4; 1; 0] 0 3 with
  | Some rows =>
      exec_fun F64 XF64 program_chk 40 "c_delineate_river"
        [AVI 2; AVI 2; AVF 0%float; AVF 0%float; AVF 1%float; AVArrI FLOWDIRCODE; AVArrI [2; 4; 1; 0];
         AVI 0; AVI 3; AVArrI [7]; AVArrI [7; 7; 7]; AVArrF (repeat 0%float 15)]
      = Ok (RI 0, [VArrI FLOWDIRCODE; VArrI [2; 4; 1; 0]; VArrI [Z.of_nat (List.length rows)];
                   VArrI (map (@rv_cell float) rows ++ skipn (List.length rows) [7; 7; 7]);
                   VArrF (flat_map (@rv_data float) rows ++ skipn (5 * List.length rows) (repeat 0%float 15))])
  | None => False
  end.
Proof.
  pose proof (chk_refine_delineate_river_F64 2 2 0%float 0%float 1%float [2; 4; 1; 0] 0 7
                [7; 7; 7] (repeat 0%float 15) 39) as H.
  destruct (river F64 2 2 0%float 0%float 1%float [2; 4; 1; 0] 0 (MiniC.zlen [7; 7; 7])) eqn:E.
  - change (MiniC.zlen [7; 7; 7]) with 3 in E. rewrite E.
    apply H; try reflexivity; cbn; lia.
  - exfalso. vm_compute in E. discriminate E.
Qed.

Print Assumptions chk_refine_delineate_flowpathlengths_in_catchment.
Print Assumptions chk_refine_delineate_river.
Print Assumptions chk_refine_c_delineate_area.
