(* Refinement: the MiniC program regenerated from src/hydrodiy/gis/c_grid.c
   (Gen/KernelsAst.v) computes, for ALL inputs, what the hand-written model of
   Model/Grid.v computes.  *)
From Coq Require Import ZArith Bool List String Lia.
From Hy Require Import Base.Num Base.MiniC Gen.KernelsAst Model.Grid.
Import ListNotations.
Open Scope string_scope.
Open Scope list_scope.
Open Scope Z_scope.

Section Refine.
Context {T : Type} (N : NumOps T) (X : NumLit T).

Lemma getnxy_run n ncols idx a b :
  ncols <> 0 ->
  exec_fun N X program (S n) "getnxy" [AVI ncols; AVI idx; AVArrI [a; b]]
  = Ok (RI 0, [VArrI [getnx ncols idx; getny ncols idx]]).
Proof.
  intros H. cbn. zb. cbn. zb. cbn. reflexivity.
Qed.

Definition rc_out (nrows ncols : Z) (idx : list Z) : list Z :=
  flat_map (fun c => let (r, k) := cell2rowcol nrows ncols c in [r; k]) idx.

Definition rc_state nrows ncols (idx : list Z) (k : nat) icell rc (rowcols : list Z) : state T :=
  {| s_i := [("nrows", nrows); ("ncols", ncols); ("nval", zlen idx); ("ierr", 0);
             ("i", Z.of_nat k); ("icell", icell)];
     s_f := [];
     s_ai := [("idxcell", idx); ("rowcols", rowcols); ("rowcol", rc)];
     s_af := [] |}.

Definition rc_inv nrows ncols idx (k : nat) (st : state T) : Prop :=
  exists done todo jtodo icell a b,
    idx = done ++ todo /\ List.length done = k /\
    List.length jtodo = (2 * List.length todo)%nat /\
    st = rc_state nrows ncols idx k icell [a; b] (rc_out nrows ncols done ++ jtodo).

Definition rc_post nrows ncols idx (r : outcome T * state T) : Prop :=
  exists icell a b,
    r = (ONormal, rc_state nrows ncols idx (List.length idx) icell [a; b] (rc_out nrows ncols idx)).

Lemma rc_out_app nrows ncols a b : rc_out nrows ncols (a ++ b) = rc_out nrows ncols a ++ rc_out nrows ncols b.
Proof. unfold rc_out. apply flat_map_app. Qed.

Lemma rc_out_length nrows ncols l : List.length (rc_out nrows ncols l) = (2 * List.length l)%nat.
Proof. induction l as [|c l IH]; [reflexivity|]. unfold rc_out in *. cbn [flat_map]. destruct (cell2rowcol nrows ncols c). cbn [app List.length]. rewrite IH. lia. Qed.

Lemma rc_out_snoc nrows ncols l c :
  rc_out nrows ncols (l ++ [c]) =
  rc_out nrows ncols l ++ [fst (cell2rowcol nrows ncols c); snd (cell2rowcol nrows ncols c)].
Proof. rewrite rc_out_app. unfold rc_out at 2. cbn [flat_map]. destruct (cell2rowcol nrows ncols c). reflexivity. Qed.

(* c_cell2rowcol: for EVERY grid shape, every list of cell numbers (valid or not) and
   every initial content of the output buffer (two entries per cell), the translated
   kernel returns 0, leaves idxcell untouched and fills rowcols with the model's
   (row, column) pairs.  [n] = fuel left for the loop and for the call of getnxy. *)
Theorem refine_cell2rowcol nrows ncols idx junk n :
  List.length junk = (2 * List.length idx)%nat ->
  (List.length idx < n)%nat ->
  exec_fun N X program (S n) "c_cell2rowcol"
    [AVI nrows; AVI ncols; AVI (zlen idx); AVArrI idx; AVArrI junk]
  = Ok (RI 0, [VArrI idx; VArrI (rc_out nrows ncols idx)]).
Proof.
  intros HJ Hn. cbn. norm_state.
  loop_with (rc_inv nrows ncols idx) (rc_post nrows ncols idx) (List.length idx).
  - intros k st (done & todo & jtodo & icell & a & b & Hidx & Hk & Hj & ->).
    assert (Hlen : List.length idx = (k + List.length todo)%nat)
      by (rewrite Hidx, app_length; lia).
    split; [lia|].
    unfold rc_state. cbn. rewrite zlen_eq.
    destruct todo as [|c todo].
    + (* end of the loop *)
      replace (Z.of_nat k <? Z.of_nat (List.length idx)) with false
        by (symmetry; apply Z.ltb_ge; cbn in Hlen; lia).
      cbn. exists icell, a, b. unfold rc_state. rewrite zlen_eq.
      destruct jtodo; [|discriminate]. rewrite app_nil_r in *. subst idx k. reflexivity.
    + replace (Z.of_nat k <? Z.of_nat (List.length idx)) with true
        by (symmetry; apply Z.ltb_lt; cbn in Hlen; lia).
      subst idx. cbn. rewrite (zget_app done todo c) by lia. cbn.
      rewrite ?truth_b2z, ?b2z_truth_b2z, ?or_ok, ?truth_b2z.
      destruct jtodo as [|j0 [|j1 jtodo]]; try (cbn in Hj; lia).
      assert (HP : 2 * Z.of_nat k = Z.of_nat (List.length (rc_out nrows ncols done)))
        by (rewrite rc_out_length; lia).
      assert (HP1 : 2 * Z.of_nat k + 1 = Z.of_nat (List.length (rc_out nrows ncols done ++ [j0])))
        by (rewrite app_length, rc_out_length; cbn; lia).
      assert (Hcell : cell2rowcol nrows ncols c =
                if (c <? 0) || (nrows * ncols <=? c) then (-1, -1) else (getny ncols c, getnx ncols c)).
      { unfold cell2rowcol, valid_cell. destruct ((c <? 0) || (nrows * ncols <=? c)); reflexivity. }
      destruct ((c <? 0) || (nrows * ncols <=? c)) eqn:Hv.
      * cbn. rewrite (zset_app _ (j1 :: jtodo)) by exact HP. cbn.
        replace (rc_out nrows ncols done ++ -1 :: j1 :: jtodo)
          with ((rc_out nrows ncols done ++ [-1]) ++ j1 :: jtodo) by (rewrite <- app_assoc; reflexivity).
        rewrite (zset_app _ jtodo) by (rewrite app_length, rc_out_length; cbn; lia).
        cbn.
        exists (done ++ [c]), todo, jtodo, c, a, b.
        split; [rewrite <- app_assoc; reflexivity|].
        split; [rewrite app_length; cbn; lia|].
        split; [cbn in Hj; lia|].
        norm_state. unfold rc_state. rewrite zlen_eq.
        rewrite rc_out_snoc, Hcell. cbn [fst snd].
        rewrite <- !app_assoc. cbn [app].
        replace (Z.of_nat k + 1) with (Z.of_nat (S k)) by lia. reflexivity.
      * assert (ncols <> 0) by (apply orb_false_iff in Hv; destruct Hv as [H1 H2];
                               apply Z.ltb_ge in H1; apply Z.leb_gt in H2; nia).
        cbn. destruct n as [|n']; [lia|]. rewrite getnxy_run by assumption. cbn.
        replace (rc_out nrows ncols done ++ j0 :: j1 :: jtodo)
          with ((rc_out nrows ncols done ++ [j0]) ++ j1 :: jtodo) by (rewrite <- app_assoc; reflexivity).
        rewrite (zset_app _ jtodo) by exact HP1.
        cbn. rewrite <- app_assoc. cbn [app].
        rewrite (zset_app _ (_ :: jtodo)) by exact HP. cbn.
        exists (done ++ [c]), todo, jtodo, c, (getnx ncols c), (getny ncols c).
        split; [rewrite <- app_assoc; reflexivity|].
        split; [rewrite app_length; cbn; lia|].
        split; [cbn in Hj; lia|].
        norm_state. unfold rc_state. rewrite zlen_eq.
        rewrite rc_out_snoc, Hcell. cbn [fst snd].
        rewrite <- !app_assoc. cbn [app].
        replace (Z.of_nat k + 1) with (Z.of_nat (S k)) by lia. reflexivity.
  - exists [], idx, junk, 0, 0, 0. repeat split; try assumption.
  - lia.
  - destruct HL as (r & -> & icell & a & b & ->). cbn. reflexivity.
Qed.

End Refine.
