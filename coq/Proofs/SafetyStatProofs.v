(* C05 - proofs about the index-level models of the stat kernels and the date helpers
   (Model/SafetyStat.v). *)
From Coq Require Import ZArith Bool List String Lia PrimFloat.
From Hy Require Import Base.Num Gen.Consts Gen.ConstsC05 Model.Safety Model.SafetyGis Model.SafetyStat
  Proofs.SafetyProofs Proofs.SafetyGisProofs.
Import ListNotations.
Open Scope Z_scope.

Definition INT_MAX : Z := 2147483647.

Lemma mul32_ok a b : -2147483648 <= a * b <= 2147483647 -> mul32 a b = Ok (a * b).
Proof. intros; unfold mul32; now apply chk32_ok. Qed.

Ltac fin3 := cbn beta; auto; try (intros; contradiction).

(* nested loop: the inner loop as (part of) the body of an outer one *)
Lemma forZ_inv3b {S} (I : S -> Prop) PR lo hi (body : Z -> S -> step S) s :
  I s ->
  (forall j t, lo <= j < hi -> I t -> post3 (body j t) I I PR) ->
  post3 (forZ lo hi body s) I I PR.
Proof.
  intros. eapply post3_weaken; [apply (forZ_inv3 I PR); eauto| | |]; cbn beta; auto.
  intros ? [].
Qed.

Section StatProofs.
Context {T : Type} (N : NumOps T).

(* ================================================================== *)
(* c_armodel_sim / c_armodel_residual: every accepted order fits the lag buffer *)

Lemma armodel_safe : forall resid nval nparams mean ini params inputs outputs,
  Zlen params = nparams -> Zlen inputs = nval -> Zlen outputs = nval ->
  safe (armodel N resid nval nparams mean ini params inputs outputs).
Proof.
  intros resid nval nparams mean ini params inputs outputs Hp Hi Ho.
  unfold armodel.
  destruct ((ARMODEL_NPARAMSMAX <? nparams) || (nparams <=? 0)) eqn:E; [exact I|]. zb.
  assert (Hsz : nparams <= ARMODEL_PREV_SIZE) by (unfold ARMODEL_NPARAMSMAX, ARMODEL_PREV_SIZE in *; lia).
  assert (Hsz0 : 0 <= ARMODEL_PREV_SIZE) by (unfold ARMODEL_PREV_SIZE; lia).
  apply (post3_safe _ (fun _ => True) (fun _ => True) (fun _ _ => True)).
  apply post3_seq. eapply post3_weaken.
  { apply (forZ_inv3 (fun _ : list bool => True) (fun _ _ => True)); auto.
    intros k o Hk _. acc3. destruct (nisnan N _); cbn; auto. }
  2, 3: fin3.
  cbn beta. intros _ _.
  destruct (nisnan N mean); [exact I|]. destruct (nisnan N ini); [exact I|].
  set (prev0 := repeat false (Z.to_nat ARMODEL_PREV_SIZE)).
  assert (Hl0 : Zlen prev0 = ARMODEL_PREV_SIZE) by (unfold prev0; rewrite Zlen_repeat; lia).
  assert (Hinit : post3 (forZ 0 nparams (fun k prev => let! prev := mark "prev_centered" prev k in Next prev) prev0)
                    (fun p => Zlen p = ARMODEL_PREV_SIZE) (fun _ => False) (fun _ _ => False)).
  { apply (forZ_inv3 (fun p => Zlen p = ARMODEL_PREV_SIZE)); auto.
    intros k p Hk I1. acc3. cbn. now rewrite Zlen_upd. }
  destruct (forZ 0 nparams _ prev0) as [prev|prev|c prev|e]; cbn in Hinit; try contradiction.
  apply post3_finish. eapply post3_weaken.
  { apply (forZ_inv3 (fun o => Zlen o = nval) (fun _ _ => True)); auto.
    intros i o Hi2 I1. acc3.
    apply post3_seq. eapply post3_weaken.
    { instantiate (1 := fun _ _ => True). instantiate (1 := fun _ => False). instantiate (1 := fun o' => Zlen o' = nval).
      destruct (resid && nisnan N _); [|cbn; auto].
      apply (forZ_inv3 (fun o' => Zlen o' = nval)); auto.
      intros k o' Hk J1. acc3. acc3. cbn; auto. }
    2, 3: fin3.
    cbn beta. intros o1 Ho1. apply post3_seq. eapply post3_weaken.
    { apply (forZ_inv3 (fun o' => Zlen o' = nval) (fun _ _ => True)); auto.
      intros kk o' Hk J1. acc3. acc3.
      destruct (0 <? nparams - 1 - kk) eqn:E3; zb.
      - acc3. acc3. cbn; auto.
      - cbn [bindr]. acc3. cbn; auto. }
    2, 3: fin3.
    cbn beta. intros o2 Ho2. acc3. cbn. now rewrite Zlen_upd. }
  all: fin3.
Qed.

(* ================================================================== *)
(* c_paretofront *)
Lemma paretofront_safe : forall nval ncol orient data isdom,
  0 <= ncol -> nval * ncol <= INT_MAX -> Zlen data = nval * ncol -> Zlen isdom = nval ->
  safe (paretofront N nval ncol orient data isdom).
Proof.
  intros nval ncol orient data isdom Hc Hm Hd Hi.
  assert (0 <= nval) by (rewrite <- Hi; apply Zlen_nonneg).
  unfold paretofront.
  apply (post3_safe _ (fun _ => True) (fun _ => True) (fun _ _ => True)).
  apply post3_finish. eapply post3_weaken.
  { apply (forZ_inv3 (fun o => Zlen o = nval) (fun _ _ => True)); auto.
    intros i o Hi2 I1. acc3.
    eapply post3_weaken.
    { apply (forZ_inv3 (fun o' => Zlen o' = nval) (fun _ _ => True)); [now rewrite Zlen_upd|].
      intros j o' Hj J1. destruct (i =? j); [cbn; auto|].
      assert (Hinner : post3 (forZ 0 ncol (fun k (dom : Z) =>
                let! aj := mul32 ncol j in
                let! ai := mul32 ncol i in
                let! dj := rd "data" (n0 N) data (aj + k) in
                let! di := rd "data" (n0 N) data (ai + k) in
                let diff := nsub N dj di in
                if nisnan N diff then Next dom
                else Next (dom * (if nltb N (n0 N) (nmul N orient diff) then 1 else 0))) 1)
              (fun _ => True) (fun _ => False) (fun _ _ => False)).
      { apply (forZ_inv3 (fun _ : Z => True)); auto.
        intros k dom Hk _.
        unfold INT_MAX in *.
        rewrite (mul32_ok ncol j) by nia. cbn [bindr].
        rewrite (mul32_ok ncol i) by nia. cbn [bindr].
        acc3. acc3. destruct (nisnan N _); cbn; auto. }
      destruct (forZ 0 ncol _ 1) as [dom|dom|c dom|e]; cbn in Hinner; try contradiction.
      destruct (dom =? 1); [|cbn; auto].
      acc3. cbn. now rewrite Zlen_upd. }
    all: fin3. }
  all: fin3.
Qed.

(* ================================================================== *)
(* c_ad_test / ADtest *)
Lemma adtest_safe : forall n x outputs,
  Zlen x = n -> Zlen outputs = 2 ->
  safe (adtest N n x outputs).
Proof.
  intros n x outputs Hx Ho. unfold adtest.
  acc3. rewrite (mark_ok "outputs" _ 1) by (rewrite Zlen_upd; lia). cbn [bindr].
  set (o := upd (upd outputs (Z.to_nat 0) true) (Z.to_nat 1) true).
  assert (Hlo : Zlen o = 2) by (unfold o; now rewrite !Zlen_upd).
  assert (Hloop : post3 (forZ 0 n (fun i (prev : T) =>
      let! xi := rd "unifdata" (n0 N) x i in
      if nltb N xi (n0 N) || nltb N (n1 N) xi then Ret 1 prev
      else if nisnan N xi then Ret 1 prev
      else if nltb N xi prev then Ret 1 prev
      else let! _ := rd "unifdata" (n0 N) x (n - 1 - i) in Next xi)
        (nopp N (ndiv N (n1 N) (nofZ N (10 ^ 300)))))
      (fun _ => True) (fun _ => False) (fun _ _ => True)).
  { apply (forZ_inv3 (fun _ : T => True)); auto.
    intros i prev Hi _. acc3.
    destruct (_ || _); [exact I|]. destruct (nisnan N _); [exact I|].
    destruct (nltb N _ prev); [exact I|]. acc3. cbn; auto. }
  destruct (forZ 0 n _ _) as [p|p|c p|e]; cbn in Hloop; try contradiction; try exact I.
  acc3. rewrite (mark_ok "outputs" _ 1) by (rewrite Zlen_upd; lia). exact I.
Qed.

(* ================================================================== *)
(* c_crps: at least one member (metrics.py raises "No valid data" otherwise) *)
Lemma crps_safe : forall nval ncol use_weights nobs sim nweights table ndec,
  1 <= ncol -> 0 <= nval -> nval * ncol <= INT_MAX -> (ncol + 1) * CRPS_TABLE_NCOLS <= INT_MAX ->
  nobs = nval -> Zlen sim = nval * ncol -> nweights = nval ->
  Zlen table = (ncol + 1) * CRPS_TABLE_NCOLS -> ndec = 5 ->
  safe (crps N nval ncol use_weights nobs sim nweights table ndec).
Proof.
  intros nval ncol use_weights nobs sim nweights table ndec Hc Hv Hm Ht Hobs Hs Hw Htab Hd.
  unfold crps. unfold INT_MAX, CRPS_TABLE_NCOLS in *.
  rewrite chk32_ok by lia. cbn [bindr].
  apply (post3_safe _ (fun _ => True) (fun _ => True) (fun _ _ => True)).
  apply post3_seq. eapply post3_weaken.
  { apply (forZ_inv3 (fun _ : list bool => True) (fun _ _ => True)); auto.
    intros j u Hj _. acc3. cbn; auto. }
  2, 3: fin3.
  cbn beta. intros _ _. apply post3_seq. eapply post3_weaken.
  { apply (forZ_inv3 (fun _ : list bool => True) (fun _ _ => True)); auto.
    intros i u Hi _.
    set (ens0 := repeat (n0 N) (Z.to_nat (ncol + 1))).
    assert (Hl0 : Zlen ens0 = ncol + 1) by (unfold ens0; rewrite Zlen_repeat; lia).
    assert (Hrow : post3 (forZ 0 ncol (fun j ens =>
              let! ij := mul32 ncol i in
              let! v := rd "sim" (n0 N) sim (ij + j) in
              let! ens := wr "ensemb" ens j v in Next ens) ens0)
              (fun e => Zlen e = ncol + 1) (fun _ => False) (fun _ _ => False)).
    { apply (forZ_inv3 (fun e => Zlen e = ncol + 1)); auto.
      intros j e Hj I1. rewrite (mul32_ok ncol i) by nia. cbn [bindr].
      acc3. acc3. cbn. now rewrite Zlen_upd. }
    destruct (forZ 0 ncol _ ens0) as [ens|ens|c ens|e]; cbn in Hrow; try contradiction.
    assert (Hwt : forall k, 0 <= k < nval ->
              (if use_weights =? 1 then touch "weights_vector" nweights k else Ok tt) = Ok tt).
    { intros k Hk. destruct (use_weights =? 1); auto. apply touch_ok; lia. }
    rewrite (Hwt i) by lia. cbn [bindr].
    apply post3_seq. eapply post3_weaken.
    { apply (forZ_inv3 (fun _ : list bool => True) (fun _ _ => True)); auto.
      intros j u' Hj _. acc3. acc3. destruct (nltb N _ _); [exact I|]. acc3. acc3. cbn; auto. }
    2, 3: fin3.
    cbn beta. intros _ _. acc3. acc3. acc3. acc3. acc3. acc3. acc3.
    apply (forZ_inv3b (fun _ : list bool => True) (fun _ _ => True)); auto.
    intros k u' Hk _. acc3. rewrite (Hwt k) by lia. cbn; auto. }
  2, 3: fin3.
  cbn beta. intros _ _. apply post3_seq. eapply post3_weaken.
  { apply (forZ_inv3 (fun t => Zlen t = (ncol + 1) * 7) (fun _ _ => True)); auto.
    intros j t Hj I1. acc3. rewrite (mul32_ok j 7) by lia. cbn [bindr].
    acc3.
    rewrite (mark_ok "reliability_table" _ (j * 7 + 1)) by (rewrite ?Zlen_upd; lia). cbn [bindr].
    rewrite (mark_ok "reliability_table" _ (j * 7 + 2)) by (rewrite ?Zlen_upd; lia). cbn [bindr].
    rewrite (mark_ok "reliability_table" _ (j * 7 + 3)) by (rewrite ?Zlen_upd; lia). cbn [bindr].
    rewrite (mark_ok "reliability_table" _ (j * 7 + 4)) by (rewrite ?Zlen_upd; lia). cbn [bindr].
    rewrite (mark_ok "reliability_table" _ (j * 7 + 5)) by (rewrite ?Zlen_upd; lia). cbn [bindr].
    rewrite (mark_ok "reliability_table" _ (j * 7 + 6)) by (rewrite ?Zlen_upd; lia). cbn [bindr].
    acc3. acc3. cbn. now rewrite !Zlen_upd. }
  2, 3: fin3.
  cbn beta. intros t _. acc3. acc3. acc3. exact I.
Qed.

(* ================================================================== *)
(* c_ensrank *)
Lemma ensrank_safe : forall eps nval ncol nsim fmat ranks,
  nval * nval <= INT_MAX -> nval * ncol <= INT_MAX -> 2 * ncol <= INT_MAX ->
  nsim = nval * ncol -> Zlen fmat = nval * nval -> Zlen ranks = nval ->
  safe (ensrank N eps nval ncol nsim fmat ranks).
Proof.
  intros eps nval ncol nsim fmat ranks H1 H2 H3 Hs Hf Hr.
  unfold ensrank. unfold INT_MAX in *.
  destruct (nltb N eps _); [exact I|].
  destruct ((ncol <=? 0) || (nval <=? 0)) eqn:E; [exact I|]. zb.
  rewrite (mul32_ok 2 ncol) by lia. cbn [bindr].
  set (n2 := 2 * ncol) in *. assert (Hn2 : n2 = 2 * ncol) by reflexivity.
  pose (Inv := fun u : list bool * list bool => Zlen (fst u) = nval * nval /\ Zlen (snd u) = nval).
  apply (post3_safe _ (fun _ => True) (fun _ => True) (fun _ _ => True)).
  apply post3_seq. eapply post3_weaken.
  { apply (forZ_inv3 Inv (fun _ _ => True)); [split; auto|].
    intros j u Hj (I1 & I2).
    assert (Et : (if j <? n2 then touch "ensemb" n2 j else Ok tt) = Ok tt).
    { destruct (j <? n2) eqn:E2; zb; auto. apply touch_ok; lia. }
    rewrite Et. cbn [bindr].
    destruct (j <? nval) eqn:E3; zb; [|unfold Inv; cbn; split; auto].
    acc3. unfold Inv; cbn. split; auto. now rewrite Zlen_upd. }
  2, 3: fin3.
  cbn beta. intros u0 Hu0. apply post3_finish. eapply post3_weaken.
  { apply (forZ_inv3 Inv (fun _ _ => True)); auto.
    intros i1 u Hi1 Iu.
    apply (forZ_inv3b Inv (fun _ _ => True)); auto.
    intros i2 u2 Hi2 (I1 & I2).
    apply post3_seq. eapply post3_weaken.
    { apply (forZ_inv3 Inv (fun _ _ => True)); [split; auto|].
      intros j u3 Hj Iu3.
      destruct (j <? ncol) eqn:E4; zb.
      - rewrite (mul32_ok ncol i1) by nia. cbn [bindR bindr]. acc3. acc3. cbn; auto.
      - rewrite (mul32_ok ncol (i2 - 1)) by nia. cbn [bindR bindr]. acc3. acc3. cbn; auto. }
    2, 3: fin3.
    cbn beta. intros u4 (J1 & J2). repeat acc3.
    apply post3_seq. eapply post3_weaken.
    { apply (forZ_inv3 Inv (fun _ _ => True)); [split; auto|].
      intros j u5 Hj Iu5. acc3.
      assert (Et : (if j <? n2 - 1 then touch "ensemb" n2 (j + 1) else Ok tt) = Ok tt).
      { destruct (j <? n2 - 1) eqn:E5; zb; auto. apply touch_ok; lia. }
      rewrite Et. cbn; auto. }
    2, 3: fin3.
    cbn beta. intros u6 (K1 & K2).
    rewrite (mul32_ok i1 nval) by nia. cbn [bindr].
    repeat acc3. rewrite ?(mark_ok "ranks" _ i2) by (rewrite Zlen_upd; lia). unfold Inv; cbn.
    split; now rewrite ?Zlen_upd. }
  all: fin3.
Qed.

End StatProofs.

(* ================================================================== *)
(* date helpers: dates are arrays of three ints *)

Definition int32 (z : Z) : Prop := -2147483648 <= z <= 2147483647.

Lemma isleapyear_01 y : isleapyear y = 0 \/ isleapyear y = 1.
Proof. unfold isleapyear. destruct (_ && _); auto. Qed.

Lemma daysinmonth_ok year month : exists n, daysinmonth year month = Ok n /\ -1 <= n <= 31.
Proof.
  unfold daysinmonth. destruct ((month <? 1) || (12 <? month)) eqn:E; [eexists; split; eauto; lia|].
  zb. rewrite touch_ok by (unfold DAYS_IN_MONTH_SIZE; lia). cbn [bindR].
  eexists; split; eauto.
  assert (Hb : forall k, 0 <= nth k [0; 31; 28; 31; 30; 31; 30; 31; 31; 30; 31; 30; 31] 0 <= 31).
  { intros k. do 13 (destruct k as [|k]; [simpl; lia|]). destruct k; simpl; lia. }
  specialize (Hb (Z.to_nat month)).
  destruct (isleapyear year =? 1); [|cbn [andb]; lia].
  destruct (month =? 2) eqn:Em; zb; cbn [andb]; [subst; simpl; lia|lia].
Qed.

Lemma dayofyear_safe month day : exists n, dayofyear month day = Ok n.
Proof.
  unfold dayofyear. destruct ((month <? 1) || (12 <? month)) eqn:E; [eauto|]. zb.
  destruct ((day <? 1) || (31 <? day)) eqn:E2; [eauto|]. zb.
  rewrite touch_ok by (unfold DAY_OF_YEAR_SIZE; lia). cbn [bindR].
  assert (Hb : forall k, 0 <= nth k [0; 0; 31; 59; 90; 120; 151; 181; 212; 243; 273; 304; 334] 0 <= 334).
  { intros k. do 13 (destruct k as [|k]; [simpl; lia|]). destruct k; simpl; lia. }
  specialize (Hb (Z.to_nat month)).
  rewrite chk32_ok by lia. cbn [bindR]. eauto.
Qed.

Lemma nth_int32 (date : list Z) k : Forall int32 date -> int32 (nth k date 0).
Proof.
  intros H. destruct (Nat.lt_ge_cases k (List.length date)).
  - rewrite Forall_forall in H. apply H. now apply nth_In.
  - rewrite nth_overflow by lia. unfold int32; lia.
Qed.

Lemma add1month_safe : forall date, Zlen date = 3 -> Forall int32 date -> safe (add1month true date).
Proof.
  intros date Hl Hf. unfold add1month.
  acc3. acc3.
  assert (H0 := nth_int32 date (Z.to_nat 0) Hf). assert (H1 := nth_int32 date (Z.to_nat 1) Hf).
  set (m := nth (Z.to_nat 1) date 0) in *. set (y0 := nth (Z.to_nat 0) date 0) in *.
  unfold int32 in *.
  destruct (true && negb (m <? 12) && (y0 =? 2147483647)) eqn:E; [exact I|].
  cbn [andb] in E.
  destruct (m <? 12) eqn:Em; zb.
  - rewrite chk32_ok by lia. cbn [bindR]. acc3.
    rewrite (rd_ok "date" 0 _ 0) by (rewrite Zlen_upd; lia). cbn [bindr].
    rewrite (rd_ok "date" 0 _ 1) by (rewrite Zlen_upd; lia). cbn [bindr].
    destruct (daysinmonth_ok (nth (Z.to_nat 0) (upd date (Z.to_nat 1) (m + 1)) 0)
                             (nth (Z.to_nat 1) (upd date (Z.to_nat 1) (m + 1)) 0)) as (n & En & _).
    rewrite En. cbn [bindr]. destruct (n <? 0); [exact I|].
    rewrite (rd_ok "date" 0 _ 2) by (rewrite Zlen_upd; lia). cbn [bindr].
    destruct (n <? _); [|exact I].
    rewrite (wr_ok "date" _ 2) by (rewrite Zlen_upd; lia). exact I.
  - cbn [negb andb] in E. zb.
    acc3. rewrite (rd_ok "date" 0 _ 0) by (rewrite Zlen_upd; lia). cbn [bindR].
    rewrite nth_upd_other by (simpl; lia). fold y0.
    rewrite chk32_ok by lia. cbn [bindR].
    rewrite (wr_ok "date" _ 0) by (rewrite Zlen_upd; lia). cbn [bindr].
    rewrite (rd_ok "date" 0 _ 0) by (rewrite !Zlen_upd; lia). cbn [bindr].
    rewrite (rd_ok "date" 0 _ 1) by (rewrite !Zlen_upd; lia). cbn [bindr].
    match goal with |- context [daysinmonth ?a ?b] => destruct (daysinmonth_ok a b) as (n & En & _) end.
    rewrite En. cbn [bindr]. destruct (n <? 0); [exact I|].
    rewrite (rd_ok "date" 0 _ 2) by (rewrite !Zlen_upd; lia). cbn [bindr].
    destruct (n <? _); [|exact I].
    rewrite (wr_ok "date" _ 2) by (rewrite !Zlen_upd; lia). exact I.
Qed.

Lemma add1month_pinned_unsafe : add1month false [2147483647; 12; 1] = Fail Overflow.
Proof. vm_compute. reflexivity. Qed.

Lemma add1day_safe : forall date, Zlen date = 3 -> Forall int32 date -> safe (add1day true date).
Proof.
  intros date Hl Hf. unfold add1day.
  acc3. acc3.
  assert (H0 := nth_int32 date (Z.to_nat 0) Hf). assert (H1 := nth_int32 date (Z.to_nat 1) Hf).
  assert (H2 := nth_int32 date (Z.to_nat 2) Hf).
  set (y := nth (Z.to_nat 0) date 0) in *. set (m := nth (Z.to_nat 1) date 0) in *.
  unfold int32 in *.
  destruct (daysinmonth_ok y m) as (n & En & Bn). rewrite En. cbn [bindr].
  destruct (n <? 0); [exact I|]. acc3.
  set (d := nth (Z.to_nat 2) date 0) in *.
  destruct (d <? n) eqn:E1; zb.
  - rewrite chk32_ok by lia. cbn [bindr]. acc3. exact I.
  - destruct (d =? n); [|exact I].
    acc3. rewrite (rd_ok "date" 0 _ 1) by (rewrite Zlen_upd; lia). cbn [bindr].
    rewrite nth_upd_other by (simpl; lia). fold m.
    destruct (m <? 12) eqn:E2; zb.
    + rewrite chk32_ok by lia. cbn [bindr].
      rewrite (wr_ok "date" _ 1) by (rewrite Zlen_upd; lia). exact I.
    + rewrite (rd_ok "date" 0 _ 0) by (rewrite Zlen_upd; lia). cbn [bindr].
      rewrite nth_upd_other by (simpl; lia). fold y.
      cbn [andb]. destruct (y =? 2147483647) eqn:E3; zb; [exact I|].
      rewrite (wr_ok "date" _ 1) by (rewrite Zlen_upd; lia). cbn [bindr].
      rewrite chk32_ok by lia. cbn [bindr].
      rewrite (wr_ok "date" _ 0) by (rewrite !Zlen_upd; lia). exact I.
Qed.

Lemma add1day_pinned_unsafe : add1day false [2147483647; 12; 31] = Fail Overflow.
Proof. vm_compute. reflexivity. Qed.

Lemma comparedates_safe : forall d1 d2, Zlen d1 = 3 -> Zlen d2 = 3 -> safe (comparedates d1 d2).
Proof.
  intros d1 d2 H1 H2. unfold comparedates.
  acc3. acc3. destruct (_ <? _); [exact I|]. destruct (_ <? _); [exact I|].
  acc3. acc3. destruct (_ <? _); [exact I|]. destruct (_ <? _); [exact I|].
  acc3. acc3. destruct (_ <? _); [exact I|]. destruct (_ <? _); exact I.
Qed.

(* getdate on the pinned code: NaN and huge day numbers are converted to int *)
Lemma getdate_pinned_unsafe : getdate F64 false 0x1p+1000%float [0; 0; 0] = Fail CastRange.
Proof. vm_compute. reflexivity. Qed.
Lemma getdate_pinned_unsafe_nan : getdate F64 false nan [0; 0; 0] = Fail CastRange.
Proof. vm_compute. reflexivity. Qed.
Lemma getdate_fixed_rejects : getdate F64 true 0x1p+1000%float [0; 0; 0] = Ret 1 [0; 0; 0] /\
                              getdate F64 true nan [0; 0; 0] = Ret 1 [0; 0; 0] /\
                              getdate F64 true 20000229%float [0; 0; 0] = Ret 0 [2000; 2; 29].
Proof. vm_compute. repeat split. Qed.

(* ================================================================== *)
(* c_dateutils_getdate over the reals with a NaN: any day number *)
From Coq Require Import Reals Lra.

Lemma Int_part_bounds (x : R) : (IZR (Int_part x) <= x < IZR (Int_part x) + 1)%R.
Proof. destruct (base_Int_part x). lra. Qed.

Lemma getdate_safe_RN : forall day date, Zlen date = 3 -> safe (getdate RN true day date).
Proof.
  intros [x|] date Hl; unfold getdate; cbn [andb nisnan RN orb]; [|exact I].
  cbn [nltb RN ocmp n0 nofZ].
  unfold Rltb. destruct (Rlt_dec x 0) as [H0|H0]; [exact I|].
  destruct (Rlt_dec (IZR 2147483647) x) as [H1|H1]; [exact I|]. cbn [orb].
  apply Rnot_lt_le in H0. apply Rnot_lt_le in H1.
  unfold c1em4, c1em2. cbn [nmul ndiv n1 nofZ RN olift2 ntrunc obind].
  unfold R_trunc.
  set (xa := (x * (1 / IZR 10000))%R). set (xb := (x * (1 / IZR 100))%R).
  assert (Hxa : (0 <= xa)%R) by (unfold xa; lra).
  assert (Hxb : (0 <= xb)%R) by (unfold xb; lra).
  destruct (Rle_dec 0 xa) as [_|C]; [|contradiction].
  destruct (Rle_dec 0 xb) as [_|C]; [|contradiction].
  destruct (Rle_dec 0 x) as [_|C]; [|contradiction].
  set (a := Int_part xa). set (b := Int_part xb). set (d := Int_part x).
  assert (Ba := Int_part_bounds xa). assert (Bb := Int_part_bounds xb). assert (Bd := Int_part_bounds x).
  fold a in Ba. fold b in Bb. fold d in Bd.
  assert (A0 : 0 <= a) by (apply Z.lt_succ_r; apply lt_IZR; rewrite succ_IZR; lra).
  assert (A1 : a <= 214748) by (assert (a < 214749) by (apply lt_IZR; unfold xa in *; lra); lia).
  assert (B0 : 100 * a <= b).
  { apply Z.lt_succ_r. apply lt_IZR. rewrite succ_IZR, mult_IZR. unfold xa, xb in *. lra. }
  assert (B1 : b <= 100 * a + 99).
  { apply Z.lt_succ_r. apply lt_IZR. rewrite succ_IZR, plus_IZR, mult_IZR. unfold xa, xb in *. lra. }
  assert (D0 : 100 * b <= d).
  { apply Z.lt_succ_r. apply lt_IZR. rewrite succ_IZR, mult_IZR. unfold xb in *. lra. }
  assert (D1 : d <= 100 * b + 99).
  { apply Z.lt_succ_r. apply lt_IZR. rewrite succ_IZR, plus_IZR, mult_IZR. unfold xb in *. lra. }
  assert (D2 : d <= 2147483647) by (apply le_IZR; lra).
  unfold cast32, in_int32.
  replace ((-2147483648 <=? a) && (a <=? 2147483647)) with true
    by (symmetry; apply andb_true_intro; split; apply Z.leb_le; lia).
  cbn [bindr].
  replace ((-2147483648 <=? b) && (b <=? 2147483647)) with true
    by (symmetry; apply andb_true_intro; split; apply Z.leb_le; lia).
  cbn [bindr].
  rewrite (chk32_ok (a * 100)) by lia. cbn [bindr].
  rewrite (chk32_ok (b - a * 100)) by lia. cbn [bindr].
  replace ((-2147483648 <=? d) && (d <=? 2147483647)) with true
    by (symmetry; apply andb_true_intro; split; apply Z.leb_le; lia).
  cbn [bindr].
  rewrite (chk32_ok (a * 10000)) by lia. cbn [bindr].
  rewrite (chk32_ok (d - a * 10000)) by lia. cbn [bindr].
  rewrite (chk32_ok ((b - a * 100) * 100)) by lia. cbn [bindr].
  rewrite (chk32_ok (d - a * 10000 - (b - a * 100) * 100)) by lia. cbn [bindr].
  destruct ((b - a * 100 <? 0) || (12 <? b - a * 100)); [exact I|].
  destruct (daysinmonth_ok a (b - a * 100)) as (n & En & _). rewrite En. cbn [bindr].
  destruct (_ || _); [exact I|].
  acc3. rewrite (wr_ok "date" _ 1) by (rewrite Zlen_upd; lia). cbn [bindr].
  rewrite (wr_ok "date" _ 2) by (rewrite !Zlen_upd; lia). exact I.
Qed.
