(* Lemmas about Model/Scores.v, part 5: the Spearman branch of corr
   (model of scipy.stats.spearmanr = Pearson correlation of the mid-ranks).
   It depends only on the order of the values; a perfect simulation scores 1. *)
From Coq Require Import ZArith Bool List Reals Lra Lia.
From Hy Require Import Base.Num Gen.Consts Gen.ConstsC04 Model.Scores
  Proofs.ScoresProofs Proofs.ScoresRealProofs.
Import ListNotations.
Open Scope R_scope.

Definition clt (v : R) (l : list R) : Z := count_if (fun w => Rltb w v) l.
Definition ceq (v : R) (l : list R) : Z := count_if (fun w => Reqb w v) l.
Definition rankR (l : list R) (v : R) : R := IZR (2 * clt v l + ceq v l + 1) / 2.

Lemma midrank_R l : midrank RR l = map (rankR l) l.
Proof. reflexivity. Qed.

Lemma count_if_ext {A} (p q : A -> bool) l :
  (forall x, In x l -> p x = q x) -> count_if p l = count_if q l.
Proof.
  intros H. unfold count_if. f_equal. f_equal.
  induction l as [|a l IH]; simpl; [reflexivity|].
  rewrite (H a) by (left; reflexivity). rewrite IH; [reflexivity|]. intros; apply H; now right.
Qed.

Lemma count_if_map {A B} (f : A -> B) (p : B -> bool) l :
  count_if p (map f l) = count_if (fun x => p (f x)) l.
Proof.
  unfold count_if. f_equal. induction l as [|a l IH]; simpl; [reflexivity|].
  destruct (p (f a)); simpl; now rewrite IH.
Qed.

(* ---- only the order matters ---- *)
Section Monotone.
Variable f : R -> R.
Hypothesis f_incr : forall a b, a < b -> f a < f b.

Lemma f_ltb a b : Rltb (f a) (f b) = Rltb a b.
Proof.
  destruct (Rltb a b) eqn:E.
  - apply Rltb_true in E. apply Rltb_true. now apply f_incr.
  - apply Rltb_false in E. apply Rltb_false.
    destruct E as [E|E]; [left; now apply f_incr | right; now rewrite E].
Qed.

Lemma f_eqb a b : Reqb (f a) (f b) = Reqb a b.
Proof.
  destruct (Reqb a b) eqn:E.
  - apply Reqb_true in E. apply Reqb_true. now rewrite E.
  - apply Reqb_false in E. apply Reqb_false. intros H.
    destruct (Rtotal_order a b) as [Hlt|[Heq|Hgt]]; [|contradiction|].
    + apply f_incr in Hlt. lra.
    + apply f_incr in Hgt. lra.
Qed.

Lemma midrank_monotone l : midrank RR (map f l) = midrank RR l.
Proof.
  rewrite !midrank_R, map_map. apply map_ext. intros v. unfold rankR, clt, ceq.
  rewrite !count_if_map.
  rewrite (count_if_ext (fun x => Rltb (f x) (f v)) (fun w => Rltb w v)) by (intros; apply f_ltb).
  rewrite (count_if_ext (fun x => Reqb (f x) (f v)) (fun w => Reqb w v)) by (intros; apply f_eqb).
  reflexivity.
Qed.

Lemma all_equal_first_monotone l : all_equal_first RR (map f l) = all_equal_first RR l.
Proof.
  destruct l as [|a l]; [reflexivity|]. unfold all_equal_first. cbn [map neqb RR].
  change (f a :: map f l) with (map f (a :: l)). generalize (a :: l) as m. intros m.
  induction m as [|x m IH]; simpl; [reflexivity|]. now rewrite f_eqb, IH.
Qed.
End Monotone.

Lemma existsb_nan_RR l : existsb (nisnan RR) l = false.
Proof. induction l; simpl; auto. Qed.

(* Spearman correlation is unchanged by strictly increasing maps of either series *)
Lemma spearman_monotone f g x y :
  (forall a b, a < b -> f a < f b) -> (forall a b, a < b -> g a < g b) ->
  spearman RR (map f x) (map g y) = spearman RR x y.
Proof.
  intros Hf Hg. unfold spearman. rewrite !map_length.
  rewrite (all_equal_first_monotone f Hf), (all_equal_first_monotone g Hg).
  rewrite !existsb_nan_RR.
  now rewrite (midrank_monotone f Hf), (midrank_monotone g Hg).
Qed.

(* ---- ranks of different values differ ---- *)
Lemma count_if_nonneg {A} (p : A -> bool) l : (0 <= count_if p l)%Z.
Proof. unfold count_if. lia. Qed.

Lemma count_if_cons {A} (p : A -> bool) a l :
  count_if p (a :: l) = ((if p a then 1 else 0) + count_if p l)%Z.
Proof. unfold count_if. simpl. destruct (p a); simpl length; lia. Qed.

Lemma ceq_pos v l : In v l -> (1 <= ceq v l)%Z.
Proof.
  unfold ceq. induction l as [|a l IH]; intros H; [contradiction|].
  rewrite count_if_cons. pose proof (count_if_nonneg (fun w => Reqb w v) l).
  destruct H as [->|H].
  - assert (E : Reqb v v = true) by (now apply Reqb_true). rewrite E. lia.
  - specialize (IH H). destruct (Reqb a v); lia.
Qed.

Lemma clt_step a b l : a < b -> (clt a l + ceq a l <= clt b l)%Z.
Proof.
  intros Hab. unfold clt, ceq. induction l as [|w l IH]; [unfold count_if; simpl; lia|].
  rewrite !count_if_cons.
  destruct (Rltb w a) eqn:E1, (Reqb w a) eqn:E2, (Rltb w b) eqn:E3;
    repeat match goal with
           | H : Rltb _ _ = true |- _ => apply Rltb_true in H
           | H : Rltb _ _ = false |- _ => apply Rltb_false in H
           | H : Reqb _ _ = true |- _ => apply Reqb_true in H
           | H : Reqb _ _ = false |- _ => apply Reqb_false in H
           end; try lia; try lra.
Qed.

Lemma rank_lt a b l : In a l -> In b l -> a < b -> rankR l a < rankR l b.
Proof.
  intros Ha Hb Hab. unfold rankR.
  pose proof (clt_step a b l Hab). pose proof (ceq_pos a l Ha). pose proof (ceq_pos b l Hb).
  assert (Hz : (2 * clt a l + ceq a l + 1 < 2 * clt b l + ceq b l + 1)%Z) by lia.
  apply IZR_lt in Hz. lra.
Qed.

(* ---- a list with two different values has a positive spread ---- *)
Lemma SS_pos_two_values u w l : In u l -> In w l -> u <> w -> 0 < SS l.
Proof.
  intros Hu Hw Hne. pose proof (SS_nonneg l) as H0.
  destruct (Req_dec (SS l) 0) as [E|E]; [exfalso|lra].
  unfold SS in E.
  assert (Hall : forall x, In x l -> (x - meanR l) * (x - meanR l) = 0).
  { apply (sumR_zero_all (fun x => (x - meanR l) * (x - meanR l))); [|exact E].
    intros x. apply Rle_0_sqr. }
  pose proof (Hall u Hu) as E1. pose proof (Hall w Hw) as E2.
  apply Rmult_integral in E1. apply Rmult_integral in E2.
  apply Hne. destruct E1, E2; lra.
Qed.

Lemma all_equal_SS0 l : all_equal_first RR l = true -> SS l = 0.
Proof.
  destruct l as [|h t]; [reflexivity|]. unfold all_equal_first. cbn [neqb RR]. intros H.
  assert (Hall : forall x, In x (h :: t) -> x = h).
  { intros x Hx. rewrite forallb_forall in H. specialize (H x Hx). apply Reqb_true in H. now symmetry. }
  assert (Hm : meanR (h :: t) = h).
  { unfold meanR.
    assert (Hs : sumR (h :: t) = h * lenR (h :: t)).
    { rewrite <- (sumR_map_const h (h :: t)), <- (map_id (h :: t)) at 1.
      apply sumR_map_ext. intros x Hx. now apply Hall. }
    rewrite Hs. field. pose proof (lenR_pos (h :: t) ltac:(discriminate)). lra. }
  unfold SS. rewrite Hm.
  rewrite (sumR_map_ext _ (fun _ => 0)).
  - rewrite sumR_map_const. ring.
  - intros x Hx. rewrite (Hall x Hx). ring.
Qed.

(* a positive spread: two values in strict order *)
Lemma SS_pos_ordered_pair l : 0 < SS l -> exists a b, In a l /\ In b l /\ a < b.
Proof.
  intros Hs.
  destruct (all_equal_first RR l) eqn:E; [rewrite (all_equal_SS0 l E) in Hs; lra|].
  destruct l as [|h t]; [discriminate|]. unfold all_equal_first in E. cbn [neqb RR] in E.
  assert (Hex : exists v, In v (h :: t) /\ h <> v).
  { clear Hs. revert E. generalize (h :: t) as m. intros m. induction m as [|x m IH]; simpl; [discriminate|].
    destruct (Reqb h x) eqn:Ex; simpl.
    - intros Hm. destruct (IH Hm) as (v & Hv & Hne). exists v. split; [now right|exact Hne].
    - intros _. apply Reqb_false in Ex. exists x. split; [now left|exact Ex]. }
  destruct Hex as (v & Hv & Hne).
  destruct (Rtotal_order h v) as [Hlt|[Heq|Hgt]]; [|contradiction|].
  - exists h, v. repeat split; [now left | exact Hv | exact Hlt].
  - exists v, h. repeat split; [exact Hv | now left | exact Hgt].
Qed.

Lemma SS_midrank_pos l : 0 < SS l -> 0 < SS (midrank RR l).
Proof.
  intros Hs. destruct (SS_pos_ordered_pair l Hs) as (a & b & Ha & Hb & Hab).
  rewrite midrank_R.
  apply (SS_pos_two_values (rankR l a) (rankR l b)); [now apply in_map | now apply in_map|].
  pose proof (rank_lt a b l Ha Hb Hab). lra.
Qed.

(* the series against itself *)
Lemma spearman_self x : 0 < SS x -> spearman RR x x = 1.
Proof.
  intros Hs. unfold spearman.
  pose proof (SS_pos_two x Hs) as H2.
  assert (E1 : Nat.leb (length x) 1 = false) by (apply Nat.leb_gt; lia).
  rewrite E1.
  destruct (all_equal_first RR x) eqn:E2; [rewrite (all_equal_SS0 x E2) in Hs; lra|].
  cbn [orb]. rewrite existsb_nan_RR. cbn [orb].
  rewrite pearson_R; [| reflexivity | now apply SS_midrank_pos | now apply SS_midrank_pos].
  apply pearsonR_self. now apply SS_midrank_pos.
Qed.

(* corr, Spearman type, on a one-member ensemble *)
Lemma corr_single_spearman_R fwd excl st obs sim :
  length obs = length sim -> obs <> [] -> EPS <= sdR (map fwd obs) ->
  corr RR EPS fwd excl st CSpearman obs (map (fun v => [v]) sim) =
  SVal (spearman RR (map fwd obs) (map fwd sim)).
Proof.
  intros Hl Hne Ho. unfold corr, corr_p. rewrite !map_length, Hl, Nat.eqb_refl. cbn [negb].
  set (L := combine (map (fun x => (x, fwd x)) obs)
                    (map (map (fun x => (x, fwd x))) (map (fun v => [v]) sim))).
  assert (Hf : filter (row_valid RR) L = L).
  { unfold L. clear. revert sim. induction obs as [|a o IH]; intros [|b s]; simpl; try reflexivity.
    now rewrite IH. }
  rewrite Hf.
  assert (H1 : map (fun r : (R * R) * list (R * R) => snd (fst r)) L = map fwd obs).
  { unfold L. clear -Hl. revert sim Hl. induction obs as [|a o IH]; intros [|b s] Hl; simpl in *;
      try reflexivity; try discriminate. f_equal. apply IH. lia. }
  assert (H2 : map (fun r : (R * R) * list (R * R) => rowstat RR st (map snd (snd r))) L = map fwd sim).
  { unfold L. clear -Hl. revert sim Hl. induction obs as [|a o IH]; intros [|b s] Hl; simpl in *;
      try reflexivity; try discriminate. rewrite rowstat_single. f_equal. apply IH. lia. }
  destruct L as [|r0 L'] eqn:EL.
  - exfalso. destruct obs; [congruence|]. destruct sim; [discriminate|]. unfold L in EL. discriminate.
  - rewrite H1, H2.
    rewrite with_excl_RR; [| now rewrite !map_length | destruct obs; [congruence|discriminate]].
    pose proof EPS_pos. unfold corr_core. rewrite std_R. cbn [nltb nabs RR].
    rewrite (Rabs_pos_eq (sdR (map fwd obs))) by apply sdR_nonneg.
    destruct (Rltb (sdR (map fwd obs)) EPS) eqn:E; [apply Rltb_true in E; lra|]. reflexivity.
Qed.

Lemma perfect_corr_spearman fwd excl st obs :
  EPS <= sdR (map fwd obs) ->
  corr RR EPS fwd excl st CSpearman obs (map (fun v => [v]) obs) = SVal 1.
Proof.
  intros Hs. pose proof EPS_pos.
  assert (Hp : 0 < SS (map fwd obs)) by (apply sdR_pos_SS; lra).
  assert (obs <> []) by (intros ->; simpl in Hp; rewrite SS_nil in Hp; lra).
  rewrite corr_single_spearman_R by auto. now rewrite spearman_self.
Qed.
