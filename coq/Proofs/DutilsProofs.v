(* Theorems about Model/Dutils.v, part 1: c_aggregate / c_flathomogen and their
   Python wrappers (property C08).

   Missing data is explicit: the kernels are instantiated with [RN]
   ([option R], [None] = NaN).  The specification is written with
   [runs] (maximal runs of equal index), [present] (the non-missing values of
   a group), [nmiss] (the number of missing ones). *)
From Coq Require Import ZArith Bool List Reals Lra Lia.
From Hy Require Import Base.Num Gen.ConstsC08 Model.Dutils.
Import ListNotations.

(* ================================================================== *)
(* 1. groups                                                            *)

Section Runs.
Context {A : Type}.

(* left-to-right grouping of consecutive equal keys; [k] = key of the group
   being filled, [g] = its elements so far *)
Fixpoint runs_acc (k : Z) (g : list A) (l : list (Z * A)) : list (Z * list A) :=
  match l with
  | [] => [(k, g)]
  | (k', x) :: l' =>
      if (k' =? k)%Z then runs_acc k (g ++ [x]) l'
      else (k, g) :: runs_acc k' [x] l'
  end.

Definition runs (l : list (Z * A)) : list (Z * list A) :=
  match l with
  | [] => []
  | (k, _) :: _ => runs_acc k [] l
  end.
End Runs.

(* non-decreasing / strictly increasing sequences of keys *)
Fixpoint nondecr_from (k : Z) (ks : list Z) : Prop :=
  match ks with
  | [] => True
  | k' :: r => (k <= k')%Z /\ nondecr_from k' r
  end.
Definition nondecr (ks : list Z) : Prop :=
  match ks with [] => True | k :: r => nondecr_from k r end.

Fixpoint incr_from (k : Z) (ks : list Z) : Prop :=
  match ks with
  | [] => True
  | k' :: r => (k < k')%Z /\ incr_from k' r
  end.
Definition strictly_incr (ks : list Z) : Prop :=
  match ks with [] => True | k :: r => incr_from k r end.

Lemma nondecr_from_lb k ks : nondecr_from k ks -> Forall (fun k' => (k <= k')%Z) ks.
Proof.
  revert k; induction ks as [|a ks IH]; intros k H; constructor.
  - apply H.
  - destruct H as [H1 H2]. apply IH in H2.
    eapply Forall_impl; [|exact H2]. cbv beta; intros; lia.
Qed.

Lemma incr_from_lb k ks : incr_from k ks -> Forall (fun k' => (k < k')%Z) ks.
Proof.
  revert k; induction ks as [|a ks IH]; intros k H; constructor.
  - apply H.
  - destruct H as [H1 H2]. apply IH in H2.
    eapply Forall_impl; [|exact H2]. cbv beta; intros; lia.
Qed.

Lemma incr_from_NoDup k ks : incr_from k ks -> NoDup (k :: ks).
Proof.
  revert k; induction ks as [|a ks IH]; intros k H.
  - constructor; [intros []|constructor].
  - constructor.
    + apply incr_from_lb in H. rewrite Forall_forall in H.
      intros Hin. apply H in Hin. lia.
    + apply IH, H.
Qed.

Section RunsFacts.
Context {A : Type}.
Implicit Types (l : list (Z * A)) (g : list A).

Lemma runs_acc_concat k g l :
  concat (map snd (runs_acc k g l)) = g ++ map snd l.
Proof.
  revert k g; induction l as [|[k' x] l IH]; intros k g; simpl.
  - rewrite app_nil_r; reflexivity.
  - destruct (k' =? k)%Z; simpl.
    + rewrite IH, <- app_assoc; reflexivity.
    + rewrite IH; reflexivity.
Qed.

Lemma runs_concat l : concat (map snd (runs l)) = map snd l.
Proof.
  destruct l as [|[k x] l]; [reflexivity|].
  unfold runs. apply (runs_acc_concat k []).
Qed.

(* the keys of the groups: the first is the current key *)
Lemma runs_acc_keys_head k g l :
  exists ks, map fst (runs_acc k g l) = k :: ks.
Proof.
  revert k g; induction l as [|[k' x] l IH]; intros k g; simpl.
  - exists []; reflexivity.
  - destruct (k' =? k)%Z.
    + apply IH.
    + eexists; reflexivity.
Qed.

Lemma runs_acc_keys_incr k g l :
  nondecr_from k (map fst l) ->
  exists ks, map fst (runs_acc k g l) = k :: ks /\ incr_from k ks.
Proof.
  revert k g; induction l as [|[k' x] l IH]; intros k g H; simpl in *.
  - exists []; split; [reflexivity|exact I].
  - destruct H as [H1 H2]. destruct (Z.eqb_spec k' k) as [->|Hne].
    + apply IH; exact H2.
    + destruct (IH k' [x] H2) as (ks & E & Hi).
      exists (k' :: ks). simpl. rewrite E. split; [reflexivity|].
      split; [lia|exact Hi].
Qed.

Lemma runs_acc_keys_in k g l k' :
  In k' (map fst (runs_acc k g l)) <-> k' = k \/ In k' (map fst l).
Proof.
  revert k g; induction l as [|[k1 x] l IH]; intros k g; simpl.
  - intuition.
  - destruct (Z.eqb_spec k1 k) as [->|Hne]; simpl.
    + rewrite IH. intuition.
    + rewrite IH. intuition.
Qed.

(* every group is non-empty as soon as the current one is *)
Lemma runs_acc_nonempty k g l :
  g <> [] -> Forall (fun kg => snd kg <> []) (runs_acc k g l).
Proof.
  revert k g; induction l as [|[k1 x] l IH]; intros k g Hg; simpl.
  - constructor; [exact Hg|constructor].
  - destruct (k1 =? k)%Z.
    + apply IH. destruct g; discriminate.
    + constructor; [exact Hg|]. apply IH; discriminate.
Qed.

Lemma runs_nonempty l : Forall (fun kg => snd kg <> []) (runs l).
Proof.
  destruct l as [|[k x] l]; [constructor|].
  unfold runs. simpl. rewrite Z.eqb_refl. apply runs_acc_nonempty. discriminate.
Qed.

Lemma runs_acc_length k g l :
  (length (runs_acc k g l) <= S (length l))%nat.
Proof.
  revert k g; induction l as [|[k1 x] l IH]; intros k g; simpl; [lia|].
  destruct (k1 =? k)%Z.
  - specialize (IH k (g ++ [x])). lia.
  - simpl. specialize (IH k1 [x]). lia.
Qed.

(* with a non-decreasing index, a group holds exactly the elements carrying
   its key *)
Definition with_key (k : Z) l : list A :=
  map snd (filter (fun p => (fst p =? k)%Z) l).

Lemma with_key_none k l :
  Forall (fun k' => (k < k')%Z) (map fst l) -> with_key k l = [].
Proof.
  unfold with_key. induction l as [|[k1 x] l IH]; intros H; [reflexivity|].
  simpl in *. inversion H; subst.
  destruct (Z.eqb_spec k1 k); [lia|]. apply IH; assumption.
Qed.

Lemma runs_acc_group k g l k' g' :
  nondecr_from k (map fst l) ->
  In (k', g') (runs_acc k g l) ->
  g' = (if (k' =? k)%Z then g else []) ++ with_key k' l.
Proof.
  revert k g; induction l as [|[k1 x] l IH]; intros k g Hs Hin; simpl in *.
  - destruct Hin as [E|[]]. inversion E; subst.
    rewrite Z.eqb_refl, app_nil_r. reflexivity.
  - destruct Hs as [H1 H2]. unfold with_key; simpl.
    destruct (Z.eqb_spec k1 k) as [->|Hne].
    + specialize (IH k (g ++ [x]) H2 Hin). rewrite IH.
      destruct (Z.eqb_spec k' k) as [->|Hne'].
      * rewrite Z.eqb_refl. simpl. rewrite <- app_assoc. reflexivity.
      * destruct (Z.eqb_spec k k'); [congruence|]. reflexivity.
    + destruct Hin as [E|Hin].
      * inversion E; subst. rewrite Z.eqb_refl.
        destruct (Z.eqb_spec k1 k'); [congruence|].
        fold (with_key k' l). rewrite with_key_none; [rewrite app_nil_r; reflexivity|].
        apply nondecr_from_lb in H2.
        eapply Forall_impl; [|exact H2]. cbv beta; intros; lia.
      * assert (Hk : k' = k1 \/ In k' (map fst l)).
        { apply (runs_acc_keys_in k1 [x] l). apply in_map_iff.
          exists (k', g'); split; [reflexivity|exact Hin]. }
        assert (Hgt : (k < k')%Z).
        { destruct Hk as [->|Hk]; [lia|].
          apply nondecr_from_lb in H2. rewrite Forall_forall in H2.
          specialize (H2 _ Hk). lia. }
        specialize (IH k1 [x] H2 Hin). rewrite IH.
        destruct (Z.eqb_spec k' k); [lia|].
        destruct (Z.eqb_spec k' k1) as [->|Hne'].
        -- rewrite Z.eqb_refl. reflexivity.
        -- destruct (Z.eqb_spec k1 k'); [congruence|]. reflexivity.
Qed.

End RunsFacts.

(* the three facts that pin [runs] down for a non-decreasing index:
   keys strictly increasing (hence one group per distinct index value, in
   order), same set of keys as the input, each group = the elements with
   that key, in order *)
Lemma runs_keys_incr {A} (l : list (Z * A)) :
  nondecr (map fst l) -> strictly_incr (map fst (runs l)).
Proof.
  destruct l as [|[k x] l]; [intros; exact I|]. intros H.
  unfold runs. simpl. rewrite Z.eqb_refl.
  destruct (runs_acc_keys_incr k [x] l H) as (ks & E & Hi).
  rewrite E. exact Hi.
Qed.

Lemma runs_keys_in {A} (l : list (Z * A)) k :
  In k (map fst (runs l)) <-> In k (map fst l).
Proof.
  destruct l as [|[k0 x] l]; [reflexivity|].
  unfold runs. simpl. rewrite Z.eqb_refl. rewrite runs_acc_keys_in. intuition.
Qed.

Lemma runs_group {A} (l : list (Z * A)) k g :
  nondecr (map fst l) -> In (k, g) (runs l) -> g = with_key k l.
Proof.
  destruct l as [|[k0 x] l]; [intros _ []|]. intros H Hin.
  unfold runs in Hin.
  assert (Hs : nondecr_from k0 (map fst ((k0, x) :: l))) by (simpl; split; [lia|exact H]).
  rewrite (runs_acc_group k0 [] _ k g Hs Hin).
  destruct (k =? k0)%Z; reflexivity.
Qed.

Lemma runs_length_le {A} (l : list (Z * A)) : (length (runs l) <= length l)%nat.
Proof.
  destruct l as [|[k0 x] l]; [simpl; lia|].
  unfold runs. simpl. rewrite Z.eqb_refl.
  pose proof (runs_acc_length k0 [x] l). lia.
Qed.

(* "the index decreases somewhere" *)
Definition decreases_somewhere (ks : list Z) : Prop :=
  exists l1 a b l2, ks = l1 ++ a :: b :: l2 /\ (b < a)%Z.

Lemma nondecr_from_dec k ks : {nondecr_from k ks} + {~ nondecr_from k ks}.
Proof.
  revert k; induction ks as [|a ks IH]; intros k; simpl.
  - left; exact I.
  - destruct (Z_le_dec k a) as [H|H]; [|right; tauto].
    destruct (IH a) as [H'|H']; [left; tauto|right; tauto].
Qed.

Lemma not_nondecr_from_decreases k ks :
  ~ nondecr_from k ks <-> decreases_somewhere (k :: ks).
Proof.
  revert k; induction ks as [|a ks IH]; intros k; simpl.
  - split; [tauto|]. intros (l1 & x & y & l2 & E & _).
    destruct l1 as [|? [|? ?]]; discriminate.
  - split.
    + intros H. destruct (Z_le_dec k a) as [Hle|Hgt].
      * assert (H' : ~ nondecr_from a ks) by tauto.
        apply IH in H'. destruct H' as (l1 & x & y & l2 & E & Hlt).
        exists (k :: l1), x, y, l2. simpl. rewrite E. split; [reflexivity|exact Hlt].
      * exists [], k, a, ks. split; [reflexivity|lia].
    + intros (l1 & x & y & l2 & E & Hlt) [H1 H2].
      destruct l1 as [|z l1]; simpl in E.
      * inversion E; subst. lia.
      * inversion E; subst. apply (proj2 (IH a)); [|exact H2].
        exists l1, x, y, l2. split; [assumption|exact Hlt].
Qed.

Lemma not_nondecr_decreases ks : ~ nondecr ks <-> decreases_somewhere ks.
Proof.
  destruct ks as [|k ks]; simpl.
  - split; [tauto|]. intros (l1 & x & y & l2 & E & _). destruct l1; discriminate.
  - apply not_nondecr_from_decreases.
Qed.

(* ================================================================== *)
(* 2. the int32 conversion of the wrapper                               *)

Lemma to_int32_id z : in_int32 z -> to_int32 z = z.
Proof.
  unfold in_int32, to_int32. intros H.
  rewrite Z.mod_small; lia.
Qed.

Lemma to_int32_range z : in_int32 (to_int32 z).
Proof.
  unfold in_int32, to_int32.
  pose proof (Z.mod_pos_bound (z + 2147483648) 4294967296 ltac:(lia)). lia.
Qed.

Lemma map_to_int32_id l : Forall in_int32 l -> map to_int32 l = l.
Proof.
  induction 1 as [|z l Hz _ IH]; simpl; [reflexivity|].
  rewrite to_int32_id, IH; auto.
Qed.

(* ================================================================== *)
(* 3. reductions of a group                                             *)

Open Scope R_scope.

Fixpoint lsum (l : list R) : R := match l with [] => 0 | x :: r => x + lsum r end.

Definition lmax (p : list R) : R :=
  match p with [] => 0 | x :: r => fold_left Rmax r x end.

Definition present (g : list (option R)) : list R :=
  flat_map (fun o => match o with Some x => [x] | None => [] end) g.

Definition is_none (o : option R) : bool := match o with None => true | Some _ => false end.
Definition nmiss (g : list (option R)) : Z := Z.of_nat (length (filter is_none g)).

(* the running accumulator of the kernel over the present values *)
Definition acc_val (op : Z) (p : list R) : R :=
  if (op <=? 1)%Z then lsum p
  else if (op =? 2)%Z then lmax p
  else if (op =? 3)%Z then last p 0
  else 0.

(* value of a group that does not exceed maxnan: operator 0 sum, 1 mean,
   2 maximum, 3 last; (operators < 0 behave as 0, operators > 3 give 0; a
   group without any value gives 0) *)
Definition reduce_val (op : Z) (p : list R) : R :=
  if (op =? 1)%Z
  then match p with [] => 0 | _ => lsum p / INR (length p) end
  else acc_val op p.

Definition reduce (op maxnan : Z) (g : list (option R)) : option R :=
  if (maxnan <? nmiss g)%Z then None else Some (reduce_val op (present g)).

(* flathomogen: value written over a group *)
Definition flat_group (maxnan : Z) (g : list (option R)) : list (option R) :=
  if (maxnan <? nmiss g)%Z then map (fun _ => None) g
  else map (fun o => match o with
                     | Some _ => Some (lsum (present g) / INR (length (present g)))
                     | None => None end) g.

Lemma lsum_app l1 l2 : lsum (l1 ++ l2) = lsum l1 + lsum l2.
Proof. induction l1 as [|x l1 IH]; simpl; [lra | rewrite IH; lra]. Qed.

Lemma present_app g1 g2 : present (g1 ++ g2) = present g1 ++ present g2.
Proof. unfold present. apply flat_map_app. Qed.

Lemma present_concat gs : present (concat gs) = concat (map present gs).
Proof.
  induction gs as [|g gs IH]; simpl; [reflexivity|].
  rewrite present_app, IH. reflexivity.
Qed.

Lemma lsum_concat ls : lsum (concat ls) = lsum (map lsum ls).
Proof.
  induction ls as [|l ls IH]; simpl; [reflexivity|].
  rewrite lsum_app, IH. reflexivity.
Qed.

Lemma nmiss_app g1 g2 : nmiss (g1 ++ g2) = (nmiss g1 + nmiss g2)%Z.
Proof. unfold nmiss. rewrite filter_app, app_length. lia. Qed.

Lemma nmiss_nonneg g : (0 <= nmiss g)%Z.
Proof. unfold nmiss; lia. Qed.

Lemma lmax_snoc p v :
  lmax (p ++ [v]) = match p with [] => v | _ => Rmax (lmax p) v end.
Proof.
  destruct p as [|x r]; simpl; [reflexivity|].
  rewrite fold_left_app. reflexivity.
Qed.

(* what [lmax] is: an element of the list, not below any element *)
Lemma fold_Rmax_ge r : forall x, x <= fold_left Rmax r x /\
  Forall (fun y => y <= fold_left Rmax r x) r.
Proof.
  induction r as [|a r IH]; intros x; simpl.
  - split; [lra|constructor].
  - destruct (IH (Rmax x a)) as [H1 H2]. split.
    + eapply Rle_trans; [apply Rmax_l|exact H1].
    + constructor; [|exact H2]. eapply Rle_trans; [apply Rmax_r|exact H1].
Qed.

Lemma fold_Rmax_in r : forall x, fold_left Rmax r x = x \/ In (fold_left Rmax r x) r.
Proof.
  induction r as [|a r IH]; intros x; simpl; [left; reflexivity|].
  destruct (IH (Rmax x a)) as [E|Hin].
  - rewrite E. unfold Rmax. destruct (Rle_dec x a); [right; left|left]; reflexivity.
  - right; right; exact Hin.
Qed.

Lemma lmax_spec p : p <> [] -> In (lmax p) p /\ Forall (fun y => y <= lmax p) p.
Proof.
  destruct p as [|x r]; [congruence|]. intros _. simpl. split.
  - destruct (fold_Rmax_in r x) as [E|H]; [left; symmetry; exact E|right; exact H].
  - destruct (fold_Rmax_ge r x) as [H1 H2]. constructor; assumption.
Qed.

(* ================================================================== *)
(* 4. c_aggregate with explicit missing values                          *)

Notation aggstN := (aggst (T:=option R)).

(* the state after reading one more input of the current group *)
Definition agg_next {T} (N : NumOps T) (upd : Z -> T -> Z -> bool -> T -> T)
           (op : Z) (s1 : aggst (T:=T)) (x : T) : aggst (T:=T) :=
  let valid := negb (nisnan N x) in
  let inp := if valid then x else n0 N in
  let n' := if valid then (ag_n s1 + 1)%Z else ag_n s1 in
  let nan' := if valid then ag_nan s1 else (ag_nan s1 + 1)%Z in
  mkAgg (ag_prev s1) (upd op (ag_agg s1) n' valid inp) n' nan' (ag_count s1) (ag_out s1).

Definition agg_flushed {T} (N : NumOps T) (op maxnan ia : Z) (s : aggst (T:=T)) : aggst (T:=T) :=
  mkAgg ia (n0 N) 0%Z 0%Z (ag_count s + 1)%Z (ag_out s ++ [agg_close N op maxnan s]).

Lemma agg_loop_cons {T} (N : NumOps T) upd op maxnan nval ia x l s :
  agg_loop N upd op maxnan nval ((ia, x) :: l) s =
  if (ia <? ag_prev s)%Z then KErrOrder
  else if negb (ia =? ag_prev s)%Z && (nval <=? ag_count s + 1)%Z then KErrCount
  else agg_loop N upd op maxnan nval l
         (agg_next N upd op (if negb (ia =? ag_prev s)%Z
                             then agg_flushed N op maxnan ia s else s) x).
Proof. reflexivity. Qed.

Definition repr (op : Z) (s : aggstN) (g : list (option R)) : Prop :=
  ag_agg s = Some (acc_val op (present g)) /\
  ag_n s = Z.of_nat (length (present g)) /\
  ag_nan s = nmiss g.

Lemma repr_flushed op maxnan ia s : repr op (agg_flushed RN op maxnan ia s) [].
Proof.
  unfold repr, agg_flushed, acc_val; simpl.
  repeat split. destruct (op <=? 1)%Z, (op =? 2)%Z, (op =? 3)%Z; reflexivity.
Qed.

Lemma repr_next op s g x :
  repr op s g -> repr op (agg_next RN (agg_upd RN) op s x) (g ++ [x]).
Proof.
  intros (Ha & Hn & Hm). unfold repr, agg_next. cbn [ag_agg ag_n ag_nan].
  rewrite present_app, nmiss_app, app_length. rewrite Ha, Hn, Hm.
  destruct x as [v|]; cbn [nisnan RN negb present flat_map app length nmiss filter is_none n0].
  - (* a number *)
    split; [|split; [lia|unfold nmiss; simpl; lia]].
    unfold agg_upd, acc_val.
    destruct (op <=? 1)%Z.
    { cbn. rewrite lsum_app. simpl. f_equal. lra. }
    destruct (op =? 2)%Z.
    { rewrite lmax_snoc. destruct (present g) as [|p0 pr] eqn:Ep.
      - simpl. reflexivity.
      - replace (Z.of_nat (length (p0 :: pr)) + 1 =? 1)%Z with false
          by (symmetry; apply Z.eqb_neq; simpl length; lia).
        cbn [orb nltb RN ocmp].
        destruct (Rltb (lmax (p0 :: pr)) v) eqn:El.
        + apply Rltb_true in El. rewrite Rmax_right by lra. reflexivity.
        + apply Rltb_false in El. rewrite Rmax_left by lra. reflexivity. }
    destruct (op =? 3)%Z.
    { rewrite last_last. reflexivity. }
    reflexivity.
  - (* missing *)
    rewrite app_nil_r. split; [|split; [simpl; lia|unfold nmiss; simpl; lia]].
    unfold agg_upd, acc_val.
    destruct (op <=? 1)%Z.
    { cbn. f_equal. lra. }
    destruct (op =? 2)%Z; [reflexivity|].
    destruct (op =? 3)%Z; reflexivity.
Qed.

Lemma close_repr op maxnan s g :
  repr op s g -> agg_close RN op maxnan s = reduce op maxnan g.
Proof.
  intros (Ha & Hn & Hm). unfold agg_close, reduce, reduce_val.
  rewrite Ha, Hn, Hm. destruct (maxnan <? nmiss g)%Z; [reflexivity|].
  destruct (op =? 1)%Z eqn:E1; simpl andb; [|reflexivity].
  destruct (present g) as [|p0 pr] eqn:Ep.
  - simpl. unfold acc_val. apply Z.eqb_eq in E1. subst op. reflexivity.
  - replace (0 <? Z.of_nat (length (p0 :: pr)))%Z with true
      by (symmetry; apply Z.ltb_lt; simpl length; lia).
    cbn [ndiv nofZ RN olift2]. apply Z.eqb_eq in E1. subst op.
    rewrite INR_IZR_INZ. reflexivity.
Qed.

Lemma agg_loop_spec op maxnan nval : forall l s g,
  repr op s g ->
  nondecr_from (ag_prev s) (map fst l) ->
  (ag_count s + Z.of_nat (length l) < nval)%Z ->
  exists s',
    agg_loop RN (agg_upd RN) op maxnan nval l s = KDone s' /\
    ag_out s' ++ [agg_close RN op maxnan s'] =
      ag_out s ++ map (fun kg => reduce op maxnan (snd kg)) (runs_acc (ag_prev s) g l) /\
    (ag_count s' + 1 = ag_count s + Z.of_nat (length (runs_acc (ag_prev s) g l)))%Z.
Proof.
  induction l as [|[ia x] l IH]; intros s g Hr Hs Hc.
  - exists s. simpl. rewrite (close_repr _ _ _ _ Hr). repeat split; lia.
  - rewrite agg_loop_cons. simpl in Hs. destruct Hs as [Hle Hs].
    destruct (Z.ltb_spec ia (ag_prev s)); [lia|].
    simpl length in Hc.
    destruct (Z.eqb_spec ia (ag_prev s)) as [E|Hne]; cbn [negb andb].
    + (* same group *)
      set (s2 := agg_next RN (agg_upd RN) op s x).
      assert (Hr2 : repr op s2 (g ++ [x])) by (apply repr_next; exact Hr).
      assert (Hp : ag_prev s2 = ag_prev s) by reflexivity.
      destruct (IH s2 (g ++ [x]) Hr2) as (s' & E1 & E2 & E3).
      * rewrite Hp, <- E. exact Hs.
      * change (ag_count s2) with (ag_count s). lia.
      * exists s'. simpl runs_acc. rewrite (proj2 (Z.eqb_eq ia (ag_prev s)) E).
        rewrite Hp in E2, E3. change (ag_out s2) with (ag_out s) in E2.
        change (ag_count s2) with (ag_count s) in E3. auto.
    + (* a new group starts: flush *)
      destruct (Z.leb_spec nval (ag_count s + 1)); [lia|].
      set (s1 := agg_flushed RN op maxnan ia s).
      set (s2 := agg_next RN (agg_upd RN) op s1 x).
      assert (Hr2 : repr op s2 [x]) by (apply (repr_next op s1 []); apply repr_flushed).
      destruct (IH s2 [x] Hr2) as (s' & E1 & E2 & E3).
      * exact Hs.
      * change (ag_count s2) with (ag_count s + 1)%Z. lia.
      * exists s'. simpl runs_acc. rewrite (proj2 (Z.eqb_neq ia (ag_prev s)) Hne).
        change (ag_prev s2) with ia in E2, E3.
        change (ag_out s2) with (ag_out s ++ [agg_close RN op maxnan s]) in E2.
        change (ag_count s2) with (ag_count s + 1)%Z in E3.
        rewrite (close_repr _ _ _ _ Hr) in E2.
        split; [exact E1|]. split.
        -- rewrite E2. simpl. rewrite <- app_assoc. reflexivity.
        -- simpl length. lia.
Qed.

Lemma map_fst_combine {A B} (l1 : list A) (l2 : list B) :
  length l1 = length l2 -> map fst (combine l1 l2) = l1.
Proof.
  revert l2; induction l1 as [|a l1 IH]; intros [|b l2] H; simpl in *;
    try discriminate; [reflexivity|]. f_equal. apply IH. lia.
Qed.

Lemma map_snd_combine {A B} (l1 : list A) (l2 : list B) :
  length l1 = length l2 -> map snd (combine l1 l2) = l2.
Proof.
  revert l2; induction l1 as [|a l1 IH]; intros [|b l2] H; simpl in *;
    try discriminate; [reflexivity|]. f_equal. apply IH. lia.
Qed.

(* the kernel on a non-empty input: one manual step, then the invariant *)
Lemma c_aggregate_spec op maxnan idx xs outbuf :
  length idx = length xs -> (1 <= length xs)%nat -> nondecr idx ->
  let res := map (fun kg => reduce op maxnan (snd kg)) (runs (combine idx xs)) in
  c_aggregate RN (agg_upd RN) (Z.of_nat (length xs)) op maxnan idx xs outbuf =
    KDone (res ++ skipn (length res) outbuf, Z.of_nat (length res)).
Proof.
  intros Hlen Hpos Hs res.
  destruct idx as [|k0 idx]; [simpl in Hlen; lia|].
  destruct xs as [|x0 xs]; [simpl in Hpos; lia|].
  unfold c_aggregate. cbn [combine]. rewrite agg_loop_cons.
  cbn [ag_prev ag_count]. rewrite Z.ltb_irrefl, Z.eqb_refl. cbn [negb andb].
  set (s0 := mkAgg k0 (n0 RN) 0%Z 0%Z 0%Z (@nil (option R))).
  set (s2 := agg_next RN (agg_upd RN) op s0 x0).
  assert (Hr0 : repr op s0 []).
  { unfold repr, s0, acc_val; simpl. repeat split.
    destruct (op <=? 1)%Z, (op =? 2)%Z, (op =? 3)%Z; reflexivity. }
  assert (Hr2 : repr op s2 [x0]) by (apply (repr_next op s0 []); exact Hr0).
  simpl in Hlen. injection Hlen as Hlen.
  destruct (agg_loop_spec op maxnan (Z.of_nat (length (x0 :: xs))) (combine idx xs) s2
              [x0] Hr2) as (s' & E1 & E2 & E3).
  - change (ag_prev s2) with k0.
    rewrite map_fst_combine by exact Hlen. exact Hs.
  - change (ag_count s2) with 0%Z. rewrite combine_length, Hlen, Nat.min_id.
    simpl length. lia.
  - rewrite E1. change (ag_prev s2) with k0 in E2, E3.
    change (ag_out s2) with (@nil (option R)) in E2.
    change (ag_count s2) with 0%Z in E3. simpl app in E2.
    assert (Eres : res = map (fun kg => reduce op maxnan (snd kg))
                             (runs_acc k0 [x0] (combine idx xs))).
    { unfold res, runs. cbn [combine runs_acc]. rewrite Z.eqb_refl. reflexivity. }
    rewrite E2, <- Eres. f_equal. f_equal.
    rewrite Eres, map_length. lia.
Qed.

Theorem aggregate_spec op maxnan idx xs :
  length idx = length xs -> (1 <= length xs)%nat ->
  Forall in_int32 idx -> nondecr idx ->
  py_aggregate RN (agg_upd RN) op maxnan idx xs =
  DOk (map (fun kg => reduce op maxnan (snd kg)) (runs (combine idx xs))).
Proof.
  intros Hlen Hpos H32 Hs. unfold py_aggregate.
  rewrite (proj2 (Nat.eqb_eq _ _) Hlen). cbn [negb].
  rewrite map_to_int32_id by exact H32.
  rewrite c_aggregate_spec by assumption.
  rewrite Nat2Z.id, firstn_app, firstn_all, Nat.sub_diag, firstn_O, app_nil_r.
  reflexivity.
Qed.

(* number of outputs never exceeds the buffer *)
Lemma aggregate_fits_buffer op maxnan (idx : list Z) (xs : list (option R)) :
  length idx = length xs ->
  (length (map (fun kg => reduce op maxnan (snd kg)) (runs (combine idx xs))) <= length xs)%nat.
Proof.
  intros H. rewrite map_length.
  eapply Nat.le_trans; [apply runs_length_le|]. rewrite combine_length, H, Nat.min_id. lia.
Qed.

(* ---- a decreasing index: error code, for ANY arithmetic instance ---- *)

Lemma agg_loop_unordered {T} (N : NumOps T) upd op maxnan nval : forall l s,
  (ag_count s + Z.of_nat (length l) < nval)%Z ->
  ~ nondecr_from (ag_prev s) (map fst l) ->
  agg_loop N upd op maxnan nval l s = KErrOrder.
Proof.
  induction l as [|[ia x] l IH]; intros s Hc Hn.
  - exfalso; apply Hn; exact I.
  - rewrite agg_loop_cons. simpl in Hn. simpl length in Hc.
    destruct (Z.ltb_spec ia (ag_prev s)); [reflexivity|].
    assert (Hn' : ~ nondecr_from ia (map fst l)) by (intros H'; apply Hn; split; [lia|exact H']).
    destruct (Z.eqb_spec ia (ag_prev s)) as [E|Hne]; cbn [negb andb].
    + apply IH.
      * cbn [agg_next ag_count]. lia.
      * cbn [agg_next ag_prev]. rewrite <- E. exact Hn'.
    + destruct (Z.leb_spec nval (ag_count s + 1)); [lia|].
      apply IH.
      * cbn [agg_next agg_flushed ag_count]. lia.
      * cbn [agg_next agg_flushed ag_prev]. exact Hn'.
Qed.

Theorem aggregate_rejects_decreasing {T} (N : NumOps T) upd op maxnan idx (xs : list T) :
  length idx = length xs -> Forall in_int32 idx -> decreases_somewhere idx ->
  py_aggregate N upd op maxnan idx xs = DErrOrder.
Proof.
  intros Hlen H32 Hd. apply not_nondecr_decreases in Hd.
  unfold py_aggregate. rewrite (proj2 (Nat.eqb_eq _ _) Hlen). cbn [negb].
  rewrite map_to_int32_id by exact H32.
  destruct idx as [|k0 idx]; [exfalso; apply Hd; exact I|].
  destruct xs as [|x0 xs]; [discriminate|].
  unfold c_aggregate. cbn [combine]. rewrite agg_loop_cons.
  cbn [ag_prev ag_count]. rewrite Z.ltb_irrefl, Z.eqb_refl. cbn [negb andb].
  simpl in Hlen. injection Hlen as Hlen.
  rewrite agg_loop_unordered; [reflexivity| |].
  - cbn [agg_next ag_count]. rewrite combine_length, Hlen, Nat.min_id. simpl length. lia.
  - cbn [agg_next ag_prev]. rewrite map_fst_combine by exact Hlen. exact Hd.
Qed.

Theorem aggregate_rejects_length {T} (N : NumOps T) upd op maxnan idx (xs : list T) :
  length idx <> length xs -> py_aggregate N upd op maxnan idx xs = DErrLen.
Proof.
  intros H. unfold py_aggregate. rewrite (proj2 (Nat.eqb_neq _ _) H). reflexivity.
Qed.

(* ---- totals ---- *)

Definition somes (l : list R) : list (option R) := map Some l.

Theorem aggregate_sum_conserved maxnan idx xs :
  length idx = length xs -> (1 <= length xs)%nat ->
  Forall in_int32 idx -> nondecr idx ->
  Forall (fun kg => (nmiss (snd kg) <= maxnan)%Z) (runs (combine idx xs)) ->
  exists outs, py_aggregate RN (agg_upd RN) 0 maxnan idx xs = DOk (somes outs) /\
               lsum outs = lsum (present xs).
Proof.
  intros Hlen Hpos H32 Hs Hm.
  exists (map (fun kg => lsum (present (snd kg))) (runs (combine idx xs))). split.
  - rewrite aggregate_spec by assumption. f_equal. unfold somes. rewrite map_map.
    apply map_ext_in. intros kg Hin. rewrite Forall_forall in Hm. specialize (Hm _ Hin).
    unfold reduce. destruct (Z.ltb_spec maxnan (nmiss (snd kg))); [lia|]. reflexivity.
  - rewrite <- (map_snd_combine idx xs Hlen) at 2.
    rewrite <- runs_concat, present_concat, lsum_concat, !map_map. reflexivity.
Qed.

(* ================================================================== *)
(* 5. c_flathomogen                                                     *)

Notation flatstN := (flatst (T:=option R)).

Definition flat_next {T} (N : NumOps T) (s1 : flatst (T:=T)) (x : T) : flatst (T:=T) :=
  let valid := negb (nisnan N x) in
  let inp := if valid then x else n0 N in
  mkFlat (fl_prev s1) (nadd N (fl_agg s1) inp)
         (if valid then (fl_n s1 + 1)%Z else fl_n s1)
         (if valid then fl_nan s1 else (fl_nan s1 + 1)%Z)
         (fl_grp s1 ++ [x]) (fl_out s1).

Definition flat_flushed {T} (N : NumOps T) (maxnan ia : Z) (s : flatst (T:=T)) : flatst (T:=T) :=
  mkFlat ia (n0 N) 0%Z 0%Z [] (fl_out s ++ flat_emit N maxnan s).

Lemma flat_loop_cons {T} (N : NumOps T) maxnan ia x l s :
  flat_loop N maxnan ((ia, x) :: l) s =
  if (ia <? fl_prev s)%Z then KErrOrder
  else flat_loop N maxnan l
         (flat_next N (if negb (ia =? fl_prev s)%Z then flat_flushed N maxnan ia s else s) x).
Proof. reflexivity. Qed.

Definition frepr (s : flatstN) (g : list (option R)) : Prop :=
  fl_agg s = Some (lsum (present g)) /\
  fl_n s = Z.of_nat (length (present g)) /\
  fl_nan s = nmiss g /\ fl_grp s = g.

Lemma frepr_next s g x : frepr s g -> frepr (flat_next RN s x) (g ++ [x]).
Proof.
  intros (Ha & Hn & Hm & Hg). unfold frepr, flat_next. cbn [fl_agg fl_n fl_nan fl_grp].
  rewrite present_app, nmiss_app, app_length, Ha, Hn, Hm, Hg.
  destruct x as [v|]; cbn [nisnan RN negb present flat_map app length n0 nadd olift2].
  - split; [|split; [lia|split; [unfold nmiss; simpl; lia|reflexivity]]].
    rewrite lsum_app. simpl. f_equal. lra.
  - rewrite app_nil_r. split; [|split; [simpl; lia|split; [unfold nmiss; simpl; lia|reflexivity]]].
    f_equal. lra.
Qed.

Lemma emit_frepr maxnan s g : frepr s g -> flat_emit RN maxnan s = flat_group maxnan g.
Proof.
  intros (Ha & Hn & Hm & Hg). unfold flat_emit, flat_group. rewrite Ha, Hn, Hm, Hg.
  destruct (maxnan <? nmiss g)%Z.
  - apply map_ext. intros [v|]; reflexivity.
  - apply map_ext. intros [v|]; [|reflexivity].
    cbn. rewrite <- INR_IZR_INZ. reflexivity.
Qed.

Lemma flat_loop_spec maxnan : forall l s g,
  frepr s g -> nondecr_from (fl_prev s) (map fst l) ->
  exists s',
    flat_loop RN maxnan l s = KDone s' /\
    fl_out s' ++ flat_emit RN maxnan s' =
      fl_out s ++ concat (map (fun kg => flat_group maxnan (snd kg)) (runs_acc (fl_prev s) g l)).
Proof.
  induction l as [|[ia x] l IH]; intros s g Hr Hs.
  - exists s. simpl. rewrite (emit_frepr _ _ _ Hr), app_nil_r. auto.
  - rewrite flat_loop_cons. simpl in Hs. destruct Hs as [Hle Hs].
    destruct (Z.ltb_spec ia (fl_prev s)); [lia|].
    destruct (Z.eqb_spec ia (fl_prev s)) as [E|Hne]; cbn [negb].
    + set (s2 := flat_next RN s x).
      assert (Hr2 : frepr s2 (g ++ [x])) by (apply frepr_next; exact Hr).
      destruct (IH s2 (g ++ [x]) Hr2) as (s' & E1 & E2).
      * change (fl_prev s2) with (fl_prev s). rewrite <- E. exact Hs.
      * exists s'. simpl runs_acc. rewrite (proj2 (Z.eqb_eq ia (fl_prev s)) E).
        change (fl_prev s2) with (fl_prev s) in E2.
        change (fl_out s2) with (fl_out s) in E2. auto.
    + set (s1 := flat_flushed RN maxnan ia s).
      set (s2 := flat_next RN s1 x).
      assert (Hr1 : frepr s1 []).
      { unfold frepr, s1, flat_flushed; simpl. repeat split. }
      assert (Hr2 : frepr s2 [x]) by (apply (frepr_next s1 []); exact Hr1).
      destruct (IH s2 [x] Hr2) as (s' & E1 & E2).
      * exact Hs.
      * exists s'. simpl runs_acc. rewrite (proj2 (Z.eqb_neq ia (fl_prev s)) Hne).
        change (fl_prev s2) with ia in E2.
        change (fl_out s2) with (fl_out s ++ flat_emit RN maxnan s) in E2.
        rewrite (emit_frepr _ _ _ Hr) in E2.
        split; [exact E1|]. rewrite E2. simpl. rewrite <- app_assoc. reflexivity.
Qed.

Theorem flathomogen_spec maxnan idx xs :
  length idx = length xs -> (1 <= length xs)%nat ->
  Forall in_int32 idx -> nondecr idx ->
  py_flathomogen RN maxnan idx xs =
  DOk (concat (map (fun kg => flat_group maxnan (snd kg)) (runs (combine idx xs)))).
Proof.
  intros Hlen Hpos H32 Hs. unfold py_flathomogen.
  rewrite (proj2 (Nat.eqb_eq _ _) Hlen). cbn [negb].
  rewrite map_to_int32_id by exact H32.
  destruct idx as [|k0 idx]; [simpl in Hlen; lia|].
  destruct xs as [|x0 xs]; [simpl in Hpos; lia|].
  unfold c_flathomogen. cbn [combine]. rewrite flat_loop_cons.
  cbn [fl_prev]. rewrite Z.ltb_irrefl, Z.eqb_refl. cbn [negb].
  set (s0 := mkFlat k0 (n0 RN) 0%Z 0%Z (@nil (option R)) (@nil (option R))).
  assert (Hr0 : frepr s0 []) by (unfold frepr, s0; simpl; repeat split).
  assert (Hr2 : frepr (flat_next RN s0 x0) ([] ++ [x0])) by (apply frepr_next; exact Hr0).
  simpl in Hlen. injection Hlen as Hlen.
  destruct (flat_loop_spec maxnan (combine idx xs) _ _ Hr2) as (s' & E1 & E2).
  - change (fl_prev (flat_next RN s0 x0)) with k0.
    rewrite map_fst_combine by exact Hlen. exact Hs.
  - rewrite E1. change (fl_prev (flat_next RN s0 x0)) with k0 in E2.
    change (fl_out (flat_next RN s0 x0)) with (@nil (option R)) in E2. simpl app in E2.
    rewrite E2. unfold runs. cbn [runs_acc]. rewrite Z.eqb_refl. reflexivity.
Qed.

Lemma flat_loop_unordered {T} (N : NumOps T) maxnan : forall l s,
  ~ nondecr_from (fl_prev s) (map fst l) -> flat_loop N maxnan l s = KErrOrder.
Proof.
  induction l as [|[ia x] l IH]; intros s Hn.
  - exfalso; apply Hn; exact I.
  - rewrite flat_loop_cons. simpl in Hn.
    destruct (Z.ltb_spec ia (fl_prev s)); [reflexivity|].
    assert (Hn' : ~ nondecr_from ia (map fst l)) by (intros H'; apply Hn; split; [lia|exact H']).
    apply IH. destruct (Z.eqb_spec ia (fl_prev s)) as [E|Hne]; cbn [negb flat_next flat_flushed fl_prev].
    + rewrite <- E. exact Hn'.
    + exact Hn'.
Qed.

Theorem flathomogen_rejects_decreasing {T} (N : NumOps T) maxnan idx (xs : list T) :
  length idx = length xs -> Forall in_int32 idx -> decreases_somewhere idx ->
  py_flathomogen N maxnan idx xs = DErrOrder.
Proof.
  intros Hlen H32 Hd. apply not_nondecr_decreases in Hd.
  unfold py_flathomogen. rewrite (proj2 (Nat.eqb_eq _ _) Hlen). cbn [negb].
  rewrite map_to_int32_id by exact H32.
  destruct idx as [|k0 idx]; [exfalso; apply Hd; exact I|].
  destruct xs as [|x0 xs]; [discriminate|].
  unfold c_flathomogen. cbn [combine]. rewrite flat_loop_cons.
  cbn [fl_prev]. rewrite Z.ltb_irrefl, Z.eqb_refl. cbn [negb].
  simpl in Hlen. injection Hlen as Hlen.
  rewrite flat_loop_unordered; [reflexivity|].
  cbn [flat_next fl_prev]. rewrite map_fst_combine by exact Hlen. exact Hd.
Qed.

Theorem flathomogen_rejects_length {T} (N : NumOps T) maxnan idx (xs : list T) :
  length idx <> length xs -> py_flathomogen N maxnan idx xs = DErrLen.
Proof.
  intros H. unfold py_flathomogen. rewrite (proj2 (Nat.eqb_neq _ _) H). reflexivity.
Qed.

(* ---- what [flat_group] does to a group ---- *)

Lemma flat_group_length maxnan g : length (flat_group maxnan g) = length g.
Proof. unfold flat_group. destruct (maxnan <? nmiss g)%Z; apply map_length. Qed.

(* positions: missing stays missing; a present value becomes the group mean
   when the group does not exceed maxnan *)
Lemma flat_group_pointwise maxnan g :
  Forall2 (fun x o =>
             match x with
             | None => o = None
             | Some _ => (nmiss g <= maxnan)%Z ->
                         o = Some (lsum (present g) / INR (length (present g)))
             end) g (flat_group maxnan g).
Proof.
  unfold flat_group. set (m := lsum (present g) / INR (length (present g))).
  destruct (Z.ltb_spec maxnan (nmiss g)) as [H|H].
  - assert (G : forall g0 : list (option R), Forall2 (fun (x o : option R) => match x with
        | None => o = None | Some _ => (nmiss g <= maxnan)%Z -> o = Some m end)
        g0 (map (fun _ => None) g0)).
    { induction g0 as [|x g0 IH]; simpl; constructor; [|exact IH].
      destruct x; [intros; lia|reflexivity]. }
    apply G.
  - assert (G : forall g0 : list (option R), Forall2 (fun (x o : option R) => match x with
        | None => o = None | Some _ => (nmiss g <= maxnan)%Z -> o = Some m end)
        g0 (map (fun o => match o with Some _ => Some m | None => None end) g0)).
    { induction g0 as [|x g0 IH]; simpl; constructor; [|exact IH].
      destruct x; [intros; reflexivity|reflexivity]. }
    apply G.
Qed.

Lemma present_flat_group maxnan g :
  (nmiss g <= maxnan)%Z ->
  present (flat_group maxnan g) =
  map (fun _ => lsum (present g) / INR (length (present g))) (present g).
Proof.
  intros H. unfold flat_group. destruct (Z.ltb_spec maxnan (nmiss g)) as [H0|H0]; [lia|].
  generalize (lsum (present g) / INR (length (present g))). intros m.
  clear H H0. induction g as [|[v|] g IH]; simpl; [reflexivity| |exact IH].
  rewrite IH. reflexivity.
Qed.

Lemma lsum_const {A} (l : list A) (m : R) : lsum (map (fun _ => m) l) = INR (length l) * m.
Proof.
  induction l as [|a l IH]; [simpl; lra|].
  cbn [map lsum length]. rewrite IH, S_INR. lra.
Qed.

Theorem flat_group_total maxnan g :
  (nmiss g <= maxnan)%Z -> lsum (present (flat_group maxnan g)) = lsum (present g).
Proof.
  intros H. rewrite present_flat_group by exact H. rewrite lsum_const.
  destruct (present g) as [|p0 pr] eqn:E; [simpl; lra|].
  field. apply not_0_INR. simpl; lia.
Qed.

(* ================================================================== *)
(* 6. whole-output corollaries for flathomogen                          *)

Lemma Forall2_concat {A B} (P : A -> B -> Prop) ls ms :
  Forall2 (Forall2 P) ls ms -> Forall2 P (concat ls) (concat ms).
Proof.
  induction 1 as [|l m ls ms H _ IH]; simpl; [constructor|].
  apply Forall2_app; assumption.
Qed.

Lemma Forall2_weaken {A B} (P Q : A -> B -> Prop) l m :
  (forall a b, P a b -> Q a b) -> Forall2 P l m -> Forall2 Q l m.
Proof. intros H; induction 1; constructor; auto. Qed.

Lemma Forall2_length {A B} (P : A -> B -> Prop) l m : Forall2 P l m -> length l = length m.
Proof. induction 1; simpl; congruence. Qed.

Theorem flathomogen_missing_kept maxnan idx xs :
  length idx = length xs -> (1 <= length xs)%nat ->
  Forall in_int32 idx -> nondecr idx ->
  exists out, py_flathomogen RN maxnan idx xs = DOk out /\
              length out = length xs /\
              Forall2 (fun x o => x = None -> o = None) xs out.
Proof.
  intros Hlen Hpos H32 Hs. eexists. split; [apply flathomogen_spec; assumption|].
  assert (F : Forall2 (fun x o : option R => x = None -> o = None) xs
     (concat (map (fun kg => flat_group maxnan (snd kg)) (runs (combine idx xs))))).
  { rewrite <- (map_snd_combine idx xs Hlen) at 1. rewrite <- runs_concat.
    apply Forall2_concat. generalize (runs (combine idx xs)). intros gs.
    induction gs as [|kg gs IH]; simpl; constructor; [|exact IH].
    pose proof (flat_group_pointwise maxnan (snd kg)) as P.
    eapply Forall2_weaken; [|exact P]. cbv beta. intros x o Hx E. subst x. exact Hx. }
  split; [symmetry; eapply Forall2_length; exact F|exact F].
Qed.

Theorem flathomogen_total_conserved maxnan idx xs :
  length idx = length xs -> (1 <= length xs)%nat ->
  Forall in_int32 idx -> nondecr idx ->
  Forall (fun kg => (nmiss (snd kg) <= maxnan)%Z) (runs (combine idx xs)) ->
  exists out, py_flathomogen RN maxnan idx xs = DOk out /\
              lsum (present out) = lsum (present xs).
Proof.
  intros Hlen Hpos H32 Hs Hm. eexists. split; [apply flathomogen_spec; assumption|].
  rewrite <- (map_snd_combine idx xs Hlen) at 2. rewrite <- runs_concat.
  rewrite !present_concat, !lsum_concat, !map_map.
  f_equal. apply map_ext_in. intros kg Hin. rewrite Forall_forall in Hm.
  apply flat_group_total, Hm, Hin.
Qed.

(* ================================================================== *)
(* 7. the kernel as pinned does NOT meet the specification              *)

Lemma in_int32_small z : (-100 <= z <= 100)%Z -> in_int32 z.
Proof. unfold in_int32; lia. Qed.

(* max: a group of negative values gives 0 *)
Lemma pinned_max_run :
  py_aggregate RN (agg_upd_pinned RN) 2 0 [1; 1]%Z [Some (-1); Some (-2)] = DOk [Some 0].
Proof.
  cbv - [Rltb Rplus Rmult Rdiv Rminus Ropp IZR Rinv].
  rewrite (proj2 (Rltb_false 0 (-1)) ltac:(lra)).
  rewrite (proj2 (Rltb_false 0 (-2)) ltac:(lra)).
  reflexivity.
Qed.

Theorem pinned_max_refuted :
  exists op maxnan idx xs,
    length idx = length xs /\ (1 <= length xs)%nat /\ Forall in_int32 idx /\ nondecr idx /\
    py_aggregate RN (agg_upd_pinned RN) op maxnan idx xs <>
    DOk (map (fun kg => reduce op maxnan (snd kg)) (runs (combine idx xs))).
Proof.
  exists 2%Z, 0%Z, [1; 1]%Z, [Some (-1); Some (-2)].
  repeat split; try (simpl; lia).
  - repeat constructor; apply in_int32_small; lia.
  - rewrite pinned_max_run. cbv [combine runs runs_acc Z.eqb Pos.eqb app map snd reduce nmiss filter is_none
      length Z.of_nat Z.ltb Z.compare present flat_map reduce_val acc_val Z.leb lmax fold_left].
    intros E. injection E as E. unfold Rmax in E. destruct (Rle_dec (-1) (-2)); lra.
Qed.

(* tail: a missing last value (allowed by maxnan) gives 0 *)
Lemma pinned_tail_run :
  py_aggregate RN (agg_upd_pinned RN) 3 1 [2; 2]%Z [Some 3; None] = DOk [Some 0].
Proof.
  cbv - [Rltb Rplus Rmult Rdiv Rminus Ropp IZR Rinv]. reflexivity.
Qed.

Theorem pinned_tail_refuted :
  exists op maxnan idx xs,
    length idx = length xs /\ (1 <= length xs)%nat /\ Forall in_int32 idx /\ nondecr idx /\
    py_aggregate RN (agg_upd_pinned RN) op maxnan idx xs <>
    DOk (map (fun kg => reduce op maxnan (snd kg)) (runs (combine idx xs))).
Proof.
  exists 3%Z, 1%Z, [2; 2]%Z, [Some 3; None].
  repeat split; try (simpl; lia).
  - repeat constructor; apply in_int32_small; lia.
  - rewrite pinned_tail_run. cbv [combine runs runs_acc Z.eqb Pos.eqb app map snd reduce nmiss filter is_none
      length Z.of_nat Pos.of_succ_nat Z.ltb Z.compare Pos.compare Pos.compare_cont present flat_map reduce_val acc_val Z.leb last].
    intros E. injection E as E. lra.
Qed.

(* ================================================================== *)
(* 8. what [reduce] means, operator by operator                         *)

Theorem reduce_meaning op maxnan g :
  ((maxnan < nmiss g)%Z -> reduce op maxnan g = None) /\
  ((nmiss g <= maxnan)%Z ->
     (op = 0%Z -> reduce op maxnan g = Some (lsum (present g))) /\
     (op = 1%Z -> present g <> [] ->
        reduce op maxnan g = Some (lsum (present g) / INR (length (present g)))) /\
     (op = 2%Z -> present g <> [] ->
        exists m, reduce op maxnan g = Some m /\ In m (present g) /\
                  Forall (fun y => y <= m) (present g)) /\
     (op = 3%Z -> present g <> [] ->
        exists p v, present g = p ++ [v] /\ reduce op maxnan g = Some v)).
Proof.
  unfold reduce. split.
  - intros H. destruct (Z.ltb_spec maxnan (nmiss g)); [reflexivity|lia].
  - intros H. destruct (Z.ltb_spec maxnan (nmiss g)); [lia|].
    repeat split.
    + intros ->. reflexivity.
    + intros -> Hp. unfold reduce_val. simpl. destruct (present g); [congruence|reflexivity].
    + intros -> Hp. exists (lmax (present g)). split; [reflexivity|]. apply lmax_spec, Hp.
    + intros -> Hp. destruct (exists_last Hp) as (p & v & E). exists p, v. split; [exact E|].
      unfold reduce_val, acc_val. simpl. rewrite E, last_last. reflexivity.
Qed.

(* ================================================================== *)
(* 9. concrete instances (non-vacuity of the hypotheses)                *)

Definition ex_idx : list Z := [199501; 199501; 199502; 199503; 199503]%Z.
Definition ex_xs : list (option R) := [Some (-1); None; Some (-2); Some 4; Some (-3)].

Lemma ex_hyps :
  length ex_idx = length ex_xs /\ (1 <= length ex_xs)%nat /\
  Forall in_int32 ex_idx /\ nondecr ex_idx.
Proof.
  repeat split; try (simpl; lia).
  repeat constructor; unfold in_int32; lia.
Qed.

Lemma ex_runs :
  runs (combine ex_idx ex_xs) =
  [(199501%Z, [Some (-1); None]); (199502%Z, [Some (-2)]); (199503%Z, [Some 4; Some (-3)])].
Proof. reflexivity. Qed.

(* max with maxnan = 1: the first group is [-1; missing], its maximum is -1 *)
Lemma ex_max :
  py_aggregate RN (agg_upd RN) 2 1 ex_idx ex_xs = DOk [Some (-1); Some (-2); Some 4].
Proof.
  destruct ex_hyps as (H1 & H2 & H3 & H4).
  rewrite aggregate_spec by assumption. rewrite ex_runs.
  cbv [map snd reduce nmiss filter is_none length Z.of_nat Pos.of_succ_nat Z.ltb Z.compare
       Pos.compare Pos.compare_cont present flat_map app reduce_val acc_val Z.eqb Pos.eqb Z.leb lmax fold_left].
  f_equal. f_equal. f_equal. f_equal. unfold Rmax. destruct (Rle_dec 4 (-3)); [lra|reflexivity].
Qed.

Lemma ex_within_maxnan :
  Forall (fun kg => (nmiss (snd kg) <= 1)%Z) (runs (combine ex_idx ex_xs)).
Proof. rewrite ex_runs. repeat constructor; cbv; discriminate. Qed.

Lemma ex_decreasing : decreases_somewhere [199502; 199501; 199503]%Z.
Proof. exists [], 199502%Z, 199501%Z, [199503%Z]. split; [reflexivity|lia]. Qed.
