(* Theorems about Model/Dscore.v (property C10), part 4: the comparison F of
   c_ensrank equals the pairwise mid-rank comparison of Weigel and Mason (2011)
   when any two pooled values are equal or farther apart than the tolerances;
   invariances; ranks. *)
From Coq Require Import ZArith Bool List Reals Lra Lia Permutation Sorted.
From Hy Require Import Base.Num Gen.Consts Gen.ConstsC10 Model.Dscore
                       Proofs.DscoreProofs Proofs.DscoreStatProofs.
Import ListNotations.
Open Scope R_scope.

(* ================================================================== *)
(* real-valued counting                                                *)

Definition ind (b : bool) : R := if b then 1 else 0.
Definition cntR {A} (P : A -> bool) (l : list A) : R := rsumR (map (fun y => ind (P y)) l).

Lemma cntR_app {A} (P : A -> bool) l1 l2 : cntR P (l1 ++ l2) = cntR P l1 + cntR P l2.
Proof. unfold cntR. rewrite map_app, rsumR_app. reflexivity. Qed.

Lemma cntR_perm {A} (P : A -> bool) l l' : Permutation l l' -> cntR P l = cntR P l'.
Proof. intros H. unfold cntR. apply rsumR_perm, Permutation_map, H. Qed.

Lemma cntR_nonneg {A} (P : A -> bool) l : 0 <= cntR P l.
Proof.
  unfold cntR. apply rsumR_nonneg, Forall_forall. intros x Hx.
  apply in_map_iff in Hx. destruct Hx as (y & <- & _). unfold ind. destruct (P y); lra.
Qed.

Lemma cntR_all {A} (P : A -> bool) l :
  (forall y, In y l -> P y = true) -> cntR P l = INR (length l).
Proof.
  induction l as [|a l IH]; intros H; [reflexivity|].
  change (length (a :: l)) with (S (length l)). rewrite S_INR.
  unfold cntR in *. simpl. rewrite (H a (or_introl eq_refl)). unfold ind at 1.
  rewrite IH by (intros y Hy; apply H; right; exact Hy). lra.
Qed.

Lemma cntR_none {A} (P : A -> bool) l :
  (forall y, In y l -> P y = false) -> cntR P l = 0.
Proof.
  induction l as [|a l IH]; intros H; [reflexivity|].
  unfold cntR in *. simpl. rewrite (H a (or_introl eq_refl)). unfold ind at 1.
  rewrite IH by (intros y Hy; apply H; right; exact Hy). lra.
Qed.

Lemma cntR_map {A B} (f : A -> B) (P : B -> bool) l : cntR P (map f l) = cntR (fun a => P (f a)) l.
Proof. unfold cntR. rewrite map_map. reflexivity. Qed.

(* ================================================================== *)
(* step 1: under separation the tolerance comparator is the order of R  *)

Definition lev (a b : R * Z) : bool := Rleb (fst a) (fst b).

(* any two values are equal, or farther apart than the comparator tolerance
   and at least eps apart *)
Definition separated (eps : R) (l : list R) : Prop :=
  forall a b, In a l -> In b l -> a = b \/ (k_cmp_tol KR < Rabs (a - b) /\ eps <= Rabs (a - b)).

Lemma KR_cmp_tol_pos : 0 < k_cmp_tol KR.
Proof. cbn. unfold DS_CMP_TOL_R. lra. Qed.

Lemma ens_le_is_lev eps l a b :
  separated eps l -> In (fst a) l -> In (fst b) l -> ens_le RR KR a b = lev a b.
Proof.
  intros Hs Ha Hb. unfold ens_le, lev. cbn [nltb nsub RR].
  pose proof KR_cmp_tol_pos as Ht.
  destruct (Hs _ _ Ha Hb) as [E|[H1 _]].
  - rewrite E. replace (fst b - fst b) with 0 by lra.
    assert (E1 : Rltb (k_cmp_tol KR) 0 = false) by (apply Rltb_false; lra).
    rewrite E1. symmetry. apply Rleb_true. lra.
  - unfold Rabs in H1. destruct (Rcase_abs (fst a - fst b)).
    + assert (E1 : Rltb (k_cmp_tol KR) (fst a - fst b) = false) by (apply Rltb_false; lra).
      rewrite E1. symmetry. apply Rleb_true. lra.
    + assert (E1 : Rltb (k_cmp_tol KR) (fst a - fst b) = true) by (apply Rltb_true; lra).
      rewrite E1. symmetry. apply Rleb_false. lra.
Qed.

Lemma zenum_app {A} i (l1 l2 : list A) :
  zenum i (l1 ++ l2) = zenum i l1 ++ zenum (i + Z.of_nat (length l1)) l2.
Proof.
  revert i; induction l1 as [|a l1 IH]; intros i; simpl.
  - rewrite Z.add_0_r. reflexivity.
  - rewrite IH. do 3 f_equal. lia.
Qed.

Lemma zenum_bounds {A} i (l : list A) p :
  In p (zenum i l) -> (i <= fst p < i + Z.of_nat (length l))%Z /\ In (snd p) l.
Proof.
  revert i; induction l as [|a l IH]; intros i H; simpl in H; [contradiction|].
  destruct H as [<-|H].
  - simpl. split; [lia|left; reflexivity].
  - destruct (IH _ H) as [H1 H2]. simpl length. split; [lia|right; exact H2].
Qed.

Lemma map_snd_zenum {A} i (l : list A) : map snd (zenum i l) = l.
Proof. revert i; induction l as [|a l IH]; intros i; simpl; [reflexivity|rewrite IH; reflexivity]. Qed.

Lemma pool_fst (e1 e2 : list R) : map fst (pool e1 e2) = e1 ++ e2.
Proof. unfold pool. rewrite map_map. simpl. apply map_snd_zenum. Qed.

Lemma pool_split (e1 e2 : list R) :
  pool e1 e2 =
  map (fun p => (snd p, fst p)) (zenum 0 e1) ++
  map (fun p => (snd p, fst p)) (zenum (Z.of_nat (length e1)) e2).
Proof. unfold pool. rewrite zenum_app, map_app. reflexivity. Qed.

(* ================================================================== *)
(* step 2: the stable sort orders the pooled array lexicographically by
   (value, position)                                                   *)

Definition lexlt (a b : R * Z) : Prop :=
  fst a < fst b \/ (fst a = fst b /\ (snd a < snd b)%Z).

Lemma insert_lex x l :
  StronglySorted lexlt l -> Forall (fun y => (snd x < snd y)%Z) l ->
  StronglySorted lexlt (insert_by lev x l).
Proof.
  intros HS Hidx. induction l as [|y l IH]; simpl.
  - constructor; constructor.
  - inversion HS as [|? ? HSl Hy]; subst. inversion Hidx as [|? ? Hxy Hidx']; subst.
    unfold lev at 1. destruct (Rleb (fst x) (fst y)) eqn:E.
    + apply Rleb_true in E. constructor; [exact HS|].
      constructor.
      * destruct (Rle_lt_or_eq_dec _ _ E) as [Hlt|Heq]; [left; exact Hlt|right; split; assumption].
      * rewrite Forall_forall in *. intros z Hz.
        assert (Hyz : fst y <= fst z) by (destruct (Hy z Hz) as [H|[H _]]; lra).
        destruct (Rle_lt_or_eq_dec (fst x) (fst z) ltac:(lra)) as [Hlt|Heq]; [left; exact Hlt|].
        right; split; [exact Heq|apply Hidx'; exact Hz].
    + apply Rleb_false in E. constructor; [apply IH; assumption|].
      apply (Permutation_Forall (insert_by_perm lev x l)).
      constructor; [left; exact E|exact Hy].
Qed.

Lemma isort_lex l :
  StronglySorted (fun a b : R * Z => (snd a < snd b)%Z) l ->
  StronglySorted lexlt (isort_by lev l).
Proof.
  induction 1 as [|x l HS IH Hx]; simpl; [constructor|].
  apply insert_lex; [exact IH|].
  apply (Permutation_Forall (isort_by_perm lev l)). exact Hx.
Qed.

Lemma zenum_idx_sorted {A} i (l : list A) :
  StronglySorted (fun a b : Z * A => (fst a < fst b)%Z) (zenum i l).
Proof.
  revert i; induction l as [|a l IH]; intros i; simpl; constructor; [apply IH|].
  apply Forall_forall. intros p Hp. apply zenum_bounds in Hp. simpl. lia.
Qed.

Lemma pool_idx_sorted (e1 e2 : list R) :
  StronglySorted (fun a b : R * Z => (snd a < snd b)%Z) (pool e1 e2).
Proof.
  unfold pool. generalize (zenum_idx_sorted 0 (e1 ++ e2)).
  induction 1 as [|x l HS IH Hx]; simpl; constructor; [exact IH|].
  rewrite Forall_forall in *. intros y Hy. apply in_map_iff in Hy.
  destruct Hy as (z & <- & Hz). simpl. apply Hx; exact Hz.
Qed.

(* ================================================================== *)
(* step 3: the scan adds the mid-rank of every first-ensemble member    *)

Section Scan.
Variables (eps : R) (m : Z) (s : list (R * Z)).
Hypothesis eps_pos : 0 < eps.
Hypothesis s_lex : StronglySorted lexlt s.
Hypothesis s_sep : separated eps (map fst s).

Definition Lc (v : R) : R := cntR (fun y : R * Z => Rltb (fst y) v) s.
Definition Ec (v : R) : R := cntR (fun y : R * Z => Reqb (fst y) v) s.
Definition mr (v : R) : R := Lc v + (Ec v + 1) / 2.
Definition contrib (y : R * Z) : R := if (snd y <? m)%Z then mr (fst y) else 0.
Definition target (p : list (R * Z)) : R := rsumR (map contrib p).

Lemma target_app p q : target (p ++ q) = target p + target q.
Proof. unfold target. rewrite map_app, rsumR_app. reflexivity. Qed.

Definition lastv (p : list (R * Z)) : R * Z := last p (0, 0%Z).

(* state after the prefix p has been processed, q remaining *)
Definition Inv (p q : list (R * Z)) (st : @scan R) : Prop :=
  (p <> [] -> sc_prev st = fst (lastv p)) /\
  ((sc_start st = -1 /\ sc_sum st = target p /\
    (forall x q', q = x :: q' -> p <> [] -> fst x = fst (lastv p) -> (m <= snd (lastv p))%Z))
   \/
   (0 <= sc_start st /\ p <> [] /\
    (exists x q', q = x :: q' /\ fst x = fst (lastv p)) /\
    sc_start st = Lc (fst (lastv p)) /\
    sc_end st = INR (length p) - 1 /\
    sc_sum st + sc_nties st * mr (fst (lastv p)) = target p)).

Lemma sorted_app_inv (p q : list (R * Z)) :
  StronglySorted lexlt (p ++ q) ->
  StronglySorted lexlt p /\ StronglySorted lexlt q /\
  (forall a b, In a p -> In b q -> lexlt a b).
Proof.
  induction p as [|a p IH]; simpl; intros H.
  - repeat split; [constructor|exact H|intros ? ? []].
  - inversion H as [|? ? Hs Ha]; subst. destruct (IH Hs) as (H1 & H2 & H3).
    rewrite Forall_forall in Ha. repeat split.
    + constructor; [exact H1|]. apply Forall_forall. intros z Hz. apply Ha, in_or_app; left; exact Hz.
    + exact H2.
    + intros x b [<-|Hx] Hb; [apply Ha, in_or_app; right; exact Hb|apply H3; assumption].
Qed.

Lemma lexlt_fst_le a b : lexlt a b -> fst a <= fst b.
Proof. intros [H|[H _]]; lra. Qed.

Lemma sorted_le_last (p : list (R * Z)) y :
  StronglySorted lexlt p -> In y p -> fst y <= fst (lastv p).
Proof.
  unfold lastv. induction p as [|a p IH]; intros HS Hy; [contradiction|].
  inversion HS as [|? ? HSp Ha]; subst.
  destruct p as [|b p'].
  - destruct Hy as [<-|[]]. simpl. lra.
  - change (last (a :: b :: p') (0, 0%Z)) with (last (b :: p') (0, 0%Z)).
    destruct Hy as [<-|Hy].
    + rewrite Forall_forall in Ha.
      assert (Hl : In (last (b :: p') (0, 0%Z)) (b :: p')).
      { destruct (exists_last (l := b :: p') ltac:(discriminate)) as (l' & z & E).
        rewrite E, last_last. apply in_or_app; right; left; reflexivity. }
      apply lexlt_fst_le, Ha, Hl.
    + apply IH; assumption.
Qed.

Lemma lastv_app p x : lastv (p ++ [x]) = x.
Proof. unfold lastv. apply last_last. Qed.

Lemma lastv_in p : p <> [] -> In (lastv p) p.
Proof.
  intros Hp. unfold lastv. destruct (exists_last Hp) as (l' & z & E).
  rewrite E, last_last. apply in_or_app; right; left; reflexivity.
Qed.

(* values of s are equal or at least eps apart *)
Lemma sep_vals a b : In a s -> In b s -> fst a = fst b \/ eps <= Rabs (fst a - fst b).
Proof.
  intros Ha Hb. destruct (s_sep (fst a) (fst b)) as [E|[_ H]];
    try (apply in_map; assumption); [left; exact E|right; exact H].
Qed.

Lemma diff_same v : Rleb eps (Rabs (v - v)) = false /\ Rltb (Rabs (v - v)) eps = true.
Proof.
  replace (v - v) with 0 by lra. rewrite Rabs_R0. split; [apply Rleb_false|apply Rltb_true]; lra.
Qed.

Lemma diff_far u v : eps <= Rabs (u - v) ->
  Rleb eps (Rabs (u - v)) = true /\ Rltb (Rabs (u - v)) eps = false.
Proof. intros H. split; [apply Rleb_true|apply Rltb_false]; lra. Qed.

(* counts around the element x = (v,i) of s = p ++ x :: q' *)
Lemma counts_new_group p v i q' :
  s = p ++ (v, i) :: q' ->
  (forall y, In y p -> fst y < v) ->
  Lc v = INR (length p).
Proof.
  intros Es Hp. unfold Lc. rewrite Es, cntR_app.
  rewrite (cntR_all _ p) by (intros y Hy; apply Rltb_true, Hp, Hy).
  rewrite (cntR_none _ ((v, i) :: q')); [lra|].
  intros y Hy. apply Rltb_false.
  destruct (sorted_app_inv p ((v, i) :: q') ltac:(rewrite <- Es; exact s_lex)) as (_ & H2 & _).
  destruct Hy as [<-|Hy]; [simpl; lra|].
  inversion H2 as [|? ? _ Hx]; subst. rewrite Forall_forall in Hx.
  specialize (Hx y Hy). apply lexlt_fst_le in Hx. simpl in Hx. lra.
Qed.

Lemma counts_group_end p v i q' :
  s = p ++ (v, i) :: q' ->
  (forall y, In y q' -> v < fst y) ->
  Lc v + Ec v = INR (length p) + 1.
Proof.
  intros Es Hq. unfold Lc, Ec, cntR.
  assert (E : forall l : list (R * Z),
    rsumR (map (fun y => ind (Rltb (fst y) v)) l) + rsumR (map (fun y => ind (Reqb (fst y) v)) l) =
    rsumR (map (fun y => ind (Rleb (fst y) v)) l)).
  { induction l as [|a l IH]; simpl; [lra|]. rewrite <- IH.
    destruct (Rtotal_order (fst a) v) as [H|[H|H]].
    - rewrite (proj2 (Rltb_true _ _) H), (proj2 (Reqb_false (fst a) v) ltac:(intro; lra)),
              (proj2 (Rleb_true (fst a) v) ltac:(lra)). unfold ind; lra.
    - rewrite (proj2 (Rltb_false (fst a) v) ltac:(lra)), (proj2 (Reqb_true _ _) H),
              (proj2 (Rleb_true (fst a) v) ltac:(lra)). unfold ind; lra.
    - rewrite (proj2 (Rltb_false (fst a) v) ltac:(lra)), (proj2 (Reqb_false (fst a) v) ltac:(intro; lra)),
              (proj2 (Rleb_false _ _) H). unfold ind; lra. }
  rewrite E. fold (cntR (fun y : R * Z => Rleb (fst y) v) s).
  rewrite Es. replace (p ++ (v, i) :: q') with ((p ++ [(v, i)]) ++ q') by (rewrite <- app_assoc; reflexivity).
  rewrite cntR_app.
  rewrite (cntR_none _ q') by (intros y Hy; apply Rleb_false, Hq, Hy).
  rewrite cntR_all.
  - rewrite app_length, plus_INR. simpl. lra.
  - intros y Hy. apply Rleb_true.
    destruct (sorted_app_inv p ((v, i) :: q') ltac:(rewrite <- Es; exact s_lex)) as (_ & _ & H3).
    apply in_app_or in Hy. destruct Hy as [Hy|[<-|[]]]; [|simpl; lra].
    specialize (H3 y (v, i) Hy (or_introl eq_refl)). apply lexlt_fst_le in H3. exact H3.
Qed.

(* ---- facts about the neighbours of x = (v,i) in s = p ++ x :: q' ---- *)
Lemma before_new_group p v i q' :
  s = p ++ (v, i) :: q' ->
  (p = [] \/ fst (lastv p) <> v) ->
  forall y, In y p -> fst y < v.
Proof.
  intros Es Hnew y Hy.
  destruct (sorted_app_inv p ((v, i) :: q') ltac:(rewrite <- Es; exact s_lex)) as (Sp & _ & Hpq).
  destruct Hnew as [->|Hne]; [contradiction|].
  assert (Hp : p <> []) by (intros ->; contradiction).
  pose proof (sorted_le_last p y Sp Hy) as H1.
  pose proof (lexlt_fst_le _ _ (Hpq (lastv p) (v, i) (lastv_in p Hp) (or_introl eq_refl))) as H2.
  simpl in H2. lra.
Qed.

Lemma after_group_end p v i q' :
  s = p ++ (v, i) :: q' ->
  (q' = [] \/ exists h r, q' = h :: r /\ fst h <> v) ->
  forall y, In y q' -> v < fst y.
Proof.
  intros Es Hlast y Hy.
  destruct (sorted_app_inv p ((v, i) :: q') ltac:(rewrite <- Es; exact s_lex)) as (_ & Sq & _).
  inversion Sq as [|? ? Sq' Hx]; subst. rewrite Forall_forall in Hx.
  destruct Hlast as [->|(h & r & -> & Hne)]; [contradiction|].
  pose proof (lexlt_fst_le _ _ (Hx h (or_introl eq_refl))) as H1. simpl in H1.
  destruct Hy as [<-|Hy]; [lra|].
  inversion Sq' as [|? ? _ Hh]; subst. rewrite Forall_forall in Hh.
  pose proof (lexlt_fst_le _ _ (Hh y Hy)) as H2. lra.
Qed.

Lemma mr_single p v i q' :
  s = p ++ (v, i) :: q' ->
  (forall y, In y p -> fst y < v) -> (forall y, In y q' -> v < fst y) ->
  mr v = 1 + (INR (length p) + INR (length p)) / 2.
Proof.
  intros Es Hp Hq. unfold mr.
  pose proof (counts_new_group p v i q' Es Hp). pose proof (counts_group_end p v i q' Es Hq). lra.
Qed.

Lemma mr_group_end p v i q' :
  s = p ++ (v, i) :: q' -> (forall y, In y q' -> v < fst y) ->
  mr v = 1 + (Lc v + INR (length p)) / 2.
Proof.
  intros Es Hq. unfold mr. pose proof (counts_group_end p v i q' Es Hq). lra.
Qed.

Lemma in_s_mid p x q' : s = p ++ x :: q' -> In x s.
Proof. intros ->. apply in_or_app; right; left; reflexivity. Qed.

Lemma in_s_left p q y : s = p ++ q -> In y p -> In y s.
Proof. intros -> H. apply in_or_app; left; exact H. Qed.

Lemma in_s_right p q y : s = p ++ q -> In y q -> In y s.
Proof. intros -> H. apply in_or_app; right; exact H. Qed.

(* the two comparisons of the loop body, decided by the neighbours *)
Lemma diff_bools p v i q' (st : @scan R) :
  s = p ++ (v, i) :: q' ->
  (p <> [] -> sc_prev st = fst (lastv p)) ->
  let diff := if (Z.of_nat (length p) =? 0)%Z then eps else Rabs (v - sc_prev st) in
  ((p = [] \/ fst (lastv p) <> v) /\ Rleb eps diff = true /\ Rltb diff eps = false) \/
  ((p <> [] /\ fst (lastv p) = v) /\ Rleb eps diff = false /\ Rltb diff eps = true).
Proof.
  intros Es Hprev diff. subst diff.
  destruct p as [|a p0].
  - left. simpl. split; [left; reflexivity|]. split; [apply Rleb_true|apply Rltb_false]; lra.
  - assert (Hp : a :: p0 <> []) by discriminate.
    assert (Hz : (Z.of_nat (length (a :: p0)) =? 0)%Z = false) by (apply Z.eqb_neq; simpl; lia).
    rewrite Hz, (Hprev Hp).
    destruct (sep_vals (v, i) (lastv (a :: p0)) (in_s_mid _ _ _ Es)
                (in_s_left _ _ _ Es (lastv_in _ Hp))) as [E|Hfar]; simpl in *.
    + right. rewrite <- E. split; [split; [exact Hp|reflexivity]|apply diff_same].
    + left. split; [right; intros E; rewrite E in Hfar;
                    replace (v - v) with 0 in Hfar by lra; rewrite Rabs_R0 in Hfar; lra|].
      apply diff_far; exact Hfar.
Qed.

Lemma diffnext_bools p v i q' :
  s = p ++ (v, i) :: q' ->
  let diffnext := match q' with (v', _) :: _ => Rabs (v - v') | [] => eps end in
  ((q' = [] \/ exists h r, q' = h :: r /\ fst h <> v) /\ Rleb eps diffnext = true) \/
  ((exists h r, q' = h :: r /\ fst h = v) /\ Rleb eps diffnext = false).
Proof.
  intros Es diffnext. subst diffnext.
  destruct q' as [|[v' i'] r].
  - left. split; [left; reflexivity|apply Rleb_true; lra].
  - destruct (sep_vals (v, i) (v', i') (in_s_mid _ _ _ Es)
                (in_s_right _ _ _ Es (or_intror (or_introl eq_refl)))) as [E|Hfar]; simpl in *.
    + right. split; [exists (v', i'), r; split; [reflexivity|simpl; lra]|].
      rewrite E. apply diff_same.
    + left. split; [|apply diff_far; exact Hfar].
      right. exists (v', i'), r. split; [reflexivity|]. simpl. intros E. rewrite E in Hfar.
      replace (v - v) with 0 in Hfar by lra. rewrite Rabs_R0 in Hfar. lra.
Qed.

Lemma Rleb_0_m1 : Rleb 0 (-1) = false.
Proof. apply Rleb_false; lra. Qed.

Lemma scan_step_inv p v i q' st :
  s = p ++ (v, i) :: q' ->
  Inv p ((v, i) :: q') st ->
  let j := Z.of_nat (length p) in
  let diff := if (j =? 0)%Z then eps else Rabs (v - sc_prev st) in
  let diffnext := match q' with (v', _) :: _ => Rabs (v - v') | [] => eps end in
  Inv (p ++ [(v, i)]) q' (scan_core RR eps m j i diff diffnext v st).
Proof.
  intros Es [Hprev Hinv] j diff diffnext.
  pose proof (diff_bools p v i q' st Es Hprev) as Hd. fold j diff in Hd.
  pose proof (diffnext_bools p v i q' Es) as Hn. fold diffnext in Hn.
  assert (Hj : IZR j = INR (length p)) by (subst j; symmetry; apply INR_IZR_INZ).
  assert (Hlen' : INR (length (p ++ [(v, i)])) - 1 = INR (length p)).
  { rewrite app_length, plus_INR. simpl. lra. }
  assert (Hp' : p ++ [(v, i)] <> []) by (destruct p; discriminate).
  assert (Htgt : target (p ++ [(v, i)]) = target p + contrib (v, i)).
  { rewrite target_app. unfold target at 2. simpl. lra. }
  split; [intros _; rewrite lastv_app; reflexivity|].
  rewrite lastv_app. cbn [fst snd].
  unfold scan_core. cbn [nleb nltb nadd nmul ndiv nofZ n0 n1 RR sc_sum sc_start sc_end sc_nties sc_prev].
  destruct Hinv as [(Hst & Hsum & HE2)|(Hst & Hpne & (x0 & q0 & Eq0 & Ex0) & HstL & Hend & Hsum)].
  - (* no sequence open *)
    destruct Hd as [(Hnew & -> & ->)|((Hpne & Hu) & -> & ->)].
    + (* x opens a group *)
      pose proof (before_new_group p v i q' Es Hnew) as Hbefore.
      destruct (i <? m)%Z eqn:Ei; cbn [andb].
      * (* member of the first ensemble *)
        rewrite Hj. assert (E0 : Rleb 0 (INR (length p)) = true) by (apply Rleb_true, pos_INR).
        rewrite E0. cbn [andb].
        destruct Hn as [(Hlast & ->)|((h & r & Eq & Eh) & ->)].
        -- left. pose proof (after_group_end p v i q' Es Hlast) as Hafter.
           split; [reflexivity|]. split.
           ++ rewrite Htgt, Hsum. unfold contrib. cbn [fst snd]. rewrite Ei.
              rewrite (mr_single p v i q' Es Hbefore Hafter). lra.
           ++ intros x q'' Eq _ Ex. exfalso.
              specialize (Hafter x ltac:(rewrite Eq; left; reflexivity)). lra.
        -- right. split; [apply pos_INR|]. split; [exact Hp'|].
           split; [exists h, r; split; [exact Eq|exact Eh]|].
           split; [symmetry; apply (counts_new_group p v i q' Es Hbefore)|].
           split; [rewrite Hlen'; reflexivity|].
           rewrite Htgt, Hsum. unfold contrib. cbn [fst snd]. rewrite Ei. lra.
      * (* member of the second ensemble *)
        rewrite Hst, Rleb_0_m1. cbn [andb].
        left. split; [reflexivity|]. split.
        -- rewrite Htgt, Hsum. unfold contrib. cbn [fst snd]. rewrite Ei. lra.
        -- intros _ _ _ _ _. apply Z.ltb_ge; exact Ei.
    + (* x continues a group that holds no member of the first ensemble *)
      assert (Hi : (m <= i)%Z).
      { specialize (HE2 (v, i) q' eq_refl Hpne ltac:(simpl; symmetry; exact Hu)).
        destruct (sorted_app_inv p ((v, i) :: q') ltac:(rewrite <- Es; exact s_lex)) as (_ & _ & Hpq).
        destruct (Hpq (lastv p) (v, i) (lastv_in p Hpne) (or_introl eq_refl)) as [H|[_ H]];
          simpl in H; [lra|lia]. }
      assert (Ei : (i <? m)%Z = false) by (apply Z.ltb_ge; exact Hi).
      rewrite Ei. cbn [andb]. rewrite Hst, Rleb_0_m1. cbn [andb].
      left. split; [reflexivity|]. split.
      * rewrite Htgt, Hsum. unfold contrib. cbn [fst snd]. rewrite Ei. lra.
      * intros _ _ _ _ _. exact Hi.
  - (* a sequence is open: x has the value of the last element *)
    assert (Hu : fst (lastv p) = v) by (injection Eq0 as <- _; simpl in Ex0; symmetry; exact Ex0).
    destruct Hd as [([->|Hne] & _)|(_ & -> & ->)]; [contradiction|contradiction|].
    rewrite andb_false_r.
    assert (E0 : Rleb 0 (sc_start st) = true) by (apply Rleb_true; exact Hst).
    rewrite E0. cbn [andb]. rewrite Hu in *.
    assert (Hcontrib : contrib (v, i) = (if (i <? m)%Z then 1 else 0) * mr v).
    { unfold contrib. cbn [fst snd]. destruct (i <? m)%Z; lra. }
    assert (Hnt : (if (i <? m)%Z then sc_nties st + 1 else sc_nties st) =
                  sc_nties st + (if (i <? m)%Z then 1 else 0)) by (destruct (i <? m)%Z; lra).
    rewrite Hnt.
    destruct Hn as [(Hlast & ->)|((h & r & Eq & Eh) & ->)].
    + left. pose proof (after_group_end p v i q' Es Hlast) as Hafter.
      split; [reflexivity|]. split.
      * rewrite Htgt, <- Hsum, Hcontrib, HstL, Hend.
        rewrite (mr_group_end p v i q' Es Hafter).
        replace (Lc v + (INR (length p) - 1 + 1)) with (Lc v + INR (length p)) by lra. ring.
      * intros x q'' Eq _ Ex. exfalso.
        specialize (Hafter x ltac:(rewrite Eq; left; reflexivity)). lra.
    + right. split; [exact Hst|]. split; [exact Hp'|].
      split; [exists h, r; split; [exact Eq|exact Eh]|].
      split; [exact HstL|]. split; [rewrite Hlen', Hend; lra|].
      rewrite Htgt, <- Hsum, Hcontrib. ring.
Qed.

Lemma scan_loop_inv q : forall p st,
  s = p ++ q -> Inv p q st ->
  sc_sum (scan_loop RR eps m (Z.of_nat (length p)) q st) = target s.
Proof.
  induction q as [|[v i] q' IH]; intros p st Es HI.
  - rewrite app_nil_r in Es. subst p. simpl.
    destruct HI as [_ [(_ & H & _)|(_ & _ & (x & q' & E & _) & _)]]; [exact H|discriminate].
  - cbn [scan_loop]. cbn [nabs nsub RR].
    replace (Z.of_nat (length p) + 1)%Z with (Z.of_nat (length (p ++ [(v, i)])))
      by (rewrite app_length; simpl; lia).
    apply IH.
    + rewrite <- app_assoc. exact Es.
    + apply scan_step_inv; assumption.
Qed.

(* the scan of the whole sorted array *)
Theorem scan_is_midrank_sum st0 :
  sc_start st0 = -1 -> sc_sum st0 = 0 ->
  sc_sum (scan_loop RR eps m 0 s st0) = target s.
Proof.
  intros H1 H2. apply (scan_loop_inv s [] st0 eq_refl).
  split; [intros H; contradiction|]. left. split; [exact H1|]. split; [exact H2|].
  intros x q' _ H; contradiction.
Qed.

End Scan.

(* ================================================================== *)
(* step 4: Mann-Whitney with mid-ranks                                 *)

(* pairwise comparison of Weigel and Mason (2011): 1 when the member of the
   first ensemble is larger, 1/2 when the two are equal *)
Definition wm (a b : R) : R := if Rltb b a then 1 else if Reqb a b then 1 / 2 else 0.
Definition wm_sum (e1 e2 : list R) : R :=
  rsumR (map (fun a => rsumR (map (fun b => wm a b) e2)) e1).

Lemma wm_ind a b : wm a b = ind (Rltb b a) + ind (Reqb b a) * (1 / 2).
Proof.
  unfold wm, ind. destruct (Rtotal_order b a) as [H|[H|H]].
  - rewrite (proj2 (Rltb_true b a) H), (proj2 (Reqb_false b a) ltac:(intro; lra)). lra.
  - rewrite (proj2 (Rltb_false b a) ltac:(lra)), (proj2 (Reqb_true b a) H),
            (proj2 (Reqb_true a b) ltac:(lra)). lra.
  - rewrite (proj2 (Rltb_false b a) ltac:(lra)), (proj2 (Reqb_false b a) ltac:(intro; lra)),
            (proj2 (Reqb_false a b) ltac:(intro; lra)). lra.
Qed.

Lemma wm_antisym a b : wm a b + wm b a = 1.
Proof.
  unfold wm. destruct (Rtotal_order b a) as [H|[H|H]].
  - rewrite (proj2 (Rltb_true b a) H), (proj2 (Rltb_false a b) ltac:(lra)),
            (proj2 (Reqb_false b a) ltac:(intro; lra)). lra.
  - rewrite (proj2 (Rltb_false b a) ltac:(lra)), (proj2 (Rltb_false a b) ltac:(lra)),
            (proj2 (Reqb_true b a) H), (proj2 (Reqb_true a b) ltac:(lra)). lra.
  - rewrite (proj2 (Rltb_false b a) ltac:(lra)), (proj2 (Rltb_true a b) H),
            (proj2 (Reqb_false a b) ltac:(intro; lra)). lra.
Qed.

Lemma rsumR_map_add {A} (f g : A -> R) l :
  rsumR (map (fun a => f a + g a) l) = rsumR (map f l) + rsumR (map g l).
Proof. induction l as [|a l IH]; simpl; [lra|rewrite IH; lra]. Qed.

Lemma rsumR_map_scal {A} (f : A -> R) k l :
  rsumR (map (fun a => f a * k) l) = rsumR (map f l) * k.
Proof. induction l as [|a l IH]; simpl; [lra|rewrite IH; lra]. Qed.

Lemma rsumR_map_const {A} (c : R) (l : list A) : rsumR (map (fun _ => c) l) = INR (length l) * c.
Proof.
  induction l as [|a l IH]; [simpl; lra|].
  change (length (a :: l)) with (S (length l)). rewrite S_INR. simpl. rewrite IH. lra.
Qed.

Lemma rsumR_swap {A B} (f : A -> B -> R) l1 l2 :
  rsumR (map (fun a => rsumR (map (fun b => f a b) l2)) l1) =
  rsumR (map (fun b => rsumR (map (fun a => f a b) l1)) l2).
Proof.
  induction l1 as [|a l1 IH]; simpl.
  - rewrite rsumR_map_const. lra.
  - rewrite IH. rewrite <- rsumR_map_add. reflexivity.
Qed.

Lemma wm_sum_self e : wm_sum e e = INR (length e) * INR (length e) / 2.
Proof.
  unfold wm_sum.
  assert (H : rsumR (map (fun a => rsumR (map (fun b => wm a b) e)) e) +
              rsumR (map (fun a => rsumR (map (fun b => wm b a) e)) e) =
              INR (length e) * INR (length e)).
  { rewrite <- rsumR_map_add.
    rewrite (rsumR_map_ext _ (fun _ => INR (length e) * 1)).
    - rewrite rsumR_map_const. lra.
    - intros a _. rewrite <- rsumR_map_add.
      rewrite (rsumR_map_ext _ (fun _ => 1)); [apply rsumR_map_const|].
      intros b _. apply wm_antisym. }
  rewrite (rsumR_swap (fun a b => wm b a) e e) in H. lra.
Qed.

Lemma cntR_as_sum {A} (P : A -> bool) l : cntR P l = rsumR (map (fun y => ind (P y)) l).
Proof. reflexivity. Qed.

(* ================================================================== *)
(* the comparison F of c_ensrank is the pairwise mid-rank comparison    *)

Lemma separated_perm eps l l' : Permutation l l' -> separated eps l -> separated eps l'.
Proof.
  intros HP Hs a b Ha Hb. apply Hs; eapply Permutation_in; try apply Permutation_sym; eassumption.
Qed.

Theorem sumrank_is_midrank eps e1 e2 :
  0 < eps -> separated eps (e1 ++ e2) ->
  sumrank RR KR eps e1 e2 =
  wm_sum e1 e2 + INR (length e1) * (INR (length e1) + 1) / 2.
Proof.
  intros Heps Hsep. unfold sumrank.
  set (m := Z.of_nat (length e1)).
  assert (Esort : isort_by (ens_le RR KR) (pool e1 e2) = isort_by lev (pool e1 e2)).
  { apply isort_by_ext. intros a b Ha Hb. apply (ens_le_is_lev eps (e1 ++ e2)); [exact Hsep| |];
      rewrite <- pool_fst; apply in_map; assumption. }
  rewrite Esort. set (s := isort_by lev (pool e1 e2)).
  assert (HP : Permutation (pool e1 e2) s) by apply isort_by_perm.
  assert (Hlex : StronglySorted lexlt s) by (apply isort_lex, pool_idx_sorted).
  assert (Hss : separated eps (map fst s)).
  { eapply separated_perm; [|exact Hsep]. rewrite <- pool_fst. apply Permutation_map; exact HP. }
  rewrite (scan_is_midrank_sum eps m s Heps Hlex Hss) by reflexivity.
  (* target over the sorted array = over the pooled array = over e1 *)
  unfold target. rewrite <- (rsumR_perm _ _ (Permutation_map (contrib m s) HP)).
  rewrite pool_split, map_app, rsumR_app, !map_map.
  assert (E2 : rsumR (map (fun p : Z * R => contrib m s (snd p, fst p)) (zenum m e2)) = 0).
  { rewrite (rsumR_map_ext _ (fun _ => 0)); [rewrite rsumR_map_const; lra|].
    intros p Hp. apply zenum_bounds in Hp. unfold contrib. cbn [fst snd].
    assert (E : (fst p <? m)%Z = false) by (apply Z.ltb_ge; lia). rewrite E. reflexivity. }
  fold m. rewrite E2, Rplus_0_r.
  assert (E1 : rsumR (map (fun p : Z * R => contrib m s (snd p, fst p)) (zenum 0 e1)) =
               rsumR (map (mr s) e1)).
  { rewrite <- (map_snd_zenum 0 e1) at 2. rewrite map_map. apply rsumR_map_ext.
    intros p Hp. apply zenum_bounds in Hp. unfold contrib. cbn [fst snd].
    assert (E : (fst p <? m)%Z = true) by (apply Z.ltb_lt; subst m; lia). rewrite E. reflexivity. }
  rewrite E1.
  (* counts over s are counts over e1 ++ e2 *)
  assert (HL : forall v, Lc s v = cntR (fun x => Rltb x v) e1 + cntR (fun x => Rltb x v) e2).
  { intros v. unfold Lc. rewrite <- (cntR_perm _ _ _ HP).
    rewrite <- (cntR_map fst (fun x => Rltb x v)), pool_fst, cntR_app. reflexivity. }
  assert (HE : forall v, Ec s v = cntR (fun x => Reqb x v) e1 + cntR (fun x => Reqb x v) e2).
  { intros v. unfold Ec. rewrite <- (cntR_perm _ _ _ HP).
    rewrite <- (cntR_map fst (fun x => Reqb x v)), pool_fst, cntR_app. reflexivity. }
  assert (Hmr : forall a, mr s a =
            rsumR (map (fun b => wm a b) e2) + (rsumR (map (fun b => wm a b) e1) + 1 / 2)).
  { intros a. unfold mr. rewrite HL, HE, !cntR_as_sum.
    rewrite (rsumR_map_ext (fun b => wm a b) (fun b => ind (Rltb b a) + ind (Reqb b a) * (1 / 2)) e2)
      by (intros; apply wm_ind).
    rewrite (rsumR_map_ext (fun b => wm a b) (fun b => ind (Rltb b a) + ind (Reqb b a) * (1 / 2)) e1)
      by (intros; apply wm_ind).
    rewrite !rsumR_map_add, !rsumR_map_scal. lra. }
  rewrite (rsumR_map_ext _ _ e1 (fun a _ => Hmr a)).
  rewrite !rsumR_map_add, rsumR_map_const.
  fold (wm_sum e1 e2). fold (wm_sum e1 e1). rewrite wm_sum_self. lra.
Qed.

Lemma KR_is_RR_consts : True. Proof. exact I. Qed.

Theorem F_is_midrank eps e1 e2 :
  0 < eps -> e1 <> [] -> separated eps (e1 ++ e2) ->
  pairF RR KR eps e1 e2 = wm_sum e1 e2 / (INR (length e1) * INR (length e1)).
Proof.
  intros Heps Hne Hsep. unfold pairF, F_of_sumrank.
  rewrite (sumrank_is_midrank eps e1 e2 Heps Hsep).
  cbn [ndiv nsub nmul nadd nofZ n1 RR]. rewrite <- INR_IZR_INZ.
  assert (Hm : INR (length e1) <> 0).
  { apply not_0_INR. destruct e1; [contradiction|discriminate]. }
  field. exact Hm.
Qed.

(* ================================================================== *)
(* consequences: range, antisymmetry, invariances                      *)

Lemma wm_range a b : 0 <= wm a b <= 1.
Proof. unfold wm. destruct (Rltb b a); [lra|]. destruct (Reqb a b); lra. Qed.

Lemma wm_sum_range e1 e2 : 0 <= wm_sum e1 e2 <= INR (length e1) * INR (length e2).
Proof.
  unfold wm_sum. induction e1 as [|a e1 IH].
  - simpl. lra.
  - change (length (a :: e1)) with (S (length e1)). rewrite S_INR. simpl.
    assert (H : 0 <= rsumR (map (fun b => wm a b) e2) <= INR (length e2)).
    { clear. induction e2 as [|b e2 IH].
      - simpl; lra.
      - change (length (b :: e2)) with (S (length e2)). rewrite S_INR. simpl.
        pose proof (wm_range a b). lra. }
    lra.
Qed.

Lemma wm_sum_antisym e1 e2 :
  wm_sum e1 e2 + wm_sum e2 e1 = INR (length e1) * INR (length e2).
Proof.
  unfold wm_sum. rewrite (rsumR_swap (fun b a => wm b a) e2 e1), <- rsumR_map_add.
  rewrite (rsumR_map_ext _ (fun _ => INR (length e2) * 1)).
  - rewrite rsumR_map_const. lra.
  - intros a _. rewrite <- rsumR_map_add.
    rewrite (rsumR_map_ext _ (fun _ => 1)); [apply rsumR_map_const|].
    intros b _. apply wm_antisym.
Qed.

Theorem F_in_unit eps e1 e2 :
  0 < eps -> e1 <> [] -> length e2 = length e1 -> separated eps (e1 ++ e2) ->
  0 <= pairF RR KR eps e1 e2 <= 1.
Proof.
  intros Heps Hne Hlen Hsep. rewrite (F_is_midrank eps e1 e2 Heps Hne Hsep).
  pose proof (wm_sum_range e1 e2) as H. rewrite Hlen in H.
  assert (Hm : 0 < INR (length e1)).
  { apply lt_0_INR. destruct e1; [contradiction|simpl; lia]. }
  assert (Hmm : 0 < INR (length e1) * INR (length e1)) by nra.
  split.
  - apply Rmult_le_reg_r with (INR (length e1) * INR (length e1)); [exact Hmm|].
    unfold Rdiv. rewrite Rmult_assoc, Rinv_l by lra. lra.
  - apply Rmult_le_reg_r with (INR (length e1) * INR (length e1)); [exact Hmm|].
    unfold Rdiv. rewrite Rmult_assoc, Rinv_l by lra. lra.
Qed.

Lemma separated_swap eps (e1 e2 : list R) : separated eps (e1 ++ e2) -> separated eps (e2 ++ e1).
Proof. apply separated_perm, Permutation_app_comm. Qed.

(* F(i2,i1) = 1 - F(i1,i2): the kernel's use of 1-u for the second ensemble *)
Theorem F_antisym eps e1 e2 :
  0 < eps -> e1 <> [] -> length e2 = length e1 -> separated eps (e1 ++ e2) ->
  pairF RR KR eps e2 e1 = 1 - pairF RR KR eps e1 e2.
Proof.
  intros Heps Hne Hlen Hsep.
  assert (Hne2 : e2 <> []) by (destruct e1, e2; simpl in *; try discriminate; congruence).
  rewrite (F_is_midrank eps e1 e2 Heps Hne Hsep).
  rewrite (F_is_midrank eps e2 e1 Heps Hne2 (separated_swap _ _ _ Hsep)).
  pose proof (wm_sum_antisym e1 e2) as H. rewrite Hlen in *.
  assert (Hm : INR (length e1) <> 0).
  { apply not_0_INR. destruct e1; [contradiction|discriminate]. }
  replace (wm_sum e2 e1) with (INR (length e1) * INR (length e1) - wm_sum e1 e2) by lra.
  field. exact Hm.
Qed.

(* strictly increasing re-scaling of all forecast values *)
Lemma wm_increasing (g : R -> R) a b :
  (forall x y, x < y -> g x < g y) -> wm (g a) (g b) = wm a b.
Proof.
  intros Hg. unfold wm. destruct (Rtotal_order b a) as [H|[H|H]].
  - rewrite (proj2 (Rltb_true b a) H), (proj2 (Rltb_true (g b) (g a)) (Hg _ _ H)). reflexivity.
  - subst b. rewrite (proj2 (Rltb_false a a) ltac:(lra)), (proj2 (Rltb_false (g a) (g a)) ltac:(lra)),
      (proj2 (Reqb_true a a) eq_refl), (proj2 (Reqb_true (g a) (g a)) eq_refl). reflexivity.
  - pose proof (Hg _ _ H) as H'.
    rewrite (proj2 (Rltb_false b a) ltac:(lra)), (proj2 (Rltb_false (g b) (g a)) ltac:(lra)),
      (proj2 (Reqb_false a b) ltac:(intro; lra)), (proj2 (Reqb_false (g a) (g b)) ltac:(intro; lra)).
    reflexivity.
Qed.

Lemma wm_sum_increasing (g : R -> R) e1 e2 :
  (forall x y, x < y -> g x < g y) -> wm_sum (map g e1) (map g e2) = wm_sum e1 e2.
Proof.
  intros Hg. unfold wm_sum. rewrite map_map. apply rsumR_map_ext. intros a _.
  rewrite map_map. apply rsumR_map_ext. intros b _. apply wm_increasing; exact Hg.
Qed.

Theorem F_increasing_map_invariant eps eps' (g : R -> R) e1 e2 :
  0 < eps -> 0 < eps' -> e1 <> [] ->
  (forall x y, x < y -> g x < g y) ->
  separated eps (e1 ++ e2) -> separated eps' (map g e1 ++ map g e2) ->
  pairF RR KR eps' (map g e1) (map g e2) = pairF RR KR eps e1 e2.
Proof.
  intros Heps Heps' Hne Hg Hs Hs'.
  rewrite (F_is_midrank eps e1 e2 Heps Hne Hs).
  rewrite (F_is_midrank eps' (map g e1) (map g e2) Heps' ltac:(destruct e1; [contradiction|discriminate]) Hs').
  rewrite wm_sum_increasing by exact Hg. rewrite map_length. reflexivity.
Qed.

(* permuting the members of either ensemble *)
Lemma wm_sum_perm e1 e1' e2 e2' :
  Permutation e1 e1' -> Permutation e2 e2' -> wm_sum e1 e2 = wm_sum e1' e2'.
Proof.
  intros H1 H2. unfold wm_sum.
  rewrite (rsumR_perm _ _ (Permutation_map _ H1)).
  apply rsumR_map_ext. intros a _. apply rsumR_perm, Permutation_map, H2.
Qed.

Theorem F_member_permutation_invariant eps e1 e1' e2 e2' :
  0 < eps -> e1 <> [] -> Permutation e1 e1' -> Permutation e2 e2' ->
  separated eps (e1 ++ e2) ->
  pairF RR KR eps e1' e2' = pairF RR KR eps e1 e2.
Proof.
  intros Heps Hne H1 H2 Hs.
  assert (Hne' : e1' <> []).
  { intros ->. apply Permutation_sym, Permutation_nil in H1. contradiction. }
  assert (Hs' : separated eps (e1' ++ e2')).
  { eapply separated_perm; [|exact Hs]. apply Permutation_app; assumption. }
  rewrite (F_is_midrank eps e1 e2 Heps Hne Hs), (F_is_midrank eps e1' e2' Heps Hne' Hs').
  rewrite (wm_sum_perm _ _ _ _ H1 H2), (Permutation_length H1). reflexivity.
Qed.

(* completely separated ensembles *)
Lemma wm_sum_all_above e1 e2 :
  (forall a b, In a e1 -> In b e2 -> b < a) -> wm_sum e1 e2 = INR (length e1) * INR (length e2).
Proof.
  intros H. unfold wm_sum.
  rewrite (rsumR_map_ext _ (fun _ => INR (length e2) * 1)).
  - rewrite rsumR_map_const. lra.
  - intros a Ha. rewrite (rsumR_map_ext _ (fun _ => 1)); [apply rsumR_map_const|].
    intros b Hb. unfold wm. rewrite (proj2 (Rltb_true b a) (H a b Ha Hb)). reflexivity.
Qed.

Theorem F_all_above eps e1 e2 :
  0 < eps -> e1 <> [] -> length e2 = length e1 -> separated eps (e1 ++ e2) ->
  (forall a b, In a e1 -> In b e2 -> b < a) ->
  pairF RR KR eps e1 e2 = 1 /\ pairF RR KR eps e2 e1 = 0.
Proof.
  intros Heps Hne Hlen Hsep Hab.
  assert (H1 : pairF RR KR eps e1 e2 = 1).
  { rewrite (F_is_midrank eps e1 e2 Heps Hne Hsep), (wm_sum_all_above _ _ Hab), Hlen.
    assert (Hm : INR (length e1) <> 0).
    { apply not_0_INR. destruct e1; [contradiction|discriminate]. }
    field. exact Hm. }
  split; [exact H1|]. rewrite (F_antisym eps e1 e2 Heps Hne Hlen Hsep), H1. lra.
Qed.

(* mapping F to u: the tolerance of the repaired code is a quarter of the
   squared inverse of the ensemble size *)
Lemma KR_u_consts :
  k_u_tol_num KR = 1 / 4 /\ k_u_lo_c KR = 1 / 2 /\ k_u_hi_c KR = 1 / 2 /\
  k_u_low KR = 0 /\ k_u_high KR = 1 /\ k_u_tie KR = 1 / 2.
Proof.
  cbn. unfold DS_U_TOL_NUM_R, DS_U_LO_C_R, DS_U_HI_C_R, DS_U_LOW_R, DS_U_HIGH_R, DS_U_TIE_R.
  repeat split; lra.
Qed.

Lemma u_tol_value nc : (1 <= nc)%nat ->
  u_tol RR KR nc = 1 / (4 * (INR nc * INR nc)) /\ 0 < u_tol RR KR nc <= 1 / 4.
Proof.
  intros Hn. unfold u_tol. destruct KR_u_consts as (-> & _). cbn [ndiv nofZ RR].
  rewrite <- INR_IZR_INZ.
  assert (H1 : 1 <= INR nc) by (change 1 with (INR 1); apply le_INR; exact Hn).
  assert (HM : 1 <= INR nc * INR nc) by nra.
  assert (E : 1 / 4 / INR nc / INR nc = 1 / (4 * (INR nc * INR nc))) by (field; lra).
  rewrite E. split; [reflexivity|]. split.
  - apply Rdiv_lt_0_compat; lra.
  - apply Rmult_le_reg_r with (4 * (INR nc * INR nc)); [lra|].
    unfold Rdiv at 1. rewrite Rmult_assoc, Rinv_l by lra. lra.
Qed.

Lemma u_of_F_tol_cases tol F :
  u_of_F_tol RR KR tol F =
  (if Rltb F (1 / 2 - tol) then 0 else if Rltb (1 / 2 + tol) F then 1 else 1 / 2).
Proof.
  unfold u_of_F_tol. destruct KR_u_consts as (_ & -> & -> & -> & -> & ->). reflexivity.
Qed.

Lemma u_of_F_values nc F : (1 <= nc)%nat ->
  (F = 1 -> u_of_F RR KR nc F = 1) /\ (F = 0 -> u_of_F RR KR nc F = 0) /\
  (F = 1 / 2 -> u_of_F RR KR nc F = 1 / 2).
Proof.
  intros Hn. unfold u_of_F. rewrite u_of_F_tol_cases.
  destruct (u_tol_value nc Hn) as (_ & Ht0 & Ht1). set (t := u_tol RR KR nc) in *.
  repeat split; intros ->.
  - rewrite (proj2 (Rltb_false _ _)) by lra. rewrite (proj2 (Rltb_true _ _)) by lra. reflexivity.
  - rewrite (proj2 (Rltb_true _ _)) by lra. reflexivity.
  - rewrite (proj2 (Rltb_false _ _)) by lra. rewrite (proj2 (Rltb_false _ _)) by lra. reflexivity.
Qed.

(* an attainable value F = k/(2M) (k, M integers, M = m^2 >= 1) is mapped by a
   tolerance below 1/(2M) to the sign of F - 1/2 *)
Lemma u_of_F_tol_sign tol M F (k z : Z) :
  M = IZR z -> 0 < M -> IZR k = 2 * M * F -> 0 <= tol -> tol < 1 / (2 * M) ->
  u_of_F_tol RR KR tol F = (if Rltb F (1/2) then 0 else if Rltb (1/2) F then 1 else 1/2).
Proof.
  intros Hz HM HkF Ht0 Ht. rewrite u_of_F_tol_cases.
  destruct (Rtotal_order F (1 / 2)) as [Hlt|[Heq|Hgt]].
  - rewrite (proj2 (Rltb_true F (1 / 2)) Hlt).
    assert (Hkz : (k < z)%Z) by (apply lt_IZR; rewrite <- Hz; nra).
    assert (Hk1 : IZR k <= IZR z - 1) by (rewrite <- minus_IZR; apply IZR_le; lia).
    assert (F <= 1 / 2 - 1 / (2 * M)).
    { apply Rmult_le_reg_r with (2 * M); [lra|].
      replace ((1 / 2 - 1 / (2 * M)) * (2 * M)) with (M - 1) by (field; lra). nra. }
    rewrite (proj2 (Rltb_true _ _)) by lra. reflexivity.
  - rewrite Heq. rewrite (proj2 (Rltb_false (1/2) (1/2))) by lra.
    rewrite (proj2 (Rltb_false _ _)) by lra. rewrite (proj2 (Rltb_false _ _)) by lra. reflexivity.
  - rewrite (proj2 (Rltb_false F (1 / 2))) by lra. rewrite (proj2 (Rltb_true (1 / 2) F) Hgt).
    assert (Hkz : (z < k)%Z) by (apply lt_IZR; rewrite <- Hz; nra).
    assert (Hk1 : IZR z + 1 <= IZR k) by (rewrite <- plus_IZR; apply IZR_le; lia).
    assert (1 / 2 + 1 / (2 * M) <= F).
    { apply Rmult_le_reg_r with (2 * M); [lra|].
      replace ((1 / 2 + 1 / (2 * M)) * (2 * M)) with (M + 1) by (field; lra). nra. }
    rewrite (proj2 (Rltb_false _ _)) by lra. rewrite (proj2 (Rltb_true _ _)) by lra. reflexivity.
Qed.

(* twice the pairwise count is an integer *)
Lemma wm_sum_half_integer e1 e2 : exists k : Z, 2 * wm_sum e1 e2 = IZR k.
Proof.
  unfold wm_sum. induction e1 as [|a e1 (k & IH)].
  - exists 0%Z. simpl. lra.
  - assert (H : exists j : Z, 2 * rsumR (map (fun b => wm a b) e2) = IZR j).
    { clear. induction e2 as [|b e2 (j & IH)].
      - exists 0%Z; simpl; lra.
      - simpl. unfold wm at 1. destruct (Rltb b a).
        + exists (j + 2)%Z. rewrite plus_IZR. lra.
        + destruct (Reqb a b).
          * exists (j + 1)%Z. rewrite plus_IZR. lra.
          * exists j. lra. }
    destruct H as (j & Hj). exists (j + k)%Z. simpl. rewrite plus_IZR. lra.
Qed.

Lemma F_attainable eps e1 e2 :
  0 < eps -> e1 <> [] -> separated eps (e1 ++ e2) ->
  let M := INR (length e1) * INR (length e1) in
  0 < M /\ (exists z : Z, M = IZR z) /\ exists k : Z, IZR k = 2 * M * pairF RR KR eps e1 e2.
Proof.
  intros Heps Hne Hsep M.
  assert (Hm : 0 < INR (length e1)).
  { apply lt_0_INR. destruct e1; [contradiction|simpl; lia]. }
  assert (HM : 0 < M) by (subst M; nra).
  split; [exact HM|]. split.
  - exists (Z.of_nat (length e1) * Z.of_nat (length e1))%Z. subst M.
    rewrite mult_IZR, <- INR_IZR_INZ. reflexivity.
  - destruct (wm_sum_half_integer e1 e2) as (k & Hk). exists k.
    rewrite (F_is_midrank eps e1 e2 Heps Hne Hsep). fold M. rewrite <- Hk. field. lra.
Qed.

(* repaired kernel: for EVERY ensemble size u is the sign of F - 1/2 *)
Theorem u_of_F_is_sign eps e1 e2 :
  0 < eps -> e1 <> [] -> separated eps (e1 ++ e2) ->
  let F := pairF RR KR eps e1 e2 in
  u_of_F RR KR (length e1) F = (if Rltb F (1/2) then 0 else if Rltb (1/2) F then 1 else 1/2).
Proof.
  intros Heps Hne Hsep F.
  destruct (F_attainable eps e1 e2 Heps Hne Hsep) as (HM & (z & Hz) & (k & Hk)).
  assert (Hn : (1 <= length e1)%nat) by (destruct e1; [contradiction|simpl; lia]).
  destruct (u_tol_value (length e1) Hn) as (Et & Ht0 & _).
  unfold u_of_F. apply (u_of_F_tol_sign _ _ F k z Hz HM Hk); [lra|].
  rewrite Et. set (M := INR (length e1) * INR (length e1)) in *.
  apply Rmult_lt_reg_r with (4 * M); [lra|].
  replace (1 / (4 * M) * (4 * M)) with 1 by (field; lra).
  replace (1 / (2 * M) * (4 * M)) with 2 by (field; lra). lra.
Qed.

(* pinned kernel (fixed tolerance 1e-8): correct only while 2e-8 m^2 < 1 *)
Theorem u_of_F_pinned_is_sign eps e1 e2 :
  0 < eps -> e1 <> [] -> separated eps (e1 ++ e2) ->
  INR (length e1) * INR (length e1) * (2 * (1 / 100000000)) < 1 ->
  let F := pairF RR KR eps e1 e2 in
  u_of_F_pinned RR KR (1 / 100000000) F =
  (if Rltb F (1/2) then 0 else if Rltb (1/2) F then 1 else 1/2).
Proof.
  intros Heps Hne Hsep Hm F.
  destruct (F_attainable eps e1 e2 Heps Hne Hsep) as (HM & (z & Hz) & (k & Hk)).
  unfold u_of_F_pinned. apply (u_of_F_tol_sign _ _ F k z Hz HM Hk); [lra|].
  set (M := INR (length e1) * INR (length e1)) in *.
  apply Rmult_lt_reg_r with (2 * M); [lra|].
  replace (1 / (2 * M) * (2 * M)) with 1 by (field; lra). lra.
Qed.

(* ================================================================== *)
(* the rank accumulation of c_ensrank                                  *)

Lemma upd_nth_length {A} k (f : A -> A) l : length (upd_nth k f l) = length l.
Proof. revert k; induction l as [|a l IH]; intros [|k]; simpl; auto. Qed.

Lemma upd_nth_app_r {A} (pre l : list A) k f :
  upd_nth (length pre + k) f (pre ++ l) = pre ++ upd_nth k f l.
Proof. induction pre as [|a pre IH]; simpl; [reflexivity|rewrite IH; reflexivity]. Qed.

(* increments of the ranks caused by the pairs (r1, r2), r2 in rest *)
Definition uF (nc : nat) (eps : R) (r1 r2 : list R) : R := u_of_F RR KR nc (pairF RR KR eps r1 r2).

Fixpoint delta (nc : nat) (eps : R) (rows : list (list R)) : list R :=
  match rows with
  | [] => []
  | r1 :: rest =>
      rsumR (map (fun r2 => uF nc eps r1 r2) rest)
      :: map (fun p => (1 - uF nc eps r1 (fst p)) + snd p) (combine rest (delta nc eps rest))
  end.

Lemma delta_length nc eps rows : length (delta nc eps rows) = length rows.
Proof.
  induction rows as [|r rows IH]; simpl; [reflexivity|].
  rewrite map_length, combine_length, IH, Nat.min_id. reflexivity.
Qed.

Definition vadd (a b : list R) : list R := map (fun p => fst p + snd p) (combine a b).

(* the block of pairs (i0, i0+1+off+k) for k-th element of rest *)
Lemma first_block nc eps (i0 : nat) r1 : forall rest off pre c1 done cur,
  length pre = i0 -> length done = off -> length cur = length rest ->
  fold_left (rank_step RR KR nc)
    (map (fun kr : Z * list R =>
            (Z.of_nat i0, (Z.of_nat i0 + 1 + fst kr)%Z, pairF RR KR eps r1 (snd kr)))
         (zenum (Z.of_nat off) rest))
    (pre ++ c1 :: done ++ cur)
  = pre ++ (c1 + rsumR (map (fun r2 => uF nc eps r1 r2) rest))
        :: done ++ map (fun p => snd p + (1 - uF nc eps r1 (fst p))) (combine rest cur).
Proof.
  induction rest as [|r2 rest IH]; intros off pre c1 done cur Hpre Hdone Hcur.
  - destruct cur; [|discriminate]. simpl. rewrite Rplus_0_r. reflexivity.
  - destruct cur as [|x cur]; [discriminate|]. cbn [zenum map fold_left].
    unfold rank_step at 2. cbn [fst snd].
    fold (uF nc eps r1 r2).
    replace (Z.to_nat (Z.of_nat i0)) with (length pre + 0)%nat by lia.
    rewrite upd_nth_app_r. cbn [upd_nth].
    replace (Z.to_nat (Z.of_nat i0 + 1 + Z.of_nat off))
      with (length pre + S (length done + 0))%nat by lia.
    rewrite upd_nth_app_r. cbn [upd_nth].
    rewrite upd_nth_app_r. cbn [upd_nth nadd nsub n1 RR].
    replace (Z.of_nat off + 1)%Z with (Z.of_nat (S off)) by lia.
    replace (done ++ (x + (1 - uF nc eps r1 r2)) :: cur)
      with ((done ++ [x + (1 - uF nc eps r1 r2)]) ++ cur) by (rewrite <- app_assoc; reflexivity).
    rewrite (IH (S off) pre (c1 + uF nc eps r1 r2) (done ++ [x + (1 - uF nc eps r1 r2)]) cur Hpre
                ltac:(rewrite app_length; simpl; lia) ltac:(simpl in Hcur; lia)).
    cbn [map rsumR combine fst snd]. rewrite <- app_assoc. cbn [app].
    f_equal. f_equal. lra.
Qed.

Lemma pairs_fold nc eps : forall rows (i0 : nat) pre cur,
  length pre = i0 -> length cur = length rows ->
  fold_left (rank_step RR KR nc) (pairs_from RR KR eps (Z.of_nat i0) rows) (pre ++ cur)
  = pre ++ vadd cur (delta nc eps rows).
Proof.
  induction rows as [|r1 rest IH]; intros i0 pre cur Hpre Hcur.
  - destruct cur; [|discriminate]. reflexivity.
  - destruct cur as [|c1 cur]; [discriminate|].
    cbn [pairs_from]. rewrite fold_left_app.
    pose proof (first_block nc eps i0 r1 rest O pre c1 [] cur Hpre eq_refl ltac:(simpl in Hcur; lia)) as HB.
    cbn [app] in HB. change (Z.of_nat 0) with 0%Z in HB. rewrite HB.
    replace (Z.of_nat i0 + 1)%Z with (Z.of_nat (S i0)) by lia.
    replace (pre ++ (c1 + rsumR (map (fun r2 => uF nc eps r1 r2) rest))
               :: map (fun p => snd p + (1 - uF nc eps r1 (fst p))) (combine rest cur))
      with ((pre ++ [c1 + rsumR (map (fun r2 => uF nc eps r1 r2) rest)])
               ++ map (fun p => snd p + (1 - uF nc eps r1 (fst p))) (combine rest cur))
      by (rewrite <- app_assoc; reflexivity).
    rewrite (IH (S i0)) by
      (rewrite ?app_length, ?map_length, ?combine_length; simpl in *; lia).
    rewrite <- app_assoc. cbn [app]. f_equal. unfold vadd. cbn [delta combine map fst snd]. f_equal.
    (* pointwise: (x + (1-u)) + d = x + ((1-u) + d) *)
    assert (Hl : length cur = length rest) by (simpl in Hcur; lia).
    pose proof (delta_length nc eps rest) as Hd.
    clear -Hl Hd. revert cur Hl. generalize dependent (delta nc eps rest).
    induction rest as [|r2 rest IHr]; intros d Hd cur Hl.
    + destruct cur; [reflexivity|discriminate].
    + destruct cur as [|x cur]; [discriminate|]. destruct d as [|y d]; [discriminate|].
      cbn [combine map fst snd]. f_equal; [lra|]. apply IHr; simpl in *; lia.
Qed.

(* ranks returned by the kernel = 1 + delta *)
Theorem ensrank_ranks eps sim fs ranks :
  ensrank RR KR eps sim = EnsOk fs ranks ->
  ranks = map (fun d => 1 + d) (delta (length (hd [] sim)) eps sim).
Proof.
  unfold ensrank. destruct (nltb RR eps (k_eps_min KR)); [discriminate|].
  destruct (_ || _); [discriminate|]. intros H. injection H as _ <-.
  assert (Enc : match sim with r :: _ => length r | [] => O end = length (hd [] sim))
    by (destruct sim; reflexivity).
  rewrite Enc. set (nc := length (hd [] sim)). clearbody nc. clear Enc.
  pose proof (pairs_fold nc eps sim O [] (map (fun _ => n1 RR) sim) eq_refl ltac:(apply map_length)) as HF.
  cbn [app] in HF. change (Z.of_nat 0) with 0%Z in HF. cbn [n1 RR] in HF. rewrite HF.
  unfold vadd. pose proof (delta_length nc eps sim) as Hd.
  clear HF. revert Hd. generalize (delta nc eps sim). induction sim as [|r sim IH]; intros d Hd.
  - destruct d; [reflexivity|discriminate].
  - destruct d as [|y d]; [discriminate|]. cbn [map combine fst snd n1 RR]. f_equal.
    apply IH. simpl in Hd; lia.
Qed.

(* ================================================================== *)
(* forecasts that order a list of distinct keys: ranks, D = 1 and D = 0 *)

Lemma combine_map_r_self {A B C} (f : A -> B) (g : A -> C) (l : list A) :
  combine (map f l) (map g l) = map (fun a => (f a, g a)) l.
Proof. induction l as [|a l IH]; simpl; [reflexivity|rewrite IH; reflexivity]. Qed.

Lemma uF_above nc eps r1 r2 :
  (1 <= nc)%nat ->
  0 < eps -> r1 <> [] -> length r2 = length r1 -> separated eps (r1 ++ r2) ->
  (forall a b, In a r1 -> In b r2 -> b < a) ->
  uF nc eps r1 r2 = 1 /\ uF nc eps r2 r1 = 0.
Proof.
  intros Hn H1 H2 H3 H4 H5. destruct (F_all_above eps r1 r2 H1 H2 H3 H4 H5) as [E1 E0].
  unfold uF. rewrite E1, E0. destruct (u_of_F_values nc 1 Hn) as (Ha & _ & _).
  destruct (u_of_F_values nc 0 Hn) as (_ & Hb & _). split; [apply Ha|apply Hb]; reflexivity.
Qed.

(* rows (key, ensemble): ensembles have m >= 1 members, any two of them are
   separated in the sense of the tolerances, and a larger key has all its
   members above all members of a smaller key *)
Definition ordered_rows (eps : R) (m : nat) (ks : list (R * list R)) : Prop :=
  (forall a, In a ks -> length (snd a) = m) /\
  (forall a b, In a ks -> In b ks -> separated eps (snd a ++ snd b)) /\
  (forall a b, In a ks -> In b ks -> fst b < fst a ->
               forall x y, In x (snd a) -> In y (snd b) -> y < x).

Lemma delta_ordered eps m ks :
  0 < eps -> (1 <= m)%nat -> NoDup (map fst ks) -> ordered_rows eps m ks ->
  delta m eps (map snd ks) =
  map (fun a => cntR (fun b : R * list R => Rltb (fst b) (fst a)) ks) ks.
Proof.
  intros Heps Hm. induction ks as [|a rest IH]; intros Hnd (Hlen & Hsep & Hord); [reflexivity|].
  inversion Hnd as [|? ? Hnotin Hnd']; subst.
  assert (Hrest : ordered_rows eps m rest).
  { repeat split; intros; [apply Hlen|apply Hsep|eapply Hord]; eauto; right; assumption. }
  specialize (IH Hnd' Hrest).
  assert (Hne : forall c, In c (a :: rest) -> snd c <> []).
  { intros c Hc E. pose proof (Hlen c Hc) as L. rewrite E in L. simpl in L. lia. }
  (* u for the pairs (a, b), b in rest *)
  assert (Hu : forall b, In b rest ->
            uF m eps (snd a) (snd b) = ind (Rltb (fst b) (fst a)) /\
            1 - uF m eps (snd a) (snd b) = ind (Rltb (fst a) (fst b))).
  { intros b Hb.
    assert (Hab : fst a <> fst b).
    { intros E. apply Hnotin. rewrite E. apply in_map; exact Hb. }
    assert (Ha' : In a (a :: rest)) by (left; reflexivity).
    assert (Hb' : In b (a :: rest)) by (right; exact Hb).
    assert (Lab : length (snd b) = length (snd a)) by (rewrite (Hlen a Ha'), (Hlen b Hb'); reflexivity).
    destruct (Rtotal_order (fst b) (fst a)) as [Hlt|[Heq|Hgt]]; [|congruence|].
    - destruct (uF_above m eps (snd a) (snd b) Hm Heps (Hne a Ha') Lab (Hsep a b Ha' Hb')
                  (fun x y Hx Hy => Hord a b Ha' Hb' Hlt x y Hx Hy)) as [E1 _].
      rewrite E1, (proj2 (Rltb_true _ _) Hlt), (proj2 (Rltb_false (fst a) (fst b)) ltac:(lra)).
      unfold ind; split; lra.
    - destruct (uF_above m eps (snd b) (snd a) Hm Heps (Hne b Hb') (eq_sym Lab) (Hsep b a Hb' Ha')
                  (fun x y Hx Hy => Hord b a Hb' Ha' Hgt x y Hx Hy)) as [_ E0].
      rewrite E0, (proj2 (Rltb_true _ _) Hgt), (proj2 (Rltb_false (fst b) (fst a)) ltac:(lra)).
      unfold ind; split; lra. }
  cbn [map delta]. f_equal.
  - unfold cntR. cbn [map rsumR]. rewrite (proj2 (Rltb_false (fst a) (fst a)) ltac:(lra)).
    unfold ind at 1. rewrite Rplus_0_l. rewrite map_map. apply rsumR_map_ext.
    intros b Hb. apply (Hu b Hb).
  - rewrite IH. clear IH. rewrite combine_map_r_self.
    rewrite map_map. apply map_ext_in. intros b Hb. cbn [fst snd].
    unfold cntR. cbn [map rsumR]. rewrite (proj2 (Hu b Hb)). reflexivity.
Qed.

(* ---- argsort(argsort(x)) of distinct values: number of smaller values ---- *)
Lemma countb_app {A} (P : A -> bool) l1 l2 : countb P (l1 ++ l2) = (countb P l1 + countb P l2)%Z.
Proof. unfold countb. rewrite filter_app, app_length. lia. Qed.

Lemma countb_cntR {A} (P : A -> bool) l : IZR (countb P l) = cntR P l.
Proof.
  unfold countb, cntR. induction l as [|a l IH]; [reflexivity|]. simpl.
  destruct (P a); simpl length; unfold ind at 1.
  - rewrite Nat2Z.inj_succ, succ_IZR, IH. lra.
  - rewrite IH. lra.
Qed.

Lemma argsort_ranks_from_distinct front l :
  NoDup (front ++ l) ->
  argsort_ranks_from RR front l = map (fun x => countb (fun y => Rltb y x) (front ++ l)) l.
Proof.
  revert front. induction l as [|x l IH]; intros front Hnd; [reflexivity|].
  cbn [argsort_ranks_from map]. f_equal.
  - unfold rank_in. cbn [nltb neqb RR].
    assert (Hx : countb (fun y => Reqb y x) front = 0%Z).
    { assert (Hnot : ~ In x front).
      { intros Hin. apply NoDup_remove_2 in Hnd. apply Hnd, in_or_app; left; exact Hin. }
      unfold countb. clear -Hnot. induction front as [|y front IHf]; [reflexivity|].
      simpl. rewrite (proj2 (Reqb_false y x)) by (intros E; apply Hnot; left; exact E).
      apply IHf. intros Hin; apply Hnot; right; exact Hin. }
    rewrite Hx, Z.add_0_r, !countb_app. f_equal.
    unfold countb. simpl. rewrite (proj2 (Rltb_false x x) ltac:(lra)). reflexivity.
  - rewrite IH by (rewrite <- app_assoc; exact Hnd). rewrite <- app_assoc. reflexivity.
Qed.

Lemma argsort_ranks_distinct obs :
  NoDup obs ->
  map IZR (argsort_ranks RR obs) = map (fun x => cntR (fun y => Rltb y x) obs) obs.
Proof.
  intros Hnd. unfold argsort_ranks. rewrite (argsort_ranks_from_distinct [] obs Hnd), map_map.
  apply map_ext. intros x. apply countb_cntR.
Qed.

(* ---- a non-constant vector has positive variance ---- *)
Lemma sdot_self_zero c : sdot c c = 0 -> forall z, In z c -> z = 0.
Proof.
  induction c as [|x c IH]; intros H z Hz; [contradiction|].
  unfold sdot in *. simpl in H. pose proof (sdot_self_nonneg c) as Hc. unfold sdot in Hc.
  assert (Hx : 0 <= x * x) by nra.
  destruct Hz as [<-|Hz]; [nra|]. apply IH; [lra|exact Hz].
Qed.

Lemma sdot_centred_pos l a b :
  In a l -> In b l -> a <> b -> 0 < sdot (centred RR l) (centred RR l).
Proof.
  intros Ha Hb Hab. pose proof (sdot_self_nonneg (centred RR l)) as H0.
  destruct (Rle_lt_or_eq_dec _ _ H0) as [Hlt|Heq]; [exact Hlt|exfalso].
  pose proof (sdot_self_zero _ (eq_sym Heq)) as Hz. unfold centred in Hz.
  assert (Ea : a - tmean RR l = 0) by (apply Hz, in_map_iff; exists a; split; [reflexivity|exact Ha]).
  assert (Eb : b - tmean RR l = 0) by (apply Hz, in_map_iff; exists b; split; [reflexivity|exact Hb]).
  cbn [nsub RR] in *. apply Hab. lra.
Qed.

Lemma cntR_lt_strict l a b : In a l -> a < b ->
  cntR (fun y => Rltb y a) l < cntR (fun y => Rltb y b) l.
Proof.
  intros Ha Hab. unfold cntR. induction l as [|x l IH]; [contradiction|]. simpl.
  assert (Hmono : forall l', rsumR (map (fun y => ind (Rltb y a)) l') <= rsumR (map (fun y => ind (Rltb y b)) l')).
  { induction l' as [|y l' IH']; simpl; [lra|]. unfold ind at 1 3.
    destruct (Rltb y a) eqn:E1; destruct (Rltb y b) eqn:E2; try lra.
    apply Rltb_true in E1. apply Rltb_false in E2. lra. }
  destruct Ha as [->|Ha].
  - rewrite (proj2 (Rltb_false a a) ltac:(lra)), (proj2 (Rltb_true a b) Hab).
    change (ind false) with 0. change (ind true) with 1.
    specialize (Hmono l). lra.
  - specialize (IH Ha). unfold ind at 1 3.
    destruct (Rltb x a) eqn:E1; destruct (Rltb x b) eqn:E2; try lra.
    apply Rltb_true in E1. apply Rltb_false in E2. lra.
Qed.

Lemma ranks_of_distinct_not_constant obs :
  NoDup obs -> (2 <= length obs)%nat ->
  0 < sdot (centred RR (map (fun x => cntR (fun y => Rltb y x) obs) obs))
           (centred RR (map (fun x => cntR (fun y => Rltb y x) obs) obs)).
Proof.
  intros Hnd Hn. destruct obs as [|a [|b obs']]; simpl in Hn; try lia.
  assert (Hab : a <> b).
  { inversion Hnd as [|? ? Hni _]; subst. intros ->. apply Hni. left; reflexivity. }
  set (l := a :: b :: obs') in *.
  assert (Ha : In a l) by (left; reflexivity). assert (Hb : In b l) by (right; left; reflexivity).
  apply (sdot_centred_pos _ (cntR (fun y => Rltb y a) l) (cntR (fun y => Rltb y b) l)).
  - apply in_map_iff. exists a. split; [reflexivity|exact Ha].
  - apply in_map_iff. exists b. split; [reflexivity|exact Hb].
  - destruct (Rtotal_order a b) as [H|[H|H]]; [|contradiction|].
    + pose proof (cntR_lt_strict l a b Ha H). lra.
    + pose proof (cntR_lt_strict l b a Hb H). lra.
Qed.

(* ---- forecast ranks of ordered rows ---- *)
Lemma map_fst_combine {A B} (a : list A) (b : list B) : length b = length a -> map fst (combine a b) = a.
Proof.
  revert b; induction a as [|x a IH]; intros [|y b] H; simpl in *; try discriminate; [reflexivity|].
  f_equal; apply IH; lia.
Qed.
Lemma map_snd_combine {A B} (a : list A) (b : list B) : length b = length a -> map snd (combine a b) = b.
Proof.
  revert b; induction a as [|x a IH]; intros [|y b] H; simpl in *; try discriminate; [reflexivity|].
  f_equal; apply IH; lia.
Qed.

Lemma forecast_ranks_ordered eps keys sim m :
  0 < eps -> nltb RR eps (k_eps_min KR) = false ->
  (1 <= length keys)%nat -> length sim = length keys -> NoDup keys -> (2 <= m)%nat ->
  ordered_rows eps m (combine keys sim) ->
  forecast_ranks RR KR eps sim = map (fun x => 1 + cntR (fun y => Rltb y x) keys) keys.
Proof.
  intros Heps Hmin Hn Hlen Hnd Hm Hord.
  assert (Hfst : map fst (combine keys sim) = keys) by (apply map_fst_combine; exact Hlen).
  assert (Hsnd : map snd (combine keys sim) = sim) by (apply map_snd_combine; exact Hlen).
  assert (Hrows : forall r, In r sim -> length r = m).
  { intros r Hr. destruct Hord as (Hl & _). rewrite <- Hsnd in Hr. apply in_map_iff in Hr.
    destruct Hr as (a & <- & Ha). apply Hl; exact Ha. }
  unfold forecast_ranks.
  destruct sim as [|r sim']; [destruct keys; simpl in *; lia|].
  pose proof (Hrows r (or_introl eq_refl)) as Hr.
  destruct r as [|x [|y r']]; simpl in Hr; try lia.
  remember ((x :: y :: r') :: sim') as sim eqn:Esim.
  destruct (ensrank RR KR eps sim) as [code|fs ranks] eqn:Eens.
  - exfalso. unfold ensrank in Eens. rewrite Hmin in Eens. rewrite Esim in Eens. simpl in Eens. discriminate.
  - rewrite (ensrank_ranks eps sim fs ranks Eens).
    assert (Enc : length (hd [] sim) = m) by (rewrite Esim; simpl; exact Hr).
    rewrite Enc. rewrite <- Hsnd at 1.
    rewrite (delta_ordered eps m (combine keys sim) Heps ltac:(lia) ltac:(rewrite Hfst; exact Hnd) Hord).
    rewrite map_map.
    transitivity (map (fun x => 1 + cntR (fun y => Rltb y x) keys) (map fst (combine keys sim)));
      [|rewrite Hfst; reflexivity].
    rewrite map_map. apply map_ext. intros a.
    f_equal. rewrite <- (cntR_map fst (fun y => Rltb y (fst a))), Hfst. reflexivity.
Qed.

(* D = 1 when the forecasts order the observations perfectly *)
Theorem dscore_perfect_order eps obs sim m :
  0 < eps -> nltb RR eps (k_eps_min KR) = false ->
  (2 <= length obs)%nat -> length sim = length obs -> NoDup obs -> (2 <= m)%nat ->
  ordered_rows eps m (combine obs sim) ->
  dscore RR KR eps obs sim = 1.
Proof.
  intros Heps Hmin Hn Hlen Hnd Hm Hord. unfold dscore.
  rewrite (forecast_ranks_ordered eps obs sim m Heps Hmin ltac:(lia) Hlen Hnd Hm Hord).
  change (map (nofZ RR) (argsort_ranks RR obs)) with (map IZR (argsort_ranks RR obs)).
  rewrite (argsort_ranks_distinct obs Hnd).
  set (o := map (fun x => cntR (fun y => Rltb y x) obs) obs).
  replace (map (fun x => 1 + cntR (fun y => Rltb y x) obs) obs) with (map (fun v => v + 1) o).
  - apply dscore_of_ranks_perfect.
    + subst o. rewrite map_length. exact Hn.
    + apply ranks_of_distinct_not_constant; assumption.
  - subst o. rewrite map_map. apply map_ext. intros; lra.
Qed.

(* D = 0 when they order them inversely: the rows are ordered by -obs *)
Lemma cntR_eq_one l a : NoDup l -> In a l -> cntR (fun y => Reqb y a) l = 1.
Proof.
  intros Hnd Ha. unfold cntR. induction l as [|x l IH]; [contradiction|].
  inversion Hnd as [|? ? Hni Hnd']; subst. simpl. destruct Ha as [->|Ha].
  - rewrite (proj2 (Reqb_true a a) eq_refl). unfold ind at 1.
    fold (cntR (fun y => Reqb y a) l). rewrite cntR_none; [lra|].
    intros y Hy. apply Reqb_false. intros ->. contradiction.
  - rewrite (proj2 (Reqb_false x a)) by (intros ->; contradiction). unfold ind at 1.
    rewrite (IH Hnd' Ha). lra.
Qed.

Lemma cntR_trichotomy l a :
  cntR (fun y => Rltb y a) l + cntR (fun y => Reqb y a) l + cntR (fun y => Rltb a y) l = INR (length l).
Proof.
  unfold cntR. induction l as [|x l IH]; [simpl; lra|].
  change (length (x :: l)) with (S (length l)). rewrite S_INR. simpl. rewrite <- IH.
  destruct (Rtotal_order x a) as [H|[H|H]].
  - rewrite (proj2 (Rltb_true x a) H), (proj2 (Reqb_false x a)) by (intro; lra).
    rewrite (proj2 (Rltb_false a x)) by lra. unfold ind; lra.
  - rewrite (proj2 (Rltb_false x a)) by lra. rewrite (proj2 (Reqb_true x a) H).
    rewrite (proj2 (Rltb_false a x)) by lra. unfold ind; lra.
  - rewrite (proj2 (Rltb_false x a)) by lra. rewrite (proj2 (Reqb_false x a)) by (intro; lra).
    rewrite (proj2 (Rltb_true a x) H). unfold ind; lra.
Qed.

Theorem dscore_inverse_order eps obs sim m :
  0 < eps -> nltb RR eps (k_eps_min KR) = false ->
  (2 <= length obs)%nat -> length sim = length obs -> NoDup obs -> (2 <= m)%nat ->
  ordered_rows eps m (combine (map Ropp obs) sim) ->
  dscore RR KR eps obs sim = 0.
Proof.
  intros Heps Hmin Hn Hlen Hnd Hm Hord. unfold dscore.
  assert (Hnd' : NoDup (map Ropp obs)).
  { apply FinFun.Injective_map_NoDup; [|exact Hnd]. intros x y H. lra. }
  rewrite (forecast_ranks_ordered eps (map Ropp obs) sim m Heps Hmin
             ltac:(rewrite map_length; lia) ltac:(rewrite map_length; exact Hlen) Hnd' Hm Hord).
  change (map (nofZ RR) (argsort_ranks RR obs)) with (map IZR (argsort_ranks RR obs)).
  rewrite (argsort_ranks_distinct obs Hnd).
  set (o := map (fun x => cntR (fun y => Rltb y x) obs) obs).
  replace (map (fun x => 1 + cntR (fun y => Rltb y x) (map Ropp obs)) (map Ropp obs))
    with (map (fun v => INR (length obs) - v) o).
  - apply dscore_of_ranks_inverse.
    + subst o. rewrite map_length. exact Hn.
    + apply ranks_of_distinct_not_constant; assumption.
  - subst o. rewrite !map_map. apply map_ext_in. intros a Ha.
    rewrite cntR_map.
    pose proof (cntR_trichotomy obs a) as HT. rewrite (cntR_eq_one obs a Hnd Ha) in HT.
    assert (E : cntR (fun y => Rltb (- y) (- a)) obs = cntR (fun y => Rltb a y) obs).
    { unfold cntR. apply rsumR_map_ext. intros y _. f_equal.
      destruct (Rltb a y) eqn:E1.
      - apply Rltb_true in E1. apply Rltb_true. lra.
      - apply Rltb_false in E1. apply Rltb_false. lra. }
    rewrite E. lra.
Qed.

(* ---- single-member forecasts: dscore ranks them with argsort ---- *)
Lemma NoDup_map_fst_inj {A B} (ks : list (A * B)) a b :
  NoDup (map fst ks) -> In a ks -> In b ks -> fst a = fst b -> a = b.
Proof.
  induction ks as [|k ks IH]; intros Hnd Ha Hb E; [contradiction|].
  inversion Hnd as [|? ? Hni Hnd']; subst.
  destruct Ha as [->|Ha]; destruct Hb as [->|Hb]; try reflexivity.
  - exfalso. apply Hni. rewrite E. apply in_map; exact Hb.
  - exfalso. apply Hni. rewrite <- E. apply in_map; exact Ha.
  - apply IH; assumption.
Qed.

Theorem dscore_perfect_order_single eps obs fc :
  (2 <= length obs)%nat -> length fc = length obs -> NoDup obs -> NoDup fc ->
  (forall a b, In a (combine obs fc) -> In b (combine obs fc) -> fst b < fst a -> snd b < snd a) ->
  dscore RR KR eps obs (map (fun x => [x]) fc) = 1.
Proof.
  intros Hn Hlen Hnd Hndf Hord. unfold dscore.
  assert (Hfr : forecast_ranks RR KR eps (map (fun x => [x]) fc) = map IZR (argsort_ranks RR fc)).
  { assert (Hh : forall l : list R, heads RR (map (fun x => [x]) l) = l).
    { induction l as [|y l IHl]; [reflexivity|]. unfold heads in *. cbn [map]. rewrite IHl. reflexivity. }
    unfold forecast_ranks. destruct fc as [|x fc']; [destruct obs; simpl in *; lia|].
    cbn [map]. change ([x] :: map (fun x0 => [x0]) fc') with (map (fun x0 : R => [x0]) (x :: fc')).
    rewrite Hh. reflexivity. }
  rewrite Hfr.
  change (map (nofZ RR) (argsort_ranks RR obs)) with (map IZR (argsort_ranks RR obs)).
  rewrite (argsort_ranks_distinct obs Hnd), (argsort_ranks_distinct fc Hndf).
  set (ks := combine obs fc) in *.
  assert (Hfst : map fst ks = obs) by (apply map_fst_combine; exact Hlen).
  assert (Hsnd : map snd ks = fc) by (apply map_snd_combine; exact Hlen).
  assert (E : map (fun x => cntR (fun y => Rltb y x) fc) fc =
              map (fun x => cntR (fun y => Rltb y x) obs) obs).
  { assert (Hgen : forall f : R * R -> R,
              map (fun x => cntR (fun y => Rltb y x) (map f ks)) (map f ks) =
              map (fun a => cntR (fun b => Rltb (f b) (f a)) ks) ks).
    { intros f. rewrite map_map. apply map_ext. intros a. apply cntR_map. }
    rewrite <- Hsnd, <- Hfst. rewrite (Hgen snd), (Hgen fst). clear Hgen.
    apply map_ext_in. intros a Ha.
    unfold cntR. apply rsumR_map_ext. intros b Hb. f_equal.
    destruct (Rltb (fst b) (fst a)) eqn:E1.
    - apply Rltb_true in E1. apply Rltb_true. apply Hord; assumption.
    - apply Rltb_false in E1. apply Rltb_false.
      destruct (Rle_lt_or_eq_dec _ _ E1) as [Hlt|Heq].
      + apply Rlt_le. apply Hord; assumption.
      + assert (Eab : a = b) by (apply (NoDup_map_fst_inj ks); [rewrite Hfst; exact Hnd|assumption|assumption|exact Heq]).
        rewrite Eab. lra. }
  rewrite E. set (o := map (fun x => cntR (fun y => Rltb y x) obs) obs).
  replace o with (map (fun v => v + 0) o) at 2 by (rewrite <- (map_id o) at 2; apply map_ext; intros; lra).
  apply dscore_of_ranks_perfect.
  - subst o. rewrite map_length. exact Hn.
  - apply ranks_of_distinct_not_constant; assumption.
Qed.

(* ================================================================== *)
(* the pinned thresholds 0.5 -+ 1e-8 misrank ensembles of 7072 members  *)

Lemma wm_sum_app_l l1 l1' l2 : wm_sum (l1 ++ l1') l2 = wm_sum l1 l2 + wm_sum l1' l2.
Proof. unfold wm_sum. rewrite map_app, rsumR_app. reflexivity. Qed.

Lemma wm_row_repeat a c d k :
  rsumR (map (fun b => wm a b) (repeat c k ++ [d])) = INR k * wm a c + wm a d.
Proof.
  induction k as [|k IH]; [simpl; lra|].
  rewrite S_INR. cbn [repeat app map rsumR]. rewrite IH. lra.
Qed.

Lemma wm_sum_repeat_l a k l2 :
  wm_sum (repeat a k) l2 = INR k * rsumR (map (fun b => wm a b) l2).
Proof.
  unfold wm_sum. induction k as [|k IH]; [simpl; lra|].
  rewrite S_INR. cbn [repeat map rsumR]. rewrite IH. lra.
Qed.

(* E1 = k zeros and a 1, E2 = k zeros and a 2 *)
Definition big_e1 (k : nat) : list R := repeat 0 k ++ [1].
Definition big_e2 (k : nat) : list R := repeat 0 k ++ [2].

Lemma big_wm_sum k : wm_sum (big_e1 k) (big_e2 k) = INR k * INR k / 2 + INR k.
Proof.
  unfold big_e1, big_e2. rewrite wm_sum_app_l, wm_sum_repeat_l. unfold wm_sum at 1.
  cbn [map rsumR]. rewrite !wm_row_repeat.
  assert (E00 : wm 0 0 = 1 / 2).
  { unfold wm. rewrite (proj2 (Rltb_false 0 0)) by lra. rewrite (proj2 (Reqb_true 0 0) eq_refl). reflexivity. }
  assert (E02 : wm 0 2 = 0).
  { unfold wm. rewrite (proj2 (Rltb_false 2 0)) by lra.
    rewrite (proj2 (Reqb_false 0 2)) by (intro; lra). reflexivity. }
  assert (E10 : wm 1 0 = 1) by (unfold wm; rewrite (proj2 (Rltb_true 0 1)) by lra; reflexivity).
  assert (E12 : wm 1 2 = 0).
  { unfold wm. rewrite (proj2 (Rltb_false 2 1)) by lra.
    rewrite (proj2 (Reqb_false 1 2)) by (intro; lra). reflexivity. }
  rewrite E00, E02, E10, E12. lra.
Qed.

Lemma big_separated k : separated (1 / 1000000) (big_e1 k ++ big_e2 k).
Proof.
  assert (Hin : forall x, In x (big_e1 k ++ big_e2 k) -> x = 0 \/ x = 1 \/ x = 2).
  { intros x Hx. unfold big_e1, big_e2 in Hx.
    repeat (apply in_app_or in Hx; destruct Hx as [Hx|Hx]);
      try (apply repeat_spec in Hx; auto); simpl in Hx; destruct Hx as [<-|[]]; auto. }
  intros a b Ha Hb. cbn [k_cmp_tol KR]. unfold DS_CMP_TOL_R.
  destruct (Hin a Ha) as [-> | [-> | ->]]; destruct (Hin b Hb) as [-> | [-> | ->]];
    first [left; reflexivity
          | right; unfold Rabs; match goal with |- context [Rcase_abs ?t] => destruct (Rcase_abs t) end;
            split; lra].
Qed.

(* with 7072 members: F = 1/2 - 1/(2 m^2) < 1/2, the repaired kernel gives
   u = 0 (Weigel-Mason), the pinned one (tolerance 1e-8) gives the tie value 1/2 *)
Theorem u_of_F_pinned_refuted :
  let k := Z.to_nat 7071 in
  let F := pairF RR KR (1 / 1000000) (big_e1 k) (big_e2 k) in
  length (big_e1 k) = Z.to_nat 7072 /\ F < 1 / 2 /\
  u_of_F RR KR (length (big_e1 k)) F = 0 /\
  u_of_F_pinned RR KR (1 / 100000000) F = 1 / 2.
Proof.
  intros k F.
  assert (Hk : INR k = 7071) by (subst k; rewrite INR_IZR_INZ, Z2Nat.id by lia; reflexivity).
  assert (Hlen : length (big_e1 k) = S k) by (unfold big_e1; rewrite app_length, repeat_length; simpl; lia).
  assert (Hne : big_e1 k <> []) by (intros E; rewrite E in Hlen; discriminate).
  assert (HF : F = (INR k * INR k / 2 + INR k) / ((INR k + 1) * (INR k + 1))).
  { subst F. rewrite (F_is_midrank (1 / 1000000) (big_e1 k) (big_e2 k) ltac:(lra) Hne (big_separated k)), big_wm_sum, Hlen, S_INR.
    reflexivity. }
  rewrite Hk in HF.
  assert (HFv : F = 1 / 2 - 1 / 100026368) by (rewrite HF; field).
  split; [rewrite Hlen; subst k; lia|]. split; [lra|]. split.
  - pose proof (u_of_F_is_sign (1 / 1000000) (big_e1 k) (big_e2 k) ltac:(lra) Hne (big_separated k)) as Hs.
    cbv zeta in Hs. change (pairF RR KR (1 / 1000000) (big_e1 k) (big_e2 k)) with F in Hs. rewrite Hs.
    rewrite (proj2 (Rltb_true F (1 / 2))) by lra. reflexivity.
  - unfold u_of_F_pinned. rewrite u_of_F_tol_cases.
    rewrite (proj2 (Rltb_false _ _)) by lra. rewrite (proj2 (Rltb_false _ _)) by lra. reflexivity.
Qed.
