(* Refinement: the MiniC program regenerated from
   src/hydrodiy/gis/c_points_inside_polygon.c (Gen/KernelsAst.v, c_inside)
   computes, for ALL inputs, what the hand-written model [c_inside] of
   Model/Polygon.v computes. *)
From Coq Require Import ZArith Bool List String Lia.
From Hy Require Import Base.Num Base.MiniC Gen.KernelsAst Model.Polygon.
Import ListNotations.
Open Scope string_scope.
Open Scope list_scope.
Open Scope Z_scope.

(* ================================================================== *)
(* BEGIN generic block (about MiniC / lists; could move to Base/MiniC.v) *)
(* ================================================================== *)

(* all the [for] loops of a statement, outermost first: (condition, step, body);
   used to NAME the inner loop of a kernel without copying its text *)
Fixpoint for_loops (s : stmt) : list (iexp * stmt * stmt) :=
  match s with
  | SSeq a b => for_loops a ++ for_loops b
  | SIf _ a b => for_loops a ++ for_loops b
  | SWhile _ b => for_loops b
  | SFor c st b => (c, st, b) :: for_loops b
  | _ => []
  end.

Definition fun_body (f : fundef) : stmt :=
  match f with Fun _ b => b | Untranslated _ => SSkip end.

(* an array of n pairs stored row-major (numpy shape (n, 2), mode='c') *)
Definition flat {A} (l : list (A * A)) : list A := flat_map (fun p => [fst p; snd p]) l.

Lemma flat_length {A} (l : list (A * A)) : List.length (flat l) = (2 * List.length l)%nat.
Proof. unfold flat. induction l as [|p l IH]; [reflexivity|]. cbn [flat_map app List.length]. rewrite IH. lia. Qed.

(* every buffer of 2n entries is [flat] of a list of n pairs *)
Fixpoint unflat {A} (l : list A) : list (A * A) :=
  match l with
  | a :: b :: r => (a, b) :: unflat r
  | _ => []
  end.

Lemma flat_unflat {A} (n : nat) : forall (l : list A),
  List.length l = (2 * n)%nat -> flat (unflat l) = l /\ List.length (unflat l) = n.
Proof.
  induction n as [|n IH]; intros l H.
  - destruct l; [split; reflexivity|discriminate].
  - destruct l as [|a [|b r]]; try (cbn in H; lia).
    destruct (IH r) as [E L]; [cbn in H; lia|].
    cbn [unflat flat flat_map fst snd app List.length]. fold (flat (unflat r)).
    rewrite E, L. split; reflexivity.
Qed.

Lemma zget_flat_fst {A} (l : list (A * A)) (i : nat) (d : A * A) :
  (i < List.length l)%nat -> zget (flat l) (2 * Z.of_nat i) = Some (fst (nth i l d)).
Proof.
  revert i; induction l as [|p l IH]; intros i H; [cbn in H; lia|].
  destruct i as [|i]; [reflexivity|].
  cbn [flat flat_map app nth]. fold (flat l).
  rewrite zget_cons by lia. rewrite zget_cons by lia.
  replace (2 * Z.of_nat (S i) - 1 - 1) with (2 * Z.of_nat i) by lia.
  apply IH. cbn in H; lia.
Qed.

Lemma zget_flat_snd {A} (l : list (A * A)) (i : nat) (d : A * A) :
  (i < List.length l)%nat -> zget (flat l) (2 * Z.of_nat i + 1) = Some (snd (nth i l d)).
Proof.
  revert i; induction l as [|p l IH]; intros i H; [cbn in H; lia|].
  destruct i as [|i]; [reflexivity|].
  cbn [flat flat_map app nth]. fold (flat l).
  rewrite zget_cons by lia. rewrite zget_cons by lia.
  replace (2 * Z.of_nat (S i) + 1 - 1 - 1) with (2 * Z.of_nat i + 1) by lia.
  apply IH. cbn in H; lia.
Qed.

Lemma path_snoc {A} (l : list A) a b : path ((l ++ [a]) ++ [b]) = path (l ++ [a]) ++ [(a, b)].
Proof.
  induction l as [|x l IH]; [reflexivity|].
  destruct l as [|y l]; [reflexivity|].
  change (path (((x :: y :: l) ++ [a]) ++ [b])) with ((x, y) :: path (((y :: l) ++ [a]) ++ [b])).
  rewrite IH. reflexivity.
Qed.

(* the vertex read at step i (1 <= i <= n) of "p2 = polygon[i % n]" is the
   (i+1)-th element of the closed sequence poly ++ [poly[0]] *)
Lemma nth_wrap {A} (poly pre todo : list A) (v0 p1 p2 d : A) :
  hd d poly = v0 -> poly <> [] ->
  poly ++ [v0] = pre ++ p1 :: p2 :: todo ->
  exists i : nat, (i < List.length poly)%nat /\
    Z.rem (Z.of_nat (List.length pre) + 1) (Z.of_nat (List.length poly)) = Z.of_nat i /\
    nth i poly d = p2.
Proof.
  intros Hhd Hne E.
  assert (HL : (List.length poly + 1 = List.length pre + 2 + List.length todo)%nat).
  { apply (f_equal (@List.length A)) in E. rewrite !app_length in E. cbn in E. lia. }
  destruct todo as [|t todo].
  - exists O. split; [destruct poly; [contradiction|cbn; lia]|]. split.
    + cbn in HL. replace (Z.of_nat (List.length pre) + 1) with (Z.of_nat (List.length poly)) by lia.
      apply Z.rem_same. destruct poly; [contradiction|cbn; lia].
    + change (pre ++ [p1; p2]) with (pre ++ [p1] ++ [p2]) in E. rewrite app_assoc in E.
      apply app_inj_tail in E. destruct E as [_ E]. subst p2.
      destruct poly; [contradiction|]. cbn in *. congruence.
  - exists (S (List.length pre)). cbn in HL. split; [lia|]. split.
    + rewrite Z.rem_small by lia. lia.
    + rewrite <- (app_nth1 poly [v0] d) by lia. rewrite E.
      change (pre ++ p1 :: p2 :: t :: todo) with (pre ++ [p1] ++ p2 :: t :: todo).
      rewrite app_assoc.
      replace (S (List.length pre)) with (List.length (pre ++ [p1])) by (rewrite app_length; cbn; lia).
      apply nth_middle.
Qed.

(* kernel-friendly [cbn] of the left-hand side of an equation.  On the whole body of
   c_inside the conversion  goal == cbn goal  re-checked by the kernel at Qed does
   not terminate in reasonable time (> 15 min), whereas both sides are quickly
   convertible to their common normal form: justify the step by [lazy; reflexivity]. *)
Ltac kcbn_lhs :=
  match goal with |- ?L = _ =>
    let L' := eval cbn in L in replace L with L' by (lazy; reflexivity) end.

(* ================================================================== *)
(* END generic block                                                    *)
(* ================================================================== *)

(* ------------------------------------------------------------------ *)
(* c_inside                                                             *)

(* the loop over the vertices, named by its position in the regenerated text *)
Definition inner_loop : iexp * stmt * stmt :=
  Eval cbv in nth 1 (for_loops (fun_body c_inside_def)) (IConst 0, SSkip, SSkip).
Definition inner_cond : iexp := Eval cbv in fst (fst inner_loop).
Definition inner_step : stmt := Eval cbv in snd (fst inner_loop).
Definition inner_body : stmt := Eval cbv in snd inner_loop.

Section Refine.
Context {T : Type} (N : NumOps T) (X : NumLit T).

Lemma b2z_negb (b : bool) : 1 - b2z b = b2z (negb b).
Proof. destruct b; reflexivity. Qed.

Section Fixed.
Variables (nprint : Z) (pts poly : list (T * T)) (atol xl0 xl1 yl0 yl1 : T).

Definition pst (ipt ivert k : Z) (x y p1x p1y p2x p2y xi di : T) (ins : list Z) : state T :=
  {| s_i := [("nprint", nprint); ("npoints", zlen pts); ("nvertices", zlen poly);
             ("ipt", ipt); ("ivert", ivert); ("k", k)];
     s_f := [("atol", atol); ("x", x); ("y", y); ("p1x", p1x); ("p1y", p1y);
             ("p2x", p2x); ("p2y", p2y); ("xinters", xi); ("dist", di)];
     s_ai := [("inside", ins)];
     s_af := [("points", flat pts); ("polygon", flat poly);
              ("polygon_xlim", [xl0; xl1]); ("polygon_ylim", [yl0; yl1])] |}.

Definition tog (x y : T) (acc : bool) (e : (T * T) * (T * T)) : bool :=
  if edge_toggle N atol x y e then negb acc else acc.

Definition in_inv (v0 : T * T) (x y : T) (insL insR : list Z) (j : nat) (st : state T) : Prop :=
  exists pre p1 todo k p2x p2y xi di,
    poly ++ [v0] = pre ++ p1 :: todo /\ List.length pre = j /\
    st = pst (Z.of_nat (List.length insL)) (Z.of_nat j + 1) k x y (fst p1) (snd p1) p2x p2y xi di
             (insL ++ b2z (fold_left (tog x y) (path (pre ++ [p1])) false) :: insR).

Definition in_post (v0 : T * T) (x y : T) (insL insR : list Z) (r : outcome T * state T) : Prop :=
  exists k p2x p2y xi di,
    r = (ONormal,
         pst (Z.of_nat (List.length insL)) (zlen poly + 1) k x y (fst v0) (snd v0) p2x p2y xi di
             (insL ++ b2z (crossing_parity N atol poly (x, y)) :: insR)).

Lemma inner_run cf f f' v0 ptl x y insL insR ipt k0 p2x0 p2y0 xi0 di0 :
  poly = v0 :: ptl -> (List.length poly < f)%nat -> ipt = Z.of_nat (List.length insL) ->
  exists r,
    loop f (cond_of N X inner_cond)
      (for_body (exec N X cf f' inner_body) (exec N X cf f' inner_step))
      (pst ipt 1 k0 x y (fst v0) (snd v0) p2x0 p2y0 xi0 di0
           (insL ++ 0 :: insR)) = Ok r /\ in_post v0 x y insL insR r.
Proof.
  intros Hpoly Hf ->.
  assert (Hedges : edges poly = path (poly ++ [v0])) by (rewrite Hpoly; reflexivity).
  apply (loop_rule (in_inv v0 x y insL insR) (in_post v0 x y insL insR) (List.length poly))
    with (k := O); [| |lia].
  - intros j st (pre & p1 & todo & k & p2x & p2y & xi & di & E & Hj & ->).
    subst j.
    assert (HL : (List.length poly + 1 = List.length pre + 1 + List.length todo)%nat).
    { apply (f_equal (@List.length (T * T))) in E. rewrite !app_length in E. cbn in E. lia. }
    split; [lia|].
    unfold pst, inner_cond. cbn. rewrite zlen_eq.
    destruct todo as [|p2 todo].
    + replace (Z.of_nat (List.length pre) + 1 <? Z.of_nat (List.length poly) + 1) with false
        by (symmetry; apply Z.ltb_ge; cbn in HL; lia).
      cbn. apply app_inj_tail in E. destruct E as [<- <-].
      exists k, p2x, p2y, xi, di. unfold pst. rewrite !zlen_eq.
      unfold crossing_parity. rewrite Hedges. cbn [fst snd]. reflexivity.
    + replace (Z.of_nat (List.length pre) + 1 <? Z.of_nat (List.length poly) + 1) with true
        by (symmetry; apply Z.ltb_lt; cbn in HL; lia).
      destruct (nth_wrap poly pre todo v0 p1 p2 v0) as (i & Hi & Hrem & Hnth);
        [rewrite Hpoly; reflexivity|rewrite Hpoly; discriminate|exact E|].
      unfold inner_body. cbn. zb. rewrite Hrem. cbn.
      rewrite (zget_flat_fst poly i v0 Hi). cbn.
      rewrite (zget_flat_snd poly i v0 Hi). cbn. rewrite Hnth.
      rewrite ?truth_b2z.
      destruct (nltb N (sem_fmin N (snd p1) (snd p2)) y) eqn:C1;
        [destruct (nleb N y (sem_fmax N (snd p1) (snd p2))) eqn:C2;
          [destruct (nleb N x (sem_fmax N (fst p1) (fst p2))) eqn:C3;
            [destruct (nltb N atol (nabs N (nsub N (snd p1) (snd p2)))) eqn:C4;
             cbn; rewrite ?truth_b2z, ?b2z_truth_b2z, ?or_ok, ?truth_b2z;
             match goal with |- context[b2z (?a || ?b)] =>
               destruct (a || b) eqn:C56 end;
             cbn; rewrite ?(zget_app insL insR) by reflexivity; cbn;
             rewrite ?(zset_app insL insR) by reflexivity; cbn | ] | ] | ].
      all: exists (pre ++ [p1]), p2, todo; do 5 eexists;
        (split; [rewrite <- app_assoc; exact E|]);
        (split; [rewrite app_length; cbn; lia|]);
        rewrite path_snoc, fold_left_app; cbn [fold_left];
        match goal with |- context[tog ?u ?v ?a ?e] =>
          change (tog u v a e) with (if edge_toggle N atol u v e then negb a else a) end;
        unfold edge_toggle, xinters;
        change (nfmin N) with (sem_fmin N); change (nfmax N) with (sem_fmax N);
        cbn [fst snd]; rewrite ?C1, ?C2, ?C3, ?C4, ?C56; rewrite ?b2z_negb;
        norm_state; unfold pst; rewrite !zlen_eq;
        replace (Z.of_nat (List.length pre) + 1 + 1)
          with (Z.of_nat (S (List.length pre)) + 1) by lia;
        reflexivity.
  - exists [], v0, (ptl ++ [v0]). do 5 eexists.
    split; [rewrite Hpoly; reflexivity|]. split; [reflexivity|].
    cbn. reflexivity.
Qed.

(* ---- the loop over the points ---- *)

Notation xlim := (xl0, xl1).
Notation ylim := (yl0, yl1).
Notation cin := (c_inside N atol xlim ylim poly).

Lemma c_inside_app P1 I1 P2 I2 :
  List.length P1 = List.length I1 ->
  cin (P1 ++ P2) (I1 ++ I2) = cin P1 I1 ++ cin P2 I2.
Proof.
  revert I1; induction P1 as [|p P1 IH]; intros [|o I1] H; try discriminate; [reflexivity|].
  cbn [app c_inside]. rewrite IH by (cbn in H; lia). reflexivity.
Qed.

Lemma c_inside_length P I : List.length P = List.length I -> List.length (cin P I) = List.length P.
Proof.
  revert I; induction P as [|p P IH]; intros [|o I] H; try discriminate; [reflexivity|].
  cbn [c_inside List.length]. rewrite IH by (cbn in H; lia). reflexivity.
Qed.

Lemma list_cases {A} (l : list A) : l = [] \/ exists a r, l = a :: r.
Proof. destruct l as [|a r]; [left; reflexivity|right; exists a, r; reflexivity]. Qed.

Definition out_inv (ins : list Z) (kk : nat) (st : state T) : Prop :=
  exists doneP todoP doneI todoI ivert k x y p1x p1y p2x p2y xi di,
    pts = doneP ++ todoP /\ ins = doneI ++ todoI /\
    List.length doneP = kk /\ List.length doneI = kk /\
    st = pst (Z.of_nat kk) ivert k x y p1x p1y p2x p2y xi di (cin doneP doneI ++ todoI).

Definition out_post (ins : list Z) (r : outcome T * state T) : Prop :=
  exists ivert k x y p1x p1y p2x p2y xi di,
    r = (ONormal, pst (zlen pts) ivert k x y p1x p1y p2x p2y xi di (cin pts ins)).

Lemma zget_flat_01 (v0 : T * T) ptl :
  poly = v0 :: ptl ->
  zget (flat poly) 0 = Some (fst v0) /\ zget (flat poly) 1 = Some (snd v0).
Proof. intros ->. split; reflexivity. Qed.

(* c_inside: for EVERY print period nprint, list of points, polygon, tolerance,
   bounding box and initial content of [inside] (one entry per point), the
   translated kernel returns 0, leaves its four double arrays untouched and leaves in
   [inside] exactly the model's [c_inside] (entries of the points outside the box
   are NOT written).  The only hypothesis beyond the buffer lengths: the polygon
   has a vertex, or no point falls inside the box (otherwise polygon[0] is read
   out of bounds: see [c_inside_empty_polygon_oob]).
   [n] = fuel left for each of the two loops. *)
Theorem refine_c_inside ins n :
  List.length ins = List.length pts ->
  (poly = [] -> forall p, In p pts -> outside_box N xlim ylim p = true) ->
  (List.length pts < n)%nat -> (List.length poly < n)%nat ->
  exec_fun N X program (S n) "c_inside"
    [AVI nprint; AVI (zlen pts); AVArrF (flat pts); AVI (zlen poly); AVArrF (flat poly);
     AVF atol; AVArrF [xl0; xl1]; AVArrF [yl0; yl1]; AVArrI ins]
  = Ok (RI 0, [VArrF (flat pts); VArrF (flat poly); VArrF [xl0; xl1]; VArrF [yl0; yl1];
               VArrI (cin pts ins)]).
Proof.
  intros Hins Hempty Hn1 Hn2. kcbn_lhs. rewrite ?if_same. kcbn_lhs. norm_state.
  loop_with (out_inv ins) (out_post ins) (List.length pts).
  - intros kk st (doneP & todoP & doneI & todoI & ivert & k & x & y & p1x & p1y & p2x & p2y
                  & xi & di & HP & HI & HkP & HkI & ->).
    assert (HLP : List.length pts = (kk + List.length todoP)%nat)
      by (rewrite HP, app_length; lia).
    assert (HLI : List.length ins = (kk + List.length todoI)%nat)
      by (rewrite HI, app_length; lia).
    split; [lia|].
    unfold pst. cbn. rewrite zlen_eq.
    destruct todoP as [|p todoP].
    + replace (Z.of_nat kk <? Z.of_nat (List.length pts)) with false
        by (symmetry; apply Z.ltb_ge; cbn in HLP; lia).
      cbn. destruct todoI as [|? ?]; [|cbn in HLP, HLI; lia].
      rewrite app_nil_r in HP, HI. subst doneP doneI.
      do 10 eexists. unfold pst. rewrite !zlen_eq, app_nil_r.
      replace (List.length pts) with kk by (cbn in HLP; lia). reflexivity.
    + replace (Z.of_nat kk <? Z.of_nat (List.length pts)) with true
        by (symmetry; apply Z.ltb_lt; cbn in HLP; lia).
      destruct todoI as [|o todoI]; [cbn in HLP, HLI; lia|].
      assert (Hk : (kk < List.length pts)%nat) by (cbn in HLP; lia).
      assert (Hnth : nth kk pts p = p) by (rewrite HP, <- HkP; apply nth_middle).
      cbn. rewrite (zget_flat_fst pts kk p Hk). cbn.
      rewrite (zget_flat_snd pts kk p Hk). cbn. rewrite Hnth.
      assert (Hob : outside_box N xlim ylim p =
                    (nltb N (fst p) xl0 || nltb N xl1 (fst p) || nltb N (snd p) yl0
                     || nltb N yl1 (snd p))) by reflexivity.
      do 3 (cbn; rewrite ?truth_b2z, ?b2z_truth_b2z, ?or_ok).
      rewrite <- Hob.
      assert (Hcd : List.length (cin doneP doneI) = kk)
        by (rewrite c_inside_length; lia).
      destruct (outside_box N xlim ylim p) eqn:Hout.
      * (* outside the box: continue, inside[ipt] untouched *)
        cbn.
        exists (doneP ++ [p]), todoP, (doneI ++ [o]), todoI. do 10 eexists.
        split; [rewrite <- app_assoc; exact HP|].
        split; [rewrite <- app_assoc; exact HI|].
        split; [rewrite app_length; cbn; lia|].
        split; [rewrite app_length; cbn; lia|].
        rewrite c_inside_app by lia. cbn [c_inside]. unfold c_inside_point. rewrite Hout.
        rewrite <- app_assoc. cbn [app].
        norm_state. unfold pst. rewrite !zlen_eq.
        replace (Z.of_nat kk + 1) with (Z.of_nat (S kk)) by lia. reflexivity.
      * (* inside the box: the polygon has a vertex *)
        destruct (list_cases poly) as [Hnil|(v0 & ptl & Hpoly)].
        { rewrite (Hempty Hnil p) in Hout; [discriminate|].
          rewrite HP. apply in_or_app. right. left. reflexivity. }
        destruct (zget_flat_01 v0 ptl Hpoly) as [Hg0 Hg1].
        cbn.
        destruct (0 <? nprint) eqn:Hnp;
          [apply Z.ltb_lt in Hnp; cbn; zb; cbn; rewrite ?truth_b2z, ?and_ok, ?if_same; cbn;
           rewrite ?if_same|].
        all: cbn; rewrite Hg0; cbn; rewrite Hg1; cbn;
          rewrite (zset_app (cin doneP doneI) todoI) by lia; cbn; norm_state.
        all: destruct (inner_run (exec_fun N X program n) n n v0 ptl (fst p) (snd p)
                        (cin doneP doneI) todoI (Z.of_nat kk) k p2x p2y xi di Hpoly Hn2)
               as (r & Hr & (k' & p2x' & p2y' & xi' & di' & ->)); [lia|];
          unfold pst, inner_cond, inner_body, inner_step in Hr; rewrite (zlen_eq pts) in Hr;
          rewrite Hr.
        all: clear Hr; cbn;
          exists (doneP ++ [p]), todoP, (doneI ++ [o]), todoI; do 10 eexists;
          (split; [rewrite <- app_assoc; exact HP|]);
          (split; [rewrite <- app_assoc; exact HI|]);
          (split; [rewrite app_length; cbn; lia|]);
          (split; [rewrite app_length; cbn; lia|]);
          rewrite c_inside_app by lia; cbn [c_inside]; unfold c_inside_point; rewrite Hout;
          rewrite <- app_assoc; cbn [app];
          norm_state; unfold pst; rewrite !zlen_eq, ?Hcd;
          replace (Z.of_nat kk + 1) with (Z.of_nat (S kk)) by lia;
          rewrite <- (surjective_pairing p); reflexivity.
  - exists [], pts, [], ins. do 10 eexists.
    split; [reflexivity|]. split; [reflexivity|]. split; [reflexivity|]. split; [reflexivity|].
    unfold pst. cbn. reflexivity.
  - lia.
  - destruct HL as (r & -> & ivert & k & x & y & p1x & p1y & p2x & p2y & xi & di & ->).
    unfold pst. cbn. rewrite ?if_same. cbn. reflexivity.
Qed.
End Fixed.

(* fmin / fmax: the interpreter's C99 functions ARE the model's (same text) *)
Lemma sem_fmin_nfmin : sem_fmin N = nfmin N.
Proof. reflexivity. Qed.
Lemma sem_fmax_nfmax : sem_fmax N = nfmax N.
Proof. reflexivity. Qed.

(* what the Cython wrapper guarantees: polygon.shape[0] >= 1 (numpy's min() of an
   empty column raises ValueError before the kernel is called) *)
Corollary refine_c_inside_wrapper nprint pts poly atol xl0 xl1 yl0 yl1 ins n :
  List.length ins = List.length pts -> poly <> [] ->
  (List.length pts < n)%nat -> (List.length poly < n)%nat ->
  exec_fun N X program (S n) "c_inside"
    [AVI nprint; AVI (zlen pts); AVArrF (flat pts); AVI (zlen poly); AVArrF (flat poly);
     AVF atol; AVArrF [xl0; xl1]; AVArrF [yl0; yl1]; AVArrI ins]
  = Ok (RI 0, [VArrF (flat pts); VArrF (flat poly); VArrF [xl0; xl1]; VArrF [yl0; yl1];
               VArrI (c_inside N atol (xl0, xl1) (yl0, yl1) poly pts ins)]).
Proof.
  intros Hins Hne Hn1 Hn2. apply refine_c_inside; try assumption.
  intros Hnil. contradiction.
Qed.

(* the same with the buffers as flat lists of doubles (what the kernel receives) *)
Corollary refine_c_inside_raw nprint (npoints nvertices : nat) (points polygon : list T)
          atol xl0 xl1 yl0 yl1 ins n :
  List.length points = (2 * npoints)%nat -> List.length polygon = (2 * nvertices)%nat ->
  List.length ins = npoints -> (0 < nvertices)%nat ->
  (npoints < n)%nat -> (nvertices < n)%nat ->
  exec_fun N X program (S n) "c_inside"
    [AVI nprint; AVI (Z.of_nat npoints); AVArrF points; AVI (Z.of_nat nvertices);
     AVArrF polygon; AVF atol; AVArrF [xl0; xl1]; AVArrF [yl0; yl1]; AVArrI ins]
  = Ok (RI 0, [VArrF points; VArrF polygon; VArrF [xl0; xl1]; VArrF [yl0; yl1];
               VArrI (c_inside N atol (xl0, xl1) (yl0, yl1) (unflat polygon) (unflat points) ins)]).
Proof.
  intros Hp Hq Hi Hv Hn1 Hn2.
  destruct (flat_unflat npoints points Hp) as [E1 L1].
  destruct (flat_unflat nvertices polygon Hq) as [E2 L2].
  pose proof (refine_c_inside_wrapper nprint (unflat points) (unflat polygon)
                atol xl0 xl1 yl0 yl1 ins n) as H.
  rewrite E1, E2, !zlen_eq, L1, L2 in H. apply H; try lia.
  intros Hnil. rewrite Hnil in L2. cbn in L2. lia.
Qed.

(* FINDING (kernel contract, not reachable through the wrapper): with nvertices = 0
   and a first point inside the box the kernel reads polygon[0] outside the buffer *)
Theorem c_inside_empty_polygon_oob nprint p pts atol xl0 xl1 yl0 yl1 o ins n :
  outside_box N (xl0, xl1) (yl0, yl1) p = false ->
  exec_fun N X program (S (S n)) "c_inside"
    [AVI nprint; AVI (zlen (p :: pts)); AVArrF (flat (p :: pts)); AVI 0; AVArrF [];
     AVF atol; AVArrF [xl0; xl1]; AVArrF [yl0; yl1]; AVArrI (o :: ins)]
  = Err (OOB "polygon" 0).
Proof.
  intros Hout.
  assert (Hob : outside_box N (xl0, xl1) (yl0, yl1) p =
                (nltb N (fst p) xl0 || nltb N xl1 (fst p) || nltb N (snd p) yl0
                 || nltb N yl1 (snd p))) by reflexivity.
  kcbn_lhs. rewrite ?if_same. kcbn_lhs. rewrite zlen_eq. zb.
  do 4 (cbn; rewrite ?truth_b2z, ?b2z_truth_b2z, ?or_ok).
  rewrite <- Hob, Hout. cbn.
  destruct (0 <? nprint) eqn:Hnp;
    [apply Z.ltb_lt in Hnp; cbn; zb; cbn; rewrite ?truth_b2z, ?and_ok, ?if_same; cbn;
     rewrite ?if_same|]; cbn; reflexivity.
Qed.

End Refine.
