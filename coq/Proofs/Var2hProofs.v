(* Proofs about Model/Var2h.v, kernel level, over the reals with an explicit
   missing value (instance [RN]: [None] plays NaN).

   Plan (DESIGN appendix A.4):
   1. the inner walk visits the intervals [k, stop) and accumulates their
      clipped pieces; the missing flag is the disjunction of the validity
      tests of the visited intervals (and, repaired kernel, of "the data end
      before the period does");
   2. at the top of period i the index k brackets the period start
      (t_k <= s_i, and s_i <= t_{k+1} unless k+1 is the last stamp);
   3. intervals before k and after the stop index do not overlap the period,
      so the accumulated sum is the sum over ALL intervals ([area]);
   4. a piece is F(clamp e) - F(clamp s) for an antiderivative F of the
      interval's interpolant, hence areas of adjacent periods add up. *)
From Coq Require Import ZArith Bool List Reals Lia Lra.
From Hy Require Import Base.Num Gen.ConstsC14 Model.Var2h.
Import ListNotations.
Open Scope R_scope.

(* ------------------------------------------------------------------ *)
(* small facts *)

Lemma Rltb_IZR a b : Rltb (IZR a) (IZR b) = (a <? b)%Z.
Proof.
  destruct (Z.ltb_spec a b).
  - apply Rltb_true. now apply IZR_lt.
  - apply Rltb_false. now apply IZR_le.
Qed.

Definition zt (z : Z) : option R := Some (IZR z).

Lemma nofZ_RN z : nofZ RN z = zt z. Proof. reflexivity. Qed.

Definition INV : option R := Some VAR2H_INVALID_EPS_R.
Definition OV : option R := Some VAR2H_OVERLAP_EPS_R.

(* the extracted thresholds: what the proofs need of them *)
Lemma overlap_eps_range : 0 < VAR2H_OVERLAP_EPS_R < 1.
Proof. unfold VAR2H_OVERLAP_EPS_R. lra. Qed.
Lemma invalid_eps_nonpos : VAR2H_INVALID_EPS_R <= 0.
Proof. unfold VAR2H_INVALID_EPS_R. lra. Qed.

Lemma clip_lo_RN t1 s : clip_lo RN (zt t1) (zt s) = zt (Z.max t1 s).
Proof.
  unfold clip_lo, zt; simpl. rewrite Rltb_IZR.
  destruct (Z.ltb_spec t1 s); do 2 f_equal; lia.
Qed.

Lemma clip_hi_RN t2 e : clip_hi RN (zt t2) (zt e) = zt (Z.min t2 e).
Proof.
  unfold clip_hi, zt; simpl. rewrite Rltb_IZR.
  destruct (Z.ltb_spec e t2); do 2 f_equal; lia.
Qed.

(* with integer stamps the overlap test it2-it1>1e-8 is it1<it2 *)
Lemma overlap_test a b : nltb RN OV (nsub RN (zt b) (zt a)) = (a <? b)%Z.
Proof.
  unfold OV, zt; simpl. rewrite <- minus_IZR.
  pose proof overlap_eps_range as [H0 H1].
  destruct (Z.ltb_spec a b).
  - apply Rltb_true. assert (1 <= IZR (b - a)) by (apply IZR_le; lia). lra.
  - apply Rltb_false. assert (IZR (b - a) <= 0) by (apply IZR_le; lia). lra.
Qed.

(* ------------------------------------------------------------------ *)
(* the piece of one interval [t1,t2] (end values v1,v2) inside [s,e] *)

Definition piece (rain : bool) (P s e t1 t2 : Z) (v1 v2 : R) : R :=
  let it1 := Z.max t1 s in
  let it2 := Z.min t2 e in
  if (it1 <? it2)%Z then
    if rain then v2 * (IZR it2 - IZR it1) / (IZR t2 - IZR t1) * IZR P
    else
      let a := (v2 - v1) / (IZR t2 - IZR t1) in
      ((a * (IZR it2 - IZR t1) + v1) + (a * (IZR it1 - IZR t1) + v1))
      * (IZR it2 - IZR it1) / 2
  else 0.

Lemma add_piece_RN rainfall P s e t1 t2 v1 v2 hv :
  add_piece RN OV rainfall (zt P) (zt s) (zt e) (zt t1) (zt t2) (Some v1) (Some v2) (Some hv)
  = Some (hv + piece (rainfall =? 1)%Z P s e t1 t2 v1 v2).
Proof.
  unfold add_piece, piece. rewrite clip_lo_RN, clip_hi_RN, overlap_test.
  destruct (Z.max t1 s <? Z.min t2 e)%Z.
  - destruct (rainfall =? 1)%Z; unfold zt, two; simpl; f_equal;
      try (replace (1 + 1) with 2 by lra); reflexivity.
  - f_equal. lra.
Qed.

(* ------------------------------------------------------------------ *)
(* a piece is a difference of an antiderivative at the clamped bounds *)

Definition clampZ (t1 t2 x : Z) : Z := Z.min (Z.max x t1) t2.

(* antiderivative (vanishing at t1) of the interpolant of the interval:
   level data: v1 + a (t - t1); rainfall: the rate v2/(t2-t1), times P *)
Definition Fpiece (rain : bool) (P t1 t2 : Z) (v1 v2 : R) (x : Z) : R :=
  if rain then v2 * (IZR x - IZR t1) / (IZR t2 - IZR t1) * IZR P
  else (v2 - v1) / (IZR t2 - IZR t1) * (IZR x - IZR t1) * (IZR x - IZR t1) / 2
       + v1 * (IZR x - IZR t1).

Lemma piece_clamp rain P s e t1 t2 v1 v2 : (t1 <= t2)%Z -> (s <= e)%Z ->
  piece rain P s e t1 t2 v1 v2 =
  Fpiece rain P t1 t2 v1 v2 (clampZ t1 t2 e) - Fpiece rain P t1 t2 v1 v2 (clampZ t1 t2 s).
Proof.
  intros Ht Hs. unfold piece.
  destruct (Z.ltb_spec (Z.max t1 s) (Z.min t2 e)) as [H|H].
  - replace (clampZ t1 t2 e) with (Z.min t2 e) by (unfold clampZ; lia).
    replace (clampZ t1 t2 s) with (Z.max t1 s) by (unfold clampZ; lia).
    unfold Fpiece. destruct rain.
    + unfold Rdiv. ring.
    + set (a := (v2 - v1) / (IZR t2 - IZR t1)). field.
  - replace (clampZ t1 t2 e) with (clampZ t1 t2 s) by (unfold clampZ; lia). ring.
Qed.

(* cutting a period at m splits every piece exactly *)
Lemma piece_additive rain P s m e t1 t2 v1 v2 : (t1 <= t2)%Z -> (s <= m <= e)%Z ->
  piece rain P s m t1 t2 v1 v2 + piece rain P m e t1 t2 v1 v2 = piece rain P s e t1 t2 v1 v2.
Proof. intros Ht Hs. rewrite !piece_clamp by lia. ring. Qed.

(* rainfall: the piece is the share of the increment that falls in the period *)
Definition rain_share (s e t1 t2 : Z) : R :=
  IZR (Z.max 0 (Z.min t2 e - Z.max t1 s)) / IZR (t2 - t1).

Lemma piece_rain P s e t1 t2 v1 v2 :
  piece true P s e t1 t2 v1 v2 = v2 * rain_share s e t1 t2 * IZR P.
Proof.
  unfold piece, rain_share.
  destruct (Z.ltb_spec (Z.max t1 s) (Z.min t2 e)).
  - rewrite (Z.max_r 0) by lia. rewrite !minus_IZR. unfold Rdiv. ring.
  - rewrite (Z.max_l 0) by lia. unfold Rdiv. ring.
Qed.

Lemma rain_share_range s e t1 t2 : (t1 < t2)%Z -> 0 <= rain_share s e t1 t2 <= 1.
Proof.
  intros H. unfold rain_share.
  assert (0 < IZR (t2 - t1)) by (apply IZR_lt; lia).
  assert (0 <= IZR (Z.max 0 (Z.min t2 e - Z.max t1 s))) by (apply IZR_le; lia).
  assert (IZR (Z.max 0 (Z.min t2 e - Z.max t1 s)) <= IZR (t2 - t1)) by (apply IZR_le; lia).
  split.
  - apply Rmult_le_pos; [auto | left; now apply Rinv_0_lt_compat].
  - apply Rmult_le_reg_r with (IZR (t2 - t1)); auto.
    unfold Rdiv. rewrite Rmult_assoc, Rinv_l by lra. lra.
Qed.

(* ------------------------------------------------------------------ *)
Section KernelRN.
Variable endcheck : bool.
Variables (P rainfall maxgap hstart : Z) (sec : list Z) (vals : list (option R)).

Local Notation n := (length sec).
Local Notation ts := (tsec sec).
Local Notation vv := (vval RN vals).
Local Notation rain := (rainfall =? 1)%Z.

Definition sorted_secs : Prop :=
  forall k, (S k < n)%nat -> (ts k <= ts (S k))%Z.

Hypothesis Hsorted : sorted_secs.

Lemma ts_mono j k : (j <= k)%nat -> (k < n)%nat -> (ts j <= ts k)%Z.
Proof.
  induction 1; intros; [lia|].
  specialize (Hsorted m ltac:(lia)). lia.
Qed.

(* real value of an observation (0 stands for a missing one; never used for a
   missing one in the statements below) *)
Definition rv (k : nat) : R := match vv k with Some x => x | None => 0 end.

(* validity test of interval k, as the kernel evaluates it *)
Definition ivl_invalid (k : nat) : bool :=
  invalid_iv RN INV maxgap (zt (ts k)) (zt (ts (S k))) (vv k) (vv (S k)).

(* ... and what it means *)
Definition ivl_invalid_spec (k : nat) : Prop :=
  vv k = None \/ vv (S k) = None \/
  (exists x, vv k = Some x /\ x < VAR2H_INVALID_EPS_R) \/
  (exists x, vv (S k) = Some x /\ x < VAR2H_INVALID_EPS_R) \/
  (maxgap < ts (S k) - ts k)%Z.

Lemma ivl_invalid_iff k : ivl_invalid k = true <-> ivl_invalid_spec k.
Proof.
  unfold ivl_invalid, ivl_invalid_spec, invalid_iv, INV, zt; simpl.
  rewrite <- minus_IZR, Rltb_IZR.
  destruct (vv k) as [a|], (vv (S k)) as [b|]; simpl;
    rewrite ?orb_true_r, ?orb_false_r; try (split; [intros _; tauto | reflexivity]).
  rewrite !orb_true_iff, !Rltb_true, Z.ltb_lt. split.
  - intros [[H|H]|H]; [right; right; left; eauto | right; right; right; left; eauto | tauto].
  - intros [H|[H|[[x [E H]]|[[x [E H]]|H]]]]; try discriminate;
      try (injection E as <-); tauto.
Qed.

Lemma ivl_valid_some k : ivl_invalid k = false ->
  exists a b, vv k = Some a /\ vv (S k) = Some b.
Proof.
  intros H. destruct (vv k) as [a|] eqn:Ea, (vv (S k)) as [b|] eqn:Eb; eauto;
    exfalso; assert (ivl_invalid k = true) by (apply ivl_invalid_iff; unfold ivl_invalid_spec; tauto);
    congruence.
Qed.

(* piece of interval k in [s,e] *)
Definition pc (s e : Z) (k : nat) : R :=
  piece rain P s e (ts k) (ts (S k)) (rv k) (rv (S k)).

Definition anyinv (a b : nat) : bool := existsb ivl_invalid (seq a (b - a)).
Definition psum (s e : Z) (a b : nat) : R :=
  fold_right Rplus 0 (map (pc s e) (seq a (b - a))).

Lemma anyinv_empty a : anyinv a a = false.
Proof. unfold anyinv. now rewrite Nat.sub_diag. Qed.
Lemma psum_empty s e a : psum s e a a = 0.
Proof. unfold psum. now rewrite Nat.sub_diag. Qed.

Lemma anyinv_step a b : (S a <= b)%nat -> anyinv a b = ivl_invalid a || anyinv (S a) b.
Proof.
  intros H. unfold anyinv. replace (b - a)%nat with (S (b - S a)) by lia. reflexivity.
Qed.
Lemma psum_step s e a b : (S a <= b)%nat -> psum s e a b = pc s e a + psum s e (S a) b.
Proof.
  intros H. unfold psum. replace (b - a)%nat with (S (b - S a)) by lia. reflexivity.
Qed.

Lemma anyinv_true_iff a b :
  anyinv a b = true <-> exists j, (a <= j < b)%nat /\ ivl_invalid j = true.
Proof.
  unfold anyinv. rewrite existsb_exists. split.
  - intros [j [Hin H]]. apply in_seq in Hin. exists j. split; [lia|auto].
  - intros [j [Hj H]]. exists j. split; auto. apply in_seq. lia.
Qed.

Lemma sumR_app l1 l2 :
  fold_right Rplus 0 (l1 ++ l2) = fold_right Rplus 0 l1 + fold_right Rplus 0 l2.
Proof. induction l1; simpl; [lra | rewrite IHl1; lra]. Qed.

Lemma psum_split s e a b c : (a <= b)%nat -> (b <= c)%nat ->
  psum s e a c = psum s e a b + psum s e b c.
Proof.
  intros Hab Hbc. unfold psum.
  replace (c - a)%nat with ((b - a) + (c - b))%nat by lia.
  rewrite seq_app, map_app, sumR_app. replace (a + (b - a))%nat with b by lia. reflexivity.
Qed.

Lemma psum_zero s e a b :
  (forall j, (a <= j < b)%nat -> pc s e j = 0) -> psum s e a b = 0.
Proof.
  intros H. unfold psum.
  assert (forall l, (forall j, In j l -> pc s e j = 0) -> fold_right Rplus 0 (map (pc s e) l) = 0) as Hl.
  { induction l; simpl; intros; [reflexivity|]. rewrite H0 by auto. rewrite IHl by auto. lra. }
  apply Hl. intros j Hin. apply in_seq in Hin. apply H. lia.
Qed.

(* ------------------------------------------------------------------ *)
(* the inner walk *)

Lemma nltb_zt a b : nltb RN (zt a) (zt b) = (a <? b)%Z.
Proof. apply Rltb_IZR. Qed.

(* control skeleton of [walk]: the value of varindex when the loop ends *)
Fixpoint stop (fuel : nat) (e : Z) (k : nat) : nat :=
  match fuel with
  | O => k
  | S f => if (ts k <? e)%Z
           then (if (n <=? S (S k))%nat then S k else stop f e (S k))
           else k
  end.

Lemma stop_ge fuel e k : (k <= stop fuel e k)%nat.
Proof.
  revert k; induction fuel; simpl; intros; [lia|].
  destruct (ts k <? e)%Z; [|lia]. destruct (n <=? S (S k))%nat; [lia|].
  specialize (IHfuel (S k)). lia.
Qed.

Lemma stop_lt fuel e k : (S k < n)%nat -> (stop fuel e k < n)%nat.
Proof.
  revert k; induction fuel; simpl; intros; [lia|].
  destruct (ts k <? e)%Z; [|lia]. destruct (Nat.leb_spec n (S (S k))); [lia|].
  apply IHfuel. lia.
Qed.

Lemma stop_visited fuel e k j : (k <= j < stop fuel e k)%nat -> (ts j < e)%Z.
Proof.
  revert k; induction fuel; simpl; intros k H; [lia|].
  destruct (Z.ltb_spec (ts k) e); [|lia].
  destruct (n <=? S (S k))%nat.
  - assert (j = k) by lia. subst; auto.
  - destruct (Nat.eq_dec j k); [subst; auto|]. apply (IHfuel (S k)). lia.
Qed.

Lemma stop_end fuel e k : (S k < n)%nat -> (n - S k <= fuel)%nat ->
  (S (stop fuel e k) < n)%nat -> (e <= ts (stop fuel e k))%Z.
Proof.
  revert k; induction fuel; simpl; intros k Hk Hf Hs; [lia|].
  destruct (Z.ltb_spec (ts k) e); [|lia].
  destruct (Nat.leb_spec n (S (S k))); [lia|]. apply IHfuel; lia.
Qed.

Lemma stop_progress fuel e k : (ts k < e)%Z -> (0 < fuel)%nat -> (S k <= stop fuel e k)%nat.
Proof.
  destruct fuel; simpl; intros; [lia|].
  destruct (Z.ltb_spec (ts k) e); [|lia].
  destruct (n <=? S (S k))%nat; [lia|]. pose proof (stop_ge fuel e (S k)). lia.
Qed.

(* repaired kernel: the data end before the period does *)
Definition endflag (e : Z) : bool := endcheck && (ts (n - 1) <? e)%Z.

Lemma walk_RN fuel s e k hv miss :
  (S k < n)%nat -> (n - S k <= fuel)%nat ->
  exists hv',
    walk RN INV OV endcheck rainfall maxgap sec vals fuel (zt P) (zt s) (zt e) k
         (zt (ts k)) (vv k) hv miss
    = WDone (stop fuel e k) hv' (miss || anyinv k (stop fuel e k) || endflag e)
    /\ (forall x, hv = Some x -> anyinv k (stop fuel e k) = false ->
        hv' = Some (x + psum s e k (stop fuel e k))).
Proof.
  revert k hv miss. induction fuel as [|f IH]; intros k hv miss Hk Hf; [lia|].
  cbn [walk stop]. rewrite nltb_zt.
  destruct (Z.ltb_spec (ts k) e) as [Hlt|Hge].
  - rewrite nofZ_RN, nltb_zt.
    destruct (Z.ltb_spec (ts (S k)) (ts k)); [specialize (Hsorted k Hk); lia|].
    change (invalid_iv RN INV maxgap (zt (ts k)) (zt (ts (S k))) (vv k) (vv (S k)))
      with (ivl_invalid k).
    destruct (Nat.leb_spec n (S (S k))).
    + eexists; split.
      * f_equal. rewrite anyinv_step, anyinv_empty, orb_false_r by lia.
        unfold endflag. replace (n - 1)%nat with (S k) by lia. now rewrite nltb_zt.
      * intros x -> Hinv. rewrite anyinv_step, anyinv_empty, orb_false_r in Hinv by lia.
        destruct (ivl_valid_some k Hinv) as (a & b & Ea & Eb).
        rewrite Ea, Eb, add_piece_RN, psum_step, psum_empty by lia.
        unfold pc, rv. rewrite Ea, Eb. f_equal; lra.
    + pose proof (stop_ge f e (S k)) as Hge.
      destruct (IH (S k) (add_piece RN OV rainfall (zt P) (zt s) (zt e) (zt (ts k))
                                    (zt (ts (S k))) (vv k) (vv (S k)) hv)
                   (miss || ivl_invalid k)) as (hv' & Hw & Hv); [lia|lia|].
      exists hv'. split.
      * rewrite Hw. f_equal. rewrite (anyinv_step k) by lia. now rewrite orb_assoc.
      * intros x -> Hinv. rewrite anyinv_step in Hinv by lia.
        apply orb_false_iff in Hinv as [H1 H2].
        destruct (ivl_valid_some k H1) as (a & b & Ea & Eb).
        rewrite (psum_step _ _ k) by lia.
        rewrite (Hv (x + pc s e k)); [f_equal; lra | | auto].
        rewrite Ea, Eb, add_piece_RN. unfold pc, rv; rewrite Ea, Eb; reflexivity.
  - eexists; split.
    + f_equal. rewrite anyinv_empty. unfold endflag.
      assert (ts k <= ts (n - 1))%Z by (apply ts_mono; lia).
      destruct (Z.ltb_spec (ts (n - 1)) e); [lia|].
      now rewrite andb_false_r, !orb_false_r.
    + intros x -> _. rewrite psum_empty. f_equal; lra.
Qed.

(* ------------------------------------------------------------------ *)
(* the loop over the periods *)

Definition pstart (i : Z) : Z := (hstart + i * P)%Z.
Definition pend (i : Z) : Z := (hstart + i * P + P)%Z.

Lemma pstart_succ i : pstart (i + 1) = pend i.
Proof. unfold pstart, pend. ring. Qed.

(* value stored for period i when varindex = k at the top of the body *)
Definition hval (i : Z) (k : nat) : option R :=
  let k' := stop n (pend i) k in
  if anyinv k k' || endflag (pend i) then None
  else Some (psum (pstart i) (pend i) k k' / IZR P).

(* varindex at the top of the next body *)
Definition vnext (i : Z) (k : nat) : nat := pred (stop n (pend i) k).

Fixpoint spec_periods (cnt : nat) (i : Z) (k : nat) : list (option R) :=
  match cnt with
  | O => []
  | S c => hval i k :: spec_periods c (i + 1) (vnext i k)
  end.

Lemma spec_periods_length cnt i k : length (spec_periods cnt i k) = cnt.
Proof. revert i k; induction cnt; simpl; intros; [reflexivity | now rewrite IHcnt]. Qed.

Lemma nadd_zt a b : nadd RN (zt a) (zt b) = zt (a + b).
Proof. unfold zt; simpl. now rewrite plus_IZR. Qed.

Lemma vnext_lt i k : (S k < n)%nat -> (S (vnext i k) < n)%nat.
Proof.
  intros Hk. unfold vnext. pose proof (stop_lt n (pend i) k Hk).
  pose proof (stop_ge n (pend i) k). lia.
Qed.

Lemma periods_RN cnt i k : (S k < n)%nat ->
  periods RN INV OV endcheck P rainfall maxgap hstart sec vals cnt i k
  = POk (spec_periods cnt i k).
Proof.
  revert i k; induction cnt as [|c IH]; intros i k Hk; cbn [periods spec_periods]; [reflexivity|].
  change (nofZ RN) with zt. rewrite nadd_zt.
  destruct (walk_RN n (pstart i) (pend i) k (n0 RN) false Hk ltac:(lia)) as (hv' & Hw & Hv).
  unfold pstart, pend in Hw. rewrite Hw. fold (pend i) (pstart i) in *.
  fold (vnext i k). rewrite (IH (i + 1)%Z (vnext i k) (vnext_lt i k Hk)).
  do 2 f_equal. unfold hval. cbn [orb].
  destruct (anyinv k (stop n (pend i) k) || endflag (pend i)) eqn:E; [reflexivity|].
  apply orb_false_iff in E as [E1 E2].
  rewrite (Hv 0 eq_refl E1). unfold zt; simpl. now rewrite Rplus_0_l.
Qed.

(* ------------------------------------------------------------------ *)
(* where varindex points at the top of each period *)

Hypothesis HP : (0 < P)%Z.

Definition bracket (i : Z) (k : nat) : Prop :=
  (S k < n)%nat /\ (ts k <= pstart i)%Z /\
  ((pstart i <= ts (S k))%Z \/ S k = (n - 1)%nat).

Lemma pstart_lt_pend i : (pstart i < pend i)%Z.
Proof. unfold pstart, pend. lia. Qed.

Lemma bracket_next i k : bracket i k -> bracket (i + 1) (vnext i k).
Proof.
  intros (Hk & Hs & _). unfold bracket, vnext. rewrite pstart_succ.
  pose proof (pstart_lt_pend i).
  pose proof (stop_progress n (pend i) k ltac:(lia) ltac:(lia)) as Hpr.
  pose proof (stop_lt n (pend i) k Hk) as Hlt.
  set (k' := stop n (pend i) k) in *.
  replace (S (pred k')) with k' by lia.
  split; [lia|]. split.
  - apply Z.lt_le_incl, (stop_visited n (pend i) k). fold k'. lia.
  - destruct (Nat.eq_dec k' (n - 1)); [now right|left].
    apply stop_end; fold k'; lia.
Qed.

(* ------------------------------------------------------------------ *)
(* intervals outside the walk do not overlap the period *)

Lemma piece_zero_left r p s e t1 t2 v1 v2 : (t2 <= s)%Z -> piece r p s e t1 t2 v1 v2 = 0.
Proof. intros H. unfold piece. destruct (Z.ltb_spec (Z.max t1 s) (Z.min t2 e)); [lia|reflexivity]. Qed.
Lemma piece_zero_right r p s e t1 t2 v1 v2 : (e <= t1)%Z -> piece r p s e t1 t2 v1 v2 = 0.
Proof. intros H. unfold piece. destruct (Z.ltb_spec (Z.max t1 s) (Z.min t2 e)); [lia|reflexivity]. Qed.

(* the sum over ALL the intervals of the series *)
Definition area (s e : Z) : R := psum s e 0 (n - 1).

Lemma walk_sum_is_area i k : bracket i k ->
  psum (pstart i) (pend i) k (stop n (pend i) k) = area (pstart i) (pend i).
Proof.
  intros (Hk & Hs & _). unfold area.
  pose proof (stop_ge n (pend i) k) as Hge.
  pose proof (stop_lt n (pend i) k Hk) as Hlt.
  set (k' := stop n (pend i) k) in *.
  rewrite (psum_split _ _ 0 k (n - 1)) by lia.
  rewrite (psum_split _ _ k k' (n - 1)) by lia.
  rewrite (psum_zero _ _ 0 k), (psum_zero _ _ k' (n - 1)); [lra| |].
  - intros j Hj. unfold pc. apply piece_zero_right.
    assert (pend i <= ts k')%Z by (apply stop_end; fold k'; lia).
    assert (ts k' <= ts j)%Z by (apply ts_mono; lia). lia.
  - intros j Hj. unfold pc. apply piece_zero_left.
    assert (ts (S j) <= ts k)%Z by (apply ts_mono; lia). lia.
Qed.

(* every value is missing or the area of its period divided by its length *)
Lemma hval_cases i k : bracket i k ->
  hval i k = None \/ hval i k = Some (area (pstart i) (pend i) / IZR P).
Proof.
  intros Hb. unfold hval.
  destruct (anyinv k (stop n (pend i) k) || endflag (pend i)); [now left|right].
  now rewrite walk_sum_is_area.
Qed.

(* the exact condition under which a period is missing *)
Lemma hval_none_iff i k : bracket i k ->
  hval i k = None <->
  (endcheck = true /\ (ts (n - 1) < pend i)%Z) \/
  exists j, (k <= j)%nat /\ (S j < n)%nat /\ (ts j < pend i)%Z /\ ivl_invalid j = true.
Proof.
  intros (Hk & Hs & _). unfold hval.
  pose proof (stop_lt n (pend i) k Hk) as Hlt.
  set (k' := stop n (pend i) k) in *.
  destruct (anyinv k k' || endflag (pend i)) eqn:E.
  - split; [intros _|reflexivity].
    apply orb_true_iff in E as [E|E].
    + right. apply anyinv_true_iff in E as (j & Hj & Hi).
      exists j. repeat split; try lia; auto.
      apply (stop_visited n (pend i) k). fold k'. lia.
    + left. unfold endflag in E. apply andb_true_iff in E as [E1 E2].
      split; [auto | now apply Z.ltb_lt].
  - apply orb_false_iff in E as [E1 E2]. split; [discriminate|].
    intros [[Hc Hl]|(j & Hj & Hn & Ht & Hi)]; exfalso.
    + unfold endflag in E2. rewrite Hc in E2. simpl in E2. apply Z.ltb_ge in E2. lia.
    + assert (j < k')%nat.
      { destruct (Nat.lt_ge_cases j k') as [|Hge]; [auto|exfalso].
        assert (pend i <= ts k')%Z by (apply stop_end; fold k'; lia).
        assert (ts k' <= ts j)%Z by (apply ts_mono; lia). lia. }
      assert (anyinv k k' = true) by (apply anyinv_true_iff; exists j; split; [lia|auto]).
      congruence.
Qed.

(* every period of the output is [hval] at a bracketing index *)
Lemma spec_periods_nth cnt i k j : (j < cnt)%nat -> bracket i k ->
  exists k', bracket (i + Z.of_nat j) k' /\
             nth j (spec_periods cnt i k) None = hval (i + Z.of_nat j) k'.
Proof.
  revert i k j; induction cnt as [|c IH]; intros i k j Hj Hb; [lia|].
  destruct j as [|j]; cbn [spec_periods nth].
  - exists k. replace (i + Z.of_nat 0)%Z with i by lia. auto.
  - destruct (IH (i + 1)%Z (vnext i k) j ltac:(lia) (bracket_next i k Hb)) as (k' & Hb' & Hn).
    exists k'. replace (i + Z.of_nat (S j))%Z with (i + 1 + Z.of_nat j)%Z by lia. auto.
Qed.

(* ------------------------------------------------------------------ *)
(* the whole kernel *)

Lemma position_spec l h c : position l h = Some c ->
  (c < length l)%nat /\ (h < nth c l 0)%Z /\ forall j, (j < c)%nat -> (nth j l 0 <= h)%Z.
Proof.
  revert c; induction l as [|t r IH]; simpl; intros c H; [discriminate|].
  destruct (Z.leb_spec t h).
  - destruct (position r h) as [c'|]; [|discriminate]. injection H as <-.
    destruct (IH c' eq_refl) as (A & B & C).
    repeat split; [lia | exact B | intros [|j] Hj; [auto | apply C; lia]].
  - injection H as <-. repeat split; [lia | auto | intros; lia].
Qed.

Lemma position_exists l h :
  (exists k, (k < length l)%nat /\ (h < nth k l 0)%Z) -> exists c, position l h = Some c.
Proof.
  induction l as [|a l IH]; intros (k & Hk & Hh); simpl in *; [lia|].
  destruct (Z.leb_spec a h); eauto.
  destruct k; [lia|]. destruct IH as [c Hc]; [exists k; split; [lia|auto]|].
  rewrite Hc; simpl; eauto.
Qed.

Lemma position_none l h : position l h = None ->
  forall k, (k < length l)%nat -> (nth k l 0 <= h)%Z.
Proof.
  intros H k Hk. destruct (Z.le_gt_cases (nth k l 0%Z) h); [auto|exfalso].
  destruct (position_exists l h) as [c Hc]; [exists k; split; [auto|lia]|congruence].
Qed.

Lemma c_var2h_RN_spec hinit :
  (0 <= rainfall <= 1)%Z -> In P VAR2H_C_PERIODS ->
  (ts 0 <= hstart)%Z -> (exists k, (k < n)%nat /\ (hstart < ts k)%Z) ->
  exists v, bracket 0 v /\
    c_var2h_RN endcheck P rainfall maxgap hstart sec vals hinit =
    VOk (spec_periods (length hinit - 1) 0 v ++ skipn (length hinit - 1) hinit).
Proof.
  intros Hr Hin H0 Hex.
  destruct (position_exists sec hstart Hex) as [c Hc].
  destruct (position_spec sec hstart c Hc) as (Hcn & Hch & Hcj).
  destruct c as [|v]; [unfold tsec in H0; lia|].
  exists v. split.
  - unfold bracket, pstart. split; [lia|]. split.
    + specialize (Hcj v ltac:(lia)). unfold tsec. lia.
    + left. unfold tsec. lia.
  - unfold c_var2h_RN, c_var2h.
    destruct (Z.ltb_spec rainfall 0); [lia|]. destruct (Z.ltb_spec 1 rainfall); [lia|].
    cbn [orb].
    assert (existsb (Z.eqb P) VAR2H_C_PERIODS = true) as ->
      by (apply existsb_exists; exists P; split; [auto | apply Z.eqb_refl]).
    cbn [negb]. rewrite Hc, periods_RN by lia.
    now rewrite spec_periods_length.
Qed.

(* ------------------------------------------------------------------ *)
(* consequences for one period, in terms of the data only *)

(* an invalid interval that overlaps the period makes it missing *)
Lemma hval_overlap_invalid i k j : bracket i k ->
  (S j < n)%nat -> (ts j < pend i)%Z -> (pstart i < ts (S j))%Z ->
  ivl_invalid j = true -> hval i k = None.
Proof.
  intros Hb Hj Hlo Hhi Hinv. apply hval_none_iff; auto. right.
  exists j. repeat split; auto.
  destruct Hb as (Hk & Hs & _).
  destruct (Nat.lt_ge_cases j k); [exfalso|auto].
  assert (ts (S j) <= ts k)%Z by (apply ts_mono; lia). lia.
Qed.

(* a period inside the data all of whose intervals (closed overlap) are
   valid is not missing *)
Lemma hval_valid i k : bracket i k ->
  (pend i <= ts (n - 1))%Z ->
  (forall j, (S j < n)%nat -> (ts j < pend i)%Z -> (pstart i <= ts (S j))%Z ->
             ivl_invalid j = false) ->
  hval i k = Some (area (pstart i) (pend i) / IZR P).
Proof.
  intros Hb Hcov Hval.
  destruct (hval_cases i k Hb) as [Hn|]; [exfalso|auto].
  apply hval_none_iff in Hn; auto.
  destruct Hn as [[_ Hl]|(j & Hkj & Hj & Ht & Hi)]; [lia|].
  rewrite Hval in Hi; auto; [discriminate|].
  destruct Hb as (Hk & Hs & [Hbr|Hbr]).
  - assert (ts (S k) <= ts (S j))%Z by (apply ts_mono; lia). lia.
  - assert (j = k) by lia. subst j. rewrite Hbr. pose proof (pstart_lt_pend i). lia.
Qed.

(* repaired kernel: a period that extends past the last stamp is missing *)
Lemma hval_uncovered i k : bracket i k -> endcheck = true ->
  (ts (n - 1) < pend i)%Z -> hval i k = None.
Proof. intros Hb He Hl. apply hval_none_iff; auto. Qed.

(* ------------------------------------------------------------------ *)
(* additivity of the area, conservation over runs of periods *)

Lemma psum_add s1 e1 s2 e2 s3 e3 a b :
  (forall j, (a <= j < b)%nat -> pc s1 e1 j + pc s2 e2 j = pc s3 e3 j) ->
  psum s1 e1 a b + psum s2 e2 a b = psum s3 e3 a b.
Proof.
  unfold psum. intros H.
  assert (forall l, (forall j, In j l -> pc s1 e1 j + pc s2 e2 j = pc s3 e3 j) ->
          fold_right Rplus 0 (map (pc s1 e1) l) + fold_right Rplus 0 (map (pc s2 e2) l)
          = fold_right Rplus 0 (map (pc s3 e3) l)) as Hl.
  { induction l; simpl; intros Hj; [lra|].
    rewrite <- (Hj a0) by auto. rewrite <- IHl by auto. lra. }
  apply Hl. intros j Hin. apply in_seq in Hin. apply H. lia.
Qed.

Lemma area_additive s m e : (s <= m <= e)%Z -> area s m + area m e = area s e.
Proof.
  intros H. unfold area. apply psum_add. intros j Hj. unfold pc.
  apply piece_additive; [apply Hsorted; lia | auto].
Qed.

Lemma area_empty s : area s s = 0.
Proof.
  unfold area. apply psum_zero. intros j Hj. unfold pc. unfold piece.
  destruct (Z.ltb_spec (Z.max (ts j) s) (Z.min (ts (S j)) s)); [|reflexivity].
  specialize (Hsorted j ltac:(lia)). lia.
Qed.

(* sum of the areas of m consecutive periods from period a *)
Fixpoint areas (a : Z) (m : nat) : R :=
  match m with O => 0 | S m' => area (pstart a) (pend a) + areas (a + 1) m' end.

Lemma areas_telescope a m : areas a m = area (pstart a) (pstart (a + Z.of_nat m)).
Proof.
  revert a; induction m as [|m IH]; intros a; cbn [areas].
  - replace (a + Z.of_nat 0)%Z with a by lia. now rewrite area_empty.
  - rewrite IH. rewrite pstart_succ.
    replace (a + 1 + Z.of_nat m)%Z with (a + Z.of_nat (S m))%Z by lia.
    apply area_additive. rewrite <- pstart_succ. unfold pstart. nia.
Qed.

(* rainfall mode: the area over P is the total of the shares of the increments *)
Lemma area_rain s e : rainfall = 1%Z ->
  area s e / IZR P =
  fold_right Rplus 0 (map (fun j => rv (S j) * rain_share s e (ts j) (ts (S j))) (seq 0 (n - 1 - 0))).
Proof.
  intros Hr. unfold area, psum.
  assert (IZR P <> 0) by (apply not_0_IZR; lia).
  induction (seq 0 (n - 1 - 0)) as [|j l IH]; simpl.
  - unfold Rdiv; ring.
  - rewrite <- IH. unfold pc. rewrite Hr. cbn [Z.eqb Pos.eqb]. rewrite piece_rain. field; auto.
Qed.

End KernelRN.

(* ------------------------------------------------------------------ *)
(* the theorems in terms of the output of the kernel *)

Definition var2h_pre (P rainfall hstart : Z) (sec : list Z) : Prop :=
  sorted_secs sec /\ (0 <= rainfall <= 1)%Z /\ In P VAR2H_C_PERIODS /\
  (tsec sec 0 <= hstart)%Z /\
  (exists k, (k < length sec)%nat /\ (hstart < tsec sec k)%Z).

Lemma periods_pos P : In P VAR2H_C_PERIODS -> (0 < P)%Z.
Proof.
  unfold VAR2H_C_PERIODS. intros H.
  repeat (destruct H as [<-|H]; [lia|]). destruct H.
Qed.

Lemma nth_skipn_0 {A} (l : list A) k d : nth 0 (skipn k l) d = nth k l d.
Proof. revert l; induction k; destruct l; simpl; auto. Qed.

Definition oval (o : option R) : R := match o with Some x => x | None => 0 end.

(* sum of the values of periods a .. a+m-1 *)
Definition osum (out : list (option R)) (a m : nat) : R :=
  fold_right Rplus 0 (map (fun i => oval (nth i out None)) (seq a m)).

Section KernelTheorems.
Variable endcheck : bool.
Variables (P rainfall maxgap hstart : Z) (sec : list Z) (vals : list (option R)).
Variable hinit : list (option R).

Local Notation n := (length sec).
Local Notation ts := (tsec sec).
Local Notation run := (c_var2h_RN endcheck P rainfall maxgap hstart sec vals hinit).
Local Notation ps := (pstart P hstart).
Local Notation pe := (pend P hstart).
Local Notation ar := (area P rainfall sec vals).
Local Notation hv := (hval endcheck P rainfall maxgap hstart sec vals).
Local Notation br := (bracket P hstart sec).
Local Notation inval := (ivl_invalid maxgap sec vals).

Hypothesis Hpre : var2h_pre P rainfall hstart sec.

Lemma pre_sorted : sorted_secs sec. Proof. apply Hpre. Qed.
Lemma pre_P : (0 < P)%Z. Proof. apply periods_pos, Hpre. Qed.

(* the kernel succeeds, returns as many values as it was given, and never
   writes the last one *)
Lemma kernel_ok :
  exists out, run = VOk out /\ length out = length hinit /\
              forall d, nth (length hinit - 1) out d = nth (length hinit - 1) hinit d.
Proof.
  destruct Hpre as (Hs & Hr & Hin & H0 & Hex).
  destruct (c_var2h_RN_spec endcheck P rainfall maxgap hstart sec vals Hs hinit Hr Hin H0 Hex)
    as (v & Hb & Hrun).
  eexists; split; [exact Hrun|]. split.
  - rewrite app_length, spec_periods_length, skipn_length. lia.
  - intros d. rewrite app_nth2; rewrite spec_periods_length; [|lia].
    rewrite Nat.sub_diag. apply nth_skipn_0.
Qed.

(* every computed period is [hval] at an index bracketing the period start *)
Lemma kernel_period out i : run = VOk out -> (i < length hinit - 1)%nat ->
  exists k, br (Z.of_nat i) k /\ nth i out None = hv (Z.of_nat i) k.
Proof.
  intros Hrun Hi.
  destruct Hpre as (Hs & Hr & Hin & H0 & Hex).
  destruct (c_var2h_RN_spec endcheck P rainfall maxgap hstart sec vals Hs hinit Hr Hin H0 Hex)
    as (v & Hb & Hrun').
  rewrite Hrun' in Hrun. injection Hrun as <-.
  rewrite app_nth1 by (rewrite spec_periods_length; lia).
  destruct (spec_periods_nth endcheck P rainfall maxgap hstart sec vals pre_P
              (length hinit - 1) 0 v i Hi Hb) as (k & Hk & Hn).
  exists k. now rewrite Z.add_0_l in *.
Qed.

(* * period_value: a value is missing or the area of its period over P *)
Lemma period_value out i : run = VOk out -> (i < length hinit - 1)%nat ->
  nth i out None = None \/
  nth i out None = Some (ar (ps (Z.of_nat i)) (pe (Z.of_nat i)) / IZR P).
Proof.
  intros Hrun Hi. destruct (kernel_period out i Hrun Hi) as (k & Hb & ->).
  apply hval_cases; auto using pre_sorted, pre_P.
Qed.

(* * missing_iff: the exact condition, relative to an index k bracketing the
   start of the period *)
Lemma missing_iff out i : run = VOk out -> (i < length hinit - 1)%nat ->
  exists k, br (Z.of_nat i) k /\
    (nth i out None = None <->
     (endcheck = true /\ (ts (n - 1) < pe (Z.of_nat i))%Z) \/
     exists j, (k <= j)%nat /\ (S j < n)%nat /\ (ts j < pe (Z.of_nat i))%Z /\ inval j = true).
Proof.
  intros Hrun Hi. destruct (kernel_period out i Hrun Hi) as (k & Hb & ->).
  exists k. split; auto. apply hval_none_iff; auto using pre_sorted, pre_P.
Qed.

(* an invalid interval that overlaps the period (positive length in common) *)
Lemma missing_if_overlap_invalid out i j : run = VOk out -> (i < length hinit - 1)%nat ->
  (S j < n)%nat -> (ts j < pe (Z.of_nat i))%Z -> (ps (Z.of_nat i) < ts (S j))%Z ->
  ivl_invalid_spec maxgap sec vals j -> nth i out None = None.
Proof.
  intros Hrun Hi Hj H1 H2 Hinv. destruct (kernel_period out i Hrun Hi) as (k & Hb & ->).
  eapply hval_overlap_invalid; eauto using pre_sorted, pre_P. now apply ivl_invalid_iff.
Qed.

(* a period inside the data whose intervals (closed overlap) are all valid *)
Lemma present_if_valid out i : run = VOk out -> (i < length hinit - 1)%nat ->
  (pe (Z.of_nat i) <= ts (n - 1))%Z ->
  (forall j, (S j < n)%nat -> (ts j < pe (Z.of_nat i))%Z -> (ps (Z.of_nat i) <= ts (S j))%Z ->
             ~ ivl_invalid_spec maxgap sec vals j) ->
  nth i out None = Some (ar (ps (Z.of_nat i)) (pe (Z.of_nat i)) / IZR P).
Proof.
  intros Hrun Hi Hcov Hval. destruct (kernel_period out i Hrun Hi) as (k & Hb & ->).
  apply hval_valid; auto using pre_sorted, pre_P.
  intros j Hj H1 H2. destruct (inval j) eqn:E; [|reflexivity].
  exfalso. apply (Hval j Hj H1 H2). now apply ivl_invalid_iff.
Qed.

(* repaired kernel: a period that extends past the last stamp is missing *)
Lemma uncovered_missing out i : endcheck = true -> run = VOk out ->
  (i < length hinit - 1)%nat -> (ts (n - 1) < pe (Z.of_nat i))%Z -> nth i out None = None.
Proof.
  intros He Hrun Hi Hl. destruct (kernel_period out i Hrun Hi) as (k & Hb & ->).
  apply hval_uncovered; auto using pre_sorted, pre_P.
Qed.

(* * conservation: over a run of non-missing periods the values times P add
   up to the area between the start of the first and the end of the last *)
Lemma conservation out a m : run = VOk out -> (a + m <= length hinit - 1)%nat ->
  (forall i, (a <= i < a + m)%nat -> nth i out None <> None) ->
  osum out a m * IZR P = ar (ps (Z.of_nat a)) (ps (Z.of_nat a + Z.of_nat m)).
Proof.
  intros Hrun Hlen Hnn.
  rewrite <- (areas_telescope P rainfall hstart sec vals pre_sorted pre_P).
  revert a Hlen Hnn. induction m as [|m IH]; intros a Hlen Hnn; unfold osum; cbn [seq map fold_right areas].
  - ring.
  - fold (osum out (S a) m). rewrite Rmult_plus_distr_r, (IH (S a)) by (try lia; intros; apply Hnn; lia).
    replace (Z.of_nat (S a)) with (Z.of_nat a + 1)%Z by lia. f_equal.
    destruct (period_value out a Hrun ltac:(lia)) as [Hn|Hs]; [exfalso; apply (Hnn a); [lia|auto]|].
    rewrite Hs. cbn [oval]. field. apply not_0_IZR. pose proof pre_P. lia.
Qed.

End KernelTheorems.

(* ------------------------------------------------------------------ *)
(* rejections (any arithmetic instance) *)

Section Rejections.
Context {T : Type} (N : NumOps T).
Variables (ie oe : T) (ec : bool).

Lemma reject_rainfall P rainfall maxgap hstart sec vals hinit :
  (rainfall < 0 \/ 1 < rainfall)%Z ->
  c_var2h N ie oe ec P rainfall maxgap hstart sec vals hinit = VErr.
Proof.
  intros H. unfold c_var2h.
  destruct (Z.ltb_spec rainfall 0); [reflexivity|].
  destruct (Z.ltb_spec 1 rainfall); [reflexivity|lia].
Qed.

Lemma reject_period P rainfall maxgap hstart sec vals hinit :
  ~ In P VAR2H_C_PERIODS ->
  c_var2h N ie oe ec P rainfall maxgap hstart sec vals hinit = VErr.
Proof.
  intros H. unfold c_var2h.
  destruct ((rainfall <? 0)%Z || (1 <? rainfall)%Z); [reflexivity|].
  destruct (existsb (Z.eqb P) VAR2H_C_PERIODS) eqn:E; [exfalso|reflexivity].
  apply existsb_exists in E as (x & Hx & Ex). apply Z.eqb_eq in Ex. now subst.
Qed.

(* the origin must not be earlier than the first stamp *)
Lemma reject_origin P rainfall maxgap hstart t sec vals hinit :
  (hstart < t)%Z ->
  c_var2h N ie oe ec P rainfall maxgap hstart (t :: sec) vals hinit = VErr.
Proof.
  intros H. unfold c_var2h.
  destruct ((rainfall <? 0)%Z || (1 <? rainfall)%Z); [reflexivity|].
  destruct (negb (existsb (Z.eqb P) VAR2H_C_PERIODS)); [reflexivity|].
  cbn [position]. destruct (Z.leb_spec t hstart); [lia|reflexivity].
Qed.

End Rejections.

(* ------------------------------------------------------------------ *)
(* the kernel of the pinned commit: a constant series of level 3 whose last
   stamp is 10 minutes into a half-hour period gets the value 1 there *)

Definition w_sec : list Z := [0; 3600; 7200; 7800]%Z.
Definition w_vals : list (option R) := [Some 3; Some 3; Some 3; Some 3].
Definition w_hinit : list (option R) := [None; None; None; None].

Lemma w_pre : var2h_pre 1800 0 3600 w_sec.
Proof.
  unfold var2h_pre, w_sec. repeat split; try lia.
  - intros k Hk. simpl in Hk. do 3 (destruct k as [|k]; [unfold tsec; simpl; lia|]). lia.
  - unfold VAR2H_C_PERIODS. simpl. auto.
  - unfold tsec; simpl; lia.
  - exists 2%nat. unfold tsec; simpl. lia.
Qed.

Lemma w_valid j : (S j < 4)%nat -> ~ ivl_invalid_spec 432000 w_sec w_vals j.
Proof.
  intros Hj Hinv.
  assert (j = 0 \/ j = 1 \/ j = 2)%nat as Hc by lia.
  destruct Hinv as [H|[H|[(x & E & L)|[(x & E & L)|H]]]];
    destruct Hc as [ -> | [ -> | -> ] ];
    unfold vval, tsec, w_vals, w_sec in *; cbn [nth] in *;
    try discriminate;
    try (inversion E; subst x; unfold VAR2H_INVALID_EPS_R in L; lra);
    lia.
Qed.

Lemma old_kernel_partial_period_refuted :
  exists out,
    c_var2h_RN false 1800 0 432000 3600 w_sec w_vals w_hinit = VOk out /\
    (tsec w_sec 3 < pend 1800 3600 2)%Z /\      (* period 2 extends past the data *)
    nth 2 out None = Some 1.                      (* yet it is not missing, and is not 3 *)
Proof.
  destruct (kernel_ok false 1800 0 432000 3600 w_sec w_vals w_hinit w_pre) as (out & Hrun & _).
  exists out. split; [exact Hrun|]. split; [unfold tsec, pend; simpl; lia|].
  destruct (kernel_period false 1800 0 432000 3600 w_sec w_vals w_hinit w_pre out 2 Hrun
              ltac:(simpl; lia)) as (k & Hb & Hn).
  rewrite Hn.
  destruct (hval_cases false 1800 0 432000 3600 w_sec w_vals (proj1 w_pre) _ _ Hb)
    as [Hnone|Hsome].
  - exfalso.
    apply (hval_none_iff false 1800 0 432000 3600 w_sec w_vals (proj1 w_pre) _ _ Hb) in Hnone.
    destruct Hnone as [[Hc _]|(j & _ & Hj & _ & Hi)]; [discriminate|].
    apply ivl_invalid_iff in Hi. now apply (w_valid j Hj).
  - rewrite Hsome. f_equal.
    unfold area, psum, pc, piece, rv, vval, tsec, pstart, pend; simpl.
    change (Z.min 7800 9000) with 7800%Z. change (Z.max 7200 7200) with 7200%Z. field.
Qed.

Ltac zminmax :=
  repeat match goal with
  | |- context [Z.min ?a ?b] => let v := eval vm_compute in (Z.min a b) in change (Z.min a b) with v
  | |- context [Z.max ?a ?b] => let v := eval vm_compute in (Z.max a b) in change (Z.max a b) with v
  end.

(* the same series through the repaired kernel: the first two periods are the
   level 3, the period that extends past the data is missing, and the two
   values times P add up to the area over both periods *)
Lemma fixed_kernel_example :
  exists out,
    c_var2h_RN true 1800 0 432000 3600 w_sec w_vals w_hinit = VOk out /\
    nth 0 out None = Some 3 /\ nth 1 out None = Some 3 /\ nth 2 out None = None /\
    osum out 0 2 * 1800 = area 1800 0 w_sec w_vals 3600 7200.
Proof.
  destruct (kernel_ok true 1800 0 432000 3600 w_sec w_vals w_hinit w_pre) as (out & Hrun & _).
  assert (H0 : nth 0 out None = Some 3).
  { rewrite (present_if_valid true 1800 0 432000 3600 w_sec w_vals w_hinit w_pre out 0 Hrun).
    + f_equal. unfold area, psum, pc, piece, rv, vval, tsec, pstart, pend; simpl. zminmax. field.
    + simpl; lia.
    + unfold tsec, pend; simpl; lia.
    + intros j Hj _ _. now apply w_valid. }
  assert (H1 : nth 1 out None = Some 3).
  { rewrite (present_if_valid true 1800 0 432000 3600 w_sec w_vals w_hinit w_pre out 1 Hrun).
    + f_equal. unfold area, psum, pc, piece, rv, vval, tsec, pstart, pend; simpl. zminmax. field.
    + simpl; lia.
    + unfold tsec, pend; simpl; lia.
    + intros j Hj _ _. now apply w_valid. }
  exists out. split; [exact Hrun|]. split; [exact H0|]. split; [exact H1|]. split.
  - apply (uncovered_missing true 1800 0 432000 3600 w_sec w_vals w_hinit w_pre out 2 eq_refl Hrun).
    + simpl; lia.
    + unfold tsec, pend; simpl; lia.
  - apply (conservation true 1800 0 432000 3600 w_sec w_vals w_hinit w_pre out 0 2 Hrun).
    + simpl; lia.
    + intros i Hi. assert (i = 0 \/ i = 1)%nat as [-> | ->] by lia; congruence.
Qed.

(* ------------------------------------------------------------------ *)
(* any arithmetic instance (binary64 included): the fuel of the walk is never
   exhausted; the only way to the undefined behaviour [VUndef] is the
   positioning loop running past the end, i.e. no stamp later than the
   origin (the memory-safety contract of the kernel, property C05) *)

Section NoFuel.
Context {T : Type} (N : NumOps T).
Variables (ie oe : T) (ec : bool).
Variables (P rainfall maxgap hstart : Z) (sec : list Z) (vals : list T).
Local Notation n := (length sec).

Lemma walk_progress fuel Pd s e k t1 v1 hv miss :
  (S k < n)%nat -> (n - S k <= fuel)%nat ->
  match walk N ie oe ec rainfall maxgap sec vals fuel Pd s e k t1 v1 hv miss with
  | WFuel => False
  | WDone k' _ _ => (k <= k' < n)%nat
  | WErr => True
  end.
Proof.
  revert k t1 v1 hv miss; induction fuel as [|f IH]; intros k t1 v1 hv miss Hk Hf; [lia|].
  cbn [walk]. destruct (nltb N t1 e); [|lia].
  destruct (nltb N (nofZ N (tsec sec (S k))) t1); [exact I|].
  destruct (Nat.leb_spec n (S (S k))); [lia|].
  match goal with |- match ?w with _ => _ end =>
    assert (Hw : match w with WFuel => False | WDone k' _ _ => (S k <= k' < n)%nat | WErr => True end)
      by (apply IH; lia); destruct w; auto; lia end.
Qed.

Lemma periods_no_fuel cnt i k : (S k < n)%nat ->
  periods N ie oe ec P rainfall maxgap hstart sec vals cnt i k <> PFuel.
Proof.
  revert i k; induction cnt as [|c IH]; intros i k Hk; cbn [periods]; [discriminate|].
  match goal with |- context [walk N ie oe ec rainfall maxgap sec vals n ?Pd ?s ?e k ?t1 ?v1 ?hv ?m] =>
    pose proof (walk_progress n Pd s e k t1 v1 hv m Hk ltac:(lia)) as Hw;
    destruct (walk N ie oe ec rainfall maxgap sec vals n Pd s e k t1 v1 hv m) as [| |k' hv' miss']
  end; [discriminate | contradiction |].
  specialize (IH (i + 1)%Z (pred k') ltac:(lia)).
  destruct (periods N ie oe ec P rainfall maxgap hstart sec vals c (i + 1) (pred k'));
    [discriminate | contradiction | discriminate].
Qed.

Lemma undef_only_without_stamp_after_origin hinit :
  c_var2h N ie oe ec P rainfall maxgap hstart sec vals hinit = VUndef ->
  forall k, (k < n)%nat -> (tsec sec k <= hstart)%Z.
Proof.
  unfold c_var2h. intros H.
  destruct ((rainfall <? 0)%Z || (1 <? rainfall)%Z); [discriminate|].
  destruct (negb (existsb (Z.eqb P) VAR2H_C_PERIODS)); [discriminate|].
  destruct (position sec hstart) as [[|v]|] eqn:E; [discriminate| |now apply position_none].
  exfalso. destruct (position_spec sec hstart (S v) E) as (Hv & _).
  pose proof (periods_no_fuel (length hinit - 1) 0 v Hv).
  destruct (periods N ie oe ec P rainfall maxgap hstart sec vals (length hinit - 1) 0 v);
    [discriminate | contradiction | discriminate].
Qed.

End NoFuel.

(* the error branch of the walk (any instance): an interval that goes
   backwards, met while the period is not finished, ends the kernel with an
   error code; the error propagates through the loop over the periods *)
Lemma walk_backwards_err {T} (N : NumOps T) ie oe ec rainfall maxgap sec vals
      fuel Pd s e k t1 v1 hv miss :
  nltb N t1 e = true -> nltb N (nofZ N (tsec sec (S k))) t1 = true ->
  walk N ie oe ec rainfall maxgap sec vals (S fuel) Pd s e k t1 v1 hv miss = WErr.
Proof. intros H1 H2. cbn [walk]. now rewrite H1, H2. Qed.

Lemma periods_err_propagates {T} (N : NumOps T) ie oe ec P rainfall maxgap hstart sec vals c i k :
  walk N ie oe ec rainfall maxgap sec vals (length sec) (nofZ N P)
       (nofZ N (hstart + i * P)) (nadd N (nofZ N (hstart + i * P)) (nofZ N P))
       k (nofZ N (tsec sec k)) (vval N vals k) (n0 N) false = WErr ->
  periods N ie oe ec P rainfall maxgap hstart sec vals (S c) i k = PErr.
Proof. intros H. cbn [periods]. now rewrite H. Qed.
