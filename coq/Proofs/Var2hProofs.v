(* Proofs about Model/Var2h.v, kernel level, over the reals with an explicit
   missing value (instance [RN]: [None] plays NaN).

   Plan (DESIGN appendix A.4):
   1. the inner walk visits the intervals [k, stop) and accumulates their
      clipped pieces; the missing flag is the disjunction of the validity
      tests of the visited intervals (and, repaired kernel, of "the data end
      before the period does");
   2. at the top of period i the index k brackets the period start
      (t_k <= s_i, and s_i <= t_{k+1} unless k+1 is the last stamp);
   3. intervals before k and after the stop index do not overlap the period,
      so the accumulated sum is the sum over ALL intervals ([area]);
   4. a piece is F(clamp e) - F(clamp s) for an antiderivative F of the
      interval's interpolant, hence areas of adjacent periods add up. *)
From Coq Require Import ZArith Bool List Reals Lia Lra.
From Hy Require Import Base.Num Gen.ConstsC14 Model.Var2h.
Import ListNotations.
Open Scope R_scope.

(* ------------------------------------------------------------------ *)
(* small facts *)

Lemma Rltb_IZR a b : Rltb (IZR a) (IZR b) = (a <? b)%Z.
Proof.
  destruct (Z.ltb_spec a b).
  - apply Rltb_true. now apply IZR_lt.
  - apply Rltb_false. now apply IZR_le.
Qed.

Definition zt (z : Z) : option R := Some (IZR z).

Lemma nofZ_RN z : nofZ RN z = zt z. Proof. reflexivity. Qed.

Definition INV : option R := Some VAR2H_INVALID_EPS_R.
Definition OV : option R := Some VAR2H_OVERLAP_EPS_R.

(* the extracted thresholds: what the proofs need of them *)
Lemma overlap_eps_range : 0 < VAR2H_OVERLAP_EPS_R < 1.
Proof. unfold VAR2H_OVERLAP_EPS_R. lra. Qed.
Lemma invalid_eps_nonpos : VAR2H_INVALID_EPS_R <= 0.
Proof. unfold VAR2H_INVALID_EPS_R. lra. Qed.

Lemma clip_lo_RN t1 s : clip_lo RN (zt t1) (zt s) = zt (Z.max t1 s).
Proof.
  unfold clip_lo, zt; simpl. rewrite Rltb_IZR.
  destruct (Z.ltb_spec t1 s); do 2 f_equal; lia.
Qed.

Lemma clip_hi_RN t2 e : clip_hi RN (zt t2) (zt e) = zt (Z.min t2 e).
Proof.
  unfold clip_hi, zt; simpl. rewrite Rltb_IZR.
  destruct (Z.ltb_spec e t2); do 2 f_equal; lia.
Qed.

(* with integer stamps the overlap test it2-it1>1e-8 is it1<it2 *)
Lemma overlap_test a b : nltb RN OV (nsub RN (zt b) (zt a)) = (a <? b)%Z.
Proof.
  unfold OV, zt; simpl. rewrite <- minus_IZR.
  pose proof overlap_eps_range as [H0 H1].
  destruct (Z.ltb_spec a b).
  - apply Rltb_true. assert (1 <= IZR (b - a)) by (apply IZR_le; lia). lra.
  - apply Rltb_false. assert (IZR (b - a) <= 0) by (apply IZR_le; lia). lra.
Qed.

(* ------------------------------------------------------------------ *)
(* the piece of one interval [t1,t2] (end values v1,v2) inside [s,e] *)

Definition piece (rain : bool) (P s e t1 t2 : Z) (v1 v2 : R) : R :=
  let it1 := Z.max t1 s in
  let it2 := Z.min t2 e in
  if (it1 <? it2)%Z then
    if rain then v2 * (IZR it2 - IZR it1) / (IZR t2 - IZR t1) * IZR P
    else
      let a := (v2 - v1) / (IZR t2 - IZR t1) in
      ((a * (IZR it2 - IZR t1) + v1) + (a * (IZR it1 - IZR t1) + v1))
      * (IZR it2 - IZR it1) / 2
  else 0.

Lemma add_piece_RN rainfall P s e t1 t2 v1 v2 hv :
  add_piece RN OV rainfall (zt P) (zt s) (zt e) (zt t1) (zt t2) (Some v1) (Some v2) (Some hv)
  = Some (hv + piece (rainfall =? 1)%Z P s e t1 t2 v1 v2).
Proof.
  unfold add_piece, piece. rewrite clip_lo_RN, clip_hi_RN, overlap_test.
  destruct (Z.max t1 s <? Z.min t2 e)%Z.
  - destruct (rainfall =? 1)%Z; unfold zt, two; simpl; f_equal;
      try (replace (1 + 1) with 2 by lra); reflexivity.
  - f_equal. lra.
Qed.

(* ------------------------------------------------------------------ *)
Section KernelRN.
Variable endcheck : bool.
Variables (P rainfall maxgap hstart : Z) (sec : list Z) (vals : list (option R)).

Local Notation n := (length sec).
Local Notation ts := (tsec sec).
Local Notation vv := (vval RN vals).
Local Notation rain := (rainfall =? 1)%Z.

Definition sorted_secs : Prop :=
  forall k, (S k < n)%nat -> (ts k <= ts (S k))%Z.

Hypothesis Hsorted : sorted_secs.

Lemma ts_mono j k : (j <= k)%nat -> (k < n)%nat -> (ts j <= ts k)%Z.
Proof.
  induction 1; intros; [lia|].
  specialize (Hsorted m ltac:(lia)). lia.
Qed.

(* real value of an observation (0 stands for a missing one; never used for a
   missing one in the statements below) *)
Definition rv (k : nat) : R := match vv k with Some x => x | None => 0 end.

(* validity test of interval k, as the kernel evaluates it *)
Definition ivl_invalid (k : nat) : bool :=
  invalid_iv RN INV maxgap (zt (ts k)) (zt (ts (S k))) (vv k) (vv (S k)).

(* ... and what it means *)
Definition ivl_invalid_spec (k : nat) : Prop :=
  vv k = None \/ vv (S k) = None \/
  (exists x, vv k = Some x /\ x < VAR2H_INVALID_EPS_R) \/
  (exists x, vv (S k) = Some x /\ x < VAR2H_INVALID_EPS_R) \/
  (maxgap < ts (S k) - ts k)%Z.

Lemma ivl_invalid_iff k : ivl_invalid k = true <-> ivl_invalid_spec k.
Proof.
  unfold ivl_invalid, ivl_invalid_spec, invalid_iv, INV, zt; simpl.
  rewrite <- minus_IZR, Rltb_IZR.
  destruct (vv k) as [a|], (vv (S k)) as [b|]; simpl;
    rewrite ?orb_true_r, ?orb_false_r; try (split; [intros _; tauto | reflexivity]).
  rewrite !orb_true_iff, !Rltb_true, Z.ltb_lt. split.
  - intros [[H|H]|H]; [right; right; left; eauto | right; right; right; left; eauto | tauto].
  - intros [H|[H|[[x [E H]]|[[x [E H]]|H]]]]; try discriminate;
      try (injection E as <-); tauto.
Qed.

Lemma ivl_valid_some k : ivl_invalid k = false ->
  exists a b, vv k = Some a /\ vv (S k) = Some b.
Proof.
  intros H. destruct (vv k) as [a|] eqn:Ea, (vv (S k)) as [b|] eqn:Eb; eauto;
    exfalso; assert (ivl_invalid k = true) by (apply ivl_invalid_iff; unfold ivl_invalid_spec; tauto);
    congruence.
Qed.

(* piece of interval k in [s,e] *)
Definition pc (s e : Z) (k : nat) : R :=
  piece rain P s e (ts k) (ts (S k)) (rv k) (rv (S k)).

Definition anyinv (a b : nat) : bool := existsb ivl_invalid (seq a (b - a)).
Definition psum (s e : Z) (a b : nat) : R :=
  fold_right Rplus 0 (map (pc s e) (seq a (b - a))).

Lemma anyinv_empty a : anyinv a a = false.
Proof. unfold anyinv. now rewrite Nat.sub_diag. Qed.
Lemma psum_empty s e a : psum s e a a = 0.
Proof. unfold psum. now rewrite Nat.sub_diag. Qed.

Lemma anyinv_step a b : (S a <= b)%nat -> anyinv a b = ivl_invalid a || anyinv (S a) b.
Proof.
  intros H. unfold anyinv. replace (b - a)%nat with (S (b - S a)) by lia. reflexivity.
Qed.
Lemma psum_step s e a b : (S a <= b)%nat -> psum s e a b = pc s e a + psum s e (S a) b.
Proof.
  intros H. unfold psum. replace (b - a)%nat with (S (b - S a)) by lia. reflexivity.
Qed.

Lemma anyinv_true_iff a b :
  anyinv a b = true <-> exists j, (a <= j < b)%nat /\ ivl_invalid j = true.
Proof.
  unfold anyinv. rewrite existsb_exists. split.
  - intros [j [Hin H]]. apply in_seq in Hin. exists j. split; [lia|auto].
  - intros [j [Hj H]]. exists j. split; auto. apply in_seq. lia.
Qed.

Lemma sumR_app l1 l2 :
  fold_right Rplus 0 (l1 ++ l2) = fold_right Rplus 0 l1 + fold_right Rplus 0 l2.
Proof. induction l1; simpl; [lra | rewrite IHl1; lra]. Qed.

Lemma psum_split s e a b c : (a <= b)%nat -> (b <= c)%nat ->
  psum s e a c = psum s e a b + psum s e b c.
Proof.
  intros Hab Hbc. unfold psum.
  replace (c - a)%nat with ((b - a) + (c - b))%nat by lia.
  rewrite seq_app, map_app, sumR_app. replace (a + (b - a))%nat with b by lia. reflexivity.
Qed.

Lemma psum_zero s e a b :
  (forall j, (a <= j < b)%nat -> pc s e j = 0) -> psum s e a b = 0.
Proof.
  intros H. unfold psum.
  assert (forall l, (forall j, In j l -> pc s e j = 0) -> fold_right Rplus 0 (map (pc s e) l) = 0) as Hl.
  { induction l; simpl; intros; [reflexivity|]. rewrite H0 by auto. rewrite IHl by auto. lra. }
  apply Hl. intros j Hin. apply in_seq in Hin. apply H. lia.
Qed.

(* ------------------------------------------------------------------ *)
(* the inner walk *)

Lemma nltb_zt a b : nltb RN (zt a) (zt b) = (a <? b)%Z.
Proof. apply Rltb_IZR. Qed.

(* control skeleton of [walk]: the value of varindex when the loop ends *)
Fixpoint stop (fuel : nat) (e : Z) (k : nat) : nat :=
  match fuel with
  | O => k
  | S f => if (ts k <? e)%Z
           then (if (n <=? S (S k))%nat then S k else stop f e (S k))
           else k
  end.

Lemma stop_ge fuel e k : (k <= stop fuel e k)%nat.
Proof.
  revert k; induction fuel; simpl; intros; [lia|].
  destruct (ts k <? e)%Z; [|lia]. destruct (n <=? S (S k))%nat; [lia|].
  specialize (IHfuel (S k)). lia.
Qed.

Lemma stop_lt fuel e k : (S k < n)%nat -> (stop fuel e k < n)%nat.
Proof.
  revert k; induction fuel; simpl; intros; [lia|].
  destruct (ts k <? e)%Z; [|lia]. destruct (Nat.leb_spec n (S (S k))); [lia|].
  apply IHfuel. lia.
Qed.

Lemma stop_visited fuel e k j : (k <= j < stop fuel e k)%nat -> (ts j < e)%Z.
Proof.
  revert k; induction fuel; simpl; intros k H; [lia|].
  destruct (Z.ltb_spec (ts k) e); [|lia].
  destruct (n <=? S (S k))%nat.
  - assert (j = k) by lia. subst; auto.
  - destruct (Nat.eq_dec j k); [subst; auto|]. apply (IHfuel (S k)). lia.
Qed.

Lemma stop_end fuel e k : (S k < n)%nat -> (n - S k <= fuel)%nat ->
  (S (stop fuel e k) < n)%nat -> (e <= ts (stop fuel e k))%Z.
Proof.
  revert k; induction fuel; simpl; intros k Hk Hf Hs; [lia|].
  destruct (Z.ltb_spec (ts k) e); [|lia].
  destruct (Nat.leb_spec n (S (S k))); [lia|]. apply IHfuel; lia.
Qed.

Lemma stop_progress fuel e k : (ts k < e)%Z -> (0 < fuel)%nat -> (S k <= stop fuel e k)%nat.
Proof.
  destruct fuel; simpl; intros; [lia|].
  destruct (Z.ltb_spec (ts k) e); [|lia].
  destruct (n <=? S (S k))%nat; [lia|]. pose proof (stop_ge fuel e (S k)). lia.
Qed.

(* repaired kernel: the data end before the period does *)
Definition endflag (e : Z) : bool := endcheck && (ts (n - 1) <? e)%Z.

Lemma walk_RN fuel s e k hv miss :
  (S k < n)%nat -> (n - S k <= fuel)%nat ->
  exists hv',
    walk RN INV OV endcheck rainfall maxgap sec vals fuel (zt P) (zt s) (zt e) k
         (zt (ts k)) (vv k) hv miss
    = WDone (stop fuel e k) hv' (miss || anyinv k (stop fuel e k) || endflag e)
    /\ (forall x, hv = Some x -> anyinv k (stop fuel e k) = false ->
        hv' = Some (x + psum s e k (stop fuel e k))).
Proof.
  revert k hv miss. induction fuel as [|f IH]; intros k hv miss Hk Hf; [lia|].
  cbn [walk stop]. rewrite nltb_zt.
  destruct (Z.ltb_spec (ts k) e) as [Hlt|Hge].
  - rewrite nofZ_RN, nltb_zt.
    destruct (Z.ltb_spec (ts (S k)) (ts k)); [specialize (Hsorted k Hk); lia|].
    change (invalid_iv RN INV maxgap (zt (ts k)) (zt (ts (S k))) (vv k) (vv (S k)))
      with (ivl_invalid k).
    destruct (Nat.leb_spec n (S (S k))).
    + eexists; split.
      * f_equal. rewrite anyinv_step, anyinv_empty, orb_false_r by lia.
        unfold endflag. replace (n - 1)%nat with (S k) by lia. now rewrite nltb_zt.
      * intros x -> Hinv. rewrite anyinv_step, anyinv_empty, orb_false_r in Hinv by lia.
        destruct (ivl_valid_some k Hinv) as (a & b & Ea & Eb).
        rewrite Ea, Eb, add_piece_RN, psum_step, psum_empty by lia.
        unfold pc, rv. rewrite Ea, Eb. f_equal; lra.
    + pose proof (stop_ge f e (S k)) as Hge.
      destruct (IH (S k) (add_piece RN OV rainfall (zt P) (zt s) (zt e) (zt (ts k))
                                    (zt (ts (S k))) (vv k) (vv (S k)) hv)
                   (miss || ivl_invalid k)) as (hv' & Hw & Hv); [lia|lia|].
      exists hv'. split.
      * rewrite Hw. f_equal. rewrite (anyinv_step k) by lia. now rewrite orb_assoc.
      * intros x -> Hinv. rewrite anyinv_step in Hinv by lia.
        apply orb_false_iff in Hinv as [H1 H2].
        destruct (ivl_valid_some k H1) as (a & b & Ea & Eb).
        rewrite (psum_step _ _ k) by lia.
        rewrite (Hv (x + pc s e k)); [f_equal; lra | | auto].
        rewrite Ea, Eb, add_piece_RN. unfold pc, rv; rewrite Ea, Eb; reflexivity.
  - eexists; split.
    + f_equal. rewrite anyinv_empty. unfold endflag.
      assert (ts k <= ts (n - 1))%Z by (apply ts_mono; lia).
      destruct (Z.ltb_spec (ts (n - 1)) e); [lia|].
      now rewrite andb_false_r, !orb_false_r.
    + intros x -> _. rewrite psum_empty. f_equal; lra.
Qed.

End KernelRN.
