(* Theorems about Model/Summary.v (property C20), part 2:
   numpy.linspace over the reals; Latin-hypercube samples: exactly one point in each
   of the n equal strata of every parameter range. *)
From Coq Require Import ZArith Bool List Reals Lra Lia Permutation.
From Hy Require Import Base.Num Gen.ConstsC20 Model.Summary Proofs.SummaryProofs.
Import ListNotations.
Open Scope R_scope.

(* ---------- set_last ---------- *)
Lemma set_last_length {A} (l : list A) v : length (set_last l v) = length l.
Proof.
  induction l as [|x l IH]; [reflexivity|]. destruct l as [|y l]; [reflexivity|].
  change (set_last (x :: y :: l) v) with (x :: set_last (y :: l) v). simpl length in *. lia.
Qed.

Lemma set_last_nth {A} (l : list A) v d k : (k < length l)%nat ->
  nth k (set_last l v) d = if Nat.eqb k (length l - 1) then v else nth k l d.
Proof.
  revert k; induction l as [|x l IH]; intros k Hk; [simpl in Hk; lia|].
  destruct l as [|y l].
  - simpl in Hk. assert (k = 0)%nat by lia. subst. reflexivity.
  - change (set_last (x :: y :: l) v) with (x :: set_last (y :: l) v).
    destruct k as [|k].
    + reflexivity.
    + change (nth (S k) (x :: set_last (y :: l) v) d) with (nth k (set_last (y :: l) v) d).
      rewrite IH by (simpl in *; lia).
      change (nth (S k) (x :: y :: l) d) with (nth k (y :: l) d).
      replace (length (x :: y :: l) - 1)%nat with (S (length (y :: l) - 1)) by (simpl; lia).
      reflexivity.
Qed.

(* ---------- numpy.linspace over the reals ---------- *)
Lemma linspace_length a b num : length (linspace RR a b num) = Z.to_nat num.
Proof.
  unfold linspace.
  assert (L : forall f g : R -> R,
            length (map g (map f (map (nofZ RR) (zseq 0 (Z.to_nat num))))) = Z.to_nat num)
    by (intros; rewrite !map_length, zseq_length; reflexivity).
  destruct (1 <? num)%Z; [rewrite set_last_length|];
    destruct (0 <? num - 1)%Z; try destruct (neqb RR _ _); apply L.
Qed.

(* every point is start + k * (stop-start)/(num-1); a single point is start *)
Theorem linspace_nth a b num k : (Z.of_nat k < num)%Z ->
  nth k (linspace RR a b num) 0 =
  if (num =? 1)%Z then a else a + IZR (Z.of_nat k) * ((b - a) / IZR (num - 1)).
Proof.
  intros Hk. unfold linspace.
  set (ys := map (nofZ RR) (zseq 0 (Z.to_nat num))).
  assert (Hys : forall f : R -> R, nth k (map f ys) 0 = f (IZR (Z.of_nat k))).
  { intros f. unfold ys. rewrite map_map.
    rewrite nth_indep with (d' := f (nofZ RR 0%Z)) by (rewrite map_length, zseq_length; lia).
    rewrite map_nth with (f := fun z => f (nofZ RR z)). rewrite zseq_nth by lia. reflexivity. }
  destruct (Z.eqb_spec num 1) as [E1|E1].
  - subst num. change (0 <? 1 - 1)%Z with false. change (1 <? 1)%Z with false. cbv iota.
    rewrite map_map, Hys. cbn [nadd nmul nsub RR].
    assert (k = 0)%nat by lia. subst k. simpl. lra.
  - assert (Hn : (2 <= num)%Z) by lia.
    assert (Hd : IZR (num - 1) <> 0) by (apply not_0_IZR; lia).
    replace (0 <? num - 1)%Z with true by (symmetry; apply Z.ltb_lt; lia).
    replace (1 <? num)%Z with true by (symmetry; apply Z.ltb_lt; lia).
    rewrite set_last_nth.
    2:{ rewrite map_length. destruct (neqb RR _ _); unfold ys; rewrite !map_length, zseq_length; lia. }
    assert (HL : forall f g : R -> R, length (map g (map f ys)) = Z.to_nat num)
      by (intros; unfold ys; rewrite !map_length, zseq_length; reflexivity).
    destruct (Nat.eqb_spec k (length (map (fun y => nadd RR y a)
        (if neqb RR (ndiv RR (nsub RR b a) (nofZ RR (num - 1))) (n0 RR)
         then map (fun y => nmul RR (ndiv RR y (nofZ RR (num - 1))) (nsub RR b a)) ys
         else map (fun y => nmul RR y (ndiv RR (nsub RR b a) (nofZ RR (num - 1)))) ys)) - 1)) as [El|El].
    + (* the last point is stop *)
      assert (Hk1 : k = (Z.to_nat num - 1)%nat).
      { rewrite El. destruct (neqb RR _ _); rewrite HL; reflexivity. }
      replace (Z.of_nat k) with (num - 1)%Z by lia. field. exact Hd.
    + cbn [neqb ndiv nsub nmul nadd nofZ n0 RR].
      destruct (Reqb ((b - a) / IZR (num - 1)) 0) eqn:Es.
      * rewrite map_map, Hys. apply Reqb_true in Es. rewrite Es.
        assert (b - a = 0).
        { unfold Rdiv in Es. apply Rmult_integral in Es. destruct Es as [Es|Es]; auto.
          exfalso. revert Es. apply Rinv_neq_0_compat. exact Hd. }
        rewrite H. lra.
      * rewrite map_map, Hys. lra.
Qed.

(* =====================================================================
   Latin hypercube
   ===================================================================== *)

Lemma lhs_du_RR n pmin pmax : lhs_du RR n pmin pmax = (pmax - pmin) / IZR n.
Proof. reflexivity. Qed.

(* the regular points are the centres of the n strata *)
Theorem lhs_centres_nth n pmin pmax k : (1 <= n)%Z -> (Z.of_nat k < n)%Z ->
  nth k (lhs_centres RR n pmin pmax) 0 =
  pmin + (IZR (Z.of_nat k) + 1/2) * ((pmax - pmin) / IZR n).
Proof.
  intros Hn Hk. unfold lhs_centres. rewrite linspace_nth by exact Hk.
  rewrite lhs_du_RR. cbn [nadd nsub ndiv nofZ RR].
  assert (Hn0 : IZR n <> 0) by (apply not_0_IZR; lia).
  destruct (Z.eqb_spec n 1) as [E|E].
  - subst n. assert (k = 0)%nat by lia. subst k. simpl. lra.
  - assert (Hd : IZR (n - 1) <> 0) by (apply not_0_IZR; lia).
    rewrite minus_IZR in *. field. split; assumption.
Qed.

Lemma lhs_centres_length n pmin pmax : length (lhs_centres RR n pmin pmax) = Z.to_nat n.
Proof. unfold lhs_centres. apply linspace_length. Qed.

(* stratum number of a sample: floor((s-pmin)/du) *)
Definition stratum (n : Z) (pmin pmax s : R) : Z :=
  Int_part ((s - pmin) / ((pmax - pmin) / IZR n)).

Lemma Int_part_unique x k : IZR k <= x < IZR k + 1 -> Int_part x = k.
Proof.
  intros [H1 H2]. unfold Int_part.
  assert (up x = k + 1)%Z; [|lia].
  symmetry. apply tech_up; rewrite plus_IZR; lra.
Qed.

Lemma stratum_of_interval n pmin pmax s k : (1 <= n)%Z -> pmin < pmax ->
  pmin + IZR k * ((pmax - pmin) / IZR n) <= s < pmin + (IZR k + 1) * ((pmax - pmin) / IZR n) ->
  stratum n pmin pmax s = k.
Proof.
  intros Hn Hp [H1 H2]. unfold stratum.
  assert (Hn0 : 0 < IZR n) by (apply IZR_lt; lia).
  set (du := (pmax - pmin) / IZR n) in *.
  assert (Hdu : 0 < du) by (unfold du; apply Rdiv_lt_0_compat; lra).
  apply Int_part_unique. split.
  - apply Rmult_le_reg_r with du; [exact Hdu|].
    unfold Rdiv. rewrite Rmult_assoc, Rinv_l by lra. lra.
  - apply Rmult_lt_reg_r with du; [exact Hdu|].
    unfold Rdiv. rewrite Rmult_assoc, Rinv_l by lra. lra.
Qed.

Lemma map2_length {A B C} (f : A -> B -> C) la lb : length la = length lb ->
  length (map2 f la lb) = length la.
Proof. revert lb; induction la; intros [|b lb] H; simpl in *; try lia. rewrite IHla; lia. Qed.

Lemma map2_nth {A B C} (f : A -> B -> C) la lb da db dc k :
  length la = length lb -> (k < length la)%nat ->
  nth k (map2 f la lb) dc = f (nth k la da) (nth k lb db).
Proof.
  revert lb k; induction la; intros [|b lb] k H Hk; simpl in *; try lia.
  destruct k; [reflexivity|]. apply IHla; lia.
Qed.

(* a sample drawn from centre kk[i] with a jitter in [-du/2, du/2) lies in stratum kk[i] *)
Theorem lhs_param_in_stratum n pmin pmax kk jit i :
  (1 <= n)%Z -> pmin < pmax -> length jit = length kk -> (i < length kk)%nat ->
  (0 <= nth i kk 0%Z < n)%Z ->
  - ((pmax - pmin) / IZR n) / 2 <= nth i jit 0 < ((pmax - pmin) / IZR n) / 2 ->
  let s := nth i (lhs_param RR n pmin pmax kk jit) 0 in
  pmin + IZR (nth i kk 0%Z) * ((pmax - pmin) / IZR n) <= s
       < pmin + (IZR (nth i kk 0%Z) + 1) * ((pmax - pmin) / IZR n).
Proof.
  intros Hn Hp HL Hi Hk Hj s. subst s. unfold lhs_param.
  rewrite map2_nth with (da := 0%Z) (db := 0) by (auto; lia).
  cbn [nadd RR].
  rewrite nth_indep with (d' := 0) by (rewrite lhs_centres_length; lia).
  rewrite lhs_centres_nth by lia.
  rewrite Z2Nat.id by lia. lra.
Qed.

Lemma lhs_param_length n pmin pmax kk jit : length jit = length kk ->
  length (lhs_param RR n pmin pmax kk jit) = length kk.
Proof. intros H. unfold lhs_param. apply map2_length. lia. Qed.

(* the strata of the samples are the entries of the permutation *)
Lemma lhs_param_strata n pmin pmax kk jit :
  (1 <= n)%Z -> pmin < pmax -> length jit = length kk ->
  Forall (fun k => 0 <= k < n)%Z kk ->
  Forall (fun j => - ((pmax - pmin) / IZR n) / 2 <= j < ((pmax - pmin) / IZR n) / 2) jit ->
  map (stratum n pmin pmax) (lhs_param RR n pmin pmax kk jit) = kk.
Proof.
  intros Hn Hp HL Hk Hj.
  apply nth_ext with (d := stratum n pmin pmax 0) (d' := 0%Z).
  - rewrite map_length. apply lhs_param_length; auto.
  - intros i Hi. rewrite map_length, lhs_param_length in Hi by auto.
    rewrite map_nth. apply stratum_of_interval; auto.
    apply lhs_param_in_stratum; auto.
    + rewrite Forall_forall in Hk. apply Hk. apply nth_In; auto.
    + rewrite Forall_forall in Hj. apply Hj. apply nth_In; lia.
Qed.

(* exactly one point in each of the n strata *)
Theorem lhs_param_one_per_stratum n pmin pmax kk jit :
  (1 <= n)%Z -> pmin < pmax -> length jit = length kk ->
  Permutation kk (zseq 0 (Z.to_nat n)) ->
  Forall (fun j => - ((pmax - pmin) / IZR n) / 2 <= j < ((pmax - pmin) / IZR n) / 2) jit ->
  let col := lhs_param RR n pmin pmax kk jit in
  length col = Z.to_nat n /\
  forall k, (0 <= k < n)%Z ->
    count_occ Z.eq_dec (map (stratum n pmin pmax) col) k = 1%nat.
Proof.
  intros Hn Hp HL HP Hj col. subst col.
  assert (Hk : Forall (fun k => 0 <= k < n)%Z kk).
  { rewrite Forall_forall. intros k Hin.
    apply (Permutation_in _ HP) in Hin. apply zseq_In in Hin. lia. }
  split.
  - rewrite lhs_param_length by auto. rewrite (Permutation_length HP). apply zseq_length.
  - intros k Hkr. rewrite lhs_param_strata by auto.
    rewrite (Permutation_count_occ Z.eq_dec) in HP. rewrite HP.
    apply NoDup_count_occ'; [apply zseq_NoDup|]. apply zseq_In. lia.
Qed.

(* ---------- all parameters ---------- *)
Lemma lhs_bounds_ok_RR pmins pmaxs : length pmaxs = length pmins ->
  (lhs_bounds_ok RR pmins pmaxs = true <->
   forall j, (j < length pmins)%nat -> nth j pmins 0 < nth j pmaxs 0).
Proof.
  revert pmaxs; induction pmins as [|a ra IH]; intros [|b rb] HL; simpl in HL; try lia.
  - simpl. split; auto. intros _ j Hj. lia.
  - unfold lhs_bounds_ok in *. cbn [combine forallb fst snd]. rewrite andb_true_iff, IH by lia.
    rewrite negb_true_iff. cbn [nleb nsub n0 RR]. rewrite Rleb_false. split.
    + intros [H1 H2] [|j] Hj; simpl; [lra|]. apply H2. simpl in Hj. lia.
    + intros H. split.
      * specialize (H 0%nat). simpl in H. assert (a < b) by (apply H; lia). lra.
      * intros j Hj. apply (H (S j)). simpl. lia.
Qed.

Lemma lhs_cols_nth n pmins pmaxs kks jits j :
  length pmaxs = length pmins -> length kks = length pmins -> length jits = length pmins ->
  (j < length pmins)%nat ->
  nth j (lhs_cols RR n pmins pmaxs kks jits) [] =
  lhs_param RR n (nth j pmins 0) (nth j pmaxs 0) (nth j kks []) (nth j jits []).
Proof.
  revert pmaxs kks jits j; induction pmins as [|a ra IH];
    intros [|b rb] [|kk rk] [|jit rj] j H1 H2 H3 Hj; simpl in *; try lia.
  destruct j; [reflexivity|]. apply IH; lia.
Qed.

Lemma lhs_cols_length n pmins pmaxs kks jits :
  length pmaxs = length pmins -> length kks = length pmins -> length jits = length pmins ->
  length (lhs_cols RR n pmins pmaxs kks jits) = length pmins.
Proof.
  revert pmaxs kks jits; induction pmins as [|a ra IH];
    intros [|b rb] [|kk rk] [|jit rj] H1 H2 H3; simpl in *; try lia.
  rewrite IH; lia.
Qed.

Theorem lhs_one_point_per_stratum n pmins pmaxs kks jits :
  (1 <= n)%Z ->
  length pmaxs = length pmins -> length kks = length pmins -> length jits = length pmins ->
  (forall j, (j < length pmins)%nat ->
     let a := nth j pmins 0 in let b := nth j pmaxs 0 in
     a < b /\ Permutation (nth j kks []) (zseq 0 (Z.to_nat n)) /\
     length (nth j jits []) = Z.to_nat n /\
     Forall (fun x => - ((b - a) / IZR n) / 2 <= x < ((b - a) / IZR n) / 2) (nth j jits [])) ->
  exists cols, lhs RR n pmins pmaxs kks jits = Some cols /\ length cols = length pmins /\
    forall j, (j < length pmins)%nat ->
      let col := nth j cols [] in
      length col = Z.to_nat n /\
      forall k, (0 <= k < n)%Z ->
        count_occ Z.eq_dec (map (stratum n (nth j pmins 0) (nth j pmaxs 0)) col) k = 1%nat.
Proof.
  intros Hn H1 H2 H3 H.
  exists (lhs_cols RR n pmins pmaxs kks jits). split; [|split].
  - unfold lhs. rewrite H1, Nat.eqb_refl. cbn [negb].
    replace (lhs_bounds_ok RR pmins pmaxs) with true.
    2:{ symmetry. apply lhs_bounds_ok_RR; auto. intros j Hj. apply (H j Hj). }
    cbn [negb]. replace (n <=? 0)%Z with false by (symmetry; apply Z.leb_gt; lia). reflexivity.
  - apply lhs_cols_length; auto.
  - intros j Hj. cbv zeta. rewrite lhs_cols_nth by auto.
    destruct (H j Hj) as (Hab & HP & HLj & HJ).
    apply lhs_param_one_per_stratum; auto.
    rewrite HLj, (Permutation_length HP), zseq_length. reflexivity.
Qed.

(* rejected inputs *)
Theorem lhs_rejects_bounds n pmins pmaxs kks jits j :
  length pmaxs = length pmins -> (j < length pmins)%nat -> nth j pmaxs 0 <= nth j pmins 0 ->
  lhs RR n pmins pmaxs kks jits = None.
Proof.
  intros HL Hj Hle. unfold lhs. rewrite HL, Nat.eqb_refl. cbn [negb].
  destruct (lhs_bounds_ok RR pmins pmaxs) eqn:E; [|reflexivity].
  pose proof (proj1 (lhs_bounds_ok_RR _ _ HL) E j Hj). lra.
Qed.

Theorem lhs_rejects_lengths n pmins pmaxs kks jits :
  length pmaxs <> length pmins -> lhs RR n pmins pmaxs kks jits = None.
Proof.
  intros HL. unfold lhs.
  destruct (Nat.eqb_spec (length pmins) (length pmaxs)); [congruence | reflexivity].
Qed.

(* non-vacuity: two samples of [0,1]: permutation [1;0], jitters 1/5 and -1/4 *)
Example lhs_example :
  let n := 2%Z in
  (1 <= n)%Z /\ 0 < 1 /\ Permutation [1; 0]%Z (zseq 0 (Z.to_nat n)) /\
  Forall (fun x => - ((1 - 0) / IZR n) / 2 <= x < ((1 - 0) / IZR n) / 2) [1/5; -1/4].
Proof.
  cbv zeta. repeat split; try lia; try lra.
  - change (zseq 0 (Z.to_nat 2)) with [0; 1]%Z. apply perm_swap.
  - repeat constructor; lra.
Qed.
