(* Refinement: the MiniC program regenerated from src/hydrodiy/data/c_var2h.c
   (Gen/KernelsAst.v: c_var2h) computes, for ALL inputs, what the hand-written
   model of Model/Var2h.v computes (c_var2h with endcheck = true: the C text of the
   tree under test has the end-of-data check).

   Main results (end of the file):
     refine_c_var2h       generic over (N : NumOps T) (X : NumLit T)
     refine_c_var2h_RN    reals with a missing value: no hypothesis beyond buffer lengths
     refine_c_var2h_F64   binary64
     var2h_undef_position the model's VUndef = "no stamp after hstartsec"
     no_underflow_first   the side condition [no_underflow] from two order facts
     var2h_underflow_F64  the side condition is not vacuous for unbounded integers

   Structure: one lemma per C loop
     pos_loop      while(varindex<nvalvar && varsec[varindex]<=hstartsec) varindex++
     nan_loop      for(i..) hvalues[i] = nan           (no stamp after hstartsec)
     wbody_exec    one execution of the body of  while(t1<end) {...}  in closed form
     walk_loop     that loop  = Model.Var2h.walk      (induction on the model's fuel)
     period_body   one period of  for(i=0; i<nvalh-1; i++) {...}
     periods_loop  that loop  = Model.Var2h.periods   (induction on the number of periods)
     fbody_run     the function body. *)
From Coq Require Import ZArith Bool List String Lia.
From Coq Require Import PrimFloat Reals Lra.
From Hy Require Import Base.Num Base.MiniC Gen.ConstsC14 Gen.KernelsAst Model.Var2h.
Import ListNotations.
Open Scope string_scope.
Open Scope list_scope.
Open Scope Z_scope.

(* ================================================================== *)
(* Generic helpers (candidates for Base/MiniC.v)                        *)
(* ================================================================== *)

Lemma loop_S {T} m (cond : state T -> result bool) (body : state T -> result (outcome T * state T)) st :
  loop (S m) cond body st =
  match cond st with
  | Err e => Err e
  | Ok false => Ok (ONormal, st)
  | Ok true =>
      match body st with
      | Err e => Err e
      | Ok (ONormal, st') => loop m cond body st'
      | Ok (OContinue, st') => loop m cond body st'
      | Ok (OBreak, st') => Ok (ONormal, st')
      | Ok (ORet v, st') => Ok (ORet v, st')
      end
  end.
Proof. reflexivity. Qed.

Lemma zget_nth {A} (l : list A) (k : nat) (d : A) :
  (k < List.length l)%nat -> zget l (Z.of_nat k) = Some (nth k l d).
Proof.
  intros H. rewrite (zget_ok l (Z.of_nat k) d) by lia. rewrite Nat2Z.id. reflexivity.
Qed.

Lemma b2z_or_if (c m : bool) : (if c then 1 else b2z m) = b2z (m || c).
Proof. destruct c, m; reflexivity. Qed.

Lemma b2z_eq0 (m : bool) : (b2z m =? 0) = negb m.
Proof. destruct m; reflexivity. Qed.

Lemma skipn_cons_nth_d {A} (l : list A) k (d : A) :
  (k < List.length l)%nat -> skipn k l = nth k l d :: skipn (S k) l.
Proof.
  revert k; induction l as [|a l IH]; intros k H; cbn in H; [lia|].
  destruct k as [|k]; [reflexivity|]. cbn [skipn nth]. apply IH. lia.
Qed.

Lemma repeat_app_cons' {A} (x : A) k l : repeat x k ++ x :: l = repeat x (S k) ++ l.
Proof. induction k as [|k IH]; [reflexivity|]. cbn [repeat app]. rewrite IH. reflexivity. Qed.

(* executing a sequence one statement at a time (keeps every conversion small:
   one [cbn] over a long body is slow to re-check at Qed) *)
Lemma exec_seq_ok {T} (N : NumOps T) (X : NumLit T) cf n a b st st' :
  exec N X cf n a st = Ok (ONormal, st') ->
  exec N X cf n (SSeq a b) st = exec N X cf n b st'.
Proof.
  intros H.
  change (exec N X cf n (SSeq a b) st)
    with (match exec N X cf n a st with
          | Ok (ONormal, st') => exec N X cf n b st'
          | r => r
          end).
  rewrite H. reflexivity.
Qed.

Lemma exec_seq_stop {T} (N : NumOps T) (X : NumLit T) cf n a b st o st' :
  exec N X cf n a st = Ok (o, st') -> o <> ONormal ->
  exec N X cf n (SSeq a b) st = Ok (o, st').
Proof.
  intros H Ho.
  change (exec N X cf n (SSeq a b) st)
    with (match exec N X cf n a st with
          | Ok (ONormal, st') => exec N X cf n b st'
          | r => r
          end).
  rewrite H. destruct o; try reflexivity. contradiction.
Qed.

Lemma exec_fun_S {T} (N : NumOps T) (X : NumLit T) p n f args :
  exec_fun N X p (S n) f args =
  do fd <- find_fun p f;
  do st0 <- bind_params f (fst fd) args st_empty;
  match exec N X (exec_fun N X p n) n (snd fd) st0 with
  | Ok (ORet v, st) => do o <- out_arrays (fst fd) st; Ok (v, o)
  | Ok (_, _) => Err (BadRet f)
  | Err e => Err e
  end.
Proof. reflexivity. Qed.

Lemma exec_if_true {T} (N : NumOps T) (X : NumLit T) cf n c a b st v :
  eval_i N X st c = Ok v -> truth v = true ->
  exec N X cf n (SIf c a b) st = exec N X cf n a st.
Proof.
  intros H Hv.
  change (exec N X cf n (SIf c a b) st)
    with (do v <- eval_i N X st c; if truth v then exec N X cf n a st else exec N X cf n b st).
  rewrite H. cbn [bind]. rewrite Hv. reflexivity.
Qed.

(* [step_with tac]: execute the first statement of a sequence; [tac] proves
   [exec a st = Ok (ONormal, ?st')] *)
Ltac step_with tac := erewrite exec_seq_ok; [ | tac ]; norm_state.
Ltac step := step_with ltac:(cbn; reflexivity).

(* ================================================================== *)

(* the number of leading stamps <= h: where the positioning loop of the kernel stops *)
Fixpoint pcount (sec : list Z) (h : Z) : nat :=
  match sec with
  | [] => O
  | t :: r => if t <=? h then S (pcount r h) else O
  end.

Lemma pcount_le sec h : (pcount sec h <= List.length sec)%nat.
Proof. induction sec as [|t r IH]; cbn; [lia|]. destruct (t <=? h); cbn; lia. Qed.

Lemma pcount_before sec h : forall k, (k < pcount sec h)%nat -> nth k sec 0 <= h.
Proof.
  induction sec as [|t r IH]; cbn; intros k Hk; [lia|].
  destruct (Z.leb_spec t h); [|lia]. destruct k as [|k]; [assumption|]. apply IH. lia.
Qed.

Lemma pcount_at sec h : (pcount sec h < List.length sec)%nat -> h < nth (pcount sec h) sec 0.
Proof.
  induction sec as [|t r IH]; cbn; intros Hk; [lia|].
  destruct (Z.leb_spec t h); [|assumption]. apply IH. lia.
Qed.

Lemma position_pcount sec h :
  position sec h = if (pcount sec h <? List.length sec)%nat then Some (pcount sec h) else None.
Proof.
  induction sec as [|t r IH]; [reflexivity|]. cbn [position pcount List.length].
  destruct (t <=? h); [|reflexivity]. rewrite IH.
  change (S (pcount r h) <? S (List.length r))%nat with (pcount r h <? List.length r)%nat.
  destruct (pcount r h <? List.length r)%nat; reflexivity.
Qed.

Section Refine.
Context {T : Type} (N : NumOps T) (X : NumLit T).

(* the data that no statement of the kernel modifies *)
Variables (P rain disp maxgap hstart : Z) (sec : list Z) (vals : list T) (nvalh : Z).

(* the literals of the C text, in the arithmetic at hand *)
Definition lit_eps : T := nlit X (0x1.5798ee2308c3ap-27)%float 1 100000000.
Definition inv_eps : T := nopp N lit_eps.

Definition vst (i vi miss : Z) (a hvalue t1 t2 it1 it2 val1 val2 start end_ nan vali1 vali2 : T)
           (hvs : list T) : state T :=
  {| s_i := [("nvalvar", zlen sec); ("nvalh", nvalh); ("nbsec_per_period", P); ("rainfall", rain);
             ("display", disp); ("maxgapsec", maxgap); ("hstartsec", hstart); ("ierr", 0);
             ("i", i); ("varindex", vi); ("miss", miss)];
     s_f := [("a", a); ("hvalue", hvalue); ("t1", t1); ("t2", t2); ("it1", it1); ("it2", it2);
             ("val1", val1); ("val2", val2); ("start", start); ("end", end_); ("nan", nan);
             ("vali1", vali1); ("vali2", vali2); ("nbsec_per_period_d", nofZ N P);
             ("zero", nlit X 0%float 0 1)];
     s_ai := [("varsec", sec)];
     s_af := [("varvalues", vals); ("hvalues", hvs)] |}.

(* ---- loop 1: while(varindex<nvalvar && varsec[varindex]<=hstartsec) varindex++ ---- *)

Definition vst0 (vi : Z) (hvs : list T) : state T :=
  vst 0 vi 0 (nofZ N 0) (nofZ N 0) (nofZ N 0) (nofZ N 0) (nofZ N 0) (nofZ N 0) (nofZ N 0)
      (nofZ N 0) (nofZ N 0) (nofZ N 0) (nofZ N 0) (nofZ N 0) (nofZ N 0) hvs.

Lemma pos_loop (callf : callee T) n hvs :
  (List.length sec < n)%nat ->
  loop n
    (cond_of N X
       (IAnd (ICmp CLt (IVar "varindex") (IVar "nvalvar"))
          (ICmp CLe (IArr "varsec" (IVar "varindex")) (IVar "hstartsec"))))
    (exec N X callf n (SSetI "varindex" (IBin IAdd (IVar "varindex") (IConst 1))))
    (vst0 0 hvs)
  = Ok (ONormal, vst0 (Z.of_nat (pcount sec hstart)) hvs).
Proof.
  intros Hn.
  apply (loop_rule_eq
           (fun k st => (k <= pcount sec hstart)%nat /\ st = vst0 (Z.of_nat k) hvs)
           _ (List.length sec)).
  - intros k st (Hk & ->).
    pose proof (pcount_le sec hstart) as Hle.
    split; [lia|].
    unfold vst0, vst. cbn. rewrite zlen_eq.
    destruct (Z.ltb_spec (Z.of_nat k) (Z.of_nat (List.length sec))) as [Hlt|Hge]; cbn.
    + rewrite (zget_nth sec k 0) by lia. cbn. rewrite !truth_b2z.
      destruct (Z.leb_spec (nth k sec 0) hstart) as [Hv|Hv]; cbn.
      * destruct (Nat.eq_dec k (pcount sec hstart)) as [E|E].
        { exfalso. pose proof (pcount_at sec hstart). subst k. lia. }
        split; [lia|]. norm_state. unfold vst0, vst. rewrite ?zlen_eq.
        replace (Z.of_nat k + 1) with (Z.of_nat (S k)) by lia. reflexivity.
      * destruct (Nat.eq_dec k (pcount sec hstart)) as [E|E].
        { subst k. unfold vst0, vst. rewrite ?zlen_eq. reflexivity. }
        exfalso. pose proof (pcount_before sec hstart k). lia.
    + replace k with (pcount sec hstart) by lia. unfold vst0, vst. rewrite ?zlen_eq. reflexivity.
  - split; [lia|reflexivity].
  - lia.
Qed.

(* ---- loop 2 (no stamp after hstart): for(i=0; i<nvalh-1; i++) hvalues[i] = nan ---- *)

Definition nan_fill (hinit : list T) : list T :=
  repeat (nnan N) (List.length hinit - 1) ++ skipn (List.length hinit - 1) hinit.

Definition vst1 (i vi : Z) (hvs : list T) : state T :=
  vst i vi 0 (nofZ N 0) (nofZ N 0) (nofZ N 0) (nofZ N 0) (nofZ N 0) (nofZ N 0) (nofZ N 0)
      (nofZ N 0) (nofZ N 0) (nofZ N 0) (nnan N) (nofZ N 0) (nofZ N 0) hvs.

Lemma nan_loop (callf : callee T) n vi hinit :
  nvalh = zlen hinit ->
  (List.length hinit < n)%nat ->
  loop n (cond_of N X (ICmp CLt (IVar "i") (IBin ISub (IVar "nvalh") (IConst 1))))
    (for_body
       (exec N X callf n (SStoreF "hvalues" (IVar "i") (FVar "nan")))
       (exec N X callf n (SSetI "i" (IBin IAdd (IVar "i") (IConst 1)))))
    (vst1 0 vi hinit)
  = Ok (ONormal, vst1 (Z.of_nat (List.length hinit - 1)) vi (nan_fill hinit)).
Proof.
  intros Hh Hn.
  apply (loop_rule_eq
           (fun k st => (k <= List.length hinit - 1)%nat /\
                        st = vst1 (Z.of_nat k) vi (repeat (nnan N) k ++ skipn k hinit))
           _ (List.length hinit)).
  - intros k st (Hk & ->). split; [lia|].
    unfold vst1, vst. cbn. rewrite Hh, zlen_eq.
    destruct (Z.ltb_spec (Z.of_nat k) (Z.of_nat (List.length hinit) - 1)) as [Hlt|Hge]; cbn.
    + rewrite (skipn_cons_nth_d hinit k (nnan N)) by lia.
      rewrite zset_app by (rewrite repeat_length; reflexivity). cbn.
      split; [lia|]. norm_state. unfold vst1, vst. rewrite ?zlen_eq.
      replace (Z.of_nat k + 1) with (Z.of_nat (S k)) by lia.
      rewrite repeat_app_cons'. reflexivity.
    + unfold nan_fill. replace (List.length hinit - 1)%nat with k by lia.
      unfold vst1, vst. rewrite ?zlen_eq. reflexivity.
  - split; [lia|]. reflexivity.
  - lia.
Qed.


(* ---- loop 3: the inner loop  while(t1<end) { ... }  vs [walk] ---- *)

Definition wcond : iexp := IFCmp CLt (FVar "t1") (FVar "end").

Definition wbody : stmt :=
(seq [(SSetF "t2" (FOfInt (IArr "varsec" (IBin IAdd (IVar "varindex") (IConst 1)))));
(SSetF "val2" (FArr "varvalues" (IBin IAdd (IVar "varindex") (IConst 1))));
(SIf (IFCmp CLt (FVar "t2") (FVar "t1"))
(seq [(SIf (ICmp CEq (IVar "display") (IConst 1))
SSkip
SSkip);
(SRetI (IBin IAdd (IConst 130000) (IConst 1)))])
SSkip);
(SIf (IOr (IOr (IOr (IOr (IFCmp CLt (FVar "val1") (FUn FNeg (FLit (0x1.5798ee2308c3ap-27)%float 1 100000000))) (IFCmp CLt (FVar "val2") (FUn FNeg (FLit (0x1.5798ee2308c3ap-27)%float 1 100000000)))) (IFCmp CGt (FBin FSub (FVar "t2") (FVar "t1")) (FOfInt (IVar "maxgapsec")))) (IIsnan (FVar "val2"))) (IIsnan (FVar "val1")))
(SSetI "miss" (IConst 1))
SSkip);
(SSetF "it1" (FCond (IFCmp CLt (FVar "t1") (FVar "start")) (FVar "start") (FVar "t1")));
(SSetF "it2" (FCond (IFCmp CGt (FVar "t2") (FVar "end")) (FVar "end") (FVar "t2")));
(SIf (IFCmp CGt (FBin FSub (FVar "it2") (FVar "it1")) (FLit (0x1.5798ee2308c3ap-27)%float 1 100000000))
(SIf (ICmp CEq (IVar "rainfall") (IConst 1))
(SSetF "hvalue" (FBin FAdd (FVar "hvalue") (FBin FMul (FBin FDiv (FBin FMul (FVar "val2") (FBin FSub (FVar "it2") (FVar "it1"))) (FBin FSub (FVar "t2") (FVar "t1"))) (FVar "nbsec_per_period_d"))))
(seq [(SSetF "a" (FBin FDiv (FBin FSub (FVar "val2") (FVar "val1")) (FBin FSub (FVar "t2") (FVar "t1"))));
(SSetF "vali1" (FBin FAdd (FBin FMul (FVar "a") (FBin FSub (FVar "it1") (FVar "t1"))) (FVar "val1")));
(SSetF "vali2" (FBin FAdd (FBin FMul (FVar "a") (FBin FSub (FVar "it2") (FVar "t1"))) (FVar "val1")));
(SSetF "hvalue" (FBin FAdd (FVar "hvalue") (FBin FDiv (FBin FMul (FBin FAdd (FVar "vali2") (FVar "vali1")) (FBin FSub (FVar "it2") (FVar "it1"))) (FOfInt (IConst 2)))))]))
SSkip);
(SSetI "varindex" (IBin IAdd (IVar "varindex") (IConst 1)));
(SIf (ICmp CGe (IBin IAdd (IVar "varindex") (IConst 1)) (IVar "nvalvar"))
(seq [(SIf (IFCmp CLt (FVar "t2") (FVar "end"))
(SSetI "miss" (IConst 1))
SSkip);
SBreak])
SSkip);
(SSetF "t1" (FVar "t2"));
(SSetF "val1" (FVar "val2"))]).

(* the arrays held by a state (all that matters after an error return) *)
Definition arrays_of (st : state T) (hvs : list T) : Prop :=
  s_ai st = [("varsec", sec)] /\ s_af st = [("varvalues", vals); ("hvalues", hvs)].

Notation mwalk := (walk N inv_eps lit_eps true rain maxgap sec vals).

(* one execution of the body of the inner loop, in closed form *)
Lemma wbody_exec (callf : callee T) n i s e nan hvs k t1 v1 hv miss a t2 it1 it2 val2 vali1 vali2 :
  nofZ N 2 = two N ->
  List.length vals = List.length sec ->
  (S k < List.length sec)%nat ->
  let t2n := nofZ N (tsec sec (S k)) in
  let v2n := vval N vals (S k) in
  let hv1 := add_piece N lit_eps rain (nofZ N P) s e t1 t2n v1 v2n hv in
  let miss1 := miss || invalid_iv N inv_eps maxgap t1 t2n v1 v2n in
  exists a' vali1' vali2',
  exec N X callf n wbody
    (vst i (Z.of_nat k) (b2z miss) a hv t1 t2 it1 it2 v1 val2 s e nan vali1 vali2 hvs)
  = if nltb N t2n t1 then
      Ok (ORet (RI 130001),
          vst i (Z.of_nat k) (b2z miss) a hv t1 t2n it1 it2 v1 v2n s e nan vali1 vali2 hvs)
    else if (List.length sec <=? S (S k))%nat then
      Ok (OBreak,
          vst i (Z.of_nat (S k)) (b2z (miss1 || nltb N t2n e)) a' hv1 t1 t2n
              (clip_lo N t1 s) (clip_hi N t2n e) v1 v2n s e nan vali1' vali2' hvs)
    else
      Ok (ONormal,
          vst i (Z.of_nat (S k)) (b2z miss1) a' hv1 t2n t2n
              (clip_lo N t1 s) (clip_hi N t2n e) v2n v2n s e nan vali1' vali2' hvs).
Proof.
  intros H2 Hlv Hk t2n v2n hv1 miss1.
  assert (Hg1 : zget sec (Z.of_nat k + 1) = Some (tsec sec (S k))).
  { replace (Z.of_nat k + 1) with (Z.of_nat (S k)) by lia. apply zget_nth. lia. }
  assert (Hg2 : zget vals (Z.of_nat k + 1) = Some (vval N vals (S k))).
  { replace (Z.of_nat k + 1) with (Z.of_nat (S k)) by lia. apply zget_nth. lia. }
  remember (invalid_iv N inv_eps maxgap t1 t2n v1 v2n) as inval eqn:Hinv.
  unfold invalid_iv, inv_eps, lit_eps in Hinv.
  assert (Hbrk : (zlen sec <=? Z.of_nat (S k) + 1) = (List.length sec <=? S (S k))%nat).
  { rewrite zlen_eq. destruct (Nat.leb_spec (List.length sec) (S (S k)));
      [apply Z.leb_le|apply Z.leb_gt]; lia. }
  subst hv1 miss1. unfold add_piece.
  unfold wbody, vst. cbn [seq].
  step_with ltac:(cbn; rewrite Hg1; cbn; reflexivity).
  step_with ltac:(cbn; rewrite Hg2; cbn; reflexivity).
  fold t2n v2n.
  destruct (nltb N t2n t1) eqn:Ht21.
  { erewrite exec_seq_stop;
      [ | cbn; rewrite truth_b2z, Ht21; cbn; rewrite if_same; cbn; reflexivity | discriminate ].
    exists a, vali1, vali2. reflexivity. }
  step_with ltac:(cbn; rewrite truth_b2z, Ht21; cbn; reflexivity).
  destruct inval.
  all: step_with ltac:(cbn; repeat (rewrite ?truth_b2z, ?b2z_truth_b2z, ?or_ok; cbn);
                       rewrite <- Hinv; cbn; reflexivity).
  all: step_with ltac:(cbn; rewrite truth_b2z, if_ok; cbn; reflexivity).
  all: step_with ltac:(cbn; rewrite truth_b2z, if_ok; cbn; reflexivity).
  all: change (if nltb N t1 s then s else t1) with (clip_lo N t1 s).
  all: change (if nltb N e t2n then e else t2n) with (clip_hi N t2n e).
  all: destruct (nltb N lit_eps (nsub N (clip_hi N t2n e) (clip_lo N t1 s))) eqn:Hov.
  all: destruct (rain =? 1) eqn:Hrain.
  all: step_with ltac:(cbn; fold lit_eps; rewrite truth_b2z, Hov; cbn;
                       rewrite ?truth_b2z, ?Hrain, ?H2; cbn; reflexivity).
  all: step.
  all: replace (Z.of_nat k + 1) with (Z.of_nat (S k)) by lia.
  all: destruct (List.length sec <=? S (S k))%nat eqn:Hb;
    [ destruct (nltb N t2n e) eqn:Ht2e;
      (erewrite exec_seq_stop;
       [ | cbn; rewrite truth_b2z, Hbrk; cbn; rewrite truth_b2z, Ht2e; cbn; reflexivity
         | discriminate ])
    | step_with ltac:(cbn; rewrite truth_b2z, Hbrk; cbn; reflexivity);
      step; cbn ].
  all: rewrite ?orb_true_r, ?orb_false_r.
  all: norm_state.
  all: do 3 eexists; reflexivity.
Qed.

Definition wpost (i : Z) (s e nan : T) (hvs : list T) (w : wres) (r : outcome T * state T) : Prop :=
  match w with
  | WFuel => True
  | WErr => exists code st', 0 < code /\ arrays_of st' hvs /\ r = (ORet (RI code), st')
  | WDone k' hv' miss' => exists a' t1' t2' it1' it2' v1' val2' vali1' vali2',
      r = (ONormal,
           vst i (Z.of_nat k') (b2z miss') a' hv' t1' t2' it1' it2' v1' val2' s e nan vali1' vali2' hvs)
  end.

Lemma walk_loop (callf : callee T) n i s e nan hvs :
  nofZ N 2 = two N ->
  List.length vals = List.length sec ->
  forall f m k t1 v1 hv miss a t2 it1 it2 val2 vali1 vali2,
  (S k < List.length sec)%nat -> (f < m)%nat ->
  mwalk f (nofZ N P) s e k t1 v1 hv miss <> WFuel ->
  exists r,
    loop m (cond_of N X wcond) (exec N X callf n wbody)
      (vst i (Z.of_nat k) (b2z miss) a hv t1 t2 it1 it2 v1 val2 s e nan vali1 vali2 hvs) = Ok r /\
    wpost i s e nan hvs (mwalk f (nofZ N P) s e k t1 v1 hv miss) r.
Proof.
  intros H2 Hlv.
  induction f as [|f IH]; intros m k t1 v1 hv miss a t2 it1 it2 val2 vali1 vali2 Hk Hm HW;
    [exfalso; apply HW; reflexivity|].
  destruct m as [|m]; [lia|].
  revert HW. cbn [walk]. rewrite loop_S.
  assert (Hc : cond_of N X wcond
                 (vst i (Z.of_nat k) (b2z miss) a hv t1 t2 it1 it2 v1 val2 s e nan vali1 vali2 hvs)
               = Ok (nltb N t1 e)).
  { cbn. rewrite truth_b2z. reflexivity. }
  rewrite Hc. clear Hc.
  destruct (nltb N t1 e) eqn:Hte.
  2:{ intros _. eexists. split; [reflexivity|].
      exists a, t1, t2, it1, it2, v1, val2, vali1, vali2. reflexivity. }
  destruct (wbody_exec callf n i s e nan hvs k t1 v1 hv miss a t2 it1 it2 val2 vali1 vali2 H2 Hlv Hk)
    as (a' & vali1' & vali2' & Hb).
  cbv zeta in Hb. rewrite Hb. clear Hb.
  destruct (nltb N (nofZ N (tsec sec (S k))) t1) eqn:Ht21.
  { intros _. eexists. split; [reflexivity|].
    exists 130001. eexists. split; [lia|]. split; [|reflexivity]. split; reflexivity. }
  destruct (List.length sec <=? S (S k))%nat eqn:Hbrk.
  { intros _. eexists. split; [reflexivity|]. cbn [wpost].
    do 9 eexists. reflexivity. }
  intros HW.
  apply IH; [|lia|exact HW].
  apply Nat.leb_gt in Hbrk. lia.
Qed.

(* [length sec] units of fuel are never exhausted by [walk] *)
Lemma walk_fuel Pd s e : forall f k t1 v1 hv miss,
  (S k < List.length sec)%nat -> (List.length sec <= S k + f)%nat ->
  mwalk f Pd s e k t1 v1 hv miss <> WFuel.
Proof.
  induction f as [|f IH]; intros k t1 v1 hv miss Hk Hf; [lia|].
  cbn [walk]. destruct (nltb N t1 e); [|discriminate].
  destruct (nltb N (nofZ N (tsec sec (S k))) t1); [discriminate|].
  destruct (Nat.leb_spec (List.length sec) (S (S k))); [discriminate|].
  apply IH; lia.
Qed.

Lemma walk_bound Pd s e : forall f k t1 v1 hv miss k' hv' miss',
  (S k < List.length sec)%nat ->
  mwalk f Pd s e k t1 v1 hv miss = WDone k' hv' miss' -> (k <= k' < List.length sec)%nat.
Proof.
  induction f as [|f IH]; intros k t1 v1 hv miss k' hv' miss' Hk; [discriminate|].
  cbn [walk]. destruct (nltb N t1 e); [|intros [= <- _ _]; lia].
  destruct (nltb N (nofZ N (tsec sec (S k))) t1); [discriminate|].
  destruct (Nat.leb_spec (List.length sec) (S (S k))); [intros [= <- _ _]; lia|].
  intros H'. apply IH in H'; lia.
Qed.

(* ---- loop 4: the loop over the periods  for(i=0; i<nvalh-1; i++) { ... }  vs [periods] ---- *)

Definition pcond : iexp := ICmp CLt (IVar "i") (IBin ISub (IVar "nvalh") (IConst 1)).
Definition pstep : stmt := SSetI "i" (IBin IAdd (IVar "i") (IConst 1)).

Definition pbody : stmt :=
(seq [(SIf (ICmp CEq (IVar "display") (IConst 1))
(seq [(SIf (ICmp CEq (IBin IRem (IVar "i") (IConst 10000)) (IConst 0))
SSkip
SSkip);
(SIf (IAnd (ICmp CEq (IBin IRem (IVar "i") (IConst 50000)) (IConst 0)) (ICmp CGt (IVar "i") (IConst 0)))
SSkip
SSkip)])
SSkip);
(SSetF "start" (FOfInt (IBin IAdd (IVar "hstartsec") (IBin IMul (IVar "i") (IVar "nbsec_per_period")))));
(SSetF "end" (FBin FAdd (FVar "start") (FVar "nbsec_per_period_d")));
(SSetF "t1" (FOfInt (IArr "varsec" (IVar "varindex"))));
(SSetF "val1" (FArr "varvalues" (IVar "varindex")));
(SSetF "hvalue" (FOfInt (IConst 0)));
(SSetI "miss" (IConst 0));
(SSetF "vali1" (FLit 0%float 0 1));
(SSetF "vali2" (FLit 0%float 0 1));
(SSetF "it1" (FLit 0%float 0 1));
(SSetF "it2" (FLit 0%float 0 1));
(SStoreF "hvalues" (IVar "i") (FVar "nan"));
(SWhile wcond wbody);
(SSetI "varindex" (IBin ISub (IVar "varindex") (IConst 1)));
(SStoreF "hvalues" (IVar "i") (FCond (ICmp CEq (IVar "miss") (IConst 0)) (FBin FDiv (FVar "hvalue") (FVar "nbsec_per_period_d")) (FVar "nan")))]).

(* the [walk] of period number i, from varindex = k *)
Definition pwalk (i : Z) (k : nat) : wres :=
  mwalk (List.length sec) (nofZ N P) (nofZ N (hstart + i * P))
        (nadd N (nofZ N (hstart + i * P)) (nofZ N P)) k
        (nofZ N (tsec sec k)) (vval N vals k) (n0 N) false.

Definition pbpost (i : nat) (k : nat) (done rest : list T) (r : outcome T * state T) : Prop :=
  match pwalk (Z.of_nat i) k with
  | WFuel => True
  | WErr => exists code st', 0 < code /\ arrays_of st' (done ++ nnan N :: rest) /\
                             r = (ORet (RI code), st')
  | WDone k' hv' miss' =>
      exists ms a hv t1 t2 it1 it2 v1 val2 s e vali1 vali2,
      r = (ONormal,
           vst (Z.of_nat i) (Z.of_nat k' - 1) ms a hv t1 t2 it1 it2 v1 val2 s e (nnan N) vali1 vali2
               (done ++ (if miss' then nnan N else ndiv N hv' (nofZ N P)) :: rest))
  end.

Lemma if_negb {A} (b : bool) (x y : A) : (if negb b then x else y) = (if b then y else x).
Proof. destruct b; reflexivity. Qed.

Lemma period_body (callf : callee T) n i k done x rest
      ms a hv t1 t2 it1 it2 v1 val2 s e vali1 vali2 :
  nofZ N 0 = n0 N -> nofZ N 2 = two N ->
  List.length vals = List.length sec ->
  (List.length sec < n)%nat ->
  (S k < List.length sec)%nat ->
  List.length done = i ->
  exists r,
    exec N X callf n pbody
      (vst (Z.of_nat i) (Z.of_nat k) ms a hv t1 t2 it1 it2 v1 val2 s e (nnan N) vali1 vali2
           (done ++ x :: rest)) = Ok r /\
    pbpost i k done rest r.
Proof.
  intros H0 H2 Hlv Hn Hk Hi.
  assert (Hg1 : zget sec (Z.of_nat k) = Some (tsec sec k)) by (apply zget_nth; lia).
  assert (Hg2 : zget vals (Z.of_nat k) = Some (vval N vals k)) by (apply zget_nth; lia).
  unfold pbody, vst. cbn [seq].
  step_with ltac:(cbn; destruct (disp =? 1); cbn; rewrite ?if_same; cbn; rewrite ?and_ok; cbn;
                  rewrite ?if_same; reflexivity).
  step. step.
  step_with ltac:(cbn; rewrite Hg1; cbn; reflexivity).
  step_with ltac:(cbn; rewrite Hg2; cbn; reflexivity).
  step. step. step. step. step. step.
  step_with ltac:(cbn; rewrite zset_app by lia; cbn; reflexivity).
  rewrite H0.
  set (sn := nofZ N (hstart + Z.of_nat i * P)).
  set (en := nadd N sn (nofZ N P)).
  destruct (walk_loop callf n (Z.of_nat i) sn en (nnan N) (done ++ nnan N :: rest) H2 Hlv
              (List.length sec) n k (nofZ N (tsec sec k)) (vval N vals k) (n0 N) false
              a t2 (nlit X 0%float 0 1) (nlit X 0%float 0 1) val2
              (nlit X 0%float 0 1) (nlit X 0%float 0 1) Hk Hn)
    as (r & Hr & Hpost).
  { apply walk_fuel; [exact Hk|lia]. }
  unfold pbpost, pwalk. fold sn en.
  destruct (mwalk (List.length sec) (nofZ N P) sn en k (nofZ N (tsec sec k)) (vval N vals k) (n0 N) false)
    as [| |k' hv' miss'] eqn:HW; cbn [wpost] in Hpost.
  - destruct Hpost as (code & st' & Hcode & Harr & ->).
    erewrite exec_seq_stop; [ | exact Hr | discriminate ].
    eexists. split; [reflexivity|]. exists code, st'. repeat split; try assumption; apply Harr.
  - exfalso. revert HW. apply walk_fuel; [exact Hk|lia].
  - destruct Hpost as (a' & t1' & t2' & it1' & it2' & v1' & val2' & vali1' & vali2' & ->).
    step_with ltac:(exact Hr).
    unfold vst. step.
    cbn. rewrite truth_b2z, b2z_eq0, if_ok, if_negb. cbn.
    rewrite zset_app by lia. cbn.
    eexists. split; [reflexivity|].
    norm_state. do 13 eexists. reflexivity.
Qed.

Notation mperiods := (periods N inv_eps lit_eps true P rain maxgap hstart sec vals).

Lemma periods_S c i k :
  mperiods (S c) i k =
  match pwalk i k with
  | WDone k' hv miss =>
      match mperiods c (i + 1) (pred k') with
      | POk r => POk ((if miss then nnan N else ndiv N hv (nofZ N P)) :: r)
      | x => x
      end
  | WErr => PErr
  | WFuel => PFuel
  end.
Proof. reflexivity. Qed.

(* the C code decrements varindex after each period; the model uses [pred].  They
   differ when the inner loop ends with varindex = 0 without having run (t1 >= end
   at once): C then has varindex = -1 and the NEXT period reads varsec[-1].
   [no_underflow cnt i k]: this does not happen in the cnt periods from period i,
   varindex = k (the last period may leave varindex = -1: it is not read again). *)
Fixpoint no_underflow (cnt : nat) (i : Z) (k : nat) : Prop :=
  match cnt with
  | O => True
  | S c =>
      match pwalk i k with
      | WDone k' _ _ => (c = O \/ (0 < k')%nat) /\ no_underflow c (i + 1) (pred k')
      | _ => True
      end
  end.

Definition ppost (cnt i k : nat) (done todo : list T) (r : outcome T * state T) : Prop :=
  match mperiods cnt (Z.of_nat i) k with
  | PFuel => True
  | PErr => exists code st' hvs', 0 < code /\ arrays_of st' hvs' /\
                                 List.length hvs' = List.length (done ++ todo) /\
                                 r = (ORet (RI code), st')
  | POk l =>
      exists vi ms a hv t1 t2 it1 it2 v1 val2 s e vali1 vali2,
      r = (ONormal,
           vst (Z.of_nat (i + cnt)) vi ms a hv t1 t2 it1 it2 v1 val2 s e (nnan N) vali1 vali2
               (done ++ l ++ skipn cnt todo))
  end.

Lemma periods_loop (callf : callee T) n :
  nofZ N 0 = n0 N -> nofZ N 2 = two N ->
  List.length vals = List.length sec ->
  (List.length sec < n)%nat ->
  forall cnt m i k done todo vi ms a hv t1 t2 it1 it2 v1 val2 s e vali1 vali2,
  List.length done = i -> (cnt <= List.length todo)%nat ->
  nvalh - 1 <= Z.of_nat (i + cnt) -> (cnt = O \/ nvalh - 1 = Z.of_nat (i + cnt)) ->
  (cnt = O \/ (vi = Z.of_nat k /\ (S k < List.length sec)%nat)) ->
  no_underflow cnt (Z.of_nat i) k ->
  (cnt < m)%nat ->
  exists r,
    loop m (cond_of N X pcond) (for_body (exec N X callf n pbody) (exec N X callf n pstep))
      (vst (Z.of_nat i) vi ms a hv t1 t2 it1 it2 v1 val2 s e (nnan N) vali1 vali2 (done ++ todo))
    = Ok r /\
    ppost cnt i k done todo r.
Proof.
  intros H0 H2 Hlv Hn.
  induction cnt as [|c IH];
    intros m i k done todo vi ms a hv t1 t2 it1 it2 v1 val2 s e vali1 vali2 Hi Ht Hnv Hnv' Hvi Hnu Hm.
  - destruct m as [|m]; [lia|]. rewrite loop_S.
    assert (Hc : cond_of N X pcond
              (vst (Z.of_nat i) vi ms a hv t1 t2 it1 it2 v1 val2 s e (nnan N) vali1 vali2 (done ++ todo))
              = Ok false).
    { cbn. rewrite truth_b2z. f_equal. apply Z.ltb_ge. lia. }
    rewrite Hc. eexists. split; [reflexivity|].
    unfold ppost. cbn [periods]. do 14 eexists.
    replace (i + 0)%nat with i by lia. cbn [skipn app]. reflexivity.
  - destruct m as [|m]; [lia|]. rewrite loop_S.
    assert (Hc : cond_of N X pcond
              (vst (Z.of_nat i) vi ms a hv t1 t2 it1 it2 v1 val2 s e (nnan N) vali1 vali2 (done ++ todo))
              = Ok true).
    { cbn. rewrite truth_b2z. f_equal. apply Z.ltb_lt. lia. }
    rewrite Hc. clear Hc.
    destruct Hvi as [Hvi|[-> Hk]]; [discriminate|].
    destruct todo as [|x rest]; [cbn in Ht; lia|].
    destruct (period_body callf n i k done x rest ms a hv t1 t2 it1 it2 v1 val2 s e vali1 vali2
                H0 H2 Hlv Hn Hk Hi) as (r1 & Hr1 & Hp1).
    unfold for_body. rewrite Hr1. clear Hr1.
    unfold ppost. rewrite periods_S.
    unfold pbpost in Hp1. cbn [no_underflow] in Hnu.
    destruct (pwalk (Z.of_nat i) k) as [| |k' hv' miss'] eqn:HW.
    + destruct Hp1 as (code & st' & Hcode & Harr & ->).
      eexists. split; [reflexivity|]. exists code, st', (done ++ nnan N :: rest).
      split; [exact Hcode|]. split; [exact Harr|]. split; [|reflexivity].
      rewrite !app_length. reflexivity.
    + exfalso. revert HW. apply walk_fuel; [exact Hk|lia].
    + destruct Hp1 as (ms1 & a1 & hv1 & t11 & t21 & it11 & it21 & v11 & val21 & s1 & e1 & vali11 & vali21 & ->).
      destruct Hnu as (Hk' & Hnu).
      pose proof (walk_bound _ _ _ _ _ _ _ _ _ _ _ _ Hk HW) as Hb.
      set (h := if miss' then nnan N else ndiv N hv' (nofZ N P)).
      assert (Hs : exec N X callf n pstep
                (vst (Z.of_nat i) (Z.of_nat k' - 1) ms1 a1 hv1 t11 t21 it11 it21 v11 val21 s1 e1 (nnan N)
                     vali11 vali21 (done ++ h :: rest))
              = Ok (ONormal,
                    vst (Z.of_nat (S i)) (Z.of_nat k' - 1) ms1 a1 hv1 t11 t21 it11 it21 v11 val21 s1 e1 (nnan N)
                        vali11 vali21 ((done ++ [h]) ++ rest))).
      { unfold pstep, vst. cbn. rewrite <- app_assoc. cbn [app].
        replace (Z.of_nat i + 1) with (Z.of_nat (S i)) by lia. reflexivity. }
      rewrite Hs. clear Hs.
      destruct (IH m (S i) (pred k') (done ++ [h]) rest (Z.of_nat k' - 1) ms1 a1 hv1 t11 t21 it11 it21
                   v11 val21 s1 e1 vali11 vali21) as (r & Hr & Hp).
      * rewrite app_length. cbn. lia.
      * cbn in Ht. lia.
      * lia.
      * right. lia.
      * destruct Hk' as [Hc0|Hpos]; [left; exact Hc0|right]. split; lia.
      * replace (Z.of_nat (S i)) with (Z.of_nat i + 1) by lia. exact Hnu.
      * lia.
      * exists r. split; [exact Hr|].
        unfold ppost in Hp.
        replace (Z.of_nat (S i)) with (Z.of_nat i + 1) in Hp by lia.
        destruct (mperiods c (Z.of_nat i + 1) (pred k')) as [| |l].
        -- destruct Hp as (code & st' & hvs' & Hcode & Harr & Hlen & ->).
           exists code, st', hvs'. split; [exact Hcode|]. split; [exact Harr|]. split; [|reflexivity].
           rewrite Hlen, !app_length. cbn. lia.
        -- exact I.
        -- destruct Hp as (vi' & ms' & a' & hvv & t1' & t2' & it1' & it2' & v1' & val2' & s' & e' & vali1' & vali2' & ->).
           do 14 eexists.
           replace (S i + c)%nat with (i + S c)%nat by lia.
           rewrite <- app_assoc. cbn [app skipn]. reflexivity.
Qed.

Lemma periods_fuel : forall cnt i k, (S k < List.length sec)%nat -> mperiods cnt i k <> PFuel.
Proof.
  induction cnt as [|c IH]; intros i k Hk; [discriminate|].
  rewrite periods_S. unfold pwalk.
  destruct (mwalk _ _ _ _ k _ _ _ _) as [| |k' hv' miss'] eqn:HW.
  - discriminate.
  - exfalso. revert HW. apply walk_fuel; [exact Hk|lia].
  - pose proof (walk_bound _ _ _ _ _ _ _ _ _ _ _ _ Hk HW) as Hb.
    specialize (IH (i + 1) (pred k') ltac:(lia)).
    destruct (mperiods c (i + 1) (pred k')); [discriminate|contradiction|discriminate].
Qed.

Lemma periods_length : forall cnt i k l, mperiods cnt i k = POk l -> List.length l = cnt.
Proof.
  induction cnt as [|c IH]; intros i k l; [intros [= <-]; reflexivity|].
  rewrite periods_S. destruct (pwalk i k) as [| |k' hv' miss']; try discriminate.
  destruct (mperiods c (i + 1) (pred k')) as [| |l'] eqn:E; try discriminate.
  intros [= <-]. cbn. f_equal. eapply IH. exact E.
Qed.

(* ---- the whole function ---- *)

Definition fparams : list param :=
  [PI "nvalvar"; PI "nvalh"; PI "nbsec_per_period"; PI "rainfall"; PI "display"; PI "maxgapsec";
   PArrI "varsec"; PArrF "varvalues"; PI "hstartsec"; PArrF "hvalues"].

Definition poscond : iexp :=
  IAnd (ICmp CLt (IVar "varindex") (IVar "nvalvar"))
       (ICmp CLe (IArr "varsec" (IVar "varindex")) (IVar "hstartsec")).

Definition fbody : stmt :=
(seq [(SSetI "ierr" (IConst 0));
(SSetI "i" (IConst 0));
(SSetI "varindex" (IConst 0));
(SSetI "miss" (IConst 0));
(SSetF "a" (FOfInt (IConst 0)));
(SSetF "hvalue" (FOfInt (IConst 0)));
(SSetF "t1" (FOfInt (IConst 0)));
(SSetF "t2" (FOfInt (IConst 0)));
(SSetF "it1" (FOfInt (IConst 0)));
(SSetF "it2" (FOfInt (IConst 0)));
(SSetF "val1" (FOfInt (IConst 0)));
(SSetF "val2" (FOfInt (IConst 0)));
(SSetF "start" (FOfInt (IConst 0)));
(SSetF "end" (FOfInt (IConst 0)));
(SSetF "nan" (FOfInt (IConst 0)));
(SSetF "vali1" (FOfInt (IConst 0)));
(SSetF "vali2" (FOfInt (IConst 0)));
(SSetF "nbsec_per_period_d" (FOfInt (IVar "nbsec_per_period")));
(SSetF "zero" (FLit 0%float 0 1));
(SIf (IOr (ICmp CLt (IVar "rainfall") (IConst 0)) (ICmp CGt (IVar "rainfall") (IConst 1)))
(SRetI (IBin IAdd (IConst 130000) (IConst 1)))
SSkip);
(SIf (IAnd (ICmp CNe (IVar "nbsec_per_period") (IConst 1800)) (ICmp CNe (IVar "nbsec_per_period") (IConst 3600)))
(SRetI (IBin IAdd (IConst 130000) (IConst 1)))
SSkip);
(SIf (ICmp CEq (IVar "display") (IConst 1))
SSkip
SSkip);
(SSetI "varindex" (IConst 0));
(SWhile poscond
(SSetI "varindex" (IBin IAdd (IVar "varindex") (IConst 1))));
(SSetI "varindex" (IBin ISub (IVar "varindex") (IConst 1)));
(SIf (ICmp CLt (IVar "varindex") (IConst 0))
(seq [(SIf (ICmp CEq (IVar "display") (IConst 1))
SSkip
SSkip);
(SRetI (IBin IAdd (IConst 130000) (IConst 1)))])
SSkip);
(SSetF "nan" FNan);
(SSetI "ierr" (IConst 0));
(SIf (ICmp CGe (IBin IAdd (IVar "varindex") (IConst 1)) (IVar "nvalvar"))
(seq [(SSetI "i" (IConst 0));
(SFor pcond
(SSetI "i" (IBin IAdd (IVar "i") (IConst 1)))
(SStoreF "hvalues" (IVar "i") (FVar "nan")));
(SRetI (IVar "ierr"))])
SSkip);
(SSetI "i" (IConst 0));
(SFor pcond pstep pbody);
(SIf (ICmp CEq (IVar "display") (IConst 1))
SSkip
SSkip);
(SRetI (IVar "ierr"))]).

Lemma c_var2h_def_eq : c_var2h_def = Fun fparams fbody.
Proof. reflexivity. Qed.

Lemma find_var2h : find_fun program "c_var2h" = Ok (fparams, fbody).
Proof. reflexivity. Qed.

Notation mvar2h := (c_var2h N inv_eps lit_eps true P rain maxgap hstart sec vals).

Lemma out_arrays_of st h :
  arrays_of st h -> out_arrays fparams st = Ok [VArrI sec; VArrF vals; VArrF h].
Proof.
  intros [Hi Hf]. unfold fparams. cbn [out_arrays]. unfold get_ai, get_af. rewrite Hi, Hf. reflexivity.
Qed.

Definition fpost (hinit : list T) (r : outcome T * state T) : Prop :=
  match mvar2h hinit with
  | VOk h => exists st', arrays_of st' h /\ r = (ORet (RI 0), st')
  | VErr => exists code st' h', 0 < code /\ List.length h' = List.length hinit /\
                                arrays_of st' h' /\ r = (ORet (RI code), st')
  | VUndef =>
      (sec = [] -> exists code st', 0 < code /\ arrays_of st' hinit /\ r = (ORet (RI code), st')) /\
      (sec <> [] -> exists st', arrays_of st' (nan_fill hinit) /\ r = (ORet (RI 0), st'))
  end.

Definition st_init (hinit : list T) : state T :=
  {| s_i := [("nvalvar", zlen sec); ("nvalh", nvalh); ("nbsec_per_period", P); ("rainfall", rain);
             ("display", disp); ("maxgapsec", maxgap); ("hstartsec", hstart)];
     s_f := [];
     s_ai := [("varsec", sec)];
     s_af := [("varvalues", vals); ("hvalues", hinit)] |}.

Lemma fbody_run (callf : callee T) hinit n :
  nofZ N 0 = n0 N -> nofZ N 2 = two N ->
  nvalh = zlen hinit ->
  List.length vals = List.length sec ->
  (Nat.max (List.length sec) (List.length hinit) < n)%nat ->
  (In P VAR2H_C_PERIODS ->
   forall v, position sec hstart = Some (S v) -> no_underflow (List.length hinit - 1) 0 v) ->
  exists r, exec N X callf n fbody (st_init hinit) = Ok r /\ fpost hinit r.
Proof.
  intros H0 H2 Hnv Hlv Hn Hnu.
  unfold fpost, c_var2h.
  unfold fbody, st_init. cbn [seq].
  do 19 step.
  destruct ((rain <? 0) || (1 <? rain)) eqn:Hr.
  { erewrite exec_seq_stop;
      [ | cbn; rewrite !truth_b2z, or_ok; cbn; rewrite truth_b2z, Hr; cbn; reflexivity | discriminate ].
    eexists. split; [reflexivity|]. exists 130001. do 2 eexists.
    split; [lia|]. split; [reflexivity|]. split; [|reflexivity]. split; reflexivity. }
  step_with ltac:(cbn; rewrite !truth_b2z, or_ok; cbn; rewrite truth_b2z, Hr; cbn; reflexivity).
  cbn [VAR2H_C_PERIODS existsb].
  replace (negb ((P =? 1800) || ((P =? 3600) || false))) with (negb (P =? 1800) && negb (P =? 3600))
    by (destruct (P =? 1800), (P =? 3600); reflexivity).
  destruct (negb (P =? 1800) && negb (P =? 3600)) eqn:HP.
  { erewrite exec_seq_stop;
      [ | cbn; rewrite !truth_b2z, and_ok; cbn; rewrite truth_b2z, HP; cbn; reflexivity | discriminate ].
    eexists. split; [reflexivity|]. exists 130001. do 2 eexists.
    split; [lia|]. split; [reflexivity|]. split; [|reflexivity]. split; reflexivity. }
  step_with ltac:(cbn; rewrite !truth_b2z, and_ok; cbn; rewrite truth_b2z, HP; cbn; reflexivity).
  step_with ltac:(cbn; rewrite if_same; reflexivity).
  step.
  step_with ltac:(exact (pos_loop callf n hinit ltac:(lia))).
  unfold vst0, vst. step.
  rewrite position_pcount.
  pose proof (pcount_le sec hstart) as Hple.
  destruct (pcount sec hstart) as [|v] eqn:Hpc.
  { (* varindex < 0 *)
    erewrite exec_seq_stop;
      [ | cbn; rewrite if_same; cbn; reflexivity | discriminate ].
    eexists. split; [reflexivity|].
    destruct (Nat.ltb_spec 0 (List.length sec)) as [Hl|Hl].
    - exists 130001. do 2 eexists.
      split; [lia|]. split; [reflexivity|]. split; [|reflexivity]. split; reflexivity.
    - split.
      + intros _. exists 130001. eexists. split; [lia|]. split; [|reflexivity]. split; reflexivity.
      + intros Hne. exfalso. apply Hne. apply length_zero_iff_nil. lia. }
  replace (Z.of_nat (S v) - 1) with (Z.of_nat v) by lia.
  step_with ltac:(cbn; zb; cbn; reflexivity).
  step. step.
  assert (Hbrk : (zlen sec <=? Z.of_nat v + 1) = negb (S v <? List.length sec)%nat).
  { rewrite zlen_eq. destruct (Nat.ltb_spec (S v) (List.length sec));
      [apply Z.leb_gt|apply Z.leb_le]; lia. }
  destruct (Nat.ltb_spec (S v) (List.length sec)) as [Hv|Hv]; cbn [negb] in Hbrk.
  - (* a stamp after hstart exists: the loop over the periods *)
    step_with ltac:(cbn; rewrite truth_b2z, Hbrk; cbn; reflexivity).
    step.
    assert (Hpos : position sec hstart = Some (S v)).
    { rewrite position_pcount, Hpc. destruct (Nat.ltb_spec (S v) (List.length sec)); [reflexivity|lia]. }
    assert (HPin : In P VAR2H_C_PERIODS).
    { unfold VAR2H_C_PERIODS. destruct (Z.eqb_spec P 1800) as [->|]; [left; reflexivity|].
      destruct (Z.eqb_spec P 3600) as [->|]; [right; left; reflexivity|discriminate HP]. }
    specialize (Hnu HPin v Hpos).
    destruct (periods_loop callf n H0 H2 Hlv ltac:(lia) (List.length hinit - 1) n 0%nat v [] hinit
                (Z.of_nat v) 0 (nofZ N 0) (nofZ N 0) (nofZ N 0) (nofZ N 0) (nofZ N 0) (nofZ N 0)
                (nofZ N 0) (nofZ N 0) (nofZ N 0) (nofZ N 0) (nofZ N 0) (nofZ N 0))
      as (r & Hlr & Hp).
    { reflexivity. } { lia. } { rewrite Hnv, zlen_eq. lia. }
    { rewrite Hnv, zlen_eq. destruct (List.length hinit); [left; reflexivity|right; lia]. }
    { right. split; [reflexivity|exact Hv]. } { exact Hnu. } { lia. }
    unfold ppost in Hp. change (Z.of_nat 0) with 0 in Hp.
    pose proof (periods_fuel (List.length hinit - 1) 0 v Hv) as Hpf.
    pose proof (periods_length (List.length hinit - 1) 0 v) as Hpl.
    destruct (mperiods (List.length hinit - 1) 0 v) as [| |l].
    + destruct Hp as (code & st' & hvs' & Hcode & Harr & Hlen & ->).
      erewrite exec_seq_stop; [ | exact Hlr | discriminate ].
      eexists. split; [reflexivity|]. exists code, st', hvs'. repeat split; try assumption; apply Harr.
    + contradiction.
    + destruct Hp as (vi' & ms' & a' & hvv & t1' & t2' & it1' & it2' & v1' & val2' & s' & e' & vali1' & vali2' & ->).
      step_with ltac:(exact Hlr).
      unfold vst.
      step_with ltac:(cbn; rewrite if_same; reflexivity).
      cbn. eexists. split; [reflexivity|]. eexists. split; [|reflexivity].
      rewrite (Hpl l eq_refl). split; reflexivity.
  - (* no stamp after hstart: all periods are missing *)
    erewrite exec_seq_stop;
      [ | erewrite exec_if_true;
          [ cbn [seq]; step;
            step_with ltac:(exact (nan_loop callf n (Z.of_nat v) hinit Hnv ltac:(lia)));
            unfold vst1, vst; cbn; reflexivity
          | cbn; reflexivity
          | rewrite truth_b2z; exact Hbrk ]
        | discriminate ].
    eexists. split; [reflexivity|]. split.
    + intros Hnil. rewrite Hnil in Hple. cbn in Hple. lia.
    + intros _. eexists. split; [|reflexivity]. split; reflexivity.
Qed.

(* c_var2h answers VUndef exactly when no stamp is after hstartsec (the fuel of
   [walk]/[periods] is never exhausted) *)
Lemma var2h_undef hinit : mvar2h hinit = VUndef -> position sec hstart = None.
Proof.
  unfold c_var2h.
  destruct ((rain <? 0) || (1 <? rain)); [discriminate|].
  destruct (negb (existsb (Z.eqb P) VAR2H_C_PERIODS)); [discriminate|].
  destruct (position sec hstart) as [[|v]|] eqn:E; [discriminate| |reflexivity].
  assert (Hv : (S v < List.length sec)%nat).
  { rewrite position_pcount in E. destruct (Nat.ltb_spec (pcount sec hstart) (List.length sec));
      [|discriminate]. injection E as E. lia. }
  pose proof (periods_fuel (List.length hinit - 1) 0 v Hv).
  destruct (mperiods (List.length hinit - 1) 0 v); [discriminate|contradiction|discriminate].
Qed.

(* ---- [no_underflow] from two order facts about the arithmetic ---- *)

Lemma walk_last Pd s e : forall f k v1 hv miss k' hv' miss',
  mwalk f Pd s e k (nofZ N (tsec sec k)) v1 hv miss = WDone k' hv' miss' ->
  (k' = k /\ nltb N (nofZ N (tsec sec k)) e = false) \/
  ((k < k')%nat /\ nltb N (nofZ N (tsec sec (pred k'))) e = true).
Proof.
  induction f as [|f IH]; intros k v1 hv miss k' hv' miss'; [discriminate|].
  cbn [walk]. destruct (nltb N (nofZ N (tsec sec k)) e) eqn:Hte; [|intros [= <- _ _]; left; split; reflexivity].
  destruct (nltb N (nofZ N (tsec sec (S k))) (nofZ N (tsec sec k))); [discriminate|].
  destruct (List.length sec <=? S (S k))%nat; [intros [= <- _ _]; right; split; [lia|exact Hte]|].
  intros H'. apply IH in H'. destruct H' as [[-> _]|[Hlt Hl]]; right.
  - split; [lia|exact Hte].
  - split; [lia|exact Hl].
Qed.

Lemma no_underflow_order :
  0 <= P ->
  (forall x b b', b <= b' -> nltb N x (nadd N (nofZ N b) (nofZ N P)) = true ->
                  nltb N x (nadd N (nofZ N b') (nofZ N P)) = true) ->
  forall cnt i k,
  nltb N (nofZ N (tsec sec k)) (nadd N (nofZ N (hstart + i * P)) (nofZ N P)) = true ->
  no_underflow cnt i k.
Proof.
  intros HP Hmono. induction cnt as [|c IH]; intros i k HQ; [exact I|].
  cbn [no_underflow]. unfold pwalk.
  destruct (mwalk _ _ _ _ k _ _ _ _) as [| |k' hv' miss'] eqn:HW; try exact I.
  apply walk_last in HW. destruct HW as [[_ Hf]|[Hlt Hl]]; [congruence|].
  split; [right; lia|]. apply IH.
  apply (Hmono _ (hstart + i * P)); [nia|exact Hl].
Qed.

End Refine.

(* ================================================================== *)
(* The refinement theorem                                               *)
(* ================================================================== *)

(* the arguments the Cython wrapper passes: nvalvar = varsec.shape[0] (it asserts
   nvalvar == varvalues.shape[0]), nvalh = hvalues.shape[0] *)
Definition var2h_args {T} (P rain disp maxgap hstart : Z) (sec : list Z) (vals hinit : list T)
  : list (argval T) :=
  [AVI (zlen sec); AVI (zlen hinit); AVI P; AVI rain; AVI disp; AVI maxgap;
   AVArrI sec; AVArrF vals; AVI hstart; AVArrF hinit].

(* For EVERY period length, rainfall flag, display flag, maximum gap, origin, stamps,
   values (NaN, negative, unsorted stamps included) and initial content of hvalues:
   - where the model answers [VOk h], the translated kernel returns 0 and leaves h in hvalues;
   - where it answers [VErr], the kernel returns a positive code;
   - where it answers [VUndef] (no stamp after hstartsec: the model was written when the
     positioning loop had no bound check) the kernel of the tree under test is
     nevertheless defined: code > 0 when there is no stamp at all, otherwise 0 and
     every period missing.
   Hypotheses: [nofZ N 0 = n0 N] and [nofZ N 2 = 1+1] (the C text writes the integer
   literals 0 and 2 into doubles); the buffer lengths of the wrapper; fuel; and
   [no_underflow] (see its definition: varindex never reaches -1 before the last
   period; it follows from two order facts, [no_underflow_order]). *)
Theorem refine_c_var2h {T} (N : NumOps T) (X : NumLit T)
        (P rain disp maxgap hstart : Z) (sec : list Z) (vals hinit : list T) (n : nat) :
  nofZ N 0 = n0 N -> nofZ N 2 = nadd N (n1 N) (n1 N) ->
  List.length vals = List.length sec ->
  (Nat.max (List.length sec) (List.length hinit) < n)%nat ->
  (In P VAR2H_C_PERIODS ->
   forall v, position sec hstart = Some (S v) ->
             no_underflow N X P rain maxgap hstart sec vals (List.length hinit - 1) 0 v) ->
  match c_var2h N (inv_eps N X) (lit_eps X) true P rain maxgap hstart sec vals hinit with
  | VOk h =>
      exec_fun N X program (S n) "c_var2h" (var2h_args P rain disp maxgap hstart sec vals hinit)
      = Ok (RI 0, [VArrI sec; VArrF vals; VArrF h])
  | VErr =>
      exists code h', 0 < code /\ List.length h' = List.length hinit /\
      exec_fun N X program (S n) "c_var2h" (var2h_args P rain disp maxgap hstart sec vals hinit)
      = Ok (RI code, [VArrI sec; VArrF vals; VArrF h'])
  | VUndef =>
      (sec = [] -> exists code, 0 < code /\
         exec_fun N X program (S n) "c_var2h" (var2h_args P rain disp maxgap hstart sec vals hinit)
         = Ok (RI code, [VArrI sec; VArrF vals; VArrF hinit])) /\
      (sec <> [] ->
         exec_fun N X program (S n) "c_var2h" (var2h_args P rain disp maxgap hstart sec vals hinit)
         = Ok (RI 0, [VArrI sec; VArrF vals; VArrF (nan_fill N hinit)]))
  end.
Proof.
  intros H0 H2 Hlv Hn Hnu.
  destruct (fbody_run N X P rain disp maxgap hstart sec vals (zlen hinit)
              (exec_fun N X program n) hinit n H0 H2 eq_refl Hlv Hn Hnu) as (r & Hr & Hp).
  assert (Hrun : forall v st' h, arrays_of sec vals st' h -> r = (ORet v, st') ->
            exec_fun N X program (S n) "c_var2h" (var2h_args P rain disp maxgap hstart sec vals hinit)
            = Ok (v, [VArrI sec; VArrF vals; VArrF h])).
  { intros v st' h Harr ->.
    rewrite (exec_fun_S N X program n "c_var2h"), find_var2h.
    unfold var2h_args. cbn [bind fst snd fparams bind_params]. norm_state.
    change (exec N X (exec_fun N X program n) n fbody
              (st_init P rain disp maxgap hstart sec vals (zlen hinit) hinit) = Ok (ORet v, st')) in Hr.
    unfold st_init in Hr. rewrite Hr.
    change [PI "nvalvar"; PI "nvalh"; PI "nbsec_per_period"; PI "rainfall"; PI "display";
            PI "maxgapsec"; PArrI "varsec"; PArrF "varvalues"; PI "hstartsec"; PArrF "hvalues"]
      with fparams.
    rewrite (out_arrays_of sec vals st' h Harr). reflexivity. }
  unfold fpost in Hp.
  destruct (c_var2h N (inv_eps N X) (lit_eps X) true P rain maxgap hstart sec vals hinit) as [| |h].
  - destruct Hp as [Hp1 Hp2]. split.
    + intros Hs. destruct (Hp1 Hs) as (code & st' & Hcode & Harr & Hre).
      exists code. split; [exact Hcode|]. exact (Hrun _ _ _ Harr Hre).
    + intros Hs. destruct (Hp2 Hs) as (st' & Harr & Hre). exact (Hrun _ _ _ Harr Hre).
  - destruct Hp as (code & st' & h' & Hcode & Hlen & Harr & Hre).
    exists code, h'. split; [exact Hcode|]. split; [exact Hlen|]. exact (Hrun _ _ _ Harr Hre).
  - destruct Hp as (st' & Harr & Hre). exact (Hrun _ _ _ Harr Hre).
Qed.

(* [VUndef] means exactly: no stamp after hstartsec *)
Theorem var2h_undef_position {T} (N : NumOps T) (X : NumLit T) P rain maxgap hstart sec vals hinit :
  c_var2h N (inv_eps N X) (lit_eps X) true P rain maxgap hstart sec vals hinit = VUndef ->
  position sec hstart = None.
Proof. apply var2h_undef. Qed.

(* [no_underflow] at the first period, from two order facts about the arithmetic
   (both hold in RR / RN; in binary64 they hold as long as hstartsec + i*P stays
   below 2^63 in magnitude, where ulp <= 1024 < P) *)
Theorem no_underflow_first {T} (N : NumOps T) (X : NumLit T) P rain maxgap hstart sec vals :
  0 < P ->
  (forall a b, a <= b -> nltb N (nofZ N a) (nadd N (nofZ N b) (nofZ N P)) = true) ->
  (forall x b b', b <= b' -> nltb N x (nadd N (nofZ N b) (nofZ N P)) = true ->
                  nltb N x (nadd N (nofZ N b') (nofZ N P)) = true) ->
  forall cnt v, position sec hstart = Some (S v) ->
  no_underflow N X P rain maxgap hstart sec vals cnt 0 v.
Proof.
  intros HP Hlt Hmono cnt v Hpos.
  apply no_underflow_order; [lia|exact Hmono|].
  apply Hlt. rewrite position_pcount in Hpos.
  destruct (Nat.ltb_spec (pcount sec hstart) (List.length sec)); [|discriminate].
  injection Hpos as Hpos.
  pose proof (pcount_before sec hstart v ltac:(lia)). unfold tsec. lia.
Qed.

(* ================================================================== *)
(* Instances                                                            *)
(* ================================================================== *)

(* ---- reals with a missing value (the instance of the property theorems, Props/C14.v) ---- *)

Lemma RN_end_after P a b :
  0 < P -> a <= b -> nltb RN (nofZ RN a) (nadd RN (nofZ RN b) (nofZ RN P)) = true.
Proof.
  intros HP Hab. cbn. apply Rltb_true. rewrite <- plus_IZR. apply IZR_lt. lia.
Qed.

Lemma RN_end_mono P x b b' :
  b <= b' -> nltb RN x (nadd RN (nofZ RN b) (nofZ RN P)) = true ->
  nltb RN x (nadd RN (nofZ RN b') (nofZ RN P)) = true.
Proof.
  destruct x as [x|]; cbn; [|discriminate]. intros Hb H.
  apply Rltb_true in H. apply Rltb_true. apply IZR_le in Hb. lra.
Qed.

Lemma RN_inv_eps : inv_eps RN XRN = Some VAR2H_INVALID_EPS_R.
Proof.
  unfold inv_eps, lit_eps, VAR2H_INVALID_EPS_R. cbn. unfold lit_R. f_equal. lra.
Qed.

Lemma RN_ov_eps : lit_eps XRN = Some VAR2H_OVERLAP_EPS_R.
Proof. reflexivity. Qed.

(* in RN nothing is assumed beyond the buffer lengths of the wrapper *)
Theorem refine_c_var2h_RN (P rain disp maxgap hstart : Z) (sec : list Z)
        (vals hinit : list (option R)) (n : nat) :
  List.length vals = List.length sec ->
  (Nat.max (List.length sec) (List.length hinit) < n)%nat ->
  match c_var2h_RN true P rain maxgap hstart sec vals hinit with
  | VOk h =>
      exec_fun RN XRN program (S n) "c_var2h" (var2h_args P rain disp maxgap hstart sec vals hinit)
      = Ok (RI 0, [VArrI sec; VArrF vals; VArrF h])
  | VErr =>
      exists code h', 0 < code /\ List.length h' = List.length hinit /\
      exec_fun RN XRN program (S n) "c_var2h" (var2h_args P rain disp maxgap hstart sec vals hinit)
      = Ok (RI code, [VArrI sec; VArrF vals; VArrF h'])
  | VUndef =>
      (sec = [] -> exists code, 0 < code /\
         exec_fun RN XRN program (S n) "c_var2h" (var2h_args P rain disp maxgap hstart sec vals hinit)
         = Ok (RI code, [VArrI sec; VArrF vals; VArrF hinit])) /\
      (sec <> [] ->
         exec_fun RN XRN program (S n) "c_var2h" (var2h_args P rain disp maxgap hstart sec vals hinit)
         = Ok (RI 0, [VArrI sec; VArrF vals; VArrF (nan_fill RN hinit)]))
  end.
Proof.
  intros Hlv Hn.
  pose proof (refine_c_var2h RN XRN P rain disp maxgap hstart sec vals hinit n) as H.
  rewrite RN_inv_eps, RN_ov_eps in H. apply H; clear H.
  - reflexivity.
  - cbn. f_equal; try lra.
  - exact Hlv.
  - exact Hn.
  - intros HP v Hpos.
    assert (0 < P) by (unfold VAR2H_C_PERIODS in HP; cbn in HP; lia).
    apply no_underflow_first; [assumption| |intros x b b'; apply RN_end_mono|exact Hpos].
    intros a b. apply RN_end_after. assumption.
Qed.

(* ---- binary64 (the instance tied to the compiled kernels by kernels_tie.py) ---- *)

Theorem refine_c_var2h_F64 (P rain disp maxgap hstart : Z) (sec : list Z)
        (vals hinit : list float) (n : nat) :
  List.length vals = List.length sec ->
  (Nat.max (List.length sec) (List.length hinit) < n)%nat ->
  (In P VAR2H_C_PERIODS ->
   forall v, position sec hstart = Some (S v) ->
             no_underflow F64 XF64 P rain maxgap hstart sec vals (List.length hinit - 1) 0 v) ->
  match c_var2h_F64 P rain maxgap hstart sec vals hinit with
  | VOk h =>
      exec_fun F64 XF64 program (S n) "c_var2h" (var2h_args P rain disp maxgap hstart sec vals hinit)
      = Ok (RI 0, [VArrI sec; VArrF vals; VArrF h])
  | VErr =>
      exists code h', 0 < code /\ List.length h' = List.length hinit /\
      exec_fun F64 XF64 program (S n) "c_var2h" (var2h_args P rain disp maxgap hstart sec vals hinit)
      = Ok (RI code, [VArrI sec; VArrF vals; VArrF h'])
  | VUndef =>
      (sec = [] -> exists code, 0 < code /\
         exec_fun F64 XF64 program (S n) "c_var2h" (var2h_args P rain disp maxgap hstart sec vals hinit)
         = Ok (RI code, [VArrI sec; VArrF vals; VArrF hinit])) /\
      (sec <> [] ->
         exec_fun F64 XF64 program (S n) "c_var2h" (var2h_args P rain disp maxgap hstart sec vals hinit)
         = Ok (RI 0, [VArrI sec; VArrF vals; VArrF (nan_fill F64 hinit)]))
  end.
Proof.
  intros Hlv Hn Hnu.
  exact (refine_c_var2h F64 XF64 P rain disp maxgap hstart sec vals hinit n
           eq_refl eq_refl Hlv Hn Hnu).
Qed.

(* the hypothesis [no_underflow] is not vacuous for the MiniC semantics (unbounded
   integers): with a stamp of 2^80 (not a long long) the end of the first period
   rounds to its start, the inner loop does not run, varindex becomes -1 and the
   second period reads varsec[-1] *)
Example var2h_underflow_F64 :
  exec_fun F64 XF64 program 10 "c_var2h"
    (var2h_args 3600 0 0 432000 (2 ^ 80) [2 ^ 80; 2 ^ 81] [1%float; 1%float]
                [0%float; 0%float; 0%float])
  = Err (OOB "varsec" (-1)).
Proof. vm_compute. reflexivity. Qed.
