(* Theorems about Model/Intersect.v, part 4 (property C16): consequences -
   independence of the order of the catchment cells, bounds, full coverage. *)
From Coq Require Import ZArith Bool List Reals Lra Lia Psatz Permutation.
From Hy Require Import Base.Num Gen.Consts Gen.ConstsC16 Model.Grid Model.Intersect
     Proofs.GridGeomProofs Proofs.IntersectProofs Proofs.IntersectGridProofs Proofs.VoronoiProofs.
Import ListNotations.
Open Scope R_scope.

Lemma countb_perm {A} (f : A -> bool) l l' : Permutation l l' -> countb f l = countb f l'.
Proof.
  unfold countb. induction 1; cbn; try lia.
  - destruct (f x); cbn; lia.
  - destruct (f x), (f y); cbn; lia.
Qed.

Lemma countb_all {A} (f : A -> bool) l : (forall x, In x l -> f x = true) -> countb f l = List.length l.
Proof.
  unfold countb. induction l as [|a l IH]; intros H; cbn; [reflexivity|].
  rewrite (H a) by (left; reflexivity). cbn. rewrite IH; [reflexivity|]. intros; apply H; right; assumption.
Qed.

(* the (cell, weight) pairs do not depend on the order of the points (reals) *)
Theorem intersect_perm_RR locate af xys xys' k w :
  Permutation xys xys' ->
  (In (k, w) (intersect_with RR locate af xys) <-> In (k, w) (intersect_with RR locate af xys')).
Proof.
  intros P. rewrite !intersect_in. unfold cnt. rewrite (countb_perm _ _ _ P). tauto.
Qed.

(* sum(weights) x csz^2 never exceeds the area of the catchment, with equality
   when every centre lies inside the grid *)
Theorem intersect_area_le nrows ncols xll yll csz csz_area xys :
  0 < csz ->
  Rsum (map snd (c_intersect RR nrows ncols xll yll csz csz_area xys)) * (csz * csz) <=
  INR (List.length xys) * (csz_area * csz_area).
Proof.
  intros H. rewrite c_intersect_area_conserved by assumption.
  apply Rmult_le_compat_r; [nra|]. apply le_INR, countb_le_length.
Qed.

Theorem intersect_area_full nrows ncols xll yll csz csz_area xys :
  0 < csz -> (forall xy, In xy xys -> in_extent nrows ncols xll yll csz xy) ->
  Rsum (map snd (c_intersect RR nrows ncols xll yll csz csz_area xys)) * (csz * csz) =
  INR (List.length xys) * (csz_area * csz_area).
Proof.
  intros H Hall. rewrite c_intersect_area_conserved by assumption. f_equal. f_equal.
  apply countb_all. intros xy I. apply in_extent_b_true, Hall, I.
Qed.

(* Voronoi weights do not depend on the order of the catchment cells and lie in [0, 1] *)
Theorem voronoi_perm distmax nrows ncols xll yll csz cells cells' pts q :
  pts <> [] -> (0 <= q < Z.of_nat (List.length pts))%Z -> Permutation cells cells' ->
  zn (voronoi RR distmax nrows ncols xll yll csz cells pts) q 0 =
  zn (voronoi RR distmax nrows ncols xll yll csz cells' pts) q 0.
Proof.
  intros Hp Hq P. rewrite !voronoi_weight by assumption.
  rewrite (countb_perm _ _ _ P), (Permutation_length P). reflexivity.
Qed.

Theorem voronoi_le_one distmax nrows ncols xll yll csz cells pts q :
  pts <> [] -> cells <> [] -> (0 <= q < Z.of_nat (List.length pts))%Z ->
  zn (voronoi RR distmax nrows ncols xll yll csz cells pts) q 0 <= 1.
Proof.
  intros Hp Hc Hq. rewrite voronoi_weight by assumption.
  assert (0 < INR (List.length cells)) by (apply lt_0_INR; destruct cells; [congruence|cbn; lia]).
  apply Rmult_le_reg_r with (INR (List.length cells)); [assumption|].
  unfold Rdiv. rewrite Rmult_assoc, Rinv_l by lra. rewrite Rmult_1_r, Rmult_1_l.
  apply le_INR, countb_le_length.
Qed.

(* a single point receives the whole catchment *)
Theorem voronoi_single_point distmax nrows ncols xll yll csz cells p :
  cells <> [] -> voronoi RR distmax nrows ncols xll yll csz cells [p] = [1].
Proof.
  intros Hc.
  pose proof (voronoi_length distmax nrows ncols xll yll csz cells [p] ltac:(discriminate)) as L.
  pose proof (voronoi_sum_one distmax nrows ncols xll yll csz cells [p] ltac:(discriminate) Hc) as S.
  destruct (voronoi RR distmax nrows ncols xll yll csz cells [p]) as [|a [|b l]]; cbn in L; try lia.
  cbn in S. f_equal. lra.
Qed.
