(* Theorems about Model/Summary.v (property C20), part 3: c_paretofront.
   Data with missing coordinates: the [RN] instance ([None] = NaN). *)
From Coq Require Import ZArith Bool List Reals Lra Lia.
From Hy Require Import Base.Num Gen.ConstsC20 Model.Summary Proofs.SummaryProofs.
Import ListNotations.
Open Scope R_scope.

(* "point j is strictly better than point i in this coordinate, or the difference is missing" *)
Definition better (o : Z) (p : option R * option R) : Prop :=
  match p with
  | (Some a, Some b) => 0 < IZR o * (a - b)
  | _ => True
  end.

(* strictly better in every coordinate where the difference is not missing *)
Definition dominates (o : Z) (rj ri : list (option R)) : Prop :=
  Forall (better o) (combine rj ri).

Lemma pf_coord_spec o p : pf_coord RN (nofZ RN o) p = true <-> better o p.
Proof.
  destruct p as [[a|] [b|]]; unfold pf_coord, better; cbn; try tauto.
  apply Rltb_true.
Qed.

Lemma pf_dominates_spec o rj ri : pf_dominates RN (nofZ RN o) rj ri = true <-> dominates o rj ri.
Proof.
  unfold pf_dominates, dominates. rewrite forallb_forall, Forall_forall.
  split; intros H p Hp; apply pf_coord_spec; auto.
Qed.

Lemma pf_any_spec od ri i j0 rows :
  pf_any RN od ri i j0 rows = true <->
  exists m, (m < length rows)%nat /\ (j0 + m)%nat <> i /\
            pf_dominates RN od (nth m rows []) ri = true.
Proof.
  revert j0; induction rows as [|rj rest IH]; intros j0; simpl.
  - split; [discriminate | intros (m & Hm & _); lia].
  - destruct (Nat.eqb_spec i j0) as [E|E].
    + rewrite IH. split.
      * intros (m & Hm & Hne & Hd). exists (S m). repeat split; [lia | lia | exact Hd].
      * intros (m & Hm & Hne & Hd). destruct m as [|m]; [lia|].
        exists m. repeat split; [lia | lia | exact Hd].
    + destruct (pf_dominates RN od rj ri) eqn:Ed.
      * split; auto. intros _. exists 0%nat. repeat split; [lia | lia | exact Ed].
      * rewrite IH. split.
        -- intros (m & Hm & Hne & Hd). exists (S m). repeat split; [lia | lia | exact Hd].
        -- intros (m & Hm & Hne & Hd). destruct m as [|m]; [simpl in Hd; congruence|].
           exists m. repeat split; [lia | lia | exact Hd].
Qed.

Lemma pf_loop_length od all i rows : length (pf_loop RN od all i rows) = length rows.
Proof. revert i; induction rows; intros; simpl; auto. Qed.

Lemma pf_loop_nth od all i0 rows k : (k < length rows)%nat ->
  nth k (pf_loop RN od all i0 rows) 0%Z =
  if pf_any RN od (nth k rows []) (i0 + k) 0 all then 1%Z else 0%Z.
Proof.
  revert i0 k; induction rows as [|ri rest IH]; intros i0 k Hk; simpl in Hk; [lia|].
  destruct k; simpl.
  - rewrite Nat.add_0_r. reflexivity.
  - rewrite IH by lia. replace (S i0 + k)%nat with (i0 + S k)%nat by lia. reflexivity.
Qed.

Theorem paretofront_length o data : length (paretofront RN o data) = length data.
Proof. apply pf_loop_length. Qed.

(* a point is flagged exactly when another point dominates it *)
Theorem paretofront_flag_iff o data i : (i < length data)%nat ->
  (nth i (paretofront RN o data) 0%Z = 1%Z <->
   exists j, (j < length data)%nat /\ j <> i /\ dominates o (nth j data []) (nth i data [])) /\
  (nth i (paretofront RN o data) 0%Z = 0%Z <->
   ~ exists j, (j < length data)%nat /\ j <> i /\ dominates o (nth j data []) (nth i data [])).
Proof.
  intros Hi. unfold paretofront. rewrite pf_loop_nth by exact Hi. simpl Nat.add.
  assert (S : pf_any RN (nofZ RN o) (nth i data []) i 0 data = true <->
              exists j, (j < length data)%nat /\ j <> i /\ dominates o (nth j data []) (nth i data [])).
  { rewrite pf_any_spec. split; intros (m & Hm & Hne & Hd); exists m; repeat split; auto;
      apply pf_dominates_spec; auto. }
  destruct (pf_any RN (nofZ RN o) (nth i data []) i 0 data).
  - assert (EX : exists j, (j < length data)%nat /\ j <> i /\
                   dominates o (nth j data []) (nth i data [])) by (apply S; reflexivity).
    split; [split; [intros _; exact EX | intros _; reflexivity]
           | split; [discriminate | intros H; exfalso; apply H; exact EX]].
  - assert (NEX : ~ exists j, (j < length data)%nat /\ j <> i /\
                   dominates o (nth j data []) (nth i data []))
      by (intros H; apply S in H; discriminate).
    split; [split; [discriminate | intros H; exfalso; exact (NEX H)]
           | split; [intros _; exact NEX | intros _; reflexivity]].
Qed.

(* ---------- complete data: the front is never empty ---------- *)
Lemma exists_argmax (f : nat -> R) n : (0 < n)%nat ->
  exists i, (i < n)%nat /\ forall j, (j < n)%nat -> f j <= f i.
Proof.
  induction n as [|n IH]; [lia|]. intros _.
  destruct n as [|n].
  - exists 0%nat. split; [lia|]. intros j Hj. assert (j = 0)%nat by lia. subst. lra.
  - destruct IH as (i & Hi & Hmax); [lia|].
    destruct (Rle_dec (f (S n)) (f i)) as [Hle|Hgt].
    + exists i. split; [lia|]. intros j Hj.
      destruct (Nat.eq_dec j (S n)); [subst; exact Hle | apply Hmax; lia].
    + exists (S n). split; [lia|]. intros j Hj.
      destruct (Nat.eq_dec j (S n)); [subst; lra|].
      assert (f j <= f i) by (apply Hmax; lia). lra.
Qed.

Definition complete (rows : list (list R)) : list (list (option R)) := map (map Some) rows.

Lemma complete_nth rows k : nth k (complete rows) [] = map Some (nth k rows []).
Proof. unfold complete. exact (map_nth (map Some) rows [] k). Qed.

Theorem paretofront_nonempty o rows :
  rows <> [] -> (forall r, In r rows -> r <> []) ->
  exists i, (i < length rows)%nat /\ nth i (paretofront RN o (complete rows)) 0%Z = 0%Z.
Proof.
  intros Hne Hcol.
  assert (Hn : (0 < length rows)%nat) by (destruct rows; [congruence | simpl; lia]).
  destruct (exists_argmax (fun k => IZR o * hd 0 (nth k rows [])) (length rows) Hn) as (i & Hi & Hmax).
  exists i. split; [exact Hi|].
  assert (HL : length (complete rows) = length rows) by (unfold complete; apply map_length).
  apply (proj2 (paretofront_flag_iff o (complete rows) i ltac:(lia))).
  intros (j & Hj & Hji & Hd). rewrite HL in Hj.
  rewrite !complete_nth in Hd.
  assert (Hri := Hcol _ (nth_In rows [] Hi)). assert (Hrj := Hcol _ (nth_In rows [] Hj)).
  specialize (Hmax j Hj). cbv beta in Hmax.
  destruct (nth i rows []) as [|a ra]; [congruence|].
  destruct (nth j rows []) as [|b rb]; [congruence|].
  unfold dominates in Hd. simpl in Hd. inversion Hd as [|? ? Hb _]; subst.
  simpl in Hb, Hmax. lra.
Qed.

(* ---------- reversing the orientation = negating the data ---------- *)
Definition negate (data : list (list (option R))) : list (list (option R)) :=
  map (map (nopp RN)) data.

Lemma pf_coord_neg o a b :
  pf_coord RN (nofZ RN (- o)) (a, b) = pf_coord RN (nofZ RN o) (nopp RN a, nopp RN b).
Proof.
  destruct a as [a|], b as [b|]; cbn; try reflexivity.
  rewrite opp_IZR. f_equal. ring.
Qed.

Lemma pf_dominates_neg o rj ri :
  pf_dominates RN (nofZ RN (- o)) rj ri =
  pf_dominates RN (nofZ RN o) (map (nopp RN) rj) (map (nopp RN) ri).
Proof.
  unfold pf_dominates. revert ri; induction rj as [|a rj IH]; intros [|b ri];
    cbn [combine forallb map]; auto.
  rewrite pf_coord_neg, IH. reflexivity.
Qed.

Lemma pf_any_neg o ri i j rows :
  pf_any RN (nofZ RN (- o)) ri i j rows =
  pf_any RN (nofZ RN o) (map (nopp RN) ri) i j (negate rows).
Proof.
  revert j; induction rows as [|rj rest IH]; intros j; cbn [pf_any negate map]; auto.
  fold (negate rest). rewrite pf_dominates_neg, !IH. reflexivity.
Qed.

Lemma pf_loop_neg o all i rows :
  pf_loop RN (nofZ RN (- o)) all i rows =
  pf_loop RN (nofZ RN o) (negate all) i (negate rows).
Proof.
  revert i; induction rows as [|ri rest IH]; intros i; cbn [pf_loop negate map]; auto.
  fold (negate rest). fold (negate all). rewrite pf_any_neg, IH. reflexivity.
Qed.

Theorem paretofront_reverse o data :
  paretofront RN (- o) data = paretofront RN o (negate data).
Proof. unfold paretofront. apply pf_loop_neg. Qed.

(* non-vacuity: (1,NaN) is dominated by (2,0) and (0,3) by (1,NaN) (the missing coordinate
   is skipped); (2,0) is not dominated *)
Example pareto_example :
  paretofront RN 1 [[Some 1; None]; [Some 2; Some 0]; [Some 0; Some 3]] = [1; 0; 1]%Z.
Proof.
  unfold paretofront. cbn [pf_loop pf_any Nat.eqb pf_dominates combine forallb pf_coord
    nofZ RN nsub nmul nisnan nltb n0 olift2 ocmp fst snd andb].
  repeat match goal with
  | |- context [Rltb ?a ?b] => let E := fresh in destruct (Rltb a b) eqn:E;
      [apply Rltb_true in E | apply Rltb_false in E]; try lra
  end; reflexivity.
Qed.
