(* Refinement: getcoord, c_cell2coord, c_coord2cell, c_neighbours of
   src/hydrodiy/gis/c_grid.c (as regenerated in Gen/KernelsAst.v) compute, for ALL
   inputs, what the hand-written model of Model/Grid.v computes. *)
From Coq Require Import ZArith Bool List String Lia Reals Lra.
From Coq Require Import PrimFloat.
From Hy Require Import Base.Num Base.MiniC Gen.KernelsAst Model.Grid Proofs.RefineGrid
  Proofs.GridGeomProofs.
Import ListNotations.
Open Scope string_scope.
Open Scope list_scope.
Open Scope Z_scope.

(* ================================================================== *)
(* Generic lemmas about MiniC (candidates for Base/MiniC.v)             *)
(* ================================================================== *)

(* one iteration of a loop, the fuel staying a neutral term ([Nat.pred f]):
   nested loops sharing the fuel variable are not unfolded by [cbn] *)
Lemma loop_step {T} (f : nat) (cond : state T -> result bool)
      (body : state T -> result (outcome T * state T)) (st : state T) :
  (0 < f)%nat ->
  loop f cond body st =
  match cond st with
  | Err e => Err e
  | Ok false => Ok (ONormal, st)
  | Ok true =>
      match body st with
      | Err e => Err e
      | Ok (ONormal, st') => loop (Nat.pred f) cond body st'
      | Ok (OContinue, st') => loop (Nat.pred f) cond body st'
      | Ok (OBreak, st') => Ok (ONormal, st')
      | Ok (ORet v, st') => Ok (ORet v, st')
      end
  end.
Proof. intros H. destruct f as [|f]; [lia|]. reflexivity. Qed.

(* the value of [!e] once [e] is a 0/1 value *)
Lemma b2z_eqb0 (b : bool) : (b2z b =? 0) = negb b.
Proof. destruct b; reflexivity. Qed.

(* [cbn], then fold the lazy boolean operators whose operands are evaluated *)
Ltac mcb := repeat (progress (cbn; rewrite ?truth_b2z, ?b2z_truth_b2z, ?or_ok, ?and_ok, ?b2z_eqb0)).

(* state merging as [merge_if] of Base/MiniC.v, but the anti-unification falls back
   to [if b then A else B] on the smallest subterms where merging the heads would be
   ill-typed (e.g. [-1] against [a + b]: [Zneg] and [Z.add a] have different types) *)
Ltac merge_terms_t b A B :=
  lazymatch A with
  | B => A
  | ?f ?x =>
      lazymatch B with
      | ?g ?y =>
          match constr:(Set) with
          | _ => let fg := merge_terms_t b f g in
                 let xy := merge_terms_t b x y in
                 constr:(fg xy)
          | _ => constr:(if b then A else B)
          end
      | _ => constr:(if b then A else B)
      end
  | _ => constr:(if b then A else B)
  end.
Ltac merge_if_t :=
  match goal with
  | |- context[if ?b then Ok ?A else Ok ?B] =>
      let t := merge_terms_t b A B in
      replace (if b then Ok A else Ok B) with (Ok t) by (destruct b; reflexivity)
  end.

(* [norm_state] without unfolding fixpoints on symbolic states (continuations under
   binders stay readable) *)
Ltac norm_state_c :=
  cbn [set_i set_f set_ai set_af aupd s_i s_f s_ai s_af String.eqb Ascii.eqb Bool.eqb].

(* ================================================================== *)

Section Refine.
Context {T : Type} (N : NumOps T) (X : NumLit T).

(* the literal 0.5 of the C text is the model's 1/(1+1) *)
Definition half_law : Prop :=
  nlit X (0x1.0000000000000p-1)%float 1 2 = nhalf N.

(* getcoord (helper of c_cell2coord and c_slice): writes the model's centre of cell idx
   into coord[0..1], leaves the rest of the buffer, returns 0.  ncols <> 0 is what every
   caller guarantees (see getcoord_ncols0). *)
Theorem refine_getcoord n nrows ncols xll yll csz idx a b rest :
  half_law -> ncols <> 0 ->
  exec_fun N X program (S (S n)) "getcoord"
    [AVI nrows; AVI ncols; AVF xll; AVF yll; AVF csz; AVI idx; AVArrF (a :: b :: rest)]
  = Ok (RI 0, [VArrF (fst (getcoord N nrows ncols xll yll csz idx)
                      :: snd (getcoord N nrows ncols xll yll csz idx) :: rest)]).
Proof.
  intros Hh H. remember (S n) as m eqn:Hm. cbn. subst m. rewrite getnxy_run by assumption. cbn.
  unfold half_law in Hh. rewrite Hh. reflexivity.
Qed.

(* getcoord with ncols = 0 divides by zero (idxcell % ncols in getnxy).  Not reachable
   from the kernels: c_cell2coord and c_slice call getcoord only with a cell number
   satisfying 0 <= idxcell < nrows*ncols, which forces ncols <> 0. *)
Lemma getcoord_ncols0 n nrows xll yll csz idx coord :
  exec_fun N X program (S (S n)) "getcoord"
    [AVI nrows; AVI 0; AVF xll; AVF yll; AVF csz; AVI idx; AVArrF coord]
  = Err DivZero.
Proof. reflexivity. Qed.

(* ---------------- c_cell2coord ---------------- *)

Definition cc_out (nrows ncols : Z) (xll yll csz : T) (idx : list Z) : list T :=
  flat_map (fun c => let (x, y) := cell2coord N nrows ncols xll yll csz c in [x; y]) idx.

Definition cc_state nrows ncols (xll yll csz : T) (idx : list Z) (k : nat) icell
           (xyl xycoords : list T) : state T :=
  {| s_i := [("nrows", nrows); ("ncols", ncols); ("nval", zlen idx); ("ierr", 0);
             ("i", Z.of_nat k); ("icell", icell)];
     s_f := [("xll", xll); ("yll", yll); ("csz", csz); ("nan", nnan N);
             ("zero", nlit X 0%float 0 1)];
     s_ai := [("idxcell", idx)];
     s_af := [("xycoords", xycoords); ("xy", xyl)] |}.

Definition cc_inv nrows ncols xll yll csz idx (k : nat) (st : state T) : Prop :=
  exists done todo jtodo icell a b,
    idx = done ++ todo /\ List.length done = k /\
    List.length jtodo = (2 * List.length todo)%nat /\
    st = cc_state nrows ncols xll yll csz idx k icell [a; b]
           (cc_out nrows ncols xll yll csz done ++ jtodo).

Definition cc_post nrows ncols xll yll csz idx (r : outcome T * state T) : Prop :=
  exists icell a b,
    r = (ONormal, cc_state nrows ncols xll yll csz idx (List.length idx) icell [a; b]
                    (cc_out nrows ncols xll yll csz idx)).

Lemma cc_out_app nrows ncols xll yll csz a b :
  cc_out nrows ncols xll yll csz (a ++ b)
  = cc_out nrows ncols xll yll csz a ++ cc_out nrows ncols xll yll csz b.
Proof. unfold cc_out. apply flat_map_app. Qed.

Lemma cc_out_length nrows ncols xll yll csz l :
  List.length (cc_out nrows ncols xll yll csz l) = (2 * List.length l)%nat.
Proof.
  induction l as [|c l IH]; [reflexivity|]. unfold cc_out in *. cbn [flat_map].
  destruct (cell2coord N nrows ncols xll yll csz c). cbn [app List.length]. rewrite IH. lia.
Qed.

Lemma cc_out_snoc nrows ncols xll yll csz l c :
  cc_out nrows ncols xll yll csz (l ++ [c]) =
  cc_out nrows ncols xll yll csz l ++
    [fst (cell2coord N nrows ncols xll yll csz c); snd (cell2coord N nrows ncols xll yll csz c)].
Proof.
  rewrite cc_out_app. unfold cc_out at 2. cbn [flat_map].
  destruct (cell2coord N nrows ncols xll yll csz c). reflexivity.
Qed.

(* c_cell2coord: for EVERY grid shape and geometry (NaN included), every list of cell
   numbers (valid or not) and every initial content of the output buffer (two entries
   per cell), the translated kernel returns 0, leaves idxcell untouched and fills
   xycoords with the model's (x, y) pairs (NaN pair for an invalid cell number). *)
Theorem refine_cell2coord nrows ncols xll yll csz idx junk n :
  half_law ->
  List.length junk = (2 * List.length idx)%nat ->
  (List.length idx < n)%nat ->
  exec_fun N X program (S n) "c_cell2coord"
    [AVI nrows; AVI ncols; AVF xll; AVF yll; AVF csz; AVI (zlen idx); AVArrI idx; AVArrF junk]
  = Ok (RI 0, [VArrI idx; VArrF (cc_out nrows ncols xll yll csz idx)]).
Proof.
  intros Hh HJ Hn. cbn. norm_state.
  loop_with (cc_inv nrows ncols xll yll csz idx) (cc_post nrows ncols xll yll csz idx)
            (List.length idx).
  - intros k st (done & todo & jtodo & icell & a & b & Hidx & Hk & Hj & ->).
    assert (Hlen : List.length idx = (k + List.length todo)%nat)
      by (rewrite Hidx, app_length; lia).
    split; [lia|].
    unfold cc_state. cbn. rewrite zlen_eq.
    destruct todo as [|c todo].
    + replace (Z.of_nat k <? Z.of_nat (List.length idx)) with false
        by (symmetry; apply Z.ltb_ge; cbn in Hlen; lia).
      cbn. exists icell, a, b. unfold cc_state. rewrite zlen_eq.
      destruct jtodo; [|discriminate]. rewrite app_nil_r in *. subst idx k. reflexivity.
    + replace (Z.of_nat k <? Z.of_nat (List.length idx)) with true
        by (symmetry; apply Z.ltb_lt; cbn in Hlen; lia).
      subst idx. cbn. rewrite (zget_app done todo c) by lia. cbn.
      rewrite ?truth_b2z, ?b2z_truth_b2z, ?or_ok, ?truth_b2z.
      destruct jtodo as [|j0 [|j1 jtodo]]; try (cbn in Hj; lia).
      set (O := cc_out nrows ncols xll yll csz done).
      assert (HP : 2 * Z.of_nat k = Z.of_nat (List.length O))
        by (unfold O; rewrite cc_out_length; lia).
      assert (HP1 : forall v, 2 * Z.of_nat k + 1 = Z.of_nat (List.length (O ++ [v])))
        by (intros v; unfold O; rewrite app_length, cc_out_length; cbn; lia).
      assert (Hcell : cell2coord N nrows ncols xll yll csz c =
                if (c <? 0) || (nrows * ncols <=? c) then (nnan N, nnan N)
                else getcoord N nrows ncols xll yll csz c).
      { unfold cell2coord, valid_cell. destruct ((c <? 0) || (nrows * ncols <=? c)); reflexivity. }
      destruct ((c <? 0) || (nrows * ncols <=? c)) eqn:Hv.
      * cbn. rewrite (zset_app _ (j1 :: jtodo)) by exact HP. cbn.
        replace (O ++ nnan N :: j1 :: jtodo)
          with ((O ++ [nnan N]) ++ j1 :: jtodo) by (rewrite <- app_assoc; reflexivity).
        rewrite (zset_app _ jtodo) by apply HP1.
        cbn.
        exists (done ++ [c]), todo, jtodo, c, a, b.
        split; [rewrite <- app_assoc; reflexivity|].
        split; [rewrite app_length; cbn; lia|].
        split; [cbn in Hj; lia|].
        norm_state. unfold cc_state. rewrite zlen_eq.
        rewrite cc_out_snoc, Hcell. cbn [fst snd]. fold O.
        rewrite <- !app_assoc. cbn [app].
        replace (Z.of_nat k + 1) with (Z.of_nat (S k)) by lia. reflexivity.
      * assert (Hnc : ncols <> 0) by (apply orb_false_iff in Hv; destruct Hv as [H1 H2];
                               apply Z.ltb_ge in H1; apply Z.leb_gt in H2; nia).
        cbn. destruct n as [|[|n']]; [lia|cbn in Hlen; lia|].
        rewrite refine_getcoord by assumption. cbn.
        rewrite (zset_app _ (j1 :: jtodo)) by exact HP. cbn.
        match goal with |- context[zset (O ++ ?v :: j1 :: jtodo)] =>
          replace (O ++ v :: j1 :: jtodo) with ((O ++ [v]) ++ j1 :: jtodo)
            by (rewrite <- app_assoc; reflexivity) end.
        rewrite (zset_app _ jtodo) by apply HP1.
        cbn.
        exists (done ++ [c]), todo, jtodo, c,
               (fst (getcoord N nrows ncols xll yll csz c)),
               (snd (getcoord N nrows ncols xll yll csz c)).
        split; [rewrite <- app_assoc; reflexivity|].
        split; [rewrite app_length; cbn; lia|].
        split; [cbn in Hj; lia|].
        norm_state. unfold cc_state. rewrite zlen_eq.
        rewrite cc_out_snoc, Hcell. fold O.
        rewrite <- !app_assoc. cbn [app].
        replace (Z.of_nat k + 1) with (Z.of_nat (S k)) by lia. reflexivity.
  - exists [], idx, junk, 0, (n0 N), (n0 N). repeat split; try assumption.
  - lia.
  - destruct HL as (r & -> & icell & a & b & ->). cbn. reflexivity.
Qed.


(* ---------------- c_neighbours ---------------- *)

Lemma getnxy_run' n ncols idx a b :
  (0 < n)%nat -> ncols <> 0 ->
  exec_fun N X program n "getnxy" [AVI ncols; AVI idx; AVArrI [a; b]]
  = Ok (RI 0, [VArrI [getnx ncols idx; getny ncols idx]]).
Proof. intros Hn H. destruct n as [|n]; [lia|]. apply getnxy_run; assumption. Qed.

(* body and step of the inner loop (over ix), copied from c_neighbours_def *)
Notation nb_inner_body :=
  (SSeq (SSetI "k" (IBin IAdd (IBin IAdd (IConst 1) (IVar "ix"))
                     (IBin IMul (IBin IAdd (IConst 1) (IVar "iy")) (IConst 3))))
  (SSeq (SIf (IAnd (ICmp CEq (IVar "ix") (IConst 0)) (ICmp CEq (IVar "iy") (IConst 0)))
             (SSeq (SStoreI "neighbours" (IVar "k") (IUn INeg (IConst 1))) SContinue) SSkip)
  (SSeq (SSetI "nx" (IBin IAdd (IVar "nx0") (IVar "ix")))
  (SSeq (SSetI "ny" (IBin IAdd (IVar "ny0") (IVar "iy")))
        (SIf (IOr (IOr (IOr (ICmp CLt (IVar "nx") (IConst 0))
                            (ICmp CGt (IVar "nx") (IBin ISub (IVar "ncols") (IConst 1))))
                       (ICmp CLt (IVar "ny") (IConst 0)))
                  (ICmp CGt (IVar "ny") (IBin ISub (IVar "nrows") (IConst 1))))
             (SStoreI "neighbours" (IVar "k") (IUn INeg (IConst 1)))
             (SStoreI "neighbours" (IVar "k")
                (IBin IAdd (IBin IMul (IVar "ny") (IVar "ncols")) (IVar "nx")))))))) (only parsing).

Notation nb_inner_step := (SSetI "ix" (IBin IAdd (IVar "ix") (IConst 1))) (only parsing).

Notation nb_state nrows ncols idx ix iy nx0 nx ny0 ny k nbl nxy :=
  (@mkState T
     [("nrows", nrows); ("ncols", ncols); ("idxcell", idx); ("ix", ix); ("iy", iy);
      ("nx0", nx0); ("nx", nx); ("ny0", ny0); ("ny", ny); ("k", k)]
     []
     [("neighbours", nbl); ("nxy", nxy)]
     []) (only parsing).

(* the three slots of row iy receive the model's values *)
Definition row_upd (nrows ncols nx0 ny0 iy : Z) (l : list Z) : list Z :=
  match l with
  | [a0; a1; a2; a3; a4; a5; a6; a7; a8] =>
      let v := map (neighbour_at nrows ncols nx0 ny0) [(-1, iy); (0, iy); (1, iy)] in
      if iy =? -1 then v ++ [a3; a4; a5; a6; a7; a8]
      else if iy =? 0 then [a0; a1; a2] ++ v ++ [a6; a7; a8]
      else [a0; a1; a2; a3; a4; a5] ++ v
  | _ => l
  end.

Ltac nb_iter := rewrite loop_step by lia; mcb; norm_state; try merge_if_t; mcb; norm_state.

Lemma nb_inner_run (callf : callee T) (f g : nat) nrows ncols idx iy nx0 ny0 nx ny k nxy
      a0 a1 a2 a3 a4 a5 a6 a7 a8 :
  iy = -1 \/ iy = 0 \/ iy = 1 -> (3 < f)%nat ->
  loop f (cond_of N X (ICmp CLt (IVar "ix") (IConst 2)))
    (for_body (exec N X callf g nb_inner_body) (exec N X callf g nb_inner_step))
    (nb_state nrows ncols idx (-1) iy nx0 nx ny0 ny k [a0; a1; a2; a3; a4; a5; a6; a7; a8] nxy)
  = Ok (ONormal,
        nb_state nrows ncols idx 2 iy nx0 (nx0 + 1) ny0 (ny0 + iy) (1 + 1 + (1 + iy) * 3)
          (row_upd nrows ncols nx0 ny0 iy [a0; a1; a2; a3; a4; a5; a6; a7; a8]) nxy).
Proof.
  intros Hiy Hf.
  destruct Hiy as [ Hiy | [ Hiy | Hiy ] ]; subst iy.
  - nb_iter. nb_iter. nb_iter. nb_iter. reflexivity.
  - nb_iter. nb_iter. nb_iter. nb_iter. reflexivity.
  - nb_iter. nb_iter. nb_iter. nb_iter. reflexivity.
Qed.

Theorem refine_neighbours_ok nrows ncols idx nb n :
  List.length nb = 9%nat ->
  valid_cell nrows ncols idx = true ->
  (3 < n)%nat ->
  exec_fun N X program (S n) "c_neighbours" [AVI nrows; AVI ncols; AVI idx; AVArrI nb]
  = Ok (RI 0, [VArrI (neighbours_raw nrows ncols idx)]).
Proof.
  intros HL Hv Hn.
  do 10 (destruct nb as [|? nb]; try discriminate HL).
  unfold valid_cell in Hv. apply negb_true_iff in Hv.
  assert (Hnc : ncols <> 0) by (apply orb_false_iff in Hv; destruct Hv as [H1 H2];
                               apply Z.ltb_ge in H1; apply Z.leb_gt in H2; nia).
  remember (neighbours_raw nrows ncols idx) as R eqn:HR.
  cbn. rewrite ?truth_b2z, ?b2z_truth_b2z, ?or_ok. rewrite Hv. cbn.
  rewrite getnxy_run' by (assumption || lia). cbn [bind snd fst]. norm_state. cbn. norm_state.
  rewrite loop_step by lia. cbn. norm_state.
  rewrite nb_inner_run by lia. unfold row_upd. cbn.
  rewrite loop_step by lia. cbn. norm_state.
  rewrite nb_inner_run by lia. unfold row_upd. cbn.
  rewrite loop_step by lia. cbn. norm_state.
  rewrite nb_inner_run by lia. unfold row_upd. cbn.
  rewrite loop_step by lia. cbn. norm_state.
  subst R. reflexivity.
Qed.

(* invalid cell number: error return (the code depends on __LINE__), buffer untouched *)
Theorem refine_neighbours_err nrows ncols idx nb n :
  valid_cell nrows ncols idx = false ->
  exists code, 0 < code /\
    exec_fun N X program (S n) "c_neighbours" [AVI nrows; AVI ncols; AVI idx; AVArrI nb]
    = Ok (RI code, [VArrI nb]).
Proof.
  intros Hv. unfold valid_cell in Hv. apply negb_false_iff in Hv.
  cbn. rewrite ?truth_b2z, ?b2z_truth_b2z, ?or_ok. rewrite Hv. cbn.
  eexists. split; [|reflexivity]. lia.
Qed.

(* c_neighbours against the model [neighbours]: for EVERY grid shape, cell number and
   initial content of the 9-slot buffer *)
Theorem refine_neighbours nrows ncols idx nb n :
  List.length nb = 9%nat ->
  (3 < n)%nat ->
  match neighbours nrows ncols idx with
  | Some l =>
      exec_fun N X program (S n) "c_neighbours" [AVI nrows; AVI ncols; AVI idx; AVArrI nb]
      = Ok (RI 0, [VArrI l])
  | None =>
      exists code, 0 < code /\
        exec_fun N X program (S n) "c_neighbours" [AVI nrows; AVI ncols; AVI idx; AVArrI nb]
        = Ok (RI code, [VArrI nb])
  end.
Proof.
  intros HL Hn. unfold neighbours. destruct (valid_cell nrows ncols idx) eqn:Hv.
  - apply refine_neighbours_ok; assumption.
  - apply refine_neighbours_err; assumption.
Qed.

(* ---------------- c_coord2cell ---------------- *)

(* Laws linking libm's floor (as a double: [next X "floor"]), the comparisons with
   (double)ncols / (double)nrows, the cast (long long) and the model's [nfloor].
   [cmax] bounds the grid dimensions the laws are claimed for. *)
Record floor_laws (cmax : Z) : Type := mkFloorLaws {
  fl : T -> T;
  fl_next : forall q, next X "floor" [q] = Some (fl q);
  fl_in : forall q c z, c <= cmax -> nfloor N q = Some z -> 0 <= z < c ->
      nleb N (nofZ N 0) (fl q) = true /\ nltb N (fl q) (nofZ N c) = true /\
      ntrunc N (fl q) = Some z /\ in_width W64 z = true;
  fl_out : forall q c, c <= cmax ->
      nleb N (nofZ N 0) (fl q) = true -> nltb N (fl q) (nofZ N c) = true ->
      exists z, nfloor N q = Some z /\ 0 <= z < c }.

Section Coord2cell.
Variable cmax : Z.
Variable FL : floor_laws cmax.
Notation flo := (fl cmax FL).

Definition flat_xy (pts : list (T * T)) : list T :=
  flat_map (fun p => [fst p; snd p]) pts.

Lemma flat_xy_app a b : flat_xy (a ++ b) = flat_xy a ++ flat_xy b.
Proof. unfold flat_xy. apply flat_map_app. Qed.

Lemma flat_xy_length l : List.length (flat_xy l) = (2 * List.length l)%nat.
Proof. induction l as [|p l IH]; [reflexivity|]. unfold flat_xy in *. cbn [flat_map app List.length]. rewrite IH. lia. Qed.

Definition c2c_test nrows ncols (qx qy : T) : bool :=
  nleb N (nofZ N 0) (flo qx) && nltb N (flo qx) (nofZ N ncols)
  && nleb N (nofZ N 0) (flo qy) && nltb N (flo qy) (nofZ N nrows).

Lemma c2c_cases nrows ncols xll yll csz x y :
  nrows <= cmax -> ncols <= cmax ->
  let qx := ndiv N (nsub N x xll) csz in
  let qy := ndiv N (nsub N y yll) csz in
  (c2c_test nrows ncols qx qy = true /\
   exists zx zy, ntrunc N (flo qx) = Some zx /\ ntrunc N (flo qy) = Some zy /\
     -9223372036854775808 <= zx <= 9223372036854775807 /\
     -9223372036854775808 <= zy <= 9223372036854775807 /\
     0 <= zx < ncols /\ 0 <= zy < nrows /\
     coord2cell N nrows ncols xll yll csz (x, y) = (nrows - 1 - zy) * ncols + zx)
  \/ (c2c_test nrows ncols qx qy = false /\
      coord2cell N nrows ncols xll yll csz (x, y) = -1).
Proof.
  intros Hr Hc qx qy.
  assert (Hw : forall z, in_width W64 z = true ->
                 -9223372036854775808 <= z <= 9223372036854775807).
  { intros z H. unfold in_width in H. apply andb_true_iff in H. destruct H as [H1 H2].
    apply Z.leb_le in H1. apply Z.leb_le in H2. lia. }
  destruct (c2c_test nrows ncols qx qy) eqn:Ht.
  - left. split; [reflexivity|]. unfold c2c_test in Ht.
    apply andb_true_iff in Ht. destruct Ht as [Ht H4].
    apply andb_true_iff in Ht. destruct Ht as [Ht H3].
    apply andb_true_iff in Ht. destruct Ht as [H1 H2].
    destruct (fl_out cmax FL qx ncols Hc H1 H2) as (zx & Hfx & Hzx).
    destruct (fl_out cmax FL qy nrows Hr H3 H4) as (zy & Hfy & Hzy).
    destruct (fl_in cmax FL qx ncols zx Hc Hfx Hzx) as (_ & _ & Htx & Hwx).
    destruct (fl_in cmax FL qy nrows zy Hr Hfy Hzy) as (_ & _ & Hty & Hwy).
    exists zx, zy. repeat split; try assumption; try (apply Hw; assumption); try lia.
    unfold coord2cell. cbn [fst snd]. fold qx qy. rewrite Hfx, Hfy. cbn zeta.
    replace (zx <? 0) with false by (symmetry; apply Z.ltb_ge; lia).
    replace (ncols <=? zx) with false by (symmetry; apply Z.leb_gt; lia).
    replace (nrows - 1 - zy <? 0) with false by (symmetry; apply Z.ltb_ge; lia).
    replace (nrows <=? nrows - 1 - zy) with false by (symmetry; apply Z.leb_gt; lia).
    reflexivity.
  - right. split; [reflexivity|].
    unfold coord2cell. cbn [fst snd]. fold qx qy.
    destruct (nfloor N qx) as [zx|] eqn:Hfx; [|reflexivity].
    destruct (nfloor N qy) as [zy|] eqn:Hfy; [|reflexivity].
    cbn zeta.
    destruct ((zx <? 0) || (ncols <=? zx) || (nrows - 1 - zy <? 0) || (nrows <=? nrows - 1 - zy))
      eqn:Hcnd; [reflexivity|exfalso].
    apply orb_false_iff in Hcnd. destruct Hcnd as [Hcnd C4].
    apply orb_false_iff in Hcnd. destruct Hcnd as [Hcnd C3].
    apply orb_false_iff in Hcnd. destruct Hcnd as [C1 C2].
    apply Z.ltb_ge in C1. apply Z.leb_gt in C2. apply Z.ltb_ge in C3. apply Z.leb_gt in C4.
    destruct (fl_in cmax FL qx ncols zx Hc Hfx) as (H1 & H2 & _); [lia|].
    destruct (fl_in cmax FL qy nrows zy Hr Hfy) as (H3 & H4 & _); [lia|].
    unfold c2c_test in Ht. rewrite H1, H2, H3, H4 in Ht. discriminate Ht.
Qed.

Definition c2_state nrows ncols (xll yll csz : T) (pts : list (T * T)) (k : nat)
           (nx ny : Z) (fx fy : T) (out : list Z) : state T :=
  {| s_i := [("nrows", nrows); ("ncols", ncols); ("nval", zlen pts); ("ierr", 0);
             ("i", Z.of_nat k); ("nx", nx); ("ny", ny)];
     s_f := [("xll", xll); ("yll", yll); ("csz", csz); ("fx", fx); ("fy", fy)];
     s_ai := [("idxcell", out)];
     s_af := [("xycoords", flat_xy pts)] |}.

Definition c2_inv nrows ncols xll yll csz pts (k : nat) (st : state T) : Prop :=
  exists done todo jtodo nx ny fx fy,
    pts = done ++ todo /\ List.length done = k /\
    List.length jtodo = List.length todo /\
    st = c2_state nrows ncols xll yll csz pts k nx ny fx fy
           (map (coord2cell N nrows ncols xll yll csz) done ++ jtodo).

Definition c2_post nrows ncols xll yll csz pts (r : outcome T * state T) : Prop :=
  exists nx ny fx fy,
    r = (ONormal, c2_state nrows ncols xll yll csz pts (List.length pts) nx ny fx fy
                    (map (coord2cell N nrows ncols xll yll csz) pts)).

Theorem refine_coord2cell nrows ncols xll yll csz pts junk n :
  nrows <= cmax -> ncols <= cmax ->
  List.length junk = List.length pts ->
  (List.length pts < n)%nat ->
  exec_fun N X program (S n) "c_coord2cell"
    [AVI nrows; AVI ncols; AVF xll; AVF yll; AVF csz; AVI (zlen pts);
     AVArrF (flat_xy pts); AVArrI junk]
  = Ok (RI 0, [VArrF (flat_xy pts);
               VArrI (map (coord2cell N nrows ncols xll yll csz) pts)]).
Proof.
  intros Hr Hc HJ Hn. cbn. norm_state.
  loop_with (c2_inv nrows ncols xll yll csz pts) (c2_post nrows ncols xll yll csz pts)
            (List.length pts).
  - intros k st (done & todo & jtodo & nx & ny & fx & fy & Hpts & Hk & Hj & ->).
    assert (Hlen : List.length pts = (k + List.length todo)%nat)
      by (rewrite Hpts, app_length; lia).
    split; [lia|].
    unfold c2_state. cbn. rewrite zlen_eq.
    destruct todo as [|[x y] todo].
    + replace (Z.of_nat k <? Z.of_nat (List.length pts)) with false
        by (symmetry; apply Z.ltb_ge; cbn in Hlen; lia).
      cbn. exists nx, ny, fx, fy. unfold c2_state. rewrite zlen_eq.
      destruct jtodo; [|discriminate]. rewrite app_nil_r in *. subst pts k. reflexivity.
    + replace (Z.of_nat k <? Z.of_nat (List.length pts)) with true
        by (symmetry; apply Z.ltb_lt; cbn in Hlen; lia).
      destruct jtodo as [|j0 jtodo]; [cbn in Hj; lia|].
      set (F := flat_xy pts) in *.
      assert (HF : F = flat_xy done ++ x :: y :: flat_xy todo)
        by (unfold F; rewrite Hpts, flat_xy_app; reflexivity).
      assert (HP : 2 * Z.of_nat k = Z.of_nat (List.length (flat_xy done)))
        by (rewrite flat_xy_length; lia).
      set (O := map (coord2cell N nrows ncols xll yll csz) done).
      assert (HO : Z.of_nat k = Z.of_nat (List.length O))
        by (unfold O; rewrite map_length; lia).
      cbn.
      replace (zget F (2 * Z.of_nat k)) with (Some x)
        by (rewrite HF; symmetry; apply zget_app; exact HP).
      cbn. rewrite (fl_next cmax FL). cbn.
      replace (zget F (2 * Z.of_nat k + 1)) with (Some y)
        by (rewrite HF, (zget_app_off _ _ _ 1) by lia; reflexivity).
      cbn. rewrite (fl_next cmax FL). mcb.
      set (qx := ndiv N (nsub N x xll) csz). set (qy := ndiv N (nsub N y yll) csz).
      fold (c2c_test nrows ncols qx qy). norm_state.
      pose proof (c2c_cases nrows ncols xll yll csz x y Hr Hc) as Hcases.
      cbv zeta in Hcases. fold qx qy in Hcases.
      destruct Hcases as [(Ht & zx & zy & Htx & Hty & Hwx & Hwy & Hzx & Hzy & Hcc)|(Ht & Hcc)];
        rewrite Ht; cbn [negb].
      * cbn. norm_state_c. rewrite Htx. cbn. zb. cbn. norm_state_c. rewrite Hty. cbn. zb. mcb.
        norm_state_c. zb. cbn.
        rewrite (zset_app O jtodo j0) by exact HO. cbn. norm_state_c.
        exists (done ++ [(x, y)]), todo, jtodo, zx, (nrows - 1 - zy), (flo qx), (flo qy).
        split; [rewrite Hpts, <- app_assoc; reflexivity|].
        split; [rewrite app_length; cbn; lia|].
        split; [cbn in Hj; lia|].
        unfold c2_state. rewrite zlen_eq. fold F.
        rewrite map_app. cbn [map]. rewrite Hcc. fold O.
        rewrite <- app_assoc. cbn [app].
        replace (Z.of_nat k + 1) with (Z.of_nat (S k)) by lia. reflexivity.
      * cbn. rewrite (zset_app O jtodo j0) by exact HO. cbn. norm_state_c.
        exists (done ++ [(x, y)]), todo, jtodo, nx, ny, (flo qx), (flo qy).
        split; [rewrite Hpts, <- app_assoc; reflexivity|].
        split; [rewrite app_length; cbn; lia|].
        split; [cbn in Hj; lia|].
        unfold c2_state. rewrite zlen_eq. fold F.
        rewrite map_app. cbn [map]. rewrite Hcc. fold O.
        rewrite <- app_assoc. cbn [app].
        replace (Z.of_nat k + 1) with (Z.of_nat (S k)) by lia. reflexivity.
  - exists [], pts, junk, 0, 0, (nofZ N 0), (nofZ N 0). repeat split; try assumption.
  - lia.
  - destruct HL as (r & -> & nx & ny & fx & fy & ->). cbn. reflexivity.
Qed.

(* the same theorem on the raw buffers, as the wrapper passes them: idxcell of length
   nval, xycoords of length 2*nval (an (nval, 2) C-contiguous array) *)
Fixpoint pairs (l : list T) : list (T * T) :=
  match l with
  | a :: b :: r => (a, b) :: pairs r
  | _ => []
  end.

Lemma flat_xy_pairs (k : nat) : forall l : list T,
  List.length l = (2 * k)%nat -> flat_xy (pairs l) = l /\ List.length (pairs l) = k.
Proof.
  induction k as [|k IH]; intros l H.
  - destruct l; [split; reflexivity|discriminate H].
  - destruct l as [|a [|b r]]; cbn [List.length] in H; try lia.
    destruct (IH r) as [E L]; [lia|].
    cbn [pairs List.length]. split; [|rewrite L; reflexivity].
    unfold flat_xy in *. cbn [flat_map fst snd app]. rewrite E. reflexivity.
Qed.

Theorem refine_coord2cell_raw nrows ncols xll yll csz xy junk n :
  nrows <= cmax -> ncols <= cmax ->
  List.length xy = (2 * List.length junk)%nat ->
  (List.length junk < n)%nat ->
  exec_fun N X program (S n) "c_coord2cell"
    [AVI nrows; AVI ncols; AVF xll; AVF yll; AVF csz; AVI (zlen junk); AVArrF xy; AVArrI junk]
  = Ok (RI 0, [VArrF xy; VArrI (map (coord2cell N nrows ncols xll yll csz) (pairs xy))]).
Proof.
  intros Hr Hc HL Hn. destruct (flat_xy_pairs (List.length junk) xy HL) as [E L].
  assert (Hn' : (List.length (pairs xy) < n)%nat) by (rewrite L; exact Hn).
  pose proof (refine_coord2cell nrows ncols xll yll csz (pairs xy) junk n Hr Hc (eq_sym L) Hn')
    as H.
  rewrite E in H. rewrite (zlen_eq (pairs xy)), L, <- zlen_eq in H. exact H.
Qed.

(* FINDING (wrapper): c_hydrodiy_gis.coord2cell does not assert xycoords.shape[1] == 2
   (cell2coord and cell2rowcol do).  With an (nval, 1) array the kernel reads
   xycoords[2*i+1] outside the buffer: here nval = 1, one double in the buffer. *)
Lemma coord2cell_short_buffer_oob nrows ncols xll yll csz x j n :
  (0 < n)%nat ->
  exec_fun N X program (S n) "c_coord2cell"
    [AVI nrows; AVI ncols; AVF xll; AVF yll; AVF csz; AVI 1; AVArrF [x]; AVArrI [j]]
  = Err (OOB "xycoords" 1).
Proof.
  intros Hn. cbn. norm_state. rewrite loop_step by lia. cbn.
  rewrite (fl_next cmax FL). cbn. reflexivity.
Qed.

End Coord2cell.

End Refine.

(* ================================================================== *)
(* Instances: the laws hold over the reals ([RR]/[XRR]) and over the     *)
(* reals with a missing value ([RN]/[XRN], None = NaN)                   *)
(* ================================================================== *)

Lemma half_law_RR : half_law RR XRR.
Proof. unfold half_law, nhalf. cbn. unfold lit_R. field. Qed.

Lemma half_law_RN : half_law RN XRN.
Proof. unfold half_law, nhalf. cbn. unfold lit_R. f_equal; try field. Qed.

(* binary64: 0.5 = 1/(1+1) exactly *)
Lemma half_law_F64 : half_law F64 XF64.
Proof. reflexivity. Qed.

(* 2^63: the grid dimensions are long long *)
Definition cmax64 : Z := 9223372036854775808.

Lemma Int_part_IZR z : Int_part (IZR z) = z.
Proof. apply floor_unique. lra. Qed.

Definition fl_RR (q : R) : R := IZR (Int_part q).

Lemma fl_RR_in q c z :
  c <= cmax64 -> Int_part q = z -> 0 <= z < c ->
  Rleb (IZR 0) (fl_RR q) = true /\ Rltb (fl_RR q) (IZR c) = true /\
  R_trunc (fl_RR q) = Some z /\ in_width W64 z = true.
Proof.
  intros Hc Hf Hz. unfold fl_RR. rewrite Hf. repeat split.
  - apply Rleb_true. apply IZR_le. lia.
  - apply Rltb_true. apply IZR_lt. lia.
  - unfold R_trunc. destruct (Rle_dec 0 (IZR z)) as [_|Hn].
    + rewrite Int_part_IZR. reflexivity.
    + exfalso. apply Hn. apply (IZR_le 0 z). lia.
  - unfold in_width, cmax64 in *. apply andb_true_iff; split; apply Z.leb_le; lia.
Qed.

Lemma fl_RR_out q c :
  Rleb (IZR 0) (fl_RR q) = true -> Rltb (fl_RR q) (IZR c) = true ->
  0 <= Int_part q < c.
Proof.
  unfold fl_RR. intros H1 H2. apply Rleb_true in H1. apply Rltb_true in H2.
  apply le_IZR in H1. apply lt_IZR in H2. lia.
Qed.

Definition floor_laws_RR : floor_laws RR XRR cmax64.
Proof.
  refine (mkFloorLaws RR XRR cmax64 fl_RR _ _ _).
  - intros q. reflexivity.
  - intros q c z Hc Hf Hz. cbn in Hf. unfold R_floor in Hf. injection Hf as Hf.
    exact (fl_RR_in q c z Hc Hf Hz).
  - intros q c Hc H1 H2. exists (Int_part q). split; [reflexivity|].
    exact (fl_RR_out q c H1 H2).
Defined.

Definition fl_RN (q : option R) : option R :=
  match q with Some x => Some (fl_RR x) | None => None end.

Definition floor_laws_RN : floor_laws RN XRN cmax64.
Proof.
  refine (mkFloorLaws RN XRN cmax64 fl_RN _ _ _).
  - intros [x|]; reflexivity.
  - intros [x|] c z Hc Hf Hz; cbn in Hf; [|discriminate Hf].
    unfold R_floor in Hf. injection Hf as Hf.
    exact (fl_RR_in x c z Hc Hf Hz).
  - intros [x|] c Hc H1 H2; [|discriminate H1].
    exists (Int_part x). split; [reflexivity|].
    exact (fl_RR_out x c H1 H2).
Defined.

(* ---- the refinement theorems instantiated ---- *)

Theorem refine_cell2coord_RR nrows ncols (xll yll csz : R) idx junk n :
  List.length junk = (2 * List.length idx)%nat ->
  (List.length idx < n)%nat ->
  exec_fun RR XRR program (S n) "c_cell2coord"
    [AVI nrows; AVI ncols; AVF xll; AVF yll; AVF csz; AVI (zlen idx); AVArrI idx; AVArrF junk]
  = Ok (RI 0, [VArrI idx; VArrF (cc_out RR nrows ncols xll yll csz idx)]).
Proof. apply refine_cell2coord. exact half_law_RR. Qed.

Theorem refine_cell2coord_RN nrows ncols (xll yll csz : option R) idx junk n :
  List.length junk = (2 * List.length idx)%nat ->
  (List.length idx < n)%nat ->
  exec_fun RN XRN program (S n) "c_cell2coord"
    [AVI nrows; AVI ncols; AVF xll; AVF yll; AVF csz; AVI (zlen idx); AVArrI idx; AVArrF junk]
  = Ok (RI 0, [VArrI idx; VArrF (cc_out RN nrows ncols xll yll csz idx)]).
Proof. apply refine_cell2coord. exact half_law_RN. Qed.

Theorem refine_cell2coord_F64 nrows ncols (xll yll csz : float) idx junk n :
  List.length junk = (2 * List.length idx)%nat ->
  (List.length idx < n)%nat ->
  exec_fun F64 XF64 program (S n) "c_cell2coord"
    [AVI nrows; AVI ncols; AVF xll; AVF yll; AVF csz; AVI (zlen idx); AVArrI idx; AVArrF junk]
  = Ok (RI 0, [VArrI idx; VArrF (cc_out F64 nrows ncols xll yll csz idx)]).
Proof. apply refine_cell2coord. exact half_law_F64. Qed.

Theorem refine_coord2cell_RR nrows ncols (xll yll csz : R) pts junk n :
  nrows <= cmax64 -> ncols <= cmax64 ->
  List.length junk = List.length pts ->
  (List.length pts < n)%nat ->
  exec_fun RR XRR program (S n) "c_coord2cell"
    [AVI nrows; AVI ncols; AVF xll; AVF yll; AVF csz; AVI (zlen pts);
     AVArrF (flat_xy pts); AVArrI junk]
  = Ok (RI 0, [VArrF (flat_xy pts);
               VArrI (map (coord2cell RR nrows ncols xll yll csz) pts)]).
Proof. apply (refine_coord2cell RR XRR cmax64 floor_laws_RR). Qed.

Theorem refine_coord2cell_RN nrows ncols (xll yll csz : option R) pts junk n :
  nrows <= cmax64 -> ncols <= cmax64 ->
  List.length junk = List.length pts ->
  (List.length pts < n)%nat ->
  exec_fun RN XRN program (S n) "c_coord2cell"
    [AVI nrows; AVI ncols; AVF xll; AVF yll; AVF csz; AVI (zlen pts);
     AVArrF (flat_xy pts); AVArrI junk]
  = Ok (RI 0, [VArrF (flat_xy pts);
               VArrI (map (coord2cell RN nrows ncols xll yll csz) pts)]).
Proof. apply (refine_coord2cell RN XRN cmax64 floor_laws_RN). Qed.

Theorem refine_coord2cell_raw_RR nrows ncols (xll yll csz : R) xy junk n :
  nrows <= cmax64 -> ncols <= cmax64 ->
  List.length xy = (2 * List.length junk)%nat ->
  (List.length junk < n)%nat ->
  exec_fun RR XRR program (S n) "c_coord2cell"
    [AVI nrows; AVI ncols; AVF xll; AVF yll; AVF csz; AVI (zlen junk); AVArrF xy; AVArrI junk]
  = Ok (RI 0, [VArrF xy; VArrI (map (coord2cell RR nrows ncols xll yll csz) (pairs xy))]).
Proof. apply (refine_coord2cell_raw RR XRR cmax64 floor_laws_RR). Qed.

Theorem refine_coord2cell_raw_RN nrows ncols (xll yll csz : option R) xy junk n :
  nrows <= cmax64 -> ncols <= cmax64 ->
  List.length xy = (2 * List.length junk)%nat ->
  (List.length junk < n)%nat ->
  exec_fun RN XRN program (S n) "c_coord2cell"
    [AVI nrows; AVI ncols; AVF xll; AVF yll; AVF csz; AVI (zlen junk); AVArrF xy; AVArrI junk]
  = Ok (RI 0, [VArrF xy; VArrI (map (coord2cell RN nrows ncols xll yll csz) (pairs xy))]).
Proof. apply (refine_coord2cell_raw RN XRN cmax64 floor_laws_RN). Qed.
