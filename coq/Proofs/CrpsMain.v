(* C03: the statements restated in Props/C03.v, about [crps] (the repaired
   kernel) on well-formed input, derived from the lemmas of the other Crps*
   files.  Over the reals the pinned and the repaired kernel coincide. *)
From Coq Require Import ZArith Bool List Reals Lra Lia Permutation Sorted String.
From Hy Require Import Base.Num Gen.ConstsC03 Model.Crps
  Proofs.CrpsSort Proofs.CrpsProofs Proofs.CrpsDefProofs Proofs.CrpsInvProofs.
Import ListNotations.
Open Scope R_scope.

Lemma some_out c m rows out :
  wfrows m rows -> crps_gen RR c rows = Some out ->
  out = finish RR c (Z.of_nat m) (kstate m rows) (kunc rows).
Proof. intros Hwf H. rewrite (crps_RR_eq c m rows Hwf) in H. congruence. Qed.

Theorem main_defined m rows : wfrows m rows -> exists out, crps RR rows = Some out.
Proof. intros H; eexists; apply (crps_RR_eq true m rows H). Qed.

Theorem main_pinned_same_over_R m rows :
  wfrows m rows -> crps_pinned RR rows = crps RR rows.
Proof.
  intros Hwf. unfold crps, crps_pinned.
  rewrite (crps_RR_eq false m rows Hwf), (crps_RR_eq true m rows Hwf).
  f_equal. unfold finish, table.
  destruct (kstate_inv m rows (proj1 (proj2 Hwf))) as [_ _ _ Ho0 HoN _ _].
  rewrite !clamp1_RR by lra. reflexivity.
Qed.

Theorem main_crps_is_definition m rows out :
  wfrows m rows -> crps RR rows = Some out -> o_crps out = crps_def rows.
Proof. intros Hwf H. rewrite (some_out _ _ _ _ Hwf H). apply out_crps_is_definition, Hwf. Qed.

Theorem main_single_member rows out :
  wfrows 1 rows -> crps RR rows = Some out ->
  o_crps out = Rsum (map (fun r => Rabs (hd 0 (snd r) - fst r)) rows) / INR (List.length rows).
Proof.
  intros Hwf H. rewrite (main_crps_is_definition 1 rows out Hwf H).
  apply crps_def_single. apply Hwf.
Qed.

Theorem main_crps_reli_pot m rows out :
  wfrows m rows -> crps RR rows = Some out -> o_crps out = o_reli out + o_pot out.
Proof. intros Hwf H. rewrite (some_out _ _ _ _ Hwf H). apply out_crps_reli_pot, Hwf. Qed.

Theorem main_resolution m rows out :
  wfrows m rows -> crps RR rows = Some out -> o_resol out = o_unc out - o_pot out.
Proof. intros Hwf H. rewrite (some_out _ _ _ _ Hwf H). reflexivity. Qed.

Theorem main_nonneg m rows out :
  wfrows m rows -> crps RR rows = Some out ->
  0 <= o_reli out /\ 0 <= o_pot out /\ 0 <= o_unc out.
Proof. intros Hwf H. rewrite (some_out _ _ _ _ Hwf H). apply out_nonneg, Hwf. Qed.

Theorem main_uncertainty_climatology m rows out :
  wfrows m rows -> crps RR rows = Some out -> o_unc out = crps_def (climatology rows).
Proof.
  intros Hwf H. rewrite (some_out _ _ _ _ Hwf H). apply out_uncertainty_is_climatology, Hwf.
Qed.

Theorem main_uncertainty_kernel m rows out :
  wfrows m rows -> crps RR rows = Some out ->
  exists outc, crps RR (climatology rows) = Some outc /\ o_unc out = o_crps outc.
Proof.
  intros Hwf H.
  destruct (uncertainty_is_kernel_crps_of_climatology true m rows Hwf) as (o1 & oc & H1 & Hc & E).
  unfold crps in H. rewrite H in H1. inversion H1; subst o1. exists oc. split; assumption.
Qed.

Theorem main_table_rows m rows out :
  wfrows m rows -> crps RR rows = Some out ->
  List.length (o_table out) = S m /\
  Forall (fun r => crps_term RR r = g_r r + g_c r /\ 0 <= g_r r /\ 0 <= g_c r) (o_table out).
Proof.
  intros Hwf H. rewrite (some_out _ _ _ _ Hwf H). split.
  - apply out_table_length, Hwf.
  - apply (out_table_good true m rows Hwf).
Qed.

(* the labels under which the wrapper returns the five numbers and the seven columns *)
Theorem main_labels :
  CRPS_DECOMPOS_NAMES = ["crps"; "reliability"; "resolution"; "uncertainty"; "potential"]%string /\
  CRPS_TABLE_NAMES = ["freq"; "a"; "b"; "g"; "rank"; "reliability"; "crps_potential"]%string /\
  CRPS_TABLE_NCOL_PY = CRPS_TABLE_NCOL_C /\ CRPS_TABLE_NCOL_C = 7%Z /\
  (CRPS_DECOMPOS_MAXIDX_C < CRPS_NDECOMPOS_PY)%Z /\
  CRPS_USE_WEIGHTS = 0%Z /\ CRPS_IS_SORTED = 0%Z.
Proof. repeat split. Qed.

(* a concrete well-formed input with ties between members and with the observation *)
Definition example_rows : list rrow := [(1, [2; 1; 1]); (0, [1; 3; 2]); (5, [4; 4; 0])].
Lemma example_wf : wfrows 3 example_rows.
Proof.
  split; [lia|]. split; [discriminate|]. repeat constructor.
Qed.
Lemma example_perm : Permutation example_rows [(5, [4; 4; 0]); (1, [2; 1; 1]); (0, [1; 3; 2])].
Proof.
  unfold example_rows. eapply perm_trans; [apply perm_skip, perm_swap | apply perm_swap].
Qed.
Lemma example_members :
  Forall2 same_members example_rows [(1, [1; 2; 1]); (0, [3; 2; 1]); (5, [0; 4; 4])].
Proof.
  unfold example_rows, same_members.
  constructor; [split; [reflexivity | cbn [snd]; apply perm_swap]|].
  constructor; [split; [reflexivity | cbn [snd]]|].
  { eapply perm_trans; [apply perm_swap | apply perm_skip, perm_swap]. }
  constructor; [split; [reflexivity | cbn [snd]]|constructor].
  eapply perm_trans; [apply perm_skip, perm_swap | apply perm_swap].
Qed.
Lemma example_single_wf : wfrows 1 [(1, [3]); (2, [2])].
Proof. split; [lia|]. split; [discriminate|]. repeat constructor. Qed.

(* crps >= 0 *)
Theorem main_crps_nonneg m rows out :
  wfrows m rows -> crps RR rows = Some out -> 0 <= o_crps out.
Proof.
  intros Hwf H. rewrite (main_crps_reli_pot m rows out Hwf H).
  destruct (main_nonneg m rows out Hwf H) as (? & ? & ?). lra.
Qed.

(* in every table row that counts (g > 0) the "rank" column is a frequency in [0,1];
   interior rows satisfy Hersbach's a = g (1-o), b = g o *)
Theorem main_table_frequencies m rows out :
  wfrows m rows -> crps RR rows = Some out ->
  Forall (fun r => 0 < t_g r -> 0 <= t_o r <= 1) (o_table out) /\
  Forall (fun r => 0 < t_g r -> t_a r = t_g r * (1 - t_o r) /\ t_b r = t_g r * t_o r)
         (removelast (tl (o_table out))).
Proof.
  intros Hwf H. rewrite (some_out _ _ _ _ Hwf H). unfold finish; cbn [o_table].
  pose proof (kstate_inv m rows (proj1 (proj2 Hwf))) as I.
  pose proof (table_outliers true (Z.of_nat m) _ I) as T. cbv zeta in T.
  destruct T as (_ & _ & T0 & TN & _ & _).
  pose proof (rows_interior_hersbach (Z.of_nat m) 1 _ (inv_ab 1 _ I)) as Hi.
  unfold table. split.
  - constructor; [intros _; exact T0|]. apply Forall_app. split.
    + eapply Forall_impl; [|exact Hi]. intros r Hr Hg. apply (Hr Hg).
    + constructor; [intros _; exact TN | constructor].
  - cbn [tl]. rewrite removelast_last.
    eapply Forall_impl; [|exact Hi]. intros r Hr Hg. destruct (Hr Hg) as (? & ? & _). auto.
Qed.
