(* Flow accumulation (Model/Accumulate.v) - property C11.
   The accumulated value of a cell that drains into another cell is the sum of
   the field over the cell and everything draining through it; it is its own
   value plus the accumulated values of its direct upstream neighbours;
   terminal cells carry no-data. *)
From Coq Require Import ZArith Bool List Lia Reals Lra Permutation.
From Hy Require Import Base.Num Gen.Consts Model.Grid Model.Catchment Model.Accumulate
     Proofs.GridGeomProofs Proofs.FlowProofs.
Import ListNotations.
Open Scope Z_scope.

(* ---------------- lists indexed by Z ---------------- *)
Lemma zn_cons_0 {A} (x : A) r d : zn (x :: r) 0 d = x.
Proof. reflexivity. Qed.

Lemma zn_cons_pos {A} (x : A) r i d : 0 < i -> zn (x :: r) i d = zn r (i - 1) d.
Proof.
  intros H. unfold zn. replace (Z.to_nat i) with (S (Z.to_nat (i - 1))) by lia. reflexivity.
Qed.

Lemma zlen_cons {A} (x : A) r : zlen (x :: r) = zlen r + 1.
Proof. unfold zlen. cbn [List.length]. lia. Qed.

Lemma zlen_nonneg {A} (l : list A) : 0 <= zlen l.
Proof. unfold zlen. lia. Qed.

Lemma upd_length {A} (l : list A) i f : zlen (upd l i f) = zlen l.
Proof.
  revert i; induction l as [|x r IH]; intros i; cbn [upd]; [reflexivity|].
  destruct (i =? 0); rewrite !zlen_cons; [reflexivity|]. rewrite IH. reflexivity.
Qed.

Lemma zn_upd_same {A} (l : list A) i f d :
  0 <= i < zlen l -> zn (upd l i f) i d = f (zn l i d).
Proof.
  revert i; induction l as [|x r IH]; intros i Hi.
  - unfold zlen in Hi. cbn in Hi. lia.
  - cbn [upd]. destruct (Z.eqb_spec i 0) as [->|Hne]; [reflexivity|].
    rewrite zlen_cons in Hi. rewrite !zn_cons_pos by lia. apply IH. lia.
Qed.

Lemma zn_upd_other {A} (l : list A) i j f d :
  0 <= i -> 0 <= j -> i <> j -> zn (upd l i f) j d = zn l j d.
Proof.
  revert i j; induction l as [|x r IH]; intros i j Hi Hj Hne; [reflexivity|].
  cbn [upd]. destruct (Z.eqb_spec i 0) as [->|Hi0].
  - rewrite !zn_cons_pos by lia. reflexivity.
  - destruct (Z.eq_dec j 0) as [->|Hj0]; [reflexivity|].
    rewrite !zn_cons_pos by lia. apply IH; lia.
Qed.

Lemma in_zseq x a n : In x (zseq a n) <-> a <= x < a + Z.of_nat n.
Proof.
  revert a; induction n as [|n IH]; intros a; cbn [zseq In]; [lia|].
  rewrite IH. lia.
Qed.

Lemma zseq_nodup a n : NoDup (zseq a n).
Proof.
  revert a; induction n as [|n IH]; intros a; cbn [zseq]; constructor; [|apply IH].
  rewrite in_zseq. lia.
Qed.

(* sums of real lists *)
Definition Rsum (l : list R) : R := fold_right Rplus 0%R l.

Lemma Rsum_app l1 l2 : Rsum (l1 ++ l2) = (Rsum l1 + Rsum l2)%R.
Proof. unfold Rsum. induction l1 as [|a l1 IH]; cbn [app fold_right]; lra. Qed.

Lemma Rsum_perm l1 l2 : Permutation l1 l2 -> Rsum l1 = Rsum l2.
Proof. unfold Rsum. induction 1; cbn [fold_right]; lra. Qed.

Lemma Rsum_flat_map {A} (f : A -> R) (g : A -> list A) (l : list A) :
  Rsum (map f (flat_map g l)) = Rsum (map (fun u => Rsum (map f (g u))) l).
Proof.
  induction l as [|a l IH]; [reflexivity|]. cbn [flat_map map].
  rewrite map_app, Rsum_app, IH. reflexivity.
Qed.

Lemma Rsum_map_plus {A} (f g : A -> R) (l : list A) :
  Rsum (map (fun u => (f u + g u)%R) l) = (Rsum (map f l) + Rsum (map g l))%R.
Proof. unfold Rsum. induction l as [|a l IH]; cbn [map fold_right]; lra. Qed.

Lemma Rsum_map_ext_in {A} (f g : A -> R) (l : list A) :
  (forall a, In a l -> f a = g a) -> Rsum (map f l) = Rsum (map g l).
Proof. intros H. f_equal. apply map_ext_in. exact H. Qed.

Lemma Rsum_const_one {A} (l : list A) : Rsum (map (fun _ => 1%R) l) = INR (List.length l).
Proof.
  unfold Rsum. induction l as [|a l IH]; [reflexivity|]. cbn [map List.length fold_right]. rewrite S_INR. lra.
Qed.

(* ---------------- the downstream walk ---------------- *)
Section Walk.
Variables nrows ncols : Z.
Variable fd : list Z.
Hypothesis Hncols : 0 < ncols.

Notation dn := (downstream nrows ncols fd).
Notation hits := (upstream_hits nrows ncols fd).
Notation valid c := (0 <= c < nrows * ncols).
Notation dp f i := (dpath f nrows ncols fd i).

Lemma dn_valid c d : valid c -> dn c = Some d -> 0 <= d -> valid d /\ d <> c.
Proof. apply (downstream_result_valid FLOWDIRCODE flowdircode_wf nrows ncols fd Hncols). Qed.

Lemma udi c d : valid d -> (In c (hits d) <-> (valid c /\ dn c = Some d)).
Proof. apply (up_down_inverse FLOWDIRCODE flowdircode_wf nrows ncols fd Hncols). Qed.

(* i reaches c in exactly k downstream steps (all inside the grid) *)
Fixpoint steps (k : nat) (i c : Z) : Prop :=
  match k with
  | O => i = c
  | S k' => exists b, dn i = Some b /\ 0 <= b /\ steps k' b c
  end.

Lemma dp_S f up :
  dp (S f) up = match dn up with
                | Some d => if d <? 0 then ([], Some up)
                            else let (p, t) := dp f d in (d :: p, t)
                | None => ([], None)
                end.
Proof. reflexivity. Qed.

(* shape of a completed walk *)
Lemma dp_complete_inv f i p t :
  dp f i = (p, Some t) ->
  exists f', f = S f' /\
    ((exists d, dn i = Some d /\ d < 0 /\ p = [] /\ t = i) \/
     (exists d p', dn i = Some d /\ 0 <= d /\ p = d :: p' /\ dp f' d = (p', Some t))).
Proof.
  destruct f as [|f']; [cbn; intros H; inversion H|]. rewrite dp_S. intros H. exists f'. split; [reflexivity|].
  destruct (dn i) as [d|] eqn:Ed; [|inversion H].
  destruct (Z.ltb_spec d 0) as [Hneg|Hpos].
  - inversion H; subst. left. exists d. auto.
  - destruct (dp f' d) as [p' t'] eqn:E. inversion H; subst. right. exists d, p'. auto.
Qed.

Lemma dp_valid f i p t : valid i -> dp f i = (p, Some t) -> Forall (fun c => valid c) p /\ valid t.
Proof.
  revert i p; induction f as [|f IH]; intros i p Hv H; [inversion H|].
  apply dp_complete_inv in H. destruct H as (f' & Hf & [(d & Hd & Hneg & -> & ->)|(d & p' & Hd & Hpos & -> & Hrec)]).
  - auto.
  - inversion Hf; subst f'. destruct (dn_valid i d Hv Hd Hpos) as [Hvd _].
    destruct (IH d p' Hvd Hrec) as [H1 H2]. split; [constructor; assumption|assumption].
Qed.

Lemma dp_terminal f i p t : dp f i = (p, Some t) -> exists d, dn t = Some d /\ d < 0.
Proof.
  revert i p; induction f as [|f IH]; intros i p H; [inversion H|].
  apply dp_complete_inv in H. destruct H as (f' & Hf & [(d & Hd & Hneg & -> & ->)|(d & p' & Hd & Hpos & -> & Hrec)]).
  - exists d; auto.
  - inversion Hf; subst f'. apply (IH d p' Hrec).
Qed.

Lemma dp_start_terminal f i d : dn i = Some d -> d < 0 -> dp (S f) i = ([], Some i).
Proof. intros Hd Hneg. rewrite dp_S, Hd. destruct (Z.ltb_spec d 0); [reflexivity|lia]. Qed.

(* completed walks do not depend on the fuel *)
Lemma dp_det f i p t f2 p2 t2 :
  dp f i = (p, Some t) -> dp f2 i = (p2, Some t2) -> p = p2 /\ t = t2.
Proof.
  revert i p f2 p2; induction f as [|f IH]; intros i p f2 p2 H H2; [inversion H|].
  apply dp_complete_inv in H. apply dp_complete_inv in H2.
  destruct H as (f' & Hf & [(d & Hd & Hneg & -> & ->)|(d & p' & Hd & Hpos & -> & Hrec)]).
  - destruct H2 as (f2' & Hf2 & [(d2 & Hd2 & Hneg2 & -> & ->)|(d2 & p2' & Hd2 & Hpos2 & -> & Hrec2)]).
    + auto.
    + rewrite Hd in Hd2. inversion Hd2. lia.
  - destruct H2 as (f2' & Hf2 & [(d2 & Hd2 & Hneg2 & -> & ->)|(d2 & p2' & Hd2 & Hpos2 & -> & Hrec2)]).
    + rewrite Hd in Hd2. inversion Hd2. lia.
    + rewrite Hd in Hd2. inversion Hd2; subst d2. inversion Hf; subst f'.
      destruct (IH d p' f2' p2' Hrec Hrec2) as [-> ->]. auto.
Qed.

(* the walk from a visited cell is the rest of the walk *)
Lemma dp_suffix f i p t l1 x l2 :
  dp f i = (p, Some t) -> p = l1 ++ x :: l2 -> exists f2, dp f2 x = (l2, Some t).
Proof.
  revert i p l1; induction f as [|f IH]; intros i p l1 H Hp; [inversion H|].
  apply dp_complete_inv in H. destruct H as (f' & Hf & [(d & Hd & Hneg & -> & ->)|(d & p' & Hd & Hpos & -> & Hrec)]).
  - destruct l1; inversion Hp.
  - inversion Hf; subst f'. destruct l1 as [|a l1]; cbn in Hp; inversion Hp; subst.
    + exists f. assumption.
    + eapply IH; [eassumption|reflexivity].
Qed.

Lemma dp_not_in_own f i p t : dp f i = (p, Some t) -> ~ In i p.
Proof.
  intros H Hin. apply in_split in Hin. destruct Hin as (l1 & l2 & Hp).
  destruct (dp_suffix f i p t l1 i l2 H Hp) as [f2 H2].
  destruct (dp_det f i p t f2 l2 t H H2) as [E _]. subst p.
  apply (f_equal (@List.length Z)) in E. rewrite app_length in E. cbn in E. lia.
Qed.

Lemma dp_nodup f i p t : dp f i = (p, Some t) -> NoDup p.
Proof.
  revert i p; induction f as [|f IH]; intros i p H; [inversion H|].
  pose proof H as H0.
  apply dp_complete_inv in H. destruct H as (f' & Hf & [(d & Hd & Hneg & -> & ->)|(d & p' & Hd & Hpos & -> & Hrec)]).
  - constructor.
  - inversion Hf; subst f'. constructor; [|apply (IH d p' Hrec)].
    apply (dp_not_in_own f d p' t Hrec).
Qed.

(* visited cells = cells reached in at least one step *)
Lemma dp_in_steps f i p t c : dp f i = (p, Some t) -> In c p -> exists k, steps (S k) i c.
Proof.
  revert i p; induction f as [|f IH]; intros i p H Hin; [inversion H|].
  apply dp_complete_inv in H. destruct H as (f' & Hf & [(d & Hd & Hneg & -> & ->)|(d & p' & Hd & Hpos & -> & Hrec)]).
  - destruct Hin.
  - inversion Hf; subst f'. destruct Hin as [<-|Hin].
    + exists O. cbn. exists d. auto.
    + destruct (IH d p' Hrec Hin) as [k Hk]. exists (S k). cbn [steps]. exists d. auto.
Qed.

Lemma steps_in_dp k : forall f i p t c, dp f i = (p, Some t) -> steps (S k) i c -> In c p.
Proof.
  induction k as [|k IH]; intros f i p t c H Hs.
  - cbn in Hs. destruct Hs as (b & Hb & Hpos & <-).
    apply dp_complete_inv in H. destruct H as (f' & Hf & [(d & Hd & Hneg & -> & ->)|(d & p' & Hd & Hpos' & -> & Hrec)]).
    + rewrite Hd in Hb. inversion Hb. lia.
    + rewrite Hd in Hb. inversion Hb. left. reflexivity.
  - cbn [steps] in Hs. destruct Hs as (b & Hb & Hpos & Hs).
    apply dp_complete_inv in H. destruct H as (f' & Hf & [(d & Hd & Hneg & -> & ->)|(d & p' & Hd & Hpos' & -> & Hrec)]).
    + rewrite Hd in Hb. inversion Hb. lia.
    + rewrite Hd in Hb. inversion Hb; subst d. right. apply (IH f' b p' t c Hrec). exact Hs.
Qed.

(* a visited terminal cell is where the walk ends *)
Lemma dp_in_terminal f i p t c d :
  dp f i = (p, Some t) -> In c p -> dn c = Some d -> d < 0 -> t = c.
Proof.
  intros H Hin Hd Hneg. apply in_split in Hin. destruct Hin as (l1 & l2 & Hp).
  destruct (dp_suffix f i p t l1 c l2 H Hp) as [f2 H2].
  apply dp_complete_inv in H2. destruct H2 as (f' & Hf & [(d' & Hd' & _ & _ & ->)|(d' & p' & Hd' & Hpos & _ & _)]).
  - reflexivity.
  - rewrite Hd in Hd'. inversion Hd'. lia.
Qed.

(* steps: determinism, composition, validity *)
Lemma steps_det k : forall i a b, steps k i a -> steps k i b -> a = b.
Proof.
  induction k as [|k IH]; intros i a b Ha Hb; cbn [steps] in *; [congruence|].
  destruct Ha as (x & Hx & _ & Ha). destruct Hb as (y & Hy & _ & Hb).
  rewrite Hx in Hy. inversion Hy; subst y. apply (IH x); assumption.
Qed.

Lemma steps_add k m : forall i c, steps (k + m) i c <-> exists b, steps k i b /\ steps m b c.
Proof.
  induction k as [|k IH]; intros i c; cbn [plus steps].
  - split; [intros H; exists i; auto|intros (b & -> & H); exact H].
  - split.
    + intros (x & Hx & Hpos & Hs). apply IH in Hs. destruct Hs as (b & Hb & Hm).
      exists b. split; [exists x; auto|assumption].
    + intros (b & (x & Hx & Hpos & Hs) & Hm). exists x. repeat split; try assumption.
      apply IH. exists b. auto.
Qed.

Lemma steps_snoc k i u c : steps k i u -> dn u = Some c -> 0 <= c -> steps (S k) i c.
Proof.
  intros Hs Hd Hpos. replace (S k) with (k + 1)%nat by lia. apply steps_add.
  exists u. split; [assumption|]. cbn. exists c. auto.
Qed.

Lemma steps_unsnoc k i c : steps (S k) i c -> exists u, steps k i u /\ dn u = Some c /\ 0 <= c.
Proof.
  intros Hs. replace (S k) with (k + 1)%nat in Hs by lia. apply steps_add in Hs.
  destruct Hs as (u & Hu & (b & Hb & Hpos & <-)). exists u. auto.
Qed.

Lemma steps_valid k : forall i c, valid i -> steps k i c -> valid c.
Proof.
  induction k as [|k IH]; intros i c Hv Hs; cbn [steps] in Hs; [subst; assumption|].
  destruct Hs as (b & Hb & Hpos & Hs). apply (IH b c); [|assumption].
  apply (dn_valid i b Hv Hb Hpos).
Qed.

(* no cell on a cycle has a completed walk *)
Lemma no_cycle f c p t m : dp f c = (p, Some t) -> steps (S m) c c -> False.
Proof.
  intros H Hs. apply (dp_not_in_own f c p t H). apply (steps_in_dp m f c p t c H Hs).
Qed.

Lemma steps_unique f c p t k k' i :
  dp f c = (p, Some t) -> steps k i c -> steps k' i c -> k = k'.
Proof.
  intros H.
  assert (G : forall a b, (a < b)%nat -> steps a i c -> steps b i c -> False).
  { intros a b Hab Ha Hb. replace b with (a + S (b - a - 1))%nat in Hb by lia.
    apply steps_add in Hb. destruct Hb as (x & Hx & Hm).
    assert (x = c) by (apply (steps_det a i); assumption). subst x.
    apply (no_cycle f c p t _ H Hm). }
  intros Hk Hk'. destruct (Nat.lt_trichotomy k k') as [L|[E|L]]; [exfalso; eauto|assumption|exfalso; eauto].
Qed.

(* ---- walks that hit the cap; acyclic grids ---- *)
Lemma dn_some c : valid c -> exists d, dn c = Some d.
Proof.
  intros Hv. unfold downstream, downstream_with.
  rewrite (proj2 (valid_cell_true nrows ncols c) Hv). destruct (zn fd c 0 =? 0); eexists; reflexivity.
Qed.

Lemma dp_inv_gen f i p t :
  dp (S f) i = (p, t) ->
  (dn i = None /\ p = [] /\ t = None) \/
  (exists d, dn i = Some d /\ d < 0 /\ p = [] /\ t = Some i) \/
  (exists d p', dn i = Some d /\ 0 <= d /\ p = d :: p' /\ dp f d = (p', t)).
Proof.
  rewrite dp_S. intros H. destruct (dn i) as [d|] eqn:Ed.
  - destruct (Z.ltb_spec d 0) as [Hneg|Hpos].
    + inversion H; subst. right. left. exists d. auto.
    + destruct (dp f d) as [p' t'] eqn:E. inversion H; subst. right. right. exists d, p'. auto.
  - inversion H; subst. left. auto.
Qed.

Lemma dp_in_steps_gen f : forall i p t c, dp f i = (p, t) -> In c p -> exists k, steps (S k) i c.
Proof.
  induction f as [|f IH]; intros i p t c H Hin; [cbn in H; inversion H; subst; destruct Hin|].
  apply dp_inv_gen in H. destruct H as [(_ & -> & _)|[(d & _ & _ & -> & _)|(d & p' & Hd & Hpos & -> & Hrec)]];
    try (destruct Hin; fail).
  destruct Hin as [<-|Hin].
  - exists O. cbn. exists d. auto.
  - destruct (IH d p' t c Hrec Hin) as [k Hk]. exists (S k). cbn [steps]. exists d. auto.
Qed.

Definition acyclic : Prop := forall c m, valid c -> ~ steps (S m) c c.

Lemma dp_none_nodup f : forall i p,
  acyclic -> valid i -> dp f i = (p, None) ->
  NoDup (i :: p) /\ Forall (fun c => valid c) (i :: p) /\ List.length p = f.
Proof.
  induction f as [|f IH]; intros i p Hac Hv H.
  - cbn in H. inversion H; subst. repeat split; [constructor; [intros []|constructor]|constructor; [assumption|constructor]].
  - pose proof H as H0. apply dp_inv_gen in H.
    destruct H as [(Hn & _ & _)|[(d & _ & _ & _ & Ht)|(d & p' & Hd & Hpos & -> & Hrec)]].
    + destruct (dn_some i Hv) as [d Hd]. congruence.
    + discriminate.
    + destruct (dn_valid i d Hv Hd Hpos) as [Hvd _].
      destruct (IH d p' Hac Hvd Hrec) as (Hnd & Hall & Hlen).
      repeat split.
      * constructor; [|assumption]. intros Hin.
        destruct (dp_in_steps_gen (S f) i (d :: p') None i H0 Hin) as [k Hk]. apply (Hac i k Hv Hk).
      * constructor; assumption.
      * cbn [List.length]. lia.
Qed.

End Walk.

(* ---------------- accumulation over the reals ---------------- *)
Section Accum.
Variables nrows ncols : Z.
Variable fd : list Z.
Variable field : list R.
Variable nodata : R.
Variable F : nat.                     (* cap on the walk: max_accumulated_cells + 1 *)
Hypothesis Hncols : 0 < ncols.
Hypothesis Hfield : zlen field = nrows * ncols.

Notation dn := (downstream nrows ncols fd).
Notation hits := (upstream_hits nrows ncols fd).
Notation valid c := (0 <= c < nrows * ncols).
Notation dp i := (dpath F nrows ncols fd i).
Notation wa := (walk_apply RR F nrows ncols fd field nodata).
Notation st := (steps nrows ncols fd).
Notation fv i := (zn field i 0%R).

(* every walk ends by leaving the grid before the cap (true of every acyclic
   grid with the default cap; see [acyclic_complete] in Props) *)
Definition complete : Prop := forall i, valid i -> exists p t, dp i = (p, Some t).
Hypothesis Hcomplete : complete.

Definition thru (c i : Z) : bool := existsb (Z.eqb c) (fst (dp i)).

Lemma thru_in c i : thru c i = true <-> In c (fst (dp i)).
Proof.
  unfold thru. rewrite existsb_exists. split.
  - intros (x & Hx & E). apply Z.eqb_eq in E. subst. assumption.
  - intros H. exists c. split; [assumption|apply Z.eqb_refl].
Qed.

Theorem thru_spec c i : valid i -> (thru c i = true <-> exists k, st (S k) i c).
Proof.
  intros Hv. rewrite thru_in. destruct (Hcomplete i Hv) as (p & t & Hp). rewrite Hp. cbn [fst]. split.
  - apply (dp_in_steps nrows ncols fd F i p t c Hp).
  - intros [k Hk]. apply (steps_in_dp nrows ncols fd k F i p t c Hp Hk).
Qed.

(* adding v along a duplicate-free list of valid cells *)
Lemma fold_add_val (v : R) p : forall acc c,
  NoDup p -> Forall (fun d => 0 <= d < zlen acc) p -> 0 <= c ->
  zn (fold_left (fun a d => upd a d (fun x => nadd RR x v)) p acc) c 0%R =
  if existsb (Z.eqb c) p then (zn acc c 0 + v)%R else zn acc c 0%R.
Proof.
  induction p as [|d p IH]; intros acc c Hnd Hall Hc; [reflexivity|].
  cbn [fold_left existsb]. inversion Hnd as [|? ? Hnot Hnd']; subst. inversion Hall as [|? ? Hd Hall']; subst.
  rewrite IH; [|assumption| |assumption].
  - destruct (Z.eqb_spec c d) as [->|Hne].
    + cbn [orb]. assert (E : existsb (Z.eqb d) p = false).
      { apply not_true_is_false. intros E. apply existsb_exists in E. destruct E as (x & Hx & E).
        apply Z.eqb_eq in E. subst. contradiction. }
      rewrite E. rewrite zn_upd_same by assumption. reflexivity.
    + cbn [orb]. rewrite zn_upd_other by lia. reflexivity.
  - rewrite upd_length. assumption.
Qed.

Lemma fold_add_length {T} (N : NumOps T) (v : Z -> T) p : forall acc,
  zlen (fold_left (fun a d => upd a d (fun x => nadd N x (v d))) p acc) = zlen acc.
Proof. induction p as [|d p IH]; intros acc; [reflexivity|]. cbn [fold_left]. rewrite IH, upd_length. reflexivity. Qed.

Lemma wa_length acc i : zlen (wa acc i) = zlen acc.
Proof.
  unfold walk_apply, walk_apply_gen. destruct (dp i) as [p t].
  destruct t; [rewrite upd_length|]; apply fold_add_length.
Qed.

(* one iteration of the outer loop, cell by cell *)
Lemma wa_val acc i p t c :
  valid i -> dp i = (p, Some t) -> zlen acc = nrows * ncols -> valid c ->
  zn (wa acc i) c 0%R =
  if c =? t then nodata else if thru c i then (zn acc c 0 + fv i)%R else zn acc c 0%R.
Proof.
  intros Hi Hp Hlen Hc. unfold walk_apply, walk_apply_gen, thru. rewrite Hp. cbn [fst].
  destruct (dp_valid nrows ncols fd Hncols F i p t Hi Hp) as [Hall Ht].
  destruct (Z.eqb_spec c t) as [->|Hne].
  - rewrite zn_upd_same; [reflexivity|]. rewrite fold_add_length. lia.
  - rewrite zn_upd_other by lia. apply fold_add_val; [apply (dp_nodup nrows ncols fd F i p t Hp)| |lia].
    rewrite Hlen. exact Hall.
Qed.

(* cells that drain into another cell: field + contributions of the start cells passing through *)
Lemma fold_nonterminal c d L : forall acc,
  valid c -> dn c = Some d -> 0 <= d -> Forall (fun i => valid i) L -> zlen acc = nrows * ncols ->
  zn (fold_left wa L acc) c 0%R = (zn acc c 0 + Rsum (map (fun i => fv i) (filter (thru c) L)))%R.
Proof.
  induction L as [|i L IH]; intros acc Hc Hd Hpos HL Hlen; [unfold Rsum; cbn [fold_left filter map fold_right]; lra|].
  inversion HL as [|? ? Hi HL']; subst. cbn [fold_left filter].
  rewrite IH; try assumption; [|rewrite wa_length; assumption].
  destruct (Hcomplete i Hi) as (p & t & Hp).
  rewrite (wa_val acc i p t c Hi Hp Hlen Hc).
  destruct (Z.eqb_spec c t) as [->|Hne].
  - destruct (dp_terminal nrows ncols fd F i p t Hp) as (d' & Hd' & Hneg). rewrite Hd in Hd'. inversion Hd'. lia.
  - destruct (thru c i); cbn [map Rsum fold_right]; unfold Rsum; lra.
Qed.

(* cells that drain nowhere end with the no-data value *)
Lemma fold_terminal c d L : forall acc,
  valid c -> dn c = Some d -> d < 0 -> (1 <= F)%nat -> Forall (fun i => valid i) L ->
  zlen acc = nrows * ncols -> (In c L \/ zn acc c 0%R = nodata) ->
  zn (fold_left wa L acc) c 0%R = nodata.
Proof.
  induction L as [|i L IH]; intros acc Hc Hd Hneg HF HL Hlen Hor.
  - destruct Hor as [[]|H]. exact H.
  - inversion HL as [|? ? Hi HL']; subst. cbn [fold_left].
    apply IH; try assumption; [rewrite wa_length; assumption|].
    destruct (Hcomplete i Hi) as (p & t & Hp).
    rewrite (wa_val acc i p t c Hi Hp Hlen Hc).
    destruct (Z.eq_dec i c) as [->|Hic].
    + right. destruct F as [|F']; [lia|].
      rewrite (dp_start_terminal nrows ncols fd F' c d Hd Hneg) in Hp. inversion Hp; subst.
      rewrite Z.eqb_refl. reflexivity.
    + destruct Hor as [[Heq|Hin]|Hnd]; [contradiction|left; assumption|]. right.
      destruct (Z.eqb_spec c t); [reflexivity|].
      destruct (thru c i) eqn:Et; [|assumption].
      apply thru_in in Et. rewrite Hp in Et. cbn [fst] in Et.
      pose proof (dp_in_terminal nrows ncols fd F i p t c d Hp Et Hd Hneg). congruence.
Qed.

Definition cells : list Z := zseq 0 (Z.to_nat (nrows * ncols)).

Lemma in_cells x : In x cells <-> valid x.
Proof. unfold cells. rewrite in_zseq. lia. Qed.

Lemma cells_valid : Forall (fun i => valid i) cells.
Proof. apply Forall_forall. intros x. apply in_cells. Qed.

Definition result : list R := fold_left wa cells field.

(* the cells whose walk passes through c *)
Definition through (c : Z) : list Z := filter (thru c) cells.

Lemma in_through c i : In i (through c) <-> valid i /\ exists k, st (S k) i c.
Proof.
  unfold through. rewrite filter_In, in_cells. split; intros [Hv H]; (split; [assumption|]);
  apply (thru_spec c i Hv); assumption.
Qed.

Theorem result_upstream_sum c d :
  valid c -> dn c = Some d -> 0 <= d ->
  zn result c 0%R = (fv c + Rsum (map (fun i => fv i) (through c)))%R.
Proof.
  intros Hc Hd Hpos. unfold result, through.
  apply (fold_nonterminal c d cells field Hc Hd Hpos cells_valid Hfield).
Qed.

Theorem result_terminal c d :
  (1 <= F)%nat -> valid c -> dn c = Some d -> d < 0 -> zn result c 0%R = nodata.
Proof.
  intros HF Hc Hd Hneg. unfold result.
  apply (fold_terminal c d cells field Hc Hd Hneg HF cells_valid Hfield). left. apply in_cells. assumption.
Qed.

(* partition of the cells draining through c by the direct upstream neighbour they pass *)
Lemma through_partition c :
  valid c -> Permutation (through c) (hits c ++ flat_map through (hits c)).
Proof.
  intros Hc. destruct (Hcomplete c Hc) as (pc & tc & Hpc).
  assert (Hu : forall u, In u (hits c) -> valid u /\ dn u = Some c).
  { intros u Hu. apply (udi nrows ncols fd Hncols u c Hc). assumption. }
  assert (Huniq : forall k k' i, st k i c -> st k' i c -> k = k').
  { intros k k' i. apply (steps_unique nrows ncols fd F c pc tc k k' i Hpc). }
  apply NoDup_Permutation.
  - apply NoDup_filter. apply zseq_nodup.
  - apply NoDup_app_intro.
    + apply (hits_nodup FLOWDIRCODE flowdircode_wf nrows ncols fd c). assumption.
    + apply nodup_flat_map.
      * apply (hits_nodup FLOWDIRCODE flowdircode_wf nrows ncols fd c). assumption.
      * intros u _. apply NoDup_filter. apply zseq_nodup.
      * intros u u' i Hu1 Hu2 Hi Hi'. apply in_through in Hi, Hi'.
        destruct Hi as [Hv [k Hk]], Hi' as [_ [k' Hk']].
        destruct (Hu u Hu1) as [_ Hd1]. destruct (Hu u' Hu2) as [_ Hd2].
        assert (E : S (S k) = S (S k')).
        { apply (Huniq _ _ i); eapply steps_snoc; eauto; lia. }
        inversion E; subst k'. apply (steps_det nrows ncols fd (S k) i); assumption.
    + intros i Hi Hin. apply in_flat_map in Hin. destruct Hin as (u & Hu1 & Hi').
      apply in_through in Hi'. destruct Hi' as [_ [k Hk]].
      destruct (Hu i Hi) as [_ Hdi]. destruct (Hu u Hu1) as [_ Hdu].
      assert (E : 1%nat = S (S k)).
      { apply (Huniq _ _ i); [cbn; exists c; repeat split; [assumption|lia]|].
        eapply steps_snoc; eauto; lia. }
      discriminate.
  - intros i. rewrite in_app_iff, in_flat_map, in_through. split.
    + intros [Hv [k Hk]]. apply steps_unsnoc in Hk. destruct Hk as (u & Hsu & Hdu & _).
      assert (Hvu : valid u) by (apply (steps_valid nrows ncols fd Hncols k i u Hv Hsu)).
      assert (Huh : In u (hits c)) by (apply (udi nrows ncols fd Hncols u c Hc); auto).
      destruct k as [|k].
      * cbn in Hsu. subst u. left. assumption.
      * right. exists u. split; [assumption|]. apply in_through. split; [assumption|]. exists k. assumption.
    + intros [Hi|(u & Hu1 & Hi)].
      * destruct (Hu i Hi) as [Hv Hd]. split; [assumption|]. exists O. cbn. exists c. repeat split; [assumption|lia].
      * apply in_through in Hi. destruct Hi as [Hv [k Hk]]. destruct (Hu u Hu1) as [_ Hd].
        split; [assumption|]. exists (S k). eapply steps_snoc; eauto. lia.
Qed.

Theorem result_local c d :
  valid c -> dn c = Some d -> 0 <= d ->
  zn result c 0%R = (fv c + Rsum (map (fun u => zn result u 0%R) (hits c)))%R.
Proof.
  intros Hc Hd Hpos. rewrite (result_upstream_sum c d Hc Hd Hpos). f_equal.
  rewrite (Rsum_perm _ _ (Permutation_map (fun i => fv i) (through_partition c Hc))).
  rewrite map_app, Rsum_app, Rsum_flat_map.
  rewrite <- Rsum_map_plus. apply Rsum_map_ext_in. intros u Hu.
  apply (udi nrows ncols fd Hncols u c Hc) in Hu. destruct Hu as [Hvu Hdu].
  symmetry. apply (result_upstream_sum u c Hvu Hdu). lia.
Qed.

End Accum.

(* ---------------- statements about [accumulate] ---------------- *)
Lemma zseq_length a n : List.length (zseq a n) = n.
Proof. revert a; induction n as [|n IH]; intros a; cbn [zseq List.length]; [reflexivity|]. rewrite IH. reflexivity. Qed.

(* on an acyclic grid every walk leaves the grid within nrows*ncols steps *)
Theorem acyclic_complete nrows ncols fd F :
  0 < ncols -> acyclic nrows ncols fd -> (Z.to_nat (nrows * ncols) < F)%nat ->
  complete nrows ncols fd F.
Proof.
  intros Hncols Hac HF i Hv. destruct (dpath F nrows ncols fd i) as [p [t|]] eqn:E; [exists p, t; reflexivity|].
  exfalso. destruct (dp_none_nodup nrows ncols fd Hncols F i p Hac Hv E) as (Hnd & Hall & Hlen).
  assert (Hincl : incl (i :: p) (zseq 0 (Z.to_nat (nrows * ncols)))).
  { intros x Hx. apply in_zseq. rewrite Forall_forall in Hall. specialize (Hall x Hx). lia. }
  pose proof (NoDup_incl_length Hnd Hincl) as Hle. rewrite zseq_length in Hle. cbn [List.length] in Hle. lia.
Qed.

Theorem acyclic_default_cap_complete nrows ncols fd maxcells :
  0 < ncols -> acyclic nrows ncols fd -> 1 <= maxcells -> nrows * ncols <= maxcells ->
  complete nrows ncols fd (Z.to_nat (maxcells + 1)).
Proof. intros H1 H2 H3 H4. apply acyclic_complete; [assumption|assumption|lia]. Qed.

(* executable completeness test, for concrete grids *)
Definition complete_b (nrows ncols : Z) (fd : list Z) (F : nat) : bool :=
  forallb (fun i => match snd (dpath F nrows ncols fd i) with Some _ => true | None => false end)
          (zseq 0 (Z.to_nat (nrows * ncols))).

Lemma complete_b_true nrows ncols fd F : complete_b nrows ncols fd F = true -> complete nrows ncols fd F.
Proof.
  unfold complete_b. rewrite forallb_forall. intros H i Hv.
  assert (Hin : In i (zseq 0 (Z.to_nat (nrows * ncols)))) by (apply in_zseq; lia).
  specialize (H i Hin). destruct (dpath F nrows ncols fd i) as [p [t|]]; [exists p, t; reflexivity|discriminate].
Qed.

Lemma accumulate_eq {T} (N : NumOps T) nrows ncols maxcells nodata fd field res :
  accumulate N nrows ncols maxcells nodata fd field = Some res ->
  1 <= maxcells /\ 1 <= nrows /\
  res = fold_left (walk_apply N (Z.to_nat (maxcells + 1)) nrows ncols fd field nodata)
                  (zseq 0 (Z.to_nat (nrows * ncols))) field.
Proof.
  unfold accumulate, accumulate_with. destruct (Z.ltb_spec maxcells 1) as [?|Hm]; [discriminate|].
  destruct (Z.ltb_spec nrows 1) as [?|Hn]; [discriminate|]. intros Heq. inversion Heq. repeat split; lia.
Qed.

(* any arithmetic, any grid (cycles included), any cap >= 1: the kernel returns *)
Theorem accumulate_returns {T} (N : NumOps T) nrows ncols maxcells nodata fd field :
  1 <= maxcells -> 1 <= nrows ->
  exists res, accumulate N nrows ncols maxcells nodata fd field = Some res.
Proof.
  intros H1 H2. unfold accumulate, accumulate_with.
  destruct (Z.ltb_spec maxcells 1); [lia|]. destruct (Z.ltb_spec nrows 1); [lia|]. eexists; reflexivity.
Qed.

Theorem accumulate_rejects {T} (N : NumOps T) nrows ncols maxcells nodata fd field :
  maxcells < 1 \/ nrows < 1 -> accumulate N nrows ncols maxcells nodata fd field = None.
Proof.
  intros H. unfold accumulate, accumulate_with.
  destruct (Z.ltb_spec maxcells 1); [reflexivity|]. destruct (Z.ltb_spec nrows 1); [reflexivity|lia].
Qed.

Section Final.
Variables nrows ncols maxcells : Z.
Variable fd : list Z.
Variable field : list R.
Variable nodata : R.
Variable res : list R.
Hypothesis Hncols : 0 < ncols.
Hypothesis Hfield : zlen field = nrows * ncols.
Hypothesis Hcomplete : complete nrows ncols fd (Z.to_nat (maxcells + 1)).
Hypothesis Hres : accumulate RR nrows ncols maxcells nodata fd field = Some res.

Notation dn := (downstream nrows ncols fd).
Notation valid c := (0 <= c < nrows * ncols).
Notation F := (Z.to_nat (maxcells + 1)).
Notation thr := (through nrows ncols fd F).

Lemma res_is_result : res = result nrows ncols fd field nodata F.
Proof. destruct (accumulate_eq RR _ _ _ _ _ _ _ Hres) as (_ & _ & E). exact E. Qed.

Theorem acc_is_upstream_sum c d :
  valid c -> dn c = Some d -> 0 <= d ->
  zn res c 0%R = (zn field c 0 + Rsum (map (fun i => zn field i 0%R) (thr c)))%R /\
  NoDup (thr c) /\
  (forall i, In i (thr c) <-> (valid i /\ exists k, steps nrows ncols fd (S k) i c)).
Proof.
  intros Hc Hd Hpos. rewrite res_is_result. split; [|split].
  - apply (result_upstream_sum nrows ncols fd field nodata F Hncols Hfield Hcomplete c d Hc Hd Hpos).
  - apply NoDup_filter. apply zseq_nodup.
  - intros i. apply (in_through nrows ncols fd F Hcomplete).
Qed.

Theorem acc_unit_field_counts c d :
  (forall i, valid i -> zn field i 0%R = 1%R) ->
  valid c -> dn c = Some d -> 0 <= d ->
  zn res c 0%R = (1 + INR (List.length (thr c)))%R.
Proof.
  intros Hone Hc Hd Hpos. destruct (acc_is_upstream_sum c d Hc Hd Hpos) as (E & _ & Hin).
  rewrite E, (Hone c Hc). f_equal. rewrite <- Rsum_const_one. apply Rsum_map_ext_in.
  intros i Hi. apply Hone. apply Hin in Hi. tauto.
Qed.

Theorem acc_local c d :
  valid c -> dn c = Some d -> 0 <= d ->
  zn res c 0%R = (zn field c 0 + Rsum (map (fun u => zn res u 0%R) (upstream_hits nrows ncols fd c)))%R.
Proof.
  intros Hc Hd Hpos. rewrite res_is_result.
  apply (result_local nrows ncols fd field nodata F Hncols Hfield Hcomplete c d Hc Hd Hpos).
Qed.

Theorem acc_terminal_nodata c d :
  valid c -> dn c = Some d -> d < 0 -> zn res c 0%R = nodata.
Proof.
  intros Hc Hd Hneg. rewrite res_is_result.
  destruct (accumulate_eq RR _ _ _ _ _ _ _ Hres) as (H1 & _ & _).
  apply (result_terminal nrows ncols fd field nodata F Hncols Hfield Hcomplete c d); try assumption. lia.
Qed.

End Final.
