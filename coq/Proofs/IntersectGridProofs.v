(* Theorems about Model/Intersect.v, part 2 (property C16): the Python layer
   of Catchment.intersect - parent rows/columns, scatter of the weights into
   the weight grid, lower-left corner of the weight grid. *)
From Coq Require Import ZArith Bool List Reals Lra Lia Psatz.
From Hy Require Import Base.Num Gen.Consts Gen.ConstsC16 Model.Grid Model.Intersect
     Proofs.GridGeomProofs Proofs.IntersectProofs.
Import ListNotations.
Open Scope Z_scope.

(* ---------------- arrays ---------------- *)
Lemma upd_nat_length {A} (l : list A) n v : List.length (upd_nat l n v) = List.length l.
Proof. revert n. induction l as [|a l IH]; intros [|n]; cbn; auto. Qed.

Lemma nth_upd_nat {A} (l : list A) n v i d :
  nth i (upd_nat l n v) d =
  if (Nat.eqb i n) && (Nat.ltb n (List.length l)) then v else nth i l d.
Proof.
  revert n i. induction l as [|a l IH]; intros n i.
  - cbn. rewrite andb_false_r. destruct n; reflexivity.
  - destruct n as [|n], i as [|i]; cbn; try reflexivity.
    rewrite IH. reflexivity.
Qed.

Lemma upd_length {A} (l : list A) i v : List.length (upd l i v) = List.length l.
Proof. unfold upd. destruct (i <? 0); [reflexivity|apply upd_nat_length]. Qed.

Lemma zn_upd {A} (l : list A) i v j d :
  0 <= i -> 0 <= j ->
  zn (upd l i v) j d = if (j =? i) && (i <? Z.of_nat (List.length l)) then v else zn l j d.
Proof.
  intros Hi Hj. unfold zn, upd. destruct (Z.ltb_spec i 0); [lia|]. rewrite nth_upd_nat.
  destruct (Z.eqb_spec j i) as [->|ne].
  - rewrite Nat.eqb_refl. cbn [andb].
    destruct (Z.ltb_spec i (Z.of_nat (List.length l))); destruct (Nat.ltb_spec (Z.to_nat i) (List.length l));
      try reflexivity; lia.
  - destruct (Nat.eqb_spec (Z.to_nat j) (Z.to_nat i)); [lia|]. reflexivity.
Qed.

Lemma zn_repeat {A} (v d : A) n j : 0 <= j < Z.of_nat n -> zn (repeat v n) j d = v.
Proof.
  intros H. unfold zn. assert (Hn : (Z.to_nat j < n)%nat) by lia. clear H. revert Hn.
  generalize (Z.to_nat j). clear j.
  induction n as [|n IH]; intros i Hi; [lia|]. destruct i; cbn; [reflexivity|]. apply IH. lia.
Qed.

(* ---------------- min / max of a list ---------------- *)
Lemma fold_min_le l : forall m, fold_left Z.min l m <= m /\ (forall x, In x l -> fold_left Z.min l m <= x).
Proof.
  induction l as [|a l IH]; intros m; cbn; [split; [lia|tauto]|].
  destruct (IH (Z.min m a)) as [H1 H2]. split; [lia|]. intros x [->|I]; [lia|auto].
Qed.
Lemma fold_min_in l : forall m, fold_left Z.min l m = m \/ In (fold_left Z.min l m) l.
Proof.
  induction l as [|a l IH]; intros m; cbn; [left; reflexivity|].
  destruct (IH (Z.min m a)) as [E|I]; [|right; right; assumption].
  rewrite E. destruct (Z.min_spec m a) as [[_ ->]|[_ ->]]; [left; reflexivity|right; left; reflexivity].
Qed.
Lemma fold_max_ge l : forall m, m <= fold_left Z.max l m /\ (forall x, In x l -> x <= fold_left Z.max l m).
Proof.
  induction l as [|a l IH]; intros m; cbn; [split; [lia|tauto]|].
  destruct (IH (Z.max m a)) as [H1 H2]. split; [lia|]. intros x [->|I]; [lia|auto].
Qed.
Lemma fold_max_in l : forall m, fold_left Z.max l m = m \/ In (fold_left Z.max l m) l.
Proof.
  induction l as [|a l IH]; intros m; cbn; [left; reflexivity|].
  destruct (IH (Z.max m a)) as [E|I]; [|right; right; assumption].
  rewrite E. destruct (Z.max_spec m a) as [[_ ->]|[_ ->]]; [right; left; reflexivity|left; reflexivity].
Qed.

Lemma zmin_list_spec l : l <> [] -> In (zmin_list l) l /\ forall x, In x l -> zmin_list l <= x.
Proof.
  destruct l as [|a l]; [congruence|]. intros _. unfold zmin_list. cbn [hd tl].
  destruct (fold_min_le l a) as [H1 H2]. split.
  - destruct (fold_min_in l a) as [->|I]; [left; reflexivity|right; assumption].
  - intros x [<-|I]; auto.
Qed.
Lemma zmax_list_spec l : l <> [] -> In (zmax_list l) l /\ forall x, In x l -> x <= zmax_list l.
Proof.
  destruct l as [|a l]; [congruence|]. intros _. unfold zmax_list. cbn [hd tl].
  destruct (fold_max_ge l a) as [H1 H2]. split.
  - destruct (fold_max_in l a) as [->|I]; [left; reflexivity|right; assumption].
  - intros x [<-|I]; auto.
Qed.

(* ---------------- scatter ---------------- *)
Section Scatter.
Context {T : Type}.
Variable ancols : Z.
Variable d : T.

Definition flat (pw : (Z * Z) * T) : Z := fst (fst pw) * ancols + snd (fst pw).
Definition sstep (m : list T) (pw : (Z * Z) * T) : list T := upd m (flat pw) (snd pw).

Lemma scatter_fold l : forall m,
  NoDup (map flat l) -> (forall pw, In pw l -> 0 <= flat pw < Z.of_nat (List.length m)) ->
  List.length (fold_left sstep l m) = List.length m /\
  (forall pw, In pw l -> zn (fold_left sstep l m) (flat pw) d = snd pw) /\
  (forall q, 0 <= q -> ~ In q (map flat l) -> zn (fold_left sstep l m) q d = zn m q d).
Proof.
  induction l as [|pw0 l IH]; intros m ND Hr; cbn [fold_left].
  - split; [reflexivity|]. split; [intros pw []|reflexivity].
  - cbn [map] in ND. inversion ND as [|? ? Hn ND']; subst.
    assert (Hr0 := Hr pw0 (or_introl eq_refl)).
    destruct (IH (sstep m pw0) ND') as (L & A & B).
    { intros pw I. unfold sstep. rewrite upd_length. apply Hr. right; assumption. }
    split; [rewrite L; unfold sstep; apply upd_length|]. split.
    + intros pw [<-|I]; [|apply A, I].
      rewrite B; [|lia|assumption]. unfold sstep. rewrite zn_upd by lia.
      rewrite Z.eqb_refl. destruct (Z.ltb_spec (flat pw0) (Z.of_nat (List.length m))); [reflexivity|lia].
    + intros q Hq Hnq. cbn [map] in Hnq.
      rewrite B; [|assumption|intros I; apply Hnq; right; assumption].
      unfold sstep. rewrite zn_upd by lia.
      destruct (Z.eqb_spec q (flat pw0)); [subst; exfalso; apply Hnq; left; reflexivity|reflexivity].
Qed.
End Scatter.

Lemma scatter_length {T} ancols pos (ws init : list T) :
  List.length (scatter ancols pos ws init) = List.length init.
Proof.
  unfold scatter. generalize (combine pos ws). intros l. revert init.
  induction l as [|a l IH]; intros init; cbn [fold_left]; [reflexivity|].
  rewrite IH. apply upd_length.
Qed.

Lemma combine_map_fst_snd {A B C} (f : A -> C) (l : list (A * B)) :
  combine (map f (map fst l)) (map snd l) = map (fun p => (f (fst p), snd p)) l.
Proof. induction l as [|[a b] l IH]; cbn; [reflexivity|]. rewrite IH. reflexivity. Qed.

Lemma combine_fst_snd {A B} (l : list (A * B)) : combine (map fst l) (map snd l) = l.
Proof. induction l as [|[a b] l IH]; cbn; [reflexivity|]. rewrite IH. reflexivity. Qed.

Lemma nodup_map_inj_in {A B} (f : A -> B) (l : list A) :
  (forall x y, In x l -> In y l -> f x = f y -> x = y) -> NoDup l -> NoDup (map f l).
Proof.
  induction l as [|a l IH]; intros Hinj ND; cbn; [constructor|].
  inversion ND as [|? ? Hn ND']; subst. constructor.
  - intros I. apply in_map_iff in I. destruct I as (y & E & Iy).
    assert (y = a) by (apply Hinj; [right; assumption|left; reflexivity|assumption]). subst. contradiction.
  - apply IH; [|assumption]. intros x y Ix Iy. apply Hinj; right; assumption.
Qed.

Lemma in_map_fst_map {A B C} (f : A -> B * C) l z :
  In z (map fst (map f l)) -> exists k, In k l /\ fst (f k) = z.
Proof.
  intros I. apply in_map_iff in I. destruct I as (p & E & I). apply in_map_iff in I.
  destruct I as (k & <- & I). exists k. auto.
Qed.
Lemma in_map_snd_map {A B C} (f : A -> B * C) l z :
  In z (map snd (map f l)) -> exists k, In k l /\ snd (f k) = z.
Proof.
  intros I. apply in_map_iff in I. destruct I as (p & E & I). apply in_map_iff in I.
  destruct I as (k & <- & I). exists k. auto.
Qed.

(* ---------------- the weight grid of Catchment.intersect ---------------- *)
Section WeightGrid.
Context {T : Type} (N : NumOps T).
Variables (nrows ncols : Z) (xll yll csz : T).
Variable acc : list (Z * T).
Hypothesis Hncols : 0 < ncols.
Hypothesis Hnonempty : acc <> [].
Hypothesis Hnodup : NoDup (map fst acc).
Hypothesis Hvalid : forall k, In k (map fst acc) -> 0 <= k < nrows * ncols.

Let r := ires_of_acc N nrows ncols xll yll csz acc.
Let rowof (k : Z) := fst (cell2rowcol nrows ncols k).
Let colof (k : Z) := snd (cell2rowcol nrows ncols k).

Lemma rowcol_of k : In k (map fst acc) ->
  k = rowof k * ncols + colof k /\ 0 <= colof k < ncols /\ 0 <= rowof k < nrows.
Proof.
  intros I. pose proof (cell2rowcol_valid nrows ncols k Hncols (Hvalid k I)) as H.
  unfold rowof, colof. destruct (cell2rowcol nrows ncols k). exact H.
Qed.

Lemma rows_nonempty : map fst (map (cell2rowcol nrows ncols) (map fst acc)) <> [].
Proof. destruct acc; [congruence|cbn; discriminate]. Qed.
Lemma cols_nonempty : map snd (map (cell2rowcol nrows ncols) (map fst acc)) <> [].
Proof. destruct acc; [congruence|cbn; discriminate]. Qed.

Lemma in_rows k : In k (map fst acc) ->
  In (rowof k) (map fst (map (cell2rowcol nrows ncols) (map fst acc))).
Proof. intros I. unfold rowof. apply in_map, in_map, I. Qed.
Lemma in_cols k : In k (map fst acc) ->
  In (colof k) (map snd (map (cell2rowcol nrows ncols) (map fst acc))).
Proof. intros I. unfold colof. apply in_map, in_map, I. Qed.

(* the parent rows/columns are the bounding box of the listed cells, attained on each side *)
Theorem parent_box :
  (forall k, In k (ir_idx r) ->
     ir_row_start r <= rowof k <= ir_row_end r /\ ir_col_start r <= colof k <= ir_col_end r) /\
  (exists k, In k (ir_idx r) /\ rowof k = ir_row_start r) /\
  (exists k, In k (ir_idx r) /\ rowof k = ir_row_end r) /\
  (exists k, In k (ir_idx r) /\ colof k = ir_col_start r) /\
  (exists k, In k (ir_idx r) /\ colof k = ir_col_end r).
Proof.
  unfold r, ires_of_acc. cbn [ir_idx ir_row_start ir_row_end ir_col_start ir_col_end].
  destruct (zmin_list_spec _ rows_nonempty) as [A1 A2]. destruct (zmax_list_spec _ rows_nonempty) as [B1 B2].
  destruct (zmin_list_spec _ cols_nonempty) as [C1 C2]. destruct (zmax_list_spec _ cols_nonempty) as [D1 D2].
  split; [|repeat split].
  - intros k I. pose proof (in_rows k I). pose proof (in_cols k I).
    repeat split; auto.
  - apply in_map_fst_map in A1. destruct A1 as (k & I & E). exists k. auto.
  - apply in_map_fst_map in B1. destruct B1 as (k & I & E). exists k. auto.
  - apply in_map_snd_map in C1. destruct C1 as (k & I & E). exists k. auto.
  - apply in_map_snd_map in D1. destruct D1 as (k & I & E). exists k. auto.
Qed.

Theorem weight_grid_shape :
  ir_nrows r = ir_row_end r - ir_row_start r + 1 /\ ir_ncols r = ir_col_end r - ir_col_start r + 1 /\
  1 <= ir_nrows r /\ 1 <= ir_ncols r /\
  Z.of_nat (List.length (ir_data r)) = ir_nrows r * ir_ncols r.
Proof.
  destruct parent_box as (Hb & (k1 & I1 & E1) & _ & (k3 & I3 & E3) & _).
  pose proof (Hb k1 I1) as [H1 _]. pose proof (Hb k3 I3) as [_ H3].
  assert (Hs : ir_nrows r = ir_row_end r - ir_row_start r + 1 /\
               ir_ncols r = ir_col_end r - ir_col_start r + 1) by (split; reflexivity).
  destruct Hs as [Hs1 Hs2]. repeat split; try assumption; try lia.
  unfold r at 1, ires_of_acc. cbn [ir_data]. rewrite scatter_length, repeat_length.
  change (Z.of_nat (Z.to_nat ((ir_row_end r - ir_row_start r + 1) * (ir_col_end r - ir_col_start r + 1)))
          = ir_nrows r * ir_ncols r).
  rewrite Z2Nat.id by nia. rewrite Hs1, Hs2. reflexivity.
Qed.

(* position of cell k in the flat weight grid *)
Definition slot (k : Z) : Z :=
  (rowof k - ir_row_start r) * ir_ncols r + (colof k - ir_col_start r).

Lemma slot_inj k k' : In k (map fst acc) -> In k' (map fst acc) -> slot k = slot k' -> k = k'.
Proof.
  intros I I' E. destruct parent_box as (Hb & _).
  destruct (Hb k I) as [Hr Hc]. destruct (Hb k' I') as [Hr' Hc'].
  destruct weight_grid_shape as (_ & Hs2 & _).
  unfold slot in E.
  destruct (rowcol_inj (ir_ncols r) (rowof k - ir_row_start r) (colof k - ir_col_start r)
              (rowof k' - ir_row_start r) (colof k' - ir_col_start r)) as [E1 E2]; try lia.
  destruct (rowcol_of k I) as (-> & _). destruct (rowcol_of k' I') as (Ek' & _).
  rewrite Ek' at 1. replace (rowof k) with (rowof k') by lia. replace (colof k) with (colof k') by lia.
  reflexivity.
Qed.

(* ★ the weight grid holds the weight of each listed cell at
   (row - row_start, col - col_start) and zero everywhere else *)
Theorem weight_grid_placement :
  (forall k w, In (k, w) (combine (ir_idx r) (ir_w r)) ->
     0 <= rowof k - ir_row_start r < ir_nrows r /\ 0 <= colof k - ir_col_start r < ir_ncols r /\
     zn (ir_data r) (slot k) (n0 N) = w) /\
  (forall i j, 0 <= i < ir_nrows r -> 0 <= j < ir_ncols r ->
     (forall k, In k (ir_idx r) -> (rowof k, colof k) <> (ir_row_start r + i, ir_col_start r + j)) ->
     zn (ir_data r) (i * ir_ncols r + j) (n0 N) = n0 N).
Proof.
  destruct parent_box as (Hb & _).
  destruct weight_grid_shape as (Hs1 & Hs2 & Hp1 & Hp2 & Hlen).
  assert (Eidx : ir_idx r = map fst acc) by reflexivity.
  assert (Ew : ir_w r = map snd acc) by reflexivity.
  set (g := fun k => (rowof k - ir_row_start r, colof k - ir_col_start r)).
  set (l := map (fun p : Z * T => (g (fst p), snd p)) acc).
  assert (Edata : ir_data r = fold_left (sstep (ir_ncols r)) l
                     (repeat (n0 N) (Z.to_nat (ir_nrows r * ir_ncols r)))).
  { unfold r at 1, ires_of_acc. cbn [ir_data]. unfold scatter. f_equal.
    rewrite (map_map (cell2rowcol nrows ncols)). rewrite combine_map_fst_snd. reflexivity. }
  assert (Hflat : map (flat (ir_ncols r)) l = map slot (map fst acc)).
  { unfold l. rewrite !map_map. apply map_ext. intros [k w]. reflexivity. }
  assert (ND : NoDup (map (flat (ir_ncols r)) l)).
  { rewrite Hflat. apply nodup_map_inj_in; [|assumption]. intros; apply slot_inj; assumption. }
  assert (Hrange : forall k, In k (map fst acc) ->
            0 <= rowof k - ir_row_start r < ir_nrows r /\ 0 <= colof k - ir_col_start r < ir_ncols r).
  { intros k I. rewrite <- Eidx in I. destruct (Hb k I). lia. }
  assert (Hr : forall pw, In pw l -> 0 <= flat (ir_ncols r) pw <
             Z.of_nat (List.length (repeat (n0 N) (Z.to_nat (ir_nrows r * ir_ncols r))))).
  { intros pw I. unfold l in I. apply in_map_iff in I. destruct I as ([k w] & <- & I).
    rewrite repeat_length, Z2Nat.id by nia. unfold flat, g. cbn [fst snd].
    assert (Ik : In k (map fst acc)) by (change k with (fst (k, w)); apply in_map, I).
    destruct (Hrange k Ik). nia. }
  destruct (scatter_fold (ir_ncols r) (n0 N) l _ ND Hr) as (_ & A & B).
  split.
  - intros k w I. rewrite Eidx, Ew, combine_fst_snd in I.
    assert (Ik : In k (map fst acc)) by (change k with (fst (k, w)); apply in_map, I).
    destruct (Hrange k Ik) as [R1 R2]. split; [assumption|]. split; [assumption|].
    rewrite Edata. specialize (A (g k, w)). cbn [snd] in A. apply A.
    unfold l. apply in_map_iff. exists (k, w). split; [reflexivity|assumption].
  - intros i j Hi Hj Hfree. rewrite Edata, B.
    + apply zn_repeat. rewrite Z2Nat.id by nia. nia.
    + nia.
    + rewrite Hflat. intros I. apply in_map_iff in I. destruct I as (k & E & Ik).
      unfold slot in E. destruct (Hrange k Ik) as [R1 R2].
      destruct (rowcol_inj (ir_ncols r) (rowof k - ir_row_start r) (colof k - ir_col_start r) i j) as [E1 E2];
        try lia.
      apply (Hfree k); [rewrite Eidx; assumption|]. f_equal; lia.
Qed.

End WeightGrid.
