(* Theorems about Model/Intersect.v, part 2 (property C16): the Python layer
   of Catchment.intersect - parent rows/columns, scatter of the weights into
   the weight grid, lower-left corner of the weight grid. *)
From Coq Require Import ZArith Bool List Reals Lra Lia Psatz.
From Hy Require Import Base.Num Gen.Consts Gen.ConstsC16 Model.Grid Model.Intersect
     Proofs.GridGeomProofs Proofs.IntersectProofs.
Import ListNotations.
Open Scope Z_scope.

(* ---------------- arrays ---------------- *)
Lemma upd_nat_length {A} (l : list A) n v : List.length (upd_nat l n v) = List.length l.
Proof. revert n. induction l as [|a l IH]; intros [|n]; cbn; auto. Qed.

Lemma nth_upd_nat {A} (l : list A) n v i d :
  nth i (upd_nat l n v) d =
  if (Nat.eqb i n) && (Nat.ltb n (List.length l)) then v else nth i l d.
Proof.
  revert n i. induction l as [|a l IH]; intros n i.
  - cbn. rewrite andb_false_r. destruct n; reflexivity.
  - destruct n as [|n], i as [|i]; cbn; try reflexivity.
    rewrite IH. reflexivity.
Qed.

Lemma upd_length {A} (l : list A) i v : List.length (upd l i v) = List.length l.
Proof. unfold upd. destruct (i <? 0); [reflexivity|apply upd_nat_length]. Qed.

Lemma zn_upd {A} (l : list A) i v j d :
  0 <= i -> 0 <= j ->
  zn (upd l i v) j d = if (j =? i) && (i <? Z.of_nat (List.length l)) then v else zn l j d.
Proof.
  intros Hi Hj. unfold zn, upd. destruct (Z.ltb_spec i 0); [lia|]. rewrite nth_upd_nat.
  destruct (Z.eqb_spec j i) as [->|ne].
  - rewrite Nat.eqb_refl. cbn [andb].
    destruct (Z.ltb_spec i (Z.of_nat (List.length l))); destruct (Nat.ltb_spec (Z.to_nat i) (List.length l));
      try reflexivity; lia.
  - destruct (Nat.eqb_spec (Z.to_nat j) (Z.to_nat i)); [lia|]. reflexivity.
Qed.

Lemma zn_repeat {A} (v d : A) n j : 0 <= j < Z.of_nat n -> zn (repeat v n) j d = v.
Proof.
  intros H. unfold zn. assert (Hn : (Z.to_nat j < n)%nat) by lia. clear H. revert Hn.
  generalize (Z.to_nat j). clear j.
  induction n as [|n IH]; intros i Hi; [lia|]. destruct i; cbn; [reflexivity|]. apply IH. lia.
Qed.

(* ---------------- min / max of a list ---------------- *)
Lemma fold_min_le l : forall m, fold_left Z.min l m <= m /\ (forall x, In x l -> fold_left Z.min l m <= x).
Proof.
  induction l as [|a l IH]; intros m; cbn; [split; [lia|tauto]|].
  destruct (IH (Z.min m a)) as [H1 H2]. split; [lia|]. intros x [->|I]; [lia|auto].
Qed.
Lemma fold_min_in l : forall m, fold_left Z.min l m = m \/ In (fold_left Z.min l m) l.
Proof.
  induction l as [|a l IH]; intros m; cbn; [left; reflexivity|].
  destruct (IH (Z.min m a)) as [E|I]; [|right; right; assumption].
  rewrite E. destruct (Z.min_spec m a) as [[_ ->]|[_ ->]]; [left; reflexivity|right; left; reflexivity].
Qed.
Lemma fold_max_ge l : forall m, m <= fold_left Z.max l m /\ (forall x, In x l -> x <= fold_left Z.max l m).
Proof.
  induction l as [|a l IH]; intros m; cbn; [split; [lia|tauto]|].
  destruct (IH (Z.max m a)) as [H1 H2]. split; [lia|]. intros x [->|I]; [lia|auto].
Qed.
Lemma fold_max_in l : forall m, fold_left Z.max l m = m \/ In (fold_left Z.max l m) l.
Proof.
  induction l as [|a l IH]; intros m; cbn; [left; reflexivity|].
  destruct (IH (Z.max m a)) as [E|I]; [|right; right; assumption].
  rewrite E. destruct (Z.max_spec m a) as [[_ ->]|[_ ->]]; [right; left; reflexivity|left; reflexivity].
Qed.

Lemma zmin_list_spec l : l <> [] -> In (zmin_list l) l /\ forall x, In x l -> zmin_list l <= x.
Proof.
  destruct l as [|a l]; [congruence|]. intros _. unfold zmin_list. cbn [hd tl].
  destruct (fold_min_le l a) as [H1 H2]. split.
  - destruct (fold_min_in l a) as [->|I]; [left; reflexivity|right; assumption].
  - intros x [<-|I]; auto.
Qed.
Lemma zmax_list_spec l : l <> [] -> In (zmax_list l) l /\ forall x, In x l -> x <= zmax_list l.
Proof.
  destruct l as [|a l]; [congruence|]. intros _. unfold zmax_list. cbn [hd tl].
  destruct (fold_max_ge l a) as [H1 H2]. split.
  - destruct (fold_max_in l a) as [->|I]; [left; reflexivity|right; assumption].
  - intros x [<-|I]; auto.
Qed.

(* ---------------- scatter ---------------- *)
Section Scatter.
Context {T : Type}.
Variable ancols : Z.
Variable d : T.

Definition flat (pw : (Z * Z) * T) : Z := fst (fst pw) * ancols + snd (fst pw).
Definition sstep (m : list T) (pw : (Z * Z) * T) : list T := upd m (flat pw) (snd pw).

Lemma scatter_fold l : forall m,
  NoDup (map flat l) -> (forall pw, In pw l -> 0 <= flat pw < Z.of_nat (List.length m)) ->
  List.length (fold_left sstep l m) = List.length m /\
  (forall pw, In pw l -> zn (fold_left sstep l m) (flat pw) d = snd pw) /\
  (forall q, 0 <= q -> ~ In q (map flat l) -> zn (fold_left sstep l m) q d = zn m q d).
Proof.
  induction l as [|pw0 l IH]; intros m ND Hr; cbn [fold_left].
  - split; [reflexivity|]. split; [intros pw []|reflexivity].
  - cbn [map] in ND. inversion ND as [|? ? Hn ND']; subst.
    assert (Hr0 := Hr pw0 (or_introl eq_refl)).
    destruct (IH (sstep m pw0) ND') as (L & A & B).
    { intros pw I. unfold sstep. rewrite upd_length. apply Hr. right; assumption. }
    split; [rewrite L; unfold sstep; apply upd_length|]. split.
    + intros pw [<-|I]; [|apply A, I].
      rewrite B; [|lia|assumption]. unfold sstep. rewrite zn_upd by lia.
      rewrite Z.eqb_refl. destruct (Z.ltb_spec (flat pw0) (Z.of_nat (List.length m))); [reflexivity|lia].
    + intros q Hq Hnq. cbn [map] in Hnq.
      rewrite B; [|assumption|intros I; apply Hnq; right; assumption].
      unfold sstep. rewrite zn_upd by lia.
      destruct (Z.eqb_spec q (flat pw0)); [subst; exfalso; apply Hnq; left; reflexivity|reflexivity].
Qed.
End Scatter.

Lemma scatter_length {T} ancols pos (ws init : list T) :
  List.length (scatter ancols pos ws init) = List.length init.
Proof.
  unfold scatter. generalize (combine pos ws). intros l. revert init.
  induction l as [|a l IH]; intros init; cbn [fold_left]; [reflexivity|].
  rewrite IH. apply upd_length.
Qed.

Lemma combine_map_fst_snd {A B C} (f : A -> C) (l : list (A * B)) :
  combine (map f (map fst l)) (map snd l) = map (fun p => (f (fst p), snd p)) l.
Proof. induction l as [|[a b] l IH]; cbn; [reflexivity|]. rewrite IH. reflexivity. Qed.

Lemma combine_fst_snd {A B} (l : list (A * B)) : combine (map fst l) (map snd l) = l.
Proof. induction l as [|[a b] l IH]; cbn; [reflexivity|]. rewrite IH. reflexivity. Qed.

Lemma nodup_map_inj_in {A B} (f : A -> B) (l : list A) :
  (forall x y, In x l -> In y l -> f x = f y -> x = y) -> NoDup l -> NoDup (map f l).
Proof.
  induction l as [|a l IH]; intros Hinj ND; cbn; [constructor|].
  inversion ND as [|? ? Hn ND']; subst. constructor.
  - intros I. apply in_map_iff in I. destruct I as (y & E & Iy).
    assert (y = a) by (apply Hinj; [right; assumption|left; reflexivity|assumption]). subst. contradiction.
  - apply IH; [|assumption]. intros x y Ix Iy. apply Hinj; right; assumption.
Qed.

Lemma in_map_fst_map {A B C} (f : A -> B * C) l z :
  In z (map fst (map f l)) -> exists k, In k l /\ fst (f k) = z.
Proof.
  intros I. apply in_map_iff in I. destruct I as (p & E & I). apply in_map_iff in I.
  destruct I as (k & <- & I). exists k. auto.
Qed.
Lemma in_map_snd_map {A B C} (f : A -> B * C) l z :
  In z (map snd (map f l)) -> exists k, In k l /\ snd (f k) = z.
Proof.
  intros I. apply in_map_iff in I. destruct I as (p & E & I). apply in_map_iff in I.
  destruct I as (k & <- & I). exists k. auto.
Qed.

(* ---------------- the weight grid of Catchment.intersect ---------------- *)
Section WeightGrid.
Context {T : Type} (N : NumOps T).
Variables (nrows ncols : Z) (xll yll csz : T).
Variable acc : list (Z * T).
Hypothesis Hncols : 0 < ncols.
Hypothesis Hnonempty : acc <> [].
Hypothesis Hnodup : NoDup (map fst acc).
Hypothesis Hvalid : forall k, In k (map fst acc) -> 0 <= k < nrows * ncols.

Let r := ires_of_acc N nrows ncols xll yll csz acc.
Let rowof (k : Z) := fst (cell2rowcol nrows ncols k).
Let colof (k : Z) := snd (cell2rowcol nrows ncols k).

Lemma rowcol_of k : In k (map fst acc) ->
  k = rowof k * ncols + colof k /\ 0 <= colof k < ncols /\ 0 <= rowof k < nrows.
Proof.
  intros I. pose proof (cell2rowcol_valid nrows ncols k Hncols (Hvalid k I)) as H.
  unfold rowof, colof. destruct (cell2rowcol nrows ncols k). exact H.
Qed.

Lemma rows_nonempty : map fst (map (cell2rowcol nrows ncols) (map fst acc)) <> [].
Proof. destruct acc; [congruence|cbn; discriminate]. Qed.
Lemma cols_nonempty : map snd (map (cell2rowcol nrows ncols) (map fst acc)) <> [].
Proof. destruct acc; [congruence|cbn; discriminate]. Qed.

Lemma in_rows k : In k (map fst acc) ->
  In (rowof k) (map fst (map (cell2rowcol nrows ncols) (map fst acc))).
Proof. intros I. unfold rowof. apply in_map, in_map, I. Qed.
Lemma in_cols k : In k (map fst acc) ->
  In (colof k) (map snd (map (cell2rowcol nrows ncols) (map fst acc))).
Proof. intros I. unfold colof. apply in_map, in_map, I. Qed.

(* the parent rows/columns are the bounding box of the listed cells, attained on each side *)
Theorem parent_box :
  (forall k, In k (ir_idx r) ->
     ir_row_start r <= rowof k <= ir_row_end r /\ ir_col_start r <= colof k <= ir_col_end r) /\
  (exists k, In k (ir_idx r) /\ rowof k = ir_row_start r) /\
  (exists k, In k (ir_idx r) /\ rowof k = ir_row_end r) /\
  (exists k, In k (ir_idx r) /\ colof k = ir_col_start r) /\
  (exists k, In k (ir_idx r) /\ colof k = ir_col_end r).
Proof.
  unfold r, ires_of_acc. cbn [ir_idx ir_row_start ir_row_end ir_col_start ir_col_end].
  destruct (zmin_list_spec _ rows_nonempty) as [A1 A2]. destruct (zmax_list_spec _ rows_nonempty) as [B1 B2].
  destruct (zmin_list_spec _ cols_nonempty) as [C1 C2]. destruct (zmax_list_spec _ cols_nonempty) as [D1 D2].
  split; [|repeat split].
  - intros k I. pose proof (in_rows k I). pose proof (in_cols k I).
    repeat split; auto.
  - apply in_map_fst_map in A1. destruct A1 as (k & I & E). exists k. auto.
  - apply in_map_fst_map in B1. destruct B1 as (k & I & E). exists k. auto.
  - apply in_map_snd_map in C1. destruct C1 as (k & I & E). exists k. auto.
  - apply in_map_snd_map in D1. destruct D1 as (k & I & E). exists k. auto.
Qed.

Theorem weight_grid_shape :
  ir_nrows r = ir_row_end r - ir_row_start r + 1 /\ ir_ncols r = ir_col_end r - ir_col_start r + 1 /\
  1 <= ir_nrows r /\ 1 <= ir_ncols r /\
  Z.of_nat (List.length (ir_data r)) = ir_nrows r * ir_ncols r.
Proof.
  destruct parent_box as (Hb & (k1 & I1 & E1) & _ & (k3 & I3 & E3) & _).
  pose proof (Hb k1 I1) as [H1 _]. pose proof (Hb k3 I3) as [_ H3].
  assert (Hs : ir_nrows r = ir_row_end r - ir_row_start r + 1 /\
               ir_ncols r = ir_col_end r - ir_col_start r + 1) by (split; reflexivity).
  destruct Hs as [Hs1 Hs2]. repeat split; try assumption; try lia.
  unfold r at 1, ires_of_acc. cbn [ir_data]. rewrite scatter_length, repeat_length.
  change (Z.of_nat (Z.to_nat ((ir_row_end r - ir_row_start r + 1) * (ir_col_end r - ir_col_start r + 1)))
          = ir_nrows r * ir_ncols r).
  rewrite Z2Nat.id by nia. rewrite Hs1, Hs2. reflexivity.
Qed.

(* position of cell k in the flat weight grid *)
Definition slot (k : Z) : Z :=
  (rowof k - ir_row_start r) * ir_ncols r + (colof k - ir_col_start r).

Lemma slot_inj k k' : In k (map fst acc) -> In k' (map fst acc) -> slot k = slot k' -> k = k'.
Proof.
  intros I I' E. destruct parent_box as (Hb & _).
  destruct (Hb k I) as [Hr Hc]. destruct (Hb k' I') as [Hr' Hc'].
  destruct weight_grid_shape as (_ & Hs2 & _).
  unfold slot in E.
  destruct (rowcol_inj (ir_ncols r) (rowof k - ir_row_start r) (colof k - ir_col_start r)
              (rowof k' - ir_row_start r) (colof k' - ir_col_start r)) as [E1 E2]; try lia.
  destruct (rowcol_of k I) as (-> & _). destruct (rowcol_of k' I') as (Ek' & _).
  rewrite Ek' at 1. replace (rowof k) with (rowof k') by lia. replace (colof k) with (colof k') by lia.
  reflexivity.
Qed.

(* ★ the weight grid holds the weight of each listed cell at
   (row - row_start, col - col_start) and zero everywhere else *)
Theorem weight_grid_placement :
  (forall k w, In (k, w) (combine (ir_idx r) (ir_w r)) ->
     0 <= rowof k - ir_row_start r < ir_nrows r /\ 0 <= colof k - ir_col_start r < ir_ncols r /\
     zn (ir_data r) (slot k) (n0 N) = w) /\
  (forall i j, 0 <= i < ir_nrows r -> 0 <= j < ir_ncols r ->
     (forall k, In k (ir_idx r) -> (rowof k, colof k) <> (ir_row_start r + i, ir_col_start r + j)) ->
     zn (ir_data r) (i * ir_ncols r + j) (n0 N) = n0 N).
Proof.
  destruct parent_box as (Hb & _).
  destruct weight_grid_shape as (Hs1 & Hs2 & Hp1 & Hp2 & Hlen).
  assert (Eidx : ir_idx r = map fst acc) by reflexivity.
  assert (Ew : ir_w r = map snd acc) by reflexivity.
  set (g := fun k => (rowof k - ir_row_start r, colof k - ir_col_start r)).
  set (l := map (fun p : Z * T => (g (fst p), snd p)) acc).
  assert (Edata : ir_data r = fold_left (sstep (ir_ncols r)) l
                     (repeat (n0 N) (Z.to_nat (ir_nrows r * ir_ncols r)))).
  { unfold r at 1, ires_of_acc. cbn [ir_data]. unfold scatter. f_equal.
    rewrite (map_map (cell2rowcol nrows ncols)). rewrite combine_map_fst_snd. reflexivity. }
  assert (Hflat : map (flat (ir_ncols r)) l = map slot (map fst acc)).
  { unfold l. rewrite !map_map. apply map_ext. intros [k w]. reflexivity. }
  assert (ND : NoDup (map (flat (ir_ncols r)) l)).
  { rewrite Hflat. apply nodup_map_inj_in; [|assumption]. intros; apply slot_inj; assumption. }
  assert (Hrange : forall k, In k (map fst acc) ->
            0 <= rowof k - ir_row_start r < ir_nrows r /\ 0 <= colof k - ir_col_start r < ir_ncols r).
  { intros k I. rewrite <- Eidx in I. destruct (Hb k I). lia. }
  assert (Hr : forall pw, In pw l -> 0 <= flat (ir_ncols r) pw <
             Z.of_nat (List.length (repeat (n0 N) (Z.to_nat (ir_nrows r * ir_ncols r))))).
  { intros pw I. unfold l in I. apply in_map_iff in I. destruct I as ([k w] & <- & I).
    rewrite repeat_length, Z2Nat.id by nia. unfold flat, g. cbn [fst snd].
    assert (Ik : In k (map fst acc)) by (change k with (fst (k, w)); apply in_map, I).
    destruct (Hrange k Ik). nia. }
  destruct (scatter_fold (ir_ncols r) (n0 N) l _ ND Hr) as (_ & A & B).
  split.
  - intros k w I. rewrite Eidx, Ew, combine_fst_snd in I.
    assert (Ik : In k (map fst acc)) by (change k with (fst (k, w)); apply in_map, I).
    destruct (Hrange k Ik) as [R1 R2]. split; [assumption|]. split; [assumption|].
    rewrite Edata. specialize (A (g k, w)). cbn [snd] in A. apply A.
    unfold l. apply in_map_iff. exists (k, w). split; [reflexivity|assumption].
  - intros i j Hi Hj Hfree. rewrite Edata, B.
    + apply zn_repeat. rewrite Z2Nat.id by nia. nia.
    + nia.
    + rewrite Hflat. intros I. apply in_map_iff in I. destruct I as (k & E & Ik).
      unfold slot in E. destruct (Hrange k Ik) as [R1 R2].
      destruct (rowcol_inj (ir_ncols r) (rowof k - ir_row_start r) (colof k - ir_col_start r) i j) as [E1 E2];
        try lia.
      apply (Hfree k); [rewrite Eidx; assumption|]. f_equal; lia.
Qed.

End WeightGrid.

(* ---------------- Catchment.intersect as a whole ---------------- *)
Section IntersectPy.
Context {T : Type} (N : NumOps T).
Variables (nr_a nc_a : Z) (xll_a yll_a csz_a : T) (filled : bool) (cells cells_filled : list Z).
Variables (nrows ncols : Z) (xll yll csz : T).

Let xys := area_xy N nr_a nc_a xll_a yll_a csz_a filled cells cells_filled.
Let acc := c_intersect N nrows ncols xll yll csz csz_a xys.

Lemma intersect_py_some r :
  intersect_py N nr_a nc_a xll_a yll_a csz_a filled cells cells_filled nrows ncols xll yll csz = Some r ->
  acc <> [] /\ r = ires_of_acc N nrows ncols xll yll csz acc.
Proof.
  unfold intersect_py. fold xys. fold acc. destruct acc eqn:E; [discriminate|].
  intros H. injection H as <-. split; [discriminate|reflexivity].
Qed.

(* the error path: ValueError exactly when no centre is located in the grid *)
Theorem intersect_py_none :
  intersect_py N nr_a nc_a xll_a yll_a csz_a filled cells cells_filled nrows ncols xll yll csz = None <->
  (forall xy, In xy xys -> coord2cell N nrows ncols xll yll csz xy < 0).
Proof.
  unfold intersect_py. fold xys. fold acc. split.
  - intros H xy I. destruct acc eqn:E; [|discriminate].
    destruct (Z_lt_le_dec (coord2cell N nrows ncols xll yll csz xy) 0) as [|Hge]; [assumption|].
    exfalso.
    assert (K : In (coord2cell N nrows ncols xll yll csz xy) (map fst acc)).
    { unfold acc, c_intersect. apply intersect_keys. split; [assumption|]. exists xy. auto. }
    rewrite E in K. contradiction.
  - intros H. destruct acc as [|[k w] l] eqn:E; [reflexivity|]. exfalso.
    assert (K : In k (map fst acc)) by (rewrite E; left; reflexivity).
    unfold acc, c_intersect in K. apply intersect_keys in K. destruct K as (Hk & xy & I & Exy).
    specialize (H xy I). lia.
Qed.

Lemma acc_valid k : In k (map fst acc) -> 0 <= k < nrows * ncols.
Proof.
  intros K. unfold acc, c_intersect in K. apply intersect_keys in K. destruct K as (Hk & xy & _ & E).
  destruct (coord2cell_range N nrows ncols xll yll csz xy); lia.
Qed.

(* ★ weight grid: parent rows/columns and placement, for every arithmetic *)
Theorem intersect_py_weight_grid r :
  0 < ncols ->
  intersect_py N nr_a nc_a xll_a yll_a csz_a filled cells cells_filled nrows ncols xll yll csz = Some r ->
  let rowof k := fst (cell2rowcol nrows ncols k) in
  let colof k := snd (cell2rowcol nrows ncols k) in
  NoDup (ir_idx r) /\ List.length (ir_idx r) = List.length (ir_w r) /\
  (forall k, In k (ir_idx r) -> 0 <= k < nrows * ncols) /\
  ir_nrows r = ir_row_end r - ir_row_start r + 1 /\ ir_ncols r = ir_col_end r - ir_col_start r + 1 /\
  Z.of_nat (List.length (ir_data r)) = ir_nrows r * ir_ncols r /\
  (exists k, In k (ir_idx r) /\ rowof k = ir_row_start r) /\
  (exists k, In k (ir_idx r) /\ rowof k = ir_row_end r) /\
  (exists k, In k (ir_idx r) /\ colof k = ir_col_start r) /\
  (exists k, In k (ir_idx r) /\ colof k = ir_col_end r) /\
  (forall k w, In (k, w) (combine (ir_idx r) (ir_w r)) ->
     0 <= rowof k - ir_row_start r < ir_nrows r /\ 0 <= colof k - ir_col_start r < ir_ncols r /\
     zn (ir_data r) ((rowof k - ir_row_start r) * ir_ncols r + (colof k - ir_col_start r)) (n0 N) = w) /\
  (forall i j, 0 <= i < ir_nrows r -> 0 <= j < ir_ncols r ->
     (forall k, In k (ir_idx r) -> (rowof k, colof k) <> (ir_row_start r + i, ir_col_start r + j)) ->
     zn (ir_data r) (i * ir_ncols r + j) (n0 N) = n0 N).
Proof.
  intros Hnc H. apply intersect_py_some in H. destruct H as [Hne ->].
  assert (ND : NoDup (map fst acc)) by apply intersect_nodup.
  pose proof (parent_box N nrows ncols xll yll csz acc Hne ND acc_valid) as (_ & B1 & B2 & B3 & B4).
  pose proof (weight_grid_shape N nrows ncols xll yll csz acc Hne ND acc_valid) as (S1 & S2 & _ & _ & S5).
  pose proof (weight_grid_placement N nrows ncols xll yll csz acc Hnc Hne ND acc_valid) as (P1 & P2).
  cbv zeta.
  split; [exact ND|]. split; [change (List.length (map fst acc) = List.length (map snd acc)); rewrite !map_length; reflexivity|].
  split; [intros k I; apply acc_valid, I|].
  split; [exact S1|]. split; [exact S2|]. split; [exact S5|].
  split; [exact B1|]. split; [exact B2|]. split; [exact B3|]. split; [exact B4|].
  split; [|exact P2].
  intros k w I. destruct (P1 k w I) as (A1 & A2 & A3). split; [exact A1|]. split; [exact A2|exact A3].
Qed.

End IntersectPy.

(* ---------------- Catchment.intersect on the reals ---------------- *)
Open Scope R_scope.

Section IntersectPyR.
Variables (nr_a nc_a : Z) (xll_a yll_a csz_a : R) (filled : bool) (cells cells_filled : list Z).
Variables (nrows ncols : Z) (xll yll csz : R).
Hypothesis Hcsz : 0 < csz.

Let cs := if filled then cells_filled else cells.
Let centre (c : Z) : R * R := cell2coord RR nr_a nc_a xll_a yll_a csz_a c.

(* ★ each weight = (csz_area/csz)^2 x number of area cells whose centre lies in
   the footprint of the grid cell; ★ sum(weights) x csz^2 = number of area
   cells whose centre lies inside the grid x csz_area^2 *)
Theorem intersect_py_weights r :
  intersect_py RR nr_a nc_a xll_a yll_a csz_a filled cells cells_filled nrows ncols xll yll csz = Some r ->
  (forall k w, In (k, w) (combine (ir_idx r) (ir_w r)) ->
     exists row col, (0 <= col < ncols)%Z /\ (0 <= row < nrows)%Z /\ k = (row * ncols + col)%Z /\
       (0 < countb (fun c => in_footprint_b nrows xll yll csz row col (centre c)) cs)%nat /\
       w = (csz_a / csz) * (csz_a / csz) *
           INR (countb (fun c => in_footprint_b nrows xll yll csz row col (centre c)) cs)) /\
  (forall row col, (0 <= col < ncols)%Z -> (0 <= row < nrows)%Z ->
     (exists c, In c cs /\ in_footprint nrows xll yll csz row col (centre c)) ->
     In (row * ncols + col)%Z (ir_idx r)) /\
  Rsum (ir_w r) * (csz * csz) =
    INR (countb (fun c => in_extent_b nrows ncols xll yll csz (centre c)) cs) * (csz_a * csz_a).
Proof.
  intros H. apply intersect_py_some in H. destruct H as [Hne ->].
  unfold area_xy in *. fold cs in Hne |- *.
  change (cell2coord RR nr_a nc_a xll_a yll_a csz_a) with centre in Hne |- *.
  set (acc := c_intersect RR nrows ncols xll yll csz csz_a (map centre cs)) in *.
  change (ir_idx (ires_of_acc RR nrows ncols xll yll csz acc)) with (map fst acc).
  change (ir_w (ires_of_acc RR nrows ncols xll yll csz acc)) with (map snd acc).
  split; [|split].
  - intros k w I. rewrite combine_fst_snd in I.
    assert (K : In k (map fst acc)) by (change k with (fst (k, w)); apply in_map, I).
    unfold acc in K. apply c_intersect_cells in K; [|assumption].
    destruct K as (row & col & Hc & Hr & -> & xy & Ixy & F).
    exists row, col. repeat split; try lia.
    + rewrite <- countb_map. apply countb_pos. exists xy. split; [assumption|].
      apply in_footprint_b_true, F.
    + rewrite <- countb_map. apply (c_intersect_weight nrows ncols xll yll csz csz_a); assumption.
  - intros row col Hc Hr (c & Ic & F). unfold acc. apply c_intersect_cells; [assumption|].
    exists row, col. repeat split; try lia. exists (centre c). split; [apply in_map, Ic|assumption].
  - rewrite <- countb_map. apply c_intersect_area_conserved. assumption.
Qed.

(* the error path on the reals: no centre inside the extent of the grid *)
Theorem intersect_py_none_RR :
  intersect_py RR nr_a nc_a xll_a yll_a csz_a filled cells cells_filled nrows ncols xll yll csz = None <->
  (forall c, In c cs -> ~ in_extent nrows ncols xll yll csz (centre c)).
Proof.
  rewrite intersect_py_none. unfold area_xy. fold cs. split.
  - intros H c I E. apply coord2cell_inside_iff in E; [|assumption].
    specialize (H (centre c) (in_map _ _ _ I)). lia.
  - intros H xy I. apply in_map_iff in I. destruct I as (c & <- & I).
    destruct (Z_lt_le_dec (coord2cell RR nrows ncols xll yll csz (cell2coord RR nr_a nc_a xll_a yll_a csz_a c)) 0)
      as [|Hge]; [assumption|].
    apply coord2cell_inside_iff in Hge; [|assumption]. exfalso. apply (H c I Hge).
Qed.

End IntersectPyR.

(* ---------------- lower-left corner of the weight grid (reals) ---------------- *)
Lemma fmin_fold_RR l : forall m,
  let f := fold_left (fun m x => if nltb RR x m then x else m) l m in
  (f = m \/ In f l) /\ f <= m /\ forall x, In x l -> f <= x.
Proof.
  induction l as [|a l IH]; intros m; cbv zeta; cbn [fold_left];
    [split; [left; reflexivity|split; [lra|intros x []]]|].
  change (nltb RR a m) with (Rltb a m). destruct (Rltb a m) eqn:E.
  - apply Rltb_true in E. destruct (IH a) as (A & B & C). split; [|split].
    + destruct A as [->|I]; [right; left; reflexivity|right; right; assumption].
    + lra.
    + intros x [<-|I]; auto.
  - apply Rltb_false in E. destruct (IH m) as (A & B & C). split; [|split].
    + destruct A as [->|I]; [left; reflexivity|right; right; assumption].
    + lra.
    + intros x [<-|I]; [lra|auto].
Qed.

Lemma fmin_list_RR l : l <> [] -> In (fmin_list RR l) l /\ forall x, In x l -> fmin_list RR l <= x.
Proof.
  destruct l as [|a l]; [congruence|]. intros _. unfold fmin_list. cbn [hd tl].
  destruct (fmin_fold_RR l a) as (A & B & C). cbv zeta in *. split.
  - destruct A as [->|I]; [left; reflexivity|right; assumption].
  - intros x [<-|I]; auto.
Qed.

Section Corner.
Variables (nrows ncols : Z) (xll yll csz : R).
Variable acc : list (Z * R).
Hypothesis Hcsz : 0 < csz.
Hypothesis Hncols : (0 < ncols)%Z.
Hypothesis Hnonempty : acc <> [].
Hypothesis Hnodup : NoDup (map fst acc).
Hypothesis Hvalid : forall k, In k (map fst acc) -> (0 <= k < nrows * ncols)%Z.

Let r := ires_of_acc RR nrows ncols xll yll csz acc.

Lemma coord_of k : In k (map fst acc) ->
  cell2coord RR nrows ncols xll yll csz k =
  (xll + csz * (IZR (snd (cell2rowcol nrows ncols k)) + / 2),
   yll + csz * (IZR (nrows - 1 - fst (cell2rowcol nrows ncols k)) + / 2)).
Proof.
  intros I. pose proof (cell2rowcol_valid nrows ncols k Hncols (Hvalid k I)) as H.
  destruct (cell2rowcol nrows ncols k) as [row col]. destruct H as (-> & Hc & Hr).
  cbn [fst snd]. apply cell2coord_centre; assumption.
Qed.

(* the weight grid is the window [row_start..row_end] x [col_start..col_end] of
   the parent grid: same cell size, lower-left corner on the parent's lattice *)
Theorem weight_grid_corner :
  ir_xll r = xll + csz * IZR (ir_col_start r) /\
  ir_yll r = yll + csz * IZR (nrows - 1 - ir_row_end r).
Proof.
  pose proof (parent_box RR nrows ncols xll yll csz acc Hnonempty Hnodup Hvalid) as (Hb & _ & (k2 & I2 & E2) & (k3 & I3 & E3) & _).
  fold r in Hb, I2, E2, I3, E3.
  assert (Hhalf : ndiv RR csz (nadd RR (n1 RR) (n1 RR)) = csz / 2) by (cbn; unfold Rdiv; replace (1 + 1) with 2 by lra; reflexivity).
  assert (Hne : map fst acc <> []) by (destruct acc; [congruence|discriminate]).
  split.
  - unfold r at 1, ires_of_acc. cbn [ir_xll]. rewrite Hhalf. cbn [nsub RR].
    set (xs := map fst (map (cell2coord RR nrows ncols xll yll csz) (map fst acc))).
    assert (Hx : xs <> []) by (unfold xs; destruct acc; [congruence|discriminate]).
    destruct (fmin_list_RR xs Hx) as [A B].
    apply in_map_fst_map in A. destruct A as (k0 & I0 & E0).
    rewrite (coord_of k0 I0) in E0. cbn [fst] in E0.
    assert (L : fmin_list RR xs <= xll + csz * (IZR (snd (cell2rowcol nrows ncols k3)) + / 2)).
    { apply B. unfold xs. rewrite map_map. apply in_map_iff. exists k3. split; [|exact I3].
      rewrite (coord_of k3 I3). reflexivity. }
    destruct (Hb k0 I0) as [_ [Hc0 _]]. rewrite E3 in L. rewrite <- E0 in L |- *.
    assert (IZR (snd (cell2rowcol nrows ncols k0)) <= IZR (ir_col_start r)) by nra.
    apply le_IZR in H. assert (E : snd (cell2rowcol nrows ncols k0) = ir_col_start r) by lia.
    rewrite E. field.
  - unfold r at 1, ires_of_acc. cbn [ir_yll]. rewrite Hhalf. cbn [nsub RR].
    set (ys := map snd (map (cell2coord RR nrows ncols xll yll csz) (map fst acc))).
    assert (Hy : ys <> []) by (unfold ys; destruct acc; [congruence|discriminate]).
    destruct (fmin_list_RR ys Hy) as [A B].
    apply in_map_snd_map in A. destruct A as (k0 & I0 & E0).
    rewrite (coord_of k0 I0) in E0. cbn [snd] in E0.
    assert (L : fmin_list RR ys <= yll + csz * (IZR (nrows - 1 - fst (cell2rowcol nrows ncols k2)) + / 2)).
    { apply B. unfold ys. rewrite map_map. apply in_map_iff. exists k2. split; [|exact I2].
      rewrite (coord_of k2 I2). reflexivity. }
    destruct (Hb k0 I0) as [[_ Hr0] _]. rewrite E2 in L. rewrite <- E0 in L |- *.
    assert (IZR (nrows - 1 - fst (cell2rowcol nrows ncols k0)) <= IZR (nrows - 1 - ir_row_end r)) by nra.
    apply le_IZR in H. assert (E : fst (cell2rowcol nrows ncols k0) = ir_row_end r) by lia.
    rewrite E. field.
Qed.

(* hence cell (i, j) of the weight grid has the centre of parent cell
   (row_start + i, col_start + j) *)
Theorem weight_grid_centres i j :
  (0 <= i < ir_nrows r)%Z -> (0 <= j < ir_ncols r)%Z ->
  cell2coord RR (ir_nrows r) (ir_ncols r) (ir_xll r) (ir_yll r) csz (i * ir_ncols r + j) =
  cell2coord RR nrows ncols xll yll csz ((ir_row_start r + i) * ncols + (ir_col_start r + j)).
Proof.
  intros Hi Hj.
  pose proof (parent_box RR nrows ncols xll yll csz acc Hnonempty Hnodup Hvalid) as (Hb & (k1 & I1 & E1) & (k2 & I2 & E2) & (k3 & I3 & E3) & (k4 & I4 & E4)).
  pose proof (weight_grid_shape RR nrows ncols xll yll csz acc Hnonempty Hnodup Hvalid) as (S1 & S2 & _).
  fold r in Hb, I1, E1, I2, E2, I3, E3, I4, E4, S1, S2.
  assert (V : forall k, In k (ir_idx r) ->
            (0 <= snd (cell2rowcol nrows ncols k) < ncols /\ 0 <= fst (cell2rowcol nrows ncols k) < nrows)%Z).
  { intros k I. pose proof (cell2rowcol_valid nrows ncols k Hncols (Hvalid k I)) as H.
    destruct (cell2rowcol nrows ncols k). cbn [fst snd]. tauto. }
  pose proof (V k1 I1). pose proof (V k2 I2). pose proof (V k3 I3). pose proof (V k4 I4).
  rewrite !cell2coord_centre by lia.
  destruct weight_grid_corner as [-> ->]. fold r. rewrite S1.
  f_equal.
  - rewrite plus_IZR. ring.
  - replace (ir_row_end r - ir_row_start r + 1 - 1 - i)%Z with ((nrows - 1 - (ir_row_start r + i)) - (nrows - 1 - ir_row_end r))%Z by lia.
    rewrite (minus_IZR (nrows - 1 - (ir_row_start r + i))). ring.
Qed.

End Corner.
