(* Memory safety ("safe execution") of the MiniC program regenerated from
   src/hydrodiy/data/c_dateutils.c, c_qualitycontrol.c (c_islin) and c_baseflow.c
   (c_eckhardt): for ALL inputs satisfying the buffer-length contract of the Cython
   wrappers (Gen/ConstsC05.v PYX_CONTRACTS), [exec_fun N X program] returns [Ok]: the
   kernel terminates, no array access is out of bounds, no integer division by zero,
   no undefined double->int cast.  Generic over the arithmetic [N], [X] except where
   stated (c_dateutils_getdate: hypothesis on the casts, discharged for RN and RR;
   c_eckhardt: exp must be interpreted by [X]).

   safe_c_dateutils_isleapyear / _daysinmonth / _dayofyear / _comparedates : exact result
   safe_c_dateutils_add1month / _add1day : safety + result against Model/Dutils.v
   safe_c_dateutils_getdate (_accept, _reject, _RN, _RR)
   safe_c_islin, safe_c_eckhardt : safety, inputs unchanged, output lengths kept *)
From Coq Require Import ZArith Bool List String Lia PrimFloat.
From Hy Require Import Base.Num Base.MiniC Gen.ConstsC08 Gen.KernelsAst Model.Dutils.
Import ListNotations.
Open Scope string_scope.
Open Scope list_scope.
Open Scope Z_scope.

(* ================================================================== *)
(* Generic helpers about MiniC                                          *)
(* ================================================================== *)

(* one unfolding of [exec_fun] (then [cbn -[exec_fun]] keeps the callees folded) *)
Lemma exec_fun_S {T} (N : NumOps T) (X : NumLit T) p n f args :
  exec_fun N X p (S n) f args =
  (do fd <- find_fun p f;
   do st0 <- bind_params f (fst fd) args st_empty;
   match exec N X (exec_fun N X p n) n (snd fd) st0 with
   | Ok (ORet v, st) => do o <- out_arrays (fst fd) st; Ok (v, o)
   | Ok (_, _) => Err (BadRet f)
   | Err e => Err e
   end).
Proof. reflexivity. Qed.

(* a statement that ends normally: continue with the rest of the sequence *)
Lemma exec_seq_step {T} (N : NumOps T) (X : NumLit T) (callf : callee T) n a b st st' :
  exec N X callf n a st = Ok (ONormal, st') ->
  exec N X callf n (SSeq a b) st = exec N X callf n b st'.
Proof. intros H. cbn [exec]. rewrite H. reflexivity. Qed.

(* an access inside the buffer succeeds; a store keeps the length *)
Lemma zset_some {A} (l : list A) i v :
  0 <= i < Z.of_nat (List.length l) -> exists l', zset l i v = Some l' /\ List.length l' = List.length l.
Proof.
  intros H. rewrite (zset_ok l i v H). eexists. split; [reflexivity|].
  rewrite <- (zset_length l _ i v (zset_ok l i v H)). reflexivity.
Qed.

Lemma zget_some {A} (l : list A) i :
  0 <= i < Z.of_nat (List.length l) -> exists x, zget l i = Some x.
Proof.
  intros H. destruct l as [|d l]; [cbn in H; lia|].
  rewrite (zget_ok (d :: l) i d H). eexists. reflexivity.
Qed.

(* run the interpreter, keeping callees folded *)
Ltac run1 := cbn -[exec_fun]; rewrite ?truth_b2z, ?b2z_truth_b2z, ?or_ok, ?and_ok.
Ltac run := repeat (progress run1).

(* execute the first statement of a sequence and present the new state as a literal
   record.  Running a long prefix of scalar initialisations with one [cbn] leaves a
   deep nest of [set_i]/[set_f] that the kernel re-checks very slowly at Qed when a
   symbolic [if] follows (c_islin: > 10 min); stepping keeps the state flat. *)
Ltac step := erewrite exec_seq_step by (cbn; norm_state; reflexivity).

(* ================================================================== *)
(* end of the generic helpers                                           *)
(* ================================================================== *)

(* ================================================================== *)
(* specifications that are not in Model/Dutils.v                        *)

(* c_dateutils_dayofyear: int day_of_year[13] *)
Definition DAY_OF_YEAR : list Z := [0; 0; 31; 59; 90; 120; 151; 181; 212; 243; 273; 304; 334].
Definition day_of_year (m d : Z) : Z :=
  if (m <? 1) || (12 <? m) then -1
  else if (d <? 1) || (31 <? d) then -1
  else nth (Z.to_nat m) DAY_OF_YEAR 0 + d.

(* c_dateutils_comparedates *)
Definition compare_dates (a0 a1 a2 b0 b1 b2 : Z) : Z :=
  if a0 <? b0 then 1 else if b0 <? a0 then -1
  else if a1 <? b1 then 1 else if b1 <? a1 then -1
  else if a2 <? b2 then 1 else if b2 <? a2 then -1 else 0.

Definition INT_MAX : Z := 2147483647.

Section Safe.
Context {T : Type} (N : NumOps T) (X : NumLit T).

Theorem safe_c_dateutils_isleapyear year n :
  exec_fun N X program (S n) "c_dateutils_isleapyear" [AVI year]
  = Ok (RI (b2z (is_leap year)), []).
Proof.
  cbn. rewrite !truth_b2z. unfold is_leap, LEAP_A, LEAP_B, LEAP_C.
  destruct (Z.rem year 4 =? 0); destruct (Z.rem year 100 =? 0); destruct (Z.rem year 400 =? 0);
    reflexivity.
Qed.

Lemma month_cases m : (m <? 1) || (12 <? m) = false ->
  m = 1 \/ m = 2 \/ m = 3 \/ m = 4 \/ m = 5 \/ m = 6 \/ m = 7 \/ m = 8 \/ m = 9 \/ m = 10 \/ m = 11 \/ m = 12.
Proof.
  intros H. apply orb_false_iff in H. destruct H as [H1 H2].
  apply Z.ltb_ge in H1. apply Z.ltb_ge in H2. lia.
Qed.

Theorem safe_c_dateutils_daysinmonth year month n :
  (0 < n)%nat ->
  exec_fun N X program (S n) "c_dateutils_daysinmonth" [AVI year; AVI month]
  = Ok (RI (days_in_month year month), []).
Proof.
  intros Hn. unfold days_in_month.
  destruct ((month <? 1) || (12 <? month)) eqn:Hm.
  - cbn. rewrite !truth_b2z, or_ok. cbn. rewrite truth_b2z, Hm. reflexivity.
  - destruct n as [|n']; [lia|].
    apply month_cases in Hm.
    repeat (destruct Hm as [Hm|Hm]; [subst month|]); try subst month.
    all: rewrite exec_fun_S; cbn -[exec_fun]; rewrite safe_c_dateutils_isleapyear; cbn.
    all: destruct (is_leap year); reflexivity.
Qed.

Theorem safe_c_dateutils_dayofyear month day n :
  exec_fun N X program (S n) "c_dateutils_dayofyear" [AVI month; AVI day]
  = Ok (RI (day_of_year month day), []).
Proof.
  unfold day_of_year. rewrite exec_fun_S.
  destruct ((month <? 1) || (12 <? month)) eqn:Hm.
  - run. rewrite Hm. reflexivity.
  - destruct ((day <? 1) || (31 <? day)) eqn:Hd.
    + run. rewrite Hm. run. rewrite Hd. reflexivity.
    + apply month_cases in Hm.
      repeat (destruct Hm as [Hm|Hm]; [subst month|]); try subst month.
      all: run; rewrite Hd; reflexivity.
Qed.

Lemma days_in_month_range y m : -1 <= days_in_month y m <= 31.
Proof.
  unfold days_in_month. destruct ((m <? 1) || (12 <? m)) eqn:Hm; [lia|].
  apply month_cases in Hm.
  repeat (destruct Hm as [Hm|Hm]; [subst m|]); try subst m.
  all: destruct (is_leap y); compute; split; intro H; discriminate H.
Qed.

Lemma days_in_month_jan y : days_in_month y 1 = 31.
Proof. unfold days_in_month. rewrite andb_false_r. reflexivity. Qed.

#[local] Arguments days_in_month : simpl never.
#[local] Arguments is_leap : simpl never.

(* date = y :: m :: d :: rest; the wrapper guarantees rest = [] *)
Theorem safe_c_dateutils_add1month y m d rest n :
  (1 < n)%nat ->
  exists ret out,
    exec_fun N X program (S n) "c_dateutils_add1month" [AVArrI (y :: m :: d :: rest)]
    = Ok (RI ret, [VArrI out]) /\
    List.length out = List.length (y :: m :: d :: rest) /\
    (if negb (m <? 12) && (y =? INT_MAX) then 0 < ret /\ out = y :: m :: d :: rest
     else match c_add1month (y, m, d) with
          | Some (y', m', d') => ret = 0 /\ out = y' :: m' :: d' :: rest
          | None => 0 < ret /\ out = y :: m + 1 :: d :: rest
          end).
Proof.
  intros Hn. destruct n as [|n']; [lia|]. rewrite exec_fun_S. unfold c_add1month, INT_MAX.
  destruct (m <? 12) eqn:Hm; cbn [negb andb].
  - run. rewrite Hm. run. rewrite safe_c_dateutils_daysinmonth by lia.
    set (nb := days_in_month y (m + 1)). run.
    destruct (nb <? 0) eqn:Hnb; run.
    + do 2 eexists. split; [reflexivity|]. split; [reflexivity|]. split; [lia|reflexivity].
    + destruct (nb <? d) eqn:Hd; run.
      all: do 2 eexists; split; [reflexivity|]; split; [reflexivity|]; split; reflexivity.
  - run. rewrite Hm. run.
    destruct (y =? 2147483647) eqn:Hy; run.
    + do 2 eexists. split; [reflexivity|]. split; [reflexivity|]. split; [lia|reflexivity].
    + rewrite safe_c_dateutils_daysinmonth by lia. rewrite days_in_month_jan. run.
      destruct (31 <? d) eqn:Hd; run.
      all: do 2 eexists; split; [reflexivity|]; split; [reflexivity|]. all: split; reflexivity.
Qed.

Theorem safe_c_dateutils_add1day y m d rest n :
  (1 < n)%nat ->
  exists ret out,
    exec_fun N X program (S n) "c_dateutils_add1day" [AVArrI (y :: m :: d :: rest)]
    = Ok (RI ret, [VArrI out]) /\
    List.length out = List.length (y :: m :: d :: rest) /\
    match c_add1day (y, m, d) with
    | None => 0 < ret /\ out = y :: m :: d :: rest
    | Some (y', m', d') =>
        if (d =? days_in_month y m) && negb (m <? 12) && (y =? INT_MAX)
        then 0 < ret /\ out = y :: m :: 1 :: rest
        else ret = 0 /\ out = y' :: m' :: d' :: rest
    end.
Proof.
  intros Hn. destruct n as [|n']; [lia|]. rewrite exec_fun_S. unfold c_add1day, INT_MAX.
  run. rewrite safe_c_dateutils_daysinmonth by lia.
  set (nb := days_in_month y m). run.
  destruct (nb <? 0) eqn:Hnb; run.
  { do 2 eexists. split; [reflexivity|]. split; [reflexivity|]. split; [lia|reflexivity]. }
  destruct (d <? nb) eqn:Hd; run.
  { assert (d =? nb = false) as -> by (apply Z.eqb_neq; apply Z.ltb_lt in Hd; lia).
    do 2 eexists. split; [reflexivity|]. split; [reflexivity|]. split; reflexivity. }
  destruct (d =? nb) eqn:Hd2; run.
  2:{ do 2 eexists. split; [reflexivity|]. split; [reflexivity|]. split; [lia|reflexivity]. }
  destruct (m <? 12) eqn:Hm; run.
  { do 2 eexists. split; [reflexivity|]. split; [reflexivity|]. split; reflexivity. }
  destruct (y =? 2147483647) eqn:Hy; run.
  all: do 2 eexists; split; [reflexivity|]; split; [reflexivity|]; split; try reflexivity; lia.
Qed.

Theorem safe_c_dateutils_comparedates a0 a1 a2 r1 b0 b1 b2 r2 n :
  exec_fun N X program (S n) "c_dateutils_comparedates"
    [AVArrI (a0 :: a1 :: a2 :: r1); AVArrI (b0 :: b1 :: b2 :: r2)]
  = Ok (RI (compare_dates a0 a1 a2 b0 b1 b2),
        [VArrI (a0 :: a1 :: a2 :: r1); VArrI (b0 :: b1 :: b2 :: r2)]).
Proof.
  unfold compare_dates. rewrite exec_fun_S. run.
  destruct (a0 <? b0); run; [reflexivity|].
  destruct (b0 <? a0); run; [reflexivity|].
  destruct (a1 <? b1); run; [reflexivity|].
  destruct (b1 <? a1); run; [reflexivity|].
  destruct (a2 <? b2); run; [reflexivity|].
  destruct (b2 <? a2); run; reflexivity.
Qed.


(* ---- c_dateutils_getdate ---- *)

#[local] Arguments sem_cast : simpl never.

(* the C cast (int)x is defined: x truncates to a value that fits an int *)
Definition trunc32 (x : T) (z : Z) : Prop := ntrunc N x = Some z /\ in_width W32 z = true.

Lemma sem_cast_ok x z : trunc32 x z -> sem_cast W32 (ntrunc N x) = Ok z.
Proof. intros [H1 H2]. unfold sem_cast. rewrite H1, H2. reflexivity. Qed.

(* the literals of the C text: 2147483647., 1e-4, 1e-2 *)
Definition lit_intmax : T := nlit X (0x1.fffffffc00000p+30)%float 2147483647 1.
Definition lit_1em4 : T := nlit X (0x1.a36e2eb1c432dp-14)%float 1 10000.
Definition lit_1em2 : T := nlit X (0x1.47ae147ae147bp-7)%float 1 100.

(* if(isnan(day) || day < 0 || day > 2147483647.) return ERROR *)
Definition getdate_reject (day : T) : bool :=
  nisnan N day || nltb N day (nofZ N 0) || nltb N lit_intmax day.

(* a = (int)(day*1e-4), b = (int)(day*1e-2), c = (int)day *)
Definition getdate_spec (a b c : Z) : option (Z * Z * Z) :=
  let year := a in
  let month := b - year * 100 in
  let nday := c - year * 10000 - month * 100 in
  if (month <? 0) || (12 <? month) then None
  else if (nday <? 0) || (days_in_month year month <? nday) then None
  else Some (year, month, nday).

Theorem safe_c_dateutils_getdate_accept day y0 m0 d0 rest a b c n :
  getdate_reject day = false ->
  trunc32 (nmul N day lit_1em4) a -> trunc32 (nmul N day lit_1em2) b -> trunc32 day c ->
  (1 < n)%nat ->
  exists ret out,
    exec_fun N X program (S n) "c_dateutils_getdate" [AVF day; AVArrI (y0 :: m0 :: d0 :: rest)]
    = Ok (RI ret, [VArrI out]) /\
    List.length out = List.length (y0 :: m0 :: d0 :: rest) /\
    match getdate_spec a b c with
    | Some (y, m, d) => ret = 0 /\ out = y :: m :: d :: rest
    | None => 0 < ret /\ out = y0 :: m0 :: d0 :: rest
    end.
Proof.
  intros Hrej Ha Hb Hc Hn. destruct n as [|n']; [lia|]. rewrite exec_fun_S.
  unfold getdate_reject, lit_intmax in Hrej. unfold lit_1em4 in Ha. unfold lit_1em2 in Hb.
  unfold getdate_spec.
  run. rewrite Hrej. run.
  rewrite (sem_cast_ok _ _ Ha). run.
  rewrite (sem_cast_ok _ _ Hb). run.
  rewrite (sem_cast_ok _ _ Hc). run.
  set (month := b - a * 100). set (nday := c - a * 10000 - month * 100).
  destruct ((month <? 0) || (12 <? month)) eqn:Hm; run.
  { do 2 eexists. split; [reflexivity|]. split; [reflexivity|]. split; [lia|reflexivity]. }
  rewrite safe_c_dateutils_daysinmonth by lia. run.
  destruct ((nday <? 0) || (days_in_month a month <? nday)) eqn:Hd; run.
  { do 2 eexists. split; [reflexivity|]. split; [reflexivity|]. split; [lia|reflexivity]. }
  do 2 eexists. split; [reflexivity|]. split; [reflexivity|]. split; reflexivity.
Qed.

Theorem safe_c_dateutils_getdate_reject day date n :
  getdate_reject day = true ->
  exists ret,
    exec_fun N X program (S n) "c_dateutils_getdate" [AVF day; AVArrI date]
    = Ok (RI ret, [VArrI date]) /\ 0 < ret.
Proof.
  intros Hrej. rewrite exec_fun_S. unfold getdate_reject, lit_intmax in Hrej.
  run. rewrite Hrej. run. eexists. split; [reflexivity|lia].
Qed.

(* the three casts of an accepted day are defined in this arithmetic *)
Definition getdate_casts_defined : Prop :=
  forall day, getdate_reject day = false ->
    exists a b c, trunc32 (nmul N day lit_1em4) a /\ trunc32 (nmul N day lit_1em2) b /\ trunc32 day c.

Theorem safe_c_dateutils_getdate day y0 m0 d0 rest n :
  getdate_casts_defined ->
  (1 < n)%nat ->
  exists ret out,
    exec_fun N X program (S n) "c_dateutils_getdate" [AVF day; AVArrI (y0 :: m0 :: d0 :: rest)]
    = Ok (RI ret, [VArrI out]) /\
    List.length out = List.length (y0 :: m0 :: d0 :: rest).
Proof.
  intros HC Hn. destruct (getdate_reject day) eqn:Hrej.
  - destruct (safe_c_dateutils_getdate_reject day (y0 :: m0 :: d0 :: rest) n Hrej) as (ret & E & _).
    exists ret, (y0 :: m0 :: d0 :: rest). split; [exact E|reflexivity].
  - destruct (HC day Hrej) as (a & b & c & Ha & Hb & Hc).
    destruct (safe_c_dateutils_getdate_accept day y0 m0 d0 rest a b c n Hrej Ha Hb Hc Hn)
      as (ret & out & E & L & _).
    exists ret, out. split; [exact E|exact L].
Qed.

(* the hypothesis on the casts cannot be dropped in an abstract arithmetic: an accepted
   day whose first cast is undefined stops the interpreter *)
Lemma getdate_cast_hyp_needed day date n :
  getdate_reject day = false -> ntrunc N (nmul N day lit_1em4) = None ->
  exec_fun N X program (S n) "c_dateutils_getdate" [AVF day; AVArrI date] = Err CastRange.
Proof.
  intros Hrej Hc. rewrite exec_fun_S. unfold getdate_reject, lit_intmax in Hrej. unfold lit_1em4 in Hc.
  run. rewrite Hrej. run. unfold sem_cast. rewrite Hc. reflexivity.
Qed.

(* ================================================================== *)
(* c_islin (c_qualitycontrol.c)                                         *)

Definition il_state (nval npoints i k count start lintype : Z)
           (thresh tol dist vprec vnext vcur : T) (data : list T) (il : list Z) : state T :=
  {| s_i := [("nval", nval); ("npoints", npoints); ("ierr", 0); ("i", i); ("k", k);
             ("count", count); ("start", start); ("lintype", lintype)];
     s_f := [("thresh", thresh); ("tol", tol); ("dist", dist); ("vprec", vprec);
             ("vnext", vnext); ("vcur", vcur)];
     s_ai := [("islin", il)];
     s_af := [("data", data)] |}.

(* for(i=0; i<nval; i++) islin[i] = 0;   (branch nval < 3) *)
Lemma islin_zero_loop (callf : callee T) n nval npoints k count start lintype
      thresh tol dist vprec vnext vcur data il :
  nval <= Z.of_nat (List.length il) -> (Z.to_nat nval < n)%nat ->
  exists i' il',
    loop n (cond_of N X (ICmp CLt (IVar "i") (IVar "nval")))
      (for_body
         (exec N X callf n (SStoreI "islin" (IVar "i") (IConst 0)))
         (exec N X callf n (SSetI "i" (IBin IAdd (IVar "i") (IConst 1)))))
      (il_state nval npoints 0 k count start lintype thresh tol dist vprec vnext vcur data il)
    = Ok (ONormal, il_state nval npoints i' k count start lintype thresh tol dist vprec vnext vcur data il')
    /\ List.length il' = List.length il.
Proof.
  intros Hlen Hn.
  destruct (loop_rule
    (fun j st => (j <= Z.to_nat nval)%nat /\ exists il', List.length il' = List.length il /\
        st = il_state nval npoints (Z.of_nat j) k count start lintype thresh tol dist vprec vnext vcur data il')
    (fun r => exists i' il', r = (ONormal, il_state nval npoints i' k count start lintype thresh tol dist vprec vnext vcur data il') /\ List.length il' = List.length il)
    (Z.to_nat nval)
    (cond_of N X (ICmp CLt (IVar "i") (IVar "nval")))
    (for_body
         (exec N X callf n (SStoreI "islin" (IVar "i") (IConst 0)))
         (exec N X callf n (SSetI "i" (IBin IAdd (IVar "i") (IConst 1)))))) with (fuel := n) (k := O)
    (st := il_state nval npoints 0 k count start lintype thresh tol dist vprec vnext vcur data il)
    as (r & E & i' & il' & -> & L).
  - intros j st (Hj & il' & L & ->). split; [exact Hj|].
    unfold il_state. run.
    destruct (Z.ltb_spec (Z.of_nat j) nval) as [Hlt|Hge]; run.
    + destruct (zset_some il' (Z.of_nat j) 0) as (il2 & E2 & L2); [lia|].
      rewrite E2. run. split; [lia|]. exists il2. split; [lia|].
      norm_state. unfold il_state. replace (Z.of_nat j + 1) with (Z.of_nat (S j)) by lia. reflexivity.
    + exists (Z.of_nat j), il'. split; [reflexivity|exact L].
  - split; [lia|]. exists il. split; reflexivity.
  - lia.
  - exists i', il'. split; [exact E|exact L].
Qed.


(* for(k=start; k<i; k++) islin[k] = lintype; *)
Lemma islin_fill_loop (callf : callee T) n nval npoints i count start lintype
      thresh tol dist vprec vnext vcur data il :
  0 <= start -> i <= Z.of_nat (List.length il) -> (Z.to_nat (i - start) < n)%nat ->
  exists k' il',
    loop n (cond_of N X (ICmp CLt (IVar "k") (IVar "i")))
      (for_body
         (exec N X callf n (SStoreI "islin" (IVar "k") (IVar "lintype")))
         (exec N X callf n (SSetI "k" (IBin IAdd (IVar "k") (IConst 1)))))
      (il_state nval npoints i start count start lintype thresh tol dist vprec vnext vcur data il)
    = Ok (ONormal, il_state nval npoints i k' count start lintype thresh tol dist vprec vnext vcur data il')
    /\ List.length il' = List.length il.
Proof.
  intros Hs Hlen Hn.
  destruct (loop_rule
    (fun j st => (j <= Z.to_nat (i - start))%nat /\ exists il', List.length il' = List.length il /\
        st = il_state nval npoints i (start + Z.of_nat j) count start lintype thresh tol dist vprec vnext vcur data il')
    (fun r => exists k' il', r = (ONormal, il_state nval npoints i k' count start lintype thresh tol dist vprec vnext vcur data il') /\ List.length il' = List.length il)
    (Z.to_nat (i - start))
    (cond_of N X (ICmp CLt (IVar "k") (IVar "i")))
    (for_body
         (exec N X callf n (SStoreI "islin" (IVar "k") (IVar "lintype")))
         (exec N X callf n (SSetI "k" (IBin IAdd (IVar "k") (IConst 1)))))) with (fuel := n) (k := O)
    (st := il_state nval npoints i start count start lintype thresh tol dist vprec vnext vcur data il)
    as (r & E & k' & il' & -> & L).
  - intros j st (Hj & il' & L & ->). split; [exact Hj|].
    unfold il_state. run.
    destruct (Z.ltb_spec (start + Z.of_nat j) i) as [Hlt|Hge]; run.
    + destruct (zset_some il' (start + Z.of_nat j) lintype) as (il2 & E2 & L2); [lia|].
      rewrite E2. run. split; [lia|]. exists il2. split; [lia|].
      norm_state. unfold il_state.
      replace (start + Z.of_nat j + 1) with (start + Z.of_nat (S j)) by lia. reflexivity.
    + exists (start + Z.of_nat j), il'. split; [reflexivity|exact L].
  - split; [lia|]. exists il. split; [reflexivity|].
    replace (start + Z.of_nat 0) with start by lia. reflexivity.
  - lia.
  - exists k', il'. split; [exact E|exact L].
Qed.

Definition islin_inv npoints thresh tol (data : list T) (j : nat) (st : state T) : Prop :=
  (2 + j <= List.length data)%nat /\
  exists k count start lintype dist vprec vnext vcur il,
    List.length il = List.length data /\ 0 <= start /\
    st = il_state (zlen data) npoints (2 + Z.of_nat j) k count start lintype
                  thresh tol dist vprec vnext vcur data il.

Definition islin_post npoints thresh tol (data : list T) (r : outcome T * state T) : Prop :=
  exists i k count start lintype dist vprec vnext vcur il,
    List.length il = List.length data /\
    r = (ONormal, il_state (zlen data) npoints i k count start lintype
                  thresh tol dist vprec vnext vcur data il).

Theorem safe_c_islin thresh tol npoints data il n :
  List.length il = List.length data -> (List.length data < n)%nat ->
  exists out, exec_fun N X program (S n) "c_islin"
     [AVI (zlen data); AVF thresh; AVF tol; AVI npoints; AVArrF data; AVArrI il]
   = Ok (RI 0, [VArrF data; VArrI out]) /\ List.length out = List.length data.
Proof.
  intros Hil Hn. rewrite exec_fun_S. cbn -[exec_fun exec]. norm_state. do 10 step. run.
  destruct (zlen data <? 3) eqn:H3; run.
  - match goal with |- context[loop n _ _ ?s] =>
      change s with (il_state (zlen data) npoints 0 0 0 0 0 thresh tol (nofZ N 0) (nofZ N 0) (nofZ N 0) (nofZ N 0) data il) end.
    destruct (islin_zero_loop (exec_fun N X program n) n (zlen data) npoints 0 0 0 0 thresh tol
                (nofZ N 0) (nofZ N 0) (nofZ N 0) (nofZ N 0) data il) as (i' & il' & E & L).
    { rewrite zlen_eq. lia. } { rewrite zlen_eq. lia. }
    rewrite E. run. exists il'. split; [reflexivity|lia].
  - apply Z.ltb_ge in H3. rewrite zlen_eq in H3.
    remember (zlen data) as nv eqn:Hnv.
    destruct data as [|x0 [|x1 data']]; try (cbn in H3; lia).
    destruct il as [|i0 [|i1 il']]; try (cbn in Hil; lia).
    run.
    match goal with |- context[if ?b then Ok (@ONormal T, ?A) else Ok (@ONormal T, ?B)] =>
      replace (if b then Ok (@ONormal T, A) else Ok (@ONormal T, B))
        with (Ok (@ONormal T, set_f B "vprec" (if b then nsub N thresh (nofZ N 1) else x0)))
        by (destruct b; reflexivity) end.
    run.
    match goal with |- context[if ?b then Ok (@ONormal T, ?A) else Ok (@ONormal T, ?B)] =>
      replace (if b then Ok (@ONormal T, A) else Ok (@ONormal T, B))
        with (Ok (@ONormal T, set_f B "vcur" (if b then nsub N thresh (nofZ N 1) else x1)))
        by (destruct b; reflexivity) end.
    run. norm_state.
    remember (x0 :: x1 :: data') as data eqn:Hdata.
    subst nv.
    loop_with (islin_inv npoints thresh tol data) (islin_post npoints thresh tol data)
              (List.length data).
    + intros j st (Hj & k & count & start & lintype & dist & vprec & vnext & vcur & il & Lil & Hst & ->).
      split; [lia|]. unfold il_state. run. rewrite zlen_eq.
      destruct (Z.ltb_spec (2 + Z.of_nat j) (Z.of_nat (List.length data))) as [Hlt|Hge]; run.
      2:{ do 10 eexists. split; [exact Lil|]. unfold il_state. rewrite zlen_eq. reflexivity. }
      destruct (zget_some data (2 + Z.of_nat j)) as (x & Hx); [lia|]. rewrite Hx. run.
      destruct (zset_some il (2 + Z.of_nat j) 0) as (il2 & E2 & L2); [lia|]. rewrite E2. run.
      set (dist' := nabs N (nsub N vcur (ndiv N (nadd N vprec x) (nofZ N 2)))).
      assert (Hfin : forall k' count' start' lintype' il3,
                 List.length il3 = List.length data -> 0 <= start' ->
                 islin_inv npoints thresh tol data (S j)
                   (il_state (zlen data) npoints (2 + Z.of_nat j + 1) k' count' start' lintype'
                             thresh tol dist' vcur x x data il3)).
      { intros k' count' start' lintype' il3 L3 Hs3. split; [lia|].
        do 9 eexists. split; [exact L3|]. split; [exact Hs3|].
        replace (2 + Z.of_nat j + 1) with (2 + Z.of_nat (S j)) by lia. reflexivity. }
      destruct (_ && _ && truth _) eqn:Hc.
      * destruct (count =? 0) eqn:Hc0; run.
        all: destruct (nltb N (nabs N (nsub N x vprec)) tol); run.
        all: norm_state; rewrite <- zlen_eq; apply Hfin; lia.
      * destruct (npoints <=? count) eqn:Hnp; run.
        -- match goal with |- context[loop n _ _ ?s] =>
             change s with (il_state (Z.of_nat (List.length data)) npoints (2 + Z.of_nat j) start count start
                              lintype thresh tol dist' vprec x vcur data il2) end.
           destruct (islin_fill_loop (exec_fun N X program n) n (Z.of_nat (List.length data)) npoints
                       (2 + Z.of_nat j) count start lintype thresh tol dist' vprec x vcur data il2)
             as (k' & il3 & E3 & L3); [lia|lia|lia|].
           rewrite E3. run. norm_state. rewrite <- zlen_eq. apply Hfin; lia.
        -- norm_state. rewrite <- zlen_eq. apply Hfin; lia.
    + split; [lia|]. do 9 eexists. split; [|split].
      3:{ unfold il_state. replace (2 + Z.of_nat 0) with 2 by lia. reflexivity. }
      all: cbn in *; lia.
    + lia.
    + destruct HL as (r & -> & i & k & count & start & lintype & dist & vprec & vnext & vcur & il & Lil & ->).
      run. exists il. split; [reflexivity|]. rewrite Lil, Hdata. reflexivity.
Qed.

(* ================================================================== *)
(* c_eckhardt (c_baseflow.c)                                            *)

Definition ek_state (nval tt i : Z) (thresh tau bfi q qtmp bf1 bf2 tl c1 c2 c3 alpha : T)
           (inputs outputs : list T) : state T :=
  {| s_i := [("nval", nval); ("timestep_type", tt); ("i", i)];
     s_f := [("thresh", thresh); ("tau", tau); ("BFI_max", bfi); ("q", q); ("qtmp", qtmp);
             ("bf1", bf1); ("bf2", bf2); ("timestep_length", tl); ("C1", c1); ("C2", c2);
             ("C3", c3); ("alpha", alpha)];
     s_ai := [];
     s_af := [("inputs", inputs); ("outputs", outputs)] |}.

Definition ek_inv tt thresh tau bfi tl c1 c2 c3 alpha (inputs : list T) (j : nat) (st : state T) : Prop :=
  (1 + j <= List.length inputs)%nat /\
  exists q qtmp bf1 bf2 out,
    List.length out = List.length inputs /\
    st = ek_state (zlen inputs) tt (1 + Z.of_nat j) thresh tau bfi q qtmp bf1 bf2 tl c1 c2 c3 alpha inputs out.

Definition ek_post tt thresh tau bfi tl c1 c2 c3 alpha (inputs : list T) (r : outcome T * state T) : Prop :=
  exists i q qtmp bf1 bf2 out,
    List.length out = List.length inputs /\
    r = (ONormal, ek_state (zlen inputs) tt i thresh tau bfi q qtmp bf1 bf2 tl c1 c2 c3 alpha inputs out).

Theorem safe_c_eckhardt tt thresh tau bfi inputs outputs n :
  (forall v, next X "exp" [v] <> None) ->
  List.length outputs = List.length inputs -> (List.length inputs < n)%nat ->
  exists ret out, exec_fun N X program (S n) "c_eckhardt"
     [AVI (zlen inputs); AVI tt; AVF thresh; AVF tau; AVF bfi; AVArrF inputs; AVArrF outputs]
   = Ok (RI ret, [VArrF inputs; VArrF out]) /\ List.length out = List.length inputs /\
     (ret = 0 \/ ret = 33).
Proof.
  intros Hexp Hout Hn. rewrite exec_fun_S. cbn -[exec_fun exec]. norm_state. do 10 step.
  run.
  destruct (negb (tt =? 0) && negb (tt =? 1)) eqn:Htt; run.
  { exists 33, outputs. split; [reflexivity|]. split; [exact Hout|right; reflexivity]. }
  destruct (nltb N thresh (nofZ N 0) || nltb N (nofZ N 1) thresh) eqn:Hth; run.
  { exists 33, outputs. split; [reflexivity|]. split; [exact Hout|right; reflexivity]. }
  destruct (nltb N bfi (nofZ N 0) || nltb N (nofZ N 1) bfi) eqn:Hbfi; run.
  { exists 33, outputs. split; [reflexivity|]. split; [exact Hout|right; reflexivity]. }
  rewrite if_ok. run.
  set (tl := nofZ N (if tt =? 0 then 1 else 24)).
  destruct (next X "exp" [ndiv N (nopp N tl) tau]) as [alpha|] eqn:Ealpha; [|exfalso; exact (Hexp _ Ealpha)].
  run.
  set (c1 := nmul N (nsub N (nofZ N 1) bfi) alpha).
  set (c2 := nmul N (nsub N (nofZ N 1) alpha) bfi).
  set (c3 := nsub N (nofZ N 1) (nmul N alpha bfi)).
  destruct (zlen inputs <? 1) eqn:H1; run.
  { exists 0, outputs. split; [reflexivity|]. split; [exact Hout|left; reflexivity]. }
  apply Z.ltb_ge in H1. rewrite zlen_eq in H1.
  remember (zlen inputs) as nv eqn:Hnv.
  destruct inputs as [|x0 inputs']; [cbn in H1; lia|].
  destruct outputs as [|o0 outputs']; [cbn in Hout; lia|].
  run. rewrite if_ok. run. norm_state.
  remember (x0 :: inputs') as inputs eqn:Hinputs. subst nv.
  loop_with (ek_inv tt thresh tau bfi tl c1 c2 c3 alpha inputs)
            (ek_post tt thresh tau bfi tl c1 c2 c3 alpha inputs) (List.length inputs).
  - intros j st (Hj & q & qtmp & bf1 & bf2 & out & Lout & ->).
    split; [lia|]. unfold ek_state. run. rewrite zlen_eq.
    destruct (Z.ltb_spec (1 + Z.of_nat j) (Z.of_nat (List.length inputs))) as [Hlt|Hge]; run.
    2:{ do 6 eexists. split; [exact Lout|]. unfold ek_state. rewrite zlen_eq. reflexivity. }
    destruct (zget_some inputs (1 + Z.of_nat j)) as (x & Hx); [lia|]. rewrite Hx. run.
    repeat (progress (rewrite ?if_ok; run)).
    match goal with |- context[zset out _ ?v] =>
      destruct (zset_some out (1 + Z.of_nat j) v) as (out2 & E2 & L2); [lia|]; rewrite E2 end.
    run. split; [lia|]. do 5 eexists. split; [|norm_state; unfold ek_state; rewrite zlen_eq;
      replace (1 + Z.of_nat j + 1) with (1 + Z.of_nat (S j)) by lia; reflexivity].
    lia.
  - split; [lia|]. do 5 eexists. split; [|unfold ek_state; replace (1 + Z.of_nat 0) with 1 by lia; reflexivity].
    cbn in *; lia.
  - lia.
  - destruct HL as (r & -> & i & q & qtmp & bf1 & bf2 & out & Lout & ->).
    run. exists 0, out. split; [reflexivity|]. split; [|left; reflexivity].
    rewrite Lout, Hinputs. reflexivity.
Qed.

End Safe.

(* ================================================================== *)
(* c_dateutils_getdate: the casts are defined over the reals with a NaN  *)
(* (instance RN / XRN) and over the reals (RR / XRR)                     *)
From Coq Require Import Reals Lra.

Lemma Int_part_bounds' (x : R) : (IZR (Int_part x) <= x < IZR (Int_part x) + 1)%R.
Proof. destruct (base_Int_part x). lra. Qed.

Lemma R_trunc32 (x : R) : (0 <= x <= 2147483647)%R ->
  exists z, R_trunc x = Some z /\ in_width W32 z = true.
Proof.
  intros [H0 H1]. unfold R_trunc. destruct (Rle_dec 0 x) as [_|C]; [|contradiction].
  exists (Int_part x). split; [reflexivity|].
  assert (B := Int_part_bounds' x).
  assert (0 <= Int_part x) by (apply Z.lt_succ_r; apply lt_IZR; rewrite succ_IZR; lra).
  assert (Int_part x <= 2147483647) by (apply le_IZR; lra).
  unfold in_width. apply andb_true_intro. split; apply Z.leb_le; lia.
Qed.

Lemma getdate_casts_defined_RN : getdate_casts_defined RN XRN.
Proof.
  intros [x|] Hrej; [|discriminate Hrej].
  unfold getdate_reject, lit_intmax in Hrej. cbn in Hrej. unfold lit_R in Hrej.
  apply orb_false_iff in Hrej. destruct Hrej as [H0 H1].
  apply Rltb_false in H0. apply Rltb_false in H1.
  unfold trunc32, lit_1em4, lit_1em2. cbn. unfold lit_R.
  destruct (R_trunc32 (x * (1 / 10000))) as (a & Ea & Wa); [lra|].
  destruct (R_trunc32 (x * (1 / 100))) as (b & Eb & Wb); [lra|].
  destruct (R_trunc32 x) as (c & Ec & Wc); [lra|].
  exists a, b, c. repeat split; assumption.
Qed.

Lemma getdate_casts_defined_RR : getdate_casts_defined RR XRR.
Proof.
  intros x Hrej.
  unfold getdate_reject, lit_intmax in Hrej. cbn in Hrej. unfold lit_R in Hrej.
  apply orb_false_iff in Hrej. destruct Hrej as [H0 H1].
  apply Rltb_false in H0. apply Rltb_false in H1.
  unfold trunc32, lit_1em4, lit_1em2. cbn. unfold lit_R.
  destruct (R_trunc32 (x * (1 / 10000))) as (a & Ea & Wa); [lra|].
  destruct (R_trunc32 (x * (1 / 100))) as (b & Eb & Wb); [lra|].
  destruct (R_trunc32 x) as (c & Ec & Wc); [lra|].
  exists a, b, c. repeat split; assumption.
Qed.

(* any day number, NaN included, any content of date[3] *)
Theorem safe_c_dateutils_getdate_RN day y0 m0 d0 rest n :
  (1 < n)%nat ->
  exists ret out,
    exec_fun RN XRN program (S n) "c_dateutils_getdate" [AVF day; AVArrI (y0 :: m0 :: d0 :: rest)]
    = Ok (RI ret, [VArrI out]) /\
    List.length out = List.length (y0 :: m0 :: d0 :: rest).
Proof. apply safe_c_dateutils_getdate. exact getdate_casts_defined_RN. Qed.

Theorem safe_c_dateutils_getdate_RR day y0 m0 d0 rest n :
  (1 < n)%nat ->
  exists ret out,
    exec_fun RR XRR program (S n) "c_dateutils_getdate" [AVF day; AVArrI (y0 :: m0 :: d0 :: rest)]
    = Ok (RI ret, [VArrI out]) /\
    List.length out = List.length (y0 :: m0 :: d0 :: rest).
Proof. apply safe_c_dateutils_getdate. exact getdate_casts_defined_RR. Qed.

(* ================================================================== *)
(* binary64 (F64 / XF64): the general theorem for c_dateutils_getdate is  *)
(* not instantiated (it needs bounds on the rounded products day*1e-4,  *)
(* day*1e-2); the extreme accepted and the rejected days run safely      *)

Example getdate_F64_extremes :
  (exists code, 0 < code /\
     exec_fun F64 XF64 program 5 "c_dateutils_getdate" [AVF 2147483647%float; AVArrI [0; 0; 0]]
     = Ok (RI code, [VArrI [0; 0; 0]])) /\
  exec_fun F64 XF64 program 5 "c_dateutils_getdate" [AVF 20000229%float; AVArrI [0; 0; 0]]
  = Ok (RI 0, [VArrI [2000; 2; 29]]) /\
  (exists code, 0 < code /\
     exec_fun F64 XF64 program 5 "c_dateutils_getdate" [AVF (-0)%float; AVArrI [0; 0; 0]]
     = Ok (RI code, [VArrI [0; 0; 0]])) /\
  (exists code, 0 < code /\
     exec_fun F64 XF64 program 5 "c_dateutils_getdate" [AVF nan; AVArrI [0; 0; 0]]
     = Ok (RI code, [VArrI [0; 0; 0]])) /\
  (exists code, 0 < code /\
     exec_fun F64 XF64 program 5 "c_dateutils_getdate" [AVF infinity; AVArrI [0; 0; 0]]
     = Ok (RI code, [VArrI [0; 0; 0]])) /\
  (exists code, 0 < code /\
     exec_fun F64 XF64 program 5 "c_dateutils_getdate" [AVF 0x1p+1000%float; AVArrI [0; 0; 0]]
     = Ok (RI code, [VArrI [0; 0; 0]])).
Proof.
  repeat split; try (vm_compute; reflexivity);
    eexists; (split; [|vm_compute; reflexivity]); reflexivity.
Qed.

(* the buffer-length hypotheses cannot be dropped (inputs the wrappers refuse) *)
Example tight_add1month_short :
  exec_fun F64 XF64 program 5 "c_dateutils_add1month" [AVArrI [2000; 1]] = Err (OOB "date" 2).
Proof. vm_compute. reflexivity. Qed.

Example tight_comparedates_short :
  exec_fun F64 XF64 program 5 "c_dateutils_comparedates" [AVArrI [2000; 1]; AVArrI [2000; 1; 1]]
  = Err (OOB "date1" 2).
Proof. vm_compute. reflexivity. Qed.

Example tight_islin_short_out :
  exec_fun F64 XF64 program 5 "c_islin"
    [AVI 1; AVF 0%float; AVF 1%float; AVI 1; AVArrF [1%float]; AVArrI []] = Err (OOB "islin" 0).
Proof. vm_compute. reflexivity. Qed.

Example tight_islin_nval_too_large :
  exec_fun F64 XF64 program 5 "c_islin"
    [AVI 3; AVF 0%float; AVF 1%float; AVI 1; AVArrF [1%float; 1%float]; AVArrI [0; 0; 0]]
  = Err (OOB "data" 2).
Proof. vm_compute. reflexivity. Qed.
