(* Lemmas about Model/Scores.v, part 2: bias, nse, kge, corr over the reals
   equal their textbook definitions; perfect simulation, mean simulation,
   upper bounds, invariances. *)
From Coq Require Import ZArith Bool List Reals Lra Lia Psatz.
From Hy Require Import Base.Num Gen.Consts Gen.ConstsC04 Model.Scores Proofs.ScoresProofs.
Import ListNotations.
Open Scope R_scope.

Notation EPS := C04_EPS_R.

Lemma EPS_pos : 0 < EPS.
Proof. unfold C04_EPS_R. lra. Qed.

(* ------------------------------------------------------------------ *)
(* the reals have no missing value: excludenull is idle                 *)

Lemma notnan_RR l : forallb (fun x => negb (nisnan RR x)) l = true.
Proof. induction l; simpl; auto. Qed.

Lemma with_excl_RR excl core (o s : list R) :
  length o = length s -> o <> [] -> with_excl RR excl core o s = core o s.
Proof.
  intros Hl Hne. destruct excl.
  - rewrite (excl_clean RR core o s Hl Hne (notnan_RR o) (notnan_RR s)).
    unfold with_excl. now rewrite Hl, Nat.eqb_refl.
  - unfold with_excl. now rewrite Hl, Nat.eqb_refl.
Qed.

(* ------------------------------------------------------------------ *)
(* bias                                                                 *)

Definition biasR (ty : btype) (o s : list R) : R :=
  match ty with
  | BStd => (meanR s - meanR o) / meanR o
  | BNorm => (meanR s - meanR o) / (meanR s + meanR o)
  | BLog => ln (meanR s) - ln (meanR o)
  end.

(* the guards, as propositions *)
Definition bias_defined (ty : btype) (o s : list R) : Prop :=
  EPS <= Rabs (meanR o) /\
  match ty with
  | BStd => True
  | BNorm => meanR s + meanR o <> 0
  | BLog => EPS < meanR s /\ EPS < meanR o
  end.

Lemma bias_core_R ty o s :
  bias_defined ty o s -> bias_core RR EPS ln ty o s = SVal (biasR ty o s).
Proof.
  intros [Hm Hty]. unfold bias_core. rewrite !mean_R. cbn [nltb nabs nsub nadd ndiv RR].
  destruct (Rltb (Rabs (meanR o)) EPS) eqn:E; [apply Rltb_true in E; lra|].
  destruct ty; try reflexivity.
  destruct Hty as [H1 H2].
  apply Rltb_true in H1, H2. rewrite H1, H2. reflexivity.
Qed.

Lemma bias_core_guard_mean ty o s :
  Rabs (meanR o) < EPS -> bias_core RR EPS ln ty o s = SNan.
Proof.
  intros H. unfold bias_core. rewrite !mean_R. cbn [nltb nabs RR].
  apply Rltb_true in H. now rewrite H.
Qed.

Lemma bias_core_guard_log o s :
  EPS <= Rabs (meanR o) -> (meanR s <= EPS \/ meanR o <= EPS) ->
  bias_core RR EPS ln BLog o s = SNan.
Proof.
  intros Hm H. unfold bias_core. rewrite !mean_R. cbn [nltb nabs RR].
  destruct (Rltb (Rabs (meanR o)) EPS) eqn:E; [apply Rltb_true in E; lra|].
  destruct H as [H|H]; apply Rltb_false in H; rewrite H; [reflexivity|].
  now rewrite andb_false_r.
Qed.

Lemma bias_R fwd excl ty obs sim :
  length obs = length sim -> obs <> [] ->
  bias_defined ty (map fwd obs) (map fwd sim) ->
  bias RR EPS ln fwd excl ty obs sim = SVal (biasR ty (map fwd obs) (map fwd sim)).
Proof.
  intros Hl Hne Hd. unfold bias.
  rewrite with_excl_RR; [now apply bias_core_R| now rewrite !map_length|].
  destruct obs; [congruence|discriminate].
Qed.

(* perfect simulation *)
Lemma biasR_perfect ty o : bias_defined ty o o -> biasR ty o o = 0.
Proof.
  intros [Hm Hty]. destruct ty; simpl.
  - unfold Rdiv. ring.
  - unfold Rdiv. ring.
  - ring.
Qed.

(* common positive scaling *)
Definition scale (c : R) (l : list R) : list R := map (fun v => c * v) l.

Lemma scale_affine c l : scale c l = map (fun v => c * v + 0) l.
Proof. unfold scale. apply map_ext. intros; ring. Qed.

Lemma meanR_scale c l : l <> [] -> meanR (scale c l) = c * meanR l.
Proof. intros H. rewrite scale_affine, meanR_affine by exact H. ring. Qed.

Lemma SS_scale c l : l <> [] -> SS (scale c l) = c * c * SS l.
Proof. intros H. rewrite scale_affine. now apply SS_affine. Qed.

Lemma biasR_scale c ty o s :
  0 < c -> o <> [] -> s <> [] -> bias_defined ty o s ->
  biasR ty (scale c o) (scale c s) = biasR ty o s.
Proof.
  intros Hc Ho Hs [Hm Hty].
  assert (Hmo : meanR o <> 0).
  { intros E. rewrite E, Rabs_R0 in Hm. pose proof EPS_pos. lra. }
  destruct ty; simpl; rewrite !meanR_scale by assumption.
  - field. split; lra.
  - field. split; [lra|]. intros E. apply Hty. nra.
  - destruct Hty as [H1 H2]. pose proof EPS_pos.
    rewrite !ln_mult by lra. ring.
Qed.

(* ------------------------------------------------------------------ *)
(* nse                                                                  *)

Definition nseR (o s : list R) : R := 1 - SE o s / SS o.

Lemma nse_core_R o s : nse_core RR o s = SVal (nseR o s).
Proof.
  unfold nse_core, nseR. rewrite !np_sum_R, mean_R. cbn [nsub ndiv n1 RR].
  assert (E1 : sumR (map (fun p : R * R => sqdiff RR (snd p) (fst p)) (combine o s)) = SE o s).
  { unfold SE. apply sumR_map_ext. intros p _. unfold sqdiff. cbn [nsub nmul RR]. reflexivity. }
  assert (E2 : sumR (map (fun a : R => sqdiff RR (meanR o) a) o) = SS o).
  { unfold SS. apply sumR_map_ext. intros a _. unfold sqdiff. cbn [nsub nmul RR]. ring. }
  now rewrite E1, E2.
Qed.

Lemma nse_R fwd excl obs sim :
  length obs = length sim -> obs <> [] ->
  nse RR fwd excl obs sim = SVal (nseR (map fwd obs) (map fwd sim)).
Proof.
  intros Hl Hne. unfold nse.
  rewrite with_excl_RR; [apply nse_core_R| now rewrite !map_length|].
  destruct obs; [congruence|discriminate].
Qed.

Lemma nseR_perfect o : SS o <> 0 -> nseR o o = 1.
Proof. intros H. unfold nseR. rewrite SE_self. field. exact H. Qed.

Lemma nseR_mean o : SS o <> 0 -> nseR o (map (fun _ => meanR o) o) = 0.
Proof. intros H. unfold nseR. rewrite SE_mean. field. exact H. Qed.

Lemma nseR_le_1 o s : 0 < SS o -> nseR o s <= 1.
Proof.
  intros H. unfold nseR. pose proof (SE_nonneg o s).
  assert (0 <= SE o s / SS o).
  { unfold Rdiv. apply Rmult_le_pos; [assumption|]. left. now apply Rinv_0_lt_compat. }
  lra.
Qed.

Lemma nseR_affine a b o s :
  a <> 0 -> 0 < SS o ->
  nseR (map (fun x => a * x + b) o) (map (fun x => a * x + b) s) = nseR o s.
Proof.
  intros Ha Hs. unfold nseR.
  rewrite SE_affine, SS_affine by (now apply SS_pos_nonempty).
  field. split; lra.
Qed.

(* ------------------------------------------------------------------ *)
(* kge                                                                  *)

Definition kgeR (o s : list R) : R :=
  1 - sqrt ((1 - meanR s / meanR o) * (1 - meanR s / meanR o)
            + (1 - sdR s / sdR o) * (1 - sdR s / sdR o)
            + (1 - pearsonR o s) * (1 - pearsonR o s)).

Definition kge_defined (o s : list R) : Prop :=
  EPS <= Rabs (meanR o) /\ EPS <= sdR o /\ EPS < sdR s.

Lemma kge_core_R o s :
  length o = length s -> kge_defined o s -> kge_core RR EPS o s = SVal (kgeR o s).
Proof.
  intros Hl (Hm & Ho & Hs). pose proof EPS_pos as He.
  unfold kge_core. rewrite !mean_R, !std_R. cbn [nltb nabs nsub nadd nmul ndiv nsqrt n1 RR].
  destruct (Rltb (Rabs (meanR o)) EPS) eqn:E1; [apply Rltb_true in E1; lra|].
  rewrite (Rabs_pos_eq (sdR o)) by apply sdR_nonneg.
  rewrite (Rabs_pos_eq (sdR s)) by apply sdR_nonneg.
  destruct (Rltb (sdR o) EPS) eqn:E2; [apply Rltb_true in E2; lra|].
  apply Rltb_true in Hs. rewrite Hs. apply Rltb_true in Hs.
  rewrite pearson_R; [reflexivity|exact Hl| |]; apply sdR_pos_SS; lra.
Qed.

Lemma kge_core_guards o s :
  (Rabs (meanR o) < EPS \/ sdR o < EPS \/ sdR s <= EPS) -> kge_core RR EPS o s = SNan.
Proof.
  intros H. unfold kge_core. rewrite !mean_R, !std_R. cbn [nltb nabs RR].
  rewrite (Rabs_pos_eq (sdR o)) by apply sdR_nonneg.
  rewrite (Rabs_pos_eq (sdR s)) by apply sdR_nonneg.
  destruct (Rltb (Rabs (meanR o)) EPS) eqn:E1; [reflexivity|].
  destruct (Rltb (sdR o) EPS) eqn:E2; [reflexivity|].
  destruct (Rltb EPS (sdR s)) eqn:E3; [|reflexivity].
  apply Rltb_false in E1, E2. apply Rltb_true in E3. lra.
Qed.

Lemma kge_R fwd excl obs sim :
  length obs = length sim -> obs <> [] ->
  kge_defined (map fwd obs) (map fwd sim) ->
  kge RR EPS fwd excl obs sim = SVal (kgeR (map fwd obs) (map fwd sim)).
Proof.
  intros Hl Hne Hd. unfold kge.
  rewrite with_excl_RR; [apply kge_core_R; [now rewrite !map_length|exact Hd]
                        | now rewrite !map_length|].
  destruct obs; [congruence|discriminate].
Qed.

Lemma kgeR_le_1 o s : kgeR o s <= 1.
Proof. unfold kgeR. match goal with |- 1 - sqrt ?x <= 1 => pose proof (sqrt_pos x) end. lra. Qed.

Lemma kgeR_perfect o : kge_defined o o -> kgeR o o = 1.
Proof.
  intros (Hm & Ho & Hs). pose proof EPS_pos as He.
  assert (Hmo : meanR o <> 0).
  { intros E. rewrite E, Rabs_R0 in Hm. lra. }
  unfold kgeR. rewrite pearsonR_self by (apply sdR_pos_SS; lra).
  replace (1 - meanR o / meanR o) with 0 by (field; exact Hmo).
  replace (1 - sdR o / sdR o) with 0 by (field; lra).
  replace (0 * 0 + 0 * 0 + (1 - 1) * (1 - 1)) with 0 by ring.
  rewrite sqrt_0. ring.
Qed.

Lemma sdR_scale c l : 0 < c -> l <> [] -> sdR (scale c l) = c * sdR l.
Proof.
  intros Hc Hne. unfold sdR, scale. rewrite lenR_map. fold (scale c l). rewrite SS_scale by exact Hne.
  replace (c * c * SS l / lenR l) with ((c * c) * (SS l / lenR l)) by (unfold Rdiv; ring).
  pose proof (lenR_pos l Hne). pose proof (SS_nonneg l).
  rewrite sqrt_mult; [| nra |].
  - rewrite sqrt_square by lra. reflexivity.
  - unfold Rdiv. apply Rmult_le_pos; [assumption|]. left. now apply Rinv_0_lt_compat.
Qed.

Lemma pearsonR_scale' c x y : 0 < c -> x <> [] -> y <> [] -> 0 < SS x -> 0 < SS y ->
  pearsonR (scale c x) (scale c y) = pearsonR x y.
Proof. exact (pearsonR_scale c x y). Qed.

Lemma kgeR_scale c o s :
  0 < c -> length o = length s -> kge_defined o s ->
  kgeR (scale c o) (scale c s) = kgeR o s.
Proof.
  intros Hc Hl (Hm & Ho & Hs). pose proof EPS_pos as He.
  assert (Sx : 0 < SS o) by (apply sdR_pos_SS; lra).
  assert (Sy : 0 < SS s) by (apply sdR_pos_SS; lra).
  assert (Hno : o <> []) by (now apply SS_pos_nonempty).
  assert (Hns : s <> []) by (now apply SS_pos_nonempty).
  assert (Hmo : meanR o <> 0).
  { intros E. rewrite E, Rabs_R0 in Hm. lra. }
  unfold kgeR. rewrite pearsonR_scale' by assumption.
  rewrite !meanR_scale, !sdR_scale by assumption.
  replace (c * meanR s / (c * meanR o)) with (meanR s / meanR o) by (field; split; lra).
  replace (c * sdR s / (c * sdR o)) with (sdR s / sdR o) by (field; split; lra).
  reflexivity.
Qed.

(* ------------------------------------------------------------------ *)
(* corr (Pearson)                                                       *)

Lemma corr_core_pearson_R o s :
  length o = length s -> EPS <= sdR o -> 0 < SS s ->
  corr_core RR EPS CPearson o s = SVal (pearsonR o s).
Proof.
  intros Hl Ho Hs. pose proof EPS_pos as He. unfold corr_core. rewrite std_R.
  cbn [nltb nabs RR]. rewrite (Rabs_pos_eq (sdR o)) by apply sdR_nonneg.
  destruct (Rltb (sdR o) EPS) eqn:E; [apply Rltb_true in E; lra|].
  rewrite pearson_R; [reflexivity|exact Hl| |exact Hs]. apply sdR_pos_SS; lra.
Qed.

Lemma corr_core_guard ty o s : sdR o < EPS -> corr_core RR EPS ty o s = SNan.
Proof.
  intros H. unfold corr_core. rewrite std_R. cbn [nltb nabs RR].
  rewrite (Rabs_pos_eq (sdR o)) by apply sdR_nonneg. apply Rltb_true in H. now rewrite H.
Qed.

(* ensemble statistics of a one-member ensemble *)
Lemma rowstat_single st (x : R) : rowstat RR st [x] = x.
Proof.
  destruct st; unfold rowstat.
  - unfold nanmean, count_if. cbn. field.
  - unfold nanmedian. cbn. reflexivity.
Qed.

(* corr on a one-member ensemble: Pearson correlation of the transformed series *)
Lemma corr_single_R fwd excl st obs sim :
  length obs = length sim -> obs <> [] ->
  EPS <= sdR (map fwd obs) -> 0 < SS (map fwd sim) ->
  corr RR EPS fwd excl st CPearson obs (map (fun v => [v]) sim) =
  SVal (pearsonR (map fwd obs) (map fwd sim)).
Proof.
  intros Hl Hne Ho Hs. unfold corr, corr_p. rewrite !map_length, Hl, Nat.eqb_refl. cbn [negb].
  set (L := combine (map (fun x => (x, fwd x)) obs)
                    (map (map (fun x => (x, fwd x))) (map (fun v => [v]) sim))).
  assert (Hf : filter (row_valid RR) L = L).
  { unfold L. clear. revert sim. induction obs as [|a o IH]; intros [|b s]; simpl; try reflexivity.
    now rewrite IH. }
  rewrite Hf.
  assert (H1 : map (fun r : (R * R) * list (R * R) => snd (fst r)) L = map fwd obs).
  { unfold L. clear -Hl. revert sim Hl. induction obs as [|a o IH]; intros [|b s] Hl; simpl in *;
      try reflexivity; try discriminate. f_equal. apply IH. lia. }
  assert (H2 : map (fun r : (R * R) * list (R * R) => rowstat RR st (map snd (snd r))) L = map fwd sim).
  { unfold L. clear -Hl. revert sim Hl. induction obs as [|a o IH]; intros [|b s] Hl; simpl in *;
      try reflexivity; try discriminate. rewrite rowstat_single. f_equal. apply IH. lia. }
  destruct L as [|r0 L'] eqn:EL.
  - exfalso. destruct obs; [congruence|]. destruct sim; [discriminate|]. unfold L in EL. discriminate.
  - rewrite H1, H2.
    rewrite with_excl_RR; [| now rewrite !map_length | destruct obs; [congruence|discriminate]].
    apply corr_core_pearson_R; [now rewrite !map_length | exact Ho | exact Hs].
Qed.

(* ------------------------------------------------------------------ *)
(* non-vacuity: a concrete series meets every hypothesis above          *)

Definition ex_obs : list R := [1; 2; 4].
Definition ex_sim : list R := [2; 2; 5].

Lemma ex_mean_obs : meanR ex_obs = 7 / 3.
Proof. unfold meanR, lenR, ex_obs. simpl. field. Qed.
Lemma ex_mean_sim : meanR ex_sim = 3.
Proof. unfold meanR, lenR, ex_sim. simpl. field. Qed.
Lemma ex_SS_obs : SS ex_obs = 14 / 3.
Proof. unfold SS. rewrite ex_mean_obs. unfold ex_obs. simpl. field. Qed.
Lemma ex_SS_sim : SS ex_sim = 6.
Proof. unfold SS. rewrite ex_mean_sim. unfold ex_sim. simpl. field. Qed.

Lemma sqrt_ge_1 x : 1 <= x -> 1 <= sqrt x.
Proof. intros H. rewrite <- sqrt_1. apply sqrt_le_1_alt. exact H. Qed.

Lemma ex_sd_obs : 1 <= sdR ex_obs.
Proof. unfold sdR. rewrite ex_SS_obs. unfold lenR, ex_obs. simpl. apply sqrt_ge_1. lra. Qed.
Lemma ex_sd_sim : 1 <= sdR ex_sim.
Proof. unfold sdR. rewrite ex_SS_sim. unfold lenR, ex_sim. simpl. apply sqrt_ge_1. lra. Qed.

Lemma ex_bias_defined ty : bias_defined ty ex_obs ex_sim.
Proof.
  unfold bias_defined. rewrite ex_mean_obs, ex_mean_sim. unfold C04_EPS_R.
  split; [rewrite Rabs_pos_eq; lra|]. destruct ty; [exact I | lra | lra].
Qed.

Lemma ex_kge_defined : kge_defined ex_obs ex_sim.
Proof.
  unfold kge_defined. rewrite ex_mean_obs. pose proof ex_sd_obs. pose proof ex_sd_sim.
  unfold C04_EPS_R. repeat split; [rewrite Rabs_pos_eq; lra | lra | lra].
Qed.

Lemma ex_kge_defined_self : kge_defined ex_obs ex_obs.
Proof.
  unfold kge_defined. rewrite ex_mean_obs. pose proof ex_sd_obs.
  unfold C04_EPS_R. repeat split; [rewrite Rabs_pos_eq; lra | lra | lra].
Qed.

Lemma ex_bias_defined_self ty : bias_defined ty ex_obs ex_obs.
Proof.
  unfold bias_defined. rewrite ex_mean_obs. unfold C04_EPS_R.
  split; [rewrite Rabs_pos_eq; lra|]. destruct ty; [exact I | lra | lra].
Qed.

Lemma ex_SS_pos : 0 < SS ex_obs.
Proof. rewrite ex_SS_obs. lra. Qed.

Lemma ex_scaled_defined :
  kge_defined (scale 2 ex_obs) (scale 2 ex_sim) /\
  forall ty, bias_defined ty (scale 2 ex_obs) (scale 2 ex_sim).
Proof.
  assert (No : ex_obs <> []) by discriminate. assert (Ns : ex_sim <> []) by discriminate.
  pose proof ex_sd_obs. pose proof ex_sd_sim.
  split.
  - unfold kge_defined. rewrite meanR_scale, !sdR_scale by (auto; lra).
    rewrite ex_mean_obs. unfold C04_EPS_R. repeat split; [rewrite Rabs_pos_eq; lra | lra | lra].
  - intros ty. unfold bias_defined. rewrite !meanR_scale by auto.
    rewrite ex_mean_obs, ex_mean_sim. unfold C04_EPS_R.
    split; [rewrite Rabs_pos_eq; lra|]. destruct ty; [exact I | lra | lra].
Qed.

(* ------------------------------------------------------------------ *)
(* statements at the level of the public functions (restated in Props/C04.v) *)

Lemma api_excludenull_nothing_left : forall {T} (N : NumOps T) core o s,
  length o = length s -> filter (complete N) (combine o s) = [] ->
  with_excl N true core o s = SErr.
Proof. intros T N core o s Hl Hf. apply excl_all_missing; [exact Hl | now apply nonull_none]. Qed.

Lemma api_excludenull_nonvacuous :
  nonull RN [Some 1; None; Some 3; Some 4] [Some 2; Some 5; None; Some 6]
  = Some ([Some 1; Some 4], [Some 2; Some 6]).
Proof. reflexivity. Qed.

Lemma api_mean_std : forall l,
  mean RR l = sumR l / lenR l /\
  var RR l = sumR (map (fun x => (x - meanR l) * (x - meanR l)) l) / lenR l /\
  std RR l = sqrt (SS l / lenR l).
Proof. intros l. split; [apply mean_R | split; [apply var_R | apply std_R]]. Qed.

Lemma api_pearson_definition : forall x y,
  length x = length y -> 0 < SS x -> 0 < SS y ->
  pearson RR x y = SXY x y / sqrt (SS x * SS y) /\ -1 <= pearson RR x y <= 1.
Proof.
  intros x y Hl Hx Hy. rewrite (pearson_R x y Hl Hx Hy).
  split; [reflexivity | now apply pearsonR_bound].
Qed.

Lemma api_bias_guards : forall ty o s,
  (Rabs (meanR o) < EPS -> bias_core RR EPS ln ty o s = SNan) /\
  (EPS <= Rabs (meanR o) -> meanR s <= EPS \/ meanR o <= EPS ->
   bias_core RR EPS ln BLog o s = SNan).
Proof. intros ty o s. split; [apply bias_core_guard_mean | apply bias_core_guard_log]. Qed.

Lemma api_perfect_bias : forall fwd excl ty obs,
  obs <> [] -> bias_defined ty (map fwd obs) (map fwd obs) ->
  bias RR EPS ln fwd excl ty obs obs = SVal 0.
Proof.
  intros fwd excl ty obs Hne Hd. rewrite bias_R by auto. now rewrite biasR_perfect.
Qed.

Lemma api_perfect_nse : forall fwd excl obs,
  0 < SS (map fwd obs) -> nse RR fwd excl obs obs = SVal 1.
Proof.
  intros fwd excl obs Hs.
  assert (obs <> []) by (intros ->; simpl in Hs; rewrite SS_nil in Hs; lra).
  rewrite nse_R by auto. rewrite nseR_perfect; [reflexivity|lra].
Qed.

Lemma api_perfect_kge : forall fwd excl obs,
  kge_defined (map fwd obs) (map fwd obs) -> kge RR EPS fwd excl obs obs = SVal 1.
Proof.
  intros fwd excl obs Hd.
  assert (obs <> []).
  { intros ->. destruct Hd as (_ & H & _). unfold sdR in H. simpl in H. rewrite SS_nil in H.
    unfold Rdiv in H. rewrite Rmult_0_l, sqrt_0 in H. pose proof EPS_pos. lra. }
  rewrite kge_R by auto. now rewrite kgeR_perfect.
Qed.

Lemma api_perfect_corr : forall fwd excl st obs,
  EPS <= sdR (map fwd obs) ->
  corr RR EPS fwd excl st CPearson obs (map (fun v => [v]) obs) = SVal 1.
Proof.
  intros fwd excl st obs Hs. pose proof EPS_pos.
  assert (Hp : 0 < SS (map fwd obs)) by (apply sdR_pos_SS; lra).
  assert (obs <> []) by (intros ->; simpl in Hp; rewrite SS_nil in Hp; lra).
  rewrite corr_single_R by auto. now rewrite pearsonR_self.
Qed.

Lemma api_perfect_nonvacuous :
  (forall ty, bias_defined ty ex_obs ex_obs) /\ 0 < SS ex_obs /\ kge_defined ex_obs ex_obs.
Proof. split; [exact ex_bias_defined_self | split; [exact ex_SS_pos | exact ex_kge_defined_self]]. Qed.

Lemma api_nse_mean_simulation : forall fwd excl obs sim,
  0 < SS (map fwd obs) ->
  map fwd sim = map (fun _ => meanR (map fwd obs)) (map fwd obs) ->
  nse RR fwd excl obs sim = SVal 0.
Proof.
  intros fwd excl obs sim Hs Hsim.
  assert (obs <> []) by (intros ->; simpl in Hs; rewrite SS_nil in Hs; lra).
  assert (Hl : length obs = length sim).
  { apply (f_equal (@length R)) in Hsim. now rewrite !map_length in Hsim. }
  rewrite nse_R by auto. rewrite Hsim, nseR_mean; [reflexivity|lra].
Qed.

Lemma api_nse_le_1 : forall fwd excl obs sim,
  length obs = length sim -> 0 < SS (map fwd obs) ->
  exists v, nse RR fwd excl obs sim = SVal v /\ v <= 1.
Proof.
  intros fwd excl obs sim Hl Hs.
  assert (obs <> []) by (intros ->; simpl in Hs; rewrite SS_nil in Hs; lra).
  eexists. split; [apply nse_R; auto | now apply nseR_le_1].
Qed.

Lemma api_kge_le_1 : forall fwd excl obs sim,
  length obs = length sim -> obs <> [] -> kge_defined (map fwd obs) (map fwd sim) ->
  exists v, kge RR EPS fwd excl obs sim = SVal v /\ v <= 1.
Proof.
  intros fwd excl obs sim Hl Hne Hd.
  eexists. split; [apply kge_R; auto | apply kgeR_le_1].
Qed.

Lemma api_nse_affine_invariant : forall a b excl o s,
  a <> 0 -> length o = length s -> 0 < SS o ->
  nse RR idT excl (map (fun x => a * x + b) o) (map (fun x => a * x + b) s) =
  nse RR idT excl o s.
Proof.
  intros a b excl o s Ha Hl Hs.
  assert (o <> []) by (now apply SS_pos_nonempty).
  rewrite !nse_R; try (now rewrite ?map_length); try (destruct o; [congruence|discriminate]).
  unfold idT. rewrite !map_id. now rewrite nseR_affine.
Qed.

Lemma api_bias_scale_invariant : forall c excl ty o s,
  0 < c -> length o = length s -> o <> [] ->
  bias_defined ty o s -> bias_defined ty (scale c o) (scale c s) ->
  bias RR EPS ln idT excl ty (scale c o) (scale c s) = bias RR EPS ln idT excl ty o s.
Proof.
  intros c excl ty o s Hc Hl Hne Hd Hd'.
  assert (Hns : s <> []) by (destruct s; [destruct o; [congruence|discriminate]|discriminate]).
  rewrite !bias_R; unfold idT; rewrite ?map_id; unfold scale in *; rewrite ?map_length; auto.
  - f_equal. now apply (biasR_scale c ty o s).
  - destruct o; [congruence|discriminate].
Qed.

Lemma api_kge_scale_invariant : forall c excl o s,
  0 < c -> length o = length s ->
  kge_defined o s -> kge_defined (scale c o) (scale c s) ->
  kge RR EPS idT excl (scale c o) (scale c s) = kge RR EPS idT excl o s.
Proof.
  intros c excl o s Hc Hl Hd Hd'. pose proof EPS_pos.
  assert (Hne : o <> []).
  { apply SS_pos_nonempty. apply sdR_pos_SS. destruct Hd as (_ & ? & _). lra. }
  rewrite !kge_R; unfold idT; rewrite ?map_id; unfold scale in *; rewrite ?map_length; auto.
  - f_equal. now apply (kgeR_scale c o s).
  - destruct o; [congruence|discriminate].
Qed.

(* ------------------------------------------------------------------ *)
(* corr with the mean statistic on an ensemble of any size              *)

Lemma nanmean_R row : nanmean RR row = meanR row.
Proof.
  unfold nanmean, meanR, count_if, lenR. cbn [nisnan ndiv nofZ n0 RR]. rewrite np_sum_R.
  assert (E1 : map (fun x : R => x) row = row) by apply map_id.
  assert (E2 : forall l : list R, filter (fun _ : R => negb false) l = l).
  { induction l as [|a r IH]; simpl; [reflexivity|]. now f_equal. }
  rewrite E1, E2. reflexivity.
Qed.

Lemma corr_mean_R fwd excl obs ens :
  length obs = length ens -> obs <> [] -> Forall (fun r => r <> []) ens ->
  EPS <= sdR (map fwd obs) -> 0 < SS (map (fun r => meanR (map fwd r)) ens) ->
  corr RR EPS fwd excl CMean CPearson obs ens =
  SVal (pearsonR (map fwd obs) (map (fun r => meanR (map fwd r)) ens)).
Proof.
  intros Hl Hne Hrows Ho Hs. unfold corr, corr_p. rewrite !map_length, Hl, Nat.eqb_refl. cbn [negb].
  set (L := combine (map (fun x => (x, fwd x)) obs) (map (map (fun x => (x, fwd x))) ens)).
  assert (Hf : filter (row_valid RR) L = L).
  { unfold L. clear -Hrows. revert ens Hrows. induction obs as [|a o IH]; intros [|r e] Hr; simpl;
      try reflexivity.
    inversion Hr as [|? ? Hr1 Hr2]; subst. rewrite IH by exact Hr2.
    unfold row_valid at 1. cbn [fst snd nisnan RR negb andb].
    destruct r as [|x r]; [congruence|]. reflexivity. }
  rewrite Hf.
  assert (H1 : map (fun r : (R * R) * list (R * R) => snd (fst r)) L = map fwd obs).
  { unfold L. clear -Hl. revert ens Hl. induction obs as [|a o IH]; intros [|r e] Hl; simpl in *;
      try reflexivity; try discriminate. f_equal. apply IH. lia. }
  assert (H2 : map (fun r : (R * R) * list (R * R) => rowstat RR CMean (map snd (snd r))) L =
               map (fun r => meanR (map fwd r)) ens).
  { unfold L. clear -Hl. revert ens Hl. induction obs as [|a o IH]; intros [|r e] Hl;
      try reflexivity; try discriminate.
    cbn [map combine fst snd]. unfold rowstat at 1. rewrite nanmean_R, map_map. cbn [snd].
    f_equal. apply IH. simpl in Hl. lia. }
  destruct L as [|r0 L'] eqn:EL.
  - exfalso. destruct obs; [congruence|]. destruct ens; [discriminate|]. unfold L in EL. discriminate.
  - rewrite H1, H2.
    rewrite with_excl_RR; [| now rewrite !map_length | destruct obs; [congruence|discriminate]].
    apply corr_core_pearson_R; [now rewrite !map_length | exact Ho | exact Hs].
Qed.
