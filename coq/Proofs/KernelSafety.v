(* C05 on the regenerated program: memory safety (no out-of-bounds access, no integer
   division by zero, no out-of-range double -> integer conversion: the MiniC interpreter
   checks all three) of the kernels that have a functional refinement theorem, as
   corollaries of those theorems.  The kernels without one are in Proofs/Safe*.v. *)
From Coq Require Import ZArith Bool List String Lia Reals.
From Hy Require Import Base.Num Base.MiniC Gen.KernelsAst Gen.Consts Model.Grid.
From Hy Require Proofs.RefineGrid Proofs.RefineGridGeom Proofs.RefineDutils Proofs.RefineAccumulate
  Proofs.RefinePolygon Proofs.RefineVar2h.
Import ListNotations.
Open Scope string_scope.
Open Scope list_scope.
Open Scope Z_scope.

Section S.
Context {T : Type} (N : NumOps T) (X : NumLit T).

Theorem safe_c_cell2rowcol nrows ncols idx buf n :
  List.length buf = (2 * List.length idx)%nat -> (List.length idx < n)%nat ->
  exists out, exec_fun N X program (S n) "c_cell2rowcol"
      [AVI nrows; AVI ncols; AVI (zlen idx); AVArrI idx; AVArrI buf]
    = Ok (RI 0, [VArrI idx; VArrI out]).
Proof. intros H1 H2. eexists. apply RefineGrid.refine_cell2rowcol; assumption. Qed.

Theorem safe_c_cell2coord nrows ncols (xll yll csz : T) idx buf n :
  RefineGridGeom.half_law N X ->
  List.length buf = (2 * List.length idx)%nat -> (List.length idx < n)%nat ->
  exists out, exec_fun N X program (S n) "c_cell2coord"
      [AVI nrows; AVI ncols; AVF xll; AVF yll; AVF csz; AVI (zlen idx); AVArrI idx; AVArrF buf]
    = Ok (RI 0, [VArrI idx; VArrF out]).
Proof. intros H0 H1 H2. eexists. apply RefineGridGeom.refine_cell2coord; assumption. Qed.

(* c_coord2cell: under the floor / conversion laws of RefineGridGeom.floor_laws (proved for
   the reals and the reals with NaN): any coordinates incl. NaN, any csz incl. 0 *)
Theorem safe_c_coord2cell cmax (FL : RefineGridGeom.floor_laws N X cmax)
    nrows ncols (xll yll csz : T) xy buf n :
  nrows <= cmax -> ncols <= cmax ->
  List.length xy = (2 * List.length buf)%nat -> (List.length buf < n)%nat ->
  exists out, exec_fun N X program (S n) "c_coord2cell"
      [AVI nrows; AVI ncols; AVF xll; AVF yll; AVF csz; AVI (zlen buf); AVArrF xy; AVArrI buf]
    = Ok (RI 0, [VArrF xy; VArrI out]).
Proof. intros. eexists. eapply RefineGridGeom.refine_coord2cell_raw; eassumption. Qed.

Theorem safe_c_neighbours nrows ncols idx nb n :
  List.length nb = 9%nat -> (3 < n)%nat ->
  exists r out, exec_fun N X program (S n) "c_neighbours" [AVI nrows; AVI ncols; AVI idx; AVArrI nb]
    = Ok (RI r, [VArrI out]).
Proof.
  intros H1 H2. generalize (RefineGridGeom.refine_neighbours N X nrows ncols idx nb n H1 H2).
  destruct (neighbours nrows ncols idx) as [l|].
  - intros E. eexists; eexists; exact E.
  - intros (code & _ & E). eexists; eexists; exact E.
Qed.

Theorem safe_c_aggregate (HZ : nofZ N 0 = n0 N) op maxnan idx (xs outbuf : list T) ie n :
  List.length xs = List.length idx -> List.length outbuf = List.length idx ->
  (List.length idx < n)%nat ->
  exists r out ie', exec_fun N X program (S n) "c_aggregate"
     [AVI (zlen idx); AVI op; AVI maxnan; AVArrI idx; AVArrF xs; AVArrF outbuf; AVArrI [ie]]
    = Ok (RI r, [VArrI idx; VArrF xs; VArrF out; VArrI [ie']]).
Proof.
  intros H1 H2 H3.
  generalize (RefineDutils.refine_aggregate N X HZ op maxnan idx xs outbuf ie n H1 H2 H3). cbv zeta.
  destruct (Dutils.c_aggregate N (Dutils.agg_upd N) (zlen idx) op maxnan idx xs outbuf) as [| |s|];
    try (intros (code & out' & _ & _ & E); do 3 eexists; exact E);
    try destruct s as [out iend]; intros E; do 3 eexists; exact E.
Qed.

Theorem safe_c_flathomogen (HZ : nofZ N 0 = n0 N) maxnan idx (xs outbuf : list T) n :
  List.length xs = List.length idx -> List.length outbuf = List.length idx ->
  (List.length idx < n)%nat ->
  exists r out, exec_fun N X program (S n) "c_flathomogen"
     [AVI (zlen idx); AVI maxnan; AVArrI idx; AVArrF xs; AVArrF outbuf]
    = Ok (RI r, [VArrI idx; VArrF xs; VArrF out]).
Proof.
  intros H1 H2 H3.
  generalize (RefineDutils.refine_flathomogen N X HZ maxnan idx xs outbuf n H1 H2 H3). cbv zeta.
  destruct (Dutils.c_flathomogen N maxnan idx xs) as [| |out|];
    try (intros (code & out' & _ & _ & E); do 2 eexists; exact E);
    intros E; do 2 eexists; exact E.
Qed.

Theorem safe_c_accumulate nrows ncols nprint maxcells (nodata : T) fd field n :
  List.length fd = Z.to_nat (nrows * ncols) -> List.length field = Z.to_nat (nrows * ncols) ->
  (Nat.max (Nat.max (Z.to_nat (nrows * ncols)) (Z.to_nat (maxcells + 1))) 10 < n)%nat ->
  exists r out, exec_fun N X program (S n) "c_accumulate"
      [AVI nrows; AVI ncols; AVI nprint; AVI maxcells; AVF nodata; AVArrI FLOWDIRCODE;
       AVArrI fd; AVArrF field; AVArrF field]
    = Ok (RI r, [VArrI FLOWDIRCODE; VArrI fd; VArrF field; VArrF out]).
Proof.
  intros H1 H2 H3.
  generalize (RefineAccumulate.refine_accumulate N X nrows ncols nprint maxcells nodata fd field n H1 H2 H3).
  destruct (Accumulate.accumulate N nrows ncols maxcells nodata fd field) as [res|].
  - intros E. do 2 eexists; exact E.
  - intros (code & _ & E). do 2 eexists; exact E.
Qed.

Theorem safe_c_inside nprint (pts poly : list (T * T)) (atol xl0 xl1 yl0 yl1 : T) ins n :
  List.length ins = List.length pts -> poly <> [] ->
  (List.length pts < n)%nat -> (List.length poly < n)%nat ->
  exists out, exec_fun N X program (S n) "c_inside"
    [AVI nprint; AVI (zlen pts); AVArrF (RefinePolygon.flat pts); AVI (zlen poly);
     AVArrF (RefinePolygon.flat poly); AVF atol; AVArrF [xl0; xl1]; AVArrF [yl0; yl1]; AVArrI ins]
  = Ok (RI 0, [VArrF (RefinePolygon.flat pts); VArrF (RefinePolygon.flat poly);
               VArrF [xl0; xl1]; VArrF [yl0; yl1]; VArrI out]).
Proof. intros. eexists. apply RefinePolygon.refine_c_inside_wrapper; assumption. Qed.

End S.

(* c_var2h over the reals with NaN: unsorted stamps, any values, any number of periods *)
Theorem safe_c_var2h_RN P rain disp maxgap hstart sec (vals hinit : list (option R)) n :
  List.length vals = List.length sec ->
  (Nat.max (List.length sec) (List.length hinit) < n)%nat ->
  exists r h, exec_fun RN XRN program (S n) "c_var2h"
      (RefineVar2h.var2h_args P rain disp maxgap hstart sec vals hinit)
    = Ok (RI r, [VArrI sec; VArrF vals; VArrF h]).
Proof.
  intros H1 H2. generalize (RefineVar2h.refine_c_var2h_RN P rain disp maxgap hstart sec vals hinit n H1 H2).
  destruct (Var2h.c_var2h_RN true P rain maxgap hstart sec vals hinit) as [| |h].
  - intros [Ha Hb]. destruct sec as [|s0 sec'].
    + destruct (Ha eq_refl) as (code & _ & E). do 2 eexists; exact E.
    + do 2 eexists. apply Hb. discriminate.
  - intros (code & h' & _ & _ & E). do 2 eexists; exact E.
  - intros E. do 2 eexists; exact E.
Qed.
