(* Lemmas about Model/Scores.v, part 4: series with missing values.
   [RN] = option R, None plays NaN.  On complete data every score computed in
   [RN] is the score computed in [RR]; together with the glue laws this gives:
   with excludenull, the score of a series with missing values is the
   real-number score of its complete pairs. *)
From Coq Require Import ZArith Bool List Reals Lra Lia.
From Hy Require Import Base.Num Gen.Consts Gen.ConstsC04 Model.Scores
  Proofs.ScoresProofs Proofs.ScoresRealProofs.
Import ListNotations.
Open Scope R_scope.

Definition someL (l : list R) : list (option R) := map Some l.

Definition lift (r : sout (T:=R)) : sout (T:=option R) :=
  match r with SErr => SErr | SNan => SNan | SVal v => SVal (Some v) end.

Definition lnN : option R -> option R := olift1 ln.

Lemma someL_length l : length (someL l) = length l.
Proof. apply map_length. Qed.

(* ---- reductions ---- *)
Lemma sum_seq_RN acc l : sum_seq RN (Some acc) (someL l) = Some (sum_seq RR acc l).
Proof.
  unfold sum_seq. revert acc; induction l as [|x l IH]; intros acc; simpl; [reflexivity|].
  apply IH.
Qed.

Lemma pw_blocks_RN : forall n l, (length l <= n)%nat ->
  forall r0 r1 r2 r3 r4 r5 r6 r7,
  pw_blocks RN (Some r0) (Some r1) (Some r2) (Some r3) (Some r4) (Some r5) (Some r6) (Some r7)
            (someL l) =
  Some (pw_blocks RR r0 r1 r2 r3 r4 r5 r6 r7 l).
Proof.
  induction n as [|n IH]; intros l Hl r0 r1 r2 r3 r4 r5 r6 r7.
  - destruct l; [|simpl in Hl; lia]. reflexivity.
  - destruct l as [|a0 [|a1 [|a2 [|a3 [|a4 [|a5 [|a6 [|a7 rest]]]]]]]];
      try reflexivity.
    cbn [someL map pw_blocks]. cbn [nadd RN olift2]. fold (someL rest).
    apply IH. simpl in Hl. lia.
Qed.

Lemma pw_block_RN l : pw_block RN (someL l) = Some (pw_block RR l).
Proof.
  destruct l as [|a0 [|a1 [|a2 [|a3 [|a4 [|a5 [|a6 [|a7 rest]]]]]]]];
    try reflexivity.
  cbn [someL map pw_block]. fold (someL rest). apply (pw_blocks_RN (length rest)). lia.
Qed.

Lemma someL_firstn k l : firstn k (someL l) = someL (firstn k l).
Proof. unfold someL. apply firstn_map. Qed.
Lemma someL_skipn k l : skipn k (someL l) = someL (skipn k l).
Proof. unfold someL. apply skipn_map. Qed.

Lemma pw_sum_RN fuel l : pw_sum RN fuel (someL l) = Some (pw_sum RR fuel l).
Proof.
  revert l; induction fuel as [|f IH]; intros l; cbn [pw_sum]; rewrite someL_length.
  - destruct (Nat.leb (length l) 128); [apply pw_block_RN | apply (sum_seq_RN 0 _)].
  - destruct (Nat.leb (length l) 128); [apply pw_block_RN|].
    rewrite someL_firstn, someL_skipn, !IH. reflexivity.
Qed.

Lemma np_sum_RN l : np_sum RN (someL l) = Some (np_sum RR l).
Proof. apply pw_sum_RN. Qed.

Lemma nlen_RN l : nlen RN (someL l) = Some (nlen RR l).
Proof. unfold nlen. now rewrite someL_length. Qed.

Lemma mean_RN l : mean RN (someL l) = Some (mean RR l).
Proof. unfold mean. now rewrite np_sum_RN, nlen_RN. Qed.

Lemma someL_map (f : R -> R) (g : option R -> option R) l :
  (forall x, g (Some x) = Some (f x)) -> map g (someL l) = someL (map f l).
Proof.
  intros H. unfold someL. rewrite !map_map. apply map_ext. intros x. apply H.
Qed.

Lemma var_RN l : var RN (someL l) = Some (var RR l).
Proof.
  unfold var. rewrite mean_RN, nlen_RN.
  rewrite (someL_map (fun x => nmul RR (nsub RR x (mean RR l)) (nsub RR x (mean RR l)))) by reflexivity.
  now rewrite np_sum_RN.
Qed.

Lemma std_RN l : std RN (someL l) = Some (std RR l).
Proof. unfold std. now rewrite var_RN. Qed.

Lemma dot_RN a b : dot RN (someL a) (someL b) = Some (dot RR a b).
Proof.
  unfold dot.
  assert (E : map (fun p : option R * option R => nmul RN (fst p) (snd p)) (combine (someL a) (someL b)) =
              someL (map (fun p : R * R => nmul RR (fst p) (snd p)) (combine a b))).
  { revert b; induction a as [|x a IH]; intros [|y b]; simpl; try reflexivity.
    f_equal. apply IH. }
  rewrite E. apply (sum_seq_RN 0 _).
Qed.

Lemma clip1_RN r : clip1 RN (Some r) = Some (clip1 RR r).
Proof.
  unfold clip1. cbn [nltb nopp n1 RN RR ocmp olift1].
  destruct (Rltb r (- (1))); [reflexivity|]. destruct (Rltb 1 r); reflexivity.
Qed.

Lemma pearson_RN x y : pearson RN (someL x) (someL y) = Some (pearson RR x y).
Proof.
  unfold pearson. rewrite !mean_RN, !someL_length.
  rewrite (someL_map (fun v => nsub RR v (mean RR x))) by reflexivity.
  rewrite (someL_map (fun v => nsub RR v (mean RR y))) by reflexivity.
  rewrite !dot_RN. cbn [nmul ndiv nsqrt nofZ n1 RN olift2 olift1].
  apply clip1_RN.
Qed.

(* ---- the closed forms ---- *)
Lemma bias_core_RN eps ty o s :
  bias_core RN (Some eps) lnN ty (someL o) (someL s) = lift (bias_core RR eps ln ty o s).
Proof.
  unfold bias_core. rewrite !mean_RN. cbn [nltb nabs nsub nadd ndiv RN RR ocmp olift1 olift2].
  destruct (Rltb (Rabs (mean RR o)) eps); [reflexivity|].
  destruct ty; try reflexivity.
  destruct (Rltb eps (mean RR s) && Rltb eps (mean RR o)); reflexivity.
Qed.

Lemma nse_core_RN o s : nse_core RN (someL o) (someL s) = lift (nse_core RR o s).
Proof.
  unfold nse_core. rewrite mean_RN.
  assert (E1 : map (fun p : option R * option R => sqdiff RN (snd p) (fst p)) (combine (someL o) (someL s)) =
               someL (map (fun p : R * R => sqdiff RR (snd p) (fst p)) (combine o s))).
  { revert s; induction o as [|x o IH]; intros [|y s]; simpl; try reflexivity. f_equal. apply IH. }
  rewrite E1, (someL_map (fun a => sqdiff RR (mean RR o) a)) by reflexivity.
  rewrite !np_sum_RN. reflexivity.
Qed.

Lemma kge_core_RN eps o s :
  kge_core RN (Some eps) (someL o) (someL s) = lift (kge_core RR eps o s).
Proof.
  unfold kge_core. rewrite !mean_RN, !std_RN, pearson_RN.
  cbn [nltb nabs nsub nadd nmul ndiv nsqrt n1 RN RR ocmp olift1 olift2].
  destruct (Rltb (Rabs (mean RR o)) eps); [reflexivity|].
  destruct (Rltb (Rabs (std RR o)) eps); [reflexivity|].
  destruct (Rltb eps (Rabs (std RR s))); reflexivity.
Qed.

Lemma corr_core_pearson_RN eps o s :
  corr_core RN (Some eps) CPearson (someL o) (someL s) = lift (corr_core RR eps CPearson o s).
Proof.
  unfold corr_core. rewrite std_RN, pearson_RN. cbn [nltb nabs RN RR ocmp olift1].
  destruct (Rltb (Rabs (std RR o)) eps); reflexivity.
Qed.

(* ---- the complete pairs of a series with missing values are real numbers ---- *)
Definition unsome (l : list (option R)) : list R :=
  map (fun a => match a with Some x => x | None => 0 end) l.

Lemma nonull_RN_reals o s o' s' :
  nonull RN o s = Some (o', s') -> o' = someL (unsome o') /\ s' = someL (unsome s').
Proof.
  intros H. destruct (nonull_spec RN _ _ _ _ H) as (Hc & Hl & _).
  assert (Hall : Forall (fun p => complete RN p = true) (combine o' s')).
  { rewrite Hc. apply Forall_forall. intros p Hp. apply filter_In in Hp. tauto. }
  clear H Hc. revert s' Hl Hall. induction o' as [|a o' IH]; intros [|b s'] Hl Hall; simpl in *;
    try discriminate; [split; reflexivity|].
  inversion Hall as [|? ? Hp Hall']; subst.
  destruct (IH s' ltac:(lia) Hall') as [E1 E2].
  unfold complete in Hp; simpl in Hp.
  destruct a as [x|]; [|discriminate]. destruct b as [y|]; [|discriminate].
  split; unfold someL, unsome in *; simpl; f_equal; assumption.
Qed.

(* ---- main statements: excludenull on series with missing values ---- *)
Lemma excl_RN_reduces core coreR o s o' s' :
  (forall x y, core (someL x) (someL y) = lift (coreR x y)) ->
  length o = length s -> nonull RN o s = Some (o', s') ->
  with_excl RN true core o s = lift (coreR (unsome o') (unsome s')).
Proof.
  intros Hcore Hl Hn. unfold with_excl. rewrite Hl, Nat.eqb_refl. cbn [negb]. rewrite Hn.
  destruct (nonull_RN_reals _ _ _ _ Hn) as [E1 E2]. rewrite E1, E2 at 1. apply Hcore.
Qed.

Lemma bias_missing fwd ty obs sim o' s' :
  length obs = length sim ->
  nonull RN (map fwd obs) (map fwd sim) = Some (o', s') ->
  bias RN (Some EPS) lnN fwd true ty obs sim = lift (bias_core RR EPS ln ty (unsome o') (unsome s')).
Proof.
  intros Hl Hn. unfold bias.
  apply (excl_RN_reduces _ (bias_core RR EPS ln ty)); [apply bias_core_RN | now rewrite !map_length | exact Hn].
Qed.

Lemma nse_missing fwd obs sim o' s' :
  length obs = length sim ->
  nonull RN (map fwd obs) (map fwd sim) = Some (o', s') ->
  nse RN fwd true obs sim = SVal (Some (nseR (unsome o') (unsome s'))).
Proof.
  intros Hl Hn. unfold nse.
  rewrite (excl_RN_reduces _ (nse_core RR) _ _ o' s'); [| apply nse_core_RN | now rewrite !map_length | exact Hn].
  now rewrite nse_core_R.
Qed.

Lemma kge_missing fwd obs sim o' s' :
  length obs = length sim ->
  nonull RN (map fwd obs) (map fwd sim) = Some (o', s') ->
  kge RN (Some EPS) fwd true obs sim = lift (kge_core RR EPS (unsome o') (unsome s')).
Proof.
  intros Hl Hn. unfold kge.
  apply (excl_RN_reduces _ (kge_core RR EPS)); [apply kge_core_RN | now rewrite !map_length | exact Hn].
Qed.

(* fully spelled out for the scores with guards *)
Lemma bias_missing_value fwd ty obs sim o' s' :
  length obs = length sim ->
  nonull RN (map fwd obs) (map fwd sim) = Some (o', s') ->
  bias_defined ty (unsome o') (unsome s') ->
  bias RN (Some EPS) lnN fwd true ty obs sim = SVal (Some (biasR ty (unsome o') (unsome s'))).
Proof.
  intros Hl Hn Hd. rewrite (bias_missing fwd ty obs sim o' s' Hl Hn). now rewrite bias_core_R.
Qed.

Lemma kge_missing_value fwd obs sim o' s' :
  length obs = length sim ->
  nonull RN (map fwd obs) (map fwd sim) = Some (o', s') ->
  kge_defined (unsome o') (unsome s') ->
  kge RN (Some EPS) fwd true obs sim = SVal (Some (kgeR (unsome o') (unsome s'))).
Proof.
  intros Hl Hn Hd. rewrite (kge_missing fwd obs sim o' s' Hl Hn).
  rewrite kge_core_R; [reflexivity| |exact Hd].
  destruct (nonull_spec RN _ _ _ _ Hn) as (_ & Hl' & _). unfold unsome. now rewrite !map_length.
Qed.

(* without excludenull a missing value makes the score missing (NaN): nse *)
Lemma sum_seq_RN_none l : sum_seq RN None l = None.
Proof. unfold sum_seq. induction l as [|x l IH]; simpl; [reflexivity|]. destruct x; apply IH. Qed.

(* non-vacuity: the transformed series of the example has a missing value in each member *)
Definition ex_obs_missing : list (option R) := [Some 1; None; Some 2; Some 7; Some 4].
Definition ex_sim_missing : list (option R) := [Some 2; Some 9; Some 2; None; Some 5].

Lemma ex_missing_nonull :
  nonull RN (map idT ex_obs_missing) (map idT ex_sim_missing) = Some (someL ex_obs, someL ex_sim).
Proof. reflexivity. Qed.

Lemma ex_missing_unsome : unsome (someL ex_obs) = ex_obs /\ unsome (someL ex_sim) = ex_sim.
Proof. split; reflexivity. Qed.
