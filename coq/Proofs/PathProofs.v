(* Flow-path lengths and river traces follow the downstream chain
   (Model/Catchment.v, property C06). *)
From Coq Require Import ZArith Bool List Reals Lra Lia.
From Hy Require Import Base.Num Gen.Consts Model.Grid Model.Catchment
     Proofs.GridGeomProofs Proofs.FlowProofs.
Import ListNotations.
Open Scope Z_scope.

Lemma last_cons_indep {A} (a : A) l d1 d2 : last (a :: l) d1 = last (a :: l) d2.
Proof.
  revert a; induction l as [|b l IH]; intros a; [reflexivity|].
  change (last (a :: b :: l) d1) with (last (b :: l) d1).
  change (last (a :: b :: l) d2) with (last (b :: l) d2). apply IH.
Qed.

Section Paths.
Variables nrows ncols : Z.
Variable fd : list Z.
Hypothesis Hncols : 0 < ncols.

Notation dn := (downstream nrows ncols fd).

(* a list of cells each of which is the (non-negative) downstream cell of the previous one *)
Inductive chain : list Z -> Prop :=
| chain_one a : chain [a]
| chain_cons a b t : dn a = Some b -> 0 <= b -> chain (b :: t) -> chain (a :: b :: t).

(* length of a path: 1 per orthogonal step, sqrt 2 per diagonal step *)
Fixpoint path_len (p : list Z) : R :=
  match p with
  | a :: ((b :: _) as t) => (steplen RR ncols b a + path_len t)%R
  | _ => 0%R
  end.

Theorem steplen_cases a b :
  steplen RR ncols a b =
  if (getnx ncols a =? getnx ncols b) || (getny ncols a =? getny ncols b) then 1%R else sqrt 2.
Proof.
  unfold steplen, squaredist.
  destruct ((getnx ncols a =? getnx ncols b) || (getny ncols a =? getny ncols b)); cbn.
  - apply sqrt_1.
  - reflexivity.
Qed.

Lemma squaredist_sym a b : squaredist ncols a b = squaredist ncols b a.
Proof. unfold squaredist. rewrite (Z.eqb_sym (getnx ncols a)), (Z.eqb_sym (getny ncols a)). reflexivity. Qed.

Lemma path_len_snoc x mids o :
  path_len (x :: mids ++ [o]) =
  (path_len (x :: mids) + steplen RR ncols o (last (x :: mids) x))%R.
Proof.
  revert x; induction mids as [|b m IH]; intros x.
  - cbn [app path_len last]. lra.
  - change ((b :: m) ++ [o]) with (b :: m ++ [o]).
    change (path_len (x :: b :: m ++ [o])) with (steplen RR ncols b x + path_len (b :: m ++ [o]))%R.
    rewrite IH.
    change (path_len (x :: b :: m)) with (steplen RR ncols b x + path_len (b :: m))%R.
    replace (last (x :: b :: m) x) with (last (b :: m) b).
    + lra.
    + clear. revert b; induction m as [|c m IHm]; intros b; [reflexivity|].
      change (last (b :: c :: m) b) with (last (c :: m) b).
      change (last (x :: b :: c :: m) x) with (last (c :: m) x).
      clear IHm. revert c; induction m as [|e m IHm]; intros c; [reflexivity|].
      change (last (c :: e :: m) b) with (last (e :: m) b).
      change (last (c :: e :: m) x) with (last (e :: m) x). apply IHm.
Qed.

Section Walk.
Variables outlet nval : Z.

Lemma walk_path mids x len ipath fuel down0 :
  chain (x :: mids ++ [outlet]) ->
  Forall (fun c => c <> outlet) mids ->
  (List.length mids < fuel)%nat ->
  ipath + Z.of_nat (List.length mids) < nval ->
  walk RR fuel nrows ncols fd outlet nval x down0 len ipath =
  (last (x :: mids) x, outlet, (len + path_len (x :: mids))%R,
   ipath + Z.of_nat (List.length mids)).
Proof.
  revert x len ipath fuel down0; induction mids as [|b m IH]; intros x len ipath fuel down0 Hc Hne Hf Hi.
  - destruct fuel as [|fuel]; [cbn in Hf; lia|]. cbn [walk].
    cbn [List.length Z.of_nat] in Hi.
    destruct (ipath <? nval) eqn:E; [|apply Z.ltb_ge in E; lia].
    inversion Hc as [|a b' t Hd Hpos _]; subst.
    rewrite Hd. destruct (outlet <? 0) eqn:E2; [apply Z.ltb_lt in E2; lia|].
    rewrite Z.eqb_refl. cbn [last path_len List.length Z.of_nat].
    f_equal; [f_equal; lra | lia].
  - destruct fuel as [|fuel]; [cbn in Hf; lia|]. cbn [walk].
    cbn [List.length] in Hi, Hf.
    destruct (ipath <? nval) eqn:E; [|apply Z.ltb_ge in E; lia].
    change ((b :: m) ++ [outlet]) with (b :: m ++ [outlet]) in Hc.
    inversion Hc as [|a b' t Hd Hpos Hc']; subst.
    rewrite Hd. destruct (b <? 0) eqn:E2; [apply Z.ltb_lt in E2; lia|].
    inversion Hne as [|b0 m0 Hb Hne']; subst.
    destruct (b =? outlet) eqn:E3; [apply Z.eqb_eq in E3; contradiction|].
    rewrite (IH b) by (try assumption; lia).
    change (path_len (x :: b :: m)) with (steplen RR ncols b x + path_len (b :: m))%R.
    change (nadd RR len (steplen RR ncols b x)) with (len + steplen RR ncols b x)%R.
    replace (last (x :: b :: m) x) with (last (b :: m) b).
    + f_equal; [f_equal; lra | cbn [List.length]; lia].
    + clear. revert b; induction m as [|c m IHm]; intros b; [reflexivity|].
      change (last (b :: c :: m) b) with (last (c :: m) b).
      change (last (x :: b :: c :: m) x) with (last (c :: m) x).
      clear IHm. revert c; induction m as [|e m IHm]; intros c; [reflexivity|].
      change (last (c :: e :: m) b) with (last (e :: m) b).
      change (last (c :: e :: m) x) with (last (e :: m) x). apply IHm.
Qed.

(* the flow-path length of a cell is the length of its downstream chain to the
   outlet: 1 per orthogonal step, sqrt 2 per diagonal step *)
Theorem flowpath_is_chain_length x mids :
  x <> outlet -> 0 <= outlet ->
  chain (x :: mids ++ [outlet]) ->
  Forall (fun c => c <> outlet) mids ->
  Z.of_nat (List.length mids) + 1 < nval ->
  flowpath RR nrows ncols fd outlet nval x = (x, outlet, path_len (x :: mids ++ [outlet])).
Proof.
  intros Hx Ho Hc Hne Hn. unfold flowpath.
  rewrite (walk_path mids x) by (try assumption; lia).
  rewrite (Z.add_0_l (Z.of_nat (List.length mids))).
  assert (E1 : (Z.of_nat (List.length mids) + 1 <? nval) = true) by (apply Z.ltb_lt; lia).
  assert (E2 : (0 <=? outlet) = true) by (apply Z.leb_le; lia).
  rewrite E1, E2. cbn [andb].
  destruct (outlet <? 0) eqn:E3; [apply Z.ltb_lt in E3; lia|].
  destruct (x =? outlet) eqn:E4; [apply Z.eqb_eq in E4; contradiction|]. cbn [orb].
  rewrite path_len_snoc. f_equal. cbn [nadd RR n0]. lra.
Qed.

(* the outlet's own length is zero *)
Theorem flowpath_outlet_zero :
  snd (flowpath RR nrows ncols fd outlet nval outlet) = 0%R.
Proof.
  unfold flowpath.
  destruct (walk RR (Z.to_nat nval) nrows ncols fd outlet nval outlet (-1) (n0 RR) 0)
    as [[[up down] len] ipath].
  rewrite Z.eqb_refl, orb_true_r. reflexivity.
Qed.

End Walk.

(* ---------------- river ---------------- *)
Definition rcell (r : Z * R * R * R * R * R) : Z := let '(c, _, _, _, _, _) := r in c.
Definition rdist (r : Z * R * R * R * R * R) : R := let '(_, d, _, _, _, _) := r in d.
Definition rdx (r : Z * R * R * R * R * R) : R := let '(_, _, dx, _, _, _) := r in dx.
Definition rdy (r : Z * R * R * R * R * R) : R := let '(_, _, _, dy, _, _) := r in dy.

Lemma river_loop_head fuel xll yll csz cur dist dx dy :
  (1 <= fuel)%nat ->
  exists row rest, river_loop RR fuel nrows ncols xll yll csz fd cur dist dx dy = row :: rest /\
                   rcell row = cur /\ rdist row = (dist + sqrt (dx * dx + dy * dy))%R /\
                   rdx row = dx /\ rdy row = dy.
Proof.
  intros Hf. destruct fuel as [|fuel]; [lia|]. cbn [river_loop].
  destruct (dn cur) as [d|]; [destruct (d <? 0)|]; eexists; eexists; split; try reflexivity; cbn; auto.
Qed.

(* the cells of a river trace are the downstream chain of the start cell, at
   most nval of them, and the trace stops early only where the chain leaves the grid *)
Theorem river_cells_chain fuel xll yll csz cur dist dx dy :
  (1 <= fuel)%nat ->
  let rows := river_loop RR fuel nrows ncols xll yll csz fd cur dist dx dy in
  chain (map rcell rows) /\ (List.length rows <= fuel)%nat /\
  ((List.length rows < fuel)%nat ->
     forall d, dn (last (map rcell rows) cur) = Some d -> d < 0).
Proof.
  revert cur dist dx dy; induction fuel as [|fuel IH]; intros cur dist dx dy Hf; [lia|].
  cbn [river_loop].
  destruct (dn cur) as [d|] eqn:Ed.
  - destruct (d <? 0) eqn:Eneg.
    + cbn. split; [constructor|]. split; [lia|]. intros _ d' Hd'. apply Z.ltb_lt in Eneg. congruence.
    + apply Z.ltb_ge in Eneg.
      destruct fuel as [|fuel'].
      * cbn. split; [constructor|]. split; [lia|]. intros H; lia.
      * specialize (IH d (nadd RR dist (nsqrt RR (nadd RR (nmul RR dx dx) (nmul RR dy dy))))
                      (nofZ RR (getnx ncols cur - getnx ncols d))
                      (nofZ RR (getny ncols cur - getny ncols d)) ltac:(lia)).
        cbv zeta in IH. destruct IH as (Hc & Hl & Hstop).
        destruct (river_loop_head (S fuel') xll yll csz d
                    (nadd RR dist (nsqrt RR (nadd RR (nmul RR dx dx) (nmul RR dy dy))))
                    (nofZ RR (getnx ncols cur - getnx ncols d))
                    (nofZ RR (getny ncols cur - getny ncols d)) ltac:(lia))
          as (row & rest & Erows & Hcell & _).
        rewrite Erows in *. cbn [map List.length] in *. rewrite Hcell in *.
        split; [|split].
        -- change (rcell (cur, _, dx, dy, _, _)) with cur. constructor; assumption.
        -- lia.
        -- intros Hlt d' Hd'. change (rcell (cur, _, dx, dy, _, _)) with cur in Hd'.
           change (last (cur :: d :: map rcell rest) cur) with (last (d :: map rcell rest) cur) in Hd'.
           rewrite (last_cons_indep d (map rcell rest) cur d) in Hd'.
           apply (Hstop ltac:(lia) d' Hd').
  - cbn. split; [constructor|]. split; [lia|]. intros _ d' Hd'. congruence.
Qed.

(* distances advance by sqrt(dx^2+dy^2), dx/dy being the column/row differences of
   consecutive cells *)
Fixpoint river_dists_ok (rows : list (Z * R * R * R * R * R)) : Prop :=
  match rows with
  | r1 :: ((r2 :: _) as t) =>
      rdx r2 = IZR (getnx ncols (rcell r1) - getnx ncols (rcell r2)) /\
      rdy r2 = IZR (getny ncols (rcell r1) - getny ncols (rcell r2)) /\
      rdist r2 = (rdist r1 + sqrt (rdx r2 * rdx r2 + rdy r2 * rdy r2))%R /\
      river_dists_ok t
  | _ => True
  end.

Lemma river_dists_ok_cons r1 r2 t :
  rdx r2 = IZR (getnx ncols (rcell r1) - getnx ncols (rcell r2)) ->
  rdy r2 = IZR (getny ncols (rcell r1) - getny ncols (rcell r2)) ->
  rdist r2 = (rdist r1 + sqrt (rdx r2 * rdx r2 + rdy r2 * rdy r2))%R ->
  river_dists_ok (r2 :: t) -> river_dists_ok (r1 :: r2 :: t).
Proof. intros. cbn [river_dists_ok]. auto. Qed.

Theorem river_distances fuel xll yll csz cur dist dx dy :
  river_dists_ok (river_loop RR fuel nrows ncols xll yll csz fd cur dist dx dy).
Proof.
  revert cur dist dx dy; induction fuel as [|fuel IH]; intros cur dist dx dy; [exact I|].
  cbn [river_loop].
  destruct (dn cur) as [d|]; [|exact I].
  destruct (d <? 0); [exact I|].
  specialize (IH d (nadd RR dist (nsqrt RR (nadd RR (nmul RR dx dx) (nmul RR dy dy))))
                  (nofZ RR (getnx ncols cur - getnx ncols d))
                  (nofZ RR (getny ncols cur - getny ncols d))).
  destruct fuel as [|fuel']; [exact I|].
  destruct (river_loop_head (S fuel') xll yll csz d
              (nadd RR dist (nsqrt RR (nadd RR (nmul RR dx dx) (nmul RR dy dy))))
              (nofZ RR (getnx ncols cur - getnx ncols d))
              (nofZ RR (getny ncols cur - getny ncols d)) ltac:(lia))
    as (row & rest & Erows & Hcell & Hdist & Hdx & Hdy).
  rewrite Erows in *. apply river_dists_ok_cons; [| | |exact IH].
  - change (rcell (cur, _, dx, dy, _, _)) with cur. rewrite Hcell, Hdx. reflexivity.
  - change (rcell (cur, _, dx, dy, _, _)) with cur. rewrite Hcell, Hdy. reflexivity.
  - rewrite Hdist, Hdx, Hdy. reflexivity.
Qed.

Theorem river_starts_at_zero xll yll csz start nval rows :
  1 <= nval ->
  river RR nrows ncols xll yll csz fd start nval = Some rows ->
  exists row rest, rows = row :: rest /\ rcell row = start /\ rdist row = 0%R.
Proof.
  intros Hn. unfold river. destruct (valid_cell nrows ncols start); [|discriminate].
  intros H. injection H as <-.
  destruct (river_loop_head (Z.to_nat nval) xll yll csz start (n0 RR) (n0 RR) (n0 RR) ltac:(lia))
    as (row & rest & E & Hc & Hd & _).
  exists row, rest. split; [assumption|]. split; [assumption|].
  rewrite Hd. cbn [n0 RR]. replace (0 * 0 + 0 * 0)%R with 0%R by lra. rewrite sqrt_0. lra.
Qed.

End Paths.

(* non-vacuity: 3x2 grid of the recorded defect, outlet 4; cell 1 -> 2 -> 4 is
   one diagonal and one orthogonal step *)
Example flowpath_example :
  chain 3 2 [4; 8; 4; 4; 4; 0] (1 :: [2] ++ [4]).
Proof.
  constructor; [vm_compute; reflexivity | lia |].
  constructor; [vm_compute; reflexivity | lia | constructor].
Qed.
