(* C03, part 1: sums over lists, the sort of Model/Crps.v over the reals. *)
From Coq Require Import ZArith Bool List Reals Lra Lia Permutation Sorted.
From Hy Require Import Base.Num Gen.ConstsC03 Model.Crps.
Import ListNotations.
Open Scope R_scope.

(* ---------- comparisons of RR as propositions ---------- *)
Ltac rcmp :=
  repeat match goal with
  | H : Rleb _ _ = true |- _ => apply Rleb_true in H
  | H : Rleb _ _ = false |- _ => apply Rleb_false in H
  | H : Rltb _ _ = true |- _ => apply Rltb_true in H
  | H : Rltb _ _ = false |- _ => apply Rltb_false in H
  | H : Reqb _ _ = true |- _ => apply Reqb_true in H
  | H : Reqb _ _ = false |- _ => apply Reqb_false in H
  end.

(* destruct every comparison appearing in the goal *)
Ltac rcases :=
  repeat match goal with
  | |- context [Rleb ?a ?b] => let E := fresh "E" in destruct (Rleb a b) eqn:E
  | |- context [Rltb ?a ?b] => let E := fresh "E" in destruct (Rltb a b) eqn:E
  | |- context [Reqb ?a ?b] => let E := fresh "E" in destruct (Reqb a b) eqn:E
  end; rcmp.

(* ---------- sums ---------- *)
Fixpoint Rsum (l : list R) : R := match l with [] => 0 | x :: r => x + Rsum r end.

Lemma Rsum_app l1 l2 : Rsum (l1 ++ l2) = Rsum l1 + Rsum l2.
Proof. induction l1 as [|x l1 IH]; simpl; [lra | rewrite IH; lra]. Qed.

Lemma Rsum_perm l l' : Permutation l l' -> Rsum l = Rsum l'.
Proof. induction 1; simpl; lra. Qed.

Lemma Rsum_map_perm {A} (f : A -> R) l l' :
  Permutation l l' -> Rsum (map f l) = Rsum (map f l').
Proof. intros H; apply Rsum_perm, Permutation_map, H. Qed.

Lemma Rsum_map_ext {A} (f g : A -> R) l :
  (forall x, In x l -> f x = g x) -> Rsum (map f l) = Rsum (map g l).
Proof.
  induction l as [|a l IH]; intros H; simpl; [reflexivity|].
  rewrite (H a (or_introl eq_refl)), IH; auto. intros; apply H; right; auto.
Qed.

Lemma Rsum_map_add {A} (f g : A -> R) l :
  Rsum (map (fun x => f x + g x) l) = Rsum (map f l) + Rsum (map g l).
Proof. induction l as [|a l IH]; simpl; [lra | rewrite IH; lra]. Qed.

Lemma Rsum_map_scal {A} (c : R) (f : A -> R) l :
  Rsum (map (fun x => c * f x) l) = c * Rsum (map f l).
Proof. induction l as [|a l IH]; simpl; [lra | rewrite IH; lra]. Qed.

Lemma Rsum_map_const {A} (c : R) (l : list A) :
  Rsum (map (fun _ => c) l) = INR (length l) * c.
Proof.
  induction l as [|a l IH]; [simpl; lra|].
  change (length (a :: l)) with (S (length l)). rewrite S_INR. simpl. rewrite IH. lra.
Qed.

Lemma Rsum_map_nonneg {A} (f : A -> R) l :
  (forall x, In x l -> 0 <= f x) -> 0 <= Rsum (map f l).
Proof.
  induction l as [|a l IH]; intros H; simpl; [lra|].
  assert (0 <= f a) by (apply H; left; auto).
  assert (0 <= Rsum (map f l)) by (apply IH; intros; apply H; right; auto). lra.
Qed.

Lemma fold_left_add {A} (f : A -> R) l s :
  fold_left (fun s x => s + f x) l s = s + Rsum (map f l).
Proof. revert s; induction l as [|a l IH]; intros s; simpl; [lra | rewrite IH; lra]. Qed.

(* ---------- insertion sort over the reals ---------- *)
Notation sortR := (sort RR).
Notation insertR := (insert RR).

Lemma insert_perm x l : Permutation (insertR x l) (x :: l).
Proof.
  induction l as [|y l IH]; simpl; [apply Permutation_refl|].
  destruct (Rleb x y); [apply Permutation_refl|].
  eapply perm_trans; [apply perm_skip, IH | apply perm_swap].
Qed.

Lemma sort_perm l : Permutation (sortR l) l.
Proof.
  induction l as [|x l IH]; simpl; [constructor|].
  eapply perm_trans; [apply insert_perm | apply perm_skip, IH].
Qed.

Lemma sort_length l : length (sortR l) = length l.
Proof. apply Permutation_length, sort_perm. Qed.

Lemma insert_sorted x l : StronglySorted Rle l -> StronglySorted Rle (insertR x l).
Proof.
  induction 1 as [|y l Hs IH Hy]; simpl.
  - constructor; constructor.
  - destruct (Rleb x y) eqn:E; rcmp.
    + constructor; [constructor; auto|]. constructor; [auto|].
      eapply Forall_impl; [|exact Hy]. intros; lra.
    + constructor; [auto|].
      eapply Permutation_Forall; [apply Permutation_sym, insert_perm|].
      constructor; [lra | auto].
Qed.

Lemma sort_sorted l : StronglySorted Rle (sortR l).
Proof. induction l; simpl; [constructor | apply insert_sorted; auto]. Qed.

Lemma sorted_perm_eq l l' :
  StronglySorted Rle l -> StronglySorted Rle l' -> Permutation l l' -> l = l'.
Proof.
  intros Hl; revert l'; induction Hl as [|a l Hs IH Ha]; intros l' Hl' P.
  - apply Permutation_nil in P; auto.
  - destruct Hl' as [|b l' Hs' Hb].
    + apply Permutation_sym, Permutation_nil in P; discriminate.
    + assert (a = b).
      { assert (In a (b :: l')) by (eapply Permutation_in; [exact P | left; auto]).
        assert (In b (a :: l)) by (eapply Permutation_in; [apply Permutation_sym, P | left; auto]).
        rewrite Forall_forall in Ha, Hb.
        destruct H as [->|H]; [auto|]. destruct H0 as [->|H0]; [auto|].
        apply Rle_antisym; auto. }
      subst b. f_equal. apply IH; auto. eapply Permutation_cons_inv; exact P.
Qed.

Lemma sort_perm_eq l l' : Permutation l l' -> sortR l = sortR l'.
Proof.
  intros P; apply sorted_perm_eq; try apply sort_sorted.
  eapply perm_trans; [apply sort_perm|]. eapply perm_trans; [exact P|].
  apply Permutation_sym, sort_perm.
Qed.

Lemma sorted_sort_id l : StronglySorted Rle l -> sortR l = l.
Proof. intros H; apply sorted_perm_eq; auto using sort_sorted, sort_perm. Qed.

(* the kernel's sortedness test never fires after the sort *)
Lemma unsorted_sorted l : StronglySorted Rle l -> unsorted RR l = false.
Proof.
  induction 1 as [|a l Hs IH Ha]; [reflexivity|].
  destruct l as [|b l]; [reflexivity|].
  change (unsorted RR (a :: b :: l)) with (Rltb b a || unsorted RR (b :: l))%bool.
  rewrite IH. inversion Ha; subst.
  destruct (Rltb b a) eqn:E; rcmp; [lra | reflexivity].
Qed.

(* the sort commutes with increasing maps *)
Lemma insert_map (f : R -> R) x l :
  (forall a b, Rleb (f a) (f b) = Rleb a b) ->
  insertR (f x) (map f l) = map f (insertR x l).
Proof.
  intros Hf; induction l as [|y l IH]; simpl; [reflexivity|].
  rewrite Hf. destruct (Rleb x y); simpl; [reflexivity | rewrite IH; reflexivity].
Qed.

Lemma sort_map (f : R -> R) l :
  (forall a b, Rleb (f a) (f b) = Rleb a b) ->
  sortR (map f l) = map f (sortR l).
Proof.
  intros Hf; induction l as [|x l IH]; simpl; [reflexivity|].
  rewrite IH. apply insert_map, Hf.
Qed.

Lemma Rleb_shift c a b : Rleb (a + c) (b + c) = Rleb a b.
Proof. rcases; try reflexivity; lra. Qed.

Lemma Rleb_scale c a b : 0 < c -> Rleb (c * a) (c * b) = Rleb a b.
Proof. intros Hc; rcases; try reflexivity; nra. Qed.

Lemma Rltb_shift c a b : Rltb (a + c) (b + c) = Rltb a b.
Proof. rcases; try reflexivity; lra. Qed.

Lemma Rltb_scale c a b : 0 < c -> Rltb (c * a) (c * b) = Rltb a b.
Proof. intros Hc; rcases; try reflexivity; nra. Qed.

(* head and last of a sorted list bound every element *)
Lemma sorted_hd_le a l x : StronglySorted Rle (a :: l) -> In x (a :: l) -> a <= x.
Proof.
  intros H [->|Hi]; [lra|]. inversion H; subst. rewrite Forall_forall in H3; auto.
Qed.

Lemma sorted_tail a l : StronglySorted Rle (a :: l) -> StronglySorted Rle l.
Proof. inversion 1; auto. Qed.

Lemma sorted_le_last l d x : StronglySorted Rle l -> In x l -> x <= last l d.
Proof.
  intros H; revert x; induction H as [|a l Hs IH Ha]; intros x Hi; [destruct Hi|].
  destruct l as [|b l].
  - destruct Hi as [->|[]]. simpl; lra.
  - change (last (a :: b :: l) d) with (last (b :: l) d).
    destruct Hi as [->|Hi]; [|auto].
    rewrite Forall_forall in Ha. apply Rle_trans with b; [apply Ha; left; auto|].
    apply IH; left; auto.
Qed.
