(* Theorems about the geometry part of Model/Grid.v (property C07). *)
From Coq Require Import ZArith Bool List Reals Lra Lia Psatz.
From Hy Require Import Base.Num Gen.Consts Model.Grid.
Import ListNotations.
Open Scope Z_scope.

(* ---------------- numbering ---------------- *)
Lemma getnx_rowcol ncols row col :
  0 <= col < ncols -> 0 <= row -> getnx ncols (row * ncols + col) = col.
Proof.
  intros Hc Hr. unfold getnx. rewrite Z.rem_mod_nonneg by nia.
  rewrite Z.add_comm, Z.mod_add by lia. apply Z.mod_small. lia.
Qed.

Lemma getny_rowcol ncols row col :
  0 <= col < ncols -> 0 <= row -> getny ncols (row * ncols + col) = row.
Proof.
  intros Hc Hr. unfold getny. fold (getnx ncols (row * ncols + col)).
  rewrite getnx_rowcol by assumption.
  replace (row * ncols + col - col) with (row * ncols) by lia.
  rewrite Z.quot_div_nonneg by nia. apply Z.div_mul. lia.
Qed.

Lemma cell_decompose nrows ncols idx :
  0 < ncols -> 0 <= idx < nrows * ncols ->
  exists row col, idx = row * ncols + col /\ 0 <= col < ncols /\ 0 <= row < nrows.
Proof.
  intros Hc Hi. exists (idx / ncols), (idx mod ncols).
  pose proof (Z.div_mod idx ncols ltac:(lia)).
  pose proof (Z.mod_pos_bound idx ncols Hc).
  assert (0 <= idx / ncols) by (apply Z.div_pos; lia).
  assert (idx / ncols < nrows) by (apply Z.div_lt_upper_bound; nia).
  repeat split; try lia.
Qed.

Lemma valid_cell_true nrows ncols idx :
  valid_cell nrows ncols idx = true <-> 0 <= idx < nrows * ncols.
Proof.
  unfold valid_cell. rewrite negb_true_iff, orb_false_iff, Z.ltb_ge, Z.leb_gt. lia.
Qed.

Lemma valid_cell_rowcol nrows ncols row col :
  0 <= col < ncols -> 0 <= row < nrows -> valid_cell nrows ncols (row * ncols + col) = true.
Proof. intros. apply valid_cell_true. nia. Qed.

(* cell2rowcol is the inverse of row*ncols+col; invalid cell numbers give (-1,-1) *)
Theorem cell2rowcol_rowcol nrows ncols row col :
  0 <= col < ncols -> 0 <= row < nrows ->
  cell2rowcol nrows ncols (row * ncols + col) = (row, col).
Proof.
  intros Hc Hr. unfold cell2rowcol. rewrite valid_cell_rowcol by assumption.
  rewrite getnx_rowcol, getny_rowcol by lia. reflexivity.
Qed.

Theorem cell2rowcol_valid nrows ncols idx :
  0 < ncols -> 0 <= idx < nrows * ncols ->
  let (row, col) := cell2rowcol nrows ncols idx in
  idx = row * ncols + col /\ 0 <= col < ncols /\ 0 <= row < nrows.
Proof.
  intros Hc Hi. destruct (cell_decompose nrows ncols idx Hc Hi) as (row & col & E & Hcol & Hrow).
  subst idx. rewrite cell2rowcol_rowcol by assumption. auto.
Qed.

Theorem cell2rowcol_invalid nrows ncols idx :
  idx < 0 \/ nrows * ncols <= idx -> cell2rowcol nrows ncols idx = (-1, -1).
Proof.
  intros H. unfold cell2rowcol.
  destruct (valid_cell nrows ncols idx) eqn:E; [|reflexivity].
  apply valid_cell_true in E. lia.
Qed.

(* ---------------- neighbours ---------------- *)
Lemma neighbour_at_spec nrows ncols nx0 ny0 ix iy d :
  neighbour_at nrows ncols nx0 ny0 (ix, iy) = d -> d <> -1 ->
  0 <= nx0 -> 0 <= ny0 -> 0 < ncols ->
  ~ (ix = 0 /\ iy = 0) /\ 0 <= nx0 + ix < ncols /\ 0 <= ny0 + iy < nrows /\
  d = (ny0 + iy) * ncols + (nx0 + ix).
Proof.
  unfold neighbour_at. intros H Hd Hx Hy Hc.
  destruct ((ix =? 0) && (iy =? 0)) eqn:E0; [congruence|].
  destruct ((nx0 + ix <? 0) || (ncols - 1 <? nx0 + ix) || (ny0 + iy <? 0) ||
            (nrows - 1 <? ny0 + iy)) eqn:E1; [congruence|].
  rewrite !orb_false_iff, !Z.ltb_ge in E1.
  rewrite andb_false_iff, !Z.eqb_neq in E0. repeat split; try lia.
Qed.

Lemma neighbour_at_on_grid nrows ncols nx0 ny0 ix iy :
  ~ (ix = 0 /\ iy = 0) -> 0 <= nx0 + ix < ncols -> 0 <= ny0 + iy < nrows ->
  neighbour_at nrows ncols nx0 ny0 (ix, iy) = (ny0 + iy) * ncols + (nx0 + ix).
Proof.
  intros H0 Hx Hy. unfold neighbour_at.
  destruct ((ix =? 0) && (iy =? 0)) eqn:E0.
  - rewrite andb_true_iff, !Z.eqb_eq in E0. tauto.
  - destruct ((nx0 + ix <? 0) || (ncols - 1 <? nx0 + ix) || (ny0 + iy <? 0) ||
              (nrows - 1 <? ny0 + iy)) eqn:E1; [|reflexivity].
    rewrite !orb_true_iff, !Z.ltb_lt in E1. lia.
Qed.

Lemma offsets_mirror k :
  0 <= k <= 8 ->
  zn offsets (8 - k) (0, 0) = (- fst (zn offsets k (0, 0)), - snd (zn offsets k (0, 0))).
Proof.
  intros H.
  assert (k = 0 \/ k = 1 \/ k = 2 \/ k = 3 \/ k = 4 \/ k = 5 \/ k = 6 \/ k = 7 \/ k = 8) by lia.
  repeat (destruct H0 as [-> | H0]; [reflexivity|]). subst; reflexivity.
Qed.

Lemma zn_map {A B} (f : A -> B) l k da db :
  0 <= k < Z.of_nat (List.length l) -> zn (map f l) k db = f (zn l k da).
Proof.
  intros H. unfold zn. rewrite (nth_indep _ db (f da)) by (rewrite map_length; lia).
  apply map_nth.
Qed.

Lemma zn_neighbours nrows ncols idx k :
  0 <= k <= 8 ->
  zn (neighbours_raw nrows ncols idx) k (-1) =
  neighbour_at nrows ncols (getnx ncols idx) (getny ncols idx) (zn offsets k (0, 0)).
Proof.
  intros H. unfold neighbours_raw. apply zn_map. simpl. lia.
Qed.

(* the neighbour relation is symmetric and positions mirror (k <-> 8-k) *)
Theorem neighbours_symmetric nrows ncols c k d :
  0 < ncols -> 0 <= c < nrows * ncols -> 0 <= k <= 8 ->
  zn (neighbours_raw nrows ncols c) k (-1) = d -> d <> -1 ->
  0 <= d < nrows * ncols /\ d <> c /\ zn (neighbours_raw nrows ncols d) (8 - k) (-1) = c.
Proof.
  intros Hc Hv Hk Hd Hne.
  destruct (cell_decompose nrows ncols c Hc Hv) as (row & col & -> & Hcol & Hrow).
  rewrite zn_neighbours in Hd by assumption.
  rewrite getnx_rowcol, getny_rowcol in Hd by lia.
  destruct (zn offsets k (0, 0)) as [ix iy] eqn:Eo.
  apply neighbour_at_spec in Hd; try lia.
  destruct Hd as (Hnz & Hx & Hy & ->).
  assert (Hoff : -1 <= ix <= 1 /\ -1 <= iy <= 1).
  { assert (k = 0 \/ k = 1 \/ k = 2 \/ k = 3 \/ k = 4 \/ k = 5 \/ k = 6 \/ k = 7 \/ k = 8) by lia.
    repeat (destruct H as [-> | H]; [cbv in Eo; injection Eo as <- <-; lia|]).
    subst; cbv in Eo; injection Eo as <- <-; lia. }
  split; [nia|]. split.
  { assert (Hiy : iy = -1 \/ iy = 0 \/ iy = 1) by lia.
    destruct Hiy as [E|[E|E]]; subst iy; lia. }
  rewrite zn_neighbours by lia. rewrite offsets_mirror, Eo by assumption. cbn [fst snd].
  rewrite getnx_rowcol, getny_rowcol by lia.
  rewrite neighbour_at_on_grid by lia. ring.
Qed.

Theorem neighbours_centre_is_minus_one nrows ncols c :
  zn (neighbours_raw nrows ncols c) 4 (-1) = -1.
Proof. reflexivity. Qed.

Theorem neighbours_invalid nrows ncols idx :
  idx < 0 \/ nrows * ncols <= idx -> neighbours nrows ncols idx = None.
Proof.
  intros H. unfold neighbours. destruct (valid_cell nrows ncols idx) eqn:E; [|reflexivity].
  apply valid_cell_true in E. lia.
Qed.

(* off-grid neighbours are -1, on-grid ones are the adjacent cell *)
Theorem neighbours_values nrows ncols row col k :
  0 <= col < ncols -> 0 <= row < nrows -> 0 <= k <= 8 -> k <> 4 ->
  let (ix, iy) := zn offsets k (0, 0) in
  zn (neighbours_raw nrows ncols (row * ncols + col)) k (-1) =
  if (0 <=? col + ix) && (col + ix <? ncols) && (0 <=? row + iy) && (row + iy <? nrows)
  then (row + iy) * ncols + (col + ix) else -1.
Proof.
  intros Hc Hr Hk H4. rewrite zn_neighbours by assumption.
  rewrite getnx_rowcol, getny_rowcol by lia.
  destruct (zn offsets k (0, 0)) as [ix iy] eqn:Eo.
  assert (Hnz : ~ (ix = 0 /\ iy = 0)).
  { assert (k = 0 \/ k = 1 \/ k = 2 \/ k = 3 \/ k = 5 \/ k = 6 \/ k = 7 \/ k = 8) by lia.
    repeat (destruct H as [-> | H]; [cbv in Eo; injection Eo as <- <-; lia|]).
    subst; cbv in Eo; injection Eo as <- <-; lia. }
  destruct ((0 <=? col + ix) && (col + ix <? ncols) && (0 <=? row + iy) && (row + iy <? nrows)) eqn:E.
  - rewrite !andb_true_iff, !Z.leb_le, !Z.ltb_lt in E.
    apply neighbour_at_on_grid; lia.
  - unfold neighbour_at.
    destruct ((ix =? 0) && (iy =? 0)); [reflexivity|].
    destruct ((col + ix <? 0) || (ncols - 1 <? col + ix) || (row + iy <? 0) ||
              (nrows - 1 <? row + iy)) eqn:E1; [reflexivity|].
    rewrite !orb_false_iff, !Z.ltb_ge in E1.
    rewrite !andb_false_iff, !Z.leb_gt, !Z.ltb_ge in E. lia.
Qed.

(* ---------------- coordinates (real numbers) ---------------- *)
Open Scope R_scope.

Lemma nhalf_RR : nhalf RR = / 2.
Proof. unfold nhalf; cbn. field. Qed.

(* cell2coord returns the centre of the cell numbered row by row from the top-left *)
Theorem cell2coord_centre nrows ncols xll yll csz row col :
  (0 <= col < ncols)%Z -> (0 <= row < nrows)%Z ->
  cell2coord RR nrows ncols xll yll csz (row * ncols + col) =
  (xll + csz * (IZR col + / 2), yll + csz * (IZR (nrows - 1 - row) + / 2)).
Proof.
  intros Hc Hr. unfold cell2coord. rewrite valid_cell_rowcol by assumption.
  unfold getcoord. rewrite getnx_rowcol, getny_rowcol by lia. rewrite nhalf_RR. reflexivity.
Qed.

Lemma floor_unique (x : R) (k : Z) : IZR k <= x < IZR k + 1 -> Int_part x = k.
Proof.
  intros [H1 H2]. unfold Int_part.
  assert (E : (k + 1)%Z = up x) by (apply tech_up; rewrite plus_IZR; lra).
  rewrite <- E. lia.
Qed.

Lemma floor_neg (x : R) : x < 0 -> (Int_part x < 0)%Z.
Proof.
  intros H. destruct (base_Int_part x) as [H1 _]. apply lt_IZR. lra.
Qed.

Lemma floor_ge (x : R) (k : Z) : IZR k <= x -> (k <= Int_part x)%Z.
Proof.
  intros H. destruct (base_Int_part x) as [_ H2].
  assert (IZR k - 1 < IZR (Int_part x)) by lra.
  assert (IZR (k - 1) < IZR (Int_part x)) by (rewrite minus_IZR; lra).
  apply lt_IZR in H1. lia.
Qed.

Lemma quotient_bounds (x xll csz : R) (k : Z) :
  0 < csz -> xll + csz * IZR k <= x < xll + csz * (IZR k + 1) ->
  IZR k <= (x - xll) / csz < IZR k + 1.
Proof.
  intros Hc [H1 H2]. set (q := (x - xll) / csz).
  assert (E : x - xll = q * csz) by (unfold q; field; lra).
  split; nra.
Qed.

(* every point of the (closed-open) footprint of a cell maps to that cell *)
Theorem coord2cell_footprint nrows ncols xll yll csz row col x y :
  0 < csz -> (0 <= col < ncols)%Z -> (0 <= row < nrows)%Z ->
  xll + csz * IZR col <= x < xll + csz * (IZR col + 1) ->
  yll + csz * IZR (nrows - 1 - row) <= y < yll + csz * (IZR (nrows - 1 - row) + 1) ->
  coord2cell RR nrows ncols xll yll csz (x, y) = (row * ncols + col)%Z.
Proof.
  intros Hcsz Hc Hr Hx Hy. unfold coord2cell. cbn [nfloor RR R_floor fst snd nsub ndiv].
  rewrite (floor_unique _ col) by (apply quotient_bounds; assumption).
  rewrite (floor_unique _ (nrows - 1 - row)) by (apply quotient_bounds; assumption).
  replace (nrows - 1 - (nrows - 1 - row))%Z with row by lia.
  destruct ((col <? 0) || (ncols <=? col) || (row <? 0) || (nrows <=? row))%Z eqn:E; [|reflexivity].
  rewrite !orb_true_iff, !Z.ltb_lt, !Z.leb_le in E. lia.
Qed.

(* coord2cell (cell2coord c) = c for every valid cell *)
Theorem coord2cell_cell2coord nrows ncols xll yll csz idx :
  0 < csz -> (0 < ncols)%Z -> (0 <= idx < nrows * ncols)%Z ->
  coord2cell RR nrows ncols xll yll csz (cell2coord RR nrows ncols xll yll csz idx) = idx.
Proof.
  intros Hcsz Hc Hi.
  destruct (cell_decompose nrows ncols idx Hc Hi) as (row & col & -> & Hcol & Hrow).
  rewrite cell2coord_centre by assumption.
  apply coord2cell_footprint; try assumption; split; nra.
Qed.

(* every point outside the grid extent maps to -1 (four sides and corners) *)
Theorem coord2cell_outside nrows ncols xll yll csz x y :
  0 < csz ->
  x < xll \/ xll + csz * IZR ncols <= x \/ y < yll \/ yll + csz * IZR nrows <= y ->
  coord2cell RR nrows ncols xll yll csz (x, y) = (-1)%Z.
Proof.
  intros Hcsz H. unfold coord2cell. cbn [nfloor RR R_floor fst snd nsub ndiv].
  set (qx := (x - xll) / csz). set (qy := (y - yll) / csz).
  assert (Ex : x - xll = qx * csz) by (unfold qx; field; lra).
  assert (Ey : y - yll = qy * csz) by (unfold qy; field; lra).
  destruct ((Int_part qx <? 0) || (ncols <=? Int_part qx) || (nrows - 1 - Int_part qy <? 0) ||
            (nrows <=? nrows - 1 - Int_part qy))%Z eqn:E; [reflexivity|].
  exfalso. rewrite !orb_false_iff, !Z.ltb_ge, !Z.leb_gt in E.
  destruct E as [[[E1 E2] E3] E4].
  destruct H as [H|[H|[H|H]]].
  - assert (qx < 0) by nra. pose proof (floor_neg qx H0). lia.
  - assert (IZR ncols <= qx) by nra. pose proof (floor_ge qx ncols H0). lia.
  - assert (qy < 0) by nra. pose proof (floor_neg qy H0). lia.
  - assert (IZR nrows <= qy) by nra. pose proof (floor_ge qy nrows H0). lia.
Qed.

(* invalid cell numbers give the missing value *)
Theorem cell2coord_invalid {T} (O : NumOps T) nrows ncols xll yll csz idx :
  (idx < 0 \/ nrows * ncols <= idx)%Z ->
  cell2coord O nrows ncols xll yll csz idx = (nnan O, nnan O).
Proof.
  intros H. unfold cell2coord. destruct (valid_cell nrows ncols idx) eqn:E; [|reflexivity].
  apply valid_cell_true in E. lia.
Qed.

(* the kernel of the pinned commit (truncation toward zero) violates the
   outside clause: a point left of the extent lands in column 0 *)
Theorem coord2cell_trunc_outside_refuted :
  exists nrows ncols xll yll csz x y,
    0 < csz /\ x < xll /\
    coord2cell_trunc RR nrows ncols xll yll csz (x, y) <> (-1)%Z.
Proof.
  exists 4%Z, 3%Z, 10, 20, 2, 9, 21. split; [lra|]. split; [lra|].
  unfold coord2cell_trunc. cbn [ntrunc RR R_trunc fst snd nsub ndiv].
  destruct (Rle_dec 0 ((9 - 10) / 2)) as [H|H]; [exfalso; lra|].
  destruct (Rle_dec 0 ((21 - 20) / 2)) as [H'|H']; [|exfalso; apply H'; lra].
  assert (E1 : Int_part (- ((9 - 10) / 2)) = 0%Z) by (apply floor_unique; simpl; lra).
  assert (E2 : Int_part ((21 - 20) / 2) = 0%Z) by (apply floor_unique; simpl; lra).
  rewrite E1, E2. cbn. discriminate.
Qed.

(* non-vacuity *)
Example footprint_example :
  coord2cell RR 4 3 10 20 2 (cell2coord RR 4 3 10 20 2 7) = 7%Z.
Proof. apply coord2cell_cell2coord; [lra | lia | lia]. Qed.
