(* C03, part 3: the kernel's CRPS is the definition
     mean_i [ E|X_i - y_i| - 1/2 E|X_i - X_i'| ]   (every ensemble size),
   the uncertainty is the CRPS of the observed climatology, m = 1 gives the
   mean absolute error. *)
From Coq Require Import ZArith Bool List Reals Lra Lia Permutation Sorted.
From Hy Require Import Base.Num Gen.ConstsC03 Model.Crps Proofs.CrpsSort Proofs.CrpsProofs.
Import ListNotations.
Open Scope R_scope.

(* ---------- the definition ---------- *)
(* sum_k |x_k - y| *)
Definition absdev (y : R) (e : list R) : R := Rsum (map (fun x => Rabs (x - y)) e).
(* sum_k sum_l |x_l - x_k| *)
Definition dsum (e : list R) : R := Rsum (map (fun x => absdev x e) e).
(* E|X-y| - 1/2 E|X-X'| over the empirical distribution of the members *)
Definition crps_def_row (r : rrow) : R :=
  let m := INR (length (snd r)) in
  absdev (fst r) (snd r) / m - dsum (snd r) / (2 * (m * m)).
Definition crps_def (rows : list rrow) : R :=
  Rsum (map crps_def_row rows) / INR (length rows).

Lemma absdev_perm y e e' : Permutation e e' -> absdev y e = absdev y e'.
Proof. intros; unfold absdev; apply Rsum_map_perm; auto. Qed.

Lemma dsum_perm e e' : Permutation e e' -> dsum e = dsum e'.
Proof.
  intros P. unfold dsum.
  rewrite (Rsum_map_perm _ _ _ P). apply Rsum_map_ext; intros x _. apply absdev_perm; auto.
Qed.

Lemma crps_def_row_perm y e e' :
  Permutation e e' -> crps_def_row (y, e) = crps_def_row (y, e').
Proof.
  intros P. unfold crps_def_row; cbn [fst snd].
  rewrite (absdev_perm y _ _ P), (dsum_perm _ _ P), (Permutation_length P). reflexivity.
Qed.

(* dsum counts every unordered pair twice *)
Lemma absdev_sym y l : absdev y l = Rsum (map (fun x => Rabs (y - x)) l).
Proof. unfold absdev; apply Rsum_map_ext; intros; apply Rabs_minus_sym. Qed.

Lemma dsum_pairabs l : dsum l = 2 * pairabs l.
Proof.
  induction l as [|y l IH]; [unfold dsum; simpl; lra|].
  unfold dsum in *. cbn [map Rsum pairabs].
  replace (Rsum (map (fun x => absdev x (y :: l)) l))
    with (Rsum (map (fun x => Rabs (y - x)) l) + Rsum (map (fun x => absdev x l) l)).
  - rewrite IH. unfold absdev at 1; cbn [map Rsum].
    replace (y - y) with 0 by lra. rewrite Rabs_R0.
    fold (absdev y l). rewrite absdev_sym. lra.
  - rewrite <- Rsum_map_add. apply Rsum_map_ext; intros x _.
    unfold absdev; cbn [map Rsum]. reflexivity.
Qed.

(* ---------- signed pair sums of a list (ordered pairs i<k) ---------- *)
Definition sumd (c : R) (e : list R) : R := Rsum (map (fun x => x - c) e).
Fixpoint pairsum (e : list R) : R :=
  match e with [] => 0 | x :: e' => sumd x e' + pairsum e' end.

Lemma sumd_shift c c' e : sumd c e = sumd c' e + INR (length e) * (c' - c).
Proof.
  unfold sumd; induction e as [|x e IH]; [simpl; lra|].
  change (length (x :: e)) with (S (length e)). rewrite S_INR. cbn [map Rsum]. rewrite IH. lra.
Qed.

Lemma pairsum_pairabs e : StronglySorted Rle e -> pairsum e = pairabs e.
Proof.
  induction 1 as [|x e Hs IH Hx]; [reflexivity|].
  cbn [pairsum pairabs]. rewrite IH. f_equal. unfold sumd.
  apply Rsum_map_ext; intros z Hz. rewrite Forall_forall in Hx. specialize (Hx z Hz).
  rewrite Rabs_minus_sym, Rabs_right; lra.
Qed.

(* ---------- contribution of one forecast to the kernel's CRPS ---------- *)
Definition posb (y x : R) : R := if Rltb y x then x - y else 0.     (* beta_0 *)
Definition posa (y x : R) : R := if Rleb x y then y - x else 0.     (* alpha_N *)

Fixpoint icontrib (m j : Z) (y : R) (e : list R) : R :=
  match e with
  | x1 :: ((x2 :: _) as e') =>
      da y x1 x2 * (IZR j / IZR m * (IZR j / IZR m))
      + db y x1 x2 * ((1 - IZR j / IZR m) * (1 - IZR j / IZR m))
      + icontrib m (j + 1) y e'
  | _ => 0
  end.

Lemma icontrib_cons m j y x1 x2 e :
  icontrib m j y (x1 :: x2 :: e) =
  da y x1 x2 * (IZR j / IZR m * (IZR j / IZR m))
  + db y x1 x2 * ((1 - IZR j / IZR m) * (1 - IZR j / IZR m))
  + icontrib m (j + 1) y (x2 :: e).
Proof. reflexivity. Qed.

Definition percrps (m : Z) (y : R) (e : list R) : R :=
  posb y (hd 0 e) * ((1 - IZR 0 / IZR m) * (1 - IZR 0 / IZR m))
  + icontrib m 1 y e
  + posa y (last e 0) * (IZR m / IZR m * (IZR m / IZR m)).

(* the CRPS output as a function of the accumulators *)
Definition icr (m j : Z) (ab : list (R * R)) : R :=
  Rsum (map (crps_term RR) (rows_interior RR m j ab)).

Definition cr_of (m : Z) (s : @acc R) : R :=
  ac_b0 s * ((1 - IZR 0 / IZR m) * (1 - IZR 0 / IZR m))
  + icr m 1 (ac_ab s)
  + ac_aN s * (IZR m / IZR m * (IZR m / IZR m)).

Lemma crps_term_mkrow p a b g o :
  crps_term RR (mkrow RR p a b g o) = a * (p * p) + b * ((1 - p) * (1 - p)).
Proof. reflexivity. Qed.

Lemma sum_crps_table c m s : sum_crps RR (table RR c m s) = cr_of m s.
Proof.
  rewrite sum_crps_RR. unfold table, cr_of, icr. cbn [map Rsum].
  rewrite map_app, Rsum_app. cbn [map Rsum].
  unfold row_first, row_last. rewrite !crps_term_mkrow.
  cbn [RR n0 n1 prob ndiv nofZ]. ring.
Qed.

Lemma icr_cons m j a b ab :
  icr m j ((a, b) :: ab) =
  a * (IZR j / IZR m * (IZR j / IZR m)) + b * ((1 - IZR j / IZR m) * (1 - IZR j / IZR m))
  + icr m (j + 1) ab.
Proof. reflexivity. Qed.

Lemma icr_bins_upd m j y w e ab :
  length ab = pred (length e) ->
  icr m j (bins_upd RR y w e ab) = icr m j ab + w * icontrib m j y e.
Proof.
  revert j ab; induction e as [|x1 e IH]; intros j ab Hl.
  - destruct ab; simpl in Hl; [|discriminate]. simpl. unfold icr; simpl. lra.
  - destruct e as [|x2 e].
    + destruct ab; simpl in Hl; [|discriminate]. unfold icr; simpl. lra.
    + destruct ab as [|[a b] ab]; [simpl in Hl; discriminate|].
      rewrite bins_upd_cons, bin_upd_RR. cbn [fst snd].
      rewrite !icr_cons, icontrib_cons, IH; [ring|]. simpl in *. lia.
Qed.

Lemma cr_of_step m w s y e :
  length (ac_ab s) = pred (length e) ->
  cr_of m (row_step RR w s (y, e)) = cr_of m s + w * percrps m y e.
Proof.
  intros Hl. unfold cr_of, percrps, row_step.
  cbn [fst snd ac_ab ac_b0 ac_aN RR nadd nsub nmul nleb nltb n0].
  rewrite icr_bins_upd by exact Hl. unfold posb, posa.
  destruct (Rltb y (hd 0 e)), (Rleb (last e 0) y); ring.
Qed.

Lemma row_step_ab_length w s r :
  length (ac_ab (row_step RR w s r)) = length (ac_ab s).
Proof. unfold row_step; cbn [ac_ab]. apply bins_upd_length. Qed.

Lemma cr_of_fold m k w rows s :
  Forall (fun r : rrow => length (snd r) = k) rows ->
  length (ac_ab s) = pred k ->
  cr_of m (fold_left (row_step RR w) rows s) =
  cr_of m s + w * Rsum (map (fun r => percrps m (fst r) (snd r)) rows).
Proof.
  intros H; revert s; induction H as [|[y e] rows Hr _ IH]; intros s Hl.
  - simpl. lra.
  - cbn [fold_left map Rsum fst snd]. cbn [snd] in Hr.
    rewrite IH by (rewrite row_step_ab_length; exact Hl).
    rewrite cr_of_step by (rewrite Hr; exact Hl). lra.
Qed.

Lemma icr_zero m j n : icr m j (repeat (0, 0) n) = 0.
Proof.
  revert j; induction n as [|n IH]; intros j; [reflexivity|].
  cbn [repeat]. rewrite icr_cons, IH. ring.
Qed.

Lemma cr_of_acc0 m n : cr_of m (acc0 RR n) = 0.
Proof.
  unfold cr_of, acc0; cbn [ac_ab ac_b0 ac_aN RR n0]. rewrite icr_zero. ring.
Qed.

(* ---------- the per-forecast identity ---------- *)
(* bins of the tail of a sorted ensemble with explicit real weights:
   sum_j ( j^2 alpha_j + (M-j)^2 beta_j ), the last bin with weight M^2 *)
Fixpoint wK (j M y : R) (e : list R) : R :=
  match e with
  | x1 :: ((x2 :: _) as e') =>
      j * j * da y x1 x2 + (M - j) * (M - j) * db y x1 x2 + wK (j + 1) M y e'
  | [x] => M * M * posa y x
  | [] => 0
  end.

Lemma wK_cons j M y x1 x2 e :
  wK j M y (x1 :: x2 :: e) =
  j * j * da y x1 x2 + (M - j) * (M - j) * db y x1 x2 + wK (j + 1) M y (x2 :: e).
Proof. reflexivity. Qed.

Lemma icontrib_wK m j y e :
  e <> [] -> IZR m <> 0 ->
  (icontrib m j y e + posa y (last e 0)) * (IZR m * IZR m) = wK (IZR j) (IZR m) y e.
Proof.
  intros Hne Hm; revert j; induction e as [|x1 e IH]; intros j; [congruence|].
  destruct e as [|x2 e].
  - simpl. ring.
  - rewrite icontrib_cons, wK_cons.
    change (last (x1 :: x2 :: e) 0) with (last (x2 :: e) 0).
    rewrite <- plus_IZR, <- IH by congruence. field. exact Hm.
Qed.

(* positive parts used on the right-hand side *)
Definition pp (t : R) : R := if Rleb 0 t then t else 0.

Lemma pp_nonneg t : 0 <= t -> pp t = t.
Proof. intros; unfold pp; rcases; lra. Qed.
Lemma pp_nonpos t : t <= 0 -> pp t = 0.
Proof. intros; unfold pp; rcases; lra. Qed.
Lemma posa_le y x : x <= y -> posa y x = y - x.
Proof. intros; unfold posa; rcases; lra. Qed.
Lemma posa_ge y x : y <= x -> posa y x = 0.
Proof. intros; unfold posa; rcases; lra. Qed.
Lemma Rabs_nonneg_eq t : 0 <= t -> Rabs t = t.
Proof. intros; apply Rabs_right; lra. Qed.
Lemma Rabs_nonpos_eq t : t <= 0 -> Rabs t = - t.
Proof. intros; apply Rabs_left1; lra. Qed.

(* the identity for the tail that starts at the j-th member (j-1 members before it) *)
Lemma wK_identity y e :
  StronglySorted Rle e -> e <> [] ->
  forall j M, M = j + INR (length e) - 1 ->
  wK j M y e =
  M * (absdev y e + (j - 1) * pp (y - hd 0 e) - (M - j + 1) * pp (hd 0 e - y))
  - (pairsum e + (j - 1) * sumd (hd 0 e) e).
Proof.
  induction 1 as [|x1 e Hs IH Hx]; intros Hne j M HM; [congruence|].
  destruct e as [|x2 e].
  - (* last member: the bin above the ensemble *)
    cbn [length INR] in HM. assert (M = j) by lra. subst M.
    cbn [wK hd pairsum]. unfold absdev, sumd. cbn [map Rsum].
    destruct (Rle_dec x1 y).
    + rewrite posa_le, (pp_nonneg (y - x1)), (pp_nonpos (x1 - y)), (Rabs_nonpos_eq (x1 - y)) by lra.
      ring.
    + rewrite posa_ge, (pp_nonpos (y - x1)), (pp_nonneg (x1 - y)), (Rabs_nonneg_eq (x1 - y)) by lra.
      ring.
  - assert (H12 : x1 <= x2) by (inversion Hx; auto).
    rewrite wK_cons.
    rewrite (IH ltac:(congruence) (j + 1) M)
      by (change (length (x1 :: x2 :: e)) with (S (length (x2 :: e))) in HM;
          rewrite S_INR in HM; lra).
    assert (HL : INR (length (x2 :: e)) = M - j)
      by (change (length (x1 :: x2 :: e)) with (S (length (x2 :: e))) in HM;
          rewrite S_INR in HM; lra).
    cbn [hd].
    assert (Habs : absdev y (x1 :: x2 :: e) = Rabs (x1 - y) + absdev y (x2 :: e)) by reflexivity.
    assert (Hps : pairsum (x1 :: x2 :: e) = sumd x1 (x2 :: e) + pairsum (x2 :: e)) by reflexivity.
    assert (Hsd : sumd x1 (x1 :: x2 :: e) = sumd x1 (x2 :: e))
      by (unfold sumd; cbn [map Rsum]; lra).
    rewrite Habs, Hps, Hsd, (sumd_shift x1 x2 (x2 :: e)), HL.
    generalize (absdev y (x2 :: e)) (pairsum (x2 :: e)) (sumd x2 (x2 :: e)).
    intros A P S.
    destruct (dab_cases y x1 x2 H12) as [(Hy & -> & ->)|[(Hy & -> & ->)|(Hy & -> & ->)]].
    + rewrite (pp_nonpos (y - x1)), (pp_nonneg (x1 - y)), (pp_nonpos (y - x2)),
        (pp_nonneg (x2 - y)), (Rabs_nonneg_eq (x1 - y)) by lra. ring.
    + rewrite (pp_nonneg (y - x1)), (pp_nonpos (x1 - y)), (pp_nonpos (y - x2)),
        (pp_nonneg (x2 - y)), (Rabs_nonpos_eq (x1 - y)) by lra. ring.
    + rewrite (pp_nonneg (y - x1)), (pp_nonpos (x1 - y)), (pp_nonneg (y - x2)),
        (pp_nonpos (x2 - y)), (Rabs_nonpos_eq (x1 - y)) by lra. ring.
Qed.

Lemma posb_pp y x : posb y x = pp (x - y).
Proof. unfold posb, pp; rcases; lra. Qed.

Lemma percrps_is_definition m y e :
  StronglySorted Rle e -> length e = m -> (1 <= m)%nat ->
  percrps (Z.of_nat m) y e = crps_def_row (y, e).
Proof.
  intros Hs Hl Hm.
  assert (Hne : e <> []) by (intros ->; simpl in Hl; lia).
  assert (HM : IZR (Z.of_nat m) = INR m) by (symmetry; apply INR_IZR_INZ).
  assert (HM0 : INR m <> 0) by (apply not_0_INR; lia).
  unfold percrps, crps_def_row; cbn [fst snd]. rewrite Hl.
  pose proof (icontrib_wK (Z.of_nat m) 1 y e Hne ltac:(rewrite HM; exact HM0)) as HK.
  rewrite (wK_identity y e Hs Hne 1 (IZR (Z.of_nat m)) ltac:(rewrite HM, Hl; lra)) in HK.
  rewrite HM in *.
  rewrite dsum_pairabs, <- pairsum_pairabs by exact Hs.
  rewrite posb_pp.
  set (M := INR m) in *. set (I := icontrib (Z.of_nat m) 1 y e) in *.
  set (PA := posa y (last e 0)) in *.
  assert (HI : I + PA = (M * (absdev y e + (1 - 1) * pp (y - hd 0 e)
                              - (M - 1 + 1) * pp (hd 0 e - y))
                         - (pairsum e + (1 - 1) * sumd (hd 0 e) e)) / (M * M)).
  { rewrite <- HK. field. exact HM0. }
  replace (1 - 0 / M) with 1 by (unfold Rdiv; ring).
  replace (M / M) with 1 by (field; exact HM0).
  replace (I + PA) with (I + PA * (1 * 1)) in HI by ring.
  transitivity (pp (hd 0 e - y) + (I + PA * (1 * 1))); [ring|].
  rewrite HI. field. exact HM0.
Qed.

(* ---------- crps_is_definition ---------- *)
Section Definition_.
Variables (c : bool) (m : nat) (rows : list rrow).
Hypothesis Hwf : wfrows m rows.

Lemma kstate_crps :
  cr_of (Z.of_nat m) (kstate m rows) =
  wgt rows * Rsum (map (fun r => percrps (Z.of_nat m) (fst r) (snd r)) (sortrows rows)).
Proof.
  destruct Hwf as (Hm & Hne & Hlen). unfold kstate.
  rewrite (cr_of_fold (Z.of_nat m) m).
  - rewrite cr_of_acc0. lra.
  - unfold sortrows. rewrite Forall_map. eapply Forall_impl; [|exact Hlen].
    intros r Hr; cbn [snd]. rewrite sort_length. exact Hr.
  - unfold acc0; cbn [ac_ab]. rewrite repeat_length. lia.
Qed.

Lemma out_crps_is_definition :
  o_crps (finish RR c (Z.of_nat m) (kstate m rows) (kunc rows)) = crps_def rows.
Proof.
  unfold finish; cbn [o_crps]. rewrite sum_crps_table, kstate_crps.
  destruct Hwf as (Hm & Hne & Hlen).
  unfold crps_def, wgt, sortrows. rewrite map_map. cbn [fst snd].
  replace (Rsum (map (fun r : rrow => percrps (Z.of_nat m) (fst r) (sortR (snd r))) rows))
    with (Rsum (map crps_def_row rows)); [unfold Rdiv; ring|].
  apply Rsum_map_ext. intros [y e] Hin. cbn [fst snd].
  rewrite Forall_forall in Hlen. specialize (Hlen _ Hin); cbn [snd] in Hlen.
  rewrite percrps_is_definition;
    [|apply sort_sorted | rewrite sort_length; exact Hlen | exact Hm].
  symmetry. apply crps_def_row_perm. apply sort_perm.
Qed.

(* uncertainty = CRPS (by the definition) of the climatological ensemble:
   every forecast is the whole set of observations *)
Definition climatology : list rrow :=
  let ys := map fst rows in map (fun y => (y, ys)) ys.

Lemma out_uncertainty_is_climatology :
  o_unc (finish RR c (Z.of_nat m) (kstate m rows) (kunc rows)) = crps_def climatology.
Proof.
  unfold finish; cbn [o_unc]. rewrite kunc_eq.
  destruct Hwf as (Hm & Hne & Hlen).
  unfold crps_def, climatology. cbv zeta. rewrite !map_length, map_map.
  unfold crps_def_row; cbn [fst snd]. rewrite map_length.
  set (ys := map fst rows). set (n := INR (length rows)).
  assert (Hn : n <> 0) by (apply Rgt_not_eq, INR_length_pos; auto).
  assert (Hl : INR (length ys) = n) by (unfold ys, n; rewrite map_length; reflexivity).
  replace (Rsum (map (fun x : R => absdev x ys / n - dsum ys / (2 * (n * n))) ys))
    with (dsum ys / n - n * (dsum ys / (2 * (n * n)))).
  - rewrite dsum_pairabs. unfold wgt. fold n. field. exact Hn.
  - rewrite (Rsum_map_add (fun x => absdev x ys / n) (fun _ => - (dsum ys / (2 * (n * n))))).
    rewrite Rsum_map_const, Hl.
    replace (Rsum (map (fun x : R => absdev x ys / n) ys))
      with (Rsum (map (fun x : R => / n * absdev x ys) ys))
      by (apply Rsum_map_ext; intros; unfold Rdiv; ring).
    rewrite Rsum_map_scal. fold (dsum ys). unfold Rdiv. ring.
Qed.

End Definition_.

(* one member: the mean absolute error *)
Lemma crps_def_single rows :
  Forall (fun r : rrow => length (snd r) = 1%nat) rows ->
  crps_def rows =
  Rsum (map (fun r => Rabs (hd 0 (snd r) - fst r)) rows) / INR (length rows).
Proof.
  intros H. unfold crps_def. f_equal. apply Rsum_map_ext. intros [y e] Hin.
  rewrite Forall_forall in H. specialize (H _ Hin). cbn [fst snd] in *.
  destruct e as [|x [|? ?]]; try discriminate.
  unfold crps_def_row, dsum, absdev; cbn [fst snd length INR map Rsum hd].
  replace (x - x) with 0 by lra. rewrite Rabs_R0. field.
Qed.
