(* The pieces accumulated by c_var2h are Riemann integrals (Coquelicot):
   level data: of the affine interpolant of the interval over the part of
   the interval inside the period; rainfall: of the constant rate
   increment/(length of the interval) (times P, divided out at the end). *)
From Coq Require Import ZArith List Reals Lra Lia.
From Coquelicot Require Import Coquelicot.
From Hy Require Import Base.Num Gen.ConstsC14 Model.Var2h Proofs.Var2hProofs.
Open Scope R_scope.

(* affine interpolant through (t1,v1) and (t2,v2) *)
Definition interp (t1 t2 v1 v2 : R) (t : R) : R :=
  (v2 - v1) / (t2 - t1) * (t - t1) + v1.

Lemma interp_left t1 t2 v1 v2 : interp t1 t2 v1 v2 t1 = v1.
Proof. unfold interp. ring. Qed.
Lemma interp_right t1 t2 v1 v2 : t1 <> t2 -> interp t1 t2 v1 v2 t2 = v2.
Proof. intros H. unfold interp. field. lra. Qed.

(* * the trapezoid term is the integral of the interpolant *)
Lemma trapezoid_is_integral t1 t2 v1 v2 a b :
  is_RInt (interp t1 t2 v1 v2) a b
          ((interp t1 t2 v1 v2 b + interp t1 t2 v1 v2 a) * (b - a) / 2).
Proof.
  unfold interp. set (al := (v2 - v1) / (t2 - t1)).
  evar_last.
  - apply (is_RInt_derive (fun x => al * (x - t1) * (x - t1) / 2 + v1 * (x - t1))).
    + intros x _. auto_derive; [exact I|]. field.
    + intros x _. apply (@ex_derive_continuous R_AbsRing R_NormedModule).
      auto_derive. exact I.
  - unfold minus, plus, opp; simpl. field.
Qed.

(* the piece of an interval in a period, level data *)
Lemma piece_level_is_RInt P s e t1 t2 v1 v2 : (t1 <= t2)%Z -> (s <= e)%Z ->
  is_RInt (interp (IZR t1) (IZR t2) v1 v2)
          (IZR (clampZ t1 t2 s)) (IZR (clampZ t1 t2 e))
          (piece false P s e t1 t2 v1 v2).
Proof.
  intros Ht Hs. unfold piece.
  destruct (Z.ltb_spec (Z.max t1 s) (Z.min t2 e)) as [H|H].
  - replace (clampZ t1 t2 e) with (Z.min t2 e) by (unfold clampZ; lia).
    replace (clampZ t1 t2 s) with (Z.max t1 s) by (unfold clampZ; lia).
    apply trapezoid_is_integral.
  - replace (clampZ t1 t2 e) with (clampZ t1 t2 s) by (unfold clampZ; lia).
    apply (is_RInt_point (interp (IZR t1) (IZR t2) v1 v2)).
Qed.

(* rainfall: the increment v2 falls at the constant rate v2/(t2-t1) *)
Lemma piece_rain_is_RInt P s e t1 t2 v1 v2 : (t1 <= t2)%Z -> (s <= e)%Z ->
  is_RInt (fun _ => v2 / (IZR t2 - IZR t1) * IZR P)
          (IZR (clampZ t1 t2 s)) (IZR (clampZ t1 t2 e))
          (piece true P s e t1 t2 v1 v2).
Proof.
  intros Ht Hs. unfold piece.
  destruct (Z.ltb_spec (Z.max t1 s) (Z.min t2 e)) as [H|H].
  - replace (clampZ t1 t2 e) with (Z.min t2 e) by (unfold clampZ; lia).
    replace (clampZ t1 t2 s) with (Z.max t1 s) by (unfold clampZ; lia).
    evar_last; [apply (@is_RInt_const R_NormedModule)|].
    unfold scal; simpl; unfold mult; simpl. unfold Rdiv. ring.
  - replace (clampZ t1 t2 e) with (clampZ t1 t2 s) by (unfold clampZ; lia).
    apply (is_RInt_point (fun _ : R => v2 / (IZR t2 - IZR t1) * IZR P)).
Qed.

(* the clamped bounds are the part of the period inside the interval *)
Lemma clamp_bounds t1 t2 s e : (t1 <= t2)%Z -> (s <= e)%Z ->
  (t1 <= clampZ t1 t2 s <= clampZ t1 t2 e)%Z /\ (clampZ t1 t2 e <= t2)%Z /\
  ((Z.max t1 s < Z.min t2 e)%Z ->
   clampZ t1 t2 s = Z.max t1 s /\ clampZ t1 t2 e = Z.min t2 e).
Proof. unfold clampZ. lia. Qed.

(* ------------------------------------------------------------------ *)
(* The whole series: [area s e] is the integral over [s,e] of ONE function of
   time, the piecewise interpolant of the observations (level data), resp.
   P times the piecewise-constant rate of the increments (rainfall).
   Chasles over the knots; duplicate stamps (jumps) are allowed. *)

(* integrand of one interval, by mode *)
Definition segf (rain : bool) (P t1 t2 : Z) (v1 v2 : R) : R -> R :=
  if rain then (fun _ => v2 / (IZR t2 - IZR t1) * IZR P)
  else interp (IZR t1) (IZR t2) v1 v2.

Lemma piece_is_RInt rain P s e t1 t2 v1 v2 : (t1 <= t2)%Z -> (s <= e)%Z ->
  is_RInt (segf rain P t1 t2 v1 v2)
          (IZR (clampZ t1 t2 s)) (IZR (clampZ t1 t2 e))
          (piece rain P s e t1 t2 v1 v2).
Proof.
  destruct rain; [apply piece_rain_is_RInt | apply piece_level_is_RInt].
Qed.

Section Global.
Variables (P rainfall : Z) (sec : list Z) (vals : list (option R)).
Hypothesis Hsorted : sorted_secs sec.
Local Notation n := (length sec).
Local Notation ts := (tsec sec).
Local Notation rain := (rainfall =? 1)%Z.
Local Notation pcj := (pc P rainfall sec vals).
Local Notation ps := (psum P rainfall sec vals).

Definition seg (j : nat) : R -> R :=
  segf rain P (ts j) (ts (S j)) (rv vals j) (rv vals (S j)).

(* the function of time: on [t_j, t_{j+1}) the integrand of interval j
   ([m] intervals from index [j] on) *)
Fixpoint gi (m j : nat) (t : R) : R :=
  match m with
  | O => 0
  | S m' => if Rlt_dec t (IZR (ts (S j))) then seg j t else gi m' (S j) t
  end.

Definition ginterp : R -> R := gi (n - 1) 0.

Lemma ts_mono' j k : (j <= k)%nat -> (k < n)%nat -> (ts j <= ts k)%Z.
Proof. apply ts_mono, Hsorted. Qed.

Lemma psum_ext s e s' e' a b :
  (forall j, (a <= j < b)%nat -> pcj s e j = pcj s' e' j) -> ps s e a b = ps s' e' a b.
Proof.
  intros H. unfold psum. f_equal. apply map_ext_in. intros j Hin.
  apply in_seq in Hin. apply H. lia.
Qed.

(* moving the bounds of the period up to a stamp t' does not change the
   pieces of the intervals that start at or after t' *)
Lemma pc_shift s e t' i : (S i < n)%nat -> (t' <= ts i)%Z -> (s <= e)%Z ->
  pcj s e i = pcj (Z.max s t') (Z.max e t') i.
Proof.
  intros Hi Ht Hs. unfold pc.
  pose proof (Hsorted i Hi).
  rewrite !piece_clamp by lia.
  replace (clampZ (ts i) (ts (S i)) (Z.max e t')) with (clampZ (ts i) (ts (S i)) e)
    by (unfold clampZ; lia).
  replace (clampZ (ts i) (ts (S i)) (Z.max s t')) with (clampZ (ts i) (ts (S i)) s)
    by (unfold clampZ; lia).
  reflexivity.
Qed.

Lemma IZR_le' a b : (a <= b)%Z -> IZR a <= IZR b. Proof. apply IZR_le. Qed.

Lemma gi_RInt m : forall j s e,
  (j + m < n)%nat -> (ts j <= s)%Z -> (s <= e)%Z -> (e <= ts (j + m))%Z ->
  is_RInt (gi m j) (IZR s) (IZR e) (ps s e j (j + m)).
Proof.
  induction m as [|m IH]; intros j s e Hn Hs Hse He.
  - replace (j + 0)%nat with j in * by lia. rewrite psum_empty.
    assert (s = e) by lia. subst e. apply (is_RInt_point (gi 0 j)).
  - assert (Hj : (S j < n)%nat) by lia.
    pose proof (Hsorted j Hj) as Hjj.
    set (t' := ts (S j)) in *.
    rewrite psum_step by lia.
    destruct (Z_le_gt_dec e t') as [Hc|Hc]; [|destruct (Z_le_gt_dec t' s) as [Hd|Hd]].
    + (* the period ends inside interval j *)
      rewrite (psum_zero P rainfall sec vals s e (S j) (j + S m)).
      2:{ intros i Hi. unfold pc. apply piece_zero_right.
          assert (t' <= ts i)%Z by (apply ts_mono'; lia). lia. }
      rewrite Rplus_0_r.
      apply (is_RInt_ext (seg j)).
      * intros x Hx. rewrite Rmin_left, Rmax_right in Hx by (apply IZR_le; lia).
        cbn [gi]. destruct (Rlt_dec x (IZR (ts (S j)))) as [|Hnl]; [reflexivity|].
        exfalso. apply Hnl. apply Rlt_le_trans with (IZR e); [apply Hx|apply IZR_le; exact Hc].
      * pose proof (piece_is_RInt rain P s e (ts j) t' (rv vals j) (rv vals (S j)) Hjj Hse) as Hp.
        replace (clampZ (ts j) t' s) with s in Hp by (unfold clampZ; lia).
        replace (clampZ (ts j) t' e) with e in Hp by (unfold clampZ; lia).
        exact Hp.
    + (* the period starts at or after t_{j+1} *)
      replace (pcj s e j) with 0
        by (symmetry; unfold pc; apply piece_zero_left; exact Hd).
      rewrite Rplus_0_l.
      apply (is_RInt_ext (gi m (S j))).
      * intros x Hx. rewrite Rmin_left, Rmax_right in Hx by (apply IZR_le; lia).
        cbn [gi]. destruct (Rlt_dec x (IZR (ts (S j)))) as [Hl|]; [exfalso|reflexivity].
        assert (IZR t' <= IZR s) by (apply IZR_le; exact Hd). fold t' in Hl. lra.
      * replace (j + S m)%nat with (S j + m)%nat by lia.
        apply IH; try lia. replace (S j + m)%nat with (j + S m)%nat by lia. exact He.
    + (* t_{j+1} is strictly inside the period: Chasles *)
      apply (is_RInt_Chasles (gi (S m) j) (IZR s) (IZR t') (IZR e)).
      * apply (is_RInt_ext (seg j)).
        -- intros x Hx. rewrite Rmin_left, Rmax_right in Hx by (apply IZR_le; lia).
           cbn [gi]. destruct (Rlt_dec x (IZR (ts (S j)))) as [|Hnl]; [reflexivity|].
           exfalso. apply Hnl. apply Hx.
        -- pose proof (piece_is_RInt rain P s e (ts j) t' (rv vals j) (rv vals (S j)) Hjj Hse) as Hp.
           replace (clampZ (ts j) t' s) with s in Hp by (unfold clampZ; lia).
           replace (clampZ (ts j) t' e) with t' in Hp by (unfold clampZ; lia).
           exact Hp.
      * apply (is_RInt_ext (gi m (S j))).
        -- intros x Hx. rewrite Rmin_left, Rmax_right in Hx by (apply IZR_le; lia).
           cbn [gi]. destruct (Rlt_dec x (IZR (ts (S j)))) as [Hl|]; [exfalso|reflexivity].
           fold t' in Hl. lra.
        -- rewrite (psum_ext s e (Z.max s t') (Z.max e t') (S j) (j + S m)).
           2:{ intros i Hi. apply pc_shift; try lia. apply ts_mono'; lia. }
           replace (Z.max s t') with t' by lia. replace (Z.max e t') with e by lia.
           replace (j + S m)%nat with (S j + m)%nat by lia.
           apply IH; try lia. replace (S j + m)%nat with (j + S m)%nat by lia. exact He.
Qed.

(* * the area of [s,e] is the integral of the piecewise interpolant *)
Lemma area_is_global_integral s e :
  (0 < n)%nat -> (ts 0 <= s)%Z -> (s <= e)%Z -> (e <= ts (n - 1))%Z ->
  is_RInt ginterp (IZR s) (IZR e) (area P rainfall sec vals s e).
Proof.
  intros Hn Hs Hse He. unfold ginterp, area.
  replace (n - 1)%nat with (0 + (n - 1))%nat at 2 by lia.
  apply gi_RInt; try lia. replace (0 + (n - 1))%nat with (n - 1)%nat by lia. exact He.
Qed.

(* the function is what it is said to be: on [t_j, t_{j+1}) it is the
   integrand of interval j *)
Lemma gi_on_interval m : forall j0 j t,
  (j0 <= j)%nat -> (j < j0 + m)%nat -> (j0 + m < n)%nat ->
  IZR (ts j) <= t < IZR (ts (S j)) -> gi m j0 t = seg j t.
Proof.
  induction m as [|m IH]; intros j0 j t H0 H1 Hn Ht; [lia|].
  cbn [gi]. destruct (Nat.eq_dec j0 j) as [->|Hne].
  - destruct (Rlt_dec t (IZR (ts (S j)))); [reflexivity|lra].
  - destruct (Rlt_dec t (IZR (ts (S j0)))) as [Hl|].
    + exfalso. assert (IZR (ts (S j0)) <= IZR (ts j)) by (apply IZR_le, ts_mono'; lia). lra.
    + apply IH; try lia. exact Ht.
Qed.

Lemma ginterp_on_interval j t : (S j < n)%nat ->
  IZR (ts j) <= t < IZR (ts (S j)) -> ginterp t = seg j t.
Proof. intros Hj Ht. unfold ginterp. apply gi_on_interval; try lia. exact Ht. Qed.

(* level data: the function passes through the observations *)
Lemma ginterp_at_stamp j : rain = false -> (S j < n)%nat -> (ts j < ts (S j))%Z ->
  ginterp (IZR (ts j)) = rv vals j.
Proof.
  intros Hr Hj Hlt. rewrite (ginterp_on_interval j (IZR (ts j)) Hj).
  - unfold seg, segf. rewrite Hr. apply interp_left.
  - split; [lra | apply IZR_lt; exact Hlt].
Qed.

End Global.

(* * the property's first sentence for the repaired kernel: a value that is
   not missing, times P, is the integral over its period of the piecewise
   interpolant of the whole series *)
Lemma period_value_is_integral P rainfall maxgap hstart sec vals hinit :
  var2h_pre P rainfall hstart sec ->
  forall out i x,
  c_var2h_RN true P rainfall maxgap hstart sec vals hinit = VOk out ->
  (i < length hinit - 1)%nat ->
  nth i out None = Some x ->
  is_RInt (ginterp P rainfall sec vals)
          (IZR (pstart P hstart (Z.of_nat i))) (IZR (pend P hstart (Z.of_nat i)))
          (x * IZR P).
Proof.
  intros Hpre out i x Hrun Hi Hx.
  pose proof (pre_P P rainfall hstart sec Hpre) as HP.
  assert (Hcov : (pend P hstart (Z.of_nat i) <= tsec sec (length sec - 1))%Z).
  { destruct (Z_le_gt_dec (pend P hstart (Z.of_nat i)) (tsec sec (length sec - 1)));
      [auto|exfalso].
    rewrite (uncovered_missing true P rainfall maxgap hstart sec vals hinit Hpre out i
               eq_refl Hrun Hi) in Hx by lia.
    discriminate. }
  destruct (period_value true P rainfall maxgap hstart sec vals hinit Hpre out i Hrun Hi)
    as [Hn|Hv]; [congruence|].
  rewrite Hv in Hx. injection Hx as <-.
  match goal with |- is_RInt _ _ _ (?a / _ * _) => replace (a / IZR P * IZR P) with a
    by (field; apply not_0_IZR; lia) end.
  destruct Hpre as (Hs & Hr & Hin & H0 & (k0 & Hk0 & Hk0')).
  assert (0 <= Z.of_nat i * P)%Z by nia.
  apply area_is_global_integral; auto.
  - lia.
  - unfold pstart. lia.
  - unfold pstart, pend. lia.
Qed.
