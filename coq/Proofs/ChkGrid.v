(* Overflow-checked variants of the refinement theorems of Proofs/RefineGrid.v and
   Proofs/RefineGridGeom.v: the same conclusions about [program_chk]
   (Gen/KernelsAstChk.v: every signed integer +, -, *, /, unary -, ++ of the C text is
   wrapped in [IChk W64] / [IChk W32]), under the source hypotheses plus the size
   hypotheses that exclude signed overflow.  All integers of c_grid.c are [long long].

   Size hypotheses (INT64_MAX = 2^63-1):
     getnxy         idxcell a long long; not (idxcell = INT64_MIN and ncols = -1)
     getcoord       + nrows-1 and nrows-1-nxy[1] long long (implied by a valid cell number
                    and nrows*ncols <= INT64_MAX: chk_refine_getcoord_valid)
     c_cell2rowcol  INT64_MIN <= nrows*ncols <= INT64_MAX;  2*nval-1 <= INT64_MAX
     c_cell2coord   the same
     c_coord2cell   nrows*ncols-1 <= INT64_MAX;  2*nval-1 <= INT64_MAX
     c_neighbours   INT64_MIN <= nrows*ncols <= INT64_MAX (only if idxcell >= 0)
   No hypothesis on the cell numbers read from idxcell, nor on the signs of nrows, ncols.
   The hypotheses on nrows*ncols are necessary (overflow_*_ncells: a grid of 2^64 cells). *)
From Coq Require Import ZArith Bool List String Lia Reals Lra.
From Coq Require Import PrimFloat.
From Hy Require Import Base.Num Base.MiniC Gen.KernelsAst Gen.KernelsAstChk Model.Grid
  Proofs.RefineGrid Proofs.GridGeomProofs Proofs.RefineGridGeom.
Import ListNotations.
Open Scope string_scope.
Open Scope list_scope.
Open Scope Z_scope.

(* ================================================================== *)
(* in_width                                                             *)
(* ================================================================== *)

Notation INT64_MAX := 9223372036854775807 (only parsing).
Notation INT64_MIN := (-9223372036854775808) (only parsing).

Lemma in_width_W32 v : in_width W32 v = true <-> -2147483648 <= v <= 2147483647.
Proof.
  unfold in_width. rewrite andb_true_iff, !Z.leb_le. reflexivity.
Qed.

Lemma in_width_W64 v : in_width W64 v = true <-> INT64_MIN <= v <= INT64_MAX.
Proof.
  unfold in_width. rewrite andb_true_iff, !Z.leb_le. reflexivity.
Qed.

Lemma in_width_W32_false v : in_width W32 v = false <-> v < -2147483648 \/ 2147483647 < v.
Proof.
  unfold in_width. rewrite andb_false_iff, !Z.leb_gt. reflexivity.
Qed.

Lemma in_width_W64_false v : in_width W64 v = false <-> v < INT64_MIN \/ INT64_MAX < v.
Proof.
  unfold in_width. rewrite andb_false_iff, !Z.leb_gt. reflexivity.
Qed.

(* the checks on symbolic values stay folded under [cbn]; [iw] discharges them by [lia]
   from the context (a check on a literal is decided by [cbn] itself) *)
#[local] Arguments in_width !w !z /.

Ltac iw1 :=
  match goal with
  | |- context[in_width W64 ?e] =>
      replace (in_width W64 e) with true by (symmetry; apply in_width_W64; lia)
  | |- context[in_width W32 ?e] =>
      replace (in_width W32 e) with true by (symmetry; apply in_width_W32; lia)
  end.
Ltac iw := repeat iw1.

(* [cbn], fold the lazy boolean operators, discharge the overflow checks *)
Ltac mci :=
  repeat (progress (cbn; rewrite ?truth_b2z, ?b2z_truth_b2z, ?or_ok, ?and_ok, ?b2z_eqb0; iw)).

(* ================================================================== *)
(* arithmetic of getnxy                                                 *)
(* ================================================================== *)

(* idx - idx % ncols is between 0 and idx: the subtraction of getnxy never overflows *)
Lemma sub_rem_range idx ncols :
  ncols <> 0 -> INT64_MIN <= idx <= INT64_MAX ->
  INT64_MIN <= idx - Z.rem idx ncols <= INT64_MAX.
Proof.
  intros Hn Hi.
  destruct (Z.le_gt_cases 0 idx) as [H|H].
  - pose proof (Z.rem_nonneg idx ncols Hn H).
    pose proof (Z.rem_le idx ncols) as HL.
    destruct (Z.lt_total 0 ncols) as [Hp|[Hz|Hneg]]; [|lia|].
    + specialize (HL H Hp). lia.
    + rewrite <- (Z.rem_opp_r idx ncols) in * by exact Hn.
      pose proof (Z.rem_le idx (- ncols) H ltac:(lia)). lia.
  - assert (Hr : Z.rem idx ncols = - Z.rem (- idx) ncols)
      by (rewrite Z.rem_opp_l by exact Hn; lia).
    pose proof (Z.rem_nonneg (- idx) ncols Hn ltac:(lia)).
    destruct (Z.lt_total 0 ncols) as [Hp|[Hz|Hneg]]; [|lia|].
    + pose proof (Z.rem_le (- idx) ncols ltac:(lia) Hp). lia.
    + rewrite <- (Z.rem_opp_r (- idx) ncols) in * by exact Hn.
      pose proof (Z.rem_le (- idx) (- ncols) ltac:(lia) ltac:(lia)). lia.
Qed.

(* (idx - idx % ncols) / ncols = idx / ncols (truncated division) *)
Lemma getny_quot ncols idx : ncols <> 0 -> getny ncols idx = Z.quot idx ncols.
Proof.
  intros Hn. unfold getny.
  pose proof (Z.quot_rem' idx ncols) as E.
  replace (idx - Z.rem idx ncols) with (Z.quot idx ncols * ncols) by lia.
  apply Z.quot_mul. exact Hn.
Qed.

(* the quotient overflows in one case only: INT64_MIN / -1 *)
Lemma getny_range idx ncols :
  ncols <> 0 -> INT64_MIN <= idx <= INT64_MAX ->
  (idx <> INT64_MIN \/ ncols <> -1) ->
  INT64_MIN <= getny ncols idx <= INT64_MAX.
Proof.
  intros Hn Hi Hm. rewrite getny_quot by exact Hn.
  pose proof (Z.quot_abs idx ncols Hn) as HA.
  assert (HB : Z.abs idx ÷ Z.abs ncols <= Z.abs idx).
  { destruct (Z.eq_dec (Z.abs ncols) 1) as [E|NE].
    - rewrite E, Z.quot_1_r. lia.
    - destruct (Z.eq_dec idx 0) as [->|Hz]; [cbn; lia|].
      apply Z.lt_le_incl. apply Z.quot_lt; lia. }
  destruct (Z.eq_dec ncols (-1)) as [->|Hne].
  - rewrite <- (Z.quot_opp_opp idx (-1)) by lia. cbn [Z.opp]. rewrite Z.quot_1_r. lia.
  - destruct (Z.eq_dec (Z.abs ncols) 1) as [E|NE].
    + assert (ncols = 1) by lia. subst ncols. rewrite Z.quot_1_r. lia.
    + destruct (Z.eq_dec idx 0) as [->|Hz]; [rewrite Z.quot_0_l by lia; lia|].
      assert (Z.abs idx ÷ Z.abs ncols < Z.abs idx) by (apply Z.quot_lt; lia).
      lia.
Qed.


(* a valid cell number 0 <= c < nrows*ncols on a grid whose number of cells is a long
   long: everything getnxy / getcoord / c_neighbours compute from it is a long long *)
Lemma valid_cell_facts nrows ncols c :
  0 <= c < nrows * ncols -> nrows * ncols <= INT64_MAX ->
  ncols <> 0 /\
  - INT64_MAX <= nrows <= INT64_MAX /\ - INT64_MAX <= ncols <= INT64_MAX /\
  0 <= getnx ncols c <= c /\
  getnx ncols c < Z.abs ncols /\
  Z.abs (getny ncols c) <= c /\
  (0 < ncols -> 0 < nrows /\ 0 <= getny ncols c < nrows) /\
  (ncols < 0 -> nrows < 0 /\ nrows < getny ncols c <= 0).
Proof.
  intros Hc HM.
  assert (Hn : ncols <> 0) by nia.
  assert (Hr : nrows <> 0) by nia.
  rewrite getny_quot by exact Hn. unfold getnx.
  pose proof (Z.quot_rem' c ncols) as E.
  pose proof (Z.rem_nonneg c ncols Hn ltac:(lia)) as R0.
  split; [exact Hn|].
  split; [nia|]. split; [nia|].
  destruct (Z.lt_total 0 ncols) as [Hp|[Hz|Hneg]]; [|lia|].
  - pose proof (Z.rem_bound_pos c ncols ltac:(lia) Hp) as RB.
    pose proof (Z.quot_pos c ncols ltac:(lia) Hp) as Q0.
    repeat split; try lia; try nia.
  - pose proof (Z.rem_bound_pos c (- ncols) ltac:(lia) ltac:(lia)) as RB.
    rewrite Z.rem_opp_r in RB by exact Hn.
    pose proof (Z.quot_pos c (- ncols) ltac:(lia) ltac:(lia)) as Q0.
    rewrite Z.quot_opp_r in Q0 by exact Hn.
    repeat split; try lia; try nia.
Qed.


(* the else branch of a conditional may be simplified knowing that the test failed *)
Lemma if_else_eq {A} (b : bool) (x y y' : A) :
  (b = false -> y = y') -> (if b then x else y) = (if b then x else y').
Proof. destruct b; [reflexivity|]. intros H. apply H. reflexivity. Qed.

(* ================================================================== *)

Section Chk.
Context {T : Type} (N : NumOps T) (X : NumLit T).

(* ---------------- getnxy ---------------- *)

(* Size hypotheses: idxcell is a long long (idxcell - nxy[0] is then between 0 and
   idxcell); the quotient (idxcell - nxy[0]) / ncols is not INT64_MIN / -1. *)
Lemma chk_getnxy_run n ncols idx a b :
  ncols <> 0 ->
  INT64_MIN <= idx <= INT64_MAX ->
  (idx <> INT64_MIN \/ ncols <> -1) ->
  exec_fun N X program_chk (S n) "getnxy" [AVI ncols; AVI idx; AVArrI [a; b]]
  = Ok (RI 0, [VArrI [getnx ncols idx; getny ncols idx]]).
Proof.
  intros H Hi Hm.
  pose proof (sub_rem_range idx ncols H Hi) as H1.
  pose proof (getny_range idx ncols H Hi Hm) as H2. unfold getny in H2.
  cbn. zb. cbn. iw. cbn. zb. cbn. iw. cbn. reflexivity.
Qed.

(* the hypothesis on the quotient is necessary: INT64_MIN / -1 *)
Lemma overflow_getnxy_min_div_m1 n a b :
  exec_fun N X program_chk (S n) "getnxy" [AVI (-1); AVI INT64_MIN; AVArrI [a; b]]
  = Err (Overflow false 9223372036854775808).
Proof. reflexivity. Qed.


(* ---------------- c_cell2rowcol ---------------- *)

(* Size hypotheses:
   - nrows*ncols (computed in long long by  icell>=nrows*ncols) is a long long;
   - 2*i+1 for the last i = nval-1 (index into rowcols) is a long long; i++ is then
     covered (i+1 <= nval).
   No hypothesis on the cell numbers: an invalid one is only compared, a valid one
   (0 <= icell < nrows*ncols) makes getnxy's arithmetic stay between 0 and icell. *)
Theorem chk_refine_cell2rowcol nrows ncols idx junk n :
  INT64_MIN <= nrows * ncols <= INT64_MAX ->
  2 * zlen idx - 1 <= INT64_MAX ->
  List.length junk = (2 * List.length idx)%nat ->
  (List.length idx < n)%nat ->
  exec_fun N X program_chk (S n) "c_cell2rowcol"
    [AVI nrows; AVI ncols; AVI (zlen idx); AVArrI idx; AVArrI junk]
  = Ok (RI 0, [VArrI idx; VArrI (rc_out nrows ncols idx)]).
Proof.
  intros Hprod Hsz HJ Hn. rewrite zlen_eq in Hsz. cbn. norm_state.
  loop_with (@rc_inv T nrows ncols idx) (@rc_post T nrows ncols idx) (List.length idx).
  - intros k st (done & todo & jtodo & icell & a & b & Hidx & Hk & Hj & ->).
    assert (Hlen : List.length idx = (k + List.length todo)%nat)
      by (rewrite Hidx, app_length; lia).
    split; [lia|].
    unfold rc_state. cbn. rewrite zlen_eq.
    destruct todo as [|c todo].
    + (* end of the loop *)
      replace (Z.of_nat k <? Z.of_nat (List.length idx)) with false
        by (symmetry; apply Z.ltb_ge; cbn in Hlen; lia).
      cbn. exists icell, a, b. unfold rc_state. rewrite zlen_eq.
      destruct jtodo; [|discriminate]. rewrite app_nil_r in *. subst idx k. reflexivity.
    + replace (Z.of_nat k <? Z.of_nat (List.length idx)) with true
        by (symmetry; apply Z.ltb_lt; cbn in Hlen; lia).
      assert (HB : 0 <= 2 * Z.of_nat k /\ 2 * Z.of_nat k + 1 <= INT64_MAX)
        by (cbn in Hlen; lia).
      subst idx. cbn. rewrite (zget_app done todo c) by lia. mci.
      destruct jtodo as [|j0 [|j1 jtodo]]; try (cbn in Hj; lia).
      assert (HP : 2 * Z.of_nat k = Z.of_nat (List.length (rc_out nrows ncols done)))
        by (rewrite rc_out_length; lia).
      assert (HP1 : 2 * Z.of_nat k + 1 = Z.of_nat (List.length (rc_out nrows ncols done ++ [j0])))
        by (rewrite app_length, rc_out_length; cbn; lia).
      assert (Hcell : cell2rowcol nrows ncols c =
                if (c <? 0) || (nrows * ncols <=? c) then (-1, -1) else (getny ncols c, getnx ncols c)).
      { unfold cell2rowcol, valid_cell. destruct ((c <? 0) || (nrows * ncols <=? c)); reflexivity. }
      destruct ((c <? 0) || (nrows * ncols <=? c)) eqn:Hv.
      * mci. rewrite (zset_app _ (j1 :: jtodo)) by exact HP. mci.
        replace (rc_out nrows ncols done ++ -1 :: j1 :: jtodo)
          with ((rc_out nrows ncols done ++ [-1]) ++ j1 :: jtodo) by (rewrite <- app_assoc; reflexivity).
        rewrite (zset_app _ jtodo) by (rewrite app_length, rc_out_length; cbn; lia).
        mci.
        exists (done ++ [c]), todo, jtodo, c, a, b.
        split; [rewrite <- app_assoc; reflexivity|].
        split; [rewrite app_length; cbn; lia|].
        split; [cbn in Hj; lia|].
        norm_state. unfold rc_state. rewrite zlen_eq.
        rewrite rc_out_snoc, Hcell. cbn [fst snd].
        rewrite <- !app_assoc. cbn [app].
        replace (Z.of_nat k + 1) with (Z.of_nat (S k)) by lia. reflexivity.
      * assert (Hc : 0 <= c < nrows * ncols)
          by (apply orb_false_iff in Hv; destruct Hv as [H1 H2];
              apply Z.ltb_ge in H1; apply Z.leb_gt in H2; lia).
        destruct (valid_cell_facts nrows ncols c Hc ltac:(lia)) as (Hnc & _).
        cbn. destruct n as [|n']; [lia|].
        rewrite chk_getnxy_run by (assumption || lia). mci.
        replace (rc_out nrows ncols done ++ j0 :: j1 :: jtodo)
          with ((rc_out nrows ncols done ++ [j0]) ++ j1 :: jtodo) by (rewrite <- app_assoc; reflexivity).
        rewrite (zset_app _ jtodo) by exact HP1.
        mci. rewrite <- app_assoc. cbn [app].
        rewrite (zset_app _ (_ :: jtodo)) by exact HP. mci.
        exists (done ++ [c]), todo, jtodo, c, (getnx ncols c), (getny ncols c).
        split; [rewrite <- app_assoc; reflexivity|].
        split; [rewrite app_length; cbn; lia|].
        split; [cbn in Hj; lia|].
        norm_state. unfold rc_state. rewrite zlen_eq.
        rewrite rc_out_snoc, Hcell. cbn [fst snd].
        rewrite <- !app_assoc. cbn [app].
        replace (Z.of_nat k + 1) with (Z.of_nat (S k)) by lia. reflexivity.
  - exists [], idx, junk, 0, 0, 0. repeat split; try assumption.
  - lia.
  - destruct HL as (r & -> & icell & a & b & ->). cbn. reflexivity.
Qed.


(* ---------------- getcoord ---------------- *)

(* Size hypotheses: those of getnxy (idxcell a long long, not INT64_MIN / -1), and the
   two subtractions of  (double)(nrows-1-nxy[1])  stay in long long. *)
Theorem chk_refine_getcoord n nrows ncols xll yll csz idx a b rest :
  half_law N X -> ncols <> 0 ->
  INT64_MIN <= idx <= INT64_MAX ->
  (idx <> INT64_MIN \/ ncols <> -1) ->
  INT64_MIN <= nrows - 1 <= INT64_MAX ->
  INT64_MIN <= nrows - 1 - getny ncols idx <= INT64_MAX ->
  exec_fun N X program_chk (S (S n)) "getcoord"
    [AVI nrows; AVI ncols; AVF xll; AVF yll; AVF csz; AVI idx; AVArrF (a :: b :: rest)]
  = Ok (RI 0, [VArrF (fst (getcoord N nrows ncols xll yll csz idx)
                      :: snd (getcoord N nrows ncols xll yll csz idx) :: rest)]).
Proof.
  intros Hh H Hi Hm Hr1 Hr2. remember (S n) as m eqn:Hm'. cbn. subst m.
  rewrite chk_getnxy_run by assumption. mci.
  unfold half_law in Hh. rewrite Hh. reflexivity.
Qed.

(* the form used by the kernels: a valid cell number of a grid whose number of cells
   is a long long *)
Corollary chk_refine_getcoord_valid n nrows ncols xll yll csz idx a b rest :
  half_law N X ->
  0 <= idx < nrows * ncols -> nrows * ncols <= INT64_MAX ->
  exec_fun N X program_chk (S (S n)) "getcoord"
    [AVI nrows; AVI ncols; AVF xll; AVF yll; AVF csz; AVI idx; AVArrF (a :: b :: rest)]
  = Ok (RI 0, [VArrF (fst (getcoord N nrows ncols xll yll csz idx)
                      :: snd (getcoord N nrows ncols xll yll csz idx) :: rest)]).
Proof.
  intros Hh Hc HM.
  destruct (valid_cell_facts nrows ncols idx Hc HM) as (Hnc & Hr & Hcn & _ & _ & Hy & Hpos & Hneg).
  apply chk_refine_getcoord; try assumption; lia.
Qed.

(* as in the unchecked program: ncols = 0 divides by zero in getnxy *)
Lemma chk_getcoord_ncols0 n nrows xll yll csz idx coord :
  exec_fun N X program_chk (S (S n)) "getcoord"
    [AVI nrows; AVI 0; AVF xll; AVF yll; AVF csz; AVI idx; AVArrF coord]
  = Err DivZero.
Proof. reflexivity. Qed.

(* ---------------- c_cell2coord ---------------- *)

(* Size hypotheses: as c_cell2rowcol (nrows*ncols and 2*(nval-1)+1 are long long).  For a
   valid cell number they imply that nrows-1 and nrows-1-nxy[1] of getcoord are long long. *)
Theorem chk_refine_cell2coord nrows ncols xll yll csz idx junk n :
  half_law N X ->
  INT64_MIN <= nrows * ncols <= INT64_MAX ->
  2 * zlen idx - 1 <= INT64_MAX ->
  List.length junk = (2 * List.length idx)%nat ->
  (List.length idx < n)%nat ->
  exec_fun N X program_chk (S n) "c_cell2coord"
    [AVI nrows; AVI ncols; AVF xll; AVF yll; AVF csz; AVI (zlen idx); AVArrI idx; AVArrF junk]
  = Ok (RI 0, [VArrI idx; VArrF (cc_out N nrows ncols xll yll csz idx)]).
Proof.
  intros Hh Hprod Hsz HJ Hn. rewrite zlen_eq in Hsz. cbn. norm_state.
  loop_with (cc_inv N X nrows ncols xll yll csz idx) (cc_post N X nrows ncols xll yll csz idx)
            (List.length idx).
  - intros k st (done & todo & jtodo & icell & a & b & Hidx & Hk & Hj & ->).
    assert (Hlen : List.length idx = (k + List.length todo)%nat)
      by (rewrite Hidx, app_length; lia).
    split; [lia|].
    unfold cc_state. cbn. rewrite zlen_eq.
    destruct todo as [|c todo].
    + replace (Z.of_nat k <? Z.of_nat (List.length idx)) with false
        by (symmetry; apply Z.ltb_ge; cbn in Hlen; lia).
      cbn. exists icell, a, b. unfold cc_state. rewrite zlen_eq.
      destruct jtodo; [|discriminate]. rewrite app_nil_r in *. subst idx k. reflexivity.
    + replace (Z.of_nat k <? Z.of_nat (List.length idx)) with true
        by (symmetry; apply Z.ltb_lt; cbn in Hlen; lia).
      assert (HB : 0 <= 2 * Z.of_nat k /\ 2 * Z.of_nat k + 1 <= INT64_MAX)
        by (cbn in Hlen; lia).
      subst idx. cbn. rewrite (zget_app done todo c) by lia. mci.
      destruct jtodo as [|j0 [|j1 jtodo]]; try (cbn in Hj; lia).
      set (O := cc_out N nrows ncols xll yll csz done).
      assert (HP : 2 * Z.of_nat k = Z.of_nat (List.length O))
        by (unfold O; rewrite cc_out_length; lia).
      assert (HP1 : forall v, 2 * Z.of_nat k + 1 = Z.of_nat (List.length (O ++ [v])))
        by (intros v; unfold O; rewrite app_length, cc_out_length; cbn; lia).
      assert (Hcell : cell2coord N nrows ncols xll yll csz c =
                if (c <? 0) || (nrows * ncols <=? c) then (nnan N, nnan N)
                else getcoord N nrows ncols xll yll csz c).
      { unfold cell2coord, valid_cell. destruct ((c <? 0) || (nrows * ncols <=? c)); reflexivity. }
      destruct ((c <? 0) || (nrows * ncols <=? c)) eqn:Hv.
      * mci. rewrite (zset_app _ (j1 :: jtodo)) by exact HP. mci.
        replace (O ++ nnan N :: j1 :: jtodo)
          with ((O ++ [nnan N]) ++ j1 :: jtodo) by (rewrite <- app_assoc; reflexivity).
        rewrite (zset_app _ jtodo) by apply HP1.
        mci.
        exists (done ++ [c]), todo, jtodo, c, a, b.
        split; [rewrite <- app_assoc; reflexivity|].
        split; [rewrite app_length; cbn; lia|].
        split; [cbn in Hj; lia|].
        norm_state. unfold cc_state. rewrite zlen_eq.
        rewrite cc_out_snoc, Hcell. cbn [fst snd]. fold O.
        rewrite <- !app_assoc. cbn [app].
        replace (Z.of_nat k + 1) with (Z.of_nat (S k)) by lia. reflexivity.
      * assert (Hc : 0 <= c < nrows * ncols)
          by (apply orb_false_iff in Hv; destruct Hv as [H1 H2];
              apply Z.ltb_ge in H1; apply Z.leb_gt in H2; lia).
        cbn. destruct n as [|[|n']]; [lia|cbn in Hlen; lia|].
        rewrite chk_refine_getcoord_valid by (assumption || lia). mci.
        rewrite (zset_app _ (j1 :: jtodo)) by exact HP. mci.
        match goal with |- context[zset (O ++ ?v :: j1 :: jtodo)] =>
          replace (O ++ v :: j1 :: jtodo) with ((O ++ [v]) ++ j1 :: jtodo)
            by (rewrite <- app_assoc; reflexivity) end.
        rewrite (zset_app _ jtodo) by apply HP1.
        mci.
        exists (done ++ [c]), todo, jtodo, c,
               (fst (getcoord N nrows ncols xll yll csz c)),
               (snd (getcoord N nrows ncols xll yll csz c)).
        split; [rewrite <- app_assoc; reflexivity|].
        split; [rewrite app_length; cbn; lia|].
        split; [cbn in Hj; lia|].
        norm_state. unfold cc_state. rewrite zlen_eq.
        rewrite cc_out_snoc, Hcell. fold O.
        rewrite <- !app_assoc. cbn [app].
        replace (Z.of_nat k + 1) with (Z.of_nat (S k)) by lia. reflexivity.
  - exists [], idx, junk, 0, (n0 N), (n0 N). repeat split; try assumption.
  - lia.
  - destruct HL as (r & -> & icell & a & b & ->). cbn. reflexivity.
Qed.


(* ---------------- c_coord2cell ---------------- *)

Section Coord2cell.
Variable cmax : Z.
Variable FL : floor_laws N X cmax.
Notation flo := (fl N X cmax FL).

(* Size hypotheses:
   - the largest cell number nrows*ncols-1 is a long long (ny*ncols+nx is computed for
     0 <= nx < ncols, 0 <= ny < nrows only: the double tests come first);
   - 2*i+1 for the last i = nval-1 (index into xycoords) is a long long; covers i++.
   nrows-1 and nrows-1-(long long)fy are computed only when 0 <= fy < nrows. *)
Theorem chk_refine_coord2cell nrows ncols xll yll csz pts junk n :
  nrows <= cmax -> ncols <= cmax ->
  nrows * ncols - 1 <= INT64_MAX ->
  2 * zlen pts - 1 <= INT64_MAX ->
  List.length junk = List.length pts ->
  (List.length pts < n)%nat ->
  exec_fun N X program_chk (S n) "c_coord2cell"
    [AVI nrows; AVI ncols; AVF xll; AVF yll; AVF csz; AVI (zlen pts);
     AVArrF (flat_xy pts); AVArrI junk]
  = Ok (RI 0, [VArrF (flat_xy pts);
               VArrI (map (coord2cell N nrows ncols xll yll csz) pts)]).
Proof.
  intros Hr Hc Hprod Hsz HJ Hn. rewrite zlen_eq in Hsz. cbn. norm_state.
  loop_with (c2_inv N nrows ncols xll yll csz pts) (c2_post N nrows ncols xll yll csz pts)
            (List.length pts).
  - intros k st (done & todo & jtodo & nx & ny & fx & fy & Hpts & Hk & Hj & ->).
    assert (Hlen : List.length pts = (k + List.length todo)%nat)
      by (rewrite Hpts, app_length; lia).
    split; [lia|].
    unfold c2_state. cbn. rewrite zlen_eq.
    destruct todo as [|[x y] todo].
    + replace (Z.of_nat k <? Z.of_nat (List.length pts)) with false
        by (symmetry; apply Z.ltb_ge; cbn in Hlen; lia).
      cbn. exists nx, ny, fx, fy. unfold c2_state. rewrite zlen_eq.
      destruct jtodo; [|discriminate]. rewrite app_nil_r in *. subst pts k. reflexivity.
    + replace (Z.of_nat k <? Z.of_nat (List.length pts)) with true
        by (symmetry; apply Z.ltb_lt; cbn in Hlen; lia).
      assert (HB : 0 <= 2 * Z.of_nat k /\ 2 * Z.of_nat k + 1 <= INT64_MAX)
        by (cbn in Hlen; lia).
      destruct jtodo as [|j0 jtodo]; [cbn in Hj; lia|].
      set (F := flat_xy pts) in *.
      assert (HF : F = flat_xy done ++ x :: y :: flat_xy todo)
        by (unfold F; rewrite Hpts, flat_xy_app; reflexivity).
      assert (HP : 2 * Z.of_nat k = Z.of_nat (List.length (flat_xy done)))
        by (rewrite flat_xy_length; lia).
      set (O := map (coord2cell N nrows ncols xll yll csz) done).
      assert (HO : Z.of_nat k = Z.of_nat (List.length O))
        by (unfold O; rewrite map_length; lia).
      mci.
      replace (zget F (2 * Z.of_nat k)) with (Some x)
        by (rewrite HF; symmetry; apply zget_app; exact HP).
      cbn. rewrite (fl_next N X cmax FL). mci.
      replace (zget F (2 * Z.of_nat k + 1)) with (Some y)
        by (rewrite HF, (zget_app_off _ _ _ 1) by lia; reflexivity).
      cbn. rewrite (fl_next N X cmax FL). mci.
      set (qx := ndiv N (nsub N x xll) csz). set (qy := ndiv N (nsub N y yll) csz).
      fold (c2c_test N X cmax FL nrows ncols qx qy). norm_state.
      pose proof (c2c_cases N X cmax FL nrows ncols xll yll csz x y Hr Hc) as Hcases.
      cbv zeta in Hcases. fold qx qy in Hcases.
      destruct Hcases as [(Ht & zx & zy & Htx & Hty & Hwx & Hwy & Hzx & Hzy & Hcc)|(Ht & Hcc)];
        rewrite Ht; cbn [negb].
      * assert (HM0 : nrows - 1 <= INT64_MAX) by nia.
        assert (HM1 : 0 <= (nrows - 1 - zy) * ncols) by nia.
        assert (HM2 : (nrows - 1 - zy) * ncols + zx <= nrows * ncols - 1) by nia.
        cbn. norm_state_c. rewrite Htx. mci. zb. cbn. norm_state_c. rewrite Hty. mci. zb. mci.
        norm_state_c. zb. mci.
        rewrite (zset_app O jtodo j0) by exact HO. mci. norm_state_c.
        exists (done ++ [(x, y)]), todo, jtodo, zx, (nrows - 1 - zy), (flo qx), (flo qy).
        split; [rewrite Hpts, <- app_assoc; reflexivity|].
        split; [rewrite app_length; cbn; lia|].
        split; [cbn in Hj; lia|].
        unfold c2_state. rewrite zlen_eq. fold F.
        rewrite map_app. cbn [map]. rewrite Hcc. fold O.
        rewrite <- app_assoc. cbn [app].
        replace (Z.of_nat k + 1) with (Z.of_nat (S k)) by lia. reflexivity.
      * mci. rewrite (zset_app O jtodo j0) by exact HO. mci. norm_state_c.
        exists (done ++ [(x, y)]), todo, jtodo, nx, ny, (flo qx), (flo qy).
        split; [rewrite Hpts, <- app_assoc; reflexivity|].
        split; [rewrite app_length; cbn; lia|].
        split; [cbn in Hj; lia|].
        unfold c2_state. rewrite zlen_eq. fold F.
        rewrite map_app. cbn [map]. rewrite Hcc. fold O.
        rewrite <- app_assoc. cbn [app].
        replace (Z.of_nat k + 1) with (Z.of_nat (S k)) by lia. reflexivity.
  - exists [], pts, junk, 0, 0, (nofZ N 0), (nofZ N 0). repeat split; try assumption.
  - lia.
  - destruct HL as (r & -> & nx & ny & fx & fy & ->). cbn. reflexivity.
Qed.

(* the same theorem on the raw buffers, as the wrapper passes them *)
Theorem chk_refine_coord2cell_raw nrows ncols xll yll csz xy junk n :
  nrows <= cmax -> ncols <= cmax ->
  nrows * ncols - 1 <= INT64_MAX ->
  2 * zlen junk - 1 <= INT64_MAX ->
  List.length xy = (2 * List.length junk)%nat ->
  (List.length junk < n)%nat ->
  exec_fun N X program_chk (S n) "c_coord2cell"
    [AVI nrows; AVI ncols; AVF xll; AVF yll; AVF csz; AVI (zlen junk); AVArrF xy; AVArrI junk]
  = Ok (RI 0, [VArrF xy; VArrI (map (coord2cell N nrows ncols xll yll csz) (pairs xy))]).
Proof.
  intros Hr Hc Hprod Hsz HL Hn. destruct (flat_xy_pairs (List.length junk) xy HL) as [E L].
  assert (Hn' : (List.length (pairs xy) < n)%nat) by (rewrite L; exact Hn).
  assert (Hsz' : 2 * zlen (pairs xy) - 1 <= INT64_MAX)
    by (rewrite zlen_eq, L, <- zlen_eq; exact Hsz).
  pose proof (chk_refine_coord2cell nrows ncols xll yll csz (pairs xy) junk n Hr Hc Hprod Hsz'
                (eq_sym L) Hn') as H.
  rewrite E in H. rewrite (zlen_eq (pairs xy)), L, <- zlen_eq in H. exact H.
Qed.

(* the wrapper finding of RefineGridGeom.v is unchanged in the checked program *)
Lemma chk_coord2cell_short_buffer_oob nrows ncols xll yll csz x j n :
  (0 < n)%nat ->
  exec_fun N X program_chk (S n) "c_coord2cell"
    [AVI nrows; AVI ncols; AVF xll; AVF yll; AVF csz; AVI 1; AVArrF [x]; AVArrI [j]]
  = Err (OOB "xycoords" 1).
Proof.
  intros Hn. cbn. norm_state. rewrite loop_step by lia. mci.
  rewrite (fl_next N X cmax FL). mci. reflexivity.
Qed.

End Coord2cell.


(* ---------------- c_neighbours ---------------- *)

Lemma chk_getnxy_run' n ncols idx a b :
  (0 < n)%nat -> ncols <> 0 ->
  INT64_MIN <= idx <= INT64_MAX ->
  (idx <> INT64_MIN \/ ncols <> -1) ->
  exec_fun N X program_chk n "getnxy" [AVI ncols; AVI idx; AVArrI [a; b]]
  = Ok (RI 0, [VArrI [getnx ncols idx; getny ncols idx]]).
Proof. intros Hn H Hi Hm. destruct n as [|n]; [lia|]. apply chk_getnxy_run; assumption. Qed.

(* body and step of the inner loop (over ix), copied from c_neighbours_chk_def *)
Notation nbc_inner_body :=
  (SSeq (SSetI "k" (IChk W64 (IBin IAdd (IChk W64 (IBin IAdd (IConst 1) (IVar "ix")))
                     (IChk W64 (IBin IMul (IChk W64 (IBin IAdd (IConst 1) (IVar "iy"))) (IConst 3))))))
  (SSeq (SIf (IAnd (ICmp CEq (IVar "ix") (IConst 0)) (ICmp CEq (IVar "iy") (IConst 0)))
             (SSeq (SStoreI "neighbours" (IVar "k") (IChk W32 (IUn INeg (IConst 1)))) SContinue) SSkip)
  (SSeq (SSetI "nx" (IChk W64 (IBin IAdd (IVar "nx0") (IVar "ix"))))
  (SSeq (SSetI "ny" (IChk W64 (IBin IAdd (IVar "ny0") (IVar "iy"))))
        (SIf (IOr (IOr (IOr (ICmp CLt (IVar "nx") (IConst 0))
                            (ICmp CGt (IVar "nx") (IChk W64 (IBin ISub (IVar "ncols") (IConst 1)))))
                       (ICmp CLt (IVar "ny") (IConst 0)))
                  (ICmp CGt (IVar "ny") (IChk W64 (IBin ISub (IVar "nrows") (IConst 1)))))
             (SStoreI "neighbours" (IVar "k") (IChk W32 (IUn INeg (IConst 1))))
             (SStoreI "neighbours" (IVar "k")
                (IChk W64 (IBin IAdd (IChk W64 (IBin IMul (IVar "ny") (IVar "ncols")))
                                     (IVar "nx"))))))))) (only parsing).

Notation nbc_inner_step :=
  (SSetI "ix" (IChk W64 (IBin IAdd (IVar "ix") (IConst 1)))) (only parsing).

Notation nb_state nrows ncols idx ix iy nx0 nx ny0 ny k nbl nxy :=
  (@mkState T
     [("nrows", nrows); ("ncols", ncols); ("idxcell", idx); ("ix", ix); ("iy", iy);
      ("nx0", nx0); ("nx", nx); ("ny0", ny0); ("ny", ny); ("k", k)]
     []
     [("neighbours", nbl); ("nxy", nxy)]
     []) (only parsing).

(* one iteration: the off-grid test stays symbolic and is case-split (the overflow checks
   of ny*ncols+nx are discharged in the on-grid branch only) *)
Ltac iwn1 :=
  match goal with
  | |- context[in_width W64 ?e] =>
      replace (in_width W64 e) with true by (symmetry; apply in_width_W64; nia)
  end.

Ltac nbc_iter Hprod :=
  rewrite loop_step by lia; mci; norm_state;
  try (match goal with
       | |- context[if ?b then Ok (ONormal, ?A) else ?E] =>
           erewrite (if_else_eq b (Ok (ONormal, A)) E);
           [ | let HB := fresh "HB" in
               intros HB;
               repeat (apply orb_false_iff in HB; let H2 := fresh "HB" in destruct HB as [HB H2]);
               repeat match goal with
                      | H : (_ <? _) = false |- _ => apply Z.ltb_ge in H
                      end;
               let Hp := fresh "Hp" in
               match type of Hprod with
               | _ -> _ -> ?P => assert (Hp : P) by (apply Hprod; lia)
               end;
               repeat (progress (mci; repeat iwn1)); norm_state; reflexivity ]
       end;
       merge_if_t; mci; norm_state).

Lemma nbc_inner_run (callf : callee T) (f g : nat) nrows ncols idx iy nx0 ny0 nx ny k nxy
      a0 a1 a2 a3 a4 a5 a6 a7 a8 :
  iy = -1 \/ iy = 0 \/ iy = 1 -> (3 < f)%nat ->
  INT64_MIN <= nx0 - 1 -> nx0 + 1 <= INT64_MAX ->
  INT64_MIN <= ny0 - 1 -> ny0 + 1 <= INT64_MAX ->
  INT64_MIN <= ncols - 1 <= INT64_MAX ->
  INT64_MIN <= nrows - 1 <= INT64_MAX ->
  (0 < nrows -> 0 < ncols -> nrows * ncols - 1 <= INT64_MAX) ->
  loop f (cond_of N X (ICmp CLt (IVar "ix") (IConst 2)))
    (for_body (exec N X callf g nbc_inner_body) (exec N X callf g nbc_inner_step))
    (nb_state nrows ncols idx (-1) iy nx0 nx ny0 ny k [a0; a1; a2; a3; a4; a5; a6; a7; a8] nxy)
  = Ok (ONormal,
        nb_state nrows ncols idx 2 iy nx0 (nx0 + 1) ny0 (ny0 + iy) (1 + 1 + (1 + iy) * 3)
          (row_upd nrows ncols nx0 ny0 iy [a0; a1; a2; a3; a4; a5; a6; a7; a8]) nxy).
Proof.
  intros Hiy Hf Hx1 Hx2 Hy1 Hy2 Hc1 Hr1 Hprod.
  unfold row_upd, neighbour_at.
  destruct Hiy as [ Hiy | [ Hiy | Hiy ] ]; subst iy; cbn [map Z.eqb andb app].
  - nbc_iter Hprod. nbc_iter Hprod. nbc_iter Hprod. nbc_iter Hprod. reflexivity.
  - nbc_iter Hprod. nbc_iter Hprod. nbc_iter Hprod. nbc_iter Hprod. reflexivity.
  - nbc_iter Hprod. nbc_iter Hprod. nbc_iter Hprod. nbc_iter Hprod. reflexivity.
Qed.


(* Size hypothesis: the number of cells nrows*ncols (computed in long long by the
   validity test) is a long long.  For a valid cell number it implies that everything
   else the kernel computes (getnxy, nx0+ix, ny0+iy, ncols-1, nrows-1, ny*ncols+nx for
   an on-grid neighbour) is a long long. *)
Theorem chk_refine_neighbours_ok nrows ncols idx nb n :
  nrows * ncols <= INT64_MAX ->
  List.length nb = 9%nat ->
  valid_cell nrows ncols idx = true ->
  (3 < n)%nat ->
  exec_fun N X program_chk (S n) "c_neighbours" [AVI nrows; AVI ncols; AVI idx; AVArrI nb]
  = Ok (RI 0, [VArrI (neighbours_raw nrows ncols idx)]).
Proof.
  intros HM HL Hv Hn.
  do 10 (destruct nb as [|? nb]; try discriminate HL).
  unfold valid_cell in Hv. apply negb_true_iff in Hv.
  assert (Hc : 0 <= idx < nrows * ncols)
    by (apply orb_false_iff in Hv; destruct Hv as [H1 H2];
        apply Z.ltb_ge in H1; apply Z.leb_gt in H2; lia).
  destruct (valid_cell_facts nrows ncols idx Hc HM)
    as (Hnc & Hr & Hcn & Hx & Hxa & Hy & Hpos & Hneg).
  remember (neighbours_raw nrows ncols idx) as R eqn:HR.
  cbn. iw. cbn. rewrite ?truth_b2z, ?b2z_truth_b2z, ?or_ok. rewrite Hv. cbn.
  rewrite chk_getnxy_run' by (assumption || lia). cbn [bind snd fst]. norm_state. mci. norm_state.
  rewrite loop_step by lia. mci. norm_state.
  rewrite nbc_inner_run by lia. unfold row_upd. mci.
  rewrite loop_step by lia. mci. norm_state.
  rewrite nbc_inner_run by lia. unfold row_upd. mci.
  rewrite loop_step by lia. mci. norm_state.
  rewrite nbc_inner_run by lia. unfold row_upd. mci.
  rewrite loop_step by lia. mci. norm_state.
  subst R. reflexivity.
Qed.

(* invalid cell number: error return (the code depends on __LINE__), buffer untouched.
   The product nrows*ncols is computed only when idxcell >= 0 (lazy ||). *)
Theorem chk_refine_neighbours_err nrows ncols idx nb n :
  (idx < 0 \/ INT64_MIN <= nrows * ncols <= INT64_MAX) ->
  valid_cell nrows ncols idx = false ->
  exists code, 0 < code /\
    exec_fun N X program_chk (S n) "c_neighbours" [AVI nrows; AVI ncols; AVI idx; AVArrI nb]
    = Ok (RI code, [VArrI nb]).
Proof.
  intros HM Hv. unfold valid_cell in Hv. apply negb_false_iff in Hv.
  destruct HM as [HM|HM].
  - cbn. replace (idx <? 0) with true by (symmetry; apply Z.ltb_lt; lia). cbn.
    eexists. split; [|reflexivity]. lia.
  - cbn. iw. cbn. rewrite ?truth_b2z, ?b2z_truth_b2z, ?or_ok. rewrite Hv. cbn.
    eexists. split; [|reflexivity]. lia.
Qed.

Theorem chk_refine_neighbours nrows ncols idx nb n :
  INT64_MIN <= nrows * ncols <= INT64_MAX ->
  List.length nb = 9%nat ->
  (3 < n)%nat ->
  match neighbours nrows ncols idx with
  | Some l =>
      exec_fun N X program_chk (S n) "c_neighbours" [AVI nrows; AVI ncols; AVI idx; AVArrI nb]
      = Ok (RI 0, [VArrI l])
  | None =>
      exists code, 0 < code /\
        exec_fun N X program_chk (S n) "c_neighbours" [AVI nrows; AVI ncols; AVI idx; AVArrI nb]
        = Ok (RI code, [VArrI nb])
  end.
Proof.
  intros HM HL Hn. unfold neighbours. destruct (valid_cell nrows ncols idx) eqn:Hv.
  - apply chk_refine_neighbours_ok; try assumption; lia.
  - apply chk_refine_neighbours_err; [right|]; assumption.
Qed.

End Chk.

(* ================================================================== *)
(* Necessity of the size hypotheses: inputs on which the checked program *)
(* stops with [Overflow] (signed overflow = undefined behaviour in C).   *)
(* They need a grid of 2^64 cells: admissible for the C prototype (two   *)
(* long long), not a realistic grid.                                     *)
(* ================================================================== *)

Definition two32 : Z := 4294967296.

Section Witness.
Context {T : Type} (N : NumOps T) (X : NumLit T).

(* icell >= nrows*ncols with nrows = ncols = 2^32 *)
Lemma overflow_cell2rowcol_ncells n a b :
  exec_fun N X program_chk (S (S n)) "c_cell2rowcol"
    [AVI two32; AVI two32; AVI 1; AVArrI [0]; AVArrI [a; b]]
  = Err (Overflow false 18446744073709551616).
Proof. reflexivity. Qed.

Lemma overflow_cell2coord_ncells n xll yll csz a b :
  exec_fun N X program_chk (S (S n)) "c_cell2coord"
    [AVI two32; AVI two32; AVF xll; AVF yll; AVF csz; AVI 1; AVArrI [0]; AVArrF [a; b]]
  = Err (Overflow false 18446744073709551616).
Proof. reflexivity. Qed.

Lemma overflow_neighbours_ncells n nb :
  exec_fun N X program_chk (S n) "c_neighbours" [AVI two32; AVI two32; AVI 0; AVArrI nb]
  = Err (Overflow false 18446744073709551616).
Proof. reflexivity. Qed.

End Witness.

(* c_coord2cell, binary64: the point (0.5, 0.5) of a 2^32 x 2^32 grid of cell size 1
   lies in the bottom row, ny = nrows-1, and ny*ncols = 2^64 - 2^32 *)
Lemma overflow_coord2cell_ncells j :
  exec_fun F64 XF64 program_chk 3 "c_coord2cell"
    [AVI two32; AVI two32; AVF 0%float; AVF 0%float; AVF 1%float; AVI 1;
     AVArrF [0.5%float; 0.5%float]; AVArrI [j]]
  = Err (Overflow false 18446744069414584320).
Proof. vm_compute. reflexivity. Qed.

(* ================================================================== *)
(* Instances (as in RefineGridGeom.v)                                   *)
(* ================================================================== *)

Theorem chk_refine_cell2coord_RR nrows ncols (xll yll csz : R) idx junk n :
  INT64_MIN <= nrows * ncols <= INT64_MAX ->
  2 * zlen idx - 1 <= INT64_MAX ->
  List.length junk = (2 * List.length idx)%nat ->
  (List.length idx < n)%nat ->
  exec_fun RR XRR program_chk (S n) "c_cell2coord"
    [AVI nrows; AVI ncols; AVF xll; AVF yll; AVF csz; AVI (zlen idx); AVArrI idx; AVArrF junk]
  = Ok (RI 0, [VArrI idx; VArrF (cc_out RR nrows ncols xll yll csz idx)]).
Proof. apply chk_refine_cell2coord. exact half_law_RR. Qed.

Theorem chk_refine_cell2coord_RN nrows ncols (xll yll csz : option R) idx junk n :
  INT64_MIN <= nrows * ncols <= INT64_MAX ->
  2 * zlen idx - 1 <= INT64_MAX ->
  List.length junk = (2 * List.length idx)%nat ->
  (List.length idx < n)%nat ->
  exec_fun RN XRN program_chk (S n) "c_cell2coord"
    [AVI nrows; AVI ncols; AVF xll; AVF yll; AVF csz; AVI (zlen idx); AVArrI idx; AVArrF junk]
  = Ok (RI 0, [VArrI idx; VArrF (cc_out RN nrows ncols xll yll csz idx)]).
Proof. apply chk_refine_cell2coord. exact half_law_RN. Qed.

Theorem chk_refine_cell2coord_F64 nrows ncols (xll yll csz : float) idx junk n :
  INT64_MIN <= nrows * ncols <= INT64_MAX ->
  2 * zlen idx - 1 <= INT64_MAX ->
  List.length junk = (2 * List.length idx)%nat ->
  (List.length idx < n)%nat ->
  exec_fun F64 XF64 program_chk (S n) "c_cell2coord"
    [AVI nrows; AVI ncols; AVF xll; AVF yll; AVF csz; AVI (zlen idx); AVArrI idx; AVArrF junk]
  = Ok (RI 0, [VArrI idx; VArrF (cc_out F64 nrows ncols xll yll csz idx)]).
Proof. apply chk_refine_cell2coord. exact half_law_F64. Qed.

Theorem chk_refine_coord2cell_RR nrows ncols (xll yll csz : R) pts junk n :
  nrows <= cmax64 -> ncols <= cmax64 ->
  nrows * ncols - 1 <= INT64_MAX ->
  2 * zlen pts - 1 <= INT64_MAX ->
  List.length junk = List.length pts ->
  (List.length pts < n)%nat ->
  exec_fun RR XRR program_chk (S n) "c_coord2cell"
    [AVI nrows; AVI ncols; AVF xll; AVF yll; AVF csz; AVI (zlen pts);
     AVArrF (flat_xy pts); AVArrI junk]
  = Ok (RI 0, [VArrF (flat_xy pts);
               VArrI (map (coord2cell RR nrows ncols xll yll csz) pts)]).
Proof. apply (chk_refine_coord2cell RR XRR cmax64 floor_laws_RR). Qed.

Theorem chk_refine_coord2cell_RN nrows ncols (xll yll csz : option R) pts junk n :
  nrows <= cmax64 -> ncols <= cmax64 ->
  nrows * ncols - 1 <= INT64_MAX ->
  2 * zlen pts - 1 <= INT64_MAX ->
  List.length junk = List.length pts ->
  (List.length pts < n)%nat ->
  exec_fun RN XRN program_chk (S n) "c_coord2cell"
    [AVI nrows; AVI ncols; AVF xll; AVF yll; AVF csz; AVI (zlen pts);
     AVArrF (flat_xy pts); AVArrI junk]
  = Ok (RI 0, [VArrF (flat_xy pts);
               VArrI (map (coord2cell RN nrows ncols xll yll csz) pts)]).
Proof. apply (chk_refine_coord2cell RN XRN cmax64 floor_laws_RN). Qed.

Theorem chk_refine_coord2cell_raw_RR nrows ncols (xll yll csz : R) xy junk n :
  nrows <= cmax64 -> ncols <= cmax64 ->
  nrows * ncols - 1 <= INT64_MAX ->
  2 * zlen junk - 1 <= INT64_MAX ->
  List.length xy = (2 * List.length junk)%nat ->
  (List.length junk < n)%nat ->
  exec_fun RR XRR program_chk (S n) "c_coord2cell"
    [AVI nrows; AVI ncols; AVF xll; AVF yll; AVF csz; AVI (zlen junk); AVArrF xy; AVArrI junk]
  = Ok (RI 0, [VArrF xy; VArrI (map (coord2cell RR nrows ncols xll yll csz) (pairs xy))]).
Proof. apply (chk_refine_coord2cell_raw RR XRR cmax64 floor_laws_RR). Qed.

Theorem chk_refine_coord2cell_raw_RN nrows ncols (xll yll csz : option R) xy junk n :
  nrows <= cmax64 -> ncols <= cmax64 ->
  nrows * ncols - 1 <= INT64_MAX ->
  2 * zlen junk - 1 <= INT64_MAX ->
  List.length xy = (2 * List.length junk)%nat ->
  (List.length junk < n)%nat ->
  exec_fun RN XRN program_chk (S n) "c_coord2cell"
    [AVI nrows; AVI ncols; AVF xll; AVF yll; AVF csz; AVI (zlen junk); AVArrF xy; AVArrI junk]
  = Ok (RI 0, [VArrF xy; VArrI (map (coord2cell RN nrows ncols xll yll csz) (pairs xy))]).
Proof. apply (chk_refine_coord2cell_raw RN XRN cmax64 floor_laws_RN). Qed.
