(* Equality between the hand-written model of stat/transform.py (Model/Transform.v)
   and the definitions REGENERATED from the Python source by harness/pytrans.py
   (Gen/PyGen.v), for ALL arguments.  A semantic edit of a formula in transform.py
   changes Gen/PyGen.v and breaks the corresponding proof below; an edit the
   translator normalises away, or that conversion / ring / lra bridges, does not.

   Shape of the statements:
     gen_<Class>_fwd <ctor args> <params> <constants> x = <model>_fwd ... x
   (the generated definitions take every constructor argument, parameter and
   constant of the class, in the order of the source; the model functions take
   the ones they use).  Where the code builds its result in a NaN-initialised
   array (Yeo-Johnson: `y = x*np.nan; y[mask] = ...`) the generated definition has
   type option R and the theorem says it is `Some (model ...)` - i.e. that every
   element IS assigned.  Softmax is generated for one row; `all_rows` lifts a row
   function to the 2-D array exactly as the code's np.any over the whole array
   does. *)
From Coq Require Import Reals List Bool Lra.
From Coquelicot Require Import Rbar.
From Hy Require Import Base.Num Gen.ConstsC01 Model.Transform Gen.PyGen Proofs.TransformProofs.
Import ListNotations.
Open Scope R_scope.

(* ------------------------------------------------------------------ *)
(* tactics                                                              *)

Lemma gen_EPS_eq : gen_EPS = EPS.
Proof. reflexivity. Qed.

Ltac py_norm :=
  cbv beta iota zeta; cbn [negb andb orb olift1 olift2 ocmp]; rewrite ?gen_EPS_eq.

(* case analysis on every branch test (the same test on both sides is decided once) *)
Ltac py_case :=
  repeat (py_norm;
    match goal with
    | |- context [Rltb ?a ?b] => destruct (Rltb a b) eqn:?
    | |- context [Rleb ?a ?b] => destruct (Rleb a b) eqn:?
    | |- context [Reqb ?a ?b] => destruct (Reqb a b) eqn:?
    | |- context [isclose ?a ?b] => destruct (isclose a b) eqn:?
    end);
  py_norm.

(* a leaf: syntactic identity up to conversion, else ring / lra under the
   constructors and functions applied on both sides *)
Ltac py_leaf n :=
  first [ reflexivity | ring | lra
        | match n with S ?m => f_equal; py_leaf m end ].

Ltac py_eq := py_case; py_leaf 4%nat.

(* ------------------------------------------------------------------ *)
(* Identity                                                             *)
Lemma pygen_Identity_fwd x : gen_Identity_fwd x = id_fwd x.
Proof. unfold gen_Identity_fwd, id_fwd. py_eq. Qed.
Lemma pygen_Identity_bwd y : gen_Identity_bwd y = id_bwd y.
Proof. unfold gen_Identity_bwd, id_bwd. py_eq. Qed.
Lemma pygen_Identity_jac x : gen_Identity_jac x = id_jac x.
Proof. unfold gen_Identity_jac, id_jac. py_eq. Qed.

(* ------------------------------------------------------------------ *)
(* Logit                                                                *)
Lemma pygen_Logit_fwd lower logdelta x :
  gen_Logit_fwd lower logdelta x = logit_fwd lower logdelta x.
Proof. unfold gen_Logit_fwd, logit_fwd. py_eq. Qed.
Lemma pygen_Logit_bwd lower logdelta y :
  gen_Logit_bwd lower logdelta y = logit_bwd lower logdelta y.
Proof. unfold gen_Logit_bwd, logit_bwd. py_eq. Qed.
Lemma pygen_Logit_jac lower logdelta x :
  gen_Logit_jac lower logdelta x = logit_jac lower logdelta x.
Proof. unfold gen_Logit_jac, logit_jac. py_eq. Qed.

(* ------------------------------------------------------------------ *)
(* Log : self.basefactor is expanded through __init__                    *)
Lemma pygen_Log_fwd mininu base nu x :
  gen_Log_fwd mininu base nu x = log_fwd (log_basefactor base) nu x.
Proof. unfold gen_Log_fwd, log_fwd, log_basefactor. destruct base; py_eq. Qed.
Lemma pygen_Log_bwd mininu base nu y :
  gen_Log_bwd mininu base nu y = log_bwd (log_basefactor base) nu y.
Proof. unfold gen_Log_bwd, log_bwd, log_basefactor. destruct base; py_eq. Qed.
Lemma pygen_Log_jac mininu base nu x :
  gen_Log_jac mininu base nu x = log_jac mininu (log_basefactor base) nu x.
Proof. unfold gen_Log_jac, log_jac, log_basefactor. destruct base; py_eq. Qed.

(* ------------------------------------------------------------------ *)
(* BoxCox2                                                              *)
Lemma pygen_BoxCox2_fwd mininu minilam nu lam x :
  gen_BoxCox2_fwd mininu minilam nu lam x = bc2_fwd nu lam x.
Proof. unfold gen_BoxCox2_fwd, bc2_fwd. py_eq. Qed.
Lemma pygen_BoxCox2_bwd mininu minilam nu lam y :
  gen_BoxCox2_bwd mininu minilam nu lam y = bc2_bwd nu lam y.
Proof. unfold gen_BoxCox2_bwd, bc2_bwd. py_eq. Qed.
Lemma pygen_BoxCox2_jac mininu minilam nu lam x :
  gen_BoxCox2_jac mininu minilam nu lam x = bc2_jac mininu nu lam x.
Proof. unfold gen_BoxCox2_jac, bc2_jac. py_eq. Qed.

(* ------------------------------------------------------------------ *)
(* BoxCox1lam, BoxCox1nu, BoxCox2sym : delegation to the inner BoxCox2 whose
   parameters are re-set (and clipped by Vector.values) on every call        *)
Ltac py_deleg :=
  rewrite ?pygen_BoxCox2_fwd, ?pygen_BoxCox2_bwd, ?pygen_BoxCox2_jac;
  unfold bc2_sync_nu, bc2_sync_lam; py_norm; py_leaf 4%nat.

Lemma pygen_BoxCox1lam_fwd mininu minilam nu lam x :
  gen_BoxCox1lam_fwd mininu minilam lam nu x = bc1lam_fwd mininu minilam nu lam x.
Proof. unfold gen_BoxCox1lam_fwd, bc1lam_fwd. py_deleg. Qed.
Lemma pygen_BoxCox1lam_bwd mininu minilam nu lam y :
  gen_BoxCox1lam_bwd mininu minilam lam nu y = bc1lam_bwd mininu minilam nu lam y.
Proof. unfold gen_BoxCox1lam_bwd, bc1lam_bwd. py_deleg. Qed.
Lemma pygen_BoxCox1lam_jac mininu minilam nu lam x :
  gen_BoxCox1lam_jac mininu minilam lam nu x = bc1lam_jac mininu minilam nu lam x.
Proof. unfold gen_BoxCox1lam_jac, bc1lam_jac. py_deleg. Qed.

Lemma pygen_BoxCox1nu_fwd mininu minilam nu lam x :
  gen_BoxCox1nu_fwd mininu minilam nu lam x = bc1nu_fwd mininu minilam nu lam x.
Proof. unfold gen_BoxCox1nu_fwd, bc1nu_fwd. py_deleg. Qed.
Lemma pygen_BoxCox1nu_bwd mininu minilam nu lam y :
  gen_BoxCox1nu_bwd mininu minilam nu lam y = bc1nu_bwd mininu minilam nu lam y.
Proof. unfold gen_BoxCox1nu_bwd, bc1nu_bwd. py_deleg. Qed.
Lemma pygen_BoxCox1nu_jac mininu minilam nu lam x :
  gen_BoxCox1nu_jac mininu minilam nu lam x = bc1nu_jac mininu minilam nu lam x.
Proof. unfold gen_BoxCox1nu_jac, bc1nu_jac. py_deleg. Qed.

Lemma pygen_BoxCox2sym_fwd mininu minilam nu lam x :
  gen_BoxCox2sym_fwd mininu minilam nu lam x = bc2sym_fwd mininu minilam nu lam x.
Proof. unfold gen_BoxCox2sym_fwd, bc2sym_fwd. py_deleg. Qed.
Lemma pygen_BoxCox2sym_bwd mininu minilam nu lam y :
  gen_BoxCox2sym_bwd mininu minilam nu lam y = bc2sym_bwd mininu minilam nu lam y.
Proof. unfold gen_BoxCox2sym_bwd, bc2sym_bwd. py_deleg. Qed.
Lemma pygen_BoxCox2sym_jac mininu minilam nu lam x :
  gen_BoxCox2sym_jac mininu minilam nu lam x = bc2sym_jac mininu minilam nu lam x.
Proof. unfold gen_BoxCox2sym_jac, bc2sym_jac. py_deleg. Qed.

(* ------------------------------------------------------------------ *)
(* YeoJohnson : the code fills a NaN-initialised array under masks; the
   generated definitions have type option R and are always `Some`          *)
Lemma pygen_YeoJohnson_fwd nu scale lam x :
  gen_YeoJohnson_fwd nu scale lam x = Some (yj_fwd nu scale lam x).
Proof. unfold gen_YeoJohnson_fwd, yj_fwd, yj_fwd_w, yj_w. py_eq. Qed.
Lemma pygen_YeoJohnson_bwd nu scale lam y :
  gen_YeoJohnson_bwd nu scale lam y = Some (yj_bwd nu scale lam y).
Proof. unfold gen_YeoJohnson_bwd, yj_bwd, yj_bwd_w. py_eq. Qed.
Lemma pygen_YeoJohnson_jac nu scale lam x :
  gen_YeoJohnson_jac nu scale lam x = Some (yj_jac nu scale lam x).
Proof. unfold gen_YeoJohnson_jac, yj_jac, yj_jac_w, yj_w. py_eq. Qed.

(* ------------------------------------------------------------------ *)
(* LogSinh                                                              *)
Lemma pygen_LogSinh_fwd loga logb xmax x :
  gen_LogSinh_fwd loga logb xmax x = logsinh_fwd loga logb xmax x.
Proof. unfold gen_LogSinh_fwd, logsinh_fwd. py_eq. Qed.
Lemma pygen_LogSinh_bwd loga logb xmax y :
  gen_LogSinh_bwd loga logb xmax y = logsinh_bwd loga logb xmax y.
Proof. unfold gen_LogSinh_bwd, logsinh_bwd. py_eq. Qed.
Lemma pygen_LogSinh_jac loga logb xmax x :
  gen_LogSinh_jac loga logb xmax x = logsinh_jac loga logb xmax x.
Proof. unfold gen_LogSinh_jac, logsinh_jac. py_eq. Qed.

(* ------------------------------------------------------------------ *)
(* Reciprocal (repaired backward guard y < 0)                           *)
Lemma pygen_Reciprocal_fwd mininu nu x : gen_Reciprocal_fwd mininu nu x = recip_fwd nu x.
Proof. unfold gen_Reciprocal_fwd, recip_fwd. py_eq. Qed.
Lemma pygen_Reciprocal_bwd mininu nu y : gen_Reciprocal_bwd mininu nu y = recip_bwd nu y.
Proof. unfold gen_Reciprocal_bwd, recip_bwd. py_eq. Qed.
Lemma pygen_Reciprocal_jac mininu nu x : gen_Reciprocal_jac mininu nu x = recip_jac nu x.
Proof. unfold gen_Reciprocal_jac, recip_jac. py_eq. Qed.

(* ------------------------------------------------------------------ *)
(* Sinh                                                                 *)
Lemma pygen_Sinh_fwd nu scale x : gen_Sinh_fwd nu scale x = sinh_fwd nu scale x.
Proof. unfold gen_Sinh_fwd, sinh_fwd. py_eq. Qed.
Lemma pygen_Sinh_bwd nu scale y : gen_Sinh_bwd nu scale y = sinh_bwd nu scale y.
Proof. unfold gen_Sinh_bwd, sinh_bwd. py_eq. Qed.
Lemma pygen_Sinh_jac nu scale x : gen_Sinh_jac nu scale x = sinh_jac nu scale x.
Proof. unfold gen_Sinh_jac, sinh_jac. py_eq. Qed.

(* ------------------------------------------------------------------ *)
(* Manly (repaired code)                                                *)
Lemma pygen_Manly_fwd lam xmax x : gen_Manly_fwd lam xmax x = manly_fwd lam xmax x.
Proof. unfold gen_Manly_fwd, manly_fwd. py_eq. Qed.
Lemma pygen_Manly_bwd lam xmax y : gen_Manly_bwd lam xmax y = manly_bwd lam xmax y.
Proof. unfold gen_Manly_bwd, manly_bwd. py_eq. Qed.
Lemma pygen_Manly_jac lam xmax x : gen_Manly_jac lam xmax x = manly_jac lam xmax x.
Proof. unfold gen_Manly_jac, manly_jac. py_eq. Qed.

(* ------------------------------------------------------------------ *)
(* Softmax : generated for ONE ROW of the 2-D array (np.sum/np.prod along
   axis 1, np.any of the row); `all_rows f` = apply f to every row, fail when
   some row fails - what np.any over the whole array / raise does           *)
Definition all_rows {A : Type} (f : list R -> option A) (xs : list (list R)) : option (list A) :=
  fold_right (fun x acc => match f x, acc with
                           | Some y, Some ys => Some (y :: ys)
                           | _, _ => None
                           end) (Some []) xs.

Lemma existsb_negb_forallb {A} (f : A -> bool) l :
  existsb f l = negb (forallb (fun v => negb (f v)) l).
Proof. induction l as [|a l IH]; simpl; auto. rewrite IH. destruct (f a); reflexivity. Qed.

Lemma all_rows_guarded {A} (ok : list R -> bool) (g : list R -> A) f xs :
  (forall x, f x = if ok x then Some (g x) else None) ->
  all_rows f xs = if forallb ok xs then Some (map g xs) else None.
Proof.
  intros H. induction xs as [|x xs IH]; simpl; auto.
  rewrite H, IH. destruct (ok x), (forallb ok xs); reflexivity.
Qed.

Lemma pygen_Softmax_fwd_row x :
  gen_Softmax_fwd x = if softmax_row_ok x then Some (softmax_fwd_row x) else None.
Proof.
  unfold gen_Softmax_fwd, softmax_row_ok, softmax_fwd_row.
  rewrite existsb_negb_forallb.
  destruct (forallb (fun v => negb (Rltb v 0)) x); py_eq.
Qed.
Lemma pygen_Softmax_jac_row x :
  gen_Softmax_jac x = if softmax_row_ok x then Some (softmax_jac_row x) else None.
Proof.
  unfold gen_Softmax_jac, softmax_row_ok, softmax_jac_row.
  rewrite existsb_negb_forallb.
  destruct (forallb (fun v => negb (Rltb v 0)) x); py_eq.
Qed.
Lemma pygen_Softmax_bwd_row y : gen_Softmax_bwd y = softmax_bwd_row y.
Proof. unfold gen_Softmax_bwd, softmax_bwd_row. py_eq. Qed.

Lemma pygen_Softmax_fwd xs : all_rows gen_Softmax_fwd xs = softmax_fwd xs.
Proof. unfold softmax_fwd. apply all_rows_guarded, pygen_Softmax_fwd_row. Qed.
Lemma pygen_Softmax_jac xs : all_rows gen_Softmax_jac xs = softmax_jac xs.
Proof. unfold softmax_jac. apply all_rows_guarded, pygen_Softmax_jac_row. Qed.
Lemma pygen_Softmax_bwd ys : map gen_Softmax_bwd ys = softmax_bwd ys.
Proof. unfold softmax_bwd. apply map_ext, pygen_Softmax_bwd_row. Qed.

(* ================================================================== *)
(* Headline theorems of C01 (Proofs/TransformProofs.v) restated about the
   GENERATED definitions, by rewriting with the equalities above.        *)

Ltac py_rw :=
  rewrite ?pygen_Identity_fwd, ?pygen_Identity_bwd,
          ?pygen_Logit_fwd, ?pygen_Logit_bwd, ?pygen_Log_fwd, ?pygen_Log_bwd,
          ?pygen_BoxCox2_fwd, ?pygen_BoxCox2_bwd,
          ?pygen_BoxCox1lam_fwd, ?pygen_BoxCox1lam_bwd,
          ?pygen_BoxCox1nu_fwd, ?pygen_BoxCox1nu_bwd,
          ?pygen_BoxCox2sym_fwd, ?pygen_BoxCox2sym_bwd,
          ?pygen_Sinh_fwd, ?pygen_Sinh_bwd, ?pygen_Manly_fwd, ?pygen_Manly_bwd.

Lemma pyinv_Identity :
  (forall x, gen_Identity_bwd (gen_Identity_fwd x) = x) /\
  (forall y, gen_Identity_fwd (gen_Identity_bwd y) = y).
Proof. split; intros; py_rw; [apply id_bwd_fwd | apply id_fwd_bwd]. Qed.

Lemma pyinv_Logit :
  (forall lower logdelta x, lower < x < lower + exp logdelta ->
     gen_Logit_bwd lower logdelta (gen_Logit_fwd lower logdelta x) = x) /\
  (forall lower logdelta y,
     gen_Logit_fwd lower logdelta (gen_Logit_bwd lower logdelta y) = y).
Proof. split; intros; py_rw; [apply logit_bwd_fwd; assumption | apply logit_fwd_bwd]. Qed.

Lemma pyinv_Log :
  (forall mininu base nu x, log_base_ok base -> 0 < x + nu ->
     gen_Log_bwd mininu base nu (gen_Log_fwd mininu base nu x) = x) /\
  (forall mininu base nu y, log_base_ok base ->
     gen_Log_fwd mininu base nu (gen_Log_bwd mininu base nu y) = y).
Proof. split; intros; py_rw; [apply log_bwd_fwd | apply log_fwd_bwd]; assumption. Qed.

Lemma pyinv_BoxCox2 :
  (forall mininu minilam nu lam x, 0 < x + nu ->
     gen_BoxCox2_bwd mininu minilam nu lam (gen_BoxCox2_fwd mininu minilam nu lam x) = x) /\
  (forall mininu minilam nu lam y, (EPS < Rabs lam -> 0 < lam * y + 1) ->
     gen_BoxCox2_fwd mininu minilam nu lam (gen_BoxCox2_bwd mininu minilam nu lam y) = y).
Proof. split; intros; py_rw; [apply bc2_bwd_fwd | apply bc2_fwd_bwd]; assumption. Qed.

Lemma pyinv_BoxCox1lam mininu minilam nu lam :
  bc1lam_params_ok mininu minilam nu lam ->
  (forall x, 0 < x + nu ->
     gen_BoxCox1lam_bwd mininu minilam lam nu (gen_BoxCox1lam_fwd mininu minilam lam nu x) = x) /\
  (forall y, (EPS < Rabs lam -> 0 < lam * y + 1) ->
     gen_BoxCox1lam_fwd mininu minilam lam nu (gen_BoxCox1lam_bwd mininu minilam lam nu y) = y).
Proof.
  intros H; split; intros; py_rw;
    [apply bc1lam_bwd_fwd | apply bc1lam_fwd_bwd]; assumption.
Qed.

Lemma pyinv_BoxCox1nu mininu minilam nu lam :
  bc1nu_params_ok mininu minilam nu lam ->
  (forall x, 0 < x + nu ->
     gen_BoxCox1nu_bwd mininu minilam nu lam (gen_BoxCox1nu_fwd mininu minilam nu lam x) = x) /\
  (forall y, (EPS < Rabs lam -> 0 < lam * y + 1) ->
     gen_BoxCox1nu_fwd mininu minilam nu lam (gen_BoxCox1nu_bwd mininu minilam nu lam y) = y).
Proof.
  intros H; split; intros; py_rw;
    [apply bc1nu_bwd_fwd | apply bc1nu_fwd_bwd]; assumption.
Qed.

Lemma pyinv_BoxCox2sym mininu minilam nu lam :
  bc2sym_params_ok mininu minilam nu lam -> 0 < nu ->
  (forall x, gen_BoxCox2sym_bwd mininu minilam nu lam
               (gen_BoxCox2sym_fwd mininu minilam nu lam x) = x) /\
  (forall y, (EPS < Rabs lam -> 0 < lam * (Rabs y + bc2_fwd nu lam 0) + 1) ->
     gen_BoxCox2sym_fwd mininu minilam nu lam (gen_BoxCox2sym_bwd mininu minilam nu lam y) = y).
Proof.
  intros H Hnu; split; intros; py_rw;
    [apply bc2sym_bwd_fwd | apply bc2sym_fwd_bwd]; assumption.
Qed.

(* option-valued generated definitions: the round trip is stated through Some *)
Lemma pyinv_YeoJohnson :
  (forall nu scale lam x y, yj_params_ok nu scale lam ->
     (yj_w nu scale x <= 0 \/ 2 * EPS <= yj_w nu scale x) ->
     gen_YeoJohnson_fwd nu scale lam x = Some y -> gen_YeoJohnson_bwd nu scale lam y = Some x) /\
  (forall nu scale lam x y, yj_params_ok nu scale lam -> yj_same_side_bwd lam y -> yj_image lam y ->
     gen_YeoJohnson_bwd nu scale lam y = Some x -> gen_YeoJohnson_fwd nu scale lam x = Some y).
Proof.
  split.
  - intros nu scale lam x y Hp Hw. rewrite pygen_YeoJohnson_fwd, pygen_YeoJohnson_bwd.
    intros E; inversion E; subst. f_equal. apply yj_bwd_fwd_outside_band; assumption.
  - intros nu scale lam x y Hp Hs Hi. rewrite pygen_YeoJohnson_fwd, pygen_YeoJohnson_bwd.
    intros E; inversion E; subst. f_equal. apply yj_fwd_bwd; assumption.
Qed.

Lemma pyinv_LogSinh :
  (forall loga logb xmax x, logsinh_params_ok loga logb xmax ->
     logsinh_guard loga logb xmax x = true ->
     exists y, gen_LogSinh_fwd loga logb xmax x = Some y /\ gen_LogSinh_bwd loga logb xmax y = x) /\
  (forall loga logb xmax y, logsinh_params_ok loga logb xmax ->
     logsinh_guard loga logb xmax (gen_LogSinh_bwd loga logb xmax y) = true ->
     gen_LogSinh_fwd loga logb xmax (gen_LogSinh_bwd loga logb xmax y) = Some y).
Proof.
  split.
  - intros loga logb xmax x Hp Hg. destruct (logsinh_bwd_fwd loga logb xmax x Hp Hg) as (y & E1 & E2).
    exists y. rewrite pygen_LogSinh_fwd, pygen_LogSinh_bwd. auto.
  - intros loga logb xmax y Hp. rewrite pygen_LogSinh_bwd, pygen_LogSinh_fwd.
    apply logsinh_fwd_bwd; assumption.
Qed.

Lemma pyinv_Reciprocal :
  (forall mininu nu x, - nu < x ->
     exists y, gen_Reciprocal_fwd mininu nu x = Some y /\ gen_Reciprocal_bwd mininu nu y = Some x) /\
  (forall mininu nu y, y < 0 ->
     exists x, gen_Reciprocal_bwd mininu nu y = Some x /\ gen_Reciprocal_fwd mininu nu x = Some y).
Proof.
  split.
  - intros mininu nu x H. destruct (recip_bwd_fwd nu x H) as (y & E1 & E2). exists y.
    rewrite pygen_Reciprocal_fwd, pygen_Reciprocal_bwd. auto.
  - intros mininu nu y H. destruct (recip_fwd_bwd nu y H) as (x & E1 & E2). exists x.
    rewrite pygen_Reciprocal_fwd, pygen_Reciprocal_bwd. auto.
Qed.

Lemma pyinv_Softmax :
  (forall xs, softmax_dom xs ->
     exists ys, all_rows gen_Softmax_fwd xs = Some ys /\ map gen_Softmax_bwd ys = xs) /\
  (forall y, gen_Softmax_fwd (gen_Softmax_bwd y) =
             if softmax_row_ok (gen_Softmax_bwd y) then Some y else None).
Proof.
  split.
  - intros xs H. destruct (softmax_bwd_fwd xs H) as (ys & E1 & E2). exists ys.
    rewrite pygen_Softmax_fwd, pygen_Softmax_bwd. auto.
  - intros y. rewrite pygen_Softmax_fwd_row, pygen_Softmax_bwd_row, softmax_fwd_bwd_row.
    reflexivity.
Qed.

Lemma pyinv_Sinh :
  (forall nu scale x, sinh_params_ok nu scale ->
     gen_Sinh_bwd nu scale (gen_Sinh_fwd nu scale x) = x) /\
  (forall nu scale y, sinh_params_ok nu scale ->
     gen_Sinh_fwd nu scale (gen_Sinh_bwd nu scale y) = y).
Proof. split; intros; py_rw; [apply sinh_bwd_fwd | apply sinh_fwd_bwd]; assumption. Qed.

Lemma pyinv_Manly :
  (forall lam xmax x, manly_params_ok lam xmax ->
     gen_Manly_bwd lam xmax (gen_Manly_fwd lam xmax x) = x) /\
  (forall lam xmax y, manly_params_ok lam xmax -> (EPS < Rabs lam -> 0 < 1 + lam * y) ->
     gen_Manly_fwd lam xmax (gen_Manly_bwd lam xmax y) = y).
Proof. split; intros; py_rw; [apply manly_bwd_fwd | apply manly_fwd_bwd]; assumption. Qed.
