(* Overflow-checked kernels of src/hydrodiy/data: the theorems of Proofs/RefineDutils.v
   (c_aggregate, c_flathomogen: refinement of the models of Model/Dutils.v) and of
   Proofs/SafeData.v (c_dateutils.c, c_islin, c_eckhardt: safe execution) re-proved for
   [program_chk] (Gen/KernelsAstChk.v), the translation in which every signed integer
   +, -, *, /, unary -, ++, --, op= is wrapped in [IChk W32] (C int) / [IChk W64]
   (long long): the interpreter stops with [Err (Overflow ..)] when the value does not
   fit.  [exec_fun N X program_chk (S n) "<kernel>" args = Ok r] therefore says that the
   kernel, besides staying in its buffers, not dividing by zero and not converting an
   out-of-range double, never overflows a signed integer (undefined behaviour in C).

   Each theorem [chk_<name>] has the conclusion of [<name>] of the source file, under its
   hypotheses plus explicit size hypotheses:

   chk_refine_aggregate, chk_refine_flathomogen     zlen idx <= INT_MAX
   chk_safe_c_dateutils_isleapyear / _daysinmonth / _dayofyear / _comparedates
                                                    none
   chk_safe_c_dateutils_add1month                   in_int32 y, in_int32 m   (date[0], date[1])
   chk_safe_c_dateutils_add1day                     in_int32 y, in_int32 d   (date[0], date[2])
   chk_safe_c_dateutils_getdate_accept              getdate_noovf a b c (the int operations on
       the three casts); discharged over the reals: chk_safe_c_dateutils_getdate_RN / _RR
       have no extra hypothesis
   chk_safe_c_dateutils_getdate_reject              none
   chk_safe_c_islin                                 zlen data <= INT_MAX
   chk_safe_c_eckhardt                              zlen inputs <= INT_MAX

   All these hypotheses hold for every call from C / Cython (nval is a C int, date[] an
   int32 array): no wrapper-admissible input of these kernels overflows. *)
From Coq Require Import ZArith Bool List String Lia.
From Coq Require Import PrimFloat.
From Hy Require Import Base.Num Base.MiniC Gen.ConstsC08 Gen.KernelsAstChk Model.Dutils.
Import ListNotations.
Open Scope string_scope.
Open Scope list_scope.
Open Scope Z_scope.

(* ================================================================== *)
(* The overflow test of [IChk]                                          *)
(* ================================================================== *)

Definition INT_MIN : Z := -2147483648.
Definition INT_MAX : Z := 2147483647.
(* the values of a C [int]: [in_int32] of Model/Dutils.v *)

Lemma in_width_W32 v : in_width W32 v = true <-> -2147483648 <= v <= 2147483647.
Proof.
  unfold in_width. rewrite andb_true_iff, !Z.leb_le. reflexivity.
Qed.
Lemma in_width_W64 v :
  in_width W64 v = true <-> -9223372036854775808 <= v <= 9223372036854775807.
Proof.
  unfold in_width. rewrite andb_true_iff, !Z.leb_le. reflexivity.
Qed.
Lemma in_width_W32_false v :
  in_width W32 v = false <-> v < -2147483648 \/ 2147483647 < v.
Proof.
  unfold in_width. rewrite andb_false_iff, !Z.leb_gt. reflexivity.
Qed.

(* the test stays folded under [cbn]; [iw] rewrites every test of the goal whose
   operand is in range by [lia] from the context to [true] *)
#[global] Arguments in_width : simpl never.

Ltac iw1 :=
  match goal with
  | |- context[in_width W32 ?e] =>
      replace (in_width W32 e) with true
        by (symmetry; apply in_width_W32; unfold INT_MIN, INT_MAX, in_int32 in *; lia)
  | |- context[in_width W64 ?e] =>
      replace (in_width W64 e) with true
        by (symmetry; apply in_width_W64; unfold INT_MIN, INT_MAX, in_int32 in *; lia)
  end.
Ltac iw := repeat iw1.

(* ================================================================== *)
(* PART 1.  c_dateutils.c, c_islin, c_eckhardt (source: Proofs/SafeData.v) *)
(* ================================================================== *)

(* ---- generic helpers about MiniC (as in SafeData.v) ---- *)

(* one unfolding of [exec_fun] (then [cbn -[exec_fun]] keeps the callees folded) *)
Lemma exec_fun_S {T} (N : NumOps T) (X : NumLit T) p n f args :
  exec_fun N X p (S n) f args =
  (do fd <- find_fun p f;
   do st0 <- bind_params f (fst fd) args st_empty;
   match exec N X (exec_fun N X p n) n (snd fd) st0 with
   | Ok (ORet v, st) => do o <- out_arrays (fst fd) st; Ok (v, o)
   | Ok (_, _) => Err (BadRet f)
   | Err e => Err e
   end).
Proof. reflexivity. Qed.

(* a statement that ends normally: continue with the rest of the sequence *)
Lemma exec_seq_step {T} (N : NumOps T) (X : NumLit T) (callf : callee T) n a b st st' :
  exec N X callf n a st = Ok (ONormal, st') ->
  exec N X callf n (SSeq a b) st = exec N X callf n b st'.
Proof. intros H. cbn [exec]. rewrite H. reflexivity. Qed.

(* an access inside the buffer succeeds; a store keeps the length *)
Lemma zset_some {A} (l : list A) i v :
  0 <= i < Z.of_nat (List.length l) -> exists l', zset l i v = Some l' /\ List.length l' = List.length l.
Proof.
  intros H. rewrite (zset_ok l i v H). eexists. split; [reflexivity|].
  rewrite <- (zset_length l _ i v (zset_ok l i v H)). reflexivity.
Qed.

Lemma zget_some {A} (l : list A) i :
  0 <= i < Z.of_nat (List.length l) -> exists x, zget l i = Some x.
Proof.
  intros H. destruct l as [|d l]; [cbn in H; lia|].
  rewrite (zget_ok (d :: l) i d H). eexists. reflexivity.
Qed.

(* run the interpreter, keeping callees folded; the overflow tests whose operand is
   in range (by [lia] from the context) are resolved on the way *)
Ltac run1 := cbn -[exec_fun]; rewrite ?truth_b2z, ?b2z_truth_b2z, ?or_ok, ?and_ok; iw.
Ltac run := repeat (progress run1).

(* execute the first statement of a sequence and present the new state as a literal
   record (see SafeData.v) *)
Ltac step := erewrite exec_seq_step by (cbn; norm_state; reflexivity).

(* ---- specifications that are not in Model/Dutils.v (as in SafeData.v) ---- *)

(* c_dateutils_dayofyear: int day_of_year[13] *)
Definition DAY_OF_YEAR : list Z := [0; 0; 31; 59; 90; 120; 151; 181; 212; 243; 273; 304; 334].
Definition day_of_year (m d : Z) : Z :=
  if (m <? 1) || (12 <? m) then -1
  else if (d <? 1) || (31 <? d) then -1
  else nth (Z.to_nat m) DAY_OF_YEAR 0 + d.

(* c_dateutils_comparedates *)
Definition compare_dates (a0 a1 a2 b0 b1 b2 : Z) : Z :=
  if a0 <? b0 then 1 else if b0 <? a0 then -1
  else if a1 <? b1 then 1 else if b1 <? a1 then -1
  else if a2 <? b2 then 1 else if b2 <? a2 then -1 else 0.

Section Safe.
Context {T : Type} (N : NumOps T) (X : NumLit T).

(* no signed arithmetic besides % by a constant: no size hypothesis *)
Theorem chk_safe_c_dateutils_isleapyear year n :
  exec_fun N X program_chk (S n) "c_dateutils_isleapyear" [AVI year]
  = Ok (RI (b2z (is_leap year)), []).
Proof.
  cbn. rewrite !truth_b2z. unfold is_leap, LEAP_A, LEAP_B, LEAP_C.
  destruct (Z.rem year 4 =? 0); destruct (Z.rem year 100 =? 0); destruct (Z.rem year 400 =? 0);
    reflexivity.
Qed.

Lemma month_cases m : (m <? 1) || (12 <? m) = false ->
  m = 1 \/ m = 2 \/ m = 3 \/ m = 4 \/ m = 5 \/ m = 6 \/ m = 7 \/ m = 8 \/ m = 9 \/ m = 10 \/ m = 11 \/ m = 12.
Proof.
  intros H. apply orb_false_iff in H. destruct H as [H1 H2].
  apply Z.ltb_ge in H1. apply Z.ltb_ge in H2. lia.
Qed.

(* the checked operations: [-1] and [n + 1] with n = days_in_month[2] = 28: constants,
   no size hypothesis *)
Theorem chk_safe_c_dateutils_daysinmonth year month n :
  (0 < n)%nat ->
  exec_fun N X program_chk (S n) "c_dateutils_daysinmonth" [AVI year; AVI month]
  = Ok (RI (days_in_month year month), []).
Proof.
  intros Hn. unfold days_in_month. rewrite exec_fun_S.
  destruct ((month <? 1) || (12 <? month)) eqn:Hm.
  - run. rewrite Hm. run. reflexivity.
  - destruct n as [|n']; [lia|].
    apply month_cases in Hm.
    repeat (destruct Hm as [Hm|Hm]; [subst month|]); try subst month.
    all: cbn -[exec_fun]; rewrite chk_safe_c_dateutils_isleapyear; run.
    all: destruct (is_leap year); run; reflexivity.
Qed.

(* the checked operations: [-1] and [day_of_year[month] + day] with 1 <= day <= 31
   and day_of_year[month] <= 334: no size hypothesis *)
Theorem chk_safe_c_dateutils_dayofyear month day n :
  exec_fun N X program_chk (S n) "c_dateutils_dayofyear" [AVI month; AVI day]
  = Ok (RI (day_of_year month day), []).
Proof.
  unfold day_of_year. rewrite exec_fun_S.
  destruct ((month <? 1) || (12 <? month)) eqn:Hm.
  - run. rewrite Hm. run. reflexivity.
  - destruct ((day <? 1) || (31 <? day)) eqn:Hd.
    + run. rewrite Hm. run. rewrite Hd. run. reflexivity.
    + assert (Hd' := Hd). apply orb_false_iff in Hd'. destruct Hd' as [Hd1 Hd2].
      apply Z.ltb_ge in Hd1. apply Z.ltb_ge in Hd2.
      apply month_cases in Hm.
      repeat (destruct Hm as [Hm|Hm]; [subst month|]); try subst month.
      all: run; rewrite Hd; run; reflexivity.
Qed.

Lemma days_in_month_range y m : -1 <= days_in_month y m <= 31.
Proof.
  unfold days_in_month. destruct ((m <? 1) || (12 <? m)) eqn:Hm; [lia|].
  apply month_cases in Hm.
  repeat (destruct Hm as [Hm|Hm]; [subst m|]); try subst m.
  all: destruct (is_leap y); compute; split; intro H; discriminate H.
Qed.

Lemma days_in_month_jan y : days_in_month y 1 = 31.
Proof. unfold days_in_month. rewrite andb_false_r. reflexivity. Qed.

(* a valid number of days means a valid month *)
Lemma days_in_month_month y m : 0 <= days_in_month y m -> 1 <= m <= 12.
Proof.
  unfold days_in_month. destruct ((m <? 1) || (12 <? m)) eqn:Hm; [lia|].
  intros _. apply orb_false_iff in Hm. destruct Hm as [H1 H2].
  apply Z.ltb_ge in H1. apply Z.ltb_ge in H2. lia.
Qed.

#[local] Arguments days_in_month : simpl never.
#[local] Arguments is_leap : simpl never.

(* date = y :: m :: d :: rest; the wrapper guarantees rest = [].
   Size hypotheses: the year and the month read from date[] are C ints.
   - [date[1] + 1] (branch date[1] < 12) needs INT_MIN <= m + 1 (lower bound of m);
   - [date[0] + 1] (branch date[1] >= 12) is reached only when date[0] <> INT_MAX (the
     guard of the repaired C code): with y a C int, y + 1 <= INT_MAX.
   The conclusion is that of safe_c_dateutils_add1month. *)
Theorem chk_safe_c_dateutils_add1month y m d rest n :
  in_int32 y -> in_int32 m ->
  (1 < n)%nat ->
  exists ret out,
    exec_fun N X program_chk (S n) "c_dateutils_add1month" [AVArrI (y :: m :: d :: rest)]
    = Ok (RI ret, [VArrI out]) /\
    List.length out = List.length (y :: m :: d :: rest) /\
    (if negb (m <? 12) && (y =? INT_MAX) then 0 < ret /\ out = y :: m :: d :: rest
     else match c_add1month (y, m, d) with
          | Some (y', m', d') => ret = 0 /\ out = y' :: m' :: d' :: rest
          | None => 0 < ret /\ out = y :: m + 1 :: d :: rest
          end).
Proof.
  intros Hy32 Hm32 Hn. destruct n as [|n']; [lia|]. rewrite exec_fun_S. unfold c_add1month, INT_MAX.
  destruct (m <? 12) eqn:Hm; cbn [negb andb].
  - assert (Hm' := Hm). apply Z.ltb_lt in Hm'.
    run. rewrite Hm. run. rewrite chk_safe_c_dateutils_daysinmonth by lia.
    set (nb := days_in_month y (m + 1)). run.
    destruct (nb <? 0) eqn:Hnb; run.
    + do 2 eexists. split; [reflexivity|]. split; [reflexivity|]. split; [lia|reflexivity].
    + destruct (nb <? d) eqn:Hd; run.
      all: do 2 eexists; split; [reflexivity|]; split; [reflexivity|]; split; reflexivity.
  - run. rewrite Hm. run.
    destruct (y =? 2147483647) eqn:Hy; run.
    + do 2 eexists. split; [reflexivity|]. split; [reflexivity|]. split; [lia|reflexivity].
    + assert (Hy' := Hy). apply Z.eqb_neq in Hy'. run.
      rewrite chk_safe_c_dateutils_daysinmonth by lia. rewrite days_in_month_jan. run.
      destruct (31 <? d) eqn:Hd; run.
      all: do 2 eexists; split; [reflexivity|]; split; [reflexivity|]. all: split; reflexivity.
Qed.

(* Size hypotheses: the year and the day read from date[] are C ints.
   - [date[2] + 1] (branch date[2] < nbday <= 31) needs INT_MIN <= d + 1;
   - [date[1] + 1] (branch date[1] < 12): no hypothesis, 1 <= m because nbday >= 0;
   - [date[0] + 1]: reached only when date[0] <> INT_MAX (guard of the repaired C code). *)
Theorem chk_safe_c_dateutils_add1day y m d rest n :
  in_int32 y -> in_int32 d ->
  (1 < n)%nat ->
  exists ret out,
    exec_fun N X program_chk (S n) "c_dateutils_add1day" [AVArrI (y :: m :: d :: rest)]
    = Ok (RI ret, [VArrI out]) /\
    List.length out = List.length (y :: m :: d :: rest) /\
    match c_add1day (y, m, d) with
    | None => 0 < ret /\ out = y :: m :: d :: rest
    | Some (y', m', d') =>
        if (d =? days_in_month y m) && negb (m <? 12) && (y =? INT_MAX)
        then 0 < ret /\ out = y :: m :: 1 :: rest
        else ret = 0 /\ out = y' :: m' :: d' :: rest
    end.
Proof.
  intros Hy32 Hd32 Hn. destruct n as [|n']; [lia|]. rewrite exec_fun_S. unfold c_add1day, INT_MAX.
  run. rewrite chk_safe_c_dateutils_daysinmonth by lia.
  assert (Hnbr := days_in_month_range y m). assert (Hnbm := days_in_month_month y m).
  set (nb := days_in_month y m) in *. run.
  destruct (nb <? 0) eqn:Hnb; run.
  { do 2 eexists. split; [reflexivity|]. split; [reflexivity|]. split; [lia|reflexivity]. }
  apply Z.ltb_ge in Hnb. specialize (Hnbm Hnb).
  destruct (d <? nb) eqn:Hd; run.
  { assert (Hd' := Hd). apply Z.ltb_lt in Hd'. run.
    assert (d =? nb = false) as -> by (apply Z.eqb_neq; lia).
    do 2 eexists. split; [reflexivity|]. split; [reflexivity|]. split; reflexivity. }
  destruct (d =? nb) eqn:Hd2; run.
  2:{ do 2 eexists. split; [reflexivity|]. split; [reflexivity|]. split; [lia|reflexivity]. }
  destruct (m <? 12) eqn:Hm; run.
  { do 2 eexists. split; [reflexivity|]. split; [reflexivity|]. split; reflexivity. }
  destruct (y =? 2147483647) eqn:Hy; run.
  { do 2 eexists; split; [reflexivity|]; split; [reflexivity|]; split; try reflexivity; lia. }
  assert (Hy' := Hy). apply Z.eqb_neq in Hy'. run.
  do 2 eexists; split; [reflexivity|]; split; [reflexivity|]; split; try reflexivity; lia.
Qed.

(* the only checked operation is the constant [-1]: no size hypothesis *)
Theorem chk_safe_c_dateutils_comparedates a0 a1 a2 r1 b0 b1 b2 r2 n :
  exec_fun N X program_chk (S n) "c_dateutils_comparedates"
    [AVArrI (a0 :: a1 :: a2 :: r1); AVArrI (b0 :: b1 :: b2 :: r2)]
  = Ok (RI (compare_dates a0 a1 a2 b0 b1 b2),
        [VArrI (a0 :: a1 :: a2 :: r1); VArrI (b0 :: b1 :: b2 :: r2)]).
Proof.
  unfold compare_dates. rewrite exec_fun_S. run.
  destruct (a0 <? b0); run; [reflexivity|].
  destruct (b0 <? a0); run; [reflexivity|].
  destruct (a1 <? b1); run; [reflexivity|].
  destruct (b1 <? a1); run; [reflexivity|].
  destruct (a2 <? b2); run; [reflexivity|].
  destruct (b2 <? a2); run; reflexivity.
Qed.

(* ---- c_dateutils_getdate ---- *)

#[local] Arguments sem_cast : simpl never.

(* the C cast (int)x is defined: x truncates to a value that fits an int *)
Definition trunc32 (x : T) (z : Z) : Prop := ntrunc N x = Some z /\ in_width W32 z = true.

Lemma sem_cast_ok x z : trunc32 x z -> sem_cast W32 (ntrunc N x) = Ok z.
Proof. intros [H1 H2]. unfold sem_cast. rewrite H1, H2. reflexivity. Qed.

(* the literals of the C text: 2147483647., 1e-4, 1e-2 *)
Definition lit_intmax : T := nlit X (0x1.fffffffc00000p+30)%float 2147483647 1.
Definition lit_1em4 : T := nlit X (0x1.a36e2eb1c432dp-14)%float 1 10000.
Definition lit_1em2 : T := nlit X (0x1.47ae147ae147bp-7)%float 1 100.

(* if(isnan(day) || day < 0 || day > 2147483647.) return ERROR *)
Definition getdate_reject (day : T) : bool :=
  nisnan N day || nltb N day (nofZ N 0) || nltb N lit_intmax day.

(* a = (int)(day*1e-4), b = (int)(day*1e-2), c = (int)day *)
Definition getdate_spec (a b c : Z) : option (Z * Z * Z) :=
  let year := a in
  let month := b - year * 100 in
  let nday := c - year * 10000 - month * 100 in
  if (month <? 0) || (12 <? month) then None
  else if (nday <? 0) || (days_in_month year month <? nday) then None
  else Some (year, month, nday).

(* the [int] operations of
     month = (int)(day*1e-2) - year*100;
     nday  = (int)day - year*10000 - month*100;
   stay in the range of [int] (each line: one C operation) *)
Definition getdate_noovf (a b c : Z) : Prop :=
  in_int32 (a * 100) /\                                  (* year*100 *)
  in_int32 (b - a * 100) /\                              (* month *)
  in_int32 (a * 10000) /\                                (* year*10000 *)
  in_int32 (c - a * 10000) /\                            (* (int)day - year*10000 *)
  in_int32 ((b - a * 100) * 100) /\                      (* month*100 *)
  in_int32 (c - a * 10000 - (b - a * 100) * 100).        (* nday *)

Theorem chk_safe_c_dateutils_getdate_accept day y0 m0 d0 rest a b c n :
  getdate_reject day = false ->
  trunc32 (nmul N day lit_1em4) a -> trunc32 (nmul N day lit_1em2) b -> trunc32 day c ->
  getdate_noovf a b c ->
  (1 < n)%nat ->
  exists ret out,
    exec_fun N X program_chk (S n) "c_dateutils_getdate" [AVF day; AVArrI (y0 :: m0 :: d0 :: rest)]
    = Ok (RI ret, [VArrI out]) /\
    List.length out = List.length (y0 :: m0 :: d0 :: rest) /\
    match getdate_spec a b c with
    | Some (y, m, d) => ret = 0 /\ out = y :: m :: d :: rest
    | None => 0 < ret /\ out = y0 :: m0 :: d0 :: rest
    end.
Proof.
  intros Hrej Ha Hb Hc (O1 & O2 & O3 & O4 & O5 & O6) Hn.
  destruct n as [|n']; [lia|]. rewrite exec_fun_S.
  unfold getdate_reject, lit_intmax in Hrej. unfold lit_1em4 in Ha. unfold lit_1em2 in Hb.
  unfold getdate_spec.
  run. rewrite Hrej. run.
  rewrite (sem_cast_ok _ _ Ha). run.
  rewrite (sem_cast_ok _ _ Hb). run.
  rewrite (sem_cast_ok _ _ Hc). run.
  set (month := b - a * 100) in *. set (nday := c - a * 10000 - month * 100) in *.
  destruct ((month <? 0) || (12 <? month)) eqn:Hm; run.
  { do 2 eexists. split; [reflexivity|]. split; [reflexivity|]. split; [lia|reflexivity]. }
  rewrite chk_safe_c_dateutils_daysinmonth by lia. run.
  destruct ((nday <? 0) || (days_in_month a month <? nday)) eqn:Hd; run.
  { do 2 eexists. split; [reflexivity|]. split; [reflexivity|]. split; [lia|reflexivity]. }
  do 2 eexists. split; [reflexivity|]. split; [reflexivity|]. split; reflexivity.
Qed.

Theorem chk_safe_c_dateutils_getdate_reject day date n :
  getdate_reject day = true ->
  exists ret,
    exec_fun N X program_chk (S n) "c_dateutils_getdate" [AVF day; AVArrI date]
    = Ok (RI ret, [VArrI date]) /\ 0 < ret.
Proof.
  intros Hrej. rewrite exec_fun_S. unfold getdate_reject, lit_intmax in Hrej.
  run. rewrite Hrej. run. eexists. split; [reflexivity|lia].
Qed.

(* the three casts of an accepted day are defined in this arithmetic, and the integer
   operations on their results do not overflow *)
Definition getdate_casts_defined_noovf : Prop :=
  forall day, getdate_reject day = false ->
    exists a b c, trunc32 (nmul N day lit_1em4) a /\ trunc32 (nmul N day lit_1em2) b /\ trunc32 day c /\
                  getdate_noovf a b c.

Theorem chk_safe_c_dateutils_getdate day y0 m0 d0 rest n :
  getdate_casts_defined_noovf ->
  (1 < n)%nat ->
  exists ret out,
    exec_fun N X program_chk (S n) "c_dateutils_getdate" [AVF day; AVArrI (y0 :: m0 :: d0 :: rest)]
    = Ok (RI ret, [VArrI out]) /\
    List.length out = List.length (y0 :: m0 :: d0 :: rest).
Proof.
  intros HC Hn. destruct (getdate_reject day) eqn:Hrej.
  - destruct (chk_safe_c_dateutils_getdate_reject day (y0 :: m0 :: d0 :: rest) n Hrej) as (ret & E & _).
    exists ret, (y0 :: m0 :: d0 :: rest). split; [exact E|reflexivity].
  - destruct (HC day Hrej) as (a & b & c & Ha & Hb & Hc & Ho).
    destruct (chk_safe_c_dateutils_getdate_accept day y0 m0 d0 rest a b c n Hrej Ha Hb Hc Ho Hn)
      as (ret & out & E & L & _).
    exists ret, out. split; [exact E|exact L].
Qed.

(* the hypothesis on the casts cannot be dropped in an abstract arithmetic (as for [program]) *)
Lemma chk_getdate_cast_hyp_needed day date n :
  getdate_reject day = false -> ntrunc N (nmul N day lit_1em4) = None ->
  exec_fun N X program_chk (S n) "c_dateutils_getdate" [AVF day; AVArrI date] = Err CastRange.
Proof.
  intros Hrej Hc. rewrite exec_fun_S. unfold getdate_reject, lit_intmax in Hrej. unfold lit_1em4 in Hc.
  run. rewrite Hrej. run. unfold sem_cast. rewrite Hc. reflexivity.
Qed.

(* nor can [getdate_noovf]: in an abstract arithmetic nothing relates the three casts, and
   year*100 overflows when the first cast is large *)
Lemma chk_getdate_noovf_hyp_needed day date a b n :
  getdate_reject day = false ->
  trunc32 (nmul N day lit_1em4) a -> trunc32 (nmul N day lit_1em2) b ->
  in_width W32 (a * 100) = false ->
  exec_fun N X program_chk (S n) "c_dateutils_getdate" [AVF day; AVArrI date]
  = Err (Overflow true (a * 100)).
Proof.
  intros Hrej Ha Hb Ho. rewrite exec_fun_S.
  unfold getdate_reject, lit_intmax in Hrej. unfold lit_1em4 in Ha. unfold lit_1em2 in Hb.
  run. rewrite Hrej. run.
  rewrite (sem_cast_ok _ _ Ha). run.
  rewrite (sem_cast_ok _ _ Hb). run.
  rewrite Ho. reflexivity.
Qed.

(* ================================================================== *)
(* c_islin (c_qualitycontrol.c)                                         *)

Definition il_state (nval npoints i k count start lintype : Z)
           (thresh tol dist vprec vnext vcur : T) (data : list T) (il : list Z) : state T :=
  {| s_i := [("nval", nval); ("npoints", npoints); ("ierr", 0); ("i", i); ("k", k);
             ("count", count); ("start", start); ("lintype", lintype)];
     s_f := [("thresh", thresh); ("tol", tol); ("dist", dist); ("vprec", vprec);
             ("vnext", vnext); ("vcur", vcur)];
     s_ai := [("islin", il)];
     s_af := [("data", data)] |}.

(* for(i=0; i<nval; i++) islin[i] = 0;   (branch nval < 3) *)
Lemma islin_zero_loop (callf : callee T) n nval npoints k count start lintype
      thresh tol dist vprec vnext vcur data il :
  nval <= Z.of_nat (List.length il) -> (Z.to_nat nval < n)%nat ->
  nval <= INT_MAX ->
  exists i' il',
    loop n (cond_of N X (ICmp CLt (IVar "i") (IVar "nval")))
      (for_body
         (exec N X callf n (SStoreI "islin" (IVar "i") (IConst 0)))
         (exec N X callf n (SSetI "i" (IChk W32 (IBin IAdd (IVar "i") (IConst 1))))))
      (il_state nval npoints 0 k count start lintype thresh tol dist vprec vnext vcur data il)
    = Ok (ONormal, il_state nval npoints i' k count start lintype thresh tol dist vprec vnext vcur data il')
    /\ List.length il' = List.length il.
Proof.
  intros Hlen Hn Hmax. unfold INT_MAX in Hmax.
  destruct (loop_rule
    (fun j st => (j <= Z.to_nat nval)%nat /\ exists il', List.length il' = List.length il /\
        st = il_state nval npoints (Z.of_nat j) k count start lintype thresh tol dist vprec vnext vcur data il')
    (fun r => exists i' il', r = (ONormal, il_state nval npoints i' k count start lintype thresh tol dist vprec vnext vcur data il') /\ List.length il' = List.length il)
    (Z.to_nat nval)
    (cond_of N X (ICmp CLt (IVar "i") (IVar "nval")))
    (for_body
         (exec N X callf n (SStoreI "islin" (IVar "i") (IConst 0)))
         (exec N X callf n (SSetI "i" (IChk W32 (IBin IAdd (IVar "i") (IConst 1))))))) with (fuel := n) (k := O)
    (st := il_state nval npoints 0 k count start lintype thresh tol dist vprec vnext vcur data il)
    as (r & E & i' & il' & -> & L).
  - intros j st (Hj & il' & L & ->). split; [exact Hj|].
    unfold il_state. run.
    destruct (Z.ltb_spec (Z.of_nat j) nval) as [Hlt|Hge]; run.
    + destruct (zset_some il' (Z.of_nat j) 0) as (il2 & E2 & L2); [lia|].
      rewrite E2. run. split; [lia|]. exists il2. split; [lia|].
      norm_state. unfold il_state. replace (Z.of_nat j + 1) with (Z.of_nat (S j)) by lia. reflexivity.
    + exists (Z.of_nat j), il'. split; [reflexivity|exact L].
  - split; [lia|]. exists il. split; reflexivity.
  - lia.
  - exists i', il'. split; [exact E|exact L].
Qed.


(* for(k=start; k<i; k++) islin[k] = lintype; *)
Lemma islin_fill_loop (callf : callee T) n nval npoints i count start lintype
      thresh tol dist vprec vnext vcur data il :
  0 <= start -> i <= Z.of_nat (List.length il) -> (Z.to_nat (i - start) < n)%nat ->
  i <= INT_MAX ->
  exists k' il',
    loop n (cond_of N X (ICmp CLt (IVar "k") (IVar "i")))
      (for_body
         (exec N X callf n (SStoreI "islin" (IVar "k") (IVar "lintype")))
         (exec N X callf n (SSetI "k" (IChk W32 (IBin IAdd (IVar "k") (IConst 1))))))
      (il_state nval npoints i start count start lintype thresh tol dist vprec vnext vcur data il)
    = Ok (ONormal, il_state nval npoints i k' count start lintype thresh tol dist vprec vnext vcur data il')
    /\ List.length il' = List.length il.
Proof.
  intros Hs Hlen Hn Hmax. unfold INT_MAX in Hmax.
  destruct (loop_rule
    (fun j st => (j <= Z.to_nat (i - start))%nat /\ exists il', List.length il' = List.length il /\
        st = il_state nval npoints i (start + Z.of_nat j) count start lintype thresh tol dist vprec vnext vcur data il')
    (fun r => exists k' il', r = (ONormal, il_state nval npoints i k' count start lintype thresh tol dist vprec vnext vcur data il') /\ List.length il' = List.length il)
    (Z.to_nat (i - start))
    (cond_of N X (ICmp CLt (IVar "k") (IVar "i")))
    (for_body
         (exec N X callf n (SStoreI "islin" (IVar "k") (IVar "lintype")))
         (exec N X callf n (SSetI "k" (IChk W32 (IBin IAdd (IVar "k") (IConst 1))))))) with (fuel := n) (k := O)
    (st := il_state nval npoints i start count start lintype thresh tol dist vprec vnext vcur data il)
    as (r & E & k' & il' & -> & L).
  - intros j st (Hj & il' & L & ->). split; [exact Hj|].
    unfold il_state. run.
    destruct (Z.ltb_spec (start + Z.of_nat j) i) as [Hlt|Hge]; run.
    + destruct (zset_some il' (start + Z.of_nat j) lintype) as (il2 & E2 & L2); [lia|].
      rewrite E2. run. split; [lia|]. exists il2. split; [lia|].
      norm_state. unfold il_state.
      replace (start + Z.of_nat j + 1) with (start + Z.of_nat (S j)) by lia. reflexivity.
    + exists (start + Z.of_nat j), il'. split; [reflexivity|exact L].
  - split; [lia|]. exists il. split; [reflexivity|].
    replace (start + Z.of_nat 0) with start by lia. reflexivity.
  - lia.
  - exists k', il'. split; [exact E|exact L].
Qed.

Definition islin_inv npoints thresh tol (data : list T) (j : nat) (st : state T) : Prop :=
  (2 + j <= List.length data)%nat /\
  exists k count start lintype dist vprec vnext vcur il,
    List.length il = List.length data /\ 0 <= start /\
    (* new in the checked proof: count <= i - 2 *)
    0 <= count <= Z.of_nat j /\
    st = il_state (zlen data) npoints (2 + Z.of_nat j) k count start lintype
                  thresh tol dist vprec vnext vcur data il.

Definition islin_post npoints thresh tol (data : list T) (r : outcome T * state T) : Prop :=
  exists i k count start lintype dist vprec vnext vcur il,
    List.length il = List.length data /\
    r = (ONormal, il_state (zlen data) npoints i k count start lintype
                  thresh tol dist vprec vnext vcur data il).

(* Size hypothesis: nval = zlen data <= INT_MAX (a C int).  Checked operations:
   i++ (i < nval, both loops),  k++ (k < i),  start = i - 2 (i >= 2),
   count++ (count <= i - 2: invariant [islin_inv]).  npoints is only compared. *)
Theorem chk_safe_c_islin thresh tol npoints data il n :
  List.length il = List.length data -> (List.length data < n)%nat ->
  zlen data <= INT_MAX ->
  exists out, exec_fun N X program_chk (S n) "c_islin"
     [AVI (zlen data); AVF thresh; AVF tol; AVI npoints; AVArrF data; AVArrI il]
   = Ok (RI 0, [VArrF data; VArrI out]) /\ List.length out = List.length data.
Proof.
  intros Hil Hn Hmax. assert (Hmax' := Hmax). rewrite zlen_eq in Hmax'. unfold INT_MAX in Hmax'.
  rewrite exec_fun_S. cbn -[exec_fun exec]. norm_state. do 10 step. run.
  destruct (zlen data <? 3) eqn:H3; run.
  - match goal with |- context[loop n _ _ ?s] =>
      change s with (il_state (zlen data) npoints 0 0 0 0 0 thresh tol (nofZ N 0) (nofZ N 0) (nofZ N 0) (nofZ N 0) data il) end.
    destruct (islin_zero_loop (exec_fun N X program_chk n) n (zlen data) npoints 0 0 0 0 thresh tol
                (nofZ N 0) (nofZ N 0) (nofZ N 0) (nofZ N 0) data il) as (i' & il' & E & L).
    { rewrite zlen_eq. lia. } { rewrite zlen_eq. lia. } { exact Hmax. }
    rewrite E. run. exists il'. split; [reflexivity|lia].
  - apply Z.ltb_ge in H3. rewrite zlen_eq in H3.
    remember (zlen data) as nv eqn:Hnv.
    destruct data as [|x0 [|x1 data']]; try (cbn in H3; lia).
    destruct il as [|i0 [|i1 il']]; try (cbn in Hil; lia).
    run.
    match goal with |- context[if ?b then Ok (@ONormal T, ?A) else Ok (@ONormal T, ?B)] =>
      replace (if b then Ok (@ONormal T, A) else Ok (@ONormal T, B))
        with (Ok (@ONormal T, set_f B "vprec" (if b then nsub N thresh (nofZ N 1) else x0)))
        by (destruct b; reflexivity) end.
    run.
    match goal with |- context[if ?b then Ok (@ONormal T, ?A) else Ok (@ONormal T, ?B)] =>
      replace (if b then Ok (@ONormal T, A) else Ok (@ONormal T, B))
        with (Ok (@ONormal T, set_f B "vcur" (if b then nsub N thresh (nofZ N 1) else x1)))
        by (destruct b; reflexivity) end.
    run. norm_state.
    remember (x0 :: x1 :: data') as data eqn:Hdata.
    subst nv.
    loop_with (islin_inv npoints thresh tol data) (islin_post npoints thresh tol data)
              (List.length data).
    + intros j st (Hj & k & count & start & lintype & dist & vprec & vnext & vcur & il & Lil & Hst & Hcount & ->).
      split; [lia|]. unfold il_state. run. rewrite zlen_eq.
      destruct (Z.ltb_spec (2 + Z.of_nat j) (Z.of_nat (List.length data))) as [Hlt|Hge]; run.
      2:{ do 10 eexists. split; [exact Lil|]. unfold il_state. rewrite zlen_eq. reflexivity. }
      destruct (zget_some data (2 + Z.of_nat j)) as (x & Hx); [lia|]. rewrite Hx. run.
      destruct (zset_some il (2 + Z.of_nat j) 0) as (il2 & E2 & L2); [lia|]. rewrite E2. run.
      set (dist' := nabs N (nsub N vcur (ndiv N (nadd N vprec x) (nofZ N 2)))).
      assert (Hfin : forall k' count' start' lintype' il3,
                 List.length il3 = List.length data -> 0 <= start' ->
                 0 <= count' <= Z.of_nat (S j) ->
                 islin_inv npoints thresh tol data (S j)
                   (il_state (zlen data) npoints (2 + Z.of_nat j + 1) k' count' start' lintype'
                             thresh tol dist' vcur x x data il3)).
      { intros k' count' start' lintype' il3 L3 Hs3 Hc3. split; [lia|].
        do 9 eexists. split; [exact L3|]. split; [exact Hs3|]. split; [exact Hc3|].
        replace (2 + Z.of_nat j + 1) with (2 + Z.of_nat (S j)) by lia. reflexivity. }
      destruct (_ && _ && truth _) eqn:Hc.
      * destruct (count =? 0) eqn:Hc0; run.
        all: destruct (nltb N (nabs N (nsub N x vprec)) tol); run.
        all: norm_state; rewrite <- zlen_eq; apply Hfin; lia.
      * destruct (npoints <=? count) eqn:Hnp; run.
        -- match goal with |- context[loop n _ _ ?s] =>
             change s with (il_state (Z.of_nat (List.length data)) npoints (2 + Z.of_nat j) start count start
                              lintype thresh tol dist' vprec x vcur data il2) end.
           destruct (islin_fill_loop (exec_fun N X program_chk n) n (Z.of_nat (List.length data)) npoints
                       (2 + Z.of_nat j) count start lintype thresh tol dist' vprec x vcur data il2)
             as (k' & il3 & E3 & L3); [lia|lia|lia|unfold INT_MAX; lia|].
           rewrite E3. run. norm_state. rewrite <- zlen_eq. apply Hfin; lia.
        -- norm_state. rewrite <- zlen_eq. apply Hfin; lia.
    + split; [lia|]. do 9 eexists. split; [|split; [|split]].
      4:{ unfold il_state. replace (2 + Z.of_nat 0) with 2 by lia. reflexivity. }
      all: cbn in *; lia.
    + lia.
    + destruct HL as (r & -> & i & k & count & start & lintype & dist & vprec & vnext & vcur & il & Lil & ->).
      run. exists il. split; [reflexivity|]. rewrite Lil, Hdata. reflexivity.
Qed.

(* ================================================================== *)
(* c_eckhardt (c_baseflow.c)                                            *)

Definition ek_state (nval tt i : Z) (thresh tau bfi q qtmp bf1 bf2 tl c1 c2 c3 alpha : T)
           (inputs outputs : list T) : state T :=
  {| s_i := [("nval", nval); ("timestep_type", tt); ("i", i)];
     s_f := [("thresh", thresh); ("tau", tau); ("BFI_max", bfi); ("q", q); ("qtmp", qtmp);
             ("bf1", bf1); ("bf2", bf2); ("timestep_length", tl); ("C1", c1); ("C2", c2);
             ("C3", c3); ("alpha", alpha)];
     s_ai := [];
     s_af := [("inputs", inputs); ("outputs", outputs)] |}.

Definition ek_inv tt thresh tau bfi tl c1 c2 c3 alpha (inputs : list T) (j : nat) (st : state T) : Prop :=
  (1 + j <= List.length inputs)%nat /\
  exists q qtmp bf1 bf2 out,
    List.length out = List.length inputs /\
    st = ek_state (zlen inputs) tt (1 + Z.of_nat j) thresh tau bfi q qtmp bf1 bf2 tl c1 c2 c3 alpha inputs out.

Definition ek_post tt thresh tau bfi tl c1 c2 c3 alpha (inputs : list T) (r : outcome T * state T) : Prop :=
  exists i q qtmp bf1 bf2 out,
    List.length out = List.length inputs /\
    r = (ONormal, ek_state (zlen inputs) tt i thresh tau bfi q qtmp bf1 bf2 tl c1 c2 c3 alpha inputs out).

(* Size hypothesis: nval = zlen inputs <= INT_MAX (a C int); the only checked operation
   is i++ with i < nval. *)
Theorem chk_safe_c_eckhardt tt thresh tau bfi inputs outputs n :
  (forall v, next X "exp" [v] <> None) ->
  List.length outputs = List.length inputs -> (List.length inputs < n)%nat ->
  zlen inputs <= INT_MAX ->
  exists ret out, exec_fun N X program_chk (S n) "c_eckhardt"
     [AVI (zlen inputs); AVI tt; AVF thresh; AVF tau; AVF bfi; AVArrF inputs; AVArrF outputs]
   = Ok (RI ret, [VArrF inputs; VArrF out]) /\ List.length out = List.length inputs /\
     (ret = 0 \/ ret = 33).
Proof.
  intros Hexp Hout Hn Hmax. rewrite zlen_eq in Hmax. unfold INT_MAX in Hmax. rewrite exec_fun_S. cbn -[exec_fun exec]. norm_state. do 10 step.
  run.
  destruct (negb (tt =? 0) && negb (tt =? 1)) eqn:Htt; run.
  { exists 33, outputs. split; [reflexivity|]. split; [exact Hout|right; reflexivity]. }
  destruct (nltb N thresh (nofZ N 0) || nltb N (nofZ N 1) thresh) eqn:Hth; run.
  { exists 33, outputs. split; [reflexivity|]. split; [exact Hout|right; reflexivity]. }
  destruct (nltb N bfi (nofZ N 0) || nltb N (nofZ N 1) bfi) eqn:Hbfi; run.
  { exists 33, outputs. split; [reflexivity|]. split; [exact Hout|right; reflexivity]. }
  rewrite if_ok. run.
  set (tl := nofZ N (if tt =? 0 then 1 else 24)).
  destruct (next X "exp" [ndiv N (nopp N tl) tau]) as [alpha|] eqn:Ealpha; [|exfalso; exact (Hexp _ Ealpha)].
  run.
  set (c1 := nmul N (nsub N (nofZ N 1) bfi) alpha).
  set (c2 := nmul N (nsub N (nofZ N 1) alpha) bfi).
  set (c3 := nsub N (nofZ N 1) (nmul N alpha bfi)).
  destruct (zlen inputs <? 1) eqn:H1; run.
  { exists 0, outputs. split; [reflexivity|]. split; [exact Hout|left; reflexivity]. }
  apply Z.ltb_ge in H1. rewrite zlen_eq in H1.
  remember (zlen inputs) as nv eqn:Hnv.
  destruct inputs as [|x0 inputs']; [cbn in H1; lia|].
  destruct outputs as [|o0 outputs']; [cbn in Hout; lia|].
  run. rewrite if_ok. run. norm_state.
  remember (x0 :: inputs') as inputs eqn:Hinputs. subst nv.
  loop_with (ek_inv tt thresh tau bfi tl c1 c2 c3 alpha inputs)
            (ek_post tt thresh tau bfi tl c1 c2 c3 alpha inputs) (List.length inputs).
  - intros j st (Hj & q & qtmp & bf1 & bf2 & out & Lout & ->).
    split; [lia|]. unfold ek_state. run. rewrite zlen_eq.
    destruct (Z.ltb_spec (1 + Z.of_nat j) (Z.of_nat (List.length inputs))) as [Hlt|Hge]; run.
    2:{ do 6 eexists. split; [exact Lout|]. unfold ek_state. rewrite zlen_eq. reflexivity. }
    destruct (zget_some inputs (1 + Z.of_nat j)) as (x & Hx); [lia|]. rewrite Hx. run.
    repeat (progress (rewrite ?if_ok; run)).
    match goal with |- context[zset out _ ?v] =>
      destruct (zset_some out (1 + Z.of_nat j) v) as (out2 & E2 & L2); [lia|]; rewrite E2 end.
    run. split; [lia|]. do 5 eexists. split; [|norm_state; unfold ek_state; rewrite zlen_eq;
      replace (1 + Z.of_nat j + 1) with (1 + Z.of_nat (S j)) by lia; reflexivity].
    lia.
  - split; [lia|]. do 5 eexists. split; [|unfold ek_state; replace (1 + Z.of_nat 0) with 1 by lia; reflexivity].
    cbn in *; lia.
  - lia.
  - destruct HL as (r & -> & i & q & qtmp & bf1 & bf2 & out & Lout & ->).
    run. exists 0, out. split; [reflexivity|]. split; [|left; reflexivity].
    rewrite Lout, Hinputs. reflexivity.
Qed.

End Safe.

(* ================================================================== *)
(* c_dateutils_getdate: over the reals with a NaN (instance RN / XRN)    *)
(* and over the reals (RR / XRR) the casts of an accepted day are        *)
(* defined AND the integer arithmetic on them cannot overflow:           *)
(* 0 <= day <= 2147483647 gives year <= 214748, year*10000 <= 2147480000,*)
(* month = b - 100*year with b <= 21474836, nday = c - 100*b in 0..99.   *)
From Coq Require Import Reals Lra.

Lemma Int_part_bounds' (x : R) : (IZR (Int_part x) <= x < IZR (Int_part x) + 1)%R.
Proof. destruct (base_Int_part x). lra. Qed.

(* the cast of 0 <= x < M + 1: defined, in [0, M], and it is the floor of x *)
Lemma R_trunc_bounds (x : R) (M : Z) : (0 <= x < IZR (M + 1))%R ->
  exists z, R_trunc x = Some z /\ 0 <= z <= M /\ (IZR z <= x < IZR z + 1)%R.
Proof.
  intros [H0 H1]. unfold R_trunc. destruct (Rle_dec 0 x) as [_|C]; [|contradiction].
  exists (Int_part x). split; [reflexivity|].
  assert (B := Int_part_bounds' x).
  assert (0 <= Int_part x) by (apply Z.lt_succ_r; apply lt_IZR; rewrite succ_IZR; lra).
  assert (Int_part x < M + 1) by (apply lt_IZR; lra).
  split; [lia|exact B].
Qed.

(* [getdate_noovf] for the three floors of a real day number in [0, INT_MAX] *)
Lemma getdate_real_casts (x : R) : (0 <= x <= 2147483647)%R ->
  exists a b c,
    (R_trunc (x * (1 / 10000)) = Some a /\ in_width W32 a = true) /\
    (R_trunc (x * (1 / 100)) = Some b /\ in_width W32 b = true) /\
    (R_trunc x = Some c /\ in_width W32 c = true) /\
    getdate_noovf a b c.
Proof.
  intros Hx.
  destruct (R_trunc_bounds (x * (1 / 10000)) 214748) as (a & Ea & Ba & Fa); [simpl IZR; lra|].
  destruct (R_trunc_bounds (x * (1 / 100)) 21474836) as (b & Eb & Bb & Fb); [simpl IZR; lra|].
  destruct (R_trunc_bounds x 2147483647) as (c & Ec & Bc & Fc); [simpl IZR; lra|].
  (* c = floor x and b = floor (x / 100):  100 b <= c < 100 b + 100 *)
  assert (Hlo : 100 * b < c + 1).
  { apply lt_IZR. rewrite mult_IZR, plus_IZR. simpl IZR. lra. }
  assert (Hhi : c < 100 * b + 100).
  { apply lt_IZR. rewrite plus_IZR, mult_IZR. simpl IZR. lra. }
  exists a, b, c.
  split; [split; [exact Ea|apply in_width_W32; lia]|].
  split; [split; [exact Eb|apply in_width_W32; lia]|].
  split; [split; [exact Ec|apply in_width_W32; lia]|].
  unfold getdate_noovf, in_int32. lia.
Qed.

Lemma getdate_casts_defined_noovf_RN : getdate_casts_defined_noovf RN XRN.
Proof.
  intros [x|] Hrej; [|discriminate Hrej].
  unfold getdate_reject, lit_intmax in Hrej. cbn in Hrej. unfold lit_R in Hrej.
  apply orb_false_iff in Hrej. destruct Hrej as [H0 H1].
  apply Rltb_false in H0. apply Rltb_false in H1.
  unfold trunc32, lit_1em4, lit_1em2. cbn. unfold lit_R.
  destruct (getdate_real_casts x) as (a & b & c & Ha & Hb & Hc & Ho); [lra|].
  exists a, b, c. repeat split; try apply Ha; try apply Hb; try apply Hc; apply Ho.
Qed.

Lemma getdate_casts_defined_noovf_RR : getdate_casts_defined_noovf RR XRR.
Proof.
  intros x Hrej.
  unfold getdate_reject, lit_intmax in Hrej. cbn in Hrej. unfold lit_R in Hrej.
  apply orb_false_iff in Hrej. destruct Hrej as [H0 H1].
  apply Rltb_false in H0. apply Rltb_false in H1.
  unfold trunc32, lit_1em4, lit_1em2. cbn. unfold lit_R.
  destruct (getdate_real_casts x) as (a & b & c & Ha & Hb & Hc & Ho); [lra|].
  exists a, b, c. repeat split; try apply Ha; try apply Hb; try apply Hc; apply Ho.
Qed.

(* any day number, NaN included, any content of date[3]: no overflow, no size hypothesis *)
Theorem chk_safe_c_dateutils_getdate_RN day y0 m0 d0 rest n :
  (1 < n)%nat ->
  exists ret out,
    exec_fun RN XRN program_chk (S n) "c_dateutils_getdate" [AVF day; AVArrI (y0 :: m0 :: d0 :: rest)]
    = Ok (RI ret, [VArrI out]) /\
    List.length out = List.length (y0 :: m0 :: d0 :: rest).
Proof. apply chk_safe_c_dateutils_getdate. exact getdate_casts_defined_noovf_RN. Qed.

Theorem chk_safe_c_dateutils_getdate_RR day y0 m0 d0 rest n :
  (1 < n)%nat ->
  exists ret out,
    exec_fun RR XRR program_chk (S n) "c_dateutils_getdate" [AVF day; AVArrI (y0 :: m0 :: d0 :: rest)]
    = Ok (RI ret, [VArrI out]) /\
    List.length out = List.length (y0 :: m0 :: d0 :: rest).
Proof. apply chk_safe_c_dateutils_getdate. exact getdate_casts_defined_noovf_RR. Qed.

(* ================================================================== *)
(* binary64 (F64 / XF64): as for [program], the general theorem for      *)
(* c_dateutils_getdate is not instantiated (it needs bounds on the       *)
(* rounded products day*1e-4, day*1e-2); the extreme accepted and the    *)
(* rejected days run without overflow                                    *)

Example chk_getdate_F64_extremes :
  (exists code, 0 < code /\
     exec_fun F64 XF64 program_chk 5 "c_dateutils_getdate" [AVF 2147483647%float; AVArrI [0; 0; 0]]
     = Ok (RI code, [VArrI [0; 0; 0]])) /\
  exec_fun F64 XF64 program_chk 5 "c_dateutils_getdate" [AVF 20000229%float; AVArrI [0; 0; 0]]
  = Ok (RI 0, [VArrI [2000; 2; 29]]) /\
  (exists code, 0 < code /\
     exec_fun F64 XF64 program_chk 5 "c_dateutils_getdate" [AVF (-0)%float; AVArrI [0; 0; 0]]
     = Ok (RI code, [VArrI [0; 0; 0]])) /\
  (exists code, 0 < code /\
     exec_fun F64 XF64 program_chk 5 "c_dateutils_getdate" [AVF nan; AVArrI [0; 0; 0]]
     = Ok (RI code, [VArrI [0; 0; 0]])) /\
  (exists code, 0 < code /\
     exec_fun F64 XF64 program_chk 5 "c_dateutils_getdate" [AVF infinity; AVArrI [0; 0; 0]]
     = Ok (RI code, [VArrI [0; 0; 0]])) /\
  (exists code, 0 < code /\
     exec_fun F64 XF64 program_chk 5 "c_dateutils_getdate" [AVF 0x1p+1000%float; AVArrI [0; 0; 0]]
     = Ok (RI code, [VArrI [0; 0; 0]])).
Proof.
  repeat split; try (vm_compute; reflexivity);
    eexists; (split; [|vm_compute; reflexivity]); reflexivity.
Qed.

(* the guard  if(date[0] == INT_MAX) return ERROR  of the repaired C code at work:
   31 December of year INT_MAX is refused, year INT_MAX - 1 is incremented *)
Example chk_add1day_year_guard :
  (exists code, 0 < code /\
     exec_fun F64 XF64 program_chk 5 "c_dateutils_add1day" [AVArrI [2147483647; 12; 31]]
     = Ok (RI code, [VArrI [2147483647; 12; 1]])) /\
  exec_fun F64 XF64 program_chk 5 "c_dateutils_add1day" [AVArrI [2147483646; 12; 31]]
  = Ok (RI 0, [VArrI [2147483647; 1; 1]]) /\
  (exists code, 0 < code /\
     exec_fun F64 XF64 program_chk 5 "c_dateutils_add1month" [AVArrI [2147483647; 12; 31]]
     = Ok (RI code, [VArrI [2147483647; 12; 31]])) /\
  exec_fun F64 XF64 program_chk 5 "c_dateutils_add1month" [AVArrI [2147483646; 12; 31]]
  = Ok (RI 0, [VArrI [2147483647; 1; 31]]).
Proof.
  repeat split; try (vm_compute; reflexivity);
    eexists; (split; [|vm_compute; reflexivity]); reflexivity.
Qed.

(* the hypotheses [in_int32] say that date[] holds C ints; on values outside that range
   (which no C caller can pass) the checked interpreter reports the overflow *)
Example chk_tight_add1month_month_not_int :
  exec_fun F64 XF64 program_chk 5 "c_dateutils_add1month" [AVArrI [2000; -2147483650; 1]]
  = Err (Overflow true (-2147483649)).
Proof. vm_compute. reflexivity. Qed.

Example chk_tight_add1day_year_not_int :
  exec_fun F64 XF64 program_chk 5 "c_dateutils_add1day" [AVArrI [2147483648; 12; 31]]
  = Err (Overflow true 2147483649).
Proof. vm_compute. reflexivity. Qed.

(* the buffer-length hypotheses cannot be dropped (as for [program]) *)
Example chk_tight_add1month_short :
  exec_fun F64 XF64 program_chk 5 "c_dateutils_add1month" [AVArrI [2000; 1]] = Err (OOB "date" 2).
Proof. vm_compute. reflexivity. Qed.

Example chk_tight_comparedates_short :
  exec_fun F64 XF64 program_chk 5 "c_dateutils_comparedates" [AVArrI [2000; 1]; AVArrI [2000; 1; 1]]
  = Err (OOB "date1" 2).
Proof. vm_compute. reflexivity. Qed.

Example chk_tight_islin_short_out :
  exec_fun F64 XF64 program_chk 5 "c_islin"
    [AVI 1; AVF 0%float; AVF 1%float; AVI 1; AVArrF [1%float]; AVArrI []] = Err (OOB "islin" 0).
Proof. vm_compute. reflexivity. Qed.

Example chk_tight_islin_nval_too_large :
  exec_fun F64 XF64 program_chk 5 "c_islin"
    [AVI 3; AVF 0%float; AVF 1%float; AVI 1; AVArrF [1%float; 1%float]; AVArrI [0; 0; 0]]
  = Err (OOB "data" 2).
Proof. vm_compute. reflexivity. Qed.

(* ================================================================== *)
(* PART 2.  c_aggregate, c_flathomogen (source: Proofs/RefineDutils.v)   *)
(* ================================================================== *)
(* Generic helpers about MiniC (as in RefineDutils.v)                   *)
(* ================================================================== *)

(* Controlled symbolic execution.  [cbn] on [exec] applied to a long statement
   whose control flow is blocked on a symbolic condition unfolds the whole
   continuation on a symbolic state: the tactic is fast, but the conversion
   check at [Qed] does not terminate in reasonable time (> 10 min for the
   prefix of c_aggregate).  In this file [exec] is therefore never unfolded by
   [cbn]: statements are executed one at a time by rewriting with the
   (definitional) equations below, the continuation staying folded. *)
#[local] Arguments exec : simpl never.

Section ExecLemmas.
Context {T : Type} (N : NumOps T) (X : NumLit T) (cf : callee T) (fuel : nat).
Notation exec := (exec N X cf fuel).

Lemma exec_SSeq a b st :
  exec (SSeq a b) st =
  match exec a st with Ok (ONormal, st') => exec b st' | r => r end.
Proof. reflexivity. Qed.
Lemma exec_SSkip st : exec SSkip st = Ok (ONormal, st).
Proof. reflexivity. Qed.
Lemma exec_SSetI x e st :
  exec (SSetI x e) st = (do v <- eval_i N X st e; Ok (ONormal, set_i st x v)).
Proof. reflexivity. Qed.
Lemma exec_SSetF x e st :
  exec (SSetF x e) st = (do v <- eval_f N X st e; Ok (ONormal, set_f st x v)).
Proof. reflexivity. Qed.
Lemma exec_SStoreI a i e st : exec (SStoreI a i e) st =
  (do k <- eval_i N X st i; do v <- eval_i N X st e; do st' <- write_i st a k v; Ok (ONormal, st')).
Proof. reflexivity. Qed.
Lemma exec_SStoreF a i e st : exec (SStoreF a i e) st =
  (do k <- eval_i N X st i; do v <- eval_f N X st e; do st' <- write_f st a k v; Ok (ONormal, st')).
Proof. reflexivity. Qed.
Lemma exec_SIf c a b st : exec (SIf c a b) st =
  (do v <- eval_i N X st c; if truth v then exec a st else exec b st).
Proof. reflexivity. Qed.
Lemma exec_SRetI e st : exec (SRetI e) st = (do v <- eval_i N X st e; Ok (ORet (RI v), st)).
Proof. reflexivity. Qed.
Lemma exec_SFor c step b st : exec (SFor c step b) st =
  loop fuel (cond_of N X c) (for_body (exec b) (exec step)) st.
Proof. reflexivity. Qed.
End ExecLemmas.

(* unfold [exec] at the head statement(s) whose state is explicit *)
Ltac xhead :=
  match goal with
  | |- context[exec ?N ?X ?cf ?fu (SSeq ?a ?b) ?st] => rewrite (exec_SSeq N X cf fu a b st)
  | |- context[exec ?N ?X ?cf ?fu (SSetI ?x ?e) ?st] => rewrite (exec_SSetI N X cf fu x e st)
  | |- context[exec ?N ?X ?cf ?fu (SSetF ?x ?e) ?st] => rewrite (exec_SSetF N X cf fu x e st)
  | |- context[exec ?N ?X ?cf ?fu (SStoreI ?a ?i ?e) ?st] => rewrite (exec_SStoreI N X cf fu a i e st)
  | |- context[exec ?N ?X ?cf ?fu (SStoreF ?a ?i ?e) ?st] => rewrite (exec_SStoreF N X cf fu a i e st)
  | |- context[exec ?N ?X ?cf ?fu (SRetI ?e) ?st] => rewrite (exec_SRetI N X cf fu e st)
  | |- context[exec ?N ?X ?cf ?fu SSkip ?st] => rewrite (exec_SSkip N X cf fu st)
  end.
(* [iw]: the overflow tests whose operand is in range (by [lia]) are resolved on the way *)
Ltac xnorm := cbn; rewrite ?truth_b2z, ?b2z_truth_b2z, ?or_ok, ?and_ok;
  repeat (iw1; cbn; rewrite ?truth_b2z, ?b2z_truth_b2z, ?or_ok, ?and_ok); norm_state.
(* one straight-line statement; [xrun]: as many as possible (stops at a blocked
   array access, at [SIf], at a loop) *)
Ltac xs := repeat xhead; xnorm.
Ltac xrun := repeat (progress xs).
(* expose the condition of the [SIf] at the head:
   [if <cond> then exec a st else exec b st] *)
Ltac xif :=
  try match goal with
  | |- context[exec ?N ?X ?cf ?fu (SSeq ?a ?b) ?st] => rewrite (exec_SSeq N X cf fu a b st)
  end;
  match goal with
  | |- context[exec ?N ?X ?cf ?fu (SIf ?c ?a ?b) ?st] => rewrite (exec_SIf N X cf fu c a b st)
  end; xnorm.
Ltac xfor :=
  try match goal with
  | |- context[exec ?N ?X ?cf ?fu (SSeq ?a ?b) ?st] => rewrite (exec_SSeq N X cf fu a b st)
  end;
  match goal with
  | |- context[exec ?N ?X ?cf ?fu (SFor ?c ?s ?b) ?st] => rewrite (exec_SFor N X cf fu c s b st)
  end.

Lemma skipn_lt_cons {A} (l : list A) (c : nat) :
  (c < List.length l)%nat -> exists y, skipn c l = y :: skipn (S c) l.
Proof.
  revert c; induction l as [|x l IH]; intros c H; cbn in H; [lia|].
  destruct c as [|c]; [exists x; reflexivity|].
  destruct (IH c) as [y Hy]; [lia|]. exists y. exact Hy.
Qed.

(* [merge_if] of Base/MiniC.v with a fallback when anti-unification of two
   applications yields an ill-typed term (heads of different arity) *)
Ltac merge_terms' b A B :=
  match A with
  | B => A
  | ?f ?x =>
      match B with
      | ?g ?y =>
          let fg := merge_terms' b f g in
          let xy := merge_terms' b x y in
          constr:(fg xy)
      end
  | _ => constr:(if b then A else B)
  end.
Ltac merge_if' :=
  match goal with
  | |- context[if ?b then Ok ?A else Ok ?B] =>
      let t := merge_terms' b A B in
      replace (if b then Ok A else Ok B) with (Ok t) by (destruct b; reflexivity)
  end.

Lemma skipn_skipn' {A} (a b : nat) (l : list A) : skipn a (skipn b l) = skipn (b + a) l.
Proof.
  revert l; induction b as [|b IH]; intros l; [reflexivity|].
  destruct l as [|x l]; [destruct a; reflexivity|]. cbn. apply IH.
Qed.

(* ============ end of the generic block ============================ *)


Section Refine.
Context {T : Type} (N : NumOps T) (X : NumLit T).

(* ================================================================== *)
(* c_aggregate                                                          *)
(* ================================================================== *)

Notation aggstT := (aggst (T:=T)).

Definition ag_next (op : Z) (s1 : aggstT) (x : T) : aggstT :=
  let valid := negb (nisnan N x) in
  let inp := if valid then x else n0 N in
  let n' := if valid then ag_n s1 + 1 else ag_n s1 in
  let nan' := if valid then ag_nan s1 else ag_nan s1 + 1 in
  mkAgg (ag_prev s1) (agg_upd N op (ag_agg s1) n' valid inp) n' nan' (ag_count s1) (ag_out s1).

Definition ag_flush (op maxnan ia : Z) (s : aggstT) : aggstT :=
  mkAgg ia (n0 N) 0 0 (ag_count s + 1) (ag_out s ++ [agg_close N op maxnan s]).

Lemma ag_loop_cons op maxnan nval ia x l s :
  agg_loop N (agg_upd N) op maxnan nval ((ia, x) :: l) s =
  if ia <? ag_prev s then KErrOrder
  else if negb (ia =? ag_prev s) && (nval <=? ag_count s + 1) then KErrCount
  else agg_loop N (agg_upd N) op maxnan nval l
         (ag_next op (if negb (ia =? ag_prev s) then ag_flush op maxnan ia s else s) x).
Proof. reflexivity. Qed.

Definition ag_state (nval op maxnan : Z) (idx : list Z) (xs : list T) (ie : list Z)
   (s : aggstT) (i ia isvalid : Z) (inp : T) (outs : list T) : state T :=
  {| s_i := [("nval", nval); ("operator", op); ("maxnan", maxnan); ("i", i);
             ("nagg", ag_n s); ("nagg_nan", ag_nan s); ("count", ag_count s);
             ("ia", ia); ("iaprev", ag_prev s); ("isvalid", isvalid)];
     s_f := [("agg", ag_agg s); ("inp", inp); ("nan", nnan N); ("zero", nlit X 0%float 0 1)];
     s_ai := [("aggindex", idx); ("iend", ie)];
     s_af := [("inputs", xs); ("outputs", outs)] |}.

Definition ag_outs (s : aggstT) (outbuf : list T) : list T :=
  ag_out s ++ skipn (List.length (ag_out s)) outbuf.

Lemma ag_outs_length s outbuf :
  (List.length (ag_out s) <= List.length outbuf)%nat ->
  List.length (ag_outs s outbuf) = List.length outbuf.
Proof. intros H. unfold ag_outs. rewrite app_length, skipn_length. lia. Qed.

Lemma ag_outs_set s outbuf v :
  ag_count s = Z.of_nat (List.length (ag_out s)) ->
  (List.length (ag_out s) < List.length outbuf)%nat ->
  zset (ag_outs s outbuf) (ag_count s) v =
  Some ((ag_out s ++ [v]) ++ skipn (List.length (ag_out s ++ [v])) outbuf).
Proof.
  intros Hc Hlt. unfold ag_outs.
  destruct (skipn_lt_cons outbuf _ Hlt) as [y Hy]. rewrite Hy.
  rewrite zset_app by exact Hc. rewrite <- app_assoc. cbn [app].
  rewrite app_length. cbn [List.length]. rewrite Nat.add_1_r. reflexivity.
Qed.

Definition ag_inv nval op maxnan (l : list (Z * T)) outbuf ie s0 (k : nat) (st : state T) : Prop :=
  exists done todo s ia isvalid inp,
    l = done ++ todo /\ List.length done = k /\
    agg_loop N (agg_upd N) op maxnan nval l s0 = agg_loop N (agg_upd N) op maxnan nval todo s /\
    ag_count s = Z.of_nat (List.length (ag_out s)) /\ ag_count s < nval /\
    (* new in the checked proof: the counters of the current group are bounded by i *)
    0 <= ag_n s /\ 0 <= ag_nan s /\ ag_n s + ag_nan s <= Z.of_nat k /\
    st = ag_state nval op maxnan (map fst l) (map snd l) ie s (Z.of_nat k) ia isvalid inp
           (ag_outs s outbuf).

Definition ag_post nval op maxnan (l : list (Z * T)) outbuf ie s0 (r : outcome T * state T) : Prop :=
  match agg_loop N (agg_upd N) op maxnan nval l s0 with
  | KDone s => exists ia isvalid inp,
      ag_count s = Z.of_nat (List.length (ag_out s)) /\ ag_count s < nval /\
      r = (ONormal, ag_state nval op maxnan (map fst l) (map snd l) ie s (Z.of_nat (List.length l))
                      ia isvalid inp (ag_outs s outbuf))
  | KUndef => False
  | _ => exists code st' out', 0 < code /\ r = (ORet (RI code), st') /\
      s_ai st' = [("aggindex", map fst l); ("iend", ie)] /\
      s_af st' = [("inputs", map snd l); ("outputs", out')] /\
      List.length out' = List.length outbuf
  end.

Definition ag_args (op maxnan : Z) (l : list (Z * T)) (outbuf : list T) (ie : Z) : list (argval T) :=
  [AVI (zlen l); AVI op; AVI maxnan; AVArrI (map fst l); AVArrF (map snd l);
   AVArrF outbuf; AVArrI [ie]].

(* what the model says about the result [r] of the kernel *)
Definition ag_final op maxnan (l : list (Z * T)) outbuf (ie : Z) (s0 : aggstT)
           (r : retval T * list (arrval T)) : Prop :=
  match agg_loop N (agg_upd N) op maxnan (zlen l) l s0 with
  | KDone s =>
      let written := ag_out s ++ [agg_close N op maxnan s] in
      r = (RI 0, [VArrI (map fst l); VArrF (map snd l);
                  VArrF (written ++ skipn (List.length written) outbuf);
                  VArrI [ag_count s + 1]])
  | KUndef => False
  | _ => exists code out', 0 < code /\ List.length out' = List.length outbuf /\
      r = (RI code, [VArrI (map fst l); VArrF (map snd l); VArrF out'; VArrI [ie]])
  end.

(* the kernel on a non-empty input given as a list of (index, value) pairs *)
Lemma aggregate_run (HZ : nofZ N 0 = n0 N) op maxnan k0 x0 (l' : list (Z*T)) outbuf ie n :
  List.length outbuf = S (List.length l') ->
  (S (List.length l') < n)%nat ->
  Z.of_nat (S (List.length l')) <= INT_MAX ->
  let l := (k0, x0) :: l' in
  exists r, exec_fun N X program_chk (S n) "c_aggregate" (ag_args op maxnan l outbuf ie) = Ok r /\
            ag_final op maxnan l outbuf ie (mkAgg k0 (n0 N) 0 0 0 []) r.
Proof.
  intros Hob Hn Hmax l. unfold ag_args, ag_final. unfold INT_MAX in Hmax.
  assert (Hnval : zlen l = Z.of_nat (List.length l)) by apply zlen_eq.
  assert (Hlen : List.length l = S (List.length l')) by reflexivity.
  assert (Hhd : zget (map fst l) 0 = Some k0) by reflexivity.
  clearbody l.
  remember (zlen l) as nval eqn:Env.
  set (s0 := mkAgg k0 (n0 N) 0 0 0 []).
  cbn. xrun. xif.
  replace (nval <? 1) with false by (symmetry; apply Z.ltb_ge; lia).
  xs. rewrite Hhd. xrun. rewrite HZ. xfor.
  loop_with (ag_inv nval op maxnan l outbuf [ie] s0) (ag_post nval op maxnan l outbuf [ie] s0) (List.length l).
  - intros k st (done & todo & s & ia & isv & inp & Hl & Hk & Hloop & Hc & Hcn & Hn0 & Hnan0 & Hsum & ->).
    assert (Hlen2 : List.length l = (k + List.length todo)%nat)
      by (rewrite Hl, app_length; lia).
    split; [lia|].
    unfold ag_post. rewrite Hloop.
    unfold ag_state. cbn.
    destruct todo as [|[ia' x] todo].
    + replace (Z.of_nat k <? nval) with false by (symmetry; apply Z.ltb_ge; cbn in Hlen2; lia).
      cbn. exists ia, isv, inp. split; [exact Hc|]. split; [exact Hcn|].
      replace (List.length l) with k by (cbn in Hlen2; lia). reflexivity.
    + replace (Z.of_nat k <? nval) with true by (symmetry; apply Z.ltb_lt; cbn in Hlen2; lia).
      rewrite ag_loop_cons in Hloop |- *. cbn [List.length] in Hlen2.
      assert (Hgi : zget (map fst l) (Z.of_nat k) = Some ia')
        by (rewrite Hl, map_app; apply zget_app; rewrite map_length; lia).
      assert (Hgx : zget (map snd l) (Z.of_nat k) = Some x)
        by (rewrite Hl, map_app; apply zget_app; rewrite map_length; lia).
      assert (Hlo : (List.length (ag_out s) < List.length outbuf)%nat) by lia.
      cbn. xs. rewrite Hgi. xs. xif.
      destruct (ia' <? ag_prev s) eqn:Hord.
      * (* the index decreases: error return *)
        xs. do 3 eexists. split; [|split; [reflexivity|]]; [lia|].
        cbn. repeat split. apply ag_outs_length. lia.
      * xs. xif.
        destruct (ia' =? ag_prev s) eqn:Hfl; cbn [negb andb] in Hloop |- *.
        2:{ (* a new group: close the previous one *)
            xif. xs. merge_if'. xs. xif. xs. merge_if'. xs.
            change (if maxnan <? ag_nan s then nnan N else
                    if (op =? 1) && (0 <? ag_n s) then ndiv N (ag_agg s) (nofZ N (ag_n s)) else ag_agg s)
              with (agg_close N op maxnan s).
            rewrite ag_outs_set by (try exact Hc; lia).
            xs. xs. xif.
            destruct (nval <=? ag_count s + 1) eqn:Hcnt.
            { xs. do 3 eexists. split; [|split; [reflexivity|]]; [lia|].
              cbn. repeat split. rewrite ?app_length, skipn_length, ?app_length. cbn. lia. }
            apply Z.leb_gt in Hcnt.
            xrun. rewrite Hgx. xrun. xif.
            destruct (nisnan N x) eqn:Hnan;
            (xrun; xif;
             destruct (op <=? 1) eqn:Hop1;
               [|xif; destruct (op =? 2) eqn:Hop2;
                 [xif|xif; destruct (op =? 3) eqn:Hop3; [xif|]]];
             xrun; rewrite ?if_ok; xrun;
             exists (done ++ [(ia', x)]), todo, (ag_next op (ag_flush op maxnan ia' s) x);
             do 3 eexists;
             (split; [rewrite <- app_assoc; exact Hl|]);
             (split; [rewrite app_length; cbn; lia|]);
             (split; [exact Hloop|]);
             (split; [unfold ag_next, ag_flush; cbn; rewrite app_length; cbn; lia|]);
             (split; [unfold ag_next, ag_flush; cbn; lia|]);
             (split; [unfold ag_next, ag_flush; cbn; rewrite ?Hnan; cbn; lia|]);
             (split; [unfold ag_next, ag_flush; cbn; rewrite ?Hnan; cbn; lia|]);
             (split; [unfold ag_next, ag_flush; cbn; rewrite ?Hnan; cbn; lia|]);
             unfold ag_state, ag_outs, ag_next, ag_flush, agg_upd;
             cbn [ag_prev ag_agg ag_n ag_nan ag_count ag_out];
             rewrite ?Hnan, ?Hop1, ?Hop2, ?Hop3; cbn;
             rewrite ?HZ; replace (Z.of_nat k + 1) with (Z.of_nat (S k)) by lia;
             reflexivity). }
        (* same group *)
        xrun. rewrite Hgx. xrun. xif.
        destruct (nisnan N x) eqn:Hnan;
            (xrun; xif;
             destruct (op <=? 1) eqn:Hop1;
               [|xif; destruct (op =? 2) eqn:Hop2;
                 [xif|xif; destruct (op =? 3) eqn:Hop3; [xif|]]];
             xrun; rewrite ?if_ok; xrun;
             exists (done ++ [(ia', x)]), todo, (ag_next op s x);
             do 3 eexists;
             (split; [rewrite <- app_assoc; exact Hl|]);
             (split; [rewrite app_length; cbn; lia|]);
             (split; [exact Hloop|]);
             (split; [unfold ag_next; cbn; lia|]);
             (split; [unfold ag_next; cbn; lia|]);
             (split; [unfold ag_next; cbn; rewrite ?Hnan; cbn; lia|]);
             (split; [unfold ag_next; cbn; rewrite ?Hnan; cbn; lia|]);
             (split; [unfold ag_next; cbn; rewrite ?Hnan; cbn; lia|]);
             unfold ag_state, ag_outs, ag_next, agg_upd;
             cbn [ag_prev ag_agg ag_n ag_nan ag_count ag_out];
             rewrite ?Hnan, ?Hop1, ?Hop2, ?Hop3; cbn;
             rewrite ?HZ; replace (Z.of_nat k + 1) with (Z.of_nat (S k)) by lia;
             reflexivity).
  - exists [], l, s0, 0, 0, (n0 N). cbn.
    repeat split; try reflexivity; lia.
  - lia.
  - destruct HL as (r & -> & HP). unfold ag_post in HP.
    destruct (agg_loop N (agg_upd N) op maxnan nval l s0) as [| | |s] eqn:E.
    + contradiction.
    + destruct HP as (code & st' & out' & Hcode & -> & Hai & Haf & Hlo).
      cbn. unfold get_ai, get_af. rewrite Hai, Haf. cbn.
      eexists; split; [reflexivity|]. exists code, out'. repeat split; assumption.
    + destruct HP as (code & st' & out' & Hcode & -> & Hai & Haf & Hlo).
      cbn. unfold get_ai, get_af. rewrite Hai, Haf. cbn.
      eexists; split; [reflexivity|]. exists code, out'. repeat split; assumption.
    + destruct HP as (ia & isv & inp & Hc & Hcn & ->).
      unfold ag_state. cbn. xif. xs. merge_if'. xs. xif. xs. merge_if'. xs.
      change (if maxnan <? ag_nan s then nnan N else
              if (op =? 1) && (0 <? ag_n s) then ndiv N (ag_agg s) (nofZ N (ag_n s)) else ag_agg s)
        with (agg_close N op maxnan s).
      rewrite ag_outs_set by (try exact Hc; lia).
      xrun. eexists; split; reflexivity.
Qed.


Lemma map_fst_combine' {A B} (l1 : list A) (l2 : list B) :
  List.length l1 = List.length l2 -> map fst (combine l1 l2) = l1.
Proof.
  revert l2; induction l1 as [|a l1 IH]; intros [|b l2] H; cbn in *;
    try discriminate; [reflexivity|]. f_equal. apply IH. lia.
Qed.
Lemma map_snd_combine' {A B} (l1 : list A) (l2 : list B) :
  List.length l1 = List.length l2 -> map snd (combine l1 l2) = l2.
Proof.
  revert l2; induction l1 as [|a l1 IH]; intros [|b l2] H; cbn in *;
    try discriminate; [reflexivity|]. f_equal. apply IH. lia.
Qed.

(* c_aggregate.  Hypotheses = what the Cython wrapper guarantees: aggindex,
   inputs, outputs have the same length nval, iend has one entry.
   [HZ]: the C text initialises doubles with the int literal 0 ((double)0), the
   model with the constant [n0]; the two agree in F64, RR and RN.
   - idx <> []: the kernel's return value / arrays are those of the model;
     error returns (index decreasing; count >= nval) give a positive code,
     leave aggindex, inputs, iend untouched (outputs: partially written).
   - idx = [] (the model says KUndef): the kernel returns 0 and sets iend[0]=0.
   Size hypothesis: nval = zlen idx <= INT_MAX (it is passed as a C int).  It makes
   the checked [int] operations safe:  i++ (i < nval),  count++ and iend[0] = count + 1
   (count < nval),  nagg++ / nagg_nan++ (nagg + nagg_nan <= i: invariant [ag_inv]),
   ERROR + __LINE__ (constants).  The index values aggindex[i], operator and maxnan are
   only compared: no hypothesis on them. *)
Theorem chk_refine_aggregate (HZ : nofZ N 0 = n0 N) op maxnan idx xs outbuf ie n :
  List.length xs = List.length idx -> List.length outbuf = List.length idx ->
  (List.length idx < n)%nat ->
  zlen idx <= INT_MAX ->
  let run := exec_fun N X program_chk (S n) "c_aggregate"
               [AVI (zlen idx); AVI op; AVI maxnan; AVArrI idx; AVArrF xs;
                AVArrF outbuf; AVArrI [ie]] in
  match c_aggregate N (agg_upd N) (zlen idx) op maxnan idx xs outbuf with
  | KDone (out, iend) => run = Ok (RI 0, [VArrI idx; VArrF xs; VArrF out; VArrI [iend]])
  | KUndef => run = Ok (RI 0, [VArrI idx; VArrF xs; VArrF outbuf; VArrI [0]])
  | KErrOrder | KErrCount =>
      exists code out', 0 < code /\ List.length out' = List.length outbuf /\
        run = Ok (RI code, [VArrI idx; VArrF xs; VArrF out'; VArrI [ie]])
  end.
Proof.
  intros Hxs Hob Hn Hmax run. subst run.
  destruct idx as [|k0 idx'].
  - destruct xs; [|discriminate]. destruct outbuf; [|discriminate].
    cbn. xrun. xif. xrun. reflexivity.
  - destruct xs as [|x0 xs']; [discriminate|].
    rewrite zlen_eq in Hmax.
    cbn [List.length] in *.
    assert (Hl' : List.length idx' = List.length xs') by lia.
    pose proof (aggregate_run HZ op maxnan k0 x0 (combine idx' xs') outbuf ie n) as H.
    rewrite combine_length, <- Hl', Nat.min_id in H.
    specialize (H Hob Hn Hmax). cbv zeta in H. destruct H as (r & Hr & HF).
    unfold ag_args in Hr. cbn [map fst snd] in Hr.
    rewrite (map_fst_combine' _ _ Hl'), (map_snd_combine' _ _ Hl') in Hr.
    replace (zlen ((k0, x0) :: combine idx' xs')) with (zlen (k0 :: idx')) in Hr
      by (rewrite !zlen_eq; cbn [List.length]; rewrite combine_length, <- Hl', Nat.min_id; reflexivity).
    rewrite Hr. unfold ag_final in HF. cbn [map fst snd] in HF.
    rewrite (map_fst_combine' _ _ Hl'), (map_snd_combine' _ _ Hl') in HF.
    replace (zlen ((k0, x0) :: combine idx' xs')) with (zlen (k0 :: idx')) in HF
      by (rewrite !zlen_eq; cbn [List.length]; rewrite combine_length, <- Hl', Nat.min_id; reflexivity).
    unfold c_aggregate. cbn [combine].
    destruct (agg_loop N (agg_upd N) op maxnan (zlen (k0 :: idx')) ((k0, x0) :: combine idx' xs')
                {| ag_prev := k0; ag_agg := n0 N; ag_n := 0; ag_nan := 0; ag_count := 0; ag_out := [] |})
      as [| | |s].
    + contradiction.
    + destruct HF as (code & out' & H1 & H2 & ->). exists code, out'. auto.
    + destruct HF as (code & out' & H1 & H2 & ->). exists code, out'. auto.
    + cbv zeta in HF. rewrite HF. reflexivity.
Qed.


(* ================================================================== *)
(* c_flathomogen                                                        *)
(* ================================================================== *)

Notation flatstT := (flatst (T:=T)).

Definition fl_st (nval maxnan i j nagg nnanc start ia iaprev : Z) (agg inp : T)
           (idx : list Z) (xs outs : list T) : state T :=
  {| s_i := [("nval", nval); ("maxnan", maxnan); ("i", i); ("j", j); ("nagg", nagg);
             ("nagg_nan", nnanc); ("start", start); ("ia", ia); ("iaprev", iaprev)];
     s_f := [("agg", agg); ("inp", inp); ("nan", nnan N); ("zero", nlit X 0%float 0 1)];
     s_ai := [("aggindex", idx)];
     s_af := [("inputs", xs); ("outputs", outs)] |}.

(* the inner loop:  for(j=start; j<i; j++) outputs[j] = isnan(inputs[j]) ? nan : agg/nagg *)
Local Notation fe_cond := (ICmp CLt (IVar "j") (IVar "i")).
Local Notation fe_step := (SSetI "j" (IChk W32 (IBin IAdd (IVar "j") (IConst 1)))).
Local Notation fe_body :=
  (SSeq (SSetF "inp" (FArr "inputs" (IVar "j")))
        (SIf (IIsnan (FVar "inp"))
             (SStoreF "outputs" (IVar "j") (FVar "nan"))
             (SStoreF "outputs" (IVar "j") (FBin FDiv (FVar "agg") (FOfInt (IVar "nagg")))))).

Definition fe_f (agg : T) (nagg : Z) (inp : T) : T :=
  if nisnan N inp then nnan N else ndiv N agg (nofZ N nagg).

Lemma flat_emit_loop cf fuel nval maxnan i nagg nnanc start ia iaprev agg inp0 idx
      (pre grp post opre omid opost : list T) :
  List.length opre = List.length pre -> List.length omid = List.length grp ->
  start = Z.of_nat (List.length pre) -> i = start + Z.of_nat (List.length grp) ->
  (List.length grp < fuel)%nat ->
  i <= INT_MAX ->
  loop fuel (cond_of N X fe_cond)
       (for_body (exec N X cf fuel fe_body) (exec N X cf fuel fe_step))
       (fl_st nval maxnan i start nagg nnanc start ia iaprev agg inp0 idx
              (pre ++ grp ++ post) (opre ++ omid ++ opost))
  = Ok (ONormal,
        fl_st nval maxnan i i nagg nnanc start ia iaprev agg (last grp inp0) idx
              (pre ++ grp ++ post) (opre ++ map (fe_f agg nagg) grp ++ opost)).
Proof.
  intros Hop Hom Hst Hi Hfuel Hmax. unfold INT_MAX in Hmax.
  apply (loop_rule_eq
    (fun k st => exists gdone gtodo odone otodo,
       grp = gdone ++ gtodo /\ omid = odone ++ otodo /\
       List.length gdone = k /\ List.length odone = k /\
       st = fl_st nval maxnan i (start + Z.of_nat k) nagg nnanc start ia iaprev agg
                  (last gdone inp0) idx (pre ++ grp ++ post)
                  (opre ++ map (fe_f agg nagg) gdone ++ otodo ++ opost))
    _ (List.length grp)).
  - intros k st (gdone & gtodo & odone & otodo & Hg & Ho & Hk & Hk' & ->).
    assert (Hlg : List.length grp = (k + List.length gtodo)%nat)
      by (rewrite Hg, app_length; lia).
    assert (Hlo : List.length omid = (k + List.length otodo)%nat)
      by (rewrite Ho, app_length; lia).
    split; [lia|].
    unfold fl_st. cbn.
    destruct gtodo as [|x gtodo].
    + replace (start + Z.of_nat k <? i) with false
        by (symmetry; apply Z.ltb_ge; cbn in Hlg; lia).
      cbn. destruct otodo; [|cbn in *; lia].
      rewrite app_nil_r in Hg. subst gdone.
      replace (start + Z.of_nat k) with i by (cbn in Hlg; lia).
      reflexivity.
    + replace (start + Z.of_nat k <? i) with true
        by (symmetry; apply Z.ltb_lt; cbn in Hlg; lia).
      destruct otodo as [|o otodo]; [cbn in *; lia|].
      cbn [List.length] in Hlg.
      assert (Hgx : zget (pre ++ grp ++ post) (start + Z.of_nat k) = Some x).
      { rewrite Hg. rewrite <- (app_assoc gdone), app_assoc. cbn [app].
        apply zget_app. rewrite app_length. lia. }
      assert (Hset : forall v, zset (opre ++ map (fe_f agg nagg) gdone ++ (o :: otodo) ++ opost)
                                    (start + Z.of_nat k) v
                = Some (opre ++ map (fe_f agg nagg) gdone ++ (v :: otodo) ++ opost)).
      { intros v. rewrite !(app_assoc opre). cbn [app].
        apply zset_app. rewrite app_length, map_length. lia. }
      xnorm. xs. rewrite Hgx. xs. xif.
      assert (Hfin : forall j' inp',
        j' = start + Z.of_nat k + 1 -> inp' = x ->
        exists gdone0 gtodo0 odone0 otodo0 : list T,
         grp = gdone0 ++ gtodo0 /\ omid = odone0 ++ otodo0 /\
         List.length gdone0 = S k /\ List.length odone0 = S k /\
         fl_st nval maxnan i j' nagg nnanc start ia iaprev agg inp' idx (pre ++ grp ++ post)
               (opre ++ map (fe_f agg nagg) gdone ++ (fe_f agg nagg x :: otodo) ++ opost) =
         fl_st nval maxnan i (start + Z.of_nat (S k)) nagg nnanc start ia iaprev agg
               (last gdone0 inp0) idx (pre ++ grp ++ post)
               (opre ++ map (fe_f agg nagg) gdone0 ++ otodo0 ++ opost)).
      { intros j' inp' -> ->. exists (gdone ++ [x]), gtodo, (odone ++ [o]), otodo.
        split; [rewrite <- app_assoc; exact Hg|].
        split; [rewrite <- app_assoc; exact Ho|].
        split; [rewrite app_length; cbn; lia|].
        split; [rewrite app_length; cbn; lia|].
        rewrite last_last, map_app, <- !app_assoc. cbn [map app].
        replace (start + Z.of_nat k + 1) with (start + Z.of_nat (S k)) by lia. reflexivity. }
      unfold fe_f in Hfin at 2.
      destruct (nisnan N x) eqn:Hnan; xs; rewrite Hset; xrun; apply Hfin; reflexivity.
  - exists [], grp, [], omid. cbn. rewrite Z.add_0_r. repeat split; reflexivity.
  - exact Hfuel.
Qed.


Definition fl_next (s1 : flatstT) (x : T) : flatstT :=
  let valid := negb (nisnan N x) in
  let inp := if valid then x else n0 N in
  mkFlat (fl_prev s1) (nadd N (fl_agg s1) inp)
         (if valid then fl_n s1 + 1 else fl_n s1)
         (if valid then fl_nan s1 else fl_nan s1 + 1)
         (fl_grp s1 ++ [x]) (fl_out s1).

Definition fl_flush (maxnan ia : Z) (s : flatstT) : flatstT :=
  mkFlat ia (n0 N) 0 0 [] (fl_out s ++ flat_emit N maxnan s).

Lemma fl_loop_cons maxnan ia x l s :
  flat_loop N maxnan ((ia, x) :: l) s =
  if ia <? fl_prev s then KErrOrder
  else flat_loop N maxnan l
         (fl_next (if negb (ia =? fl_prev s) then fl_flush maxnan ia s else s) x).
Proof. reflexivity. Qed.

Definition fl_outs (s : flatstT) (outbuf : list T) : list T :=
  fl_out s ++ skipn (List.length (fl_out s)) outbuf.

Lemma flat_emit_fe maxnan s :
  flat_emit N maxnan s =
  map (fe_f (if maxnan <? fl_nan s then nnan N else fl_agg s) (fl_n s)) (fl_grp s).
Proof. reflexivity. Qed.

Lemma flat_emit_length maxnan s : List.length (flat_emit N maxnan s) = List.length (fl_grp s).
Proof. unfold flat_emit. apply map_length. Qed.

Lemma fl_outs_split s outbuf :
  fl_outs s outbuf =
  fl_out s ++ firstn (List.length (fl_grp s)) (skipn (List.length (fl_out s)) outbuf)
           ++ skipn (List.length (fl_grp s)) (skipn (List.length (fl_out s)) outbuf).
Proof. unfold fl_outs. rewrite firstn_skipn. reflexivity. Qed.

Lemma fl_outs_flush maxnan ia s outbuf :
  fl_out s ++ flat_emit N maxnan s
    ++ skipn (List.length (fl_grp s)) (skipn (List.length (fl_out s)) outbuf)
  = fl_outs (fl_flush maxnan ia s) outbuf.
Proof.
  unfold fl_outs, fl_flush. cbn [fl_out]. rewrite <- app_assoc. do 2 f_equal.
  rewrite skipn_skipn', app_length, flat_emit_length. reflexivity.
Qed.

Definition fl_inv nval maxnan (l : list (Z * T)) outbuf s0 (k : nat) (st : state T) : Prop :=
  exists done todo s xpre start j ia inp,
    l = done ++ todo /\ List.length done = k /\
    flat_loop N maxnan l s0 = flat_loop N maxnan todo s /\
    map snd done = xpre ++ fl_grp s /\ List.length xpre = List.length (fl_out s) /\
    start = Z.of_nat (List.length (fl_out s)) /\
    (* new in the checked proof: the counters of the current group are bounded by i *)
    0 <= fl_n s /\ 0 <= fl_nan s /\ fl_n s + fl_nan s <= Z.of_nat k /\
    st = fl_st nval maxnan (Z.of_nat k) j (fl_n s) (fl_nan s) start ia (fl_prev s)
               (fl_agg s) inp (map fst l) (map snd l) (fl_outs s outbuf).

Definition fl_post nval maxnan (l : list (Z * T)) outbuf s0 (r : outcome T * state T) : Prop :=
  match flat_loop N maxnan l s0 with
  | KDone s => exists xpre start j ia inp,
      map snd l = xpre ++ fl_grp s /\ List.length xpre = List.length (fl_out s) /\
      start = Z.of_nat (List.length (fl_out s)) /\
      r = (ONormal, fl_st nval maxnan (Z.of_nat (List.length l)) j (fl_n s) (fl_nan s) start ia
                          (fl_prev s) (fl_agg s) inp (map fst l) (map snd l) (fl_outs s outbuf))
  | KErrOrder => exists code st' out', 0 < code /\ r = (ORet (RI code), st') /\
      s_ai st' = [("aggindex", map fst l)] /\
      s_af st' = [("inputs", map snd l); ("outputs", out')] /\
      List.length out' = List.length outbuf
  | _ => False
  end.

Definition fl_args (maxnan : Z) (l : list (Z * T)) (outbuf : list T) : list (argval T) :=
  [AVI (zlen l); AVI maxnan; AVArrI (map fst l); AVArrF (map snd l); AVArrF outbuf].

Definition fl_final maxnan (l : list (Z * T)) (outbuf : list T) (s0 : flatstT)
           (r : retval T * list (arrval T)) : Prop :=
  match flat_loop N maxnan l s0 with
  | KDone s =>
      r = (RI 0, [VArrI (map fst l); VArrF (map snd l);
                  VArrF (fl_out s ++ flat_emit N maxnan s)])
  | KErrOrder => exists code out', 0 < code /\ List.length out' = List.length outbuf /\
      r = (RI code, [VArrI (map fst l); VArrF (map snd l); VArrF out'])
  | _ => False
  end.

Lemma fl_outs_length s outbuf :
  (List.length (fl_out s) <= List.length outbuf)%nat ->
  List.length (fl_outs s outbuf) = List.length outbuf.
Proof. intros H. unfold fl_outs. rewrite app_length, skipn_length. lia. Qed.

Lemma flathomogen_run (HZ : nofZ N 0 = n0 N) maxnan k0 x0 (l' : list (Z*T)) outbuf n :
  List.length outbuf = S (List.length l') ->
  (S (List.length l') < n)%nat ->
  Z.of_nat (S (List.length l')) <= INT_MAX ->
  let l := (k0, x0) :: l' in
  exists r, exec_fun N X program_chk (S n) "c_flathomogen" (fl_args maxnan l outbuf) = Ok r /\
            fl_final maxnan l outbuf (mkFlat k0 (n0 N) 0 0 [] []) r.
Proof.
  intros Hob Hn Hmax l. unfold fl_args, fl_final.
  assert (Hmax' := Hmax). unfold INT_MAX in Hmax'.
  assert (Hnval : zlen l = Z.of_nat (List.length l)) by apply zlen_eq.
  assert (Hlen : List.length l = S (List.length l')) by reflexivity.
  assert (Hhd : zget (map fst l) 0 = Some k0) by reflexivity.
  clearbody l.
  remember (zlen l) as nval eqn:Env.
  set (s0 := mkFlat k0 (n0 N) 0 0 [] []).
  cbn. xrun. xif.
  replace (nval <? 1) with false by (symmetry; apply Z.ltb_ge; lia).
  xs. rewrite Hhd. xrun. rewrite HZ. xfor.
  loop_with (fl_inv nval maxnan l outbuf s0) (fl_post nval maxnan l outbuf s0) (List.length l).
  - intros k st (done & todo & s & xpre & start & j & ia & inp & Hl & Hk & Hloop & Hpre & Hxp & Hst & Hn0 & Hnan0 & Hsum & ->).
    assert (Hlen2 : List.length l = (k + List.length todo)%nat)
      by (rewrite Hl, app_length; lia).
    assert (Hkk : k = (List.length xpre + List.length (fl_grp s))%nat)
      by (rewrite <- Hk, <- (map_length snd done), Hpre, app_length; reflexivity).
    split; [lia|].
    unfold fl_post. rewrite Hloop.
    unfold fl_st. cbn.
    destruct todo as [|[ia' x] todo].
    + replace (Z.of_nat k <? nval) with false by (symmetry; apply Z.ltb_ge; cbn in Hlen2; lia).
      cbn. exists xpre, start, j, ia, inp.
      assert (done = l) by (rewrite Hl, app_nil_r; reflexivity). subst done.
      split; [exact Hpre|]. split; [exact Hxp|]. split; [exact Hst|].
      rewrite Hk. reflexivity.
    + replace (Z.of_nat k <? nval) with true by (symmetry; apply Z.ltb_lt; cbn in Hlen2; lia).
      rewrite fl_loop_cons in Hloop |- *. cbn [List.length] in Hlen2.
      assert (Hgi : zget (map fst l) (Z.of_nat k) = Some ia')
        by (rewrite Hl, map_app; apply zget_app; rewrite map_length; lia).
      assert (Hgx : zget (map snd l) (Z.of_nat k) = Some x)
        by (rewrite Hl, map_app; apply zget_app; rewrite map_length; lia).
      cbn. xs. rewrite Hgi. xs. xif.
      destruct (ia' <? fl_prev s) eqn:Hord.
      * xs. do 3 eexists. split; [|split; [reflexivity|]]; [lia|].
        cbn. repeat split. apply fl_outs_length. lia.
      * xs. xif.
        destruct (ia' =? fl_prev s) eqn:Hfl; cbn [negb] in Hloop |- *.
        2:{ (* a new group: emit the previous one *)
            xif. xs. merge_if'. xs. xs. xfor.
            assert (Hinl : map snd l = xpre ++ fl_grp s ++ x :: map snd todo)
              by (rewrite Hl, map_app, Hpre, <- app_assoc; reflexivity).
            assert (Hin := flat_emit_loop (exec_fun N X program_chk n) n nval maxnan (Z.of_nat k)
                     (fl_n s) (fl_nan s) start ia' (fl_prev s)
                     (if maxnan <? fl_nan s then nnan N else fl_agg s) inp (map fst l)
                     xpre (fl_grp s) (x :: map snd todo) (fl_out s)
                     (firstn (List.length (fl_grp s)) (skipn (List.length (fl_out s)) outbuf))
                     (skipn (List.length (fl_grp s)) (skipn (List.length (fl_out s)) outbuf))).
            rewrite <- Hinl, <- fl_outs_split in Hin. unfold fl_st in Hin.
            rewrite Hin; clear Hin;
              [| symmetry; exact Hxp | rewrite firstn_length, skipn_length; lia | lia | lia | lia | unfold INT_MAX; lia ].
            rewrite <- flat_emit_fe, fl_outs_flush with (ia := ia').
            xrun. rewrite Hgx. xrun. xif.
            destruct (nisnan N x) eqn:Hnan; xrun;
            (exists (done ++ [(ia', x)]), todo, (fl_next (fl_flush maxnan ia' s) x),
                    (map snd done), (Z.of_nat k);
             do 3 eexists;
             (split; [rewrite <- app_assoc; exact Hl|]);
             (split; [rewrite app_length; cbn; lia|]);
             (split; [exact Hloop|]);
             (split; [rewrite map_app; reflexivity|]);
             (split; [rewrite map_length; cbn; rewrite app_length, flat_emit_length; lia|]);
             (split; [cbn; rewrite app_length, flat_emit_length; lia|]);
             (split; [cbn; rewrite ?Hnan; cbn; lia|]);
             (split; [cbn; rewrite ?Hnan; cbn; lia|]);
             (split; [cbn; rewrite ?Hnan; cbn; lia|]);
             unfold fl_st, fl_outs, fl_next, fl_flush;
             cbn [fl_prev fl_agg fl_n fl_nan fl_grp fl_out];
             rewrite ?Hnan; cbn;
             rewrite ?HZ; replace (Z.of_nat k + 1) with (Z.of_nat (S k)) by lia;
             reflexivity). }
        (* same group *)
        xrun. rewrite Hgx. xrun. xif.
        destruct (nisnan N x) eqn:Hnan; xrun;
            (exists (done ++ [(ia', x)]), todo, (fl_next s x), xpre, start;
             do 3 eexists;
             (split; [rewrite <- app_assoc; exact Hl|]);
             (split; [rewrite app_length; cbn; lia|]);
             (split; [exact Hloop|]);
             (split; [rewrite map_app, Hpre, <- app_assoc; reflexivity|]);
             (split; [exact Hxp|]);
             (split; [exact Hst|]);
             (split; [cbn; rewrite ?Hnan; cbn; lia|]);
             (split; [cbn; rewrite ?Hnan; cbn; lia|]);
             (split; [cbn; rewrite ?Hnan; cbn; lia|]);
             unfold fl_st, fl_outs, fl_next;
             cbn [fl_prev fl_agg fl_n fl_nan fl_grp fl_out];
             rewrite ?Hnan; cbn;
             rewrite ?HZ; replace (Z.of_nat k + 1) with (Z.of_nat (S k)) by lia;
             reflexivity).
  - exists [], l, s0, [], 0, 0, 0, (n0 N). cbn.
    repeat split; try reflexivity.
  - lia.
  - destruct HL as (r & -> & HP). unfold fl_post in HP.
    destruct (flat_loop N maxnan l s0) as [| | |s] eqn:E; try contradiction.
    + destruct HP as (code & st' & out' & Hcode & -> & Hai & Haf & Hlo).
      cbn. unfold get_ai, get_af. rewrite Hai, Haf. cbn.
      eexists; split; [reflexivity|]. exists code, out'. repeat split; assumption.
    + destruct HP as (xpre & start & j & ia & inp & Hpre & Hxp & Hst & ->).
      assert (Hkk : List.length l = (List.length xpre + List.length (fl_grp s))%nat)
        by (rewrite <- (map_length snd l), Hpre, app_length; reflexivity).
      unfold fl_st. cbn. xif. xs. merge_if'. xs. xs. xfor.
      assert (Hinl : map snd l = xpre ++ fl_grp s ++ []) by (rewrite app_nil_r; exact Hpre).
      assert (Hin := flat_emit_loop (exec_fun N X program_chk n) n nval maxnan (Z.of_nat (List.length l))
                     (fl_n s) (fl_nan s) start ia (fl_prev s)
                     (if maxnan <? fl_nan s then nnan N else fl_agg s) inp (map fst l)
                     xpre (fl_grp s) [] (fl_out s)
                     (firstn (List.length (fl_grp s)) (skipn (List.length (fl_out s)) outbuf))
                     (skipn (List.length (fl_grp s)) (skipn (List.length (fl_out s)) outbuf))).
      rewrite <- Hinl, <- fl_outs_split in Hin. unfold fl_st in Hin.
      rewrite Hin; clear Hin;
        [| symmetry; exact Hxp | rewrite firstn_length, skipn_length; lia | lia | lia | lia | unfold INT_MAX; lia ].
      rewrite <- flat_emit_fe.
      rewrite skipn_skipn', skipn_all2 by lia. rewrite app_nil_r.
      xrun. eexists; split; reflexivity.
Qed.



(* c_flathomogen.  Hypotheses = what the Cython wrapper guarantees: aggindex,
   inputs, outputs have the same length nval.  [HZ]: see chk_refine_aggregate.
   - idx <> []: return value and final outputs are those of the model; when the
     index decreases the kernel returns a positive code, aggindex and inputs are
     untouched (outputs: the groups closed so far are written).
   - idx = [] (the model says KUndef): the kernel returns 0, nothing is written.
   Size hypothesis: nval = zlen idx <= INT_MAX (a C int): the checked operations are
   i++ (i < nval),  j++ (j < i <= nval, inner loop [flat_emit_loop]),  nagg++ / nagg_nan++
   (nagg + nagg_nan <= i: invariant [fl_inv]),  ERROR + __LINE__ (constants). *)
Theorem chk_refine_flathomogen (HZ : nofZ N 0 = n0 N) maxnan idx xs outbuf n :
  List.length xs = List.length idx -> List.length outbuf = List.length idx ->
  (List.length idx < n)%nat ->
  zlen idx <= INT_MAX ->
  let run := exec_fun N X program_chk (S n) "c_flathomogen"
               [AVI (zlen idx); AVI maxnan; AVArrI idx; AVArrF xs; AVArrF outbuf] in
  match c_flathomogen N maxnan idx xs with
  | KDone out => run = Ok (RI 0, [VArrI idx; VArrF xs; VArrF out])
  | KUndef => run = Ok (RI 0, [VArrI idx; VArrF xs; VArrF outbuf])
  | KErrOrder | KErrCount =>
      exists code out', 0 < code /\ List.length out' = List.length outbuf /\
        run = Ok (RI code, [VArrI idx; VArrF xs; VArrF out'])
  end.
Proof.
  intros Hxs Hob Hn Hmax run. subst run.
  destruct idx as [|k0 idx'].
  - destruct xs; [|discriminate]. destruct outbuf; [|discriminate].
    cbn. xrun. xif. xrun. reflexivity.
  - destruct xs as [|x0 xs']; [discriminate|].
    rewrite zlen_eq in Hmax.
    cbn [List.length] in *.
    assert (Hl' : List.length idx' = List.length xs') by lia.
    pose proof (flathomogen_run HZ maxnan k0 x0 (combine idx' xs') outbuf n) as H.
    rewrite combine_length, <- Hl', Nat.min_id in H.
    specialize (H Hob Hn Hmax). cbv zeta in H. destruct H as (r & Hr & HF).
    unfold fl_args in Hr. cbn [map fst snd] in Hr.
    rewrite (map_fst_combine' _ _ Hl'), (map_snd_combine' _ _ Hl') in Hr.
    replace (zlen ((k0, x0) :: combine idx' xs')) with (zlen (k0 :: idx')) in Hr
      by (rewrite !zlen_eq; cbn [List.length]; rewrite combine_length, <- Hl', Nat.min_id; reflexivity).
    rewrite Hr. unfold fl_final in HF. cbn [map fst snd] in HF.
    rewrite (map_fst_combine' _ _ Hl'), (map_snd_combine' _ _ Hl') in HF.
    unfold c_flathomogen. cbn [combine].
    destruct (flat_loop N maxnan ((k0, x0) :: combine idx' xs')
                {| fl_prev := k0; fl_agg := n0 N; fl_n := 0; fl_nan := 0; fl_grp := []; fl_out := [] |})
      as [| | |s]; try contradiction.
    + destruct HF as (code & out' & H1 & H2 & ->). exists code, out'. auto.
    + rewrite HF. reflexivity.
Qed.

End Refine.

(* the hypothesis [nofZ N 0 = n0 N] holds in the three arithmetic instances *)
Lemma chk_HZ_F64 : nofZ F64 0 = n0 F64. Proof. reflexivity. Qed.
Lemma chk_HZ_RR : nofZ RR 0 = n0 RR. Proof. reflexivity. Qed.
Lemma chk_HZ_RN : nofZ RN 0 = n0 RN. Proof. reflexivity. Qed.

Definition chk_refine_aggregate_F64 := chk_refine_aggregate F64 XF64 chk_HZ_F64.
Definition chk_refine_aggregate_RR := chk_refine_aggregate RR XRR chk_HZ_RR.
Definition chk_refine_aggregate_RN := chk_refine_aggregate RN XRN chk_HZ_RN.
Definition chk_refine_flathomogen_F64 := chk_refine_flathomogen F64 XF64 chk_HZ_F64.
Definition chk_refine_flathomogen_RR := chk_refine_flathomogen RR XRR chk_HZ_RR.
Definition chk_refine_flathomogen_RN := chk_refine_flathomogen RN XRN chk_HZ_RN.
