(* C05 - proofs about the index-level models of the gis kernels, continued:
   c_upstream, c_delineate_river, flow path lengths, c_inside, c_intersect,
   c_delineate_area. *)
From Coq Require Import ZArith Bool List String Lia Reals Lra PrimFloat.
From Hy Require Import Base.Num Gen.ConstsC05 Model.Safety Model.SafetyGis Proofs.SafetyProofs
  Proofs.SafetyGisProofs.
Import ListNotations.
Open Scope Z_scope.

Ltac fin3 := cbn beta; auto; try (intros; contradiction).

Lemma forZ_inv3b {S} (I : S -> Prop) PR lo hi (body : Z -> S -> step S) s :
  I s ->
  (forall j t, lo <= j < hi -> I t -> post3 (body j t) I I PR) ->
  post3 (forZ lo hi body s) I I PR.
Proof.
  intros. eapply post3_weaken; [apply (forZ_inv3 I PR); eauto| | |]; cbn beta; auto.
  intros ? [].
Qed.

Lemma while_loop_post3 {S} (I : S -> Prop) (m : S -> Z) (Q : S -> Prop) PR (body : S -> step S) :
  forall fuel s, I s -> 0 <= m s < Z.of_nat fuel ->
  (forall t, I t -> 0 <= m t -> post3 (body t) (fun t' => I t' /\ 0 <= m t' < m t) Q PR) ->
  post3 (while_loop fuel body s) Q (fun _ => False) PR.
Proof.
  induction fuel as [|f IH]; intros s Hi Hm Hb.
  - simpl in Hm; lia.
  - simpl. assert (Hs := Hb s Hi ltac:(lia)).
    destruct (body s) as [s'|s'|c s'|e]; simpl in Hs |- *; auto.
    destruct Hs as [Hi' Hm']. apply IH; auto. lia.
Qed.

(* ================================================================== *)
(* c_upstream *)

Lemma upstream_post nrows ncols code flowdir nval idxdown idxup :
  0 <= nrows -> 0 <= ncols -> nrows * ncols <= MAX64 ->
  Zlen code = 9 -> Zlen flowdir = nrows * ncols -> Zlen idxdown = nval ->
  Zlen idxup = UPSTREAM_STRIDE * nval ->
  post3 (upstream nrows ncols code flowdir nval idxdown idxup) (fun _ => False) (fun _ => False)
        (fun _ out => Zlen out = UPSTREAM_STRIDE * nval).
Proof.
  intros Hr Hc Hg Hcd Hfd Hdn Hup. unfold upstream. unfold UPSTREAM_STRIDE in *.
  set (ntot := nrows * ncols) in *.
  apply post3_finish. eapply post3_weaken.
  { apply (forZ_inv3 (fun out => Zlen out = 9 * nval) (fun _ out => Zlen out = 9 * nval)); auto.
    intros i out Hi I1. acc3. set (cell := nth (Z.to_nat i) idxdown 0).
    rewrite chk64_ok' by (unfold MAX64, ntot in *; nia). cbn [bindr].
    destruct ((cell <? 0) || (ntot <=? cell)) eqn:E; [unfold post3; auto|]. zb.
    destruct (nb_local_good ntot) as (L1 & L2).
    eapply post3_call; [apply neighbours_post; auto|].
    intros c nb (N1 & N2 & _).
    eapply (post3_sub _ _ _ (fun s => Zlen (up_out s) = 9 * nval /\ 0 <= up_k s <= 9)).
    - eapply post3_weaken.
      { apply (forZ_post3 (fun j s => Zlen (up_out s) = 9 * nval /\ 0 <= up_k s <= j) (fun _ => False)
                 (fun _ s => Zlen (up_out s) = 9 * nval)); [lia|cbn [up_out up_k]; lia|].
        intros j s Hj (J1 & J2). acc3.
        assert (G : cgood ntot (nth (Z.to_nat j) nb 0)).
        { rewrite Forall_forall in N2. apply N2. apply nth_In. unfold Zlen in N1; lia. }
        destruct (_ =? -1) eqn:E1; zb; [unfold post3; lia|].
        destruct G as [G|G]; [lia|].
        acc3. destruct (_ =? 0); [unfold post3; lia|].
        acc3. destruct (_ =? _); [|unfold post3; lia].
        acc3. unfold post3; cbn [up_out up_k]. rewrite Zlen_upd. lia. }
      + cbn beta. intros s [(J1 & J2)|[]]. split; auto.
      + intros ? [].
      + auto.
    - intros s (J1 & J2).
      eapply (post3_sub _ _ _ (fun s => Zlen (up_out s) = 9 * nval)).
      + eapply post3_weaken.
        { apply (forZ_inv3 (fun s' => Zlen (up_out s') = 9 * nval /\ up_k s' = up_k s)
                   (fun _ s => Zlen (up_out s) = 9 * nval)); [auto|].
          intros j s' Hj (K1 & K2). acc3. unfold post3; cbn [up_out up_k]. rewrite Zlen_upd. auto. }
        all: fin3. intros ? (? & _); auto.
      + intros s' K1. unfold post3; auto. }
  all: fin3.
Qed.

Lemma upstream_safe : forall nrows ncols code flowdir nval idxdown idxup,
  0 <= nrows -> 0 <= ncols -> nrows * ncols <= MAX64 ->
  Zlen code = 9 -> Zlen flowdir = nrows * ncols -> Zlen idxdown = nval ->
  Zlen idxup = UPSTREAM_STRIDE * nval ->
  safe (upstream nrows ncols code flowdir nval idxdown idxup).
Proof. intros; eapply post3_safe; apply upstream_post; auto. Qed.

(* ================================================================== *)
(* c_delineate_river *)

Lemma delineate_river_safe : forall nrows ncols code flowdir idxupstream nval npoints idxcells data,
  0 <= nrows -> 0 <= ncols -> nrows * ncols <= MAX64 ->
  Zlen code = 9 -> Zlen flowdir = nrows * ncols ->
  Zlen npoints = 1 -> Zlen idxcells = nval -> Zlen data = RIVER_NCOLS * nval ->
  safe (delineate_river nrows ncols code flowdir idxupstream nval npoints idxcells data).
Proof.
  intros nrows ncols code flowdir up0 nval npoints idxcells data Hr Hc Hg Hcd Hfd Hnp Hcl Hdt.
  unfold delineate_river. unfold RIVER_NCOLS in *.
  rewrite chk64_ok' by (unfold MAX64 in *; nia). cbn [bindr].
  set (ntot := nrows * ncols) in *.
  destruct ((up0 <? 0) || (ntot - 1 <? up0)) eqn:E; [exact I|]. zb.
  assert (Hnc : 0 < ncols) by (unfold ntot in *; nia).
  acc3.
  apply (post3_safe _ (fun _ => True) (fun _ => True) (fun _ _ => True)).
  apply post3_finish. eapply post3_weaken.
  { apply (forZ_inv3 (fun s => 0 <= rv_up s < ntot /\ Zlen (rv_np s) = 1 /\ Zlen (rv_cells s) = nval /\
                               Zlen (rv_data s) = 5 * nval) (fun _ _ => True)).
    { cbn. rewrite Zlen_upd. repeat split; auto; lia. }
    intros i s Hi (I1 & I2 & I3 & I4). acc3. acc3. acc3.
    eapply post3_call_next; [apply down1_post; auto; lia|].
    cbn beta. intros [rc d] (B1 & B2 & B3). cbn [fst snd] in *.
    assert (rc = 0) by (apply B3; auto). destruct (B2 H1) as (_ & G).
    acc3.
    rewrite (mark_ok "data" _ (5 * i + 1)) by (rewrite ?Zlen_upd; lia). cbn [bindr].
    rewrite (mark_ok "data" _ (5 * i + 2)) by (rewrite ?Zlen_upd; lia). cbn [bindr].
    destruct (getnxy_any ncols (rv_up s) ltac:(lia)) as (p1 & G1). rewrite G1. cbn [bindr].
    rewrite (mark_ok "data" _ (5 * i + 3)) by (rewrite ?Zlen_upd; lia). cbn [bindr].
    rewrite (mark_ok "data" _ (5 * i + 4)) by (rewrite ?Zlen_upd; lia). cbn [bindr].
    destruct (getnxy_any ncols d ltac:(lia)) as (p2 & G2). rewrite G2. cbn [bindr].
    destruct (d <? 0) eqn:E2; zb; [exact I|].
    cbn. rewrite !Zlen_upd. repeat split; auto; destruct G as [G|[G|G]]; lia. }
  all: fin3.
Qed.

(* ================================================================== *)
(* c_delineate_flowpathlengths_in_catchment *)

(* a cell outside the grid: c_downstream returns an error and leaves idxdown[0] alone *)
Lemma down1_invalid nrows ncols code flowdir c d0 :
  - MAX64 - 1 <= nrows * ncols <= MAX64 -> ~ (0 <= c < nrows * ncols) ->
  down1 nrows ncols code flowdir c d0 = Next (1, d0).
Proof.
  intros Hg Hc. unfold down1, downstream, forZ. change (Z.to_nat (1 - 0)) with 1%nat. cbn [for_loop].
  rewrite (rd_ok "idxup" 0 [c] 0) by (cbn; lia). cbn [bindr].
  rewrite chk64_ok' by lia. cbn [bindr].
  replace ((nth (Z.to_nat 0) [c] 0 <? 0) || (nrows * ncols <=? nth (Z.to_nat 0) [c] 0)) with true.
  - reflexivity.
  - symmetry. cbn [nth Z.to_nat]. apply orb_true_iff.
    destruct (Z_lt_ge_dec c 0); [left; apply Z.ltb_lt; auto|right; apply Z.leb_le; lia].
Qed.

Lemma flowpathlengths_safe : forall nrows ncols code flowdir nval area outlet fpl,
  0 <= nrows -> 0 <= ncols -> nrows * ncols <= MAX64 ->
  Zlen code = 9 -> Zlen flowdir = nrows * ncols -> Zlen area = nval -> Zlen fpl = 3 * nval ->
  safe (flowpathlengths nrows ncols code flowdir nval area outlet fpl).
Proof.
  intros nrows ncols code flowdir nval area outlet fpl Hr Hc Hg Hcd Hfd Ha Hf.
  unfold flowpathlengths.
  set (ntot := nrows * ncols) in *.
  apply (post3_safe _ (fun _ => True) (fun _ => True) (fun _ _ => True)).
  apply post3_finish. eapply post3_weaken.
  { apply (forZ_inv3 (fun o => Zlen o = 3 * nval) (fun _ _ => True)); auto.
    intros i o Hi I1. acc3.
    eapply (post3_sub _ _ _ (fun s => 0 <= fp_down s -> 0 < ncols)).
    - eapply post3_weaken.
      { apply (for_loop_inv3 (fun s => 0 <= fp_down s -> 0 < ncols) (fun _ _ => True)); [cbn; lia|].
        intros j s Hs.
        assert (Hv : 0 <= fp_up s < ntot \/ ~ (0 <= fp_up s < ntot)) by lia.
        destruct Hv as [Hv|Hv].
        - eapply post3_call_next; [apply down1_post; auto; lia|].
          cbn beta. intros [rc d] (B1 & B2 & B3). cbn [fst snd] in *.
          assert (Hnc : 0 < ncols) by (unfold ntot in *; nia).
          destruct ((d <? 0) || (0 <? rc)); [cbn; auto|].
          destruct (d =? outlet); [cbn; auto|].
          cbn [fp_up fp_down fp_ipath].
          destruct (getnxy_any ncols d ltac:(lia)) as (p1 & G1). rewrite G1. cbn [bindr].
          destruct (getnxy_any ncols (fp_up s) ltac:(lia)) as (p2 & G2). rewrite G2. cbn; auto.
        - rewrite down1_invalid by (auto; unfold MAX64, ntot in *; nia).
          cbn [call]. rewrite orb_true_r. cbn. auto. }
      all: fin3.
    - intros s Hs.
      assert (Eg : exists u, (if (fp_ipath s + 1 <? nval) && (0 <=? fp_down s)
                   then let? _ := getnxy ncols (fp_down s) in let? _ := getnxy ncols (fp_up s) in Ok tt
                   else Ok tt) = Ok u).
      { destruct ((fp_ipath s + 1 <? nval) && (0 <=? fp_down s)) eqn:E; [|eauto]. zb.
        specialize (Hs ltac:(lia)).
        destruct (getnxy_any ncols (fp_down s) ltac:(lia)) as (p1 & G1). rewrite G1. cbn [bindR].
        destruct (getnxy_any ncols (fp_up s) ltac:(lia)) as (p2 & G2). rewrite G2. cbn [bindR]. eauto. }
      destruct Eg as (u & Eu). rewrite Eu. cbn [bindr].
      repeat acc3.
      rewrite ?(mark_ok "flowpathlengths" _ (3 * i + 1)) by (rewrite ?Zlen_upd; lia). cbn [bindr].
      rewrite ?(mark_ok "flowpathlengths" _ (3 * i + 2)) by (rewrite ?Zlen_upd; lia). cbn [bindr].
      unfold post3. now rewrite !Zlen_upd. }
  all: fin3.
Qed.

(* ================================================================== *)
(* c_inside: at least one vertex (the wrapper's min()/max() raise on an empty polygon) *)

Section Inside.
Context {T : Type} (N : NumOps T).

Lemma inside_safe : forall nprint npoints points nvertices polygon xlim ylim ins,
  1 <= nvertices <= 1073741823 ->
  Zlen points = 2 * npoints -> Zlen polygon = 2 * nvertices -> Zlen xlim = 2 -> Zlen ylim = 2 ->
  Zlen ins = npoints ->
  safe (inside N nprint npoints points nvertices polygon xlim ylim ins).
Proof.
  intros nprint npoints points nvertices polygon xlim ylim ins Hv Hp Hpo Hx Hy Hi.
  unfold inside.
  apply (post3_safe _ (fun _ => True) (fun _ => True) (fun _ _ => True)).
  apply post3_finish. eapply post3_weaken.
  { apply (forZ_inv3 (fun o => Zlen o = npoints) (fun _ _ => True)); auto.
    intros ipt o Hj I1. acc3. acc3. acc3. acc3. acc3. acc3.
    destruct (_ || _); [cbn; auto|].
    assert (Ep : exists v, (if 0 <? nprint then zmod ipt nprint else Ok 0) = Ok v).
    { unfold zmod. destruct (0 <? nprint) eqn:E; zb; [|eauto].
      destruct (nprint =? 0) eqn:E2; zb; [lia|eauto]. }
    destruct Ep as (v & Ev). rewrite Ev. cbn [bindr].
    acc3. acc3. acc3.
    eapply (post3_sub _ _ _ (fun _ => True)).
    - eapply post3_weaken.
      { apply (forZ_inv3 (fun _ : unit => True) (fun _ _ => True)); auto.
        intros ivert u Hiv _. unfold zmod.
        destruct (nvertices =? 0) eqn:E; zb; [lia|]. cbn [bindr].
        assert (Hm := Z.rem_bound_pos ivert nvertices ltac:(lia) ltac:(lia)).
        unfold mul32. rewrite chk32_ok by lia. cbn [bindr].
        acc3. acc3. cbn; auto. }
      all: fin3.
    - intros _ _. cbn. now rewrite Zlen_upd. }
  all: fin3.
Qed.

End Inside.

(* ================================================================== *)
(* c_intersect: idxcells / weights hold one slot per cell of the intersecting grid
   (grid.py allocates nrows*ncols of them); the kernel never needs more because the cells
   it stores are pairwise distinct cells of that grid (pigeonhole). *)

Lemma NoDup_map_inj_on {A B} (g : A -> B) l :
  NoDup l -> (forall x y, In x l -> In y l -> g x = g y -> x = y) -> NoDup (map g l).
Proof.
  induction 1 as [|a l Ha Hl IH]; intros Hinj; simpl; constructor.
  - intros Hin. apply in_map_iff in Hin. destruct Hin as (y & Ey & Hy).
    assert (y = a) by (apply Hinj; simpl; auto). subst. contradiction.
  - apply IH. intros x y Hx Hy. apply Hinj; simpl; auto.
Qed.

Lemma pigeon (f : nat -> Z) (j : nat) (n : Z) :
  0 <= n ->
  (forall k, (k < j)%nat -> 0 <= f k < n) ->
  (forall k1 k2, (k1 < j)%nat -> (k2 < j)%nat -> f k1 = f k2 -> k1 = k2) ->
  Z.of_nat j <= n.
Proof.
  intros Hn Hr Hinj.
  set (l := map (fun k => Z.to_nat (f k)) (List.seq 0 j)).
  assert (Hnd : NoDup l).
  { apply NoDup_map_inj_on; [apply seq_NoDup|].
    intros x y Hx Hy E. apply in_seq in Hx. apply in_seq in Hy.
    apply Hinj; try lia. assert (Rx := Hr x ltac:(lia)). assert (Ry := Hr y ltac:(lia)). lia. }
  assert (Hincl : incl l (List.seq 0 (Z.to_nat n))).
  { intros x Hx. apply in_map_iff in Hx. destruct Hx as (k & Ek & Hk). apply in_seq in Hk.
    apply in_seq. assert (R := Hr k ltac:(lia)). lia. }
  assert (Hlen := NoDup_incl_length Hnd Hincl).
  unfold l in Hlen. rewrite map_length, !seq_length in Hlen. lia.
Qed.

Section Intersect.
Context {T : Type} (N : NumOps T).
Hypothesis trunc_in_range : forall x n, 0 <= n <= MAX64 ->
  nleb N (n0 N) x = true -> nltb N x (nofZ N n) = true ->
  exists z, ntrunc N x = Some z /\ 0 <= z < n.

Lemma c2c_point_range nrows ncols xll yll csz x y :
  0 <= nrows <= MAX64 -> 0 <= ncols <= MAX64 -> nrows * ncols <= MAX64 ->
  exists c, c2c_point N true nrows ncols xll yll csz x y = Ok c /\ (c = -1 \/ 0 <= c < nrows * ncols).
Proof.
  intros Hr Hc Hg. unfold c2c_point. cbn [andb].
  set (fx := nfloorT N (ndiv N (nsub N x xll) csz)).
  set (fy := nfloorT N (ndiv N (nsub N y yll) csz)).
  destruct (nleb N (n0 N) fx && nltb N fx (nofZ N ncols) &&
            nleb N (n0 N) fy && nltb N fy (nofZ N nrows)) eqn:E; cbn [negb]; [|eauto].
  zb.
  destruct (trunc_in_range fx ncols ltac:(lia)) as (zx & Ex & Bx); auto.
  destruct (trunc_in_range fy nrows ltac:(lia)) as (zy & Ey & By); auto.
  rewrite Ex, Ey. unfold cast64, in_int64.
  replace ((-9223372036854775808 <=? zx) && (zx <=? 9223372036854775807)) with true
    by (symmetry; apply andb_true_intro; split; apply Z.leb_le; unfold MAX64 in *; lia).
  replace ((-9223372036854775808 <=? zy) && (zy <=? 9223372036854775807)) with true
    by (symmetry; apply andb_true_intro; split; apply Z.leb_le; unfold MAX64 in *; lia).
  cbn [bindR]. rewrite chk64_ok' by (unfold MAX64 in *; lia). cbn [bindR].
  destruct ((zx <? 0) || (ncols <=? zx) || (nrows - 1 - zy <? 0) || (nrows <=? nrows - 1 - zy));
    [eauto|].
  rewrite chk64_ok' by (unfold MAX64 in *; nia). eexists; split; eauto. right. nia.
Qed.

Definition is_inv (ntot ncells : Z) (s : isst) : Prop :=
  Zlen (is_cells s) = ncells /\ Zlen (is_w s) = ncells /\ 0 <= is_j s <= ncells /\
  (forall k, 0 <= k < is_j s -> 0 <= nth (Z.to_nat k) (is_cells s) 0 < ntot) /\
  (forall k1 k2, 0 <= k1 < is_j s -> 0 <= k2 < is_j s ->
     nth (Z.to_nat k1) (is_cells s) 0 = nth (Z.to_nat k2) (is_cells s) 0 -> k1 = k2).

Lemma intersect_safe : forall nrows ncols xll yll csz nval xy npoints idxcells weights,
  0 <= nrows <= MAX64 -> 0 <= ncols <= MAX64 -> nrows * ncols <= MAX64 ->
  Zlen xy = 2 * nval -> Zlen npoints = 1 ->
  Zlen idxcells = nrows * ncols -> Zlen weights = nrows * ncols ->
  safe (intersect N true nrows ncols xll yll csz nval xy npoints idxcells weights).
Proof.
  intros nrows ncols xll yll csz nval xy npoints idxcells weights Hr Hc Hg Hx Hn Hi Hw.
  unfold intersect. set (ntot := nrows * ncols) in *.
  apply (post3_safe _ (fun _ => True) (fun _ => True) (fun _ _ => True)).
  eapply post3_call_gen with (P := fun _ _ => True).
  2: { intros c s _. acc3. exact I. }
  eapply post3_weaken.
  { apply (forZ_inv3 (is_inv ntot ntot) (fun _ _ => True)).
    { unfold is_inv; cbn. repeat split; auto; try lia; intros; lia. }
    intros i s Hi2 Inv. destruct Inv as (I1 & I2 & I3 & I4 & I5).
    acc3. acc3.
    destruct (c2c_point_range nrows ncols xll yll csz (nth (Z.to_nat (2 * i)) xy (n0 N))
                (nth (Z.to_nat (2 * i + 1)) xy (n0 N)) Hr Hc Hg) as (c & Ec & Rc).
    rewrite Ec. cbn [bindr].
    destruct (c <? 0) eqn:E0; zb; [unfold post3; unfold is_inv; auto 10|].
    assert (Hcv : 0 <= c < ntot) by (destruct Rc; lia).
    (* search among the cells already stored *)
    eapply (post3_sub _ _ _ (fun found => is_inv ntot ntot (snd found) /\ is_j (snd found) = is_j s /\
               is_cells (snd found) = is_cells s /\
               (fst found = false -> forall k, 0 <= k < is_j s -> nth (Z.to_nat k) (is_cells s) 0 <> c))).
    - eapply post3_weaken.
      { apply (forZ_post3
                 (fun k (found : bool * isst) => fst found = false /\ snd found = s /\
                    forall k', 0 <= k' < k -> nth (Z.to_nat k') (is_cells s) 0 <> c)
                 (fun found => fst found = true /\ is_inv ntot ntot (snd found) /\
                    is_j (snd found) = is_j s /\ is_cells (snd found) = is_cells s)
                 (fun _ _ => True)); [lia|cbn; repeat split; auto; intros; lia|].
        intros k found Hk (F1 & F2 & F3). destruct found as [fnd s']. cbn [fst snd] in *. subst s' fnd.
        acc3. destruct (_ =? c) eqn:E1; zb.
        - acc3. unfold post3, is_inv. cbn [fst snd is_j is_cells is_w]. rewrite Zlen_upd.
          split; [reflexivity|]. split; [|split; reflexivity].
          split; [auto|]. split; [auto|]. split; [lia|]. split; auto.
        - unfold post3. cbn [fst snd]. repeat split; auto.
          intros k' Hk'. destruct (Z.eq_dec k' k) as [->|Hne]; [auto|apply F3; lia]. }
      + cbn beta. intros [fnd s'] [(F1 & F2 & F3)|(F1 & F2 & F3 & F4)]; cbn [fst snd] in *.
        * subst. split; [|split; [reflexivity|split; [reflexivity|auto]]].
          unfold is_inv. split; [auto|split; [auto|split; [lia|split; auto]]].
        * split; [auto|split; [auto|split; [auto|intros; congruence]]].
      + intros ? [].
      + auto.
    - intros [fnd s'] (J1 & J2 & J3 & J4). cbn [fst snd] in *.
      destruct fnd; [unfold post3; auto|].
      specialize (J4 eq_refl). destruct J1 as (K1 & K2 & K3 & K4 & K5).
      (* pigeonhole: a new distinct cell of the grid -> room is left *)
      assert (Hroom : is_j s' + 1 <= ntot).
      { set (f := fun k : nat => if (Z.of_nat k <? is_j s') then nth k (is_cells s') 0 else c).
        assert (Hp := pigeon f (Z.to_nat (is_j s' + 1)) ntot).
        rewrite Z2Nat.id in Hp by lia. apply Hp; [lia| |].
        - intros k Hk. unfold f. destruct (Z.of_nat k <? is_j s') eqn:E2; zb; [|lia].
          specialize (K4 (Z.of_nat k) ltac:(lia)). rewrite Nat2Z.id in K4. auto.
        - intros k1 k2 Hk1 Hk2. unfold f.
          destruct (Z.of_nat k1 <? is_j s') eqn:E2; destruct (Z.of_nat k2 <? is_j s') eqn:E3; zb; intros Ef.
          + assert (Z.of_nat k1 = Z.of_nat k2); [|lia].
            apply K5; try lia. now rewrite !Nat2Z.id.
          + exfalso. rewrite J3, J2 in *. apply (J4 (Z.of_nat k1)); [lia|]. now rewrite Nat2Z.id.
          + exfalso. rewrite J3, J2 in *. apply (J4 (Z.of_nat k2)); [lia|]. now rewrite Nat2Z.id.
          + lia. }
      acc3. acc3. unfold post3. unfold is_inv; cbn [is_j is_cells is_w]. rewrite !Zlen_upd.
      split; [auto|]. split; [auto|]. split; [lia|]. split.
      + intros k Hk. destruct (Z.eq_dec k (is_j s')) as [->|Hne].
        * rewrite nth_upd_same by (unfold Zlen in K1; lia). auto.
        * rewrite nth_upd_other by lia. apply K4; lia.
      + intros k1 k2 Hk1 Hk2.
        destruct (Z.eq_dec k1 (is_j s')) as [->|Hn1]; destruct (Z.eq_dec k2 (is_j s')) as [->|Hn2]; auto.
        * rewrite nth_upd_same by (unfold Zlen in K1; lia). rewrite nth_upd_other by lia.
          intros Ef. exfalso. rewrite J3, J2 in *. apply (J4 k2); [lia|auto].
        * rewrite nth_upd_same by (unfold Zlen in K1; lia). rewrite nth_upd_other by lia.
          intros Ef. exfalso. rewrite J3, J2 in *. apply (J4 k1); [lia|auto].
        * rewrite !nth_upd_other by lia. apply K5; lia. }
  all: fin3.
Qed.

End Intersect.

Lemma intersect_safe_RN : forall nrows ncols xll yll csz nval xy npoints idxcells weights,
  0 <= nrows <= MAX64 -> 0 <= ncols <= MAX64 -> nrows * ncols <= MAX64 ->
  Zlen xy = 2 * nval -> Zlen npoints = 1 ->
  Zlen idxcells = nrows * ncols -> Zlen weights = nrows * ncols ->
  safe (intersect RN true nrows ncols xll yll csz nval xy npoints idxcells weights).
Proof. exact (intersect_safe RN RN_trunc_in_range). Qed.

(* ================================================================== *)
(* c_delineate_area: the three buffers have the length nval the caller chose (any nval);
   every store is preceded by the "buffer full" tests, and the walk ends within nval+1
   layers because every layer but the last stores at least one cell. *)

Lemma da_isinlet_post ninlets idxinlets idx :
  Zlen idxinlets = ninlets ->
  post3 (da_isinlet ninlets idxinlets idx) (fun _ => True) (fun _ => False) (fun _ _ => False).
Proof.
  intros Hl. unfold da_isinlet. apply post3_seq.
  eapply post3_weaken.
  { apply (forZ_post3 (fun _ (_ : bool) => True) (fun _ => True) (fun _ _ => False)); auto.
    - rewrite <- Hl. apply Zlen_nonneg.
    - intros m f Hm _. acc3. destruct (_ =? idx); cbn; auto. }
  all: fin3. intros; exact I.
Qed.

Definition da_lens (nval : Z) (s : dast) : Prop :=
  Zlen (da_area s) = nval /\ Zlen (da_b1 s) = nval /\ Zlen (da_b2 s) = nval.

Lemma da_layer_step_post nrows ncols code flowdir idxoutlet ninlets idxinlets nval s :
  0 <= nrows -> 0 <= ncols -> nrows * ncols <= MAX64 ->
  Zlen code = 9 -> Zlen flowdir = nrows * ncols -> Zlen idxinlets = ninlets -> 1 <= nval ->
  da_lens nval s -> 0 <= da_i s <= nval - 1 -> 0 <= da_nb2 s <= nval ->
  post3 (da_layer_step nrows ncols code flowdir idxoutlet ninlets idxinlets nval s)
        (fun s' => da_lens nval s' /\ da_i s < da_i s' <= nval - 1 /\ 0 <= da_nb2 s' <= nval)
        (fun _ => False) (fun _ _ => True).
Proof.
  intros Hr Hc Hg Hcd Hfd Hin Hnv (L1 & L2 & L3) Hi Hnb. unfold da_layer_step.
  apply post3_seq. eapply post3_weaken.
  { (* swap *)
    apply (forZ_inv3 (fun t => da_lens nval t /\ da_i t = da_i s /\ da_nb2 t = da_nb2 s /\
                               da_layer t = da_layer s) (fun _ _ => True)).
    { unfold da_lens; auto 10. }
    intros l t Hl ((M1 & M2 & M3) & M4 & M5 & M6). acc3. acc3.
    unfold post3, da_lens; cbn [da_area da_b1 da_b2 da_i da_nb2 da_layer]. rewrite Zlen_upd. auto 10. }
  2, 3: fin3.
  cbn beta. intros t ((M1 & M2 & M3) & M4 & M5 & M6).
  apply post3_seq.
  set (i0 := da_i s) in *.
  pose (J := fun u : dast => da_lens nval u /\ 0 <= da_i u <= nval - 1 /\ 0 <= da_nb2 u <= nval - 1 /\
                             da_i u = i0 + da_nb2 u /\ da_nb1 u = da_nb2 s /\ da_layer u = da_layer s).
  eapply post3_weaken.
  { apply (forZ_inv3 J (fun _ _ => True)).
    { unfold J, da_lens; cbn [da_area da_b1 da_b2 da_i da_nb1 da_nb2 da_layer].
      rewrite M4, M5, M6. repeat split; auto; lia. }
    cbn [da_nb1]. rewrite M5.
    intros l u Hl Ju. destruct Ju as ((N1 & N2 & N3) & N4 & N5 & N6 & N7 & N8).
    acc3. set (cell := nth (Z.to_nat l) (da_b1 u) 0).
    eapply post3_call_gen with (P := fun _ idxup => Zlen idxup = 9).
    { eapply post3_weaken.
      - apply (upstream_post nrows ncols code flowdir 1 [cell]); auto;
          try reflexivity; unfold UPSTREAM_STRIDE, IDXUP_SIZE; rewrite Zlen_repeat; reflexivity.
      - intros ? [].
      - intros ? [].
      - cbn beta. unfold UPSTREAM_STRIDE. intros; lia. }
    intros _ idxup Hup.
    apply (forZ_inv3b J (fun _ _ => True)).
    { unfold J, da_lens; auto 12. }
    intros k v Hk Jv. destruct Jv as ((P1 & P2 & P3) & P4 & P5 & P6 & P7 & P8).
    acc3. destruct (0 <=? _); [|unfold post3, J, da_lens; auto 12].
    eapply post3_call_next; [apply da_isinlet_post; auto|].
    intros isin _. destruct isin; [unfold post3, J, da_lens; auto 12|].
    destruct (da_i v =? nval - 1) eqn:E1; zb; [exact I|].
    acc3. acc3.
    destruct (da_nb2 v =? nval - 1) eqn:E2; zb; [exact I|].
    unfold post3, J, da_lens; cbn [da_area da_b1 da_b2 da_i da_nb1 da_nb2 da_layer].
    rewrite !Zlen_upd. repeat split; auto; lia. }
  2, 3: fin3.
  cbn beta. intros u ((N1 & N2 & N3) & N4 & N5 & N6 & N7 & N8).
  destruct (da_nb2 u =? 0) eqn:E0; zb; [exact I|].
  apply post3_seq.
  destruct (da_layer u =? 0).
  - destruct (da_i u =? nval - 1) eqn:E1; zb; [exact I|].
    acc3. unfold post3, da_lens; cbn [da_area da_b1 da_b2 da_i da_nb1 da_nb2 da_layer].
    rewrite Zlen_upd. repeat split; auto; lia.
  - unfold post3, da_lens; cbn [da_area da_b1 da_b2 da_i da_nb1 da_nb2 da_layer].
    repeat split; auto; lia.
Qed.

Lemma delineate_area_safe : forall nrows ncols code flowdir idxoutlet ninlets idxinlets nval area b1 b2,
  0 <= nrows -> 0 <= ncols -> nrows * ncols <= MAX64 ->
  Zlen code = 9 -> Zlen flowdir = nrows * ncols -> Zlen idxinlets = ninlets ->
  Zlen area = nval -> Zlen b1 = nval -> Zlen b2 = nval ->
  safe (delineate_area nrows ncols code flowdir idxoutlet ninlets idxinlets nval area b1 b2).
Proof.
  intros nrows ncols code flowdir idxoutlet ninlets idxinlets nval area b1 b2
         Hr Hc Hg Hcd Hfd Hin Ha H1 H2.
  unfold delineate_area.
  destruct (nval <? 1) eqn:E; zb; [exact I|].
  rewrite chk64_ok' by (unfold MAX64 in *; nia). cbn [bindr].
  destruct ((idxoutlet <? 0) || (nrows * ncols - 1 <? idxoutlet)); [exact I|].
  apply (post3_safe _ (fun _ => True) (fun _ => True) (fun _ _ => True)).
  apply post3_seq. eapply post3_weaken.
  { apply (forZ_inv3 (fun _ : dast => True) (fun _ _ => True)); auto.
    intros m u Hm _. acc3. destruct (_ || _); cbn; auto. }
  2, 3: fin3.
  cbn beta. intros _ _. acc3. apply post3_finish.
  eapply post3_weaken.
  { apply (while_loop_post3
             (fun s => da_lens nval s /\ 0 <= da_i s <= nval - 1 /\ 0 <= da_nb2 s <= nval)
             (fun s => nval - da_i s) (fun _ => False) (fun _ _ => True)).
    - unfold da_lens; cbn. rewrite Zlen_upd. repeat split; auto; lia.
    - cbn. lia.
    - intros s (L & I1 & I2) Hm.
      eapply post3_weaken; [apply da_layer_step_post; auto| | |]; fin3.
      cbn beta. intros s' (L' & I1' & I2'). split; [split; [auto|split; lia]|lia]. }
  all: fin3.
Qed.
