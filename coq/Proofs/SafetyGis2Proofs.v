(* C05 - proofs about the index-level models of the gis kernels, continued:
   c_upstream, c_delineate_river, flow path lengths, c_inside, c_intersect,
   c_delineate_area. *)
From Coq Require Import ZArith Bool List String Lia Reals Lra PrimFloat.
From Hy Require Import Base.Num Gen.ConstsC05 Model.Safety Model.SafetyGis Proofs.SafetyProofs
  Proofs.SafetyGisProofs.
Import ListNotations.
Open Scope Z_scope.

Ltac fin3 := cbn beta; auto; try (intros; contradiction).

Lemma forZ_inv3b {S} (I : S -> Prop) PR lo hi (body : Z -> S -> step S) s :
  I s ->
  (forall j t, lo <= j < hi -> I t -> post3 (body j t) I I PR) ->
  post3 (forZ lo hi body s) I I PR.
Proof.
  intros. eapply post3_weaken; [apply (forZ_inv3 I PR); eauto| | |]; cbn beta; auto.
  intros ? [].
Qed.

(* ================================================================== *)
(* c_upstream *)

Lemma upstream_post nrows ncols code flowdir nval idxdown idxup :
  0 <= nrows -> 0 <= ncols -> nrows * ncols <= MAX64 ->
  Zlen code = 9 -> Zlen flowdir = nrows * ncols -> Zlen idxdown = nval ->
  Zlen idxup = UPSTREAM_STRIDE * nval ->
  post3 (upstream nrows ncols code flowdir nval idxdown idxup) (fun _ => False) (fun _ => False)
        (fun _ out => Zlen out = UPSTREAM_STRIDE * nval).
Proof.
  intros Hr Hc Hg Hcd Hfd Hdn Hup. unfold upstream. unfold UPSTREAM_STRIDE in *.
  set (ntot := nrows * ncols) in *.
  apply post3_finish. eapply post3_weaken.
  { apply (forZ_inv3 (fun out => Zlen out = 9 * nval) (fun _ out => Zlen out = 9 * nval)); auto.
    intros i out Hi I1. acc3. set (cell := nth (Z.to_nat i) idxdown 0).
    rewrite chk64_ok' by (unfold MAX64, ntot in *; nia). cbn [bindr].
    destruct ((cell <? 0) || (ntot <=? cell)) eqn:E; [cbn; auto|]. zb.
    destruct (nb_local_good ntot) as (L1 & L2).
    eapply post3_call; [apply neighbours_post; auto|].
    intros c nb (N1 & N2 & _).
    eapply (post3_sub _ _ _ (fun s => Zlen (up_out s) = 9 * nval /\ 0 <= up_k s <= 9)).
    - eapply post3_weaken.
      { apply (forZ_post3 (fun j s => Zlen (up_out s) = 9 * nval /\ 0 <= up_k s <= j) (fun _ => False)
                 (fun _ s => Zlen (up_out s) = 9 * nval)); [lia|cbn; lia|].
        intros j s Hj (J1 & J2). acc3.
        assert (G : cgood ntot (nth (Z.to_nat j) nb 0)).
        { rewrite Forall_forall in N2. apply N2. apply nth_In. unfold Zlen in N1; lia. }
        destruct (_ =? -1) eqn:E1; zb; [cbn; lia|].
        destruct G as [G|G]; [lia|].
        acc3. destruct (_ =? 0); [cbn; lia|].
        acc3. destruct (_ =? _); [|cbn; lia].
        acc3. cbn. rewrite Zlen_upd. lia. }
      + cbn beta. intros s [(J1 & J2)|[]]. split; auto.
      + intros ? [].
      + auto.
    - intros s (J1 & J2).
      eapply (post3_sub _ _ _ (fun s => Zlen (up_out s) = 9 * nval)).
      + eapply post3_weaken.
        { apply (forZ_inv3 (fun s' => Zlen (up_out s') = 9 * nval /\ up_k s' = up_k s)
                   (fun _ s => Zlen (up_out s) = 9 * nval)); [auto|].
          intros j s' Hj (K1 & K2). acc3. cbn. rewrite Zlen_upd. auto. }
        all: fin3. intros ? (? & _); auto.
      + intros s' K1. cbn; auto. }
  all: fin3.
Qed.

Lemma upstream_safe : forall nrows ncols code flowdir nval idxdown idxup,
  0 <= nrows -> 0 <= ncols -> nrows * ncols <= MAX64 ->
  Zlen code = 9 -> Zlen flowdir = nrows * ncols -> Zlen idxdown = nval ->
  Zlen idxup = UPSTREAM_STRIDE * nval ->
  safe (upstream nrows ncols code flowdir nval idxdown idxup).
Proof. intros; eapply post3_safe; apply upstream_post; auto. Qed.

(* ================================================================== *)
(* c_delineate_river *)

Lemma delineate_river_safe : forall nrows ncols code flowdir idxupstream nval npoints idxcells data,
  0 <= nrows -> 0 <= ncols -> nrows * ncols <= MAX64 ->
  Zlen code = 9 -> Zlen flowdir = nrows * ncols ->
  Zlen npoints = 1 -> Zlen idxcells = nval -> Zlen data = RIVER_NCOLS * nval ->
  safe (delineate_river nrows ncols code flowdir idxupstream nval npoints idxcells data).
Proof.
  intros nrows ncols code flowdir up0 nval npoints idxcells data Hr Hc Hg Hcd Hfd Hnp Hcl Hdt.
  unfold delineate_river. unfold RIVER_NCOLS in *.
  rewrite chk64_ok' by (unfold MAX64 in *; nia). cbn [bindr].
  set (ntot := nrows * ncols) in *.
  destruct ((up0 <? 0) || (ntot - 1 <? up0)) eqn:E; [exact I|]. zb.
  assert (Hnc : 0 < ncols) by (unfold ntot in *; nia).
  acc3.
  apply (post3_safe _ (fun _ => True) (fun _ => True) (fun _ _ => True)).
  apply post3_finish. eapply post3_weaken.
  { apply (forZ_inv3 (fun s => 0 <= rv_up s < ntot /\ Zlen (rv_np s) = 1 /\ Zlen (rv_cells s) = nval /\
                               Zlen (rv_data s) = 5 * nval) (fun _ _ => True)).
    { cbn. rewrite Zlen_upd. repeat split; auto; lia. }
    intros i s Hi (I1 & I2 & I3 & I4). acc3. acc3. acc3.
    eapply post3_call_next; [apply down1_post; auto; lia|].
    cbn beta. intros [rc d] (B1 & B2 & B3). cbn [fst snd] in *.
    assert (rc = 0) by (apply B3; auto). destruct (B2 H1) as (_ & G).
    acc3.
    rewrite (mark_ok "data" _ (5 * i + 1)) by (rewrite ?Zlen_upd; lia). cbn [bindr].
    rewrite (mark_ok "data" _ (5 * i + 2)) by (rewrite ?Zlen_upd; lia). cbn [bindr].
    destruct (getnxy_any ncols (rv_up s) ltac:(lia)) as (p1 & G1). rewrite G1. cbn [bindr].
    rewrite (mark_ok "data" _ (5 * i + 3)) by (rewrite ?Zlen_upd; lia). cbn [bindr].
    rewrite (mark_ok "data" _ (5 * i + 4)) by (rewrite ?Zlen_upd; lia). cbn [bindr].
    destruct (getnxy_any ncols d ltac:(lia)) as (p2 & G2). rewrite G2. cbn [bindr].
    destruct (d <? 0) eqn:E2; zb; [exact I|].
    cbn. rewrite !Zlen_upd. repeat split; auto; destruct G as [G|[G|G]]; lia. }
  all: fin3.
Qed.

(* ================================================================== *)
(* c_delineate_flowpathlengths_in_catchment *)

(* a cell outside the grid: c_downstream returns an error and leaves idxdown[0] alone *)
Lemma down1_invalid nrows ncols code flowdir c d0 :
  - MAX64 - 1 <= nrows * ncols <= MAX64 -> ~ (0 <= c < nrows * ncols) ->
  down1 nrows ncols code flowdir c d0 = Next (1, d0).
Proof.
  intros Hg Hc. unfold down1, downstream, forZ. cbn [Z.sub Z.to_nat Pos.to_nat Pos.iter_op Nat.add for_loop].
  rewrite (rd_ok "idxup" 0 [c] 0) by (cbn; lia). cbn [bindr].
  rewrite chk64_ok' by lia. cbn [bindr].
  replace ((nth (Z.to_nat 0) [c] 0 <? 0) || (nrows * ncols <=? nth (Z.to_nat 0) [c] 0)) with true.
  - reflexivity.
  - symmetry. cbn [nth Z.to_nat]. apply orb_true_iff.
    destruct (Z_lt_ge_dec c 0); [left; apply Z.ltb_lt; auto|right; apply Z.leb_le; lia].
Qed.

Lemma flowpathlengths_safe : forall nrows ncols code flowdir nval area outlet fpl,
  0 <= nrows -> 0 <= ncols -> nrows * ncols <= MAX64 ->
  Zlen code = 9 -> Zlen flowdir = nrows * ncols -> Zlen area = nval -> Zlen fpl = 3 * nval ->
  safe (flowpathlengths nrows ncols code flowdir nval area outlet fpl).
Proof.
  intros nrows ncols code flowdir nval area outlet fpl Hr Hc Hg Hcd Hfd Ha Hf.
  unfold flowpathlengths.
  set (ntot := nrows * ncols) in *.
  apply (post3_safe _ (fun _ => True) (fun _ => True) (fun _ _ => True)).
  apply post3_finish. eapply post3_weaken.
  { apply (forZ_inv3 (fun o => Zlen o = 3 * nval) (fun _ _ => True)); auto.
    intros i o Hi I1. acc3.
    eapply (post3_sub _ _ _ (fun s => 0 <= fp_down s -> 0 < ncols)).
    - eapply post3_weaken.
      { apply (for_loop_inv3 (fun s => 0 <= fp_down s -> 0 < ncols) (fun _ _ => True)); [cbn; lia|].
        intros j s Hs.
        assert (Hv : 0 <= fp_up s < ntot \/ ~ (0 <= fp_up s < ntot)) by lia.
        destruct Hv as [Hv|Hv].
        - eapply post3_call_next; [apply down1_post; auto; lia|].
          cbn beta. intros [rc d] (B1 & B2 & B3). cbn [fst snd] in *.
          assert (Hnc : 0 < ncols) by (unfold ntot in *; nia).
          destruct ((d <? 0) || (0 <? rc)); [cbn; auto|].
          destruct (d =? outlet); [cbn; auto|].
          destruct (getnxy_any ncols d ltac:(lia)) as (p1 & G1). rewrite G1. cbn [bindr].
          destruct (getnxy_any ncols (fp_up s) ltac:(lia)) as (p2 & G2). rewrite G2. cbn; auto.
        - rewrite down1_invalid by (auto; unfold MAX64, ntot in *; nia).
          cbn [call]. rewrite orb_true_r. cbn. auto. }
      all: fin3.
    - intros s Hs.
      assert (Eg : exists u, (if (fp_ipath s + 1 <? nval) && (0 <=? fp_down s)
                   then let? _ := getnxy ncols (fp_down s) in let? _ := getnxy ncols (fp_up s) in Ok tt
                   else Ok tt) = Ok u).
      { destruct ((fp_ipath s + 1 <? nval) && (0 <=? fp_down s)) eqn:E; [|eauto]. zb.
        specialize (Hs ltac:(lia)).
        destruct (getnxy_any ncols (fp_down s) ltac:(lia)) as (p1 & G1). rewrite G1. cbn [bindR].
        destruct (getnxy_any ncols (fp_up s) ltac:(lia)) as (p2 & G2). rewrite G2. cbn [bindR]. eauto. }
      destruct Eg as (u & Eu). rewrite Eu. cbn [bindr].
      acc3. acc3.
      rewrite (mark_ok "flowpathlengths" _ (3 * i + 1)) by (rewrite ?Zlen_upd; lia). cbn [bindr].
      rewrite (mark_ok "flowpathlengths" _ (3 * i + 2)) by (rewrite ?Zlen_upd; lia). cbn.
      now rewrite !Zlen_upd. }
  all: fin3.
Qed.

(* ================================================================== *)
(* c_inside: at least one vertex (the wrapper's min()/max() raise on an empty polygon) *)

Section Inside.
Context {T : Type} (N : NumOps T).

Lemma inside_safe : forall nprint npoints points nvertices polygon xlim ylim ins,
  1 <= nvertices <= 1073741823 ->
  Zlen points = 2 * npoints -> Zlen polygon = 2 * nvertices -> Zlen xlim = 2 -> Zlen ylim = 2 ->
  Zlen ins = npoints ->
  safe (inside N nprint npoints points nvertices polygon xlim ylim ins).
Proof.
  intros nprint npoints points nvertices polygon xlim ylim ins Hv Hp Hpo Hx Hy Hi.
  unfold inside.
  apply (post3_safe _ (fun _ => True) (fun _ => True) (fun _ _ => True)).
  apply post3_finish. eapply post3_weaken.
  { apply (forZ_inv3 (fun o => Zlen o = npoints) (fun _ _ => True)); auto.
    intros ipt o Hj I1. acc3. acc3. acc3. acc3. acc3. acc3.
    destruct (_ || _); [cbn; auto|].
    assert (Ep : exists v, (if 0 <? nprint then zmod ipt nprint else Ok 0) = Ok v).
    { unfold zmod. destruct (0 <? nprint) eqn:E; zb; [|eauto].
      destruct (nprint =? 0) eqn:E2; zb; [lia|eauto]. }
    destruct Ep as (v & Ev). rewrite Ev. cbn [bindr].
    acc3. acc3. acc3.
    eapply (post3_sub _ _ _ (fun _ => True)).
    - eapply post3_weaken.
      { apply (forZ_inv3 (fun _ : unit => True) (fun _ _ => True)); auto.
        intros ivert u Hiv _. unfold zmod.
        destruct (nvertices =? 0) eqn:E; zb; [lia|]. cbn [bindr].
        assert (Hm := Z.rem_bound_pos ivert nvertices ltac:(lia) ltac:(lia)).
        rewrite (chk32_ok (2 * Z.rem ivert nvertices)) by lia.
        unfold mul32. rewrite chk32_ok by lia. cbn [bindr].
        acc3. acc3. cbn; auto. }
      all: fin3.
    - intros _ _. cbn. now rewrite Zlen_upd. }
  all: fin3.
Qed.

End Inside.
