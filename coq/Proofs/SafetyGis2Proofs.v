(* C05 - proofs about the index-level models of the gis kernels, continued:
   c_upstream, c_delineate_river, flow path lengths, c_inside, c_intersect,
   c_delineate_area. *)
From Coq Require Import ZArith Bool List String Lia Reals Lra PrimFloat.
From Hy Require Import Base.Num Gen.ConstsC05 Model.Safety Model.SafetyGis Proofs.SafetyProofs
  Proofs.SafetyGisProofs.
Import ListNotations.
Open Scope Z_scope.

Ltac fin3 := cbn beta; auto; try (intros; contradiction).

Lemma forZ_inv3b {S} (I : S -> Prop) PR lo hi (body : Z -> S -> step S) s :
  I s ->
  (forall j t, lo <= j < hi -> I t -> post3 (body j t) I I PR) ->
  post3 (forZ lo hi body s) I I PR.
Proof.
  intros. eapply post3_weaken; [apply (forZ_inv3 I PR); eauto| | |]; cbn beta; auto.
  intros ? [].
Qed.

(* ================================================================== *)
(* c_upstream *)

Lemma upstream_post nrows ncols code flowdir nval idxdown idxup :
  0 <= nrows -> 0 <= ncols -> nrows * ncols <= MAX64 ->
  Zlen code = 9 -> Zlen flowdir = nrows * ncols -> Zlen idxdown = nval ->
  Zlen idxup = UPSTREAM_STRIDE * nval ->
  post3 (upstream nrows ncols code flowdir nval idxdown idxup) (fun _ => False) (fun _ => False)
        (fun _ out => Zlen out = UPSTREAM_STRIDE * nval).
Proof.
  intros Hr Hc Hg Hcd Hfd Hdn Hup. unfold upstream. unfold UPSTREAM_STRIDE in *.
  set (ntot := nrows * ncols) in *.
  apply post3_finish. eapply post3_weaken.
  { apply (forZ_inv3 (fun out => Zlen out = 9 * nval) (fun _ out => Zlen out = 9 * nval)); auto.
    intros i out Hi I1. acc3. set (cell := nth (Z.to_nat i) idxdown 0).
    rewrite chk64_ok' by (unfold MAX64, ntot in *; nia). cbn [bindr].
    destruct ((cell <? 0) || (ntot <=? cell)) eqn:E; [cbn; auto|]. zb.
    destruct (nb_local_good ntot) as (L1 & L2).
    eapply post3_call; [apply neighbours_post; auto|].
    intros c nb (N1 & N2 & _).
    eapply (post3_sub _ _ _ (fun s => Zlen (up_out s) = 9 * nval /\ 0 <= up_k s <= 9)).
    - eapply post3_weaken.
      { apply (forZ_post3 (fun j s => Zlen (up_out s) = 9 * nval /\ 0 <= up_k s <= j) (fun _ => False)
                 (fun _ s => Zlen (up_out s) = 9 * nval)); [lia|cbn; lia|].
        intros j s Hj (J1 & J2). acc3.
        assert (G : cgood ntot (nth (Z.to_nat j) nb 0)).
        { rewrite Forall_forall in N2. apply N2. apply nth_In. unfold Zlen in N1; lia. }
        destruct (_ =? -1) eqn:E1; zb; [cbn; lia|].
        destruct G as [G|G]; [lia|].
        acc3. destruct (_ =? 0); [cbn; lia|].
        acc3. destruct (_ =? _); [|cbn; lia].
        acc3. cbn. rewrite Zlen_upd. lia. }
      + cbn beta. intros s [(J1 & J2)|[]]. split; auto.
      + intros ? [].
      + auto.
    - intros s (J1 & J2).
      eapply (post3_sub _ _ _ (fun s => Zlen (up_out s) = 9 * nval)).
      + eapply post3_weaken.
        { apply (forZ_inv3 (fun s' => Zlen (up_out s') = 9 * nval /\ up_k s' = up_k s)
                   (fun _ s => Zlen (up_out s) = 9 * nval)); [auto|].
          intros j s' Hj (K1 & K2). acc3. cbn. rewrite Zlen_upd. auto. }
        all: fin3. intros ? (? & _); auto.
      + intros s' K1. cbn; auto. }
  all: fin3.
Qed.

Lemma upstream_safe : forall nrows ncols code flowdir nval idxdown idxup,
  0 <= nrows -> 0 <= ncols -> nrows * ncols <= MAX64 ->
  Zlen code = 9 -> Zlen flowdir = nrows * ncols -> Zlen idxdown = nval ->
  Zlen idxup = UPSTREAM_STRIDE * nval ->
  safe (upstream nrows ncols code flowdir nval idxdown idxup).
Proof. intros; eapply post3_safe; apply upstream_post; auto. Qed.

(* ================================================================== *)
(* c_delineate_river *)

Lemma delineate_river_safe : forall nrows ncols code flowdir idxupstream nval npoints idxcells data,
  0 <= nrows -> 0 <= ncols -> nrows * ncols <= MAX64 ->
  Zlen code = 9 -> Zlen flowdir = nrows * ncols ->
  Zlen npoints = 1 -> Zlen idxcells = nval -> Zlen data = RIVER_NCOLS * nval ->
  safe (delineate_river nrows ncols code flowdir idxupstream nval npoints idxcells data).
Proof.
  intros nrows ncols code flowdir up0 nval npoints idxcells data Hr Hc Hg Hcd Hfd Hnp Hcl Hdt.
  unfold delineate_river. unfold RIVER_NCOLS in *.
  rewrite chk64_ok' by (unfold MAX64 in *; nia). cbn [bindr].
  set (ntot := nrows * ncols) in *.
  destruct ((up0 <? 0) || (ntot - 1 <? up0)) eqn:E; [exact I|]. zb.
  assert (Hnc : 0 < ncols) by (unfold ntot in *; nia).
  acc3.
  apply (post3_safe _ (fun _ => True) (fun _ => True) (fun _ _ => True)).
  apply post3_finish. eapply post3_weaken.
  { apply (forZ_inv3 (fun s => 0 <= rv_up s < ntot /\ Zlen (rv_np s) = 1 /\ Zlen (rv_cells s) = nval /\
                               Zlen (rv_data s) = 5 * nval) (fun _ _ => True)).
    { cbn. rewrite Zlen_upd. repeat split; auto; lia. }
    intros i s Hi (I1 & I2 & I3 & I4). acc3. acc3. acc3.
    eapply post3_call_next; [apply down1_post; auto; lia|].
    cbn beta. intros [rc d] (B1 & B2 & B3). cbn [fst snd] in *.
    assert (rc = 0) by (apply B3; auto). destruct (B2 H1) as (_ & G).
    acc3.
    rewrite (mark_ok "data" _ (5 * i + 1)) by (rewrite ?Zlen_upd; lia). cbn [bindr].
    rewrite (mark_ok "data" _ (5 * i + 2)) by (rewrite ?Zlen_upd; lia). cbn [bindr].
    destruct (getnxy_any ncols (rv_up s) ltac:(lia)) as (p1 & G1). rewrite G1. cbn [bindr].
    rewrite (mark_ok "data" _ (5 * i + 3)) by (rewrite ?Zlen_upd; lia). cbn [bindr].
    rewrite (mark_ok "data" _ (5 * i + 4)) by (rewrite ?Zlen_upd; lia). cbn [bindr].
    destruct (getnxy_any ncols d ltac:(lia)) as (p2 & G2). rewrite G2. cbn [bindr].
    destruct (d <? 0) eqn:E2; zb; [exact I|].
    cbn. rewrite !Zlen_upd. repeat split; auto; destruct G as [G|[G|G]]; lia. }
  all: fin3.
Qed.

(* ================================================================== *)
(* c_delineate_flowpathlengths_in_catchment *)

Lemma flowpathlengths_safe : forall nrows ncols code flowdir nval area outlet fpl,
  0 <= nrows -> 0 <= ncols -> nrows * ncols <= MAX64 ->
  Zlen code = 9 -> Zlen flowdir = nrows * ncols -> Zlen area = nval -> Zlen fpl = 3 * nval ->
  safe (flowpathlengths nrows ncols code flowdir nval area outlet fpl).
Proof.
  intros nrows ncols code flowdir nval area outlet fpl Hr Hc Hg Hcd Hfd Ha Hf.
  unfold flowpathlengths.
  set (ntot := nrows * ncols) in *.
  apply (post3_safe _ (fun _ => True) (fun _ => True) (fun _ _ => True)).
  apply post3_finish. eapply post3_weaken.
  { apply (forZ_inv3 (fun o => Zlen o = 3 * nval) (fun _ _ => True)); auto.
    intros i o Hi I1. acc3.
    eapply (post3_sub _ _ _ (fun s => 0 <= fp_down s -> 0 < ncols)).
    - eapply post3_weaken.
      { apply (for_loop_inv3 (fun s => 0 <= fp_down s -> 0 < ncols) (fun _ _ => True)); [cbn; lia|].
        intros j s Hs.
        eapply post3_call_next; [apply down1_post; auto; lia|].
        cbn beta. intros [rc d] (B1 & B2 & B3). cbn [fst snd] in *.
        destruct ((d <? 0) || (0 <? rc)) eqn:E.
        { cbn. apply orb_true_iff in E. intros Hd. destruct E; zb; [lia|].
          (* rc = 1: idxdown[0] kept its previous content *)
          destruct B1; [lia|]. assert (Hnc : 0 < ncols \/ ncols <= 0) by lia. destruct Hnc; auto.
          (* ncols <= 0 is impossible only when a previous call succeeded: use the invariant *)
          exfalso. revert Hd. cbn. intros Hd.
          (* d may be anything here: strengthen through down1's contract *)
          admit. }
        admit. }
      all: fin3.
    - admit. }
  all: fin3.
Admitted.
